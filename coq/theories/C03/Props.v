(* C03/Props.v — property theorems only: each is closed by [exact] of a lemma proved in
   Proofs.v and followed by Print Assumptions.  All of them quantify over every
   configuration [cfg] (level, coordinator node id — owner at any position or not an
   owner —, out-of-order mode, local shard-not-found path), every list of owners of any
   length with any environment per owner, and every arrival order [arr] of the answers
   (any [Permutation] of what the owners send). *)
From Coq Require Import Permutation.
From Verif Require Import C03.Model C03.Spec C03.Proofs C03.Level C03.LevelProofs.
From Verif Require Import C03.Batch C03.BatchProofs C03.Handoff C03.Remote C03.HandoffProofs.
From VerifGen Require Import Consts.
Open Scope N_scope.

(* success is reported only if the requested level was met *)
Theorem success_sound :
  forall cfg owners arr, Permutation arr (answers cfg owners) ->
  write_to_shard cfg owners arr = Success -> level_met cfg owners = true.
Proof. exact Proofs.success_sound. Qed.
Print Assumptions success_sound.

(* ... and it IS reported whenever the level was met by owners answering before the
   timeout, whatever the order in which the answers arrive *)
Theorem success_complete_any_order :
  forall cfg owners arr, Permutation arr (answers cfg owners) ->
  level_met cfg owners = true -> write_to_shard cfg owners arr = Success.
Proof. exact Proofs.success_complete. Qed.
Print Assumptions success_complete_any_order.

(* success / timeout / partial write / failure exactly as the spec demands *)
Theorem classification :
  forall cfg owners arr, Permutation arr (answers cfg owners) ->
  class_of (write_to_shard cfg owners arr) = expected_class cfg owners.
Proof. exact Proofs.classification. Qed.
Print Assumptions classification.

(* hinted handoff is offered exactly once to a remote owner that failed retryably or
   waits behind its non-empty queue, never otherwise; stores and queues hold the points
   exactly when the environment allows it *)
Theorem hh_offered_exactly_once :
  forall cfg o,
    s_hh (owner_step cfg o) = (if hh_due cfg o then 1 else 0) /\
    s_queued (owner_step cfg o) = queued cfg o /\
    s_stored (owner_step cfg o) = stored cfg o.
Proof.
  intros cfg o. split; [exact (step_hh cfg o) | split; [exact (step_queued cfg o) | exact (step_stored cfg o)]].
Qed.
Print Assumptions hh_offered_exactly_once.

(* a failed write names the first non-skipped error in arrival order *)
Theorem failed_reports_first_real_error :
  forall cfg owners arr e, Permutation arr (answers cfg owners) ->
  write_to_shard cfg owners arr = Failed e -> e = first_err arr.
Proof. exact Proofs.failed_error. Qed.
Print Assumptions failed_reports_first_real_error.

(* an arrival order given by owner indices that lists every answering owner once is such
   a permutation (ties the harness's input format to the theorems above) *)
Theorem valid_order_is_permutation :
  forall cfg owners order, valid_order cfg owners order = true ->
  Permutation (arrivals cfg owners order) (answers cfg owners).
Proof. exact Proofs.valid_order_perm. Qed.
Print Assumptions valid_order_is_permutation.

(* the link used by the correspondence run: for ALL inputs the model's observation
   satisfies the executable spec that Run.v evaluates on the implementation's observation *)
Theorem model_satisfies_spec :
  forall cfg owners order, spec_ok cfg owners order (model cfg owners order) = true.
Proof. exact Proofs.model_spec_ok. Qed.
Print Assumptions model_satisfies_spec.

(* the defect repaired by the fix: commit, kept as a checked refutation of the pinned
   tree: under any, all owners durably queued behind non-empty queues, yet "write failed" *)
Theorem success_complete_unfixed_refuted :
  exists cfg owners,
    level_met cfg owners = true /\
    write_to_shard_unfixed cfg owners (answers_with false cfg owners) = Failed None.
Proof. exact Proofs.unfixed_refuted. Qed.
Print Assumptions success_complete_unfixed_refuted.

(* non-vacuity: the hypotheses are satisfiable by non-trivial values *)
Definition ex_cfg := mkC LQuorum 9 false NfNone.
Definition ex_owners :=
  [mkO 1 WRetry false HAccept; mkO 2 WOk false HAccept; mkO 3 WOk true HRefuse; mkO 4 WOk false HAccept; mkO 5 WHang false HAccept].

Example success_nonvacuous :
  level_met ex_cfg ex_owners = false /\
  level_met ex_cfg (mkO 6 WOk false HAccept :: firstn 4 ex_owners) = true /\
  write_to_shard ex_cfg (mkO 6 WOk false HAccept :: firstn 4 ex_owners)
     (arrivals ex_cfg (mkO 6 WOk false HAccept :: firstn 4 ex_owners) [3; 1; 4; 2; 0]) = Success /\
  valid_order ex_cfg (mkO 6 WOk false HAccept :: firstn 4 ex_owners) [3; 1; 4; 2; 0] = true.
Proof. vm_compute. repeat split. Qed.

Example classification_nonvacuous :
  expected_class ex_cfg ex_owners = CTimeout /\
  expected_class ex_cfg (firstn 4 ex_owners) = CPartial /\
  expected_class ex_cfg (firstn 1 ex_owners) = CFailed /\
  write_to_shard ex_cfg (firstn 1 ex_owners) (answers ex_cfg (firstn 1 ex_owners)) = Failed (Some (EW 1)) /\
  map (hh_expected ex_cfg) ex_owners = [1; 0; 1; 0; 0].
Proof. vm_compute. repeat split. Qed.

(* ---- the REQUESTED level: the `consistency` parameter of a write request ---- *)

(* For every parameter value (any bytes): it is accepted exactly when it is an ASCII spelling,
   in any letter case, of one of the four names, and then it means that level; letter case
   never matters; an absent or empty parameter asks for ONE. *)
Theorem requested_level_exact :
  forall (s : list N) (l : level),
  parse_level s = Some l <-> (is_ascii s = true /\ lower s = level_name l).
Proof. exact parse_level_iff. Qed.
Print Assumptions requested_level_exact.

Theorem requested_level_case_insensitive : forall s, parse_level (lower s) = parse_level s.
Proof. exact parse_level_case_insensitive. Qed.
Print Assumptions requested_level_case_insensitive.

Theorem requested_level_default_and_names :
  request_level [] = Some LOne /\ forall l, request_level (level_name l) = Some l.
Proof. split; [exact request_level_default|exact request_level_named]. Qed.
Print Assumptions requested_level_default_and_names.

(* both HTTP write handlers start from ConsistencyLevelOne and hand a non-empty parameter to
   ParseConsistencyLevel, refusing the request when it errs (shape re-derived from
   services/httpd/handler.go by tools/genconsts/c03.go on every run) *)
Theorem handlers_request_level_shape : c03_handler_level_shape = true.
Proof. reflexivity. Qed.
Print Assumptions handlers_request_level_shape.

Example requested_level_examples :
  parse_level [81; 117; 79; 114; 85; 109] = Some LQuorum /\ parse_level [97; 108] = None /\
  parse_level [226; 132; 170] = None /\ parse_level [] = None /\ request_level [] = Some LOne.
Proof. vm_compute. repeat split; reflexivity. Qed.

(* ================= the BATCH: WritePointsPrivilegedWithContext over several shards =================
   All of the following quantify over every request configuration [b] (level, coordinator node
   id, out-of-order mode), every [run] = list of shards of any length, each with its own
   shard-not-found path and its own owners (any number, any environment) together with the
   order in which that shard's owners answer (any [Permutation], hypothesis [valid_run]), every
   order [sarr] in which the shards' results reach the batch loop (any [Permutation] of
   [results b run]), every number of dropped points and every point [close] at which
   PointsWriter.Close is seen (None, or after k results, any k). *)

(* (a) the client is told success only if EVERY shard met the level, no point was dropped and
   no Close was seen while shards were outstanding *)
Theorem batch_success_sound :
  forall b run sarr close dropped,
  valid_run b run -> Permutation sarr (results b run) ->
  batch_write close dropped sarr = None ->
  Forall (run_met b) run /\ dropped = 0 /\ closes_early close (length run) = false.
Proof. exact BatchProofs.batch_success_sound. Qed.
Print Assumptions batch_success_sound.

(* (b) ... and success IS reported when every shard met the level in time, nothing was dropped
   and no Close happened during the wait *)
Theorem batch_success_complete :
  forall b run sarr close dropped,
  valid_run b run -> Permutation sarr (results b run) ->
  Forall (run_met b) run -> dropped = 0 -> closes_early close (length run) = false ->
  batch_write close dropped sarr = None.
Proof. exact BatchProofs.batch_success_complete. Qed.
Print Assumptions batch_success_complete.

(* (c) a reported error is never invented: it is the value sent by the FIRST shard in arrival
   order that did not meet the level (received before any Close), or the dropped-points
   partial write when every shard met the level, or closing when a Close was seen while every
   value received so far was a success ([batch_err_shape] in BatchProofs.v spells this out) *)
Theorem batch_error_is_some_shards_error :
  forall b run sarr close dropped e,
  valid_run b run -> Permutation sarr (results b run) ->
  batch_write close dropped sarr = Some e -> batch_err_shape b run sarr close dropped e.
Proof. exact BatchProofs.batch_error. Qed.
Print Assumptions batch_error_is_some_shards_error.

(* (d) what happens at the owners of a shard - direct writes, CreateShard, stored, handoff
   offers, queued - is exactly what the single-shard run of that shard does (for every arrival
   order of that run), whatever the other shards do, whatever the batch loop returns and when:
   an early error return or a Close cancels nothing; and so handoff is offered exactly once
   where due and never elsewhere at every owner of every shard *)
Theorem batch_hh_independent :
  forall b so sorder close dropped,
  (forall k p, nth_error so k = Some p -> forall order,
     nth_error (bo_shards (batch_model b so sorder close dropped)) k =
       Some (ob_owners (model (shard_cfg b (fst p)) (sh_owners (fst p)) order))) /\
  shards_ok b (map fst so) (bo_shards (batch_model b so sorder close dropped)) = true.
Proof.
  intros b so sorder close dropped. split.
  - intros k p H order. exact (effects_are_single_shard b so sorder close dropped k p H order).
  - exact (shards_ok_model b so).
Qed.
Print Assumptions batch_hh_independent.

(* the schedules the harness realises are such runs / arrival orders, and for ALL inputs the
   model's observation satisfies the executable batch spec Run.v evaluates on the
   implementation's observation *)
Theorem batch_model_satisfies_spec :
  forall b so sorder close dropped,
  let m := batch_model b so sorder close dropped in
  batch_spec_ok b so sorder close dropped (out_of (bo_result m)) (bo_shards m) = true.
Proof. exact BatchProofs.batch_model_spec_ok. Qed.
Print Assumptions batch_model_satisfies_spec.

Definition ex_b := mkB LQuorum 9 false.
Definition ex_sh_ok := mkSh 11 NfNone [mkO 1 WOk false HAccept; mkO 2 WOk false HAccept; mkO 3 WRetry false HAccept].
Definition ex_sh_bad := mkSh 12 NfNone [mkO 1 WOk false HAccept; mkO 2 WPerm false HAccept; mkO 3 WRetry false HRefuse].
Definition ex_sh_to := mkSh 13 NfNone [mkO 1 WOk false HAccept; mkO 2 WHang false HAccept; mkO 3 WRetry false HRefuse].

Example batch_nonvacuous :
  let so := [(ex_sh_ok, [0; 1; 2]); (ex_sh_bad, [2; 1; 0]); (ex_sh_to, [0; 2])] in
  valid_batch ex_b so [1; 0; 2] None = true /\
  out_of (bo_result (batch_model ex_b so [1; 0; 2] None 0)) = OErr CPartial None /\
  out_of (bo_result (batch_model ex_b so [0; 2; 1] (Some 1) 0)) = OErr CFailed None /\
  out_of (bo_result (batch_model ex_b [(ex_sh_ok, [0; 1; 2]); (ex_sh_to, [0; 2])] [1; 0] None 3)) = OErr CTimeout None /\
  out_of (bo_result (batch_model ex_b [(ex_sh_ok, [2; 1; 0]); (ex_sh_ok, [0; 1; 2])] [1; 0] None 3)) = ODrop 3 /\
  out_of (bo_result (batch_model ex_b [(ex_sh_ok, [2; 1; 0]); (ex_sh_ok, [0; 1; 2])] [1; 0] None 0)) = OOk /\
  map (map (fun x => snd (fst x))) (bo_shards (batch_model ex_b so [1; 0; 2] None 0)) = [[0; 0; 1]; [0; 0; 1]; [0; 0; 1]].
Proof. vm_compute. repeat split. Qed.

(* ================= the hinted-handoff answer of the real hh.Service ================= *)

(* a block is accepted exactly when handoff is enabled and the block fits under max-size; every
   refusal (queue full, disabled, ...) is "not queued" for the level *)
Theorem handoff_accept_iff_fits :
  forall h q blen,
  (hh_answer h q blen = HOk <-> (h_enabled h = true /\ q_usage q + blen <= h_max h)) /\
  (hhres_of (hh_answer h q blen) = HAccept <-> hh_answer h q blen = HOk).
Proof. intros h q blen. split; [apply hh_accept_iff_fits | apply hhres_accept_only]. Qed.
Print Assumptions handoff_accept_iff_fits.

(* for every sequence of writes to a shard (any levels, any direct-write outcomes per owner,
   any block sizes), every max-size, handoff enabled or not, any initial queues: a write
   reported as success was received by some owner's store, or - only under any - its block is
   in some owner's queue at the end of the sequence *)
Theorem handoff_success_means_stored_or_queued :
  forall self ooo h wsq st,
  let r := hrun self ooo h st wsq in
  Forall2 (success_backed (snd (fst r)) (snd r)) wsq (fst (fst r)).
Proof. exact hrun_success_backed. Qed.
Print Assumptions handoff_success_means_stored_or_queued.

Theorem handoff_model_satisfies_spec :
  forall self ooo h st wsq,
  let r := hrun self ooo h st wsq in
  hh_backed wsq (map class_num (fst (fst r))) (snd (fst r)) (map (fun p => q_blocks (snd p)) (snd r)) = true.
Proof. exact hh_model_backed. Qed.
Print Assumptions handoff_model_satisfies_spec.

(* the two refusals mirrored by the model are in the source in that shape (re-derived from
   services/hh/service.go and queue.go by tools/genconsts/c03.go on every run) *)
Theorem handoff_refusal_shape : c03_hh_refusal_shape = true.
Proof. reflexivity. Qed.
Print Assumptions handoff_refusal_shape.

Example handoff_nonvacuous :
  let ws := [mkW 1 LAny [WRetry; WRetry] 40; mkW 2 LAny [WRetry; WPerm] 40; mkW 3 LAny [WRetry; WRetry] 40; mkW 4 LOne [WOk; WRetry] 40] in
  let r := hrun 9 false (mkH true 120) [(1, hq_new); (2, hq_new)] ws in
  fst (fst r) = [CSuccess; CSuccess; CFailed; CFailed] /\
  map (fun p => q_blocks (snd p)) (snd r) = [[1; 2]; [1; 2]] /\ snd (fst r) = [].
Proof. vm_compute. repeat split. Qed.

(* ================= the remote write path (ShardWriter + connection pool) ================= *)

(* for every sequence of node behaviours (timely / late / missing replies, hang-ups): every
   write reads its own reply - success is reported exactly when the node stored THIS write and
   acknowledged it in time *)
Theorem remote_success_is_own_ack :
  forall script,
  rrun false None script = map (fun r => match r with RAck => true | _ => false end) script.
Proof. intro script. exact (rrun_own script None (or_introl eq_refl)). Qed.
Print Assumptions remote_success_is_own_ack.

Theorem remote_model_satisfies_spec :
  forall script, acked_ok (rrun false None script) (map node_stores script) = true.
Proof. exact remote_link. Qed.
Print Assumptions remote_model_satisfies_spec.

(* a ShardWriter that kept the connection pooled after a read timeout would report the late
   reply of one write as the answer to the next (kept as a checked refutation) *)
Theorem remote_keep_connection_refuted :
  exists script, success_means_stored script (rrun true None script) = false.
Proof. exact remote_keep_refuted. Qed.
Print Assumptions remote_keep_connection_refuted.

(* WriteShardBinary marks the connection unusable when reading the reply fails (shape re-derived
   from coordinator/shard_writer.go on every run) *)
Theorem shard_writer_discards_connection_after_read_error : c03_shard_writer_discards_after_read_error = true.
Proof. reflexivity. Qed.
Print Assumptions shard_writer_discards_connection_after_read_error.
