(* C03/Props.v — property theorems only: each is closed by [exact] of a lemma proved in
   Proofs.v and followed by Print Assumptions.  All of them quantify over every
   configuration [cfg] (level, coordinator node id — owner at any position or not an
   owner —, out-of-order mode, local shard-not-found path), every list of owners of any
   length with any environment per owner, and every arrival order [arr] of the answers
   (any [Permutation] of what the owners send). *)
From Coq Require Import Permutation.
From Verif Require Import C03.Model C03.Spec C03.Proofs C03.Level C03.LevelProofs.
From VerifGen Require Import Consts.
Open Scope N_scope.

(* success is reported only if the requested level was met *)
Theorem success_sound :
  forall cfg owners arr, Permutation arr (answers cfg owners) ->
  write_to_shard cfg owners arr = Success -> level_met cfg owners = true.
Proof. exact Proofs.success_sound. Qed.
Print Assumptions success_sound.

(* ... and it IS reported whenever the level was met by owners answering before the
   timeout, whatever the order in which the answers arrive *)
Theorem success_complete_any_order :
  forall cfg owners arr, Permutation arr (answers cfg owners) ->
  level_met cfg owners = true -> write_to_shard cfg owners arr = Success.
Proof. exact Proofs.success_complete. Qed.
Print Assumptions success_complete_any_order.

(* success / timeout / partial write / failure exactly as the spec demands *)
Theorem classification :
  forall cfg owners arr, Permutation arr (answers cfg owners) ->
  class_of (write_to_shard cfg owners arr) = expected_class cfg owners.
Proof. exact Proofs.classification. Qed.
Print Assumptions classification.

(* hinted handoff is offered exactly once to a remote owner that failed retryably or
   waits behind its non-empty queue, never otherwise; stores and queues hold the points
   exactly when the environment allows it *)
Theorem hh_offered_exactly_once :
  forall cfg o,
    s_hh (owner_step cfg o) = (if hh_due cfg o then 1 else 0) /\
    s_queued (owner_step cfg o) = queued cfg o /\
    s_stored (owner_step cfg o) = stored cfg o.
Proof.
  intros cfg o. split; [exact (step_hh cfg o) | split; [exact (step_queued cfg o) | exact (step_stored cfg o)]].
Qed.
Print Assumptions hh_offered_exactly_once.

(* a failed write names the first non-skipped error in arrival order *)
Theorem failed_reports_first_real_error :
  forall cfg owners arr e, Permutation arr (answers cfg owners) ->
  write_to_shard cfg owners arr = Failed e -> e = first_err arr.
Proof. exact Proofs.failed_error. Qed.
Print Assumptions failed_reports_first_real_error.

(* an arrival order given by owner indices that lists every answering owner once is such
   a permutation (ties the harness's input format to the theorems above) *)
Theorem valid_order_is_permutation :
  forall cfg owners order, valid_order cfg owners order = true ->
  Permutation (arrivals cfg owners order) (answers cfg owners).
Proof. exact Proofs.valid_order_perm. Qed.
Print Assumptions valid_order_is_permutation.

(* the link used by the correspondence run: for ALL inputs the model's observation
   satisfies the executable spec that Run.v evaluates on the implementation's observation *)
Theorem model_satisfies_spec :
  forall cfg owners order, spec_ok cfg owners order (model cfg owners order) = true.
Proof. exact Proofs.model_spec_ok. Qed.
Print Assumptions model_satisfies_spec.

(* the defect repaired by the fix: commit, kept as a checked refutation of the pinned
   tree: under any, all owners durably queued behind non-empty queues, yet "write failed" *)
Theorem success_complete_unfixed_refuted :
  exists cfg owners,
    level_met cfg owners = true /\
    write_to_shard_unfixed cfg owners (answers_with false cfg owners) = Failed None.
Proof. exact Proofs.unfixed_refuted. Qed.
Print Assumptions success_complete_unfixed_refuted.

(* non-vacuity: the hypotheses are satisfiable by non-trivial values *)
Definition ex_cfg := mkC LQuorum 9 false NfNone.
Definition ex_owners :=
  [mkO 1 WRetry false HAccept; mkO 2 WOk false HAccept; mkO 3 WOk true HRefuse; mkO 4 WOk false HAccept; mkO 5 WHang false HAccept].

Example success_nonvacuous :
  level_met ex_cfg ex_owners = false /\
  level_met ex_cfg (mkO 6 WOk false HAccept :: firstn 4 ex_owners) = true /\
  write_to_shard ex_cfg (mkO 6 WOk false HAccept :: firstn 4 ex_owners)
     (arrivals ex_cfg (mkO 6 WOk false HAccept :: firstn 4 ex_owners) [3; 1; 4; 2; 0]) = Success /\
  valid_order ex_cfg (mkO 6 WOk false HAccept :: firstn 4 ex_owners) [3; 1; 4; 2; 0] = true.
Proof. vm_compute. repeat split. Qed.

Example classification_nonvacuous :
  expected_class ex_cfg ex_owners = CTimeout /\
  expected_class ex_cfg (firstn 4 ex_owners) = CPartial /\
  expected_class ex_cfg (firstn 1 ex_owners) = CFailed /\
  write_to_shard ex_cfg (firstn 1 ex_owners) (answers ex_cfg (firstn 1 ex_owners)) = Failed (Some (EW 1)) /\
  map (hh_expected ex_cfg) ex_owners = [1; 0; 1; 0; 0].
Proof. vm_compute. repeat split. Qed.

(* ---- the REQUESTED level: the `consistency` parameter of a write request ---- *)

(* For every parameter value (any bytes): it is accepted exactly when it is an ASCII spelling,
   in any letter case, of one of the four names, and then it means that level; letter case
   never matters; an absent or empty parameter asks for ONE. *)
Theorem requested_level_exact :
  forall (s : list N) (l : level),
  parse_level s = Some l <-> (is_ascii s = true /\ lower s = level_name l).
Proof. exact parse_level_iff. Qed.
Print Assumptions requested_level_exact.

Theorem requested_level_case_insensitive : forall s, parse_level (lower s) = parse_level s.
Proof. exact parse_level_case_insensitive. Qed.
Print Assumptions requested_level_case_insensitive.

Theorem requested_level_default_and_names :
  request_level [] = Some LOne /\ forall l, request_level (level_name l) = Some l.
Proof. split; [exact request_level_default|exact request_level_named]. Qed.
Print Assumptions requested_level_default_and_names.

(* both HTTP write handlers start from ConsistencyLevelOne and hand a non-empty parameter to
   ParseConsistencyLevel, refusing the request when it errs (shape re-derived from
   services/httpd/handler.go by tools/genconsts/c03.go on every run) *)
Theorem handlers_request_level_shape : c03_handler_level_shape = true.
Proof. reflexivity. Qed.
Print Assumptions handlers_request_level_shape.

Example requested_level_examples :
  parse_level [81; 117; 79; 114; 85; 109] = Some LQuorum /\ parse_level [97; 108] = None /\
  parse_level [226; 132; 170] = None /\ parse_level [] = None /\ request_level [] = Some LOne.
Proof. vm_compute. repeat split; reflexivity. Qed.
