(* C03/Handoff.v — the hinted-handoff answer as the points writer sees it, with the REAL
   hh.Service behind PointsWriter.HintedHandoff (services/hh/service.go Service.WriteShard ->
   node_processor.go NodeProcessor.WriteShard -> queue.go queue.Append).  Definitions only.

   Result classes of hh.Service.WriteShard, re-derived from the source:
     nil                         every block of the batch was appended to the owner's queue
                                 (segment.append + flush + Sync: durably queued)
     ErrHintedHandoffDisabled    !cfg.Enabled (first statement of Service.WriteShard)
     an Open error               the processor for (owner, shard) could not be created
     "node processor is closed"  NodeProcessor.WriteShard on a closed processor
     ErrSegmentFull              a single point larger than defaultSegmentSize
     ErrQueueBlocked             queue.Append: limiter.TryTake failed (MaxWritesPending appenders)
     ErrNotOpen                  queue.Append on a closed queue
     ErrQueueFull                queue.Append: diskUsage() + len(block) > maxSize  (cfg.MaxSize)
     an I/O error                segment.append / flush
   For the consistency level only three classes matter (Model.hhres): nil = HAccept (counts
   under `any`), ErrQueueBlocked = HBlocked (skipped by the collecting loop), everything else
   = HRefuse.  In particular a block REFUSED by the size limit must not be reported as
   accepted: that is the ErrQueueFull branch modelled here ([hh_answer]), for a sequential
   caller, one block per write (a write far below the segment size) and a queue that nobody
   drains (the owner is down): diskUsage = footer of the one segment + 8-byte length prefix +
   body per appended block. *)
From Verif Require Export C03.Model.
From Verif Require Import C03.Spec.
From VerifGen Require Import Consts.
Open Scope N_scope.

Inductive hhans := HOk | HQueueFull | HDisabled | HQBlocked | HOtherErr.

Definition hhres_of (a : hhans) : hhres :=
  match a with HOk => HAccept | HQBlocked => HBlocked | _ => HRefuse end.

(* one owner's queue: bytes on disk, ids of the writes whose block it holds (oldest first) *)
Record hq := mkQ { q_usage : N; q_blocks : list N }.
Definition hq_new : hq := mkQ c03_hh_footer_size [].

Record hcfg := mkH { h_enabled : bool; h_max : N }.

Definition hh_answer (h : hcfg) (q : hq) (blen : N) : hhans :=
  if negb (h_enabled h) then HDisabled
  else if h_max h <? q_usage q + blen then HQueueFull      (* l.diskUsage()+int64(len(b)) > l.maxSize *)
  else HOk.

(* segment.append: uint64 length prefix, then the body *)
Definition hq_append (q : hq) (wid blen : N) : hq :=
  mkQ (q_usage q + (8 + blen)) (q_blocks q ++ [wid]).

(* Service.Empty: true when disabled, when there is no processor, or when its queue is empty *)
Definition hq_nonempty (h : hcfg) (q : hq) : bool :=
  h_enabled h && match q_blocks q with [] => false | _ => true end.

(* the environment the points writer meets at one owner for one write *)
Definition owner_env (h : hcfg) (blen id : N) (w : wres) (q : hq) : owner :=
  mkO id w (hq_nonempty h q) (hhres_of (hh_answer h q blen)).

(* one cluster write (id wid, block length blen) over the owners [st] with direct-write
   outcomes [ws]: the owners as Model sees them, and the queues afterwards *)
Fixpoint hstep (cfg : config) (h : hcfg) (wid blen : N) (st : list (N * hq)) (ws : list wres)
  : list owner * list (N * hq) :=
  match st, ws with
  | (id, q) :: st', w :: ws' =>
      let o := owner_env h blen id w q in
      let r := hstep cfg h wid blen st' ws' in
      (o :: fst r, (id, if s_queued (owner_step cfg o) then hq_append q wid blen else q) :: snd r)
  | _, _ => ([], st)
  end.

Record hwrite := mkW { w_id : N; w_level : level; w_env : list wres; w_blen : N }.

(* (owner id, write id) pairs: whose store received which write *)
Definition stored_log (cfg : config) (wid : N) (os : list owner) : list (N * N) :=
  flat_map (fun o => if s_stored (owner_step cfg o) then [(o_id o, wid)] else []) os.

(* ... and which queue holds which write's block *)
Definition queued_ids (st : list (N * hq)) : list (N * N) :=
  flat_map (fun p => map (fun w => (fst p, w)) (q_blocks (snd p))) st.

(* a sequence of writes to one shard; reported class per write, store log, final queues *)
Fixpoint hrun (self : N) (ooo : bool) (h : hcfg) (st : list (N * hq)) (wsq : list hwrite)
  : list class * list (N * N) * list (N * hq) :=
  match wsq with
  | [] => ([], [], st)
  | w :: rest =>
      let cfg := mkC (w_level w) self ooo NfNone in
      let r := hstep cfg h (w_id w) (w_blen w) st (w_env w) in
      let r' := hrun self ooo h (snd r) rest in
      (class_of (write_to_shard cfg (fst r) (answers cfg (fst r))) :: fst (fst r'),
       stored_log cfg (w_id w) (fst r) ++ snd (fst r'),
       snd r')
  end.

(* ---------- the property on an observation (what Run.v evaluates on the implementation) ---------- *)

(* a write reported as success (class 0) was received by some owner's store or - under any -
   its block is in some owner's queue when the queues are drained afterwards *)
Fixpoint hh_backed (ws : list hwrite) (classes : list N)
         (stores : list (N * N)) (queues : list (list N)) : bool :=
  match ws, classes with
  | [], [] => true
  | w :: ws', c :: cs' =>
      (negb (c =? 0)
       || existsb (fun p => snd p =? w_id w) stores
       || (match w_level w with LAny => true | _ => false end
           && existsb (fun q => existsb (N.eqb (w_id w)) q) queues))
      && hh_backed ws' cs' stores queues
  | _, _ => false
  end.

Definition class_num (c : class) : N :=
  match c with CSuccess => 0 | CPartial => 1 | CFailed => 2 | CTimeout => 3 end.
