(* C11/StreamLemmas.v — generic lemmas about sorting, k-way merges, top-n prefixes and
   reduce iterators, for an arbitrary boolean order.  Used by Proofs.v. *)
From Coq Require Import List ZArith NArith Bool Lia Permutation Sorted.
From Verif Require Import C11.Spec C11.Model.
Import ListNotations.

Lemma In_firstn {A} n (l : list A) x : In x (firstn n l) -> In x l.
Proof.
  revert l; induction n as [|n IH]; intros l H; cbn in H; [contradiction|].
  destruct l as [|y l]; [contradiction|]. destruct H as [->|H]; [left; reflexivity|right; apply IH; exact H].
Qed.

Lemma In_skipn {A} n (l : list A) x : In x (skipn n l) -> In x l.
Proof.
  revert l; induction n as [|n IH]; intros l H; cbn in H; [exact H|].
  destruct l as [|y l]; [contradiction|]. right. apply IH. exact H.
Qed.

Lemma filter_perm {A} (p : A -> bool) l l' : Permutation l l' -> Permutation (filter p l) (filter p l').
Proof.
  induction 1; cbn.
  - reflexivity.
  - destruct (p x); [constructor|]; assumption.
  - destruct (p x), (p y); try reflexivity. apply perm_swap.
  - etransitivity; eassumption.
Qed.

Section Ord.
  Context {A : Type} (leb : A -> A -> bool).
  Hypothesis leb_total : forall a b, leb a b = true \/ leb b a = true.
  Hypothesis leb_trans : forall a b c, leb a b = true -> leb b c = true -> leb a c = true.

  Definition le (a b : A) : Prop := leb a b = true.
  Definition sorted (l : list A) : Prop := StronglySorted le l.

  Lemma le_refl a : le a a.
  Proof. destruct (leb_total a a); assumption. Qed.

  Lemma insert_perm x l : Permutation (insert leb x l) (x :: l).
  Proof.
    induction l as [|y l IH]; cbn; [reflexivity|].
    destruct (leb x y); [reflexivity|].
    rewrite IH. apply perm_swap.
  Qed.

  Lemma isort_perm l : Permutation (isort leb l) l.
  Proof.
    induction l as [|x l IH]; cbn; [reflexivity|].
    rewrite insert_perm. constructor. exact IH.
  Qed.

  Lemma insert_sorted x l : sorted l -> sorted (insert leb x l).
  Proof.
    induction l as [|y l IH]; intros Hs; cbn.
    - constructor; constructor.
    - inversion Hs as [|? ? Hs' Hall]; subst.
      destruct (leb x y) eqn:E.
      + constructor; [exact Hs|]. constructor; [exact E|].
        eapply Forall_impl; [|exact Hall]. intros z Hz. eapply leb_trans; eassumption.
      + constructor; [apply IH; exact Hs'|].
        assert (Hyx : le y x) by (destruct (leb_total x y) as [H|H]; [congruence|exact H]).
        eapply Permutation_Forall; [symmetry; apply insert_perm|].
        constructor; assumption.
  Qed.

  Lemma isort_sorted l : sorted (isort leb l).
  Proof.
    induction l as [|x l IH]; cbn; [constructor|]. apply insert_sorted. exact IH.
  Qed.

  Lemma sorted_app l1 l2 :
    sorted l1 -> sorted l2 -> (forall a b, In a l1 -> In b l2 -> le a b) -> sorted (l1 ++ l2).
  Proof.
    induction l1 as [|x l1 IH]; intros H1 H2 H; cbn; [exact H2|].
    inversion H1 as [|? ? H1' Hall]; subst.
    constructor.
    - apply IH; [exact H1'|exact H2|]. intros a b Ha Hb. apply H; [right; exact Ha|exact Hb].
    - apply Forall_app; split; [exact Hall|].
      apply Forall_forall. intros b Hb. apply H; [left; reflexivity|exact Hb].
  Qed.

  Lemma sorted_firstn n l : sorted l -> sorted (firstn n l).
  Proof.
    revert l; induction n as [|n IH]; intros l Hs; cbn; [constructor|].
    destruct l as [|x l]; [constructor|].
    inversion Hs as [|? ? Hs' Hall]; subst.
    constructor; [apply IH; exact Hs'|].
    apply Forall_forall. intros y Hy. rewrite Forall_forall in Hall. apply Hall.
    eapply In_firstn; exact Hy.
  Qed.

  Lemma sorted_filter p l : sorted l -> sorted (filter p l).
  Proof.
    induction l as [|x l IH]; intros Hs; cbn; [constructor|].
    inversion Hs as [|? ? Hs' Hall]; subst.
    destruct (p x); [|apply IH; exact Hs'].
    constructor; [apply IH; exact Hs'|].
    apply Forall_forall. intros y Hy. rewrite Forall_forall in Hall. apply Hall.
    apply filter_In in Hy. tauto.
  Qed.

  (* ---------- k-way merge ---------- *)

  Lemma least_le x l : le (least leb x l) x /\ Forall (le (least leb x l)) l.
  Proof.
    revert x; induction l as [|y l IH]; intros x; cbn.
    - split; [apply le_refl|constructor].
    - destruct (leb x y) eqn:E.
      + destruct (IH x) as [H1 H2]. split; [exact H1|]. constructor; [|exact H2].
        eapply leb_trans; [exact H1|exact E].
      + assert (Hyx : le y x) by (destruct (leb_total x y) as [H|H]; [congruence|exact H]).
        destruct (IH y) as [H1 H2]. split.
        * eapply leb_trans; eassumption.
        * constructor; assumption.
  Qed.

  Lemma least_in x l : In (least leb x l) (x :: l).
  Proof.
    revert x; induction l as [|y l IH]; intros x; cbn; [left; reflexivity|].
    destruct (leb x y).
    - destruct (IH x) as [H|H]; [left; exact H|right; right; exact H].
    - right. apply IH.
  Qed.

  (* every element of sorted inputs is above some head *)
  Lemma head_below ss e :
    Forall sorted ss -> In e (concat ss) -> exists h, In h (heads ss) /\ le h e.
  Proof.
    induction ss as [|s ss IH]; intros Hs Hin; cbn in *; [contradiction|].
    inversion Hs as [|? ? Hs1 Hs2]; subst.
    apply in_app_or in Hin. destruct Hin as [Hin|Hin].
    - destruct s as [|x s]; [contradiction|].
      exists x. split; [cbn; left; reflexivity|].
      destruct Hin as [->|Hin]; [apply le_refl|].
      inversion Hs1 as [|? ? _ Hall]; subst. rewrite Forall_forall in Hall. apply Hall. exact Hin.
    - destruct (IH Hs2 Hin) as [h [Hh Hle]]. exists h. split; [|exact Hle].
      unfold heads in *. cbn. apply in_or_app. right. exact Hh.
  Qed.

  Lemma pick_spec m ss x ss' :
    pick leb m ss = Some (x, ss') ->
    le x m /\ Permutation (concat ss) (x :: concat ss') /\
    length (concat ss) = S (length (concat ss')).
  Proof.
    revert x ss'; induction ss as [|s ss IH]; intros x ss' H; cbn [pick] in H; [discriminate|].
    destruct s as [|y s].
    - destruct (IH _ _ H) as [H1 [H2 H4]]. cbn [concat app]. auto.
    - destruct (leb y m) eqn:E.
      + inversion H; subst. split; [exact E|]. split; reflexivity.
      + destruct (pick leb m ss) as [[z r']|] eqn:Ep; [|discriminate].
        inversion H; subst.
        destruct (IH _ _ eq_refl) as [H1 [H2 H4]].
        split; [exact H1|].
        change (concat ((y :: s) :: ss)) with ((y :: s) ++ concat ss).
        change (concat ((y :: s) :: r')) with ((y :: s) ++ concat r').
        split.
        * etransitivity; [apply Permutation_app_head; exact H2|].
          symmetry. apply Permutation_middle.
        * rewrite !app_length. rewrite H4. lia.
  Qed.

  Lemma pick_sorted m ss x ss' :
    pick leb m ss = Some (x, ss') -> Forall sorted ss -> Forall sorted ss'.
  Proof.
    revert x ss'; induction ss as [|s ss IH]; intros x ss' H Hs; cbn in H; [discriminate|].
    inversion Hs as [|? ? Hs1 Hs2]; subst.
    destruct s as [|y s]; [eapply IH; eassumption|].
    destruct (leb y m).
    - inversion H; subst. constructor; [|exact Hs2]. inversion Hs1; assumption.
    - destruct (pick leb m ss) as [[z r']|] eqn:Ep; [|discriminate].
      inversion H; subst. constructor; [exact Hs1|]. eapply IH; [reflexivity|exact Hs2].
  Qed.

  (* the popped element is a head, so it is below the rest of its own input *)
  Lemma pick_head_below m ss x ss' :
    pick leb m ss = Some (x, ss') -> Forall sorted ss ->
    (forall h, In h (heads ss) -> le m h) ->
    Forall (le x) (concat ss').
  Proof.
    intros H Hs Hm.
    assert (Hx : le x m) by (destruct (pick_spec _ _ _ _ H) as [? _]; assumption).
    assert (Hs' : Forall sorted ss') by (eapply pick_sorted; eassumption).
    apply Forall_forall. intros e He.
    (* e is in concat ss' which is included in concat ss *)
    assert (Hin : In e (concat ss)).
    { destruct (pick_spec _ _ _ _ H) as [_ [Hp _]].
      eapply Permutation_in; [symmetry; exact Hp|]. right. exact He. }
    destruct (head_below ss e Hs Hin) as [h [Hh Hle]].
    eapply leb_trans; [exact Hx|]. eapply leb_trans; [apply Hm; exact Hh|exact Hle].
  Qed.

  Lemma pick_some_of_head m ss :
    In m (heads ss) -> exists x ss', pick leb m ss = Some (x, ss').
  Proof.
    induction ss as [|s ss IH]; intros Hin; cbn in *; [contradiction|].
    destruct s as [|y s]; cbn in Hin.
    - apply IH. exact Hin.
    - destruct (leb y m) eqn:E; [eauto|].
      destruct Hin as [->|Hin].
      + rewrite (le_refl m) in E. discriminate.
      + destruct (IH Hin) as [x [ss' ->]]. eauto.
  Qed.

  Lemma heads_nil_concat (ss : list (list A)) : heads ss = [] -> concat ss = [].
  Proof.
    induction ss as [|s ss IH]; intros H; cbn in *; [reflexivity|].
    destruct s as [|x s]; cbn in H; [exact (IH H)|discriminate].
  Qed.

  Lemma kmerge_fuel_perm fuel ss :
    (length (concat ss) <= fuel)%nat -> Permutation (kmerge_fuel leb fuel ss) (concat ss).
  Proof.
    revert ss; induction fuel as [|f IH]; intros ss Hf; cbn.
    - destruct (concat ss); [reflexivity|cbn in Hf; lia].
    - destruct (heads ss) as [|h hs] eqn:Eh.
      + rewrite (heads_nil_concat ss Eh). reflexivity.
      + assert (Hin : In (least leb h hs) (heads ss)) by (rewrite Eh; apply least_in).
        destruct (pick_some_of_head _ _ Hin) as [x [ss' Ep]]. rewrite Ep.
        destruct (pick_spec _ _ _ _ Ep) as [_ [Hp Hl]].
        rewrite Hp. constructor. apply IH. lia.
  Qed.

  Lemma kmerge_fuel_sorted fuel ss :
    (length (concat ss) <= fuel)%nat -> Forall sorted ss -> sorted (kmerge_fuel leb fuel ss).
  Proof.
    revert ss; induction fuel as [|f IH]; intros ss Hf Hs; cbn; [constructor|].
    destruct (heads ss) as [|h hs] eqn:Eh; [constructor|].
    assert (Hin : In (least leb h hs) (heads ss)) by (rewrite Eh; apply least_in).
    destruct (pick_some_of_head _ _ Hin) as [x [ss' Ep]]. rewrite Ep.
    destruct (pick_spec _ _ _ _ Ep) as [_ [Hp Hl]].
    assert (Hs' : Forall sorted ss') by (eapply pick_sorted; eassumption).
    constructor; [apply IH; [lia|exact Hs']|].
    eapply Permutation_Forall; [symmetry; apply kmerge_fuel_perm; lia|].
    eapply pick_head_below; [exact Ep|exact Hs|].
    intros h' Hh'. rewrite Eh in Hh'. destruct (least_le h hs) as [H1 H2].
    destruct Hh' as [<-|Hh']; [exact H1|]. rewrite Forall_forall in H2. apply H2. exact Hh'.
  Qed.

  Lemma kmerge_perm ss : Permutation (kmerge leb ss) (concat ss).
  Proof. apply kmerge_fuel_perm. apply le_n. Qed.

  Lemma kmerge_sorted ss : Forall sorted ss -> sorted (kmerge leb ss).
  Proof. apply kmerge_fuel_sorted. apply le_n. Qed.

  (* ---------- uniqueness of sorted permutations (antisymmetric orders) ---------- *)

  Hypothesis leb_antisym : forall a b, leb a b = true -> leb b a = true -> a = b.

  Lemma sorted_perm_eq l1 l2 : sorted l1 -> sorted l2 -> Permutation l1 l2 -> l1 = l2.
  Proof.
    revert l2; induction l1 as [|a l1 IH]; intros l2 H1 H2 Hp.
    - apply Permutation_nil in Hp. subst. reflexivity.
    - destruct l2 as [|b l2]; [apply Permutation_sym, Permutation_nil in Hp; discriminate|].
      inversion H1 as [|? ? H1' Ha]; subst. inversion H2 as [|? ? H2' Hb]; subst.
      rewrite Forall_forall in Ha, Hb.
      assert (Hab : a = b).
      { assert (Hina : In a (b :: l2)) by (eapply Permutation_in; [exact Hp|left; reflexivity]).
        assert (Hinb : In b (a :: l1)) by (eapply Permutation_in; [symmetry; exact Hp|left; reflexivity]).
        destruct Hina as [->|Hina]; [reflexivity|]. destruct Hinb as [->|Hinb]; [reflexivity|].
        apply leb_antisym; [apply Ha; exact Hinb|apply Hb; exact Hina]. }
      subst b. f_equal. apply IH; [exact H1'|exact H2'|].
      eapply Permutation_cons_inv; exact Hp.
  Qed.

  Lemma isort_unique l l' : Permutation l l' -> isort leb l = isort leb l'.
  Proof.
    intros Hp. apply sorted_perm_eq; [apply isort_sorted|apply isort_sorted|].
    rewrite !isort_perm. exact Hp.
  Qed.

  Lemma sorted_isort l : sorted l -> isort leb l = l.
  Proof.
    intros Hs. apply sorted_perm_eq; [apply isort_sorted|exact Hs|apply isort_perm].
  Qed.

  (* merging the sorted streams of any partition = sorting the whole *)
  Lemma kmerge_isort ss : Forall sorted ss -> kmerge leb ss = isort leb (concat ss).
  Proof.
    intros Hs. apply sorted_perm_eq; [apply kmerge_sorted; exact Hs|apply isort_sorted|].
    rewrite kmerge_perm, isort_perm. reflexivity.
  Qed.

  Lemma filter_isort p l : filter p (isort leb l) = isort leb (filter p l).
  Proof.
    apply sorted_perm_eq; [apply sorted_filter, isort_sorted|apply isort_sorted|].
    etransitivity; [apply filter_perm, isort_perm|]. symmetry. apply isort_perm.
  Qed.
End Ord.

(* ---------- folds of an associative, commutative operation ---------- *)
Section Fold.
  Context {P : Type} (cmb : P -> P -> P).

  Definition oplus (a b : option P) : option P :=
    match a, b with
    | Some x, Some y => Some (cmb x y)
    | Some x, None => Some x
    | None, y => y
    end.

  Definition ofold (l : list P) : option P := fold_right (fun x acc => oplus (Some x) acc) None l.

  Hypothesis cmb_assoc : forall a b c, cmb a (cmb b c) = cmb (cmb a b) c.

  Lemma oplus_assoc a b c : oplus a (oplus b c) = oplus (oplus a b) c.
  Proof. destruct a, b, c; cbn; try reflexivity. rewrite cmb_assoc. reflexivity. Qed.

  Lemma oplus_none_r a : oplus a None = a.
  Proof. destruct a; reflexivity. Qed.

  Lemma ofold_app a b : ofold (a ++ b) = oplus (ofold a) (ofold b).
  Proof.
    induction a as [|x a IH]; cbn [app ofold fold_right]; [reflexivity|].
    fold (ofold (a ++ b)). fold (ofold a). rewrite IH. apply oplus_assoc.
  Qed.

  Lemma ofold_concat ls : ofold (concat ls) = fold_right (fun l acc => oplus (ofold l) acc) None ls.
  Proof.
    induction ls as [|l ls IH]; cbn [concat fold_right]; [reflexivity|].
    rewrite ofold_app, IH. reflexivity.
  Qed.

  Hypothesis cmb_comm : forall a b, cmb a b = cmb b a.

  Lemma oplus_comm a b : oplus a b = oplus b a.
  Proof. destruct a, b; cbn; try reflexivity. rewrite cmb_comm. reflexivity. Qed.

  Lemma ofold_perm l l' : Permutation l l' -> ofold l = ofold l'.
  Proof.
    induction 1; cbn [ofold fold_right].
    - reflexivity.
    - fold (ofold l). fold (ofold l'). rewrite IHPermutation. reflexivity.
    - fold (ofold l). rewrite !oplus_assoc. f_equal. apply oplus_comm.
    - congruence.
  Qed.
End Fold.

(* ---------- reduce iterator over a stream sorted by group ---------- *)
Section ReduceLemmas.
  Context {G P : Type} (geqb : G -> G -> bool) (gleb : G -> G -> bool) (cmb : P -> P -> P).
  Hypothesis geqb_eq : forall a b, geqb a b = true <-> a = b.
  Hypothesis gleb_total : forall a b, gleb a b = true \/ gleb b a = true.
  Hypothesis gleb_trans : forall a b c, gleb a b = true -> gleb b c = true -> gleb a c = true.
  Hypothesis gleb_antisym : forall a b, gleb a b = true -> gleb b a = true -> a = b.

  Definition pleb (a b : G * P) : bool := gleb (fst a) (fst b).
  Definition vals (g : G) (l : list (G * P)) : list P := map snd (filter (fun x => geqb g (fst x)) l).
  Definition gsum (g : G) (l : list (G * P)) : option P := ofold cmb (vals g l).
  Definition glookup (g : G) (l : list (G * P)) : option P :=
    match find (fun x => geqb g (fst x)) l with Some x => Some (snd x) | None => None end.

  Lemma geqb_refl g : geqb g g = true.
  Proof. apply geqb_eq. reflexivity. Qed.

  Lemma pleb_total a b : pleb a b = true \/ pleb b a = true.
  Proof. apply gleb_total. Qed.
  Lemma pleb_trans a b c : pleb a b = true -> pleb b c = true -> pleb a c = true.
  Proof. apply gleb_trans. Qed.

  (* keys of the output: the runs of the input *)
  Lemma reduce_keys l : map fst (reduce_stream geqb cmb l) = dedup geqb (map fst l).
  Proof.
    induction l as [|[g p] l IH]; [reflexivity|].
    cbn [reduce_stream map fst dedup].
    destruct l as [|[g1 p1] l1].
    - reflexivity.
    - cbn [map fst] in *.
      destruct (reduce_stream geqb cmb ((g1, p1) :: l1)) as [|[g' p'] r] eqn:ER.
      + (* impossible: a non-empty input gives a non-empty output *)
        exfalso. cbn [reduce_stream] in ER.
        destruct (reduce_stream geqb cmb l1) as [|[g2 p2] r2]; [discriminate|].
        destruct (geqb g1 g2); discriminate.
      + assert (Hg : g' = g1).
        { cbn [reduce_stream] in ER.
          destruct (reduce_stream geqb cmb l1) as [|[g2 p2] r2]; [inversion ER; reflexivity|].
          destruct (geqb g1 g2); inversion ER; reflexivity. }
        subst g'. cbn [map fst] in IH.
        destruct (geqb g g1) eqn:E.
        * apply geqb_eq in E. subst g1. cbn [map fst]. rewrite <- IH. reflexivity.
        * cbn [map fst]. rewrite <- IH. reflexivity.
  Qed.

  Lemma in_dedup (x : G) l : In x (dedup geqb l) <-> In x l.
  Proof.
    induction l as [|y l IH]; [tauto|].
    cbn [dedup]. destruct l as [|z l'].
    - tauto.
    - destruct (geqb y z) eqn:E.
      + apply geqb_eq in E. subst z. rewrite IH. cbn. tauto.
      + cbn [In]. rewrite IH. cbn. tauto.
  Qed.

  Lemma reduce_key_in g l : In g (map fst (reduce_stream geqb cmb l)) <-> In g (map fst l).
  Proof. rewrite reduce_keys. apply in_dedup. Qed.

  Definition gsorted (l : list (G * P)) : Prop := sorted pleb l.

  (* in a sorted stream, once the group changes it never comes back *)
  Lemma sorted_no_return g0 p0 g1 p1 l :
    gsorted ((g0, p0) :: (g1, p1) :: l) -> g0 <> g1 ->
    filter (fun x => geqb g0 (fst x)) ((g1, p1) :: l) = [].
  Proof.
    intros Hs Hne.
    inversion Hs as [|? ? Hs' Hall]; subst.
    inversion Hs' as [|? ? _ Hall1]; subst.
    rewrite Forall_forall in Hall, Hall1.
    assert (H01 : gleb g0 g1 = true) by (apply (Hall (g1, p1)); left; reflexivity).
    assert (Hno : forall x, In x ((g1, p1) :: l) -> geqb g0 (fst x) = false).
    { intros [gx px] Hx. cbn [fst]. destruct (geqb g0 gx) eqn:E; [|reflexivity].
      apply geqb_eq in E. subst gx. exfalso. apply Hne.
      destruct Hx as [Hx|Hx]; [inversion Hx; reflexivity|].
      apply gleb_antisym; [exact H01|]. apply (Hall1 (g0, px)). exact Hx. }
    clear -Hno. induction ((g1, p1) :: l) as [|x l' IH]; [reflexivity|].
    cbn. rewrite (Hno x (or_introl eq_refl)). apply IH. intros y Hy. apply Hno. right. exact Hy.
  Qed.

  Hypothesis cmb_assoc : forall a b c, cmb a (cmb b c) = cmb (cmb a b) c.

  Lemma gsum_cons g g0 p0 l :
    gsum g ((g0, p0) :: l) = if geqb g g0 then oplus cmb (Some p0) (gsum g l) else gsum g l.
  Proof. unfold gsum, vals. cbn [filter fst]. destruct (geqb g g0); reflexivity. Qed.

  Lemma glookup_cons g g0 p0 l :
    glookup g ((g0, p0) :: l) = if geqb g g0 then Some p0 else glookup g l.
  Proof. unfold glookup. cbn [find fst]. destruct (geqb g g0); reflexivity. Qed.

  Lemma reduce_nonempty x l : reduce_stream geqb cmb (x :: l) <> [].
  Proof.
    destruct x as [g p]. cbn [reduce_stream].
    destruct (reduce_stream geqb cmb l) as [|[g2 p2] r2]; [discriminate|].
    destruct (geqb g g2); discriminate.
  Qed.

  Lemma reduce_head g1 p1 l1 g' p' r :
    reduce_stream geqb cmb ((g1, p1) :: l1) = (g', p') :: r -> g' = g1.
  Proof.
    cbn [reduce_stream].
    destruct (reduce_stream geqb cmb l1) as [|[g2 p2] r2]; [intros H; inversion H; reflexivity|].
    destruct (geqb g1 g2); intros H; inversion H; reflexivity.
  Qed.

  Lemma reduce_lookup l g : gsorted l -> glookup g (reduce_stream geqb cmb l) = gsum g l.
  Proof.
    induction l as [|[g0 p0] l IH]; intros Hs; [reflexivity|].
    assert (Hs' : gsorted l) by (inversion Hs; assumption).
    specialize (IH Hs').
    cbn [reduce_stream].
    destruct (reduce_stream geqb cmb l) as [|[g' p'] r] eqn:ER.
    - destruct l as [|x l1]; [|exfalso; eapply reduce_nonempty; exact ER].
      rewrite glookup_cons, gsum_cons. destruct (geqb g g0); reflexivity.
    - destruct l as [|[g1 p1] l1]; [discriminate|].
      pose proof (reduce_head _ _ _ _ _ _ ER) as ->.
      destruct (geqb g0 g1) eqn:E01.
      + apply geqb_eq in E01. subst g1.
        rewrite glookup_cons, gsum_cons. rewrite glookup_cons in IH.
        destruct (geqb g g0) eqn:Eg; [|exact IH].
        rewrite <- IH. reflexivity.
      + rewrite glookup_cons, gsum_cons.
        destruct (geqb g g0) eqn:Eg; [|exact IH].
        apply geqb_eq in Eg. subst g.
        assert (Hne : g0 <> g1) by (intros ->; rewrite geqb_refl in E01; discriminate).
        pose proof (sorted_no_return _ _ _ _ _ Hs Hne) as Hnil.
        unfold gsum at 1. unfold vals. rewrite Hnil. reflexivity.
  Qed.

  (* the output is strictly sorted: its keys have no duplicates *)
  Lemma sorted_dedup_nodup (l : list G) : sorted gleb l -> NoDup (dedup geqb l).
  Proof.
    induction l as [|x l IH]; intros Hs; [constructor|].
    inversion Hs as [|? ? Hs' Hall]; subst. specialize (IH Hs').
    cbn [dedup]. destruct l as [|y l'].
    - constructor; [intros []|constructor].
    - destruct (geqb x y) eqn:E; [exact IH|].
      constructor; [|exact IH].
      rewrite in_dedup. intros Hin.
      (* x is in y :: l', all of which are >= y >= x, and x <= y: so x = y *)
      inversion Hs' as [|? ? _ Hally]; subst. rewrite Forall_forall in Hall, Hally.
      assert (Hxy : gleb x y = true) by (apply Hall; left; reflexivity).
      destruct Hin as [->|Hin]; [rewrite geqb_refl in E; discriminate|].
      assert (Hyx : gleb y x = true) by (apply Hally; exact Hin).
      assert (x = y) by (apply gleb_antisym; assumption). subst y. rewrite geqb_refl in E. discriminate.
  Qed.

  Lemma sorted_map_fst l : gsorted l -> sorted gleb (map fst l).
  Proof.
    induction l as [|x l IH]; intros Hs; [constructor|].
    inversion Hs as [|? ? Hs' Hall]; subst. cbn. constructor; [apply IH; exact Hs'|].
    rewrite Forall_forall in *. intros g Hg. apply in_map_iff in Hg. destruct Hg as [y [<- Hy]].
    apply Hall. exact Hy.
  Qed.

  Lemma reduce_nodup l : gsorted l -> NoDup (map fst (reduce_stream geqb cmb l)).
  Proof. intros Hs. rewrite reduce_keys. apply sorted_dedup_nodup, sorted_map_fst, Hs. Qed.

  Lemma dedup_sorted (l : list G) : sorted gleb l -> sorted gleb (dedup geqb l).
  Proof.
    induction l as [|x l IH]; intros Hs; [constructor|].
    inversion Hs as [|? ? Hs' Hall]; subst. specialize (IH Hs').
    cbn [dedup]. destruct l as [|y l']; [constructor; constructor|].
    destruct (geqb x y); [exact IH|].
    constructor; [exact IH|]. rewrite Forall_forall in *. intros z Hz. apply Hall. apply in_dedup. exact Hz.
  Qed.

  Lemma reduce_sorted l : gsorted l -> gsorted (reduce_stream geqb cmb l).
  Proof.
    intros Hs. pose proof (dedup_sorted _ (sorted_map_fst _ Hs)) as Hd. rewrite <- reduce_keys in Hd.
    clear Hs. induction (reduce_stream geqb cmb l) as [|x r IH]; [constructor|].
    cbn in Hd. inversion Hd as [|? ? Hd' Hall]; subst. constructor; [apply IH; exact Hd'|].
    rewrite Forall_forall in *. intros y Hy. apply Hall. apply in_map. exact Hy.
  Qed.

  (* association lists with distinct keys: lookup = sum; equal if same keys and same lookups *)
  Lemma lookup_gsum_nodup l g : NoDup (map fst l) -> gsum g l = glookup g l.
  Proof.
    induction l as [|[g0 p0] l IH]; intros Hnd; [reflexivity|].
    inversion Hnd as [|? ? Hnotin Hnd']; subst. specialize (IH Hnd').
    unfold gsum, vals, glookup in *. cbn [filter find fst snd map].
    destruct (geqb g g0) eqn:E; [|exact IH].
    apply geqb_eq in E. subst g0.
    assert (Hnil : filter (fun x => geqb g (fst x)) l = []).
    { clear -Hnotin geqb_eq. induction l as [|[g1 p1] l IH]; [reflexivity|].
      cbn. destruct (geqb g g1) eqn:E.
      - apply geqb_eq in E. subst g1. exfalso. apply Hnotin. left. reflexivity.
      - apply IH. intros H. apply Hnotin. right. exact H. }
    rewrite Hnil. reflexivity.
  Qed.

  Lemma lookup_in l g p : NoDup (map fst l) -> (glookup g l = Some p <-> In (g, p) l).
  Proof.
    induction l as [|[g0 p0] l IH]; intros Hnd.
    - cbn. split; [discriminate|tauto].
    - inversion Hnd as [|? ? Hnotin Hnd']; subst. specialize (IH Hnd').
      unfold glookup in *. cbn [find fst snd].
      destruct (geqb g g0) eqn:E.
      + apply geqb_eq in E. subst g0. split.
        * intros H. inversion H; subst. left. reflexivity.
        * intros [H|H]; [inversion H; reflexivity|].
          exfalso. apply Hnotin. apply in_map_iff. exists (g, p). split; [reflexivity|exact H].
      + rewrite IH. split; [intros H; right; exact H|].
        intros [H|H]; [|exact H]. inversion H; subst. rewrite geqb_refl in E. discriminate.
  Qed.
End ReduceLemmas.

(* two lists sorted by an antisymmetric total order on their (distinct) keys with the same
   elements are equal *)
Section KeySorted.
  Context {G P : Type} (gleb : G -> G -> bool).
  Hypothesis gleb_total : forall a b, gleb a b = true \/ gleb b a = true.
  Hypothesis gleb_trans : forall a b c, gleb a b = true -> gleb b c = true -> gleb a c = true.
  Hypothesis gleb_antisym : forall a b, gleb a b = true -> gleb b a = true -> a = b.

  Lemma keysorted_eq (l1 l2 : list (G * P)) :
    sorted (pleb gleb) l1 -> sorted (pleb gleb) l2 ->
    NoDup (map fst l1) -> NoDup (map fst l2) ->
    (forall x, In x l1 <-> In x l2) -> l1 = l2.
  Proof.
    revert l2; induction l1 as [|[g1 p1] l1 IH]; intros l2 H1 H2 N1 N2 Hin.
    - destruct l2 as [|y l2]; [reflexivity|]. exfalso. apply (Hin y). left. reflexivity.
    - destruct l2 as [|[g2 p2] l2]; [exfalso; apply (Hin (g1, p1)); left; reflexivity|].
      inversion H1 as [|? ? H1' A1]; subst. inversion H2 as [|? ? H2' A2]; subst.
      inversion N1 as [|? ? Nn1 N1']; subst. inversion N2 as [|? ? Nn2 N2']; subst.
      rewrite Forall_forall in A1, A2.
      assert (Heq : (g1, p1) = (g2, p2)).
      { assert (Ha : In (g1, p1) ((g2, p2) :: l2)) by (apply Hin; left; reflexivity).
        assert (Hb : In (g2, p2) ((g1, p1) :: l1)) by (apply Hin; left; reflexivity).
        destruct Ha as [Ha|Ha]; [symmetry; exact Ha|]. destruct Hb as [Hb|Hb]; [exact Hb|].
        assert (g1 = g2).
        { apply gleb_antisym; [apply (A1 (g2, p2)); exact Hb|apply (A2 (g1, p1)); exact Ha]. }
        subst g2. exfalso. apply Nn1. apply in_map_iff. exists (g1, p2). split; [reflexivity|exact Hb]. }
      inversion Heq; subst g2 p2. f_equal.
      apply IH; try assumption.
      intros x. split; intros Hx.
      + assert (Hx' : In x ((g1, p1) :: l2)) by (apply Hin; right; exact Hx).
        destruct Hx' as [<-|Hx']; [|exact Hx'].
        exfalso. apply Nn1. apply in_map_iff. exists (g1, p1). split; [reflexivity|exact Hx].
      + assert (Hx' : In x ((g1, p1) :: l1)) by (apply Hin; right; exact Hx).
        destruct Hx' as [<-|Hx']; [|exact Hx'].
        exfalso. apply Nn2. apply in_map_iff. exists (g1, p1). split; [reflexivity|exact Hx].
  Qed.
End KeySorted.

(* ---------- comparisons that are total orders ---------- *)
Record total_cmp {A} (cmp : A -> A -> comparison) : Prop := {
  cmp_eq : forall a b, cmp a b = Eq <-> a = b;
  cmp_opp : forall a b, cmp b a = CompOpp (cmp a b);
  cmp_trans : forall a b c, cmp a b = Lt -> cmp b c = Lt -> cmp a c = Lt }.

Lemma Zcompare_total : total_cmp Z.compare.
Proof.
  constructor.
  - intros a b. apply Z.compare_eq_iff.
  - intros a b. apply Z.compare_antisym.
  - intros a b c H1 H2. rewrite Z.compare_lt_iff in *. lia.
Qed.

Lemma Ncompare_total : total_cmp N.compare.
Proof.
  constructor.
  - intros a b. apply N.compare_eq_iff.
  - intros a b. apply N.compare_antisym.
  - intros a b c H1 H2. rewrite N.compare_lt_iff in *. lia.
Qed.

Lemma lexc_total {A B} (ca : A -> A -> comparison) (cb : B -> B -> comparison) :
  total_cmp ca -> total_cmp cb -> total_cmp (lexc ca cb).
Proof.
  intros [ea oa ta] [eb ob tb]. constructor.
  - intros [a1 b1] [a2 b2]. unfold lexc. cbn [fst snd].
    destruct (ca a1 a2) eqn:E.
    + apply ea in E. subst a2. rewrite eb. split; [intros ->; reflexivity|intros H; inversion H; reflexivity].
    + split; [discriminate|]. intros H. inversion H; subst. assert (ca a2 a2 = Eq) by (apply ea; reflexivity). congruence.
    + split; [discriminate|]. intros H. inversion H; subst. assert (ca a2 a2 = Eq) by (apply ea; reflexivity). congruence.
  - intros [a1 b1] [a2 b2]. unfold lexc. cbn [fst snd].
    rewrite (oa a1 a2). destruct (ca a1 a2); cbn; [apply ob|reflexivity|reflexivity].
  - intros [a1 b1] [a2 b2] [a3 b3]. unfold lexc. cbn [fst snd].
    destruct (ca a1 a2) eqn:E12; try discriminate.
    + apply ea in E12. subst a2. destruct (ca a1 a3) eqn:E13; try discriminate; auto. apply tb.
    + intros _. destruct (ca a2 a3) eqn:E23; try discriminate.
      * apply ea in E23. subst a3. rewrite E12. reflexivity.
      * rewrite (ta _ _ _ E12 E23). reflexivity.
Qed.

Lemma key_cmp_total : total_cmp key_cmp.
Proof.
  constructor.
  - induction a as [|x a IH]; intros [|y b]; cbn; try (split; [discriminate|discriminate]); [tauto|].
    destruct (N.compare x y) eqn:E.
    + apply N.compare_eq_iff in E. subst y. rewrite IH. split; [intros ->; reflexivity|intros H; inversion H; reflexivity].
    + split; [discriminate|]. intros H. inversion H; subst. rewrite N.compare_refl in E. discriminate.
    + split; [discriminate|]. intros H. inversion H; subst. rewrite N.compare_refl in E. discriminate.
  - induction a as [|x a IH]; intros [|y b]; cbn; try reflexivity.
    rewrite (N.compare_antisym x y). destruct (N.compare x y); cbn; [apply IH|reflexivity|reflexivity].
  - induction a as [|x a IH]; intros [|y b] [|z c]; cbn; try discriminate; try reflexivity.
    destruct (N.compare x y) eqn:E12; try discriminate.
    + apply N.compare_eq_iff in E12. subst y. destruct (N.compare x z); try discriminate; auto. apply IH.
    + intros _. destruct (N.compare y z) eqn:E23; try discriminate.
      * apply N.compare_eq_iff in E23. subst z. rewrite E12. reflexivity.
      * assert (H : N.compare x z = Lt) by (rewrite N.compare_lt_iff in *; lia). rewrite H. reflexivity.
Qed.

Section CmpOrder.
  Context {A : Type} (cmp : A -> A -> comparison) (T : total_cmp cmp).

  Lemma cmp_refl a : cmp a a = Eq.
  Proof. apply (cmp_eq _ T). reflexivity. Qed.

  Lemma leb_of_total a b : leb_of cmp a b = true \/ leb_of cmp b a = true.
  Proof. unfold leb_of. rewrite (cmp_opp _ T a b). destruct (cmp a b); cbn; auto. Qed.

  Lemma leb_of_trans a b c : leb_of cmp a b = true -> leb_of cmp b c = true -> leb_of cmp a c = true.
  Proof.
    unfold leb_of. destruct (cmp a b) eqn:E1; try discriminate; destruct (cmp b c) eqn:E2; try discriminate; intros _ _.
    - apply (cmp_eq _ T) in E1, E2. subst. rewrite cmp_refl. reflexivity.
    - apply (cmp_eq _ T) in E1. subst. rewrite E2. reflexivity.
    - apply (cmp_eq _ T) in E2. subst. rewrite E1. reflexivity.
    - rewrite (cmp_trans _ T _ _ _ E1 E2). reflexivity.
  Qed.

  Lemma leb_of_antisym a b : leb_of cmp a b = true -> leb_of cmp b a = true -> a = b.
  Proof.
    unfold leb_of. rewrite (cmp_opp _ T a b). destruct (cmp a b) eqn:E; cbn; try discriminate.
    intros _ _. apply (cmp_eq _ T). exact E.
  Qed.

  Lemma eqb_of_eq a b : eqb_of cmp a b = true <-> a = b.
  Proof.
    unfold eqb_of. rewrite <- (cmp_eq _ T). destruct (cmp a b); split; congruence.
  Qed.

  (* both directions *)
  Lemma dir_total d a b : dir d (leb_of cmp) a b = true \/ dir d (leb_of cmp) b a = true.
  Proof. destruct d; cbn; apply leb_of_total. Qed.
  Lemma dir_trans d a b c :
    dir d (leb_of cmp) a b = true -> dir d (leb_of cmp) b c = true -> dir d (leb_of cmp) a c = true.
  Proof. destruct d; cbn; intros H1 H2; eapply leb_of_trans; eassumption. Qed.
  Lemma dir_antisym d a b : dir d (leb_of cmp) a b = true -> dir d (leb_of cmp) b a = true -> a = b.
  Proof. destruct d; cbn; intros H1 H2; [symmetry|]; apply leb_of_antisym; assumption. Qed.
End CmpOrder.

Lemma elem_cmp_total : total_cmp elem_cmp.
Proof. apply lexc_total; [apply lexc_total; [apply key_cmp_total|apply Zcompare_total]|apply Zcompare_total]. Qed.
Lemma grp_cmp_total : total_cmp grp_cmp.
Proof. apply lexc_total; [apply key_cmp_total|apply Zcompare_total]. Qed.


(* ---------- partitions ---------- *)

Lemma filter_filter {A} (p q : A -> bool) l : filter p (filter q l) = filter (fun x => q x && p x) l.
Proof.
  induction l as [|x l IH]; [reflexivity|]. cbn. destruct (q x); cbn; [destruct (p x)|]; rewrite IH; reflexivity.
Qed.

Lemma filter_split_perm {A} (p : A -> bool) l :
  Permutation l (filter p l ++ filter (fun x => negb (p x)) l).
Proof.
  induction l as [|x l IH]; [reflexivity|]. cbn. destruct (p x); cbn.
  - constructor. exact IH.
  - etransitivity; [constructor; exact IH|]. apply Permutation_middle.
Qed.

Lemma flat_map_perm_pointwise {A B} (f g : A -> list B) l :
  (forall x, In x l -> Permutation (f x) (g x)) -> Permutation (flat_map f l) (flat_map g l).
Proof.
  induction l as [|x l IH]; intros H; [reflexivity|]. cbn.
  apply Permutation_app; [apply H; left; reflexivity|]. apply IH. intros y Hy. apply H. right. exact Hy.
Qed.

Lemma flat_map_ext_in {A B} (f g : A -> list B) l :
  (forall x, In x l -> f x = g x) -> flat_map f l = flat_map g l.
Proof.
  induction l as [|x l IH]; intros H; [reflexivity|]. cbn.
  rewrite (H x (or_introl eq_refl)). f_equal. apply IH. intros y Hy. apply H. right. exact Hy.
Qed.

Lemma concat_flat_map {A B} (f : A -> list (list B)) l :
  concat (flat_map f l) = flat_map (fun x => concat (f x)) l.
Proof.
  induction l as [|x l IH]; [reflexivity|]. cbn. rewrite concat_app, IH. reflexivity.
Qed.

Lemma concat_map_flat_map {A B} (f : A -> list B) l : concat (map f l) = flat_map f l.
Proof. symmetry. apply flat_map_concat_map. Qed.

Lemma flat_map_flat_map {A B C} (f : B -> list C) (g : A -> list B) l :
  flat_map f (flat_map g l) = flat_map (fun x => flat_map f (g x)) l.
Proof.
  induction l as [|x l IH]; [reflexivity|]. cbn. rewrite flat_map_app, IH. reflexivity.
Qed.

(* grouping a list by a key, over the distinct keys, is a permutation of the list *)
Section Partition.
  Context {A K : Type} (kof : A -> K) (keqb : K -> K -> bool).
  Hypothesis keqb_eq : forall a b, keqb a b = true <-> a = b.

  Lemma partition_perm (D : list K) (l : list A) :
    NoDup D -> (forall x, In x l -> In (kof x) D) ->
    Permutation (flat_map (fun k => filter (fun x => keqb (kof x) k) l) D) l.
  Proof.
    revert l; induction D as [|k D IH]; intros l Hnd Hin.
    - destruct l as [|x l]; [reflexivity|]. exfalso. apply (Hin x). left. reflexivity.
    - inversion Hnd as [|? ? Hnotin Hnd']; subst. cbn [flat_map].
      etransitivity; [|symmetry; apply (filter_split_perm (fun x => keqb (kof x) k))].
      apply Permutation_app_head.
      etransitivity; [|apply (IH (filter (fun x => negb (keqb (kof x) k)) l) Hnd')].
      + apply Permutation_refl'. apply flat_map_ext_in. intros k' Hk'.
        rewrite filter_filter. apply filter_ext_in. intros x Hx.
        destruct (keqb (kof x) k') eqn:E; [|rewrite andb_false_r; reflexivity].
        rewrite andb_true_r. apply keqb_eq in E.
        destruct (keqb (kof x) k) eqn:E2; [|reflexivity].
        apply keqb_eq in E2. exfalso. apply Hnotin. congruence.
      + intros x Hx. apply filter_In in Hx. destruct Hx as [Hx Hne].
        destruct (Hin x Hx) as [Hk|Hk]; [|exact Hk].
        exfalso. rewrite <- Hk in Hne. rewrite (proj2 (keqb_eq _ _) eq_refl) in Hne. discriminate.
  Qed.
End Partition.

(* ---------- top-n prefixes survive truncating the inputs (limit pushdown) ---------- *)
Section TopN.
  Context {A : Type} (leb : A -> A -> bool).
  Hypothesis leb_total : forall a b, leb a b = true \/ leb b a = true.
  Hypothesis leb_trans : forall a b c, leb a b = true -> leb b c = true -> leb a c = true.
  Hypothesis leb_antisym : forall a b, leb a b = true -> leb b a = true -> a = b.

  Lemma firstn_le_congr {B} n n' (a b : list B) :
    (n <= n')%nat -> firstn n' a = firstn n' b -> firstn n a = firstn n b.
  Proof.
    intros Hn H.
    assert (Ha : firstn n a = firstn n (firstn n' a)) by (rewrite firstn_firstn; f_equal; lia).
    assert (Hb : firstn n b = firstn n (firstn n' b)) by (rewrite firstn_firstn; f_equal; lia).
    rewrite Ha, Hb, H. reflexivity.
  Qed.

  Lemma insert_firstn_congr n x S1 S2 :
    firstn n S1 = firstn n S2 -> firstn n (insert leb x S1) = firstn n (insert leb x S2).
  Proof.
    revert S1 S2; induction n as [|n IH]; intros S1 S2 H; [reflexivity|].
    destruct S1 as [|y1 S1], S2 as [|y2 S2]; cbn in H; try discriminate; [reflexivity|].
    inversion H; subst y2. cbn [insert].
    destruct (leb x y1).
    - cbn [firstn]. f_equal. apply (firstn_le_congr n (S n)); [lia|]. cbn [firstn]. f_equal. assumption.
    - cbn [firstn]. f_equal. apply IH. assumption.
  Qed.

  Lemma fold_insert_firstn_congr n b S1 S2 :
    firstn n S1 = firstn n S2 ->
    firstn n (fold_right (insert leb) S1 b) = firstn n (fold_right (insert leb) S2 b).
  Proof.
    induction b as [|x b IH]; intros H; cbn [fold_right]; [exact H|].
    apply insert_firstn_congr. apply IH. exact H.
  Qed.

  Lemma isort_app_fold b a : isort leb (b ++ a) = fold_right (insert leb) (isort leb a) b.
  Proof. induction b as [|x b IH]; [reflexivity|]. cbn. rewrite IH. reflexivity. Qed.

  Lemma firstn_firstn_le {B} n n' (l : list B) : (n <= n')%nat -> firstn n (firstn n' l) = firstn n l.
  Proof. intros H. rewrite firstn_firstn. f_equal. lia. Qed.

  (* truncating one sorted input to n' >= n elements does not change the first n of the whole *)
  Lemma topn_absorb n n' b a :
    (n <= n')%nat -> sorted leb a ->
    firstn n (isort leb (b ++ firstn n' a)) = firstn n (isort leb (b ++ a)).
  Proof.
    intros Hn Hs. rewrite !isort_app_fold.
    rewrite (sorted_isort leb leb_total leb_trans leb_antisym a Hs).
    rewrite (sorted_isort leb leb_total leb_trans leb_antisym (firstn n' a) (sorted_firstn leb n' a Hs)).
    apply fold_insert_firstn_congr. apply firstn_firstn_le. exact Hn.
  Qed.

  Lemma topn_streams n n' ys R :
    (n <= n')%nat -> Forall (sorted leb) ys ->
    firstn n (isort leb (R ++ concat (map (firstn n') ys))) = firstn n (isort leb (R ++ concat ys)).
  Proof.
    intros Hn. revert R; induction ys as [|y ys IH]; intros R Hs; [reflexivity|].
    inversion Hs as [|? ? Hy Hys]; subst. cbn [map concat].
    (* move the truncated y to the end, absorb, move back *)
    rewrite (isort_unique leb leb_total leb_trans leb_antisym
               (R ++ firstn n' y ++ concat (map (firstn n') ys))
               ((R ++ concat (map (firstn n') ys)) ++ firstn n' y)).
    2:{ rewrite <- app_assoc. apply Permutation_app_head. apply Permutation_app_comm. }
    rewrite (topn_absorb n n' _ y Hn Hy).
    rewrite (isort_unique leb leb_total leb_trans leb_antisym
               ((R ++ concat (map (firstn n') ys)) ++ y)
               ((R ++ y) ++ concat (map (firstn n') ys))).
    2:{ rewrite <- !app_assoc. apply Permutation_app_head. apply Permutation_app_comm. }
    rewrite (IH (R ++ y) Hys). rewrite <- app_assoc. reflexivity.
  Qed.
End TopN.
