(* C11/Proofs.v — proofs about Model.v and Spec.v (generic stream lemmas: StreamLemmas.v). *)
From Coq Require Import List ZArith NArith Bool Lia Permutation Sorted.
From Coq Require Import ZifyBool.
From Verif Require Import C11.Spec C11.Model C11.StreamLemmas.
From VerifGen Require Import Consts.
Import ListNotations.
Open Scope Z_scope.

Lemma perm_eq {A} (a b : list A) : a = b -> Permutation a b.
Proof. intros ->. reflexivity. Qed.

(* ---------- constants re-read from the source ---------- *)

(* the calls NewCallIterator accepts are exactly the ones select.go pushes down, and
   Iterators.Merge merges count as sum: the model (and every theorem below) is stated
   for this configuration; a change of the source stops this lemma *)
Lemma consts_ok :
  (c11_call_iterator_count && c11_call_iterator_sum && c11_call_iterator_mean &&
   c11_call_iterator_min && c11_call_iterator_max && c11_call_iterator_first &&
   c11_call_iterator_last && negb c11_call_iterator_spread && negb c11_call_iterator_median &&
   negb c11_call_iterator_distinct && negb c11_call_iterator_mode && negb c11_call_iterator_percentile &&
   c11_merge_count_as_sum)%bool = true.
Proof. reflexivity. Qed.

(* ---------- windows ---------- *)

Lemma window_covers_lemma tmin tmax D off t :
  0 < D -> c11_min_time + 2 * D < t - off -> t - off < c11_max_time - 2 * D ->
  let w := window_gen tmin tmax D off t in
  fst w <= t < snd w /\ snd w = fst w + D /\ (fst w - off) mod D = 0 /\
  (forall t', fst w <= t' < snd w -> window_gen tmin tmax D off t' = w).
Proof.
  intros HD Hlo Hhi.
  assert (Hw : window_gen tmin tmax D off t = (t - off - (t - off) mod D + off, t - off + (D - (t - off) mod D) + off)).
  { unfold window_gen. destruct (D =? 0) eqn:E; [lia|].
    pose proof (Z.mod_pos_bound (t - off) D HD) as Hb.
    destruct (c11_min_time + (t - off) mod D >=? t - off) eqn:E1; [lia|].
    destruct (c11_max_time - (D - (t - off) mod D) <=? t - off) eqn:E2; [lia|]. reflexivity. }
  cbv zeta. rewrite Hw. cbn [fst snd].
  pose proof (Z.mod_pos_bound (t - off) D HD) as Hb.
  pose proof (Z.div_mod (t - off) D ltac:(lia)) as Hdm.
  repeat split; try lia.
  - replace (t - off - (t - off) mod D + off - off) with (D * ((t - off) / D)) by lia.
    rewrite Z.mul_comm. apply Z.mod_mul. lia.
  - intros t' Ht'.
    assert (Hm : (t' - off) mod D = t' - off - D * ((t - off) / D)).
    { symmetry. apply Z.mod_unique with (q := (t - off) / D); lia. }
    unfold window_gen. destruct (D =? 0) eqn:E; [lia|].
    rewrite Hm.
    destruct (c11_min_time + (t' - off - D * ((t - off) / D)) >=? t' - off) eqn:E1; [lia|].
    destruct (c11_max_time - (D - (t' - off - D * ((t - off) / D))) <=? t' - off) eqn:E2; [lia|].
    f_equal; lia.
Qed.

(* ---------- partial aggregates: associativity, commutativity ---------- *)

Lemma lex_ltb_irrefl a : lex_ltb a a = false.
Proof. unfold lex_ltb. destruct a; cbn. lia. Qed.
Lemma lex_ltb_trans a b c : lex_ltb a b = true -> lex_ltb b c = true -> lex_ltb a c = true.
Proof. unfold lex_ltb. destruct a, b, c; cbn. lia. Qed.
Lemma lex_ltb_total a b : lex_ltb a b = false -> lex_ltb b a = false -> a = b.
Proof. unfold lex_ltb. destruct a, b; cbn. intros. f_equal; lia. Qed.
Lemma lex_ltb_asym a b : lex_ltb a b = true -> lex_ltb b a = false.
Proof. unfold lex_ltb. destruct a, b; cbn. lia. Qed.

Lemma rank_inj ft f p q : rank ft f p = rank ft f q -> p = q.
Proof.
  destruct p as [t v], q as [t' v']. unfold rank. cbn [fst snd].
  destruct f, ft; intros H; inversion H; f_equal; lia.
Qed.

Definition pickmin (rk : tv -> Z * Z) (a b : tv) : tv := if lex_ltb (rk b) (rk a) then b else a.

Lemma pickmin_comm rk : (forall p q, rk p = rk q -> p = q) -> forall a b, pickmin rk a b = pickmin rk b a.
Proof.
  intros Hinj a b. unfold pickmin.
  destruct (lex_ltb (rk b) (rk a)) eqn:E1, (lex_ltb (rk a) (rk b)) eqn:E2; try reflexivity.
  - rewrite (lex_ltb_asym _ _ E1) in E2. discriminate.
  - apply Hinj. apply lex_ltb_total; assumption.
Qed.

Lemma pickmin_assoc rk : (forall p q, rk p = rk q -> p = q) ->
  forall a b c, pickmin rk a (pickmin rk b c) = pickmin rk (pickmin rk a b) c.
Proof.
  intros Hinj a b c. unfold pickmin.
  destruct (lex_ltb (rk c) (rk b)) eqn:Ecb; destruct (lex_ltb (rk b) (rk a)) eqn:Eba.
  - try rewrite Ecb. rewrite (lex_ltb_trans _ _ _ Ecb Eba). reflexivity.
  - reflexivity.
  - try rewrite Eba; try rewrite Ecb; reflexivity.
  - try rewrite Eba. destruct (lex_ltb (rk c) (rk a)) eqn:Eca; [|reflexivity].
    exfalso.
    destruct (lex_ltb (rk a) (rk b)) eqn:Eab.
    + rewrite (lex_ltb_trans _ _ _ Eca Eab) in Ecb. discriminate.
    + assert (rk a = rk b) by (apply lex_ltb_total; assumption). congruence.
Qed.

Definition is_selector (f : fn) : bool :=
  match f with FMin | FMax | FFirst | FLast => true | _ => false end.
Definition is_pushed (f : fn) : bool :=
  match f with FCount | FSum | FMean | FMin | FMax | FFirst | FLast => true | _ => false end.

Lemma pushed_is_pushed f : pushed f = is_pushed f.
Proof. destruct f; reflexivity. Qed.

Lemma comb_selector ft f : is_selector f = true -> comb ft f = pickmin (rank ft f).
Proof. destruct f; try discriminate; reflexivity. Qed.

Lemma comb_assoc ft f a b c : is_pushed f = true -> comb ft f a (comb ft f b c) = comb ft f (comb ft f a b) c.
Proof.
  intros Hp. destruct (is_selector f) eqn:Es.
  - rewrite (comb_selector ft f Es). apply pickmin_assoc. apply rank_inj.
  - destruct f; try discriminate; destruct a, b, c; cbn; f_equal; lia.
Qed.

Lemma comb_comm ft f a b : is_pushed f = true -> comb ft f a b = comb ft f b a.
Proof.
  intros Hp. destruct (is_selector f) eqn:Es.
  - rewrite (comb_selector ft f Es). apply pickmin_comm. apply rank_inj.
  - destruct f; try discriminate; destruct a, b; cbn; f_equal; lia.
Qed.

Lemma upper_comb_eq ft f : upper_comb ft f = comb ft f.
Proof. destruct f; reflexivity. Qed.

Lemma ocomb_oplus ft f : ocomb ft f = oplus (comb ft f).
Proof. reflexivity. Qed.

Lemma pfold_ofold ft f l : pfold ft f l = ofold (comb ft f) (map (inj f) l).
Proof.
  induction l as [|x l IH]; [reflexivity|].
  unfold pfold, ofold in *. cbn [fold_right map]. rewrite IH. reflexivity.
Qed.

Lemma pfold_app ft f a b : is_pushed f = true -> pfold ft f (a ++ b) = ocomb ft f (pfold ft f a) (pfold ft f b).
Proof.
  intros Hp. rewrite !pfold_ofold, map_app. apply ofold_app. intros; apply comb_assoc; exact Hp.
Qed.

Lemma pfold_perm ft f l l' : is_pushed f = true -> Permutation l l' -> pfold ft f l = pfold ft f l'.
Proof.
  intros Hp H. rewrite !pfold_ofold. apply ofold_perm.
  - intros; apply comb_assoc; exact Hp.
  - intros; apply comb_comm; exact Hp.
  - apply Permutation_map. exact H.
Qed.

(* two-level evaluation over any partition = single-level evaluation *)
Lemma agg_decomposable_lemma ft f (parts : list (list tv)) (l : list tv) :
  is_pushed f = true -> Permutation (concat parts) l ->
  fold_right (fun p acc => ocomb ft f (pfold ft f p) acc) None parts = pfold ft f l.
Proof.
  intros Hp Hperm. rewrite <- (pfold_perm ft f _ _ Hp Hperm). clear Hperm l.
  induction parts as [|p parts IH]; [reflexivity|].
  cbn [concat fold_right]. rewrite pfold_app by exact Hp. rewrite IH. reflexivity.
Qed.

(* ---------- order instances ---------- *)

Lemma tags_eqb_eq a b : tags_eqb a b = true <-> a = b.
Proof.
  revert b; induction a as [|x a IH]; intros [|y b]; cbn; try (split; discriminate); [tauto|].
  rewrite andb_true_iff, N.eqb_eq, IH. split; [intros [-> ->]; reflexivity|intros H; inversion H; auto].
Qed.

Definition key_eqb_eq := eqb_of_eq key_cmp key_cmp_total.
Definition key_leb_total := leb_of_total key_cmp key_cmp_total.
Definition key_leb_trans := leb_of_trans key_cmp key_cmp_total.
Definition key_leb_antisym := leb_of_antisym key_cmp key_cmp_total.
Definition grp_eqb_eq := eqb_of_eq grp_cmp grp_cmp_total.

Lemma distinct_in {K} (eqb leb : K -> K -> bool) (Heq : forall a b, eqb a b = true <-> a = b) l x :
  In x (dedup eqb (isort leb l)) <-> In x l.
Proof.
  rewrite (in_dedup eqb Heq). split; intros H.
  - eapply Permutation_in; [apply isort_perm|exact H].
  - eapply Permutation_in; [symmetry; apply isort_perm|exact H].
Qed.

Lemma series_list_in sh t : In t (series_list sh) <-> exists p, In p sh /\ p_tags p = t.
Proof.
  unfold series_list. rewrite (distinct_in tags_eqb tags_leb tags_eqb_eq). rewrite in_map_iff.
  split; intros [p [H1 H2]]; exists p; tauto.
Qed.

Lemma series_list_nodup sh : NoDup (series_list sh).
Proof.
  unfold series_list. apply (sorted_dedup_nodup tags_eqb tags_leb tags_eqb_eq key_leb_antisym).
  apply isort_sorted; [apply key_leb_total|apply key_leb_trans].
Qed.

(* ---------- a shard's cursors partition its selected points ---------- *)

Definition point_in (s : stmt) (t : tags) (p : point) : bool :=
  tags_eqb p.(p_tags) t && (s.(s_tmin) <=? p.(p_time)) && (p.(p_time) <=? s.(s_tmax)).

Lemma cursor_perm s sh t : Permutation (cursor s sh t) (filter (point_in s t) sh).
Proof. unfold cursor. apply isort_perm. Qed.

Definition shard_cursors (s : stmt) (sh : shard) : list (list point) :=
  flat_map (fun k => map (cursor s sh) (tagset_series s sh k)) (shard_tagsets s sh).

Lemma limit_tagsets_off {A} (a : list A) : limit_tagsets 0 0 a = a.
Proof. reflexivity. Qed.

Lemma slimit_off s : slimit_on s = false -> s.(s_slimit) = 0%N /\ s.(s_soffset) = 0%N.
Proof.
  unfold slimit_on. intros H. apply negb_false_iff in H. apply andb_true_iff in H.
  destruct H as [H1 H2]. apply N.eqb_eq in H1, H2. auto.
Qed.

Lemma shard_series_perm s sh :
  slimit_on s = false ->
  Permutation (flat_map (tagset_series s sh) (shard_tagsets s sh)) (filter (pred_ok s) (series_list sh)).
Proof.
  intros Hoff. destruct (slimit_off s Hoff) as [H1 H2].
  unfold shard_tagsets. rewrite H1, H2, limit_tagsets_off.
  set (SL := filter (pred_ok s) (series_list sh)).
  etransitivity; [|apply (partition_perm (mask s.(s_dims)) key_eqb key_eqb_eq
                          (dedup key_eqb (isort key_leb (map (mask s.(s_dims)) SL))) SL)].
  - apply perm_eq. apply flat_map_ext_in. intros k _.
    unfold tagset_series, SL. rewrite filter_filter. reflexivity.
  - apply (sorted_dedup_nodup key_eqb key_leb key_eqb_eq key_leb_antisym).
    apply isort_sorted; [apply key_leb_total|apply key_leb_trans].
  - intros t Ht. apply (distinct_in key_eqb key_leb key_eqb_eq). apply in_map. exact Ht.
Qed.

Lemma sel_split s p : sel s p = ((s.(s_tmin) <=? p.(p_time)) && (p.(p_time) <=? s.(s_tmax)) && pred_ok s p.(p_tags))%bool.
Proof. reflexivity. Qed.

Lemma shard_cursors_perm s sh :
  slimit_on s = false -> Permutation (concat (shard_cursors s sh)) (filter (sel s) sh).
Proof.
  intros Hoff. unfold shard_cursors.
  rewrite concat_flat_map.
  (* = flat_map (fun t => cursor t) over all series of all tag sets *)
  transitivity (flat_map (fun t => cursor s sh t) (flat_map (tagset_series s sh) (shard_tagsets s sh))).
  { rewrite flat_map_flat_map. apply perm_eq. apply flat_map_ext_in. intros k _.
    apply concat_map_flat_map. }
  etransitivity; [apply Permutation_flat_map, shard_series_perm; exact Hoff|].
  etransitivity; [apply flat_map_perm_pointwise; intros t _; apply cursor_perm|].
  set (l' := filter (sel s) sh).
  etransitivity; [|apply (partition_perm p_tags tags_eqb tags_eqb_eq (filter (pred_ok s) (series_list sh)) l')].
  - apply perm_eq. apply flat_map_ext_in. intros t Ht. apply filter_In in Ht. destruct Ht as [_ Hp].
    unfold l'. rewrite filter_filter. apply filter_ext. intros p. unfold point_in. rewrite sel_split.
    destruct (tags_eqb (p_tags p) t) eqn:E.
    + apply tags_eqb_eq in E. rewrite E, Hp.
      destruct (s_tmin s <=? p_time p), (p_time p <=? s_tmax s); reflexivity.
    + rewrite andb_false_r. reflexivity.
  - apply NoDup_filter. apply series_list_nodup.
  - intros p Hp. unfold l' in Hp. apply filter_In in Hp. destruct Hp as [Hin Hsel].
    apply filter_In. split.
    + apply series_list_in. exists p. auto.
    + rewrite sel_split in Hsel. apply andb_true_iff in Hsel. tauto.
Qed.

(* ---------- element order, both directions ---------- *)

Definition elem_d_total s := dir_total elem_cmp elem_cmp_total s.(s_desc).
Definition elem_d_trans s := dir_trans elem_cmp elem_cmp_total s.(s_desc).
Definition elem_d_antisym s := dir_antisym elem_cmp elem_cmp_total s.(s_desc).

Lemma elem_dleb_unfold s : elem_dleb s = dir s.(s_desc) (leb_of elem_cmp).
Proof. reflexivity. Qed.

Definition esort (s : stmt) (l : list elem) : list elem := isort (elem_dleb s) l.

Lemma esort_sorted s l : sorted (elem_dleb s) (esort s l).
Proof. apply isort_sorted; [apply elem_d_total|apply elem_d_trans]. Qed.

Lemma esort_unique s l l' : Permutation l l' -> esort s l = esort s l'.
Proof. apply isort_unique; [apply elem_d_total|apply elem_d_trans|apply elem_d_antisym]. Qed.

Lemma esort_perm s l : Permutation (esort s l) l.
Proof. apply isort_perm. Qed.

Lemma perm_concat_map {A B} (f g : A -> list B) l :
  (forall x, In x l -> Permutation (f x) (g x)) -> Permutation (concat (map f l)) (concat (map g l)).
Proof. intros H. rewrite !concat_map_flat_map. apply flat_map_perm_pointwise. exact H. Qed.

(* merging streams that are each the sort of something = sorting everything *)
Lemma kmerge_esort {B} s (f g : B -> list elem) (l : list B) :
  (forall x, In x l -> f x = esort s (g x)) ->
  kmerge (elem_dleb s) (map f l) = esort s (concat (map g l)).
Proof.
  intros H.
  rewrite (kmerge_isort (elem_dleb s) (elem_d_total s) (elem_d_trans s) (elem_d_antisym s)).
  - apply esort_unique. apply perm_concat_map. intros x Hx. rewrite (H x Hx). apply esort_perm.
  - apply Forall_forall. intros y Hy. apply in_map_iff in Hy. destruct Hy as [x [<- Hx]].
    rewrite (H x Hx). apply esort_sorted.
Qed.

Lemma sorted_map {A B} (la : A -> A -> bool) (lb : B -> B -> bool) (f : A -> B) l :
  (forall a b, In a l -> In b l -> la a b = true -> lb (f a) (f b) = true) ->
  sorted la l -> sorted lb (map f l).
Proof.
  induction l as [|x l IH]; intros H Hs; [constructor|].
  inversion Hs as [|? ? Hs' Hall]; subst. cbn. constructor.
  - apply IH; [|exact Hs']. intros a b Ha Hb. apply H; right; assumption.
  - rewrite Forall_forall in *. intros y Hy. apply in_map_iff in Hy. destruct Hy as [z [<- Hz]].
    apply H; [left; reflexivity|right; exact Hz|apply Hall; exact Hz].
Qed.

Lemma time_cmp_total : total_cmp (fun a b : point => lexc Z.compare Z.compare (p_time a, p_val a) (p_time b, p_val b)).
Proof.
  (* only a preorder on points (tags are ignored): totality and transitivity are what is used *)
Abort.

Lemma time_leb_total d a b : dir d time_leb a b = true \/ dir d time_leb b a = true.
Proof.
  pose proof (lexc_total _ _ Zcompare_total Zcompare_total) as T.
  destruct d; cbn; unfold time_leb; apply (leb_of_total _ T).
Qed.

Lemma time_leb_trans d a b c : dir d time_leb a b = true -> dir d time_leb b c = true -> dir d time_leb a c = true.
Proof.
  pose proof (lexc_total _ _ Zcompare_total Zcompare_total) as T.
  destruct d; cbn; unfold time_leb; intros H1 H2.
  - exact (leb_of_trans _ T _ _ _ H2 H1).
  - exact (leb_of_trans _ T _ _ _ H1 H2).
Qed.

Lemma cursor_sorted s sh t : sorted (dir s.(s_desc) time_leb) (cursor s sh t).
Proof. unfold cursor. apply isort_sorted; [apply time_leb_total|apply time_leb_trans]. Qed.

Lemma cursor_tags s sh t p : In p (cursor s sh t) -> p_tags p = t.
Proof.
  intros H. eapply Permutation_in in H; [|apply cursor_perm]. apply filter_In in H.
  destruct H as [_ H]. unfold point_in in H. apply andb_true_iff in H. destruct H as [H _].
  apply andb_true_iff in H. destruct H as [H _]. apply tags_eqb_eq. exact H.
Qed.

Lemma elem_leb_same_key s p q :
  p_tags p = p_tags q -> elem_leb (to_elem s p) (to_elem s q) = time_leb p q.
Proof.
  intros Ht. unfold elem_leb, time_leb, leb_of, elem_cmp, to_elem, key_of, lexc. cbn [fst snd].
  rewrite Ht. rewrite (cmp_refl key_cmp key_cmp_total). reflexivity.
Qed.

Lemma cursor_elems_sorted s sh t : sorted (elem_dleb s) (map (to_elem s) (cursor s sh t)).
Proof.
  eapply sorted_map; [|apply cursor_sorted].
  intros a b Ha Hb. apply cursor_tags in Ha, Hb.
  unfold elem_dleb, dir. destruct (s_desc s); rewrite elem_leb_same_key by congruence; auto.
Qed.

Lemma sorted_esort s l : sorted (elem_dleb s) l -> esort s l = l.
Proof. apply sorted_isort; [apply elem_d_total|apply elem_d_trans|apply elem_d_antisym]. Qed.

(* ---------- raw streams without a pushed-down limit ---------- *)

Definition no_push (push : bool) (s : stmt) : Prop := push = false \/ s.(s_limit) = 0%N.

Lemma limit_push_off {A} push s (l : list A) : no_push push s -> (if push then limit_push s l else l) = l.
Proof.
  intros [->| H]; [reflexivity|]. destruct push; [|reflexivity]. unfold limit_push. rewrite H. reflexivity.
Qed.

Lemma map_concat_nested {A B C K} (f : B -> C) (c : A -> list B) (TS : K -> list A) (Ks : list K) :
  map f (concat (flat_map (fun k => map c (TS k)) Ks)) =
  concat (map (fun k => concat (map (fun t => map f (c t)) (TS k))) Ks).
Proof.
  induction Ks as [|k Ks IH]; [reflexivity|].
  cbn [flat_map map concat]. rewrite concat_app, map_app, IH. f_equal.
  rewrite concat_map, map_map. reflexivity.
Qed.

Definition selems (s : stmt) (pts : list point) : list elem := map (to_elem s) (filter (sel s) pts).

Lemma shard_raw_nolimit push s sh :
  slimit_on s = false -> no_push push s -> shard_raw push s sh = esort s (selems s sh).
Proof.
  intros Hoff Hnp. unfold shard_raw.
  transitivity (esort s (concat (map (fun k => concat (map (fun t => map (to_elem s) (cursor s sh t)) (tagset_series s sh k))) (shard_tagsets s sh)))).
  - apply kmerge_esort. intros k _. rewrite limit_push_off by exact Hnp.
    apply kmerge_esort. intros t _. symmetry. apply sorted_esort. apply cursor_elems_sorted.
  - apply esort_unique. unfold selems.
    etransitivity; [|apply Permutation_map, (shard_cursors_perm s sh Hoff)].
    apply perm_eq. unfold shard_cursors. symmetry. apply map_concat_nested.
Qed.

Lemma filter_concat {A} (p : A -> bool) ls : filter p (concat ls) = concat (map (filter p) ls).
Proof. induction ls as [|l ls IH]; [reflexivity|]. cbn. rewrite filter_app, IH. reflexivity. Qed.

Lemma selems_app s a b : selems s (a ++ b) = selems s a ++ selems s b.
Proof. unfold selems. rewrite filter_app, map_app. reflexivity. Qed.

Lemma selems_concat s ls : selems s (concat ls) = concat (map (selems s) ls).
Proof. induction ls as [|l ls IH]; [reflexivity|]. cbn [concat map]. rewrite selems_app, IH. reflexivity. Qed.

Lemma layout_raw_nolimit push s L :
  slimit_on s = false -> no_push push s ->
  layout_raw push s L = esort s (selems s (layout_points L)).
Proof.
  intros Hoff Hnp. unfold layout_raw, layout_points.
  rewrite (kmerge_esort s _ (fun nd => selems s (concat nd))).
  - f_equal. induction L as [|nd L IH]; [reflexivity|]. cbn [map concat]. rewrite concat_app, selems_app, IH. reflexivity.
  - intros nd _. rewrite (kmerge_esort s _ (selems s)).
    + rewrite selems_concat. reflexivity.
    + intros sh _. apply shard_raw_nolimit; assumption.
Qed.

Lemma sorted_rev {A} (leb : A -> A -> bool) l :
  sorted leb l -> sorted (fun a b => leb b a) (rev l).
Proof.
  induction l as [|x l IH]; intros Hs; cbn; [constructor|].
  inversion Hs as [|? ? Hs' Hall]; subst.
  apply sorted_app; [apply IH; exact Hs'|constructor; constructor|].
  intros a b Ha Hb. destruct Hb as [<-|[]]. apply in_rev in Ha.
  rewrite Forall_forall in Hall. apply Hall. exact Ha.
Qed.

Lemma esort_dir s l :
  esort s l = if s.(s_desc) then rev (isort elem_leb l) else isort elem_leb l.
Proof.
  unfold esort, elem_dleb. destruct (s_desc s) eqn:E.
  - apply (sorted_perm_eq (dir true elem_leb)).
    + intros a b. apply (dir_antisym elem_cmp elem_cmp_total true).
    + apply isort_sorted; [apply (dir_total elem_cmp elem_cmp_total true)|apply (dir_trans elem_cmp elem_cmp_total true)].
    + apply (sorted_rev elem_leb). apply isort_sorted;
        [apply (leb_of_total elem_cmp elem_cmp_total)|apply (leb_of_trans elem_cmp elem_cmp_total)].
    + rewrite isort_perm. rewrite <- Permutation_rev. symmetry. apply isort_perm.
  - reflexivity.
Qed.

Definition dirl {A} (desc : bool) (l : list A) : list A := if desc then rev l else l.

(* raw SELECT without LIMIT: the stream of any layout is the reference stream *)
Lemma model_stream_raw_nolimit ft s L data :
  s.(s_fn) = FRaw -> slimit_on s = false -> s.(s_limit) = 0%N ->
  Permutation (layout_points L) data ->
  model_stream ft s L = dirl s.(s_desc) (ref_stream ft s (filter (sel s) data)).
Proof.
  intros Hf Hoff Hlim Hperm. unfold model_stream, ref_stream. rewrite Hf.
  rewrite (layout_raw_nolimit true s L Hoff (or_intror Hlim)).
  unfold raw_stream.
  assert (Hp : Permutation (selems s (layout_points L)) (map (to_elem s) (filter (sel s) data))).
  { unfold selems. apply Permutation_map, filter_perm, Hperm. }
  rewrite (esort_unique s _ _ Hp). rewrite esort_dir. unfold dirl.
  destruct (s_desc s); [rewrite map_rev|]; reflexivity.
Qed.

Lemma filter_layout_points (p : point -> bool) (L : layout) :
  filter p (layout_points L) = concat (map (fun nd => concat (map (filter p) nd)) L).
Proof.
  unfold layout_points. induction L as [|nd L IH]; [reflexivity|].
  cbn [map concat]. rewrite concat_app, filter_app, IH, filter_concat. reflexivity.
Qed.

(* ---------- windows are monotone in time ---------- *)

Lemma wstart_mono s t1 t2 : 0 <= s.(s_interval) -> t1 <= t2 -> wstart s t1 <= wstart s t2.
Proof.
  intros HD Hle. unfold wstart, window, window_gen.
  destruct (s_interval s =? 0) eqn:E; [cbn; lia|].
  assert (HDpos : 0 < s_interval s) by lia.
  set (D := s_interval s) in *. set (off := interval_offset s).
  cbn [fst].
  assert (H : D * ((t1 - off) / D) <= D * ((t2 - off) / D)).
  { apply Z.mul_le_mono_nonneg_l; [lia|]. apply Z.div_le_mono; lia. }
  rewrite (Z.mod_eq (t1 - off) D), (Z.mod_eq (t2 - off) D) by lia.
  destruct (c11_min_time + (t1 - off - D * ((t1 - off) / D)) >=? t1 - off) eqn:E1;
  destruct (c11_min_time + (t2 - off - D * ((t2 - off) / D)) >=? t2 - off) eqn:E2; lia.
Qed.

Lemma time_leb_le a b : time_leb a b = true -> p_time a <= p_time b.
Proof.
  unfold time_leb, leb_of, lexc. cbn [fst snd].
  destruct (p_time a ?= p_time b) eqn:E.
  - apply Z.compare_eq_iff in E. lia.
  - rewrite Z.compare_lt_iff in E. lia.
  - discriminate.
Qed.

Lemma grp_leb_same_key k w1 w2 : grp_leb (k, w1) (k, w2) = (w1 <=? w2).
Proof.
  unfold grp_leb, leb_of, grp_cmp, lexc. cbn [fst snd]. rewrite (cmp_refl key_cmp key_cmp_total).
  destruct (w1 ?= w2) eqn:E.
  - apply Z.compare_eq_iff in E. lia.
  - rewrite Z.compare_lt_iff in E. lia.
  - rewrite Z.compare_gt_iff in E. lia.
Qed.

(* ---------- pushed-down calls: every level represents the fold of the points below it ---------- *)

Section Parts.
  Variable ft : ftype.
  Variable s : stmt.
  Hypothesis Hiv : 0 <= s.(s_interval).
  Hypothesis Hpush : is_pushed s.(s_fn) = true.

  Let gleb := dir s.(s_desc) grp_leb.
  Let cmb := comb ft s.(s_fn).

  Lemma gleb_total a b : gleb a b = true \/ gleb b a = true.
  Proof. apply (dir_total grp_cmp grp_cmp_total). Qed.
  Lemma gleb_trans a b c : gleb a b = true -> gleb b c = true -> gleb a c = true.
  Proof. apply (dir_trans grp_cmp grp_cmp_total). Qed.
  Lemma gleb_antisym a b : gleb a b = true -> gleb b a = true -> a = b.
  Proof. apply (dir_antisym grp_cmp grp_cmp_total). Qed.

  Lemma cmb_assoc a b c : cmb a (cmb b c) = cmb (cmb a b) c.
  Proof. apply comb_assoc. exact Hpush. Qed.
  Lemma cmb_comm a b : cmb a b = cmb b a.
  Proof. apply comb_comm. exact Hpush. Qed.

  Definition rparts (pts : list point) : list part :=
    map (fun p => (grp_of s p, inj s.(s_fn) (p.(p_time), p.(p_val)))) pts.

  Notation gs := (gsum grp_eqb cmb).

  Definition repr (X : list part) (C : list point) : Prop :=
    gsorted gleb X /\
    (forall g, gs g X = gs g (rparts C)) /\
    (forall g, In g (map fst X) <-> In g (map fst (rparts C))).

  Lemma gsum_perm g (X Y : list part) : Permutation X Y -> gs g X = gs g Y.
  Proof.
    intros H. unfold gsum. apply ofold_perm; [apply cmb_assoc|apply cmb_comm|].
    unfold vals. apply Permutation_map, filter_perm, H.
  Qed.

  Lemma gsum_app g (X Y : list part) : gs g (X ++ Y) = oplus cmb (gs g X) (gs g Y).
  Proof.
    unfold gsum, vals. rewrite filter_app, map_app. apply ofold_app. apply cmb_assoc.
  Qed.

  Lemma gsum_concat_congr {B} g (f f' : B -> list part) l :
    (forall x, In x l -> gs g (f x) = gs g (f' x)) ->
    gs g (concat (map f l)) = gs g (concat (map f' l)).
  Proof.
    induction l as [|x l IH]; intros H; [reflexivity|].
    cbn [map concat]. rewrite !gsum_app. rewrite (H x (or_introl eq_refl)).
    rewrite IH; [reflexivity|]. intros y Hy. apply H. right. exact Hy.
  Qed.

  Lemma rparts_concat {B} (c : B -> list point) l :
    rparts (concat (map c l)) = concat (map (fun x => rparts (c x)) l).
  Proof. unfold rparts. rewrite concat_map, map_map. reflexivity. Qed.

  Lemma repr_perm X C C' : repr X C -> Permutation C C' -> repr X C'.
  Proof.
    intros [H1 [H2 H3]] Hp.
    assert (Hrp : Permutation (rparts C) (rparts C')) by (apply Permutation_map, Hp).
    split; [exact H1|]. split.
    - intros g. rewrite H2. apply gsum_perm. exact Hrp.
    - intros g. rewrite H3. split; intros H; eapply Permutation_in; try exact H;
        [apply Permutation_map, Hrp|apply Permutation_map; symmetry; exact Hrp].
  Qed.

  Lemma repr_reduce X C : repr X C -> repr (reduce_stream grp_eqb cmb X) C.
  Proof.
    intros [H1 [H2 H3]]. split; [|split].
    - apply (reduce_sorted grp_eqb gleb cmb grp_eqb_eq). exact H1.
    - intros g. rewrite <- H2.
      rewrite (lookup_gsum_nodup grp_eqb cmb grp_eqb_eq).
      + apply (reduce_lookup grp_eqb gleb cmb grp_eqb_eq gleb_antisym). exact H1.
      + apply (reduce_nodup grp_eqb gleb cmb grp_eqb_eq gleb_antisym). exact H1.
    - intros g. rewrite (reduce_key_in grp_eqb cmb grp_eqb_eq). apply H3.
  Qed.

  Lemma in_keys_concat {B} g (f : B -> list part) l :
    In g (map fst (concat (map f l))) <-> exists x, In x l /\ In g (map fst (f x)).
  Proof.
    rewrite concat_map, map_map, in_concat. split.
    - intros [ys [Hys Hg]]. apply in_map_iff in Hys. destruct Hys as [x [<- Hx]]. eauto.
    - intros [x [Hx Hg]]. exists (map fst (f x)). split; [apply in_map_iff; eauto|exact Hg].
  Qed.

  Lemma repr_kmerge {B} (f : B -> list part) (c : B -> list point) l :
    (forall x, In x l -> repr (f x) (c x)) ->
    repr (kmerge (part_dleb s) (map f l)) (concat (map c l)).
  Proof.
    intros H.
    assert (Hperm : Permutation (kmerge (part_dleb s) (map f l)) (concat (map f l))).
    { apply kmerge_perm. intros a b. apply gleb_total. }
    split; [|split].
    - apply kmerge_sorted.
      + intros a b. apply gleb_total.
      + intros a b c0. apply gleb_trans.
      + apply Forall_forall. intros y Hy. apply in_map_iff in Hy. destruct Hy as [x [<- Hx]].
        apply (H x Hx).
    - intros g. rewrite (gsum_perm g _ _ Hperm). rewrite rparts_concat.
      apply gsum_concat_congr. intros x Hx. apply (H x Hx).
    - intros g. rewrite rparts_concat.
      transitivity (In g (map fst (concat (map f l)))).
      + split; intros Hin; eapply Permutation_in; try exact Hin;
          [apply Permutation_map, Hperm|apply Permutation_map; symmetry; exact Hperm].
      + rewrite !in_keys_concat. split; intros [x [Hx Hg]]; exists x; (split; [exact Hx|]);
          apply (H x Hx); exact Hg.
  Qed.

  Lemma rparts_cursor_sorted sh t : gsorted gleb (rparts (cursor s sh t)).
  Proof.
    unfold rparts. eapply sorted_map; [|apply cursor_sorted].
    intros a b Ha Hb Hab. apply cursor_tags in Ha, Hb.
    unfold pleb. cbn [fst]. unfold grp_of, key_of. rewrite Ha, Hb.
    unfold gleb, dir in *. destruct (s_desc s); rewrite grp_leb_same_key; apply Z.leb_le;
      apply wstart_mono; try exact Hiv; apply time_leb_le; exact Hab.
  Qed.

  Lemma repr_leaf sh t : repr (series_parts ft s sh t) (cursor s sh t).
  Proof.
    unfold series_parts. apply repr_reduce.
    split; [apply rparts_cursor_sorted|]. split; intros g; reflexivity.
  Qed.

  Lemma merge_reduce_repr {B} (f : B -> list part) (c : B -> list point) l :
    (forall x, In x l -> repr (f x) (c x)) ->
    repr (merge_reduce ft s (map f l)) (concat (map c l)).
  Proof.
    intros H. unfold merge_reduce. rewrite upper_comb_eq. apply repr_reduce. apply repr_kmerge. exact H.
  Qed.

  Lemma shard_parts_repr sh : slimit_on s = false -> repr (shard_parts ft s sh) (filter (sel s) sh).
  Proof.
    intros Hoff. unfold shard_parts.
    eapply repr_perm.
    - apply (merge_reduce_repr _ (fun k => concat (map (cursor s sh) (tagset_series s sh k)))).
      intros k _. apply repr_kmerge. intros t _. apply repr_leaf.
    - etransitivity; [|apply (shard_cursors_perm s sh Hoff)].
      apply perm_eq. unfold shard_cursors. rewrite concat_flat_map, concat_map_flat_map. reflexivity.
  Qed.

  Lemma layout_parts_repr L :
    slimit_on s = false -> repr (layout_parts ft s L) (filter (sel s) (layout_points L)).
  Proof.
    intros Hoff. unfold layout_parts.
    eapply repr_perm.
    - apply (merge_reduce_repr (fun _ : unit => _) (fun _ => concat (map (fun nd => concat (map (filter (sel s)) nd)) L)) [tt]).
      intros _ _. apply merge_reduce_repr. intros nd _. apply merge_reduce_repr.
      intros sh _. apply shard_parts_repr. exact Hoff.
    - cbn [map concat]. rewrite app_nil_r. apply perm_eq. symmetry. apply filter_layout_points.
  Qed.

  Lemma layout_parts_nodup L : slimit_on s = false -> NoDup (map fst (layout_parts ft s L)).
  Proof.
    intros Hoff. unfold layout_parts, merge_reduce at 1.
    apply (reduce_nodup grp_eqb gleb _ grp_eqb_eq gleb_antisym).
    apply kmerge_sorted.
    - intros a b. apply gleb_total.
    - intros a b c0. apply gleb_trans.
    - constructor; [|constructor].
      apply (merge_reduce_repr (fun nd => merge_reduce ft s (map (shard_parts ft s) nd))
                               (fun nd => concat (map (filter (sel s)) nd)) L).
      intros nd _. apply merge_reduce_repr. intros sh _. apply shard_parts_repr. exact Hoff.
  Qed.
End Parts.

(* ---------- the reference parts and the model's parts coincide ---------- *)

Definition parts_ref (ft : ftype) (s : stmt) (pts : list point) : list part :=
  flat_map (fun g => match pfold ft s.(s_fn) (members s g pts) with Some p => [(g, p)] | None => [] end)
           (groups s pts).

Definition fin (ft : ftype) (s : stmt) (gp : part) : relem :=
  let '(st, v) := finalize ft s.(s_fn) (snd gp) in (fst (fst gp), row_time s (fst gp) st, v).

Lemma agg_pushed ft f l : is_pushed f = true -> agg ft f l = option_map (finalize ft f) (pfold ft f l).
Proof. destruct f; try discriminate; reflexivity. Qed.

Lemma aggs_pushed ft f desc l :
  is_pushed f = true ->
  aggs ft f desc l = match option_map (finalize ft f) (pfold ft f l) with Some x => [x] | None => [] end.
Proof. intros H. unfold aggs. destruct f; try discriminate; reflexivity. Qed.

Lemma agg_stream_pushed ft s pts :
  is_pushed s.(s_fn) = true -> agg_stream ft s pts = map (fin ft s) (parts_ref ft s pts).
Proof.
  intros Hp. unfold agg_stream, parts_ref.
  induction (groups s pts) as [|g gl IH]; [reflexivity|].
  cbn [flat_map]. rewrite map_app. f_equal; [|exact IH].
  rewrite (aggs_pushed ft _ _ _ Hp).
  destruct (pfold ft (s_fn s) (members s g pts)) as [p|]; cbn [option_map map].
  - unfold fin, emit. cbn [snd fst]. destruct (finalize ft (s_fn s) p). destruct (s_desc s); reflexivity.
  - destruct (s_desc s); reflexivity.
Qed.

Definition grp_leb_total := leb_of_total grp_cmp grp_cmp_total.
Definition grp_leb_trans := leb_of_trans grp_cmp grp_cmp_total.
Definition grp_leb_antisym := leb_of_antisym grp_cmp grp_cmp_total.

Lemma groups_in s pts g : In g (groups s pts) <-> exists p, In p pts /\ grp_of s p = g.
Proof.
  unfold groups. rewrite (distinct_in grp_eqb grp_leb grp_eqb_eq). rewrite in_map_iff.
  split; intros [p [H1 H2]]; exists p; tauto.
Qed.

Lemma groups_sorted s pts : sorted grp_leb (groups s pts).
Proof.
  unfold groups. apply (dedup_sorted grp_eqb grp_leb grp_eqb_eq).
  apply isort_sorted; [apply grp_leb_total|apply grp_leb_trans].
Qed.

Lemma groups_nodup s pts : NoDup (groups s pts).
Proof.
  unfold groups. apply (sorted_dedup_nodup grp_eqb grp_leb grp_eqb_eq grp_leb_antisym).
  apply isort_sorted; [apply grp_leb_total|apply grp_leb_trans].
Qed.

Lemma grp_eqb_sym a b : grp_eqb a b = grp_eqb b a.
Proof.
  destruct (grp_eqb a b) eqn:E1, (grp_eqb b a) eqn:E2; try reflexivity.
  - apply grp_eqb_eq in E1. subst. assert (H := proj2 (grp_eqb_eq b b) eq_refl). unfold grp_eqb in *. congruence.
  - apply grp_eqb_eq in E2. subst. assert (H := proj2 (grp_eqb_eq a a) eq_refl). unfold grp_eqb in *. congruence.
Qed.

Lemma filter_map {A B} (q : B -> bool) (h : A -> B) l : filter q (map h l) = map h (filter (fun x => q (h x)) l).
Proof. induction l as [|x l IH]; [reflexivity|]. cbn. destruct (q (h x)); cbn; rewrite IH; reflexivity. Qed.

Lemma gsum_rparts ft s g pts :
  gsum grp_eqb (comb ft s.(s_fn)) g (rparts s pts) = pfold ft s.(s_fn) (members s g pts).
Proof.
  rewrite pfold_ofold. unfold gsum. f_equal. unfold vals, rparts, members.
  rewrite filter_map, !map_map. cbn [fst snd].
  f_equal. apply filter_ext. intros p. apply grp_eqb_sym.
Qed.

(* a flat_map that emits at most one pair per key, keyed by the key itself *)
Lemma keyed_flat_map_props {P} (gl : list grp) (h : grp -> option P) :
  sorted grp_leb gl -> NoDup gl ->
  let R := flat_map (fun g => match h g with Some p => [(g, p)] | None => [] end) gl in
  sorted (pleb grp_leb) R /\ NoDup (map fst R) /\
  (forall g p, In (g, p) R <-> In g gl /\ h g = Some p).
Proof.
  induction gl as [|g gl IH]; intros Hs Hnd; cbn zeta.
  - cbn. split; [constructor|]. split; [constructor|]. intros g p. tauto.
  - inversion Hs as [|? ? Hs' Hall]; subst. inversion Hnd as [|? ? Hnotin Hnd']; subst.
    destruct (IH Hs' Hnd') as [I1 [I2 I3]]. cbn [flat_map].
    assert (Hkeys : forall x, In x (flat_map (fun g0 => match h g0 with Some p => [(g0, p)] | None => [] end) gl) -> In (fst x) gl).
    { intros [g0 p0] Hx. apply I3 in Hx. tauto. }
    destruct (h g) as [p|] eqn:Eh; cbn [app].
    + split; [|split].
      * constructor; [exact I1|]. apply Forall_forall. intros x Hx. unfold StreamLemmas.le, pleb. cbn [fst].
        rewrite Forall_forall in Hall. apply Hall. apply Hkeys. exact Hx.
      * cbn [map fst]. constructor; [|exact I2]. intros Hin. apply in_map_iff in Hin.
        destruct Hin as [x [Hfx Hx]]. apply Hkeys in Hx. rewrite Hfx in Hx. contradiction.
      * intros g0 p0. cbn [In]. rewrite I3. split.
        -- intros [H|[H1 H2]]; [inversion H; subst; auto|auto].
        -- intros [[<-|H1] H2]; [left; congruence|right; auto].
    + split; [exact I1|]. split; [exact I2|]. intros g0 p0. rewrite I3. cbn [In]. split.
      * intros [H1 H2]. auto.
      * intros [[<-|H1] H2]; [congruence|auto].
Qed.

Lemma members_nonempty s g pts : members s g pts <> [] -> In g (groups s pts).
Proof.
  intros H. apply groups_in. unfold members in H.
  destruct (filter (fun p => grp_eqb (grp_of s p) g) pts) as [|p l] eqn:E; [contradiction|].
  assert (Hin : In p (filter (fun p => grp_eqb (grp_of s p) g) pts)) by (rewrite E; left; reflexivity).
  apply filter_In in Hin. destruct Hin as [Hin Hg]. apply grp_eqb_eq in Hg. eauto.
Qed.

Lemma pfold_some_nonempty ft f l p : pfold ft f l = Some p -> l <> [].
Proof. intros H ->. discriminate. Qed.

Lemma layout_parts_eq ft s L data :
  0 <= s.(s_interval) -> is_pushed s.(s_fn) = true -> slimit_on s = false ->
  Permutation (layout_points L) data ->
  layout_parts ft s L = dirl s.(s_desc) (parts_ref ft s (filter (sel s) data)).
Proof.
  intros Hiv Hp Hoff Hperm.
  set (pts := filter (sel s) data).
  pose proof (layout_parts_repr ft s Hiv Hp L Hoff) as Hrepr.
  assert (Hrepr' : repr ft s (layout_parts ft s L) pts).
  { eapply (repr_perm ft s Hp); [exact Hrepr|]. apply filter_perm. exact Hperm. }
  destruct Hrepr' as [R1 [R2 R3]].
  pose proof (layout_parts_nodup ft s Hiv Hp L Hoff) as Hnd.
  destruct (keyed_flat_map_props (groups s pts) (fun g => pfold ft (s_fn s) (members s g pts))
              (groups_sorted s pts) (groups_nodup s pts)) as [K1 [K2 K3]].
  fold (parts_ref ft s pts) in K1, K2, K3.
  apply (keysorted_eq (dir (s_desc s) grp_leb) (dir_antisym grp_cmp grp_cmp_total (s_desc s))).
  - exact R1.
  - unfold dirl. destruct (s_desc s); [apply (sorted_rev (pleb grp_leb)); exact K1|exact K1].
  - exact Hnd.
  - unfold dirl. destruct (s_desc s); [|exact K2].
    rewrite map_rev. apply NoDup_rev. exact K2.
  - intros [g p].
    assert (Hdir : In (g, p) (dirl (s_desc s) (parts_ref ft s pts)) <-> In (g, p) (parts_ref ft s pts)).
    { unfold dirl. destruct (s_desc s); [symmetry; apply in_rev|reflexivity]. }
    rewrite Hdir, K3.
    rewrite <- (lookup_in grp_eqb grp_eqb_eq _ g p Hnd).
    rewrite <- (lookup_gsum_nodup grp_eqb (comb ft (s_fn s)) grp_eqb_eq _ g Hnd).
    rewrite R2, gsum_rparts. split.
    + intros H. split; [|exact H]. apply members_nonempty. eapply pfold_some_nonempty. exact H.
    + tauto.
Qed.

Lemma model_stream_pushed ft s L data :
  0 <= s.(s_interval) -> is_pushed s.(s_fn) = true -> slimit_on s = false ->
  Permutation (layout_points L) data ->
  model_stream ft s L = dirl s.(s_desc) (ref_stream ft s (filter (sel s) data)).
Proof.
  intros Hiv Hp Hoff Hperm.
  assert (Hm : model_stream ft s L = map (fin ft s) (layout_parts ft s L)).
  { unfold model_stream, fin. destruct (s_fn s) eqn:Ef; try discriminate; reflexivity. }
  assert (Hr : ref_stream ft s (filter (sel s) data) = agg_stream ft s (filter (sel s) data)).
  { unfold ref_stream. destruct (s_fn s) eqn:Ef; try discriminate; reflexivity. }
  rewrite Hm, Hr.
  rewrite (layout_parts_eq ft s L data Hiv Hp Hoff Hperm).
  rewrite (agg_stream_pushed ft s _ Hp).
  unfold dirl; destruct (s_desc s); try rewrite map_rev; reflexivity.
Qed.

(* ---------- spread / median: reduce-slice at the top over the merged raw points ---------- *)

Definition sgrp (s : stmt) (e : elem) : grp := (ekey e, wstart s (etime e)).
Definition etv (e : elem) : tv := (etime e, eval_ e).

Lemma elem_leb_grp s a b : 0 <= s.(s_interval) -> elem_leb a b = true -> grp_leb (sgrp s a) (sgrp s b) = true.
Proof.
  intros Hiv. destruct a as [[k1 t1] v1], b as [[k2 t2] v2].
  unfold elem_leb, grp_leb, leb_of, elem_cmp, grp_cmp, lexc, sgrp, ekey, etime. cbn [fst snd].
  destruct (key_cmp k1 k2) eqn:Ek; try discriminate; [|reflexivity].
  destruct (t1 ?= t2) eqn:Et.
  - apply Z.compare_eq_iff in Et. subst t2. rewrite Z.compare_refl. reflexivity.
  - intros _. rewrite Z.compare_lt_iff in Et.
    assert (H : wstart s t1 <= wstart s t2) by (apply wstart_mono; [exact Hiv|lia]).
    destruct (wstart s t1 ?= wstart s t2) eqn:Ew; try reflexivity. rewrite Z.compare_gt_iff in Ew. lia.
  - discriminate.
Qed.

Lemma ofold_app_singletons {A} (l : list A) :
  ofold (@app A) (map (fun x => [x]) l) = match l with [] => None | _ => Some l end.
Proof.
  induction l as [|x l IH]; [reflexivity|].
  unfold ofold in *. cbn [map fold_right]. rewrite IH. destruct l; reflexivity.
Qed.

Definition slice_ref (s : stmt) (g : grp) (l : list elem) : list tv :=
  map etv (filter (fun e => grp_eqb g (sgrp s e)) l).

Lemma slices_props s (l : list elem) :
  0 <= s.(s_interval) -> sorted (elem_dleb s) l ->
  let T := slices s l in
  gsorted (dir s.(s_desc) grp_leb) T /\ NoDup (map fst T) /\
  (forall g vs, In (g, vs) T <-> (slice_ref s g l <> [] /\ vs = slice_ref s g l)).
Proof.
  intros Hiv Hs T.
  set (h := fun e : elem => ((ekey e, wstart s (etime e)), [(etime e, eval_ e)])).
  assert (Hsorted : gsorted (dir (s_desc s) grp_leb) (map h l)).
  { eapply sorted_map; [|exact Hs]. intros a b _ _ Hab. unfold pleb, h. cbn [fst].
    unfold elem_dleb, dir in *. destruct (s_desc s); apply (elem_leb_grp s _ _ Hiv Hab). }
  pose proof (dir_antisym grp_cmp grp_cmp_total (s_desc s)) as Hanti.
  assert (Hnd : NoDup (map fst T)) by (apply (reduce_nodup grp_eqb _ _ grp_eqb_eq Hanti); exact Hsorted).
  split; [apply (reduce_sorted grp_eqb _ _ grp_eqb_eq); exact Hsorted|]. split; [exact Hnd|].
  intros g vs. rewrite <- (lookup_in grp_eqb grp_eqb_eq _ g vs Hnd).
  unfold T, slices. fold h.
  rewrite (reduce_lookup grp_eqb _ (@app tv) grp_eqb_eq Hanti _ g Hsorted).
  unfold gsum, vals. rewrite filter_map, map_map. subst h. cbn [snd fst].
  match goal with |- ofold _ ?X = _ <-> _ =>
    assert (Heq : X = map (fun x => [x]) (slice_ref s g l))
      by (unfold slice_ref, sgrp, etv; rewrite map_map; reflexivity);
    rewrite Heq; clear Heq end.
  rewrite ofold_app_singletons.
  destruct (slice_ref s g l) eqn:E.
  - split; [discriminate|]. intros [H _]. contradiction.
  - split.
    + intros H. inversion H. split; [discriminate|reflexivity].
    + intros [_ ->]. reflexivity.
Qed.

(* spread and median depend only on the multiset of the group's values *)

Lemma maxz_props x vs : (x <= maxz x vs) /\ (forall v, In v vs -> v <= maxz x vs) /\ In (maxz x vs) (x :: vs).
Proof.
  induction vs as [|y vs IH]; cbn.
  - split; [lia|]. split; [intros v []|left; reflexivity].
  - destruct IH as [H1 [H2 H3]]. fold (maxz x vs) in *. split; [lia|]. split.
    + intros v [<-|Hv]; [lia|]. specialize (H2 v Hv). lia.
    + destruct (Z.max_spec y (maxz x vs)) as [[_ ->]|[_ ->]].
      * destruct H3 as [H3|H3]; [left; exact H3|right; right; exact H3].
      * right; left; reflexivity.
Qed.

Lemma minz_props x vs : (minz x vs <= x) /\ (forall v, In v vs -> minz x vs <= v) /\ In (minz x vs) (x :: vs).
Proof.
  induction vs as [|y vs IH]; cbn.
  - split; [lia|]. split; [intros v []|left; reflexivity].
  - destruct IH as [H1 [H2 H3]]. fold (minz x vs) in *. split; [lia|]. split.
    + intros v [<-|Hv]; [lia|]. specialize (H2 v Hv). lia.
    + destruct (Z.min_spec y (minz x vs)) as [[_ ->]|[_ ->]].
      * right; left; reflexivity.
      * destruct H3 as [H3|H3]; [left; exact H3|right; right; exact H3].
Qed.

Lemma maxz_set x y vs vs' :
  In x vs -> In y vs' -> (forall v, In v vs <-> In v vs') -> maxz x vs = maxz y vs'.
Proof.
  intros Hx Hy Hset.
  destruct (maxz_props x vs) as [A1 [A2 A3]]. destruct (maxz_props y vs') as [B1 [B2 B3]].
  assert (Ha : In (maxz x vs) vs) by (destruct A3 as [<-|H]; assumption).
  assert (Hb : In (maxz y vs') vs') by (destruct B3 as [<-|H]; assumption).
  pose proof (B2 _ (proj1 (Hset _) Ha)). pose proof (A2 _ (proj2 (Hset _) Hb)). lia.
Qed.

Lemma minz_set x y vs vs' :
  In x vs -> In y vs' -> (forall v, In v vs <-> In v vs') -> minz x vs = minz y vs'.
Proof.
  intros Hx Hy Hset.
  destruct (minz_props x vs) as [A1 [A2 A3]]. destruct (minz_props y vs') as [B1 [B2 B3]].
  assert (Ha : In (minz x vs) vs) by (destruct A3 as [<-|H]; assumption).
  assert (Hb : In (minz y vs') vs') by (destruct B3 as [<-|H]; assumption).
  pose proof (B2 _ (proj1 (Hset _) Ha)). pose proof (A2 _ (proj2 (Hset _) Hb)). lia.
Qed.

Lemma Zleb_total a b : (a <=? b) = true \/ (b <=? a) = true. Proof. lia. Qed.
Lemma Zleb_trans a b c : (a <=? b) = true -> (b <=? c) = true -> (a <=? c) = true. Proof. lia. Qed.
Lemma Zleb_antisym a b : (a <=? b) = true -> (b <=? a) = true -> a = b. Proof. lia. Qed.

Lemma median_perm vs vs' : Permutation vs vs' -> median_q vs = median_q vs'.
Proof.
  intros H. unfold median_q.
  rewrite (isort_unique Z.leb Zleb_total Zleb_trans Zleb_antisym _ _ H). reflexivity.
Qed.

Definition is_slice_fn (f : fn) : bool :=
  match f with FSpread | FMedian | FDistinct | FMode | FPercentile _ | FCountDistinct => true | _ => false end.

Lemma agg_perm ft f l l' : is_slice_fn f = true -> is_sorted_fn f = false -> Permutation l l' -> agg ft f l = agg ft f l'.
Proof.
  intros Hf Hs Hp. destruct f; try discriminate; unfold agg.
  - (* spread *)
    destruct l as [|p l0]; [apply Permutation_nil in Hp; subst; reflexivity|].
    destruct l' as [|p' l0']; [apply Permutation_sym, Permutation_nil in Hp; discriminate|].
    assert (Hmp : Permutation (map snd (p :: l0)) (map snd (p' :: l0'))) by (apply Permutation_map, Hp).
    assert (Hset : forall v, In v (map snd (p :: l0)) <-> In v (map snd (p' :: l0'))).
    { intros v; split; intros H; eapply Permutation_in; try exact H; [exact Hmp|symmetry; exact Hmp]. }
    assert (H1 : In (snd p) (map snd (p :: l0))) by (left; reflexivity).
    assert (H2 : In (snd p') (map snd (p' :: l0'))) by (left; reflexivity).
    rewrite (maxz_set (snd p) (snd p') _ _ H1 H2 Hset).
    rewrite (minz_set (snd p) (snd p') _ _ H1 H2 Hset).
    reflexivity.
  - (* median *)
    destruct l as [|p l0]; [apply Permutation_nil in Hp; subst; reflexivity|].
    destruct l' as [|p' l0']; [apply Permutation_sym, Permutation_nil in Hp; discriminate|].
    rewrite (median_perm _ _ (Permutation_map snd Hp)). reflexivity.
Qed.

Lemma agg_nil ft f : agg ft f [] = None.
Proof. destruct f; reflexivity. Qed.

(* mode, percentile, distinct and count(distinct) are functions of the group's points sorted by
   (value, time): a total order, so the sorted list is the same for every arrival order *)
Lemma vt_cmp_total : total_cmp vt_cmp.
Proof. apply lexc_total; apply Zcompare_total. Qed.

Lemma vsort_perm l l' : Permutation l l' -> vsort l = vsort l'.
Proof.
  intros H. unfold vsort.
  apply (isort_unique vt_leb (leb_of_total vt_cmp vt_cmp_total) (leb_of_trans vt_cmp vt_cmp_total)
           (leb_of_antisym vt_cmp vt_cmp_total)).
  apply Permutation_map. exact H.
Qed.

(* every aggregate evaluated above the last merge depends only on the multiset of the group's
   points, not on the order in which the layout delivers them *)
Lemma aggs_perm ft f desc l l' :
  is_slice_fn f = true -> Permutation l l' -> aggs ft f desc l = aggs ft f desc l'.
Proof.
  intros Hf Hp. unfold aggs. destruct (is_sorted_fn f) eqn:Es.
  - rewrite (vsort_perm l l' Hp). reflexivity.
  - rewrite (agg_perm ft f l l' Hf Es Hp). reflexivity.
Qed.

(* the point percentile() reports is one of the group's points *)
Lemma percentile_in_group p2 l p : percentile_sorted p2 (vsort l) = Some p -> In (snd p, fst p) l.
Proof.
  unfold percentile_sorted. intros H.
  match type of H with (if ?c then _ else _) = _ => destruct c; [discriminate|] end.
  apply nth_error_In in H. unfold vsort in H.
  eapply Permutation_in in H; [|apply isort_perm].
  apply in_map_iff in H. destruct H as [q [Hq Hin]]. subst p. destruct q as [t v]. exact Hin.
Qed.

(* the value mode() reports (numbers, strings) is one of the group's values *)
Lemma mode_step_in (S : list Z) st p :
  In (m_mostv st) S -> In (fst p) S -> In (m_mostv (mode_step st p)) S.
Proof.
  intros H1 H2. unfold mode_step.
  match goal with |- context [if ?c then mkM _ _ _ _ _ _ else _] => destruct c end; cbn [m_mostv]; assumption.
Qed.

Lemma mode_fold_in (S : list Z) sl st :
  In (m_mostv st) S -> (forall p, In p sl -> In (fst p) S) -> In (m_mostv (fold_left mode_step sl st)) S.
Proof.
  revert st. induction sl as [|p sl IH]; intros st H1 H2; [exact H1|].
  cbn [fold_left]. apply IH.
  - apply mode_step_in; [exact H1|apply H2; left; reflexivity].
  - intros q Hq. apply H2. right. exact Hq.
Qed.

Lemma mode_in_group l v : mode_scan (vsort l) = Some v -> In v (map snd l).
Proof.
  unfold mode_scan. destruct (vsort l) as [|a0 sl] eqn:E; [discriminate|]. intros H. inversion H; subst v; clear H.
  assert (Hall : forall p, In p (a0 :: sl) -> In (fst p) (map snd l)).
  { intros p Hp. rewrite <- E in Hp. unfold vsort in Hp.
    eapply Permutation_in in Hp; [|apply isort_perm].
    apply in_map_iff in Hp. destruct Hp as [q [<- Hq]]. cbn [swap fst]. apply in_map. exact Hq. }
  apply (mode_fold_in (map snd l) (a0 :: sl) (mkM 0 (fst a0) (snd a0) 0 (fst a0) (snd a0))); [|exact Hall].
  exact (Hall a0 (or_introl eq_refl)).
Qed.

Lemma flat_map_rev {A B} (F : A -> list B) l : flat_map F (rev l) = rev (flat_map (fun x => rev (F x)) l).
Proof.
  induction l as [|x l IH]; [reflexivity|].
  cbn [rev flat_map]. rewrite flat_map_app, IH, rev_app_distr, rev_involutive. cbn [flat_map].
  rewrite app_nil_r. reflexivity.
Qed.

Definition emitL (s : stmt) (ga : grp * list (option Z * rval)) : list relem := map (emit s (fst ga)) (snd ga).

Lemma flat_map_rev_small {A B} (F : A -> list B) l :
  (forall x, (length (F x) <= 1)%nat) -> flat_map F (rev l) = rev (flat_map F l).
Proof.
  intros H. induction l as [|x l IH]; [reflexivity|].
  cbn [rev flat_map]. rewrite flat_map_app, IH, rev_app_distr. cbn [flat_map]. rewrite app_nil_r.
  f_equal. specialize (H x). destruct (F x) as [|b [|c r]]; cbn in *; try reflexivity; lia.
Qed.

Definition emit1 (s : stmt) (ga : grp * option (option Z * rval)) : list relem :=
  match snd ga with
  | Some (st, v) => [(fst (fst ga), row_time s (fst ga) st, v)]
  | None => []
  end.

Lemma emit1_small s x : (length (emit1 s x) <= 1)%nat.
Proof. unfold emit1. destruct (snd x) as [[st v]|]; cbn; lia. Qed.

Lemma flat_map_map {A B C} (F : B -> list C) (h : A -> B) l : flat_map F (map h l) = flat_map (fun x => F (h x)) l.
Proof. induction l as [|x l IH]; [reflexivity|]. cbn. rewrite IH. reflexivity. Qed.

Lemma slice_members_perm s g L data :
  Permutation (layout_points L) data ->
  Permutation (slice_ref s g (esort s (selems s (layout_points L)))) (members s g (filter (sel s) data)).
Proof.
  intros Hperm. unfold slice_ref, members.
  transitivity (map etv (filter (fun e => grp_eqb g (sgrp s e)) (map (to_elem s) (filter (sel s) data)))).
  - apply Permutation_map, filter_perm. rewrite esort_perm. unfold selems.
    apply Permutation_map, filter_perm, Hperm.
  - rewrite filter_map, map_map. apply perm_eq.
    assert (Hf : forall p, grp_eqb g (sgrp s (to_elem s p)) = grp_eqb (grp_of s p) g) by (intros p; apply grp_eqb_sym).
    rewrite (filter_ext _ _ Hf). reflexivity.
Qed.

Lemma model_stream_slices ft s L data :
  0 <= s.(s_interval) -> is_slice_fn s.(s_fn) = true -> slimit_on s = false ->
  Permutation (layout_points L) data ->
  model_stream ft s L = dirl s.(s_desc) (ref_stream ft s (filter (sel s) data)).
Proof.
  intros Hiv Hf Hoff Hperm.
  set (pts := filter (sel s) data).
  set (X := esort s (selems s (layout_points L))).
  set (phi := fun gl : grp * list tv => (fst gl, aggs ft (s_fn s) (s_desc s) (snd gl))).
  set (R := map (fun g => (g, aggs ft (s_fn s) (s_desc s) (members s g pts))) (groups s pts)).
  assert (Hm : model_stream ft s L = flat_map (emitL s) (map phi (slices s X))).
  { unfold model_stream. rewrite (layout_raw_nolimit false s L Hoff (or_introl eq_refl)). fold X.
    rewrite flat_map_map. destruct (s_fn s) eqn:Ef; try discriminate; reflexivity. }
  assert (Hr : ref_stream ft s pts = flat_map (fun ga => dirl (s_desc s) (emitL s ga)) R).
  { unfold ref_stream, agg_stream, R. rewrite flat_map_map. destruct (s_fn s) eqn:Ef; try discriminate; reflexivity. }
  rewrite Hm, Hr.
  assert (Heq : map phi (slices s X) = dirl (s_desc s) R).
  { destruct (slices_props s X Hiv (esort_sorted s _)) as [T1 [T2 T3]].
    apply (keysorted_eq (dir (s_desc s) grp_leb) (dir_antisym grp_cmp grp_cmp_total (s_desc s))).
    - eapply sorted_map; [|exact T1]. intros a b _ _ H. exact H.
    - unfold dirl.
      assert (HR : sorted (pleb grp_leb) R).
      { unfold R. eapply sorted_map; [|apply (groups_sorted s pts)]. intros a b _ _ H. exact H. }
      destruct (s_desc s); [apply (sorted_rev (pleb grp_leb)); exact HR|exact HR].
    - rewrite map_map. cbn [fst]. exact T2.
    - unfold dirl, R. destruct (s_desc s); [rewrite map_rev; apply NoDup_rev|];
        rewrite map_map; cbn [fst]; rewrite map_id; apply groups_nodup.
    - intros [g a].
      assert (Hdir : forall l : list (grp * list (option Z * rval)), In (g, a) (dirl (s_desc s) l) <-> In (g, a) l).
      { intros l. unfold dirl. destruct (s_desc s); [symmetry; apply in_rev|reflexivity]. }
      rewrite Hdir. unfold R. rewrite !in_map_iff. split.
      + intros [[g' vs] [Hphi Hin]]. unfold phi in Hphi. cbn [fst snd] in Hphi. inversion Hphi; subst g' a.
        apply T3 in Hin. destruct Hin as [Hne ->].
        pose proof (slice_members_perm s g L data Hperm) as Hsp. fold X pts in Hsp.
        exists g. split.
        * f_equal. symmetry. apply aggs_perm; [exact Hf|exact Hsp].
        * apply members_nonempty. intros Hnil. rewrite Hnil in Hsp.
          apply Permutation_sym, Permutation_nil in Hsp. contradiction.
      + intros [g' [Hg Hin]]. inversion Hg; subst g' a.
        pose proof (slice_members_perm s g L data Hperm) as Hsp. fold X pts in Hsp.
        exists (g, slice_ref s g X). split.
        * unfold phi. cbn [fst snd]. f_equal. apply aggs_perm; [exact Hf|exact Hsp].
        * apply T3. split; [|reflexivity]. intros Hnil. rewrite Hnil in Hsp.
          apply Permutation_nil in Hsp.
          apply groups_in in Hin. destruct Hin as [p [Hp Hgp]].
          assert (Hmem : In (p_time p, p_val p) (members s g pts)).
          { unfold members. apply in_map_iff. exists p. split; [reflexivity|]. apply filter_In. split; [exact Hp|].
            apply grp_eqb_eq. exact Hgp. }
          rewrite Hsp in Hmem. contradiction. }
  rewrite Heq. unfold dirl. destruct (s_desc s); [|reflexivity].
  apply flat_map_rev.
Qed.

(* ---------- raw SELECT with LIMIT: the limit pushed down per shard and tag set is sound ---------- *)

Definition tagset_elems (s : stmt) (sh : shard) (k : tags) : list elem :=
  concat (map (fun t => map (to_elem s) (cursor s sh t)) (tagset_series s sh k)).
Definition shard_pieces (s : stmt) (sh : shard) : list (tags * list elem) :=
  map (fun k => (k, tagset_elems s sh k)) (shard_tagsets s sh).
Definition pieces (s : stmt) (L : layout) : list (tags * list elem) :=
  flat_map (fun nd => flat_map (shard_pieces s) nd) L.
Definition piece_stream (push : bool) (s : stmt) (ke : tags * list elem) : list elem :=
  if push then limit_push s (esort s (snd ke)) else esort s (snd ke).

Lemma limit_push_sorted s l : sorted (elem_dleb s) l -> sorted (elem_dleb s) (limit_push s l).
Proof. intros H. unfold limit_push. destruct (N.eqb (s_limit s) 0); [exact H|]. apply sorted_firstn. exact H. Qed.

Lemma piece_stream_sorted push s ke : sorted (elem_dleb s) (piece_stream push s ke).
Proof. unfold piece_stream. destruct push; [apply limit_push_sorted|]; apply esort_sorted. Qed.

Lemma tagset_merge s sh k :
  kmerge (elem_dleb s) (map (fun t => map (to_elem s) (cursor s sh t)) (tagset_series s sh k)) = esort s (tagset_elems s sh k).
Proof.
  unfold tagset_elems. apply kmerge_esort. intros t _. symmetry. apply sorted_esort, cursor_elems_sorted.
Qed.

Lemma shard_raw_pieces push s sh :
  shard_raw push s sh = esort s (concat (map (piece_stream push s) (shard_pieces s sh))).
Proof.
  unfold shard_raw, shard_pieces. rewrite map_map.
  apply kmerge_esort. intros k _. rewrite tagset_merge. cbn [snd].
  symmetry. apply sorted_esort. apply (piece_stream_sorted push s (k, tagset_elems s sh k)).
Qed.

Lemma concat_map_flat_map_nested {A B C} (ps : B -> list C) (F : A -> list B) l :
  concat (map ps (flat_map F l)) = concat (map (fun x => concat (map ps (F x))) l).
Proof.
  induction l as [|x l IH]; [reflexivity|]. cbn [flat_map map concat]. rewrite map_app, concat_app, IH. reflexivity.
Qed.

Lemma layout_raw_pieces push s L :
  layout_raw push s L = esort s (concat (map (piece_stream push s) (pieces s L))).
Proof.
  unfold layout_raw, pieces.
  rewrite (kmerge_esort s _ (fun nd => concat (map (piece_stream push s) (flat_map (shard_pieces s) nd)))).
  - rewrite concat_map_flat_map_nested. reflexivity.
  - intros nd _. rewrite (kmerge_esort s _ (fun sh => concat (map (piece_stream push s) (shard_pieces s sh)))).
    + rewrite concat_map_flat_map_nested. reflexivity.
    + intros sh _. apply shard_raw_pieces.
Qed.

Lemma tagset_series_key s sh k t : In t (tagset_series s sh k) -> mask s.(s_dims) t = k.
Proof.
  unfold tagset_series. intros H. apply filter_In in H. destruct H as [_ H].
  apply andb_true_iff in H. destruct H as [_ H]. apply key_eqb_eq. exact H.
Qed.

Lemma pieces_key s L k E e : In (k, E) (pieces s L) -> In e E -> ekey e = k.
Proof.
  unfold pieces. intros Hin He. apply in_flat_map in Hin. destruct Hin as [nd [_ Hin]].
  apply in_flat_map in Hin. destruct Hin as [sh [_ Hin]]. unfold shard_pieces in Hin.
  apply in_map_iff in Hin. destruct Hin as [k' [Heq Hk']]. inversion Heq; subst k' E.
  unfold tagset_elems in He. apply in_concat in He. destruct He as [l [Hl He]].
  apply in_map_iff in Hl. destruct Hl as [t [<- Ht]]. apply in_map_iff in He. destruct He as [p [<- Hp]].
  apply cursor_tags in Hp. unfold to_elem, ekey, key_of. cbn [fst]. rewrite Hp.
  eapply tagset_series_key. exact Ht.
Qed.

Lemma elem_leb_key a b : elem_leb a b = true -> key_leb (ekey a) (ekey b) = true.
Proof.
  destruct a as [[k1 t1] v1], b as [[k2 t2] v2].
  unfold elem_leb, key_leb, leb_of, elem_cmp, lexc, ekey. cbn [fst snd].
  destruct (key_cmp k1 k2); try reflexivity. discriminate.
Qed.

Lemma sorted_nodup_eq {A} (leb : A -> A -> bool) (Hanti : forall a b, leb a b = true -> leb b a = true -> a = b) l1 l2 :
  sorted leb l1 -> sorted leb l2 -> NoDup l1 -> NoDup l2 -> (forall x, In x l1 <-> In x l2) -> l1 = l2.
Proof.
  intros S1 S2 N1 N2 H. apply (sorted_perm_eq leb Hanti); [exact S1|exact S2|].
  apply NoDup_Permutation; assumption.
Qed.

Definition ty (ft : ftype) (e : elem) : relem := (ekey e, etime e, typed ft (eval_ e)).

Lemma skeys_ty ft X : skeys (map (ty ft) X) = dedup key_eqb (map ekey X).
Proof. unfold skeys. rewrite map_map. reflexivity. Qed.

Lemma rows_of_ty ft k X :
  rows_of k (map (ty ft) X) = map (fun e => (etime e, typed ft (eval_ e))) (filter (fun e => key_eqb (ekey e) k) X).
Proof. unfold rows_of. rewrite filter_map, map_map. reflexivity. Qed.

Definition key_d_total s := dir_total key_cmp key_cmp_total s.(s_desc).
Definition key_d_trans s := dir_trans key_cmp key_cmp_total s.(s_desc).
Definition key_d_antisym s := dir_antisym key_cmp key_cmp_total s.(s_desc).

Lemma esort_keys_sorted s W : sorted (dir s.(s_desc) key_leb) (map ekey (esort s W)).
Proof.
  eapply sorted_map; [|apply esort_sorted]. intros a b _ _ H.
  unfold elem_dleb, dir in *. destruct (s_desc s); apply elem_leb_key; exact H.
Qed.

Lemma skeys_esort_eq ft s W1 W2 :
  (forall k, (exists e, In e W1 /\ ekey e = k) <-> (exists e, In e W2 /\ ekey e = k)) ->
  skeys (map (ty ft) (esort s W1)) = skeys (map (ty ft) (esort s W2)).
Proof.
  intros H. rewrite !skeys_ty.
  apply (sorted_nodup_eq (dir (s_desc s) key_leb) (key_d_antisym s)).
  - apply (dedup_sorted key_eqb _ key_eqb_eq), esort_keys_sorted.
  - apply (dedup_sorted key_eqb _ key_eqb_eq), esort_keys_sorted.
  - apply (sorted_dedup_nodup key_eqb _ key_eqb_eq (key_d_antisym s)), esort_keys_sorted.
  - apply (sorted_dedup_nodup key_eqb _ key_eqb_eq (key_d_antisym s)), esort_keys_sorted.
  - intros k. rewrite !(in_dedup key_eqb key_eqb_eq), !in_map_iff.
    assert (Hx : forall W, (exists x, ekey x = k /\ In x (esort s W)) <-> (exists e, In e W /\ ekey e = k)).
    { intros W. split; intros [e [H1 H2]]; exists e.
      - split; [eapply Permutation_in; [apply esort_perm|exact H2]|exact H1].
      - split; [exact H2|eapply Permutation_in; [symmetry; apply esort_perm|exact H1]]. }
    rewrite !Hx. apply H.
Qed.

Lemma firstn_nonempty {A} n (l : list A) x : In x l -> (1 <= n)%nat -> exists y, In y (firstn n l).
Proof. intros H Hn. destruct l as [|y l]; [contradiction|]. destruct n; [lia|]. exists y. left. reflexivity. Qed.

Lemma limit_push_nonempty {A} s (l : list A) x : In x l -> exists y, In y (limit_push s l).
Proof.
  intros H. unfold limit_push. destruct (N.eqb (s_limit s) 0); [eauto|].
  apply (firstn_nonempty _ l x H). lia.
Qed.

Lemma limit_push_in {A} s (l : list A) x : In x (limit_push s l) -> In x l.
Proof. unfold limit_push. destruct (N.eqb (s_limit s) 0); [auto|apply In_firstn]. Qed.

Lemma pieces_keys_same s L k :
  (exists e, In e (concat (map (piece_stream true s) (pieces s L))) /\ ekey e = k) <->
  (exists e, In e (concat (map (piece_stream false s) (pieces s L))) /\ ekey e = k).
Proof.
  split; intros [e [Hin Hk]]; apply in_concat in Hin; destruct Hin as [l [Hl He]];
    apply in_map_iff in Hl; destruct Hl as [[k' E] [<- HkE]]; unfold piece_stream in He; cbn [snd] in He.
  - apply limit_push_in in He. exists e. split; [|exact Hk].
    apply in_concat. exists (piece_stream false s (k', E)). split; [apply in_map; exact HkE|exact He].
  - destruct (limit_push_nonempty s _ e He) as [y Hy].
    exists y. split.
    + apply in_concat. exists (piece_stream true s (k', E)). split; [apply in_map; exact HkE|exact Hy].
    + assert (Hy' : In y E) by (eapply Permutation_in; [apply esort_perm|apply limit_push_in in Hy; exact Hy]).
      assert (He' : In e E) by (eapply Permutation_in; [apply esort_perm|exact He]).
      rewrite (pieces_key s L k' E y HkE Hy'). rewrite <- (pieces_key s L k' E e HkE He'). exact Hk.
Qed.

Lemma filter_all_key {A} (p : A -> bool) l : (forall x, In x l -> p x = true) -> filter p l = l.
Proof.
  induction l as [|x l IH]; intros H; [reflexivity|]. cbn. rewrite (H x (or_introl eq_refl)). f_equal.
  apply IH. intros y Hy. apply H. right. exact Hy.
Qed.

Lemma filter_none_key {A} (p : A -> bool) l : (forall x, In x l -> p x = false) -> filter p l = [].
Proof.
  induction l as [|x l IH]; intros H; [reflexivity|]. cbn. rewrite (H x (or_introl eq_refl)).
  apply IH. intros y Hy. apply H. right. exact Hy.
Qed.

Lemma filter_piece push s L k ke :
  In ke (pieces s L) ->
  filter (fun e => key_eqb (ekey e) k) (piece_stream push s ke) =
  if key_eqb (fst ke) k then piece_stream push s ke else [].
Proof.
  intros Hin. destruct ke as [k' E]. cbn [fst].
  assert (Hkeys : forall e, In e (piece_stream push s (k', E)) -> ekey e = k').
  { intros e He. apply (pieces_key s L k' E e Hin). unfold piece_stream in He. cbn [snd] in He.
    destruct push; [apply limit_push_in in He|]; (eapply Permutation_in; [apply esort_perm|exact He]). }
  destruct (key_eqb k' k) eqn:E1.
  - apply filter_all_key. intros e He. rewrite (Hkeys e He). exact E1.
  - apply filter_none_key. intros e He. rewrite (Hkeys e He). exact E1.
Qed.

Lemma raw_limit_rows s L k :
  s.(s_limit) <> 0%N ->
  let n := (N.to_nat s.(s_offset) + N.to_nat s.(s_limit))%nat in
  firstn n (filter (fun e => key_eqb (ekey e) k) (layout_raw true s L)) =
  firstn n (filter (fun e => key_eqb (ekey e) k) (layout_raw false s L)).
Proof.
  intros Hlim n. rewrite !layout_raw_pieces.
  unfold esort. rewrite !(filter_isort (elem_dleb s) (elem_d_total s) (elem_d_trans s) (elem_d_antisym s)).
  rewrite !filter_concat, !map_map.
  set (ys := map (fun ke => if key_eqb (fst ke) k then esort s (snd ke) else []) (pieces s L)).
  set (n' := N.to_nat (s_limit s + s_offset s + 1)).
  assert (H1 : map (fun ke => filter (fun e => key_eqb (ekey e) k) (piece_stream true s ke)) (pieces s L) = map (firstn n') ys).
  { unfold ys. rewrite map_map. apply map_ext_in. intros ke Hke. rewrite (filter_piece true s L k ke Hke).
    unfold piece_stream, limit_push. destruct (N.eqb (s_limit s) 0) eqn:E; [apply N.eqb_eq in E; contradiction|].
    fold n'. destruct (key_eqb (fst ke) k); [reflexivity|]. destruct n'; reflexivity. }
  assert (H2 : map (fun ke => filter (fun e => key_eqb (ekey e) k) (piece_stream false s ke)) (pieces s L) = ys).
  { unfold ys. apply map_ext_in. intros ke Hke. rewrite (filter_piece false s L k ke Hke). reflexivity. }
  rewrite H1, H2.
  apply (topn_streams (elem_dleb s) (elem_d_total s) (elem_d_trans s) (elem_d_antisym s) n n' ys []).
  - unfold n, n'. lia.
  - unfold ys. apply Forall_forall. intros y Hy. apply in_map_iff in Hy. destruct Hy as [ke [<- _]].
    destruct (key_eqb (fst ke) k); [apply esort_sorted|constructor].
Qed.

Lemma take_skip_firstn {A} (lim off : N) (l l' : list A) :
  lim <> 0%N ->
  firstn (N.to_nat off + N.to_nat lim) l = firstn (N.to_nat off + N.to_nat lim) l' ->
  takeN lim (skipN off l) = takeN lim (skipN off l').
Proof.
  intros Hlim H. unfold takeN, skipN. destruct (N.eqb lim 0) eqn:E; [apply N.eqb_eq in E; contradiction|].
  rewrite !firstn_skipn_comm. rewrite H. reflexivity.
Qed.

Lemma raw_limit_finish ft s L :
  s.(s_fn) = FRaw -> s.(s_interval) = 0 -> s.(s_limit) <> 0%N ->
  finish ft s (map (ty ft) (layout_raw true s L)) = finish ft s (map (ty ft) (layout_raw false s L)).
Proof.
  intros Hf Hiv Hlim. unfold finish.
  assert (Hkeys : skeys (map (ty ft) (layout_raw true s L)) = skeys (map (ty ft) (layout_raw false s L))).
  { rewrite !layout_raw_pieces. apply skeys_esort_eq. intros k. apply pieces_keys_same. }
  rewrite Hkeys. apply flat_map_ext_in. intros k _.
  assert (Hfill : forall real, fill_rows ft s real = real).
  { intros real. unfold fill_rows. rewrite Hiv. cbn. destruct (s_fill s), (s_fn s); reflexivity. }
  rewrite !Hfill. rewrite !rows_of_ty.
  assert (Hrows : takeN (s_limit s) (skipN (s_offset s) (map (fun e => (etime e, typed ft (eval_ e))) (filter (fun e => key_eqb (ekey e) k) (layout_raw true s L)))) =
                  takeN (s_limit s) (skipN (s_offset s) (map (fun e => (etime e, typed ft (eval_ e))) (filter (fun e => key_eqb (ekey e) k) (layout_raw false s L))))).
  { apply take_skip_firstn; [exact Hlim|]. rewrite !firstn_map. f_equal. apply raw_limit_rows. exact Hlim. }
  rewrite Hrows. reflexivity.
Qed.

(* ---------- assembling: every layout evaluates to the reference ---------- *)

Definition is_layout (L : layout) (data : list point) : Prop := Permutation (layout_points L) data.

(* statements of the covered grammar: non-negative interval; GROUP BY time needs a call *)
Definition wf_stmt (s : stmt) : Prop :=
  0 <= s.(s_interval) /\ (s.(s_fn) = FRaw -> s.(s_interval) = 0).

Lemma raw_unpushed_stream ft s L data :
  slimit_on s = false -> is_layout L data ->
  map (ty ft) (layout_raw false s L) = dirl s.(s_desc) (raw_stream ft s (filter (sel s) data)).
Proof.
  intros Hoff Hperm.
  rewrite (layout_raw_nolimit false s L Hoff (or_introl eq_refl)).
  unfold raw_stream.
  assert (Hp : Permutation (selems s (layout_points L)) (map (to_elem s) (filter (sel s) data))).
  { unfold selems. apply Permutation_map, filter_perm, Hperm. }
  rewrite (esort_unique s _ _ Hp). rewrite esort_dir. unfold dirl.
  destruct (s_desc s); [rewrite map_rev|]; reflexivity.
Qed.

Lemma eval_off ft data s :
  slimit_on s = false -> eval ft data s = finish ft s (dirl s.(s_desc) (ref_stream ft s (filter (sel s) data))).
Proof. intros H. unfold eval. rewrite H. reflexivity. Qed.

Lemma fn_cases f : f = FRaw \/ is_pushed f = true \/ is_slice_fn f = true.
Proof. destruct f; auto. Qed.

Lemma eval_eq_reference_lemma ft s L data :
  wf_stmt s -> slimit_on s = false -> is_layout L data ->
  run_layout ft s L = eval ft data s.
Proof.
  intros [Hiv Hraw] Hoff Hperm. rewrite (eval_off ft data s Hoff). unfold run_layout.
  destruct (fn_cases (s_fn s)) as [Hf|[Hf|Hf]].
  - (* raw *)
    assert (Href : ref_stream ft s (filter (sel s) data) = raw_stream ft s (filter (sel s) data))
      by (unfold ref_stream; rewrite Hf; reflexivity).
    rewrite Href. rewrite <- (raw_unpushed_stream ft s L data Hoff Hperm).
    assert (Hm : model_stream ft s L = map (ty ft) (layout_raw true s L))
      by (unfold model_stream; rewrite Hf; reflexivity).
    rewrite Hm.
    destruct (N.eq_dec (s_limit s) 0) as [Hl|Hl].
    + rewrite (layout_raw_nolimit true s L Hoff (or_intror Hl)).
      rewrite (layout_raw_nolimit false s L Hoff (or_introl eq_refl)). reflexivity.
    + apply raw_limit_finish; [exact Hf|exact (Hraw Hf)|exact Hl].
  - rewrite (model_stream_pushed ft s L data Hiv Hf Hoff Hperm). reflexivity.
  - rewrite (model_stream_slices ft s L data Hiv Hf Hoff Hperm). reflexivity.
Qed.

Lemma layout_invariance_lemma ft s L L' data :
  wf_stmt s -> slimit_on s = false -> is_layout L data -> is_layout L' data ->
  run_layout ft s L = run_layout ft s L'.
Proof.
  intros Hw Hoff H1 H2.
  rewrite (eval_eq_reference_lemma ft s L data Hw Hoff H1).
  rewrite (eval_eq_reference_lemma ft s L' data Hw Hoff H2). reflexivity.
Qed.

(* merging sorted streams of any partition, both directions *)
Lemma merge_sorted_partition_lemma (desc : bool) (ss : list (list elem)) (all : list elem) :
  Forall (sorted (dir desc elem_leb)) ss -> Permutation (concat ss) all ->
  kmerge (dir desc elem_leb) ss = isort (dir desc elem_leb) all /\
  isort (dir desc elem_leb) all = (if desc then rev (isort elem_leb all) else isort elem_leb all).
Proof.
  intros Hs Hp. change elem_leb with (leb_of elem_cmp) in *.
  pose proof (dir_total elem_cmp elem_cmp_total desc) as T1.
  pose proof (dir_trans elem_cmp elem_cmp_total desc) as T2.
  pose proof (dir_antisym elem_cmp elem_cmp_total desc) as T3.
  split.
  - rewrite (kmerge_isort _ T1 T2 T3 ss Hs). apply (isort_unique _ T1 T2 T3). exact Hp.
  - pose (s0 := mkStmt FRaw 0 0 None 0 0 [] FillNull desc 0 0 0 0).
    exact (esort_dir s0 all).
Qed.

(* SLIMIT/SOFFSET are applied per shard to the shard's tag sets: layout-dependent *)
Definition slimit_witness_stmt : stmt := mkStmt FRaw 0 10 None 0 0 [true] FillNull false 0 0 1 0.
Definition slimit_witness_a : point := mkW [1%N] 1 5.
Definition slimit_witness_b : point := mkW [2%N] 2 7.

Lemma slimit_layout_dependent :
  exists (L L' : layout) (data : list point),
    is_layout L data /\ is_layout L' data /\
    run_layout TInt slimit_witness_stmt L <> run_layout TInt slimit_witness_stmt L'.
Proof.
  exists [[[slimit_witness_a; slimit_witness_b]]], [[[slimit_witness_a]; [slimit_witness_b]]],
         [slimit_witness_a; slimit_witness_b].
  split; [apply perm_eq; reflexivity|]. split; [apply perm_eq; reflexivity|].
  vm_compute. discriminate.
Qed.

(* ---------- link with Run.v: the model satisfies the executable spec on every input ---------- *)
From Verif Require Import C11.Run.

Lemma rval_eqb_refl ap B v : rval_eqb ap B v v = true.
Proof.
  unfold rval_eqb. assert (H : rval_syn_eqb v v = true).
  { destruct v; cbn; try reflexivity; try apply Z.eqb_refl.
    - rewrite !Z.eqb_refl. reflexivity.
    - destruct b; reflexivity. }
  rewrite H. reflexivity.
Qed.

Lemma tags_eqb_refl t : tags_eqb t t = true.
Proof. apply tags_eqb_eq. reflexivity. Qed.

Lemma list_eqb_refl {A} (eqb : A -> A -> bool) l : (forall x, eqb x x = true) -> list_eqb eqb l l = true.
Proof. intros H. induction l as [|x l IH]; [reflexivity|]. cbn. rewrite H, IH. reflexivity. Qed.

Lemma result_eqb_refl ap B r : result_eqb ap B r r = true.
Proof.
  unfold result_eqb. apply list_eqb_refl. intros [k rows]. cbn [fst snd]. rewrite tags_eqb_refl. cbn.
  apply list_eqb_refl. intros [t v]. cbn [fst snd]. rewrite Z.eqb_refl, rval_eqb_refl. reflexivity.
Qed.

Lemma model_satisfies_spec_lemma ft s L data B :
  wf_stmt s -> slimit_on s = false -> is_layout L data ->
  result_eqb (approx_ok ft s) B (run_layout ft s L) (eval ft data s) = true.
Proof.
  intros Hw Hoff Hl. rewrite (eval_eq_reference_lemma ft s L data Hw Hoff Hl). apply result_eqb_refl.
Qed.

(* ---------- the layouts built by Run.v from a shard assignment are layouts of the data ---------- *)

Lemma select_shard_filter j ws (h : point -> N) :
  select_shard j ws (map h ws) = filter (fun p => N.eqb (h p) j) ws.
Proof. induction ws as [|w r IH]; [reflexivity|]. cbn. rewrite IH. reflexivity. Qed.

Lemma existsb_filter_same (q : point -> bool) w r :
  (forall a b, same_key a b = true -> q a = q b) -> q w = true ->
  existsb (same_key w) (filter q r) = existsb (same_key w) r.
Proof.
  intros Hq Hw. induction r as [|x r IH]; [reflexivity|]. cbn.
  destruct (same_key w x) eqn:E.
  - rewrite <- (Hq w x E), Hw. cbn. rewrite E. reflexivity.
  - destruct (q x); cbn; [rewrite E|]; exact IH.
Qed.

Lemma lww_filter (q : point -> bool) ws :
  (forall a b, same_key a b = true -> q a = q b) -> lww (filter q ws) = filter q (lww ws).
Proof.
  intros Hq. induction ws as [|w r IH]; [reflexivity|].
  cbn [filter lww]. destruct (q w) eqn:Ew.
  - cbn [lww]. rewrite (existsb_filter_same q w r Hq Ew).
    destruct (existsb (same_key w) r); [exact IH|]. cbn [filter]. rewrite Ew, IH. reflexivity.
  - rewrite IH. destruct (existsb (same_key w) r); [reflexivity|]. cbn [filter]. rewrite Ew. reflexivity.
Qed.

Lemma lww_in p ws : In p (lww ws) -> In p ws.
Proof.
  induction ws as [|w r IH]; [tauto|]. cbn. destruct (existsb (same_key w) r).
  - intros H. right. apply IH. exact H.
  - intros [<-|H]; [left; reflexivity|right; apply IH; exact H].
Qed.

Lemma Nleb_antisym a b : N.leb a b = true -> N.leb b a = true -> a = b.
Proof. intros H1 H2. apply N.leb_le in H1, H2. lia. Qed.
Lemma Nleb_total a b : N.leb a b = true \/ N.leb b a = true.
Proof. destruct (N.leb a b) eqn:E; [left; reflexivity|right]. apply N.leb_le. apply N.leb_gt in E. lia. Qed.
Lemma Nleb_trans a b c : N.leb a b = true -> N.leb b c = true -> N.leb a c = true.
Proof. intros H1 H2. apply N.leb_le in H1, H2. apply N.leb_le. lia. Qed.

(* any shard assignment that is a function of (series, time) *)
Lemma layout_of_valid (h : point -> N) ws :
  (forall a b, same_key a b = true -> h a = h b) -> is_layout (layout_of ws (map h ws)) (lww ws).
Proof.
  intros Hh. unfold is_layout, layout_of, layout_points. cbn [concat]. rewrite app_nil_r.
  set (js := dedup N.eqb (isort N.leb (map h ws))).
  rewrite (map_ext _ (fun j => filter (fun p => N.eqb (h p) j) (lww ws))).
  2:{ intros j. rewrite select_shard_filter. apply lww_filter. intros a b Hab. rewrite (Hh a b Hab). reflexivity. }
  rewrite concat_map_flat_map.
  apply (partition_perm h N.eqb N.eqb_eq js (lww ws)).
  - apply (sorted_dedup_nodup N.eqb N.leb N.eqb_eq Nleb_antisym).
    apply isort_sorted; [apply Nleb_total|apply Nleb_trans].
  - intros p Hp. apply (distinct_in N.eqb N.leb N.eqb_eq). apply in_map. apply lww_in. exact Hp.
Qed.
