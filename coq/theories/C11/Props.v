(* C11/Props.v — property theorems only (proved in Proofs.v / StreamLemmas.v).

   Scope (partial by design): the covered grammar of Spec.v (one field; raw select or one of
   count/sum/mean/min/max/first/last/spread/median/mode/distinct/percentile(f,N)/
   count(distinct(f)); time range; one tag predicate; GROUP BY
   time(interval[,offset]) and tags; fill; ORDER BY time DESC; LIMIT/OFFSET) over data sets
   in exact arithmetic (integers; floats that are integers).  Not covered: subqueries,
   several fields or calls, regex sources, math, time zones, float rounding (mean's
   re-multiplication of partial means and fill(linear) are modelled in exact rationals), and
   SLIMIT/SOFFSET, for which layout invariance is REFUTED below (known finding).  The model of
   the iterator tree is hand-written from select.go / engine.go, tied to the code by the
   differential harness; times are mathematical integers (no int64 wrap). *)
From Coq Require Import List ZArith NArith Bool Permutation.
From Verif Require Import C11.Spec C11.Model C11.StreamLemmas C11.Proofs C11.Run.
From VerifGen Require Import Consts.
Import ListNotations.
Open Scope Z_scope.

(* Every time lies in exactly one window [start, end) of the interval/offset grid computed
   by IteratorOptions.Window (negative times and offsets included), away from the clamps at
   the ends of the representable time range: the window contains t, has the interval's
   length, starts on the grid, and every time inside it gets the same window. *)
Theorem window_covers :
  forall tmin tmax D off t,
  0 < D -> c11_min_time + 2 * D < t - off -> t - off < c11_max_time - 2 * D ->
  let w := window_gen tmin tmax D off t in
  fst w <= t < snd w /\ snd w = fst w + D /\ (fst w - off) mod D = 0 /\
  (forall t', fst w <= t' < snd w -> window_gen tmin tmax D off t' = w).
Proof. exact window_covers_lemma. Qed.
Print Assumptions window_covers.

(* Merging (pop-the-least-head k-way merge, as SortedMergeIterator) the sorted streams of ANY
   partition of a set of stream elements yields the sorted stream of the whole set, in
   both directions; the descending stream is the reverse of the ascending one.  Ties: the
   order is total on (tag set, time, value), so equal elements are identical. *)
Theorem merge_sorted_partition :
  forall (desc : bool) (ss : list (list elem)) (all : list elem),
  Forall (sorted (dir desc elem_leb)) ss -> Permutation (concat ss) all ->
  kmerge (dir desc elem_leb) ss = isort (dir desc elem_leb) all /\
  isort (dir desc elem_leb) all = (if desc then rev (isort elem_leb all) else isort elem_leb all).
Proof. exact merge_sorted_partition_lemma. Qed.
Print Assumptions merge_sorted_partition.

(* For count, sum, mean (as sum and count), min, max, first, last: combining the partial
   aggregates of ANY partition of a group's points, listed in any order, equals the aggregate
   of the whole group (NewCallIterator applied per series, per shard, per node and at the top). *)
Theorem agg_decomposable :
  forall ft f (parts : list (list tv)) (l : list tv),
  is_pushed f = true -> Permutation (concat parts) l ->
  fold_right (fun p acc => ocomb ft f (pfold ft f p) acc) None parts = pfold ft f l.
Proof. exact agg_decomposable_lemma. Qed.
Print Assumptions agg_decomposable.

(* spread, median, mode, percentile, distinct and count(distinct) are evaluated above the last
   merge on all raw points of a (tag set, window); the order in which those points arrive there
   depends on the layout (unsorted MergeIterator for spread/mode; equal timestamps in input
   order for the others).  Every such aggregate - value, reported time, and for distinct the
   list of rows and their order - is the same for every arrival order of the same points. *)
Theorem slice_aggregates_order_independent :
  forall ft f (desc : bool) (l l' : list tv),
  is_slice_fn f = true -> Permutation l l' -> aggs ft f desc l = aggs ft f desc l'.
Proof. exact aggs_perm. Qed.
Print Assumptions slice_aggregates_order_independent.

(* percentile(f, N) reports one of the points of the (tag set, window) - value and time of the
   same point - and mode(f) (numbers, strings) one of its values, for every group and every N *)
Theorem percentile_reports_a_point :
  forall (p2 : Z) (l : list tv) (p : vt), percentile_sorted p2 (vsort l) = Some p -> In (snd p, fst p) l.
Proof. exact percentile_in_group. Qed.
Print Assumptions percentile_reports_a_point.

Theorem mode_reports_a_value :
  forall (l : list tv) (v : Z), mode_scan (vsort l) = Some v -> In v (map snd l).
Proof. exact mode_in_group. Qed.
Print Assumptions mode_reports_a_value.

(* The modelled evaluation over ANY layout (nodes x shards, any assignment of the points)
   equals the reference evaluation over the raw points, for every function of the grammar
   (mode / distinct / percentile / count(distinct) included).  Gap: covered grammar, exact
   arithmetic, no SLIMIT/SOFFSET (see the header). *)
Theorem eval_eq_reference_partial :
  forall ft s (L : layout) (data : list point),
  wf_stmt s -> slimit_on s = false -> is_layout L data ->
  run_layout ft s L = eval ft data s.
Proof. exact eval_eq_reference_lemma. Qed.
Print Assumptions eval_eq_reference_partial.

(* Hence any two layouts of the same data give the same result. Same gap. *)
Theorem layout_invariance_partial :
  forall ft s (L L' : layout) (data : list point),
  wf_stmt s -> slimit_on s = false -> is_layout L data -> is_layout L' data ->
  run_layout ft s L = run_layout ft s L'.
Proof. exact layout_invariance_lemma. Qed.
Print Assumptions layout_invariance_partial.

(* The LIMIT pushed down to every shard and tag set (limit+offset+1 points) does not change
   the rows of a raw SELECT. *)
Theorem limit_pushdown_sound :
  forall ft s (L : layout),
  s.(s_fn) = FRaw -> s.(s_interval) = 0 -> s.(s_limit) <> 0%N ->
  finish ft s (map (ty ft) (layout_raw true s L)) = finish ft s (map (ty ft) (layout_raw false s L)).
Proof. exact raw_limit_finish. Qed.
Print Assumptions limit_pushdown_sound.

(* SLIMIT/SOFFSET are applied by every shard to its own tag sets (engine.go LimitTagSets):
   the result depends on the layout.  Witness: two series, one shard vs two shards. *)
Theorem slimit_layout_invariance_refuted :
  exists (L L' : layout) (data : list point),
    is_layout L data /\ is_layout L' data /\
    run_layout TInt slimit_witness_stmt L <> run_layout TInt slimit_witness_stmt L'.
Proof. exact slimit_layout_dependent. Qed.
Print Assumptions slimit_layout_invariance_refuted.

(* Link with Run.v: on every input the model's result passes the executable spec that
   check_case applies to the implementation's rows. *)
Theorem model_satisfies_spec :
  forall ft s (L : layout) (data : list point) B,
  wf_stmt s -> slimit_on s = false -> is_layout L data ->
  result_eqb (approx_ok ft s) B (run_layout ft s L) (eval ft data s) = true.
Proof. exact model_satisfies_spec_lemma. Qed.
Print Assumptions model_satisfies_spec.

(* The layouts check_case builds from a harness shard assignment are layouts of the
   last-write-wins data, for any assignment that is a function of (series, time). *)
Theorem harness_layouts_are_layouts :
  forall (h : point -> N) (ws : list point),
  (forall a b, same_key a b = true -> h a = h b) -> is_layout (layout_of ws (map h ws)) (lww ws).
Proof. exact layout_of_valid. Qed.
Print Assumptions harness_layouts_are_layouts.

(* the source still pushes down exactly count/sum/mean/min/max/first/last (not spread, median,
   distinct, mode, percentile) and merges count as sum (constants regenerated by genconsts) *)
Theorem source_configuration :
  (c11_call_iterator_count && c11_call_iterator_sum && c11_call_iterator_mean &&
   c11_call_iterator_min && c11_call_iterator_max && c11_call_iterator_first &&
   c11_call_iterator_last && negb c11_call_iterator_spread && negb c11_call_iterator_median &&
   negb c11_call_iterator_distinct && negb c11_call_iterator_mode && negb c11_call_iterator_percentile &&
   c11_merge_count_as_sum)%bool = true.
Proof. exact consts_ok. Qed.
Print Assumptions source_configuration.

(* ---------- non-vacuity ---------- *)

(* windows with an offset and a negative time *)
Example window_example : window_gen 0 100 10 3 (-12) = (-17, -7).
Proof. vm_compute. reflexivity. Qed.

Definition ex_stmt : stmt := mkStmt FMean (-10) 40 None 10 3 [false; true] FillLinear true 3 1 0 0.
Definition ex_L2 : layout :=
  [[[mkW [1%N; 1%N] 31 2; mkW [2%N; 1%N] (-5) 9]]; [[mkW [1%N; 1%N] 4 7]; [mkW [2%N; 1%N] 12 1; mkW [1%N; 1%N] (-5) 3]]].
Definition ex_data : list point := layout_points ex_L2.
Definition ex_L1 : layout := [[ex_data]].

(* two different layouts (one shard; two nodes with one and two shards) of the same data, a
   statement with windows, offset, fill(linear), DESC, LIMIT/OFFSET: the hypotheses hold
   and the common result is not empty *)
Example layout_example :
  wf_stmt ex_stmt /\ slimit_on ex_stmt = false /\ is_layout ex_L1 ex_data /\ is_layout ex_L2 ex_data /\
  run_layout TFloat ex_stmt ex_L2 = [([1%N], [(23, RFlt 2 1); (13, RFlt 120 40); (3, RFlt 8 2)])] /\
  run_layout TFloat ex_stmt ex_L1 = run_layout TFloat ex_stmt ex_L2.
Proof.
  split; [split; [vm_compute; discriminate|discriminate]|].
  split; [reflexivity|]. split; [apply perm_eq; reflexivity|]. split; [apply perm_eq; reflexivity|].
  split; vm_compute; reflexivity.
Qed.

Example agg_example :
  fold_right (fun p acc => ocomb TInt FLast (pfold TInt FLast p) acc) None [[(1, 5); (9, 2)]; []; [(9, 4); (3, 8)]]
  = Some (9, 4).
Proof. vm_compute. reflexivity. Qed.

(* the new functions on a group with frequency ties, equal values at different times and a
   value that occurs once: mode = most frequent, then seen earliest; percentile(50) = rank
   floor(7*0.5+0.5)-1 = 3 in (value, time) order, with that point's time; distinct in the
   order of first appearance forwards and of last appearance under DESC *)
Definition ex_group : list tv := [(5, 7); (1, 3); (9, 7); (2, 4); (6, 3); (8, 4); (3, 1)].
Example slice_examples :
  aggs TInt FMode false ex_group = [(None, RInt 3)] /\
  aggs TInt (FPercentile 100) false ex_group = [(Some 2, RInt 4)] /\
  aggs TInt FDistinct false ex_group = [(None, RInt 3); (None, RInt 4); (None, RInt 1); (None, RInt 7)] /\
  aggs TInt FDistinct true ex_group = [(None, RInt 7); (None, RInt 4); (None, RInt 3); (None, RInt 1)] /\
  aggs TInt FCountDistinct true ex_group = [(None, RInt 4)] /\
  aggs TInt FMode true (rev ex_group) = aggs TInt FMode false ex_group.
Proof. vm_compute. repeat split; reflexivity. Qed.
