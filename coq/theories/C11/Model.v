(* C11/Model.v — executable model of how a SELECT of the covered grammar is evaluated
   over a physical layout.  Definitions only; proofs are in StreamLemmas.v / Proofs.v.

   layout = nodes -> shards -> points.  Mirrors, for that grammar, the iterator tree built by
     query/select.go buildCursor/buildAuxIterator/buildCallIterator,
     coordinator/shard_mapper.go ClusterShardMapping.CreateIterator (merge of the nodes),
     tsdb/shard.go Shards.CreateIterator (merge of the shards of a node),
     tsdb/engine/tsm1/engine.go CreateIterator/createCallIterator/createVarRefIterator
       (index tag sets, SLIMIT/SOFFSET per shard, one cursor per series, per-series call
        iterators, LIMIT pushed down per tag set),
     query/iterator.go Iterators.Merge (+ NewCallIterator re-applied after every merge, count
       merged as sum), query/iterator.gen.go Merge/SortedMerge/Reduce iterators,
     query/select.go buildCallIterator for distinct / mode / percentile / count(distinct): VarRef
       iterators merged up to the top, one reducer per (tag set, window) there.
   The stages after the last merge (IntervalIterator, FillIterator, LimitIterator, Emitter)
   see one stream whatever the layout; they are Spec.finish. *)
From Coq Require Import List ZArith NArith Bool.
From Verif Require Export C11.Spec.
From VerifGen Require Import Consts.
Import ListNotations.
Open Scope Z_scope.

Definition shard := list point.   (* logical content of a shard: one value per (series, time) *)
Definition node := list shard.
Definition layout := list node.
Definition layout_points (L : layout) : list point := concat (concat L).

(* ---------- k-way merge (SortedMergeIterator / MergeIterator) ---------- *)
(* The heap holds the head of every non-exhausted input; Next pops the least head and
   pushes the input back.  Ties are immaterial for the orders used below: elements that
   compare equal are equal (sorted merge after the tie-break repair) or are combined by a
   commutative reducer (merge by window). *)
Section KMerge.
  Context {A : Type} (leb : A -> A -> bool).

  Definition heads (ss : list (list A)) : list A :=
    flat_map (fun s => match s with [] => [] | x :: _ => [x] end) ss.

  Definition least (x : A) (l : list A) : A :=
    fold_left (fun m y => if leb m y then m else y) l x.

  (* pop the first input whose head is not above m *)
  Fixpoint pick (m : A) (ss : list (list A)) : option (A * list (list A)) :=
    match ss with
    | [] => None
    | [] :: r => pick m r
    | (x :: s) :: r =>
        if leb x m then Some (x, s :: r)
        else match pick m r with
             | Some (y, r') => Some (y, (x :: s) :: r')
             | None => None
             end
    end.

  Fixpoint kmerge_fuel (fuel : nat) (ss : list (list A)) : list A :=
    match fuel with
    | O => []
    | S f => match heads ss with
             | [] => []
             | h :: hs => match pick (least h hs) ss with
                          | Some (x, ss') => x :: kmerge_fuel f ss'
                          | None => []
                          end
             end
    end.

  Definition kmerge (ss : list (list A)) : list A := kmerge_fuel (length (concat ss)) ss.
End KMerge.

(* ---------- reduce iterator: one output per run of equal groups ---------- *)
Section Reduce.
  Context {G P : Type} (geqb : G -> G -> bool) (cmb : P -> P -> P).
  Fixpoint reduce_stream (l : list (G * P)) : list (G * P) :=
    match l with
    | [] => []
    | (g, p) :: l' =>
        match reduce_stream l' with
        | (g', p') :: r => if geqb g g' then (g, cmb p p') :: r else (g, p) :: (g', p') :: r
        | [] => [(g, p)]
        end
    end.
End Reduce.

(* ---------- direction ---------- *)

Definition dir {A} (desc : bool) (leb : A -> A -> bool) (a b : A) : bool :=
  if desc then leb b a else leb a b.

(* ---------- inside one shard (tsm1 engine) ---------- *)

Definition tags_leb := key_leb.   (* series keys compare like tag tuples *)

(* the series of the shard's index for this measurement, in key order *)
Definition series_list (sh : shard) : list tags :=
  dedup tags_eqb (isort tags_leb (map p_tags sh)).

(* query.LimitTagSets (after the SOFFSET repair) *)
Definition limit_tagsets {A} (slimit soffset : N) (a : list A) : list A :=
  if N.eqb slimit 0 && N.eqb soffset 0 then a
  else if (N.of_nat (length a) <? soffset)%N then []
  else takeN slimit (skipN soffset a).

(* index.TagSets: tag sets (ascending) of the series that match the tag predicate *)
Definition shard_tagsets (s : stmt) (sh : shard) : list tags :=
  limit_tagsets s.(s_slimit) s.(s_soffset)
    (dedup key_eqb (isort key_leb (map (mask s.(s_dims)) (filter (pred_ok s) (series_list sh))))).

Definition tagset_series (s : stmt) (sh : shard) (k : tags) : list tags :=
  filter (fun t => pred_ok s t && key_eqb (mask s.(s_dims) t) k) (series_list sh).

(* a series has one value per timestamp in a shard, so the value never decides *)
Definition time_leb : point -> point -> bool :=
  leb_of (fun a b => lexc Z.compare Z.compare (a.(p_time), a.(p_val)) (b.(p_time), b.(p_val))).

(* the cursor of one series: its points in the time range, in the requested direction *)
Definition cursor (s : stmt) (sh : shard) (t : tags) : list point :=
  isort (dir s.(s_desc) time_leb)
        (filter (fun p => tags_eqb p.(p_tags) t && (s.(s_tmin) <=? p.(p_time)) && (p.(p_time) <=? s.(s_tmax))) sh).

(* ----- raw points (VarRef iterators): raw SELECT, and the inputs of spread / median ----- *)

(* tsm1 limit iterator on the merged series of a tag set: lets limit+offset+1 points through
   when there is a LIMIT (the offset is skipped at the top) *)
Definition limit_push {A} (s : stmt) (l : list A) : list A :=
  if N.eqb s.(s_limit) 0 then l else firstn (N.to_nat (s.(s_limit) + s.(s_offset) + 1)) l.

Definition elem_dleb (s : stmt) := dir s.(s_desc) elem_leb.

Definition shard_raw (push : bool) (s : stmt) (sh : shard) : list elem :=
  kmerge (elem_dleb s)
    (map (fun k =>
            let merged := kmerge (elem_dleb s) (map (fun t => map (to_elem s) (cursor s sh t)) (tagset_series s sh k)) in
            if push then limit_push s merged else merged)
         (shard_tagsets s sh)).

Definition layout_raw (push : bool) (s : stmt) (L : layout) : list elem :=
  kmerge (elem_dleb s) (map (fun nd => kmerge (elem_dleb s) (map (shard_raw push s) nd)) L).

(* ----- pushed-down calls (query.NewCallIterator) ----- *)

Definition pushed (f : fn) : bool :=
  match f with
  | FCount => c11_call_iterator_count | FSum => c11_call_iterator_sum
  | FMean => c11_call_iterator_mean | FMin => c11_call_iterator_min
  | FMax => c11_call_iterator_max | FFirst => c11_call_iterator_first
  | FLast => c11_call_iterator_last | FSpread => c11_call_iterator_spread
  | FMedian => c11_call_iterator_median
  | FDistinct => c11_call_iterator_distinct | FMode => c11_call_iterator_mode
  | FPercentile _ => c11_call_iterator_percentile
  | FCountDistinct => false   (* select.go: count over the distinct iterator, never NewCallIterator *)
  | FRaw => false
  end.

Definition part := (grp * (Z * Z))%type.   (* group, partial aggregate *)
Definition part_dleb (s : stmt) (a b : part) : bool := dir s.(s_desc) grp_leb (fst a) (fst b).

(* the reducer of a call iterator above a merge: count is merged as sum *)
Definition upper_comb (ft : ftype) (f : fn) : Z * Z -> Z * Z -> Z * Z :=
  match f with
  | FCount => if c11_merge_count_as_sum then comb ft FSum else (fun _ b => (fst b + 1, 0))
  | _ => comb ft f
  end.

(* per series: call iterator over the cursor *)
Definition series_parts (ft : ftype) (s : stmt) (sh : shard) (t : tags) : list part :=
  reduce_stream grp_eqb (comb ft s.(s_fn))
    (map (fun p => (grp_of s p, inj s.(s_fn) (p.(p_time), p.(p_val)))) (cursor s sh t)).

Definition merge_reduce (ft : ftype) (s : stmt) (ss : list (list part)) : list part :=
  reduce_stream grp_eqb (upper_comb ft s.(s_fn)) (kmerge (part_dleb s) ss).

Definition shard_parts (ft : ftype) (s : stmt) (sh : shard) : list part :=
  merge_reduce ft s
    (map (fun k => kmerge (part_dleb s) (map (series_parts ft s sh) (tagset_series s sh k)))
         (shard_tagsets s sh)).

Definition layout_parts (ft : ftype) (s : stmt) (L : layout) : list part :=
  (* nodes merged by the shard mapping, then once more by select.go callIterator *)
  merge_reduce ft s [merge_reduce ft s (map (fun nd => merge_reduce ft s (map (shard_parts ft s) nd)) L)].

(* ----- the stream that reaches the post-merge stages ----- *)

(* reduce iterators at the top (spread, median, mode, percentile: slice reducers; distinct:
   DistinctReducer; count(distinct) counts the distinct iterator's points per window): they see
   all raw points of a (key, window).  The points of a window reach them in an order that
   depends on the layout (MergeIterator delivers input after input for spread and mode; the
   sorted merge of the VarRef inputs of median/percentile/distinct leaves equal timestamps in
   input order); Spec.aggs does not depend on that order (Proofs.aggs_perm), which is why the
   canonical order of layout_raw may stand for it. *)
Definition slices (s : stmt) (l : list elem) : list (grp * list tv) :=
  reduce_stream grp_eqb (@app tv)
    (map (fun e => ((ekey e, wstart s (etime e)), [(etime e, eval_ e)])) l).

Definition model_stream (ft : ftype) (s : stmt) (L : layout) : list relem :=
  match s.(s_fn) with
  | FRaw => map (fun e => (ekey e, etime e, typed ft (eval_ e))) (layout_raw true s L)
  | f =>
      if pushed f
      then map (fun gp => let '(st, v) := finalize ft f (snd gp) in
                          (fst (fst gp), row_time s (fst gp) st, v)) (layout_parts ft s L)
      else flat_map (fun gl => map (emit s (fst gl)) (aggs ft f s.(s_desc) (snd gl)))
                    (slices s (layout_raw false s L))
  end.

Definition run_layout (ft : ftype) (s : stmt) (L : layout) : result :=
  finish ft s (model_stream ft s L).

(* ---------- building a layout from a write history and a shard assignment ---------- *)

Fixpoint select_shard (j : N) (ws : list point) (asg : list N) : list point :=
  match ws, asg with
  | w :: ws', a :: asg' => if N.eqb a j then w :: select_shard j ws' asg' else select_shard j ws' asg'
  | _, _ => []
  end.

(* one node; shard j holds the last write of every (series, time) routed to it *)
Definition layout_of (ws : list point) (asg : list N) : layout :=
  [map (fun j => lww (select_shard j ws asg)) (dedup N.eqb (isort N.leb asg))].
