(* C11/Run.v — correspondence cases.  One case = one (write history, statement) executed by
   the real query executor under several physical layouts.
   agree   : for every layout, Model.run_layout on that layout's shard assignment equals the
             rows the implementation returned;
   spec_ok : every layout's rows equal Spec.eval on the logical data (hence all layouts
             agree with each other).
   Floats are compared exactly, except mean and float fill(linear), whose float rounding
   is outside the exact-arithmetic model: within 2^-44 relative to the data magnitude. *)
From Coq Require Import List ZArith NArith Bool.
From Verif Require Export C11.Spec C11.Model.
Import ListNotations.
Open Scope Z_scope.

Definition code (agree spec_ok : bool) : N :=
  match agree, spec_ok with
  | true, true => 0%N | false, true => 1%N | false, false => 2%N | true, false => 3%N
  end.

Inductive lres := LErr | LOk (cols_ok : bool) (rows : result).
(* per layout: shard index of every write, index of its result in [res] *)
Inductive case := CQ (ft : ftype) (ws : list point) (s : stmt) (ls : list (list N * nat)) (res : list lres).

(* magnitude of the data, for the tolerance of inexact float results *)
Definition magnitude (ws : list point) : Z := fold_right (fun p m => Z.max (Z.abs p.(p_val)) m) 1 ws.

(* is the reported float a/b within 2^-44 (relative to the data magnitude) of the exact c/d *)
Definition q_close (B a b c d : Z) : bool :=
  if (b <=? 0) || (d <=? 0) then false else
  Z.abs (a * d - c * b) * 2 ^ 44 <=? (Z.abs c * b + B * d * b).

Definition rval_syn_eqb (a b : rval) : bool :=
  match a, b with
  | RNull, RNull | ROther, ROther => true
  | RInt x, RInt y | RStr x, RStr y => x =? y
  | RFlt a b, RFlt c d => (a =? c) && (b =? d)
  | RBool x, RBool y => Bool.eqb x y
  | _, _ => false
  end.

(* identical values are equal; floats are also equal when they denote the same rational
   (or, for inexact results, are close enough) *)
Definition rval_eqb (approx : bool) (B : Z) (got ref : rval) : bool :=
  rval_syn_eqb got ref ||
  match got, ref with
  | RFlt a b, RFlt c d =>
      if approx then q_close B a b c d else (0 <? b) && (0 <? d) && (a * d =? c * b)
  | _, _ => false
  end.

Fixpoint list_eqb {A} (eqb : A -> A -> bool) (a b : list A) : bool :=
  match a, b with
  | [], [] => true
  | x :: a', y :: b' => eqb x y && list_eqb eqb a' b'
  | _, _ => false
  end.

Definition approx_ok (ft : ftype) (s : stmt) : bool :=
  match s.(s_fn), s.(s_fill) with
  | FMean, _ => true
  | _, FillLinear => out_float ft s.(s_fn)
  | _, _ => false
  end.

Definition result_eqb (approx : bool) (B : Z) (got ref : result) : bool :=
  list_eqb (fun g r => tags_eqb (fst g) (fst r) &&
                       list_eqb (fun x y => (fst x =? fst y) && rval_eqb approx B (snd x) (snd y)) (snd g) (snd r))
           got ref.

Definition check_case (c : case) : N :=
  match c with
  | CQ ft ws s ls res =>
      let data := lww ws in
      let ref := eval ft data s in
      let B := magnitude ws in
      let ap := approx_ok ft s in
      let ok := forallb (fun r => match r with
                                  | LOk true rows => result_eqb ap B rows ref
                                  | _ => false
                                  end) res in
      let agree := forallb (fun l => match nth_error res (snd l) with
                                     | Some (LOk true rows) => result_eqb ap B rows (run_layout ft s (layout_of ws (fst l)))
                                     | _ => false
                                     end) ls in
      code agree ok
  end.
