(* C11/Spec.v — reference semantics of the covered InfluxQL SELECT grammar, evaluated
   directly over the raw points of the logical data set (no shards, no iterators).

     SELECT f | count|sum|mean|min|max|first|last|spread|median|mode|distinct (f)
              | percentile(f, N) | count(distinct(f))
     FROM m WHERE time >= tmin AND time <= tmax [AND tag =|!= 'v']
     [GROUP BY [time(interval[,offset])] [,tag...]] [fill(null|none|<n>|previous|linear)]
     [ORDER BY time DESC] [LIMIT n] [OFFSET n] [SLIMIT n] [SOFFSET n]

   Data: a point is (tag values, time, value).  Values are integers: a float/integer
   field holds the integer itself (floats restricted to integers, |v| < 2^53, so sums are
   exact), a boolean 0/1, a string its rank in a byte-ordered pool.  Results carry exact
   types; means / medians / linear fills are exact rationals [RFlt num den].

   eval = finish . canonical stream:
     1. select points (time range, tag predicate);
     2. canonical ascending stream of (tag-set key, time, value):
          raw       : the selected points ordered by (key, time, value);
          aggregate : one element per non-empty (key, window), ordered by (key, window)
                      (distinct: one element per distinct value of the window; percentile: none
                      when the rank falls outside the window's points);
     3. SLIMIT/SOFFSET over the ascending tag sets of the measurement that match the tag
        predicate; ORDER BY time DESC reverses the stream (tag sets and times);
     4. per tag set: fill over the window grid, then OFFSET/LIMIT; empty series vanish. *)
From Coq Require Import List ZArith NArith Bool Lia.
From VerifGen Require Import Consts.
Import ListNotations.
Open Scope Z_scope.

(* ---------- data, statements, results ---------- *)

Inductive ftype := TFloat | TInt | TStr | TBool.
Definition tags := list N.
Record point := mkW { p_tags : tags; p_time : Z; p_val : Z }.

(* FPercentile p2: percentile(f, p2/2), i.e. the argument N or N.5 doubled *)
Inductive fn := FRaw | FCount | FSum | FMean | FMin | FMax | FFirst | FLast | FSpread | FMedian
              | FDistinct | FMode | FPercentile (p2 : Z) | FCountDistinct.
Inductive fill := FillNull | FillNone | FillNum (z : Z) | FillPrev | FillLinear.

Record stmt := mkStmt {
  s_fn : fn;
  s_tmin : Z; s_tmax : Z;                (* WHERE time >= tmin AND time <= tmax *)
  s_pred : option (nat * bool * N);      (* tag #i (=|!=) value; 0 = tag absent *)
  s_interval : Z; s_offlit : Z;          (* GROUP BY time(interval, offlit); 0 = none *)
  s_dims : list bool;                    (* GROUP BY tag #i *)
  s_fill : fill; s_desc : bool;
  s_limit : N; s_offset : N; s_slimit : N; s_soffset : N }.

Inductive rval := RNull | RInt (z : Z) | RFlt (num den : Z) | RStr (i : Z) | RBool (b : bool) | ROther.
Definition row := (tags * list (Z * rval))%type.
Definition result := list row.

(* ---------- last write wins ---------- *)

Fixpoint tags_eqb (a b : tags) : bool :=
  match a, b with
  | [], [] => true
  | x :: a', y :: b' => N.eqb x y && tags_eqb a' b'
  | _, _ => false
  end.

Definition same_key (a b : point) : bool :=
  tags_eqb a.(p_tags) b.(p_tags) && (a.(p_time) =? b.(p_time)).

Fixpoint lww (ws : list point) : list point :=
  match ws with
  | [] => []
  | w :: r => if existsb (same_key w) r then lww r else w :: lww r
  end.

(* ---------- selection, keys, windows ---------- *)

Definition pred_ok (s : stmt) (t : tags) : bool :=
  match s.(s_pred) with
  | None => true
  | Some (i, neg, v) => xorb neg (N.eqb (nth i t 0%N) v)
  end.

Definition sel (s : stmt) (p : point) : bool :=
  (s.(s_tmin) <=? p.(p_time)) && (p.(p_time) <=? s.(s_tmax)) && pred_ok s p.(p_tags).

Fixpoint mask (d : list bool) (t : tags) : tags :=
  match d, t with
  | b :: d', x :: t' => if b then x :: mask d' t' else mask d' t'
  | _, _ => []
  end.
Definition key_of (s : stmt) (p : point) : tags := mask s.(s_dims) p.(p_tags).

Fixpoint key_cmp (a b : tags) : comparison :=
  match a, b with
  | [], [] => Eq
  | [], _ => Lt
  | _, [] => Gt
  | x :: a', y :: b' => match N.compare x y with Eq => key_cmp a' b' | c => c end
  end.

(* query.IteratorOptions.Window without a time zone; the offset is lit % interval
   (Go remainder) as influxql.SelectStatement.GroupByOffset computes it. *)
Definition interval_offset (s : stmt) : Z :=
  if s.(s_interval) =? 0 then 0 else Z.rem s.(s_offlit) s.(s_interval).

Definition window_gen (tmin tmax D off t : Z) : Z * Z :=
  if D =? 0 then (tmin, tmax + 1) else
  let t' := t - off in
  let dt := t' mod D in
  let st := (if c11_min_time + dt >=? t' then c11_min_time else t' - dt) + off in
  let e := D - dt in
  let en := (if c11_max_time - e <=? t' then c11_max_time else t' + e) + off in
  (st, en).

Definition window (s : stmt) (t : Z) : Z * Z :=
  window_gen s.(s_tmin) s.(s_tmax) s.(s_interval) (interval_offset s) t.
Definition wstart (s : stmt) (t : Z) : Z := fst (window s t).

(* ---------- generic insertion sort / dedup ---------- *)

Section Sort.
  Context {A : Type} (leb : A -> A -> bool).
  Fixpoint insert (x : A) (l : list A) : list A :=
    match l with
    | [] => [x]
    | y :: l' => if leb x y then x :: l else y :: insert x l'
    end.
  Fixpoint isort (l : list A) : list A :=
    match l with [] => [] | x :: l' => insert x (isort l') end.
End Sort.

(* remove adjacent duplicates of a sorted list *)
Fixpoint dedup {A} (eqb : A -> A -> bool) (l : list A) : list A :=
  match l with
  | [] => []
  | x :: l' => match l' with
               | [] => [x]
               | y :: _ => if eqb x y then dedup eqb l' else x :: dedup eqb l'
               end
  end.

(* stream element: (tag-set key, time, value) *)
Definition elem := (tags * Z * Z)%type.
Definition ekey (e : elem) : tags := fst (fst e).
Definition etime (e : elem) : Z := snd (fst e).
Definition eval_ (e : elem) : Z := snd e.

(* lexicographic combination of two comparisons *)
Definition lexc {A B} (ca : A -> A -> comparison) (cb : B -> B -> comparison) (x y : A * B) : comparison :=
  match ca (fst x) (fst y) with Eq => cb (snd x) (snd y) | c => c end.
Definition leb_of {A} (cmp : A -> A -> comparison) (a b : A) : bool :=
  match cmp a b with Gt => false | _ => true end.
Definition eqb_of {A} (cmp : A -> A -> comparison) (a b : A) : bool :=
  match cmp a b with Eq => true | _ => false end.

(* elements are ordered by key, then time, then value *)
Definition elem_cmp : elem -> elem -> comparison := lexc (lexc key_cmp Z.compare) Z.compare.
Definition elem_leb : elem -> elem -> bool := leb_of elem_cmp.

Definition key_leb : tags -> tags -> bool := leb_of key_cmp.
Definition key_eqb : tags -> tags -> bool := eqb_of key_cmp.

(* ---------- typed values ---------- *)

Definition typed (ft : ftype) (v : Z) : rval :=
  match ft with
  | TFloat => RFlt v 1
  | TInt => RInt v
  | TStr => RStr v
  | TBool => RBool (negb (v =? 0))
  end.

(* ---------- aggregates over the (time, value) pairs of one (key, window) group ---------- *)

Definition tv := (Z * Z)%type.

Definition lex_ltb (a b : Z * Z) : bool :=
  (fst a <? fst b) || ((fst a =? fst b) && (snd a <? snd b)).

(* ranks of the selectors: min = least value, then earliest; max = greatest value, then
   earliest; first = earliest, then greatest value (booleans: false first, as
   BooleanFirstReduce does); last = latest, then greatest value.  The selected element is
   the one of least rank; ranks are injective, so it is unique. *)
Definition rank (ft : ftype) (f : fn) (p : tv) : Z * Z :=
  match f with
  | FMin => (snd p, fst p)
  | FMax => (- snd p, fst p)
  | FFirst => match ft with TBool => (fst p, snd p) | _ => (fst p, - snd p) end
  | _ (* FLast *) => (- fst p, - snd p)
  end.

(* count, sum, mean, min, max, first, last as a fold over the group:
   count = (sum of 1, _), sum = (sum of v, _), mean = (sum of v, sum of 1),
   selectors = the (time, value) of least rank *)
Definition inj (f : fn) (p : tv) : Z * Z :=
  match f with FCount => (1, 0) | FSum => (snd p, 0) | FMean => (snd p, 1) | _ => p end.

Definition comb (ft : ftype) (f : fn) (a b : Z * Z) : Z * Z :=
  match f with
  | FCount | FSum | FMean => (fst a + fst b, snd a + snd b)
  | _ => if lex_ltb (rank ft f b) (rank ft f a) then b else a
  end.

Definition ocomb (ft : ftype) (f : fn) (a b : option (Z * Z)) : option (Z * Z) :=
  match a, b with
  | Some x, Some y => Some (comb ft f x y)
  | Some x, None => Some x
  | None, y => y
  end.

Definition pfold (ft : ftype) (f : fn) (l : list tv) : option (Z * Z) :=
  fold_right (fun x acc => ocomb ft f (Some (inj f x)) acc) None l.

(* selector time (if any) and value *)
Definition finalize (ft : ftype) (f : fn) (p : Z * Z) : option Z * rval :=
  match f with
  | FCount => (None, RInt (fst p))
  | FSum => (None, typed ft (fst p))
  | FMean => (None, RFlt (fst p) (snd p))
  | _ => (Some (fst p), typed ft (snd p))
  end.

Definition minz (x : Z) (l : list Z) : Z := fold_right Z.min x l.
Definition maxz (x : Z) (l : list Z) : Z := fold_right Z.max x l.

Definition median_q (vs : list Z) : Z * Z :=
  let sv := isort Z.leb vs in
  let n := length sv in
  if Nat.even n
  then (nth (n / 2 - 1) sv 0 + nth (n / 2) sv 0, 2)
  else (nth (n / 2) sv 0, 1).

Definition agg (ft : ftype) (f : fn) (l : list tv) : option (option Z * rval) :=
  match f with
  | FRaw => None
  | FSpread => match l with
               | [] => None
               | p :: _ => let vs := map snd l in Some (None, typed ft (maxz (snd p) vs - minz (snd p) vs))
               end
  | FMedian => match l with
               | [] => None
               | _ => let q := median_q (map snd l) in Some (None, RFlt (fst q) (snd q))
               end
  | _ => option_map (finalize ft f) (pfold ft f l)
  end.

(* ---------- mode, percentile, distinct, count(distinct): evaluated on the group's points
   ordered by value and, within a value, by time ---------- *)

Definition vt := (Z * Z)%type.                      (* value, time *)
Definition swap (p : tv) : vt := (snd p, fst p).
Definition vt_cmp : vt -> vt -> comparison := lexc Z.compare Z.compare.
Definition vt_leb : vt -> vt -> bool := leb_of vt_cmp.
Definition vsort (l : list tv) : list vt := isort vt_leb (map swap l).

(* mode(f), numbers and strings (query/call_iterator.go *ModeReduceSlice after the repairs):
   one pass over the points sorted by (value, time).  State: the best run so far (frequency,
   value, time of its first point) and the current run.  A run replaces the best one when it is
   more frequent, or as frequent and its first time is not later: the result is the value of
   highest frequency, ties go to the value seen earliest, then to the greater value. *)
Record mstate := mkM { m_mostf : Z; m_mostv : Z; m_mostt : Z; m_curf : Z; m_curv : Z; m_curt : Z }.

Definition mode_step (st : mstate) (p : vt) : mstate :=
  let same := fst p =? st.(m_curv) in
  let cf := (if same then st.(m_curf) else 0) + 1 in
  let cv := if same then st.(m_curv) else fst p in
  let ct := if same then st.(m_curt) else snd p in
  if (cf <? st.(m_mostf)) || ((st.(m_mostf) =? cf) && (st.(m_mostt) <? ct))
  then mkM st.(m_mostf) st.(m_mostv) st.(m_mostt) cf cv ct
  else mkM cf (fst p) ct cf cv ct.

Definition mode_scan (sl : list vt) : option Z :=
  match sl with
  | [] => None
  | a0 :: _ => Some (m_mostv (fold_left mode_step sl (mkM 0 (fst a0) (snd a0) 0 (fst a0) (snd a0))))
  end.

(* booleans (BooleanModeReduceSlice): true unless false is strictly more frequent *)
Definition mode_bool (sl : list vt) : option Z :=
  match sl with
  | [] => None
  | _ => let nf := length (filter (fun p => fst p =? 0) sl) in
         let nt := length (filter (fun p => negb (fst p =? 0)) sl) in
         Some (if Nat.leb nf nt then 1 else 0)
  end.

Definition mode_sorted (ft : ftype) (sl : list vt) : option Z :=
  match sl with
  | [p] => Some (fst p)                             (* len(a) == 1: the point itself *)
  | _ => match ft with TBool => mode_bool sl | _ => mode_scan sl end
  end.

(* percentile(f, p2/2): nearest rank, index floor(n*p/100 + 0.5) - 1 in the points sorted by
   (value, time) (after the repair); no result when the index falls outside the group *)
Definition pct_index (n p2 : Z) : Z := (n * p2 + 100) / 200 - 1.
Definition percentile_sorted (p2 : Z) (sl : list vt) : option vt :=
  let n := Z.of_nat (length sl) in
  let i := pct_index n p2 in
  if (i <? 0) || (n <=? i) then None else nth_error sl (Z.to_nat i).

(* distinct(f): one representative per value - the point that arrives first, i.e. the earliest
   one when scanning forward and the latest one under ORDER BY time DESC - listed in the scan
   order of the representatives' times, equal times by ascending value *)
Fixpoint run_firsts (prev : option Z) (sl : list vt) : list vt :=
  match sl with
  | [] => []
  | x :: r => if match prev with Some v => v =? fst x | None => false end
              then run_firsts prev r else x :: run_firsts (Some (fst x)) r
  end.
Definition run_lasts (sl : list vt) : list vt := dedup (fun a b => fst a =? fst b) sl.

Definition dt_leb (desc : bool) (a b : vt) : bool :=
  if desc
  then (snd b <? snd a) || ((snd a =? snd b) && (fst a <=? fst b))
  else (snd a <? snd b) || ((snd a =? snd b) && (fst a <=? fst b)).

Definition distinct_sorted (desc : bool) (sl : list vt) : list Z :=
  map fst (isort (dt_leb desc) (if desc then run_lasts sl else run_firsts None sl)).

(* all results of one (key, window) group, in output order for the direction [desc];
   only distinct() yields more than one *)
Definition aggs_sorted (ft : ftype) (f : fn) (desc : bool) (sl : list vt) : list (option Z * rval) :=
  match f with
  | FDistinct => map (fun v => (None, typed ft v)) (distinct_sorted desc sl)
  | FMode => match mode_sorted ft sl with Some v => [(None, typed ft v)] | None => [] end
  | FPercentile p2 => match percentile_sorted p2 sl with
                      | Some p => [(Some (snd p), typed ft (fst p))]
                      | None => []
                      end
  | FCountDistinct => match sl with
                      | [] => []
                      | _ => [(None, RInt (Z.of_nat (length (distinct_sorted desc sl))))]
                      end
  | _ => []
  end.

Definition is_sorted_fn (f : fn) : bool :=
  match f with FDistinct | FMode | FPercentile _ | FCountDistinct => true | _ => false end.

Definition aggs (ft : ftype) (f : fn) (desc : bool) (l : list tv) : list (option Z * rval) :=
  if is_sorted_fn f then aggs_sorted ft f desc (vsort l)
  else match agg ft f l with Some x => [x] | None => [] end.

(* type of the output column (for fill values) *)
Definition out_float (ft : ftype) (f : fn) : bool :=
  match f with
  | FCount | FCountDistinct => false
  | FMean | FMedian => true
  | _ => match ft with TFloat => true | _ => false end
  end.

(* ---------- canonical ascending stream ---------- *)

Definition relem := (tags * Z * rval)%type.   (* key, row time, value *)

Definition to_elem (s : stmt) (p : point) : elem := (key_of s p, p.(p_time), p.(p_val)).

Definition raw_stream (ft : ftype) (s : stmt) (pts : list point) : list relem :=
  map (fun e => (ekey e, etime e, typed ft (eval_ e))) (isort elem_leb (map (to_elem s) pts)).

Definition grp := (tags * Z)%type.            (* key, window start *)
Definition grp_of (s : stmt) (p : point) : grp := (key_of s p, wstart s p.(p_time)).
Definition grp_cmp : grp -> grp -> comparison := lexc key_cmp Z.compare.
Definition grp_leb : grp -> grp -> bool := leb_of grp_cmp.
Definition grp_eqb : grp -> grp -> bool := eqb_of grp_cmp.

Definition groups (s : stmt) (pts : list point) : list grp :=
  dedup grp_eqb (isort grp_leb (map (grp_of s) pts)).

Definition members (s : stmt) (g : grp) (pts : list point) : list tv :=
  map (fun p => (p.(p_time), p.(p_val))) (filter (fun p => grp_eqb (grp_of s p) g) pts).

(* row time: window start with GROUP BY time (the minimum time prints as 0), the
   selected point's time for a lone selector, else the start of the time range *)
Definition row_time (s : stmt) (g : grp) (sel_time : option Z) : Z :=
  if s.(s_interval) =? 0
  then match sel_time with Some t => t | None => if s.(s_tmin) =? c11_min_time then 0 else s.(s_tmin) end
  else if snd g =? c11_min_time then 0 else snd g.

Definition emit (s : stmt) (g : grp) (x : option Z * rval) : relem := (fst g, row_time s g (fst x), snd x).

(* the ascending canonical stream: under ORDER BY time DESC eval reverses it, so a group's
   results are listed here in the reverse of their output order *)
Definition agg_stream (ft : ftype) (s : stmt) (pts : list point) : list relem :=
  flat_map (fun g => let r := map (emit s g) (aggs ft s.(s_fn) s.(s_desc) (members s g pts)) in
                     if s.(s_desc) then rev r else r) (groups s pts).

Definition ref_stream (ft : ftype) (s : stmt) (pts : list point) : list relem :=
  match s.(s_fn) with FRaw => raw_stream ft s pts | _ => agg_stream ft s pts end.

(* ---------- SLIMIT / SOFFSET ---------- *)

Definition skipN {A} (n : N) (l : list A) : list A := skipn (N.to_nat n) l.
Definition takeN {A} (n : N) (l : list A) : list A :=
  if N.eqb n 0 then l else firstn (N.to_nat n) l.

(* tag sets of the measurement whose series match the tag predicate, ascending *)
Definition all_keys (s : stmt) (data : list point) : list tags :=
  dedup key_eqb (isort key_leb (map (key_of s) (filter (fun p => pred_ok s p.(p_tags)) data))).

Definition allowed_keys (s : stmt) (data : list point) : list tags :=
  takeN s.(s_slimit) (skipN s.(s_soffset) (all_keys s data)).

Definition slimit_on (s : stmt) : bool := negb (N.eqb s.(s_slimit) 0 && N.eqb s.(s_soffset) 0).

(* ---------- finish: fill, limit/offset, rows (per tag set) ---------- *)

Definition rkey (e : relem) : tags := fst (fst e).
(* the tag sets of a stream in the order in which they first appear (the stream is grouped) *)
Definition skeys (st : list relem) : list tags := dedup key_eqb (map rkey st).
Definition rows_of (k : tags) (st : list relem) : list (Z * rval) :=
  map (fun e => (snd (fst e), snd e)) (filter (fun e => key_eqb (rkey e) k) st).

Definition lookup_t (t : Z) (l : list (Z * rval)) : option rval :=
  match find (fun x => fst x =? t) l with Some x => Some (snd x) | None => None end.

(* exact arithmetic on result values *)
Definition rq (v : rval) : option (Z * Z) :=
  match v with RFlt n d => Some (n, d) | RInt z => Some (z, 1) | _ => None end.

(* value on the line through (tp, vp) and (tn, vn) at t; times are window starts, so the
   ratios are ratios of window counts *)
Definition linear_val (isf : bool) (tp tn t : Z) (vp vn : rval) : rval :=
  match rq vp, rq vn with
  | Some (a, b), Some (c, d) =>
      (* a/b + (c/d - a/b) * (t - tp) / (tn - tp) *)
      let x := t - tp in let k := tn - tp in
      let num := a * d * k + (c * b - a * d) * x in
      let den := b * d * k in
      let sg := if den <? 0 then -1 else 1 in       (* keep denominators positive *)
      if isf then RFlt (sg * num) (sg * den) else RInt (Z.quot num den)
  | _, _ => RNull
  end.

(* the rows of one tag set, in output order (ascending or descending window starts) *)
Definition fill_rows (ft : ftype) (s : stmt) (real : list (Z * rval)) : list (Z * rval) :=
  let D := s.(s_interval) in
  (* count() fills with 0 instead of null; distinct() gets no fill iterator at all *)
  let f := match s.(s_fill), s.(s_fn) with
           | _, FDistinct => FillNone
           | FillNull, FCount | FillNull, FCountDistinct => FillNum 0
           | x, _ => x
           end in
  match f with
  | FillNone => real
  | _ =>
    if D =? 0 then real else
    let lo := wstart s s.(s_tmin) in
    let hi := wstart s s.(s_tmax) in
    let n := Z.to_nat ((hi - lo) / D + 1) in
    let isf := out_float ft s.(s_fn) in
    let grid := map (fun i => if s.(s_desc) then hi - Z.of_nat i * D else lo + Z.of_nat i * D) (seq 0 n) in
    (* "previous" and "next" are relative to the output order *)
    let before t x := if s.(s_desc) then t <? fst x else fst x <? t in
    map (fun t =>
      match lookup_t t real with
      | Some v => (t, v)
      | None =>
        let prev := last (filter (before t) real) (t, RNull) in
        let next := hd (t, RNull) (filter (fun x => negb (before t x)) real) in
        (t, match f with
            | FillNum z => if isf then RFlt z 1 else RInt z
            | FillPrev => snd prev
            | FillLinear =>
                match snd prev, snd next with
                | RNull, _ | _, RNull => RNull
                | vp, vn => linear_val isf (fst prev) (fst next) t vp vn
                end
            | _ => RNull
            end)
      end) grid
  end.

Definition finish (ft : ftype) (s : stmt) (stream : list relem) : result :=
  flat_map (fun k =>
    let rows := takeN s.(s_limit) (skipN s.(s_offset) (fill_rows ft s (rows_of k stream))) in
    match rows with [] => [] | _ => [(k, rows)] end) (skeys stream).

(* ---------- the reference evaluator ---------- *)

Definition eval (ft : ftype) (data : list point) (s : stmt) : result :=
  let pts := filter (sel s) data in
  let st := ref_stream ft s pts in
  let st := if slimit_on s
            then let ak := allowed_keys s data in
                 filter (fun e => existsb (key_eqb (fst (fst e))) ak) st
            else st in
  finish ft s (if s.(s_desc) then rev st else st).
