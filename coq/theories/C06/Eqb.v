(* C06/Eqb.v — decidable structural equality on the metadata records (definitions only). *)
From Verif Require Import C06.Model.
Open Scope N_scope.

Fixpoint list_eqb {A} (eqb : A -> A -> bool) (a b : list A) : bool :=
  match a, b with
  | [], [] => true
  | x :: a', y :: b' => eqb x y && list_eqb eqb a' b'
  | _, _ => false
  end.
Definition opt_eqb {A} (eqb : A -> A -> bool) (a b : option A) : bool :=
  match a, b with
  | None, None => true
  | Some x, Some y => eqb x y
  | _, _ => false
  end.

Definition node_eqb (a b : node) : bool :=
  (n_id a =? n_id b) && String.eqb (n_addr a) (n_addr b) && String.eqb (n_tcp a) (n_tcp b).
Definition shard_eqb (a b : shard) : bool :=
  (s_id a =? s_id b) && list_eqb N.eqb (s_owners a) (s_owners b).
Definition group_eqb (a b : group) : bool :=
  (g_id a =? g_id b) && (g_start a =? g_start b)%Z && (g_end a =? g_end b)%Z &&
  Bool.eqb (g_deleted a) (g_deleted b) && opt_eqb Z.eqb (g_trunc a) (g_trunc b) &&
  list_eqb shard_eqb (g_shards a) (g_shards b).
Definition sub_eqb (a b : subscription) : bool :=
  String.eqb (sb_name a) (sb_name b) && String.eqb (sb_mode a) (sb_mode b) &&
  list_eqb String.eqb (sb_dests a) (sb_dests b).
Definition cq_eqb (a b : cquery) : bool :=
  String.eqb (cq_name a) (cq_name b) && String.eqb (cq_query a) (cq_query b).

(* how two lists of shard groups / two privilege maps are compared is a parameter:
   exact order (data_eqb) or as sets keyed by ID / database (data_sim, Run.v) *)
Section Param.
  Variable groups_eq : list group -> list group -> bool.
  Variable privs_eq : list (string * Z) -> list (string * Z) -> bool.
  Definition policy_eq (a b : policy) : bool :=
    String.eqb (rp_name a) (rp_name b) && (rp_replica a =? rp_replica b) &&
    (rp_dur a =? rp_dur b)%Z && (rp_sgdur a =? rp_sgdur b)%Z &&
    groups_eq (rp_groups a) (rp_groups b) && list_eqb sub_eqb (rp_subs a) (rp_subs b).
  Definition database_eq (a b : database) : bool :=
    String.eqb (db_name a) (db_name b) && String.eqb (db_default a) (db_default b) &&
    list_eqb policy_eq (db_rps a) (db_rps b) && list_eqb cq_eqb (db_cqs a) (db_cqs b).
  Definition user_eq (a b : user) : bool :=
    String.eqb (u_name a) (u_name b) && String.eqb (u_hash a) (u_hash b) &&
    Bool.eqb (u_admin a) (u_admin b) && privs_eq (u_privs a) (u_privs b).
  Definition data_eq (a b : data) : bool :=
    (d_term a =? d_term b) && (d_index a =? d_index b) && (d_cluster a =? d_cluster b) &&
    list_eqb node_eqb (d_meta a) (d_meta b) && list_eqb node_eqb (d_nodes a) (d_nodes b) &&
    list_eqb database_eq (d_dbs a) (d_dbs b) && list_eqb user_eq (d_users a) (d_users b) &&
    Bool.eqb (d_admin a) (d_admin b) &&
    (d_max_node a =? d_max_node b) && (d_max_group a =? d_max_group b) && (d_max_shard a =? d_max_shard b).
End Param.

Definition priv_eqb (a b : string * Z) : bool := String.eqb (fst a) (fst b) && (snd a =? snd b)%Z.
Definition data_eqb : data -> data -> bool := data_eq (list_eqb group_eqb) (list_eqb priv_eqb).
