(* C06/Model.v — executable model of the replicated cluster metadata:
   services/meta/data.go (type Data and the methods the FSM calls) and
   services/meta/store_fsm.go (storeFSM.Apply and every apply*Command).
   Definitions only.  Reusable by C07/C08/C17.

   Conventions
   - uint64 values are N, int64 values (durations, unix-nanosecond instants) are Z.
     time.Time instants are exact integers (unix nanoseconds, unbounded): time.Time has a
     far larger range than int64 nanoseconds and no operation used here saturates.
   - strings are Coq strings (one character = one byte).
   - wall-clock reads: DeletedAt := time.Now() only records THAT a group is deleted
     ([g_deleted]); the only place a stamp is compared with the clock is
     PruneShardGroups, whose outcome is the per-replica oracle argument [prune] of
     [apply]: the set of (deleted) group IDs whose stamp that replica finds expired.
   - sort.Sort is modelled as the stable sort (Go's pdqsort uses insertion sort, which is
     stable, up to 12 elements; for larger slices the order of elements with EQUAL keys
     is not modelled, and the observable sorts groups by ID).
   - the ID counters are unbounded N (a wrap at 2^64 needs more than 2^32 commands).
   Excluded commands (not constructors of [cmd]): SetDataCommand, and the pre-0.10
   CreateNodeCommand / UpdateNodeCommand / DeleteNodeCommand. *)
From Coq Require Export List NArith ZArith Bool String Ascii.
From VerifGen Require Import Consts.
Export ListNotations.
Open Scope N_scope.

(* ---------- state ---------- *)

Record node := Nd { n_id : N; n_addr : string; n_tcp : string }.
Record shard := Sh { s_id : N; s_owners : list N }.
Record group := Gr { g_id : N; g_start : Z; g_end : Z; g_deleted : bool;
                     g_trunc : option Z; g_shards : list shard }.
Record subscription := Sb { sb_name : string; sb_mode : string; sb_dests : list string }.
Record policy := Rp { rp_name : string; rp_replica : N; rp_dur : Z; rp_sgdur : Z;
                      rp_groups : list group; rp_subs : list subscription }.
Record cquery := Cq { cq_name : string; cq_query : string }.
Record database := Db { db_name : string; db_default : string;
                        db_rps : list policy; db_cqs : list cquery }.
Record user := Us { u_name : string; u_hash : string; u_admin : bool;
                    u_privs : list (string * Z) }.
Record data := Dt { d_term : N; d_index : N; d_cluster : N;
                    d_meta : list node; d_nodes : list node;
                    d_dbs : list database; d_users : list user; d_admin : bool;
                    d_max_node : N; d_max_group : N; d_max_shard : N }.

(* newStore: &Data{Index: 1} *)
Definition init_data : data := Dt 0 1 0 [] [] [] [] false 0 0 0.

(* ---------- error classes ---------- *)

Inductive err :=
| ENone | ENodeExists | ENodeNotFound | ENodeIDRequired
| EDatabaseNameRequired | ENameTooLong | EDatabaseNotFound
| ERPNameRequired | EReplicationFactorTooLow | EIncompatibleDurations
| ERPExists | ERPConflict | ERPNotFound | ERPNameExists | ERPDurationTooLow
| EShardGroupNotFound | ECQExists | EInvalidSubscriptionURL
| ESubscriptionExists | ESubscriptionNotFound
| EUsernameRequired | EUserExists | EUserNotFound
| EReassign        (* "cannot reassign shard %d due to lack of data nodes" *)
| ESetMetaNode.    (* "can't set meta node when there are more than 1 in the metastore" *)

Definition err_code (e : err) : N :=
  match e with
  | ENone => 0 | ENodeExists => 1 | ENodeNotFound => 2 | ENodeIDRequired => 3
  | EDatabaseNameRequired => 4 | ENameTooLong => 5 | EDatabaseNotFound => 6
  | ERPNameRequired => 7 | EReplicationFactorTooLow => 8 | EIncompatibleDurations => 9
  | ERPExists => 10 | ERPConflict => 11 | ERPNotFound => 12 | ERPNameExists => 13
  | ERPDurationTooLow => 14 | EShardGroupNotFound => 15 | ECQExists => 16
  | EInvalidSubscriptionURL => 17 | ESubscriptionExists => 18 | ESubscriptionNotFound => 19
  | EUsernameRequired => 20 | EUserExists => 21 | EUserNotFound => 22
  | EReassign => 23 | ESetMetaNode => 24
  end.

Inductive result := Ok (d : data) | Er (e : err).

(* ---------- record updates ---------- *)

Definition set_meta (d : data) v := Dt (d_term d) (d_index d) (d_cluster d) v (d_nodes d) (d_dbs d) (d_users d) (d_admin d) (d_max_node d) (d_max_group d) (d_max_shard d).
Definition set_nodes (d : data) v := Dt (d_term d) (d_index d) (d_cluster d) (d_meta d) v (d_dbs d) (d_users d) (d_admin d) (d_max_node d) (d_max_group d) (d_max_shard d).
Definition set_dbs (d : data) v := Dt (d_term d) (d_index d) (d_cluster d) (d_meta d) (d_nodes d) v (d_users d) (d_admin d) (d_max_node d) (d_max_group d) (d_max_shard d).
Definition set_users (d : data) v a := Dt (d_term d) (d_index d) (d_cluster d) (d_meta d) (d_nodes d) (d_dbs d) v a (d_max_node d) (d_max_group d) (d_max_shard d).
Definition set_max_node (d : data) v := Dt (d_term d) (d_index d) (d_cluster d) (d_meta d) (d_nodes d) (d_dbs d) (d_users d) (d_admin d) v (d_max_group d) (d_max_shard d).
Definition set_cluster (d : data) v := Dt (d_term d) (d_index d) v (d_meta d) (d_nodes d) (d_dbs d) (d_users d) (d_admin d) (d_max_node d) (d_max_group d) (d_max_shard d).
Definition set_group_counters (d : data) mg ms := Dt (d_term d) (d_index d) (d_cluster d) (d_meta d) (d_nodes d) (d_dbs d) (d_users d) (d_admin d) (d_max_node d) mg ms.
Definition stamp (d : data) (idx term : N) := Dt term idx (d_cluster d) (d_meta d) (d_nodes d) (d_dbs d) (d_users d) (d_admin d) (d_max_node d) (d_max_group d) (d_max_shard d).

Definition db_set_rps (x : database) v := Db (db_name x) (db_default x) v (db_cqs x).
Definition db_set_cqs (x : database) v := Db (db_name x) (db_default x) (db_rps x) v.
Definition db_set_default (x : database) v := Db (db_name x) v (db_rps x) (db_cqs x).
Definition rp_set_groups (r : policy) v := Rp (rp_name r) (rp_replica r) (rp_dur r) (rp_sgdur r) v (rp_subs r).
Definition rp_set_subs (r : policy) v := Rp (rp_name r) (rp_replica r) (rp_dur r) (rp_sgdur r) (rp_groups r) v.
Definition g_set_shards (g : group) v := Gr (g_id g) (g_start g) (g_end g) (g_deleted g) (g_trunc g) v.
Definition g_set_deleted (g : group) := Gr (g_id g) (g_start g) (g_end g) true (g_trunc g) (g_shards g).
Definition g_set_trunc (g : group) v := Gr (g_id g) (g_start g) (g_end g) (g_deleted g) (Some v) (g_shards g).
Definition s_set_owners (s : shard) v := Sh (s_id s) v.

(* ---------- list helpers (Go loops with break / first match) ---------- *)

Section ListHelpers.
  Context {A : Type}.
  (* update the first element satisfying p *)
  Fixpoint upd_first (p : A -> bool) (f : A -> A) (l : list A) : list A :=
    match l with
    | [] => []
    | x :: t => if p x then f x :: t else x :: upd_first p f t
    end.
  (* remove the first element satisfying p *)
  Fixpoint remove_first (p : A -> bool) (l : list A) : list A :=
    match l with
    | [] => []
    | x :: t => if p x then t else x :: remove_first p t
    end.
  (* update the first element on which f answers Some; None when there is none *)
  Fixpoint upd_first_opt (f : A -> option A) (l : list A) : option (list A) :=
    match l with
    | [] => None
    | x :: t => match f x with
                | Some y => Some (y :: t)
                | None => match upd_first_opt f t with
                          | Some t' => Some (x :: t')
                          | None => None
                          end
                end
    end.
  (* index of the last element satisfying p, as in "for i, x := range l { if p x { idx = i } }" *)
  Fixpoint remove_last (p : A -> bool) (l : list A) : list A :=
    match l with
    | [] => []
    | x :: t => if existsb p t then x :: remove_last p t
                else if p x then t else x :: t
    end.
End ListHelpers.

Definition memN (x : N) (l : list N) : bool := existsb (N.eqb x) l.
Definition slen (s : string) : N := N.of_nat (String.length s).
Definition llen {A} (l : list A) : N := N.of_nat (List.length l).

Fixpoint string_of_bytes (l : list N) : string :=
  match l with
  | [] => EmptyString
  | b :: t => String (ascii_of_N b) (string_of_bytes t)
  end.

(* strings.ToLower restricted to ASCII: bytes >= 128 are left unchanged (the harness only
   generates ASCII query texts) *)
Definition lower_ascii (c : ascii) : ascii :=
  let n := N_of_ascii c in
  if (65 <=? n) && (n <=? 90) then ascii_of_N (n + 32) else c.
Fixpoint lower (s : string) : string :=
  match s with
  | EmptyString => EmptyString
  | String c t => String (lower_ascii c) (lower t)
  end.

(* ---------- nodes ---------- *)

(* sort.Sort(NodeInfos): stable insertion by ID *)
Fixpoint insert_node (x : node) (l : list node) : list node :=
  match l with
  | [] => [x]
  | y :: t => if n_id y <? n_id x then y :: insert_node x t else x :: y :: t
  end.
Definition sort_nodes (l : list node) : list node := fold_right insert_node [] l.

Definition find_node (l : list node) (id : N) : option node :=
  find (fun n => n_id n =? id) l.
Definition has_node (l : list node) (id : N) : bool := existsb (fun n => n_id n =? id) l.

(* Data.CreateDataNode (as repaired: a meta node's ID is re-used only while no data node has it) *)
Definition create_data_node (d : data) (addr tcp : string) : result :=
  if existsb (fun n => String.eqb (n_tcp n) tcp) (d_nodes d) then Er ENodeExists
  else
    let existing := match find (fun n => String.eqb (n_tcp n) tcp) (d_meta d) with
                    | Some n => n_id n | None => 0 end in
    let fresh := (existing =? 0) || has_node (d_nodes d) existing in
    let id := if fresh then d_max_node d + 1 else existing in
    let d1 := if fresh then set_max_node d (d_max_node d + 1) else d in
    Ok (set_nodes d1 (sort_nodes (d_nodes d ++ [Nd id addr tcp]))).

(* Data.CreateMetaNode *)
Definition create_meta_node (d : data) (http tcp : string) : result :=
  if existsb (fun n => String.eqb (n_addr n) http) (d_meta d) then Er ENodeExists
  else
    let existing := match find (fun n => String.eqb (n_tcp n) tcp) (d_nodes d) with
                    | Some n => n_id n | None => 0 end in
    let fresh := existing =? 0 in
    let id := if fresh then d_max_node d + 1 else existing in
    let d1 := if fresh then set_max_node d (d_max_node d + 1) else d in
    Ok (set_meta d1 (sort_nodes (d_meta d ++ [Nd id http tcp]))).

(* Data.SetMetaNode *)
Definition set_meta_node (d : data) (http tcp : string) : result :=
  match d_meta d with
  | [] => create_meta_node d http tcp
  | [n] => Ok (set_meta d [Nd (n_id n) http tcp])
  | _ => Er ESetMetaNode
  end.

(* applyDeleteMetaNodeCommand + Data.DeleteMetaNode *)
Definition delete_meta_node (d : data) (id : N) : result :=
  if negb (has_node (d_meta d) id) then Er ENodeNotFound
  else if id =? 0 then Er ENodeIDRequired
  else Ok (set_meta d (filter (fun n => negb (n_id n =? id)) (d_meta d))).

(* applyUpdateDataNodeCommand *)
Definition update_data_node (d : data) (id : N) (http tcp : string) : result :=
  if negb (has_node (d_nodes d) id) then Er ENodeNotFound
  else Ok (set_nodes d (upd_first (fun n => n_id n =? id) (fun n => Nd (n_id n) http tcp) (d_nodes d))).

(* ---------- DeleteDataNode ---------- *)

(* nodeOwnerFreqs: map node -> number of shard copies in the group *)
Fixpoint freq_incr (k : N) (m : list (N * N)) : list (N * N) :=
  match m with
  | [] => [(k, 1)]
  | (k', c) :: t => if k' =? k then (k', c + 1) :: t else (k', c) :: freq_incr k t
  end.
Definition group_freqs (shards : list shard) : list (N * N) :=
  fold_left (fun m s => fold_left (fun m o => freq_incr o m) (s_owners s) m) shards [].
(* newShardOwner (as repaired): least count, then lowest node ID *)
Fixpoint freq_min (m : list (N * N)) : option (N * N) :=
  match m with
  | [] => None
  | (k, c) :: t => match freq_min t with
                   | None => Some (k, c)
                   | Some (k', c') => if (c <? c') || ((c =? c') && (k <? k')) then Some (k, c) else Some (k', c')
                   end
  end.

(* the reassignment loop over orphanedShards *)
Fixpoint reassign (orphans : list N) (freqs : list (N * N)) (shards : list shard) : option (list shard) :=
  match orphans with
  | [] => Some shards
  | oid :: rest =>
      match freq_min freqs with
      | None => None
      | Some (k, _) =>
          reassign rest (freq_incr k freqs)
                   (upd_first (fun s => s_id s =? oid) (fun s => s_set_owners s (s_owners s ++ [k])) shards)
      end
  end.

(* body of the innermost loop of DeleteDataNode for one shard group; None = the error of
   newShardOwner *)
Definition delete_node_group (id : N) (g : group) : option group :=
  let freqs := group_freqs (g_shards g) in
  let stripped := map (fun s => s_set_owners s (remove_last (N.eqb id) (s_owners s))) (g_shards g) in
  let orphans := filter (fun s => match s_owners s with [] => true | _ => false end) stripped in
  if (List.length (g_shards g) =? 0)%nat || (List.length orphans =? List.length (g_shards g))%nat
  then Some (g_set_deleted (g_set_shards g stripped))
  else match reassign (map s_id orphans) (filter (fun kc => negb (fst kc =? id)) freqs) stripped with
       | Some sh => Some (g_set_shards g sh)
       | None => None
       end.

Fixpoint map_opt {A B} (f : A -> option B) (l : list A) : option (list B) :=
  match l with
  | [] => Some []
  | x :: t => match f x with
              | None => None
              | Some y => match map_opt f t with None => None | Some t' => Some (y :: t') end
              end
  end.

Definition delete_data_node (d : data) (id : N) : result :=
  let nodes := filter (fun n => negb (n_id n =? id)) (d_nodes d) in
  if (List.length nodes =? List.length (d_nodes d))%nat then Er ENodeNotFound
  else
    match map_opt (fun x =>
            match map_opt (fun r =>
                    match map_opt (delete_node_group id) (rp_groups r) with
                    | Some gs => Some (rp_set_groups r gs) | None => None end) (db_rps x) with
            | Some rs => Some (db_set_rps x rs) | None => None end) (d_dbs d) with
    | Some dbs => Ok (set_dbs (set_nodes d nodes) dbs)
    | None => Er EReassign
    end.

(* ---------- databases and retention policies ---------- *)

Definition find_db (d : data) (name : string) : option database :=
  find (fun x => String.eqb (db_name x) name) (d_dbs d).
Definition upd_db (d : data) (name : string) (f : database -> database) : data :=
  set_dbs d (upd_first (fun x => String.eqb (db_name x) name) f (d_dbs d)).

(* Data.RetentionPolicy(database, name): plain name match *)
Definition find_rp (x : database) (name : string) : option policy :=
  find (fun r => String.eqb (rp_name r) name) (db_rps x).
(* DatabaseInfo.RetentionPolicy(name): "" means the default policy *)
Definition db_rp (x : database) (name : string) : option policy :=
  if String.eqb name "" then
    if String.eqb (db_default x) "" then None else find_rp x (db_default x)
  else find_rp x name.
Definition upd_rp (x : database) (name : string) (f : policy -> policy) : database :=
  db_set_rps x (upd_first (fun r => String.eqb (rp_name r) name) f (db_rps x)).

Definition create_database (d : data) (name : string) : result :=
  if String.eqb name "" then Er EDatabaseNameRequired
  else if c06_max_name_len <? slen name then Er ENameTooLong
  else match find_db d name with
       | Some _ => Ok d
       | None => Ok (set_dbs d (d_dbs d ++ [Db name "" [] []]))
       end.

Definition drop_database (d : data) (name : string) : data :=
  match find_db d name with
  | None => d
  | Some _ =>
      let dbs := remove_first (fun x => String.eqb (db_name x) name) (d_dbs d) in
      let users := map (fun u => Us (u_name u) (u_hash u) (u_admin u)
                                    (filter (fun kv => negb (String.eqb (fst kv) name)) (u_privs u)))
                       (d_users d) in
      set_users (set_dbs d dbs) users (d_admin d)
  end.

Definition shard_group_duration (dur : Z) : Z :=
  if (c06_sgd_thr_long <=? dur)%Z || (dur =? 0)%Z then c06_sgd_long
  else if (c06_sgd_thr_mid <=? dur)%Z then c06_sgd_mid
  else c06_sgd_short.

Definition normalised_shard_duration (sgd dur : Z) : Z :=
  if (sgd =? 0)%Z then shard_group_duration dur
  else if (sgd <? c06_min_rp_duration)%Z then shard_group_duration c06_min_rp_duration
  else sgd.

(* Data.CreateRetentionPolicy *)
Definition create_rp (d : data) (dbn : string) (name : string) (rep : N) (dur sgd0 : Z)
           (make_default : bool) : result :=
  if String.eqb name "" then Er ERPNameRequired
  else if c06_max_name_len <? slen name then Er ENameTooLong
  else if rep <? 1 then Er EReplicationFactorTooLow
  else
    let sgd := normalised_shard_duration sgd0 dur in
    if (0 <? dur)%Z && (dur <? sgd)%Z then Er EIncompatibleDurations
    else match find_db d dbn with
         | None => Er EDatabaseNotFound
         | Some x =>
             match db_rp x name with
             | Some r =>
                 if negb (rp_replica r =? rep) || negb (rp_dur r =? dur)%Z || negb (rp_sgdur r =? sgd)%Z
                 then Er ERPExists
                 else if make_default && negb (String.eqb (db_default x) name) then Er ERPConflict
                 else Ok d
             | None =>
                 Ok (upd_db d dbn (fun x =>
                       let x1 := db_set_rps x (db_rps x ++ [Rp name rep dur sgd [] []]) in
                       if make_default then db_set_default x1 name else x1))
             end
         end.

Definition drop_rp (d : data) (dbn name : string) : data :=
  upd_db d dbn (fun x => db_set_rps x (remove_first (fun r => String.eqb (rp_name r) name) (db_rps x))).

(* Data.UpdateRetentionPolicy; the optional fields of RetentionPolicyUpdate are options *)
Definition update_rp (d : data) (dbn name : string) (new_name : option string)
           (dur : option Z) (rep : option N) (sgd : option Z) (make_default : bool) : result :=
  match find_db d dbn with
  | None => Er EDatabaseNotFound
  | Some x =>
      match db_rp x name with
      | None => Er ERPNotFound
      | Some r =>
          if match new_name with
             | Some nn => negb (String.eqb nn name) && match db_rp x nn with Some _ => true | None => false end
             | None => false end
          then Er ERPNameExists
          else if match dur with
                  | Some du => (du <? c06_min_rp_duration)%Z && negb (du =? 0)%Z
                  | None => false end
          then Er ERPDurationTooLow
          else if match dur with
                  | Some du => (0 <? du)%Z &&
                               match sgd with
                               | Some sg => (du <? sg)%Z
                               | None => (du <? rp_sgdur r)%Z
                               end
                  | None => (0 <? rp_dur r)%Z &&
                            match sgd with Some sg => (rp_dur r <? sg)%Z | None => false end
                  end
          then Er EIncompatibleDurations
          else
            let nm := match new_name with Some nn => nn | None => rp_name r end in
            (* rpi points at the policy found by DatabaseInfo.RetentionPolicy(name); its
               fields are overwritten in place *)
            let key := rp_name r in
            let upd (r0 : policy) :=
              let du := match dur with Some v => v | None => rp_dur r0 end in
              Rp (match new_name with Some nn => nn | None => rp_name r0 end)
                 (match rep with Some v => v | None => rp_replica r0 end)
                 du
                 (match sgd with Some v => normalised_shard_duration v du | None => rp_sgdur r0 end)
                 (rp_groups r0) (rp_subs r0) in
            Ok (upd_db d dbn (fun x =>
                  let x1 := upd_rp x key upd in
                  if negb (String.eqb (db_default x) nm) && make_default then db_set_default x1 nm else x1))
      end
  end.

(* ---------- shard groups ---------- *)

Definition g_truncated (g : group) : bool := match g_trunc g with Some _ => true | None => false end.
(* end of the range still open for writes: TruncatedAt when truncated *)
Definition eff_end (g : group) : Z := match g_trunc g with Some t => t | None => g_end g end.

(* ShardGroupInfos.Less *)
Definition g_less (a b : group) : bool :=
  if (eff_end a =? eff_end b)%Z then (g_start a <? g_start b)%Z else (eff_end a <? eff_end b)%Z.
Fixpoint insert_group (x : group) (l : list group) : list group :=
  match l with
  | [] => [x]
  | y :: t => if g_less y x then y :: insert_group x t else x :: y :: t
  end.
Definition sort_groups (l : list group) : list group := fold_right insert_group [] l.

(* RetentionPolicyInfo.ShardGroupByTimestamp *)
Definition g_covers (t : Z) (g : group) : bool :=
  (g_start g <=? t)%Z && (t <? g_end g)%Z && negb (g_deleted g) &&
  match g_trunc g with Some ta => (t <? ta)%Z | None => true end.

(* time.Time.Truncate(d) of time.Unix(0, t): multiples of d counted from the zero Time
   (January 1, year 1, 00:00:00 UTC), which is 62135596800 s before the Unix epoch *)
Definition unix_to_internal_ns : Z := (62135596800 * 1000000000)%Z.
Definition time_truncate (t d : Z) : Z :=
  if (d <=? 0)%Z then t else (t - (t + unix_to_internal_ns) mod d)%Z.

(* "for shardN*replicaN%len(data.DataNodes) != 0 { shardN++ }" *)
Fixpoint shard_n_aux (fuel : nat) (s r n : N) : N :=
  match fuel with
  | O => s
  | S f => if (s * r) mod n =? 0 then s else shard_n_aux f (s + 1) r n
  end.
Definition shard_n (r n : N) : N := shard_n_aux (N.to_nat n) 1 r n.

(* the clipping loop over the existing groups *)
Definition clip_range (t : Z) (groups : list group) (se : Z * Z) : Z * Z :=
  fold_left (fun (se : Z * Z) g =>
               if g_deleted g then se
               else
                 let s0 := fst se in let e0 := snd se in
                 let s1 := if (eff_end g <=? t)%Z && (s0 <? eff_end g)%Z then eff_end g else s0 in
                 let e1 := if (t <? g_start g)%Z && (g_start g <? e0)%Z then g_start g else e0 in
                 (s1, e1)) groups se.

(* time.Unix(0, math.MinInt64): MinInt64 = -(MaxNanoTime + 2) *)
Definition min_unix_nano : Z := (- (c06_max_nano_time + 2))%Z.

(* owners of shard number i: replicaN consecutive nodes, round robin *)
Definition rr_owners (ids : list N) (start r : N) (i : nat) : list N :=
  map (fun j => nth (N.to_nat ((start + N.of_nat i * r + N.of_nat j) mod llen ids)) ids 0)
      (seq 0 (N.to_nat r)).

Definition new_group (d : data) (r : policy) (t : Z) : group :=
  let n := llen (d_nodes d) in
  let rep := if rp_replica r =? 0 then 1 else if n <? rp_replica r then n else rp_replica r in
  let sn := shard_n rep n in
  let s0 := time_truncate t (rp_sgdur r) in
  let e0 := (s0 + rp_sgdur r)%Z in
  let e0 := if (c06_max_nano_time <? e0)%Z then (c06_max_nano_time + 1)%Z else e0 in
  (* as repaired: a start before the int64 range of Unix nanoseconds is clamped to it *)
  let s0 := if (s0 <? min_unix_nano)%Z then min_unix_nano else s0 in
  let se := clip_range t (rp_groups r) (s0, e0) in
  let ids := map n_id (d_nodes d) in
  let start := d_index d mod n in
  Gr (d_max_group d + 1) (fst se) (snd se) false None
     (map (fun i => Sh (d_max_shard d + 1 + N.of_nat i) (rr_owners ids start rep i))
          (seq 0 (N.to_nat sn))).

(* Data.CreateShardGroup *)
Definition create_shard_group (d : data) (dbn pol : string) (t : Z) : result :=
  match d_nodes d with
  | [] => Ok d
  | _ =>
      match find_db d dbn with
      | None => Er EDatabaseNotFound
      | Some x =>
          match find_rp x pol with
          | None => Er ERPNotFound
          | Some r =>
              if existsb (g_covers t) (rp_groups r) then Ok d
              else
                let g := new_group d r t in
                let d1 := upd_db d dbn (fun x => upd_rp x pol (fun r =>
                            rp_set_groups r (sort_groups (rp_groups r ++ [g])))) in
                Ok (set_group_counters d1 (d_max_group d + 1) (d_max_shard d + llen (g_shards g)))
          end
      end
  end.

(* Data.DeleteShardGroup *)
Definition delete_shard_group (d : data) (dbn pol : string) (id : N) : result :=
  match find_db d dbn with
  | None => Er EDatabaseNotFound
  | Some x =>
      match find_rp x pol with
      | None => Er ERPNotFound
      | Some r =>
          if existsb (fun g => g_id g =? id) (rp_groups r)
          then Ok (upd_db d dbn (fun x => upd_rp x pol (fun r =>
                     rp_set_groups r (upd_first (fun g => g_id g =? id) g_set_deleted (rp_groups r)))))
          else Er EShardGroupNotFound
      end
  end.

(* apply f to the first shard group (databases, policies, groups in order) that has a
   shard with this ID; used by DropShard / CopyShardOwner / RemoveShardOwner *)
Definition has_shard (id : N) (g : group) : bool := existsb (fun s => s_id s =? id) (g_shards g).
Definition upd_group_of_shard (d : data) (id : N) (f : group -> group) : data :=
  match upd_first_opt (fun x =>
          match upd_first_opt (fun r =>
                  match upd_first_opt (fun g => if has_shard id g then Some (f g) else None) (rp_groups r) with
                  | Some gs => Some (rp_set_groups r gs) | None => None end) (db_rps x) with
          | Some rs => Some (db_set_rps x rs) | None => None end) (d_dbs d) with
  | Some dbs => set_dbs d dbs
  | None => d
  end.

Definition remove_shard_from (id : N) (g : group) : group :=
  let g1 := g_set_shards g (remove_first (fun s => s_id s =? id) (g_shards g)) in
  if (List.length (g_shards g) =? 1)%nat then g_set_deleted g1 else g1.

(* Data.DropShard *)
Definition drop_shard (d : data) (id : N) : data := upd_group_of_shard d id (remove_shard_from id).

(* insertion before the first owner greater than nodeID, else append *)
Fixpoint insert_owner (nid : N) (l : list N) : list N :=
  match l with
  | [] => [nid]
  | o :: t => if nid <? o then nid :: o :: t else o :: insert_owner nid t
  end.
(* Data.CopyShardOwner (the FSM has checked that nodeID is a data node) *)
Definition copy_shard_owner (d : data) (id nid : N) : data :=
  upd_group_of_shard d id (fun g =>
    g_set_shards g (upd_first (fun s => s_id s =? id)
                              (fun s => if memN nid (s_owners s) then s
                                        else s_set_owners s (insert_owner nid (s_owners s)))
                              (g_shards g))).

(* Data.RemoveShardOwner *)
Definition remove_shard_owner (d : data) (id nid : N) : data :=
  upd_group_of_shard d id (fun g =>
    match find (fun s => s_id s =? id) (g_shards g) with
    | None => g
    | Some s =>
        let owners := remove_first (N.eqb nid) (s_owners s) in
        match owners with
        | [] => remove_shard_from id g
        | _ => g_set_shards g (upd_first (fun s => s_id s =? id) (fun s => s_set_owners s owners) (g_shards g))
        end
    end).

Definition map_groups (f : group -> group) (d : data) : data :=
  set_dbs d (map (fun x => db_set_rps x (map (fun r => rp_set_groups r (map f (rp_groups r))) (db_rps x))) (d_dbs d)).

(* Data.TruncateShardGroups *)
Definition truncate_group (t : Z) (g : group) : group :=
  if (g_end g <=? t)%Z || g_deleted g || match g_trunc g with Some ta => (ta <? t)%Z | None => false end
  then g
  else if (t <=? g_start g)%Z then g_set_trunc g (g_start g) else g_set_trunc g t.

(* Data.PruneShardGroups: [expired id] is this replica's verdict
   "DeletedAt is older than time.Now() + ShardGroupDeletedExpiration" *)
Definition prune_groups (expired : list N) (d : data) : data :=
  set_dbs d (map (fun x => db_set_rps x (map (fun r =>
     rp_set_groups r (filter (fun g => negb (g_deleted g && memN (g_id g) expired)) (rp_groups r)))
     (db_rps x))) (d_dbs d)).

(* ---------- continuous queries, subscriptions ---------- *)

Definition create_cq (d : data) (dbn name q : string) : result :=
  match find_db d dbn with
  | None => Er EDatabaseNotFound
  | Some x =>
      match find (fun c => String.eqb (cq_name c) name) (db_cqs x) with
      | Some c => if String.eqb (lower (cq_query c)) (lower q) then Ok d else Er ECQExists
      | None => Ok (upd_db d dbn (fun x => db_set_cqs x (db_cqs x ++ [Cq name q])))
      end
  end.

Definition drop_cq (d : data) (dbn name : string) : data :=
  upd_db d dbn (fun x => db_set_cqs x (remove_first (fun c => String.eqb (cq_name c) name) (db_cqs x))).

(* destinations carry the verdict of validateURL (net/url is not modelled) *)
Definition create_sub (d : data) (dbn pol name mode : string) (dests : list (string * bool)) : result :=
  if negb (forallb snd dests) then Er EInvalidSubscriptionURL
  else match find_db d dbn with
       | None => Er EDatabaseNotFound
       | Some x =>
           match find_rp x pol with
           | None => Er ERPNotFound
           | Some r =>
               if existsb (fun s => String.eqb (sb_name s) name) (rp_subs r) then Er ESubscriptionExists
               else Ok (upd_db d dbn (fun x => upd_rp x pol (fun r =>
                          rp_set_subs r (rp_subs r ++ [Sb name mode (map fst dests)]))))
           end
       end.

Definition drop_sub (d : data) (dbn pol name : string) : result :=
  match find_db d dbn with
  | None => Er EDatabaseNotFound
  | Some x =>
      match find_rp x pol with
      | None => Er ERPNotFound
      | Some r =>
          if existsb (fun s => String.eqb (sb_name s) name) (rp_subs r)
          then Ok (upd_db d dbn (fun x => upd_rp x pol (fun r =>
                     rp_set_subs r (remove_first (fun s => String.eqb (sb_name s) name) (rp_subs r)))))
          else Er ESubscriptionNotFound
      end
  end.

(* ---------- users ---------- *)

Definition has_admin (us : list user) : bool := existsb u_admin us.
Definition has_user (d : data) (name : string) : bool :=
  existsb (fun u => String.eqb (u_name u) name) (d_users d).

Definition create_user (d : data) (name hash : string) (admin : bool) : result :=
  if String.eqb name "" then Er EUsernameRequired
  else if has_user d name then Er EUserExists
  else Ok (set_users d (d_users d ++ [Us name hash admin []]) (if admin then true else d_admin d)).

Definition drop_user (d : data) (name : string) : result :=
  match find (fun u => String.eqb (u_name u) name) (d_users d) with
  | None => Er EUserNotFound
  | Some u =>
      let us := remove_first (fun u => String.eqb (u_name u) name) (d_users d) in
      Ok (set_users d us (if u_admin u then has_admin us else d_admin d))
  end.

Definition update_user (d : data) (name hash : string) : result :=
  if has_user d name
  then Ok (set_users d (upd_first (fun u => String.eqb (u_name u) name)
                                  (fun u => Us (u_name u) hash (u_admin u) (u_privs u)) (d_users d)) (d_admin d))
  else Er EUserNotFound.

Fixpoint priv_set (k : string) (v : Z) (m : list (string * Z)) : list (string * Z) :=
  match m with
  | [] => [(k, v)]
  | (k', v') :: t => if String.eqb k' k then (k', v) :: t else (k', v') :: priv_set k v t
  end.

Definition set_privilege (d : data) (name dbn : string) (p : Z) : result :=
  if negb (has_user d name) then Er EUserNotFound
  else match find_db d dbn with
       | None => Er EDatabaseNotFound
       | Some _ =>
           Ok (set_users d (upd_first (fun u => String.eqb (u_name u) name)
                                      (fun u => Us (u_name u) (u_hash u) (u_admin u) (priv_set dbn p (u_privs u)))
                                      (d_users d)) (d_admin d))
       end.

Definition set_admin_privilege (d : data) (name : string) (admin : bool) : result :=
  if negb (has_user d name) then Er EUserNotFound
  else let us := upd_first (fun u => String.eqb (u_name u) name)
                           (fun u => Us (u_name u) (u_hash u) admin (u_privs u)) (d_users d) in
       Ok (set_users d us (has_admin us)).

(* ---------- commands and storeFSM.Apply ---------- *)

Inductive cmd :=
| CRemovePeer (addr : string)
| CCreateDatabase (name : string) (rp : option (string * N * Z * Z))   (* name, ReplicaN, Duration, ShardGroupDuration *)
| CDropDatabase (name : string)
| CCreateRetentionPolicy (db name : string) (rep : N) (dur sgd : Z) (dflt : bool)
| CDropRetentionPolicy (db name : string)
| CUpdateRetentionPolicy (db name : string) (new_name : option string) (dur : option Z)
                         (rep : option N) (sgd : option Z) (dflt : bool)
| CCreateShardGroup (db pol : string) (t : Z)
| CDeleteShardGroup (db pol : string) (id : N)
| CCreateContinuousQuery (db name q : string)
| CDropContinuousQuery (db name : string)
| CCreateSubscription (db pol name mode : string) (dests : list (string * bool))
| CDropSubscription (db pol name : string)
| CCreateUser (name hash : string) (admin : bool)
| CDropUser (name : string)
| CUpdateUser (name hash : string)
| CSetPrivilege (user db : string) (p : Z)
| CSetAdminPrivilege (user : string) (admin : bool)
| CCreateMetaNode (http tcp : string) (rand : N)
| CDeleteMetaNode (id : N)
| CSetMetaNode (http tcp : string) (rand : N)
| CCreateDataNode (http tcp : string)
| CDeleteDataNode (id : N)
| CUpdateDataNode (id : N) (http tcp : string)
| CDropShard (id : N)
| CTruncateShardGroups (t : Z)
| CPruneShardGroups
| CCopyShardOwner (id node : N)
| CRemoveShardOwner (id node : N).

(* internal.Command_Type of each modelled command *)
Definition cmd_type (c : cmd) : N :=
  match c with
  | CRemovePeer _ => 23 | CCreateDatabase _ _ => 3 | CDropDatabase _ => 4
  | CCreateRetentionPolicy _ _ _ _ _ _ => 5 | CDropRetentionPolicy _ _ => 6
  | CUpdateRetentionPolicy _ _ _ _ _ _ _ => 8 | CCreateShardGroup _ _ _ => 9
  | CDeleteShardGroup _ _ _ => 10 | CCreateContinuousQuery _ _ _ => 11
  | CDropContinuousQuery _ _ => 12 | CCreateSubscription _ _ _ _ _ => 21
  | CDropSubscription _ _ _ => 22 | CCreateUser _ _ _ => 13 | CDropUser _ => 14
  | CUpdateUser _ _ => 15 | CSetPrivilege _ _ _ => 16 | CSetAdminPrivilege _ _ => 18
  | CCreateMetaNode _ _ _ => 24 | CDeleteMetaNode _ => 27 | CSetMetaNode _ _ _ => 29
  | CCreateDataNode _ _ => 25 | CDeleteDataNode _ => 28 | CUpdateDataNode _ _ _ => 26
  | CDropShard _ => 30 | CTruncateShardGroups _ => 31 | CPruneShardGroups => 32
  | CCopyShardOwner _ _ => 33 | CRemoveShardOwner _ _ => 34
  end.
Definition modelled_types : list N :=
  [23; 3; 4; 5; 6; 8; 9; 10; 11; 12; 21; 22; 13; 14; 15; 16; 18; 24; 27; 29; 25; 28; 26; 30; 31; 32; 33; 34].
(* CreateNode, DeleteNode, SetData, UpdateNode *)
Definition excluded_types : list N := [1; 2; 17; 19].

Definition set_cluster_if_unset (d : data) (rand : N) : data :=
  if d_cluster d =? 0 then set_cluster d rand else d.

(* the apply*Command functions: clone, mutate the clone, install it only on success.
   [auto] is the node's config.RetentionAutoCreate; [expired] the prune oracle. *)
Definition exec (auto : bool) (expired : list N) (d : data) (c : cmd) : result :=
  match c with
  | CRemovePeer _ => Ok d        (* only talks to raft *)
  | CCreateDatabase name rp =>
      match create_database d name with
      | Er e => Er e
      | Ok d1 =>
          match rp with
          | Some (rn, rep, dur, sgd) =>
              match create_rp d1 name rn rep dur sgd true with
              | Er ERPExists => Er ERPConflict
              | r => r
              end
          | None =>
              if auto then
                let n := llen (d_nodes d1) in
                let rep := if c06_max_auto_replica <? n then c06_max_auto_replica else if n <? 1 then 1 else n in
                create_rp d1 name (string_of_bytes c06_default_rp_name) rep c06_default_rp_duration 0 true
              else Ok d1
          end
      end
  | CDropDatabase name => Ok (drop_database d name)
  | CCreateRetentionPolicy dbn name rep dur sgd dflt => create_rp d dbn name rep dur sgd dflt
  | CDropRetentionPolicy dbn name => Ok (drop_rp d dbn name)
  | CUpdateRetentionPolicy dbn name nn dur rep sgd dflt => update_rp d dbn name nn dur rep sgd dflt
  | CCreateShardGroup dbn pol t => create_shard_group d dbn pol t
  | CDeleteShardGroup dbn pol id => delete_shard_group d dbn pol id
  | CCreateContinuousQuery dbn name q => create_cq d dbn name q
  | CDropContinuousQuery dbn name => Ok (drop_cq d dbn name)
  | CCreateSubscription dbn pol name mode dests => create_sub d dbn pol name mode dests
  | CDropSubscription dbn pol name => drop_sub d dbn pol name
  | CCreateUser name hash admin => create_user d name hash admin
  | CDropUser name => drop_user d name
  | CUpdateUser name hash => update_user d name hash
  | CSetPrivilege u dbn p => set_privilege d u dbn p
  | CSetAdminPrivilege u a => set_admin_privilege d u a
  | CCreateMetaNode http tcp rand =>
      (* the error of CreateMetaNode is dropped by applyCreateMetaNodeCommand *)
      let d1 := match create_meta_node d http tcp with Ok d1 => d1 | Er _ => d end in
      Ok (set_cluster_if_unset d1 rand)
  | CDeleteMetaNode id => delete_meta_node d id
  | CSetMetaNode http tcp rand =>
      let d1 := match set_meta_node d http tcp with Ok d1 => d1 | Er _ => d end in
      Ok (set_cluster_if_unset d1 rand)
  | CCreateDataNode http tcp => create_data_node d http tcp
  | CDeleteDataNode id => delete_data_node d id
  | CUpdateDataNode id http tcp => update_data_node d id http tcp
  | CDropShard id => Ok (drop_shard d id)
  | CTruncateShardGroups t => Ok (map_groups (truncate_group t) d)
  | CPruneShardGroups => Ok (prune_groups expired d)
  | CCopyShardOwner id nid =>
      if has_node (d_nodes d) nid then Ok (copy_shard_owner d id nid) else Er ENodeNotFound
  | CRemoveShardOwner id nid => Ok (remove_shard_owner d id nid)
  end.

(* storeFSM.Apply: Term and Index are stamped on whatever value is current afterwards *)
Definition apply (auto : bool) (expired : list N) (d : data) (idx term : N) (c : cmd) : data * err :=
  match exec auto expired d c with
  | Ok d' => (stamp d' idx term, ENone)
  | Er e => (stamp d idx term, e)
  end.

(* one log entry as seen by one replica *)
Record entry := En { e_idx : N; e_term : N; e_cmd : cmd }.

(* a replica applies the log [es]; [orc k] is its prune oracle for entry number k *)
Fixpoint run_from (auto : bool) (orc : nat -> list N) (k : nat) (d : data) (es : list entry) : data :=
  match es with
  | [] => d
  | e :: t => run_from auto orc (S k) (fst (apply auto (orc k) d (e_idx e) (e_term e) (e_cmd e))) t
  end.
Definition run (auto : bool) (orc : nat -> list N) (es : list entry) : data := run_from auto orc 0 init_data es.

(* ---------- the observable ---------- *)

(* what the property calls the cluster metadata: everything except shard groups that are
   marked deleted (those carry wall-clock stamps and disappear at replica-local times) *)
Definition live_groups (l : list group) : list group := filter (fun g => negb (g_deleted g)) l.
Definition canon (d : data) : data :=
  set_dbs d (map (fun x => db_set_rps x (map (fun r => rp_set_groups r (live_groups (rp_groups r))) (db_rps x))) (d_dbs d)).
