(* C06/Inv.v — the invariant of the metadata value and the machinery to carry it through
   commands: a command is shown to relate the list of policy views (ShardGroupDuration,
   shard groups) before and after by [pstruct]; [Inv_pstruct] then re-establishes the
   invariant. *)
From Verif Require Import C06.Model C06.Eqb C06.Spec C06.ListLemmas.
From Coq Require Import Lia Permutation.
From Coq Require Import ZifyBool ZifyNat ZifyN.
Open Scope N_scope.

(* ---------- views ---------- *)

Definition pview (r : policy) : Z * list group := (rp_sgdur r, rp_groups r).
Definition rviews (x : database) : list (Z * list group) := map pview (db_rps x).
Definition views (d : data) : list (Z * list group) := flat_map rviews (d_dbs d).
Definition vgroups (vs : list (Z * list group)) : list group := flat_map snd vs.

Definition gids (l : list group) : list N := map g_id l.
Definition gshards (l : list group) : list shard := flat_map g_shards l.
Definition sids (l : list group) : list N := map s_id (gshards l).

Lemma all_policies_views d : map pview (all_policies d) = views d.
Proof.
  unfold all_policies, views, rviews. induction (d_dbs d); cbn; auto.
  rewrite map_app, IHl. reflexivity.
Qed.

Lemma all_groups_views d : all_groups d = vgroups (views d).
Proof.
  unfold all_groups, vgroups, views, rviews. induction (d_dbs d) as [|x l IH]; cbn; auto.
  rewrite flat_map_app, IH. f_equal.
  induction (db_rps x); cbn; auto. rewrite IHl0. reflexivity.
Qed.

Lemma group_ids_views d : group_ids d = gids (vgroups (views d)).
Proof. unfold group_ids. rewrite all_groups_views. reflexivity. Qed.
Lemma shard_ids_views d : shard_ids d = sids (vgroups (views d)).
Proof. unfold shard_ids, all_shards. rewrite all_groups_views. reflexivity. Qed.
Lemma all_shards_views d : all_shards d = gshards (vgroups (views d)).
Proof. unfold all_shards. rewrite all_groups_views. reflexivity. Qed.

(* ---------- the invariant ---------- *)

Definition own_ok (ns : list N) (s : shard) : Prop := NoDup (s_owners s) /\ incl (s_owners s) ns.
Definition range_ok (g : group) : Prop :=
  (g_start g <= g_end g)%Z /\ forall t, g_trunc g = Some t -> (g_start g <= t <= g_end g)%Z.
Definition live (g : group) : Prop := g_deleted g = false.
Definition disj (a b : group) : Prop := (g_hi a <= g_start b)%Z \/ (g_hi b <= g_start a)%Z.
Definition pol_ok (l : list group) : Prop :=
  (forall g, In g l -> range_ok g) /\
  (forall a b, In a l -> In b l -> g_id a <> g_id b -> live a -> live b -> disj a b).
Definition view_ok (v : Z * list group) : Prop := (0 < fst v)%Z /\ pol_ok (snd v).

Record Inv (d : data) : Prop := {
  inv_nodes_nodup : NoDup (node_ids d);
  inv_nodes_range : forall i, In i (node_ids d) -> 1 <= i <= d_max_node d;
  inv_meta_range : forall n, In n (d_meta d) -> n_id n <= d_max_node d;
  inv_gids : NoDup (gids (vgroups (views d)));
  inv_gids_max : forall i, In i (gids (vgroups (views d))) -> i <= d_max_group d;
  inv_sids : NoDup (sids (vgroups (views d)));
  inv_sids_max : forall i, In i (sids (vgroups (views d))) -> i <= d_max_shard d;
  inv_owners : forall s, In s (gshards (vgroups (views d))) -> own_ok (node_ids d) s;
  inv_views : Forall view_ok (views d)
}.

Lemma Inv_init : Inv init_data.
Proof.
  constructor; cbn; try constructor; try (intros; contradiction).
Qed.

(* ---------- relations between the groups before and after a command ---------- *)

Section Rel.
  Variables ns ns' : list N.   (* data node IDs before / after *)

  Definition grel (g g' : group) : Prop :=
    g_id g' = g_id g /\ g_start g' = g_start g /\ g_end g' = g_end g /\
    (g_deleted g = true -> g_deleted g' = true) /\
    (range_ok g -> range_ok g' /\ (g_hi g' <= g_hi g)%Z) /\
    subl (map s_id (g_shards g')) (map s_id (g_shards g)) /\
    (NoDup (map s_id (g_shards g)) -> (forall s, In s (g_shards g) -> own_ok ns s) ->
     forall s', In s' (g_shards g') -> own_ok ns' s').

  (* one policy: some groups disappear, the others are related by grel *)
  Definition prel (l l' : list group) : Prop := exists m, subl m l /\ Forall2 grel m l'.

  Definition vrel (v v' : Z * list group) : Prop :=
    ((0 < fst v)%Z -> (0 < fst v')%Z) /\ prel (snd v) (snd v').

  Inductive pstruct : list (Z * list group) -> list (Z * list group) -> Prop :=
  | ps_nil : pstruct [] []
  | ps_drop v vs vs' : pstruct vs vs' -> pstruct (v :: vs) vs'
  | ps_ins sg vs vs' : (0 < sg)%Z -> pstruct vs vs' -> pstruct vs ((sg, []) :: vs')
  | ps_keep v v' vs vs' : vrel v v' -> pstruct vs vs' -> pstruct (v :: vs) (v' :: vs').

  Hypothesis ns_incl : incl ns ns'.

  Lemma own_ok_mono s : own_ok ns s -> own_ok ns' s.
  Proof. intros [H1 H2]; split; auto. eapply incl_tran; eauto. Qed.

  Lemma grel_refl g : grel g g.
  Proof.
    unfold grel. split; [reflexivity|]. split; [reflexivity|]. split; [reflexivity|].
    split; [auto|]. split; [intros H; split; [exact H|lia]|]. split; [apply subl_refl|].
    intros _ H s' Hs'. apply own_ok_mono, H, Hs'.
  Qed.

  Lemma Forall2_grel_refl l : Forall2 grel l l.
  Proof. induction l; constructor; auto using grel_refl. Qed.

  Lemma prel_refl l : prel l l.
  Proof. exists l; split; auto using Forall2_grel_refl. Qed.

  Lemma prel_subl l' l : subl l' l -> prel l l'.
  Proof. intros H; exists l'; split; auto using Forall2_grel_refl. Qed.

  Lemma vrel_refl v : vrel v v.
  Proof. split; auto using prel_refl. Qed.

  Lemma pstruct_refl vs : pstruct vs vs.
  Proof. induction vs; [apply ps_nil|apply ps_keep; auto using vrel_refl]. Qed.

  Lemma pstruct_drop_all vs : pstruct vs [].
  Proof. induction vs; [apply ps_nil|apply ps_drop; auto]. Qed.
End Rel.

Lemma pstruct_app ns ns' a a' b b' :
  pstruct ns ns' a a' -> pstruct ns ns' b b' -> pstruct ns ns' (a ++ b) (a' ++ b').
Proof. induction 1; cbn; intros Hb; [exact Hb|apply ps_drop; auto|apply ps_ins; auto|apply ps_keep; auto]. Qed.

(* ---------- consequences of the relations ---------- *)

Lemma Forall2_grel_gids ns ns' m l' : Forall2 (grel ns ns') m l' -> gids l' = gids m.
Proof. unfold gids. induction 1; cbn; auto. destruct H as [H _]. rewrite H, IHForall2. reflexivity. Qed.

Lemma Forall2_grel_sids ns ns' m l' : Forall2 (grel ns ns') m l' -> subl (sids l') (sids m).
Proof.
  unfold sids, gshards. induction 1; cbn; auto.
  rewrite !map_app. apply subl_app; auto. apply H.
Qed.

Lemma prel_gids ns ns' l l' : prel ns ns' l l' -> subl (gids l') (gids l).
Proof. intros [m [Hs Hf]]. rewrite (Forall2_grel_gids _ _ _ _ Hf). apply subl_map; auto. Qed.

Lemma prel_sids ns ns' l l' : prel ns ns' l l' -> subl (sids l') (sids l).
Proof.
  intros [m [Hs Hf]]. eapply subl_trans; [eapply Forall2_grel_sids; eauto|].
  unfold sids, gshards. apply subl_map, subl_flat_map; auto.
Qed.

Lemma Forall2_in_r {A B} (R : A -> B -> Prop) l l' y :
  Forall2 R l l' -> In y l' -> exists x, In x l /\ R x y.
Proof.
  induction 1; cbn; intros Hi; [contradiction|]. destruct Hi as [->|Hi].
  - eauto.
  - destruct (IHForall2 Hi) as [x0 [? ?]]; eauto.
Qed.

Lemma prel_in ns ns' l l' g' :
  prel ns ns' l l' -> In g' l' -> exists g, In g l /\ grel ns ns' g g'.
Proof.
  intros [m [Hs Hf]] Hi. destruct (Forall2_in_r _ _ _ _ Hf Hi) as [g [Hg Hr]].
  exists g; split; auto. eapply subl_in; eauto.
Qed.

Lemma grel_live ns ns' g g' : grel ns ns' g g' -> live g' -> live g.
Proof.
  intros (_ & _ & _ & Hd & _) Hl. unfold live in *. destruct (g_deleted g); auto.
  rewrite Hd in Hl; auto.
Qed.

Lemma prel_pol_ok ns ns' l l' : prel ns ns' l l' -> pol_ok l -> pol_ok l'.
Proof.
  intros Hp [Hr Hd]. split.
  - intros g' Hi. destruct (prel_in _ _ _ _ _ Hp Hi) as [g [Hg Hrel]].
    apply Hrel; auto.
  - intros a' b' Ha Hb Hne La Lb.
    destruct (prel_in _ _ _ _ _ Hp Ha) as [a [Hia Hra]].
    destruct (prel_in _ _ _ _ _ Hp Hb) as [b [Hib Hrb]].
    assert (Hda : disj a b).
    { apply Hd; auto.
      - destruct Hra as [E1 _], Hrb as [E2 _]. rewrite E1, E2 in Hne. auto.
      - eapply grel_live; eauto.
      - eapply grel_live; eauto. }
    destruct Hra as (_ & Hsa & _ & _ & Hra & _). destruct Hrb as (_ & Hsb & _ & _ & Hrb & _).
    destruct (Hra (Hr _ Hia)) as [_ Ha']. destruct (Hrb (Hr _ Hib)) as [_ Hb'].
    unfold disj in *. rewrite Hsa, Hsb. lia.
Qed.

Lemma NoDup_sids_group l g : NoDup (sids l) -> In g l -> NoDup (map s_id (g_shards g)).
Proof.
  unfold sids, gshards. induction l; cbn; intros Hn Hi; [contradiction|].
  rewrite map_app in Hn. apply NoDup_app_inv in Hn. destruct Hn as (Ha & Hb & _).
  destruct Hi as [->|Hi]; auto.
Qed.

Lemma prel_owners ns ns' l l' :
  prel ns ns' l l' -> NoDup (sids l) -> (forall s, In s (gshards l) -> own_ok ns s) ->
  forall s', In s' (gshards l') -> own_ok ns' s'.
Proof.
  intros Hp Hn Ho s' Hi. unfold gshards in Hi. apply in_flat_map in Hi. destruct Hi as [g' [Hg' Hs']].
  destruct (prel_in _ _ _ _ _ Hp Hg') as [g [Hg Hrel]].
  destruct Hrel as (_ & _ & _ & _ & _ & _ & Hown). apply (Hown) with (s' := s'); auto.
  - eapply NoDup_sids_group; eauto.
  - intros s Hs. apply Ho. unfold gshards. apply in_flat_map. eauto.
Qed.

Lemma pstruct_gids ns ns' vs vs' :
  pstruct ns ns' vs vs' -> subl (gids (vgroups vs')) (gids (vgroups vs)).
Proof.
  unfold vgroups, gids. induction 1; cbn; auto.
  - rewrite map_app. eapply subl_trans; [apply IHpstruct|apply subl_app_r].
  - rewrite !map_app. apply subl_app; auto. destruct H as [_ H]. eapply prel_gids; eauto.
Qed.

Lemma pstruct_sids ns ns' vs vs' :
  pstruct ns ns' vs vs' -> subl (sids (vgroups vs')) (sids (vgroups vs)).
Proof.
  unfold vgroups, sids, gshards. induction 1; cbn; auto.
  - rewrite flat_map_app, map_app. eapply subl_trans; [apply IHpstruct|apply subl_app_r].
  - rewrite !flat_map_app, !map_app. apply subl_app; auto. destruct H as [_ H].
    apply (prel_sids _ _ _ _ H).
Qed.

Lemma pstruct_views_ok ns ns' vs vs' :
  pstruct ns ns' vs vs' -> Forall view_ok vs -> Forall view_ok vs'.
Proof.
  induction 1; intros Hf; auto.
  - inversion Hf; auto.
  - constructor; auto. split; cbn; auto. split; intros; contradiction.
  - inversion Hf as [|? ? Hv Hrest]; subst. constructor; auto. destruct H as [Ha Hb], Hv as [Hc Hd].
    split; auto. eapply prel_pol_ok; eauto.
Qed.

Lemma sids_app a b : sids (a ++ b) = sids a ++ sids b.
Proof. unfold sids, gshards. rewrite flat_map_app, map_app. reflexivity. Qed.
Lemma gshards_app a b : gshards (a ++ b) = gshards a ++ gshards b.
Proof. unfold gshards. apply flat_map_app. Qed.

Lemma vgroups_cons v vs : vgroups (v :: vs) = snd v ++ vgroups vs.
Proof. reflexivity. Qed.

Lemma pstruct_owners ns ns' vs vs' :
  pstruct ns ns' vs vs' -> NoDup (sids (vgroups vs)) ->
  (forall s, In s (gshards (vgroups vs)) -> own_ok ns s) ->
  forall s', In s' (gshards (vgroups vs')) -> own_ok ns' s'.
Proof.
  induction 1; intros Hn Ho s' Hi.
  - contradiction.
  - rewrite vgroups_cons, sids_app in Hn. apply NoDup_app_inv in Hn. destruct Hn as (_ & Hn & _).
    apply IHpstruct; auto. intros s Hs. apply Ho. rewrite vgroups_cons, gshards_app. apply in_or_app; auto.
  - rewrite vgroups_cons in Hi. cbn [snd app] in Hi. apply IHpstruct; auto.
  - rewrite vgroups_cons, sids_app in Hn. apply NoDup_app_inv in Hn. destruct Hn as (Hn1 & Hn2 & _).
    rewrite vgroups_cons, gshards_app in Hi. apply in_app_or in Hi. destruct Hi as [Hi|Hi].
    + destruct H as [_ H]. eapply (prel_owners _ _ _ _ H); eauto.
      intros s Hs. apply Ho. rewrite vgroups_cons, gshards_app. apply in_or_app; auto.
    + apply IHpstruct; auto. intros s Hs. apply Ho. rewrite vgroups_cons, gshards_app. apply in_or_app; auto.
Qed.

(* a command that relates the views by pstruct, keeps the node facts and does not lower
   the counters preserves the invariant *)
Lemma Inv_pstruct d d' :
  Inv d ->
  NoDup (node_ids d') ->
  (forall i, In i (node_ids d') -> 1 <= i <= d_max_node d') ->
  (forall n, In n (d_meta d') -> n_id n <= d_max_node d') ->
  d_max_group d <= d_max_group d' -> d_max_shard d <= d_max_shard d' ->
  pstruct (node_ids d) (node_ids d') (views d) (views d') ->
  Inv d'.
Proof.
  intros I Hn1 Hn2 Hn3 Hg Hs Hp. constructor; auto.
  - eapply subl_NoDup; [eapply pstruct_gids; eauto|apply I].
  - intros i Hi. eapply subl_in in Hi; [|eapply pstruct_gids; eauto]. apply (inv_gids_max _ I) in Hi. lia.
  - eapply subl_NoDup; [eapply pstruct_sids; eauto|apply I].
  - intros i Hi. eapply subl_in in Hi; [|eapply pstruct_sids; eauto]. apply (inv_sids_max _ I) in Hi. lia.
  - eapply pstruct_owners; eauto; apply I.
  - eapply pstruct_views_ok; eauto. apply I.
Qed.

(* ---------- lifting relations through the database / policy lists ---------- *)

Lemma views_Forall2 ns ns' dbs dbs' :
  Forall2 (fun x y => pstruct ns ns' (rviews x) (rviews y)) dbs dbs' ->
  pstruct ns ns' (flat_map rviews dbs) (flat_map rviews dbs').
Proof. induction 1; cbn; [constructor|]. apply pstruct_app; auto. Qed.

Lemma rviews_Forall2 ns ns' rps rps' :
  Forall2 (fun r r' => vrel ns ns' (pview r) (pview r')) rps rps' ->
  pstruct ns ns' (map pview rps) (map pview rps').
Proof. induction 1; cbn; [apply ps_nil|apply ps_keep; auto]. Qed.

Lemma pstruct_remove_first {A} ns ns' (f : A -> list (Z * list group)) p l :
  incl ns ns' -> pstruct ns ns' (flat_map f l) (flat_map f (remove_first p l)).
Proof.
  intros Hi. induction l; cbn; [constructor|]. destruct (p a).
  - change (flat_map f l) with ([] ++ flat_map f l) at 2.
    apply pstruct_app; [apply pstruct_drop_all|apply pstruct_refl; auto].
  - cbn. apply pstruct_app; [apply pstruct_refl; auto|auto].
Qed.

Lemma pstruct_snoc ns ns' vs sg : incl ns ns' -> (0 < sg)%Z -> pstruct ns ns' vs (vs ++ [(sg, [])]).
Proof.
  intros Hi Hs. rewrite <- (app_nil_r vs) at 1. apply pstruct_app; [apply pstruct_refl; auto|].
  apply ps_ins; auto. apply ps_nil.
Qed.

Lemma Forall2_impl_ {A B} (R R' : A -> B -> Prop) l l' :
  (forall x y, R x y -> R' x y) -> Forall2 R l l' -> Forall2 R' l l'.
Proof. intros H; induction 1; constructor; auto. Qed.

Lemma Forall2_map_r {A B} (R : A -> B -> Prop) (f : A -> B) l :
  (forall x, R x (f x)) -> Forall2 R l (map f l).
Proof. intros H; induction l; cbn; constructor; auto. Qed.
