(* C06/ListLemmas.v — generic list facts used by the C06 proofs: sublists, NoDup,
   the first-match update combinators of Model.v, reflection of the boolean checkers. *)
From Verif Require Import C06.Model C06.Eqb C06.Spec.
From Coq Require Import Lia Permutation.
From Coq Require Import ZifyBool ZifyNat ZifyN.
Open Scope N_scope.

(* ---------- sublists ---------- *)

Inductive subl {A} : list A -> list A -> Prop :=
| subl_nil : subl [] []
| subl_drop x l' l : subl l' l -> subl l' (x :: l)
| subl_keep x l' l : subl l' l -> subl (x :: l') (x :: l).
#[export] Hint Constructors subl : core.

Lemma subl_refl {A} (l : list A) : subl l l.
Proof. induction l; auto. Qed.
Lemma subl_nil_l {A} (l : list A) : subl [] l.
Proof. induction l; auto. Qed.
#[export] Hint Resolve subl_refl subl_nil_l : core.

Lemma subl_in {A} (l' l : list A) x : subl l' l -> In x l' -> In x l.
Proof. induction 1; cbn; intuition. Qed.

Lemma subl_trans {A} (a b c : list A) : subl a b -> subl b c -> subl a c.
Proof.
  intros Hab Hbc; revert a Hab; induction Hbc; intros a Hab.
  - inversion Hab; auto.
  - auto.
  - inversion Hab; subst; auto.
Qed.

Lemma subl_app {A} (a a' b b' : list A) : subl a' a -> subl b' b -> subl (a' ++ b') (a ++ b).
Proof. induction 1; cbn; auto. Qed.

Lemma subl_map {A B} (f : A -> B) l' l : subl l' l -> subl (map f l') (map f l).
Proof. induction 1; cbn; auto. Qed.

Lemma subl_flat_map {A B} (f : A -> list B) l' l : subl l' l -> subl (flat_map f l') (flat_map f l).
Proof.
  induction 1; cbn; auto.
  - change (flat_map f l') with ([] ++ flat_map f l'). apply subl_app; auto.
  - apply subl_app; auto.
Qed.

Lemma subl_filter {A} (p : A -> bool) l : subl (filter p l) l.
Proof. induction l; cbn; auto. destruct (p a); auto. Qed.

Lemma subl_NoDup {A} (l' l : list A) : subl l' l -> NoDup l -> NoDup l'.
Proof.
  induction 1; intros Hn; auto.
  - inversion Hn; auto.
  - inversion Hn; subst. constructor; auto. intro Hi. eapply subl_in in Hi; eauto.
Qed.

Lemma subl_remove_first {A} (p : A -> bool) l : subl (remove_first p l) l.
Proof. induction l; cbn; auto. destruct (p a); auto. Qed.

Lemma subl_remove_last {A} (p : A -> bool) l : subl (remove_last p l) l.
Proof. induction l; cbn; auto. destruct (existsb p l); auto. destruct (p a); auto. Qed.

Lemma subl_app_l {A} (a b : list A) : subl a (a ++ b).
Proof. rewrite <- (app_nil_r a) at 1. apply subl_app; auto. Qed.
Lemma subl_app_r {A} (a b : list A) : subl b (a ++ b).
Proof. change b with ([] ++ b) at 1. apply subl_app; auto. Qed.

(* ---------- reflection of the boolean checkers ---------- *)

Lemma memN_In x l : memN x l = true <-> In x l.
Proof.
  unfold memN. rewrite existsb_exists. split.
  - intros [y [Hy He]]. apply N.eqb_eq in He. subst; auto.
  - intros H. exists x. split; auto. apply N.eqb_refl.
Qed.
Lemma memN_false x l : memN x l = false <-> ~ In x l.
Proof. rewrite <- memN_In. destruct (memN x l); intuition congruence. Qed.

Lemma nodup_b_NoDup l : nodup_b l = true <-> NoDup l.
Proof.
  induction l as [|x l IH]; cbn.
  - split; auto. constructor.
  - rewrite andb_true_iff, negb_true_iff, memN_false, IH. split.
    + intros [? ?]; constructor; auto.
    + inversion 1; auto.
Qed.

(* ---------- first-match combinators ---------- *)

Lemma upd_first_map_inv {A B} (g : A -> B) p f (l : list A) :
  (forall x, g (f x) = g x) -> map g (upd_first p f l) = map g l.
Proof. intros H; induction l; cbn; auto. destruct (p a); cbn; congruence. Qed.

Lemma upd_first_length {A} p (f : A -> A) l : List.length (upd_first p f l) = List.length l.
Proof. induction l; cbn; auto. destruct (p a); cbn; auto. Qed.

Lemma upd_first_Forall2 {A} p (f : A -> A) l :
  Forall2 (fun x y => y = x \/ y = f x) l (upd_first p f l).
Proof.
  induction l; cbn; auto. destruct (p a); constructor; auto.
  clear. induction l; constructor; auto.
Qed.

Lemma upd_first_opt_Forall2 {A} (f : A -> option A) l l' :
  upd_first_opt f l = Some l' -> Forall2 (fun x y => y = x \/ f x = Some y) l l'.
Proof.
  revert l'; induction l; cbn; intros l' H; [discriminate|].
  destruct (f a) eqn:E.
  - inversion H; subst. constructor; auto. clear. induction l; constructor; auto.
  - destruct (upd_first_opt f l); [|discriminate]. inversion H; subst. constructor; auto.
Qed.

Lemma map_opt_Forall2 {A B} (f : A -> option B) l l' :
  map_opt f l = Some l' -> Forall2 (fun x y => f x = Some y) l l'.
Proof.
  revert l'; induction l; cbn; intros l' H.
  - inversion H; constructor.
  - destruct (f a) eqn:E; [|discriminate]. destruct (map_opt f l); [|discriminate].
    inversion H; subst. constructor; auto.
Qed.

Lemma find_some_in {A} (p : A -> bool) l x : find p l = Some x -> In x l /\ p x = true.
Proof. apply find_some. Qed.

Lemma existsb_find {A} (p : A -> bool) l : existsb p l = true <-> exists x, find p l = Some x.
Proof.
  induction l; cbn.
  - split; [discriminate|intros [x H]; discriminate].
  - destruct (p a); cbn; [split; eauto|auto].
Qed.

Lemma Forall2_refl_eq {A} (l : list A) : Forall2 eq l l.
Proof. induction l; constructor; auto. Qed.

Lemma flat_map_app_ {A B} (f : A -> list B) a b : flat_map f (a ++ b) = flat_map f a ++ flat_map f b.
Proof. apply flat_map_app. Qed.

Lemma flat_map_flat_map {A B C} (f : B -> list C) (g : A -> list B) l :
  flat_map f (flat_map g l) = flat_map (fun x => flat_map f (g x)) l.
Proof. induction l; cbn; auto. rewrite flat_map_app, IHl. reflexivity. Qed.

Lemma in_flat_map_ {A B} (f : A -> list B) l y : In y (flat_map f l) <-> exists x, In x l /\ In y (f x).
Proof. apply in_flat_map. Qed.

Lemma NoDup_app_inv {A} (a b : list A) :
  NoDup (a ++ b) -> NoDup a /\ NoDup b /\ (forall x, In x a -> In x b -> False).
Proof.
  induction a; cbn; intros H.
  - repeat split; auto. constructor.
  - inversion H; subst. destruct (IHa H3) as [Ha [Hb Hd]]. repeat split; auto.
    + constructor; auto. intro; apply H2, in_or_app; auto.
    + intros x [->|Hx] Hxb; [apply H2, in_or_app; auto|eauto].
Qed.

Lemma NoDup_app_intro {A} (a b : list A) :
  NoDup a -> NoDup b -> (forall x, In x a -> In x b -> False) -> NoDup (a ++ b).
Proof.
  induction a; cbn; intros Ha Hb Hd; auto.
  inversion Ha; subst. constructor.
  - intro Hi. apply in_app_or in Hi. destruct Hi; [auto|eapply Hd; eauto].
  - apply IHa; auto. intros; eapply Hd; eauto.
Qed.
