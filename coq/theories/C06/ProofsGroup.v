(* C06/ProofsGroup.v — what each operation does to ONE shard group / ONE policy's group
   list, as instances of Inv.grel / Inv.prel. *)
From Verif Require Import C06.Model C06.Eqb C06.Spec C06.ListLemmas C06.Inv.
From Coq Require Import Lia Permutation.
From Coq Require Import ZifyBool ZifyNat ZifyN.
Open Scope N_scope.

Lemma g_hi_notrunc g : g_trunc g = None -> g_hi g = g_end g.
Proof. unfold g_hi. intros ->. reflexivity. Qed.

(* grel when only deleted flag / shards / trunc change: a builder *)
Lemma grel_build ns ns' g g' :
  g_id g' = g_id g -> g_start g' = g_start g -> g_end g' = g_end g ->
  (g_deleted g = true -> g_deleted g' = true) ->
  (range_ok g -> range_ok g' /\ (g_hi g' <= g_hi g)%Z) ->
  subl (map s_id (g_shards g')) (map s_id (g_shards g)) ->
  (NoDup (map s_id (g_shards g)) -> (forall s, In s (g_shards g) -> own_ok ns s) ->
   forall s', In s' (g_shards g') -> own_ok ns' s') ->
  grel ns ns' g g'.
Proof. unfold grel. intuition. Qed.

Lemma range_same g g' :
  g_start g' = g_start g -> g_end g' = g_end g -> g_trunc g' = g_trunc g ->
  range_ok g -> range_ok g' /\ (g_hi g' <= g_hi g)%Z.
Proof.
  intros Hs He Ht [H1 H2]. unfold range_ok, g_hi. rewrite Hs, He, Ht. split; [split; auto|lia].
Qed.

Section SameNodes.
  Variables ns ns' : list N.
  Hypothesis Hincl : incl ns ns'.

  Lemma own_mono s : own_ok ns s -> own_ok ns' s.
  Proof. apply own_ok_mono; auto. Qed.

  (* --- g_set_deleted --- *)
  Lemma grel_set_deleted g : grel ns ns' g (g_set_deleted g).
  Proof.
    apply grel_build; cbn; auto.
    - apply range_same; reflexivity.
    - intros _ H s' Hs'. apply own_mono; auto.
  Qed.

  (* --- truncate_group --- *)
  Lemma grel_truncate t g : grel ns ns' g (truncate_group t g).
  Proof.
    unfold truncate_group.
    destruct ((g_end g <=? t)%Z || g_deleted g ||
              match g_trunc g with Some ta => (ta <? t)%Z | None => false end) eqn:E.
    - apply grel_refl; auto.
    - apply orb_false_iff in E. destruct E as [E E3]. apply orb_false_iff in E. destruct E as [E1 E2].
      assert (Ht : (t < g_end g)%Z) by lia.
      destruct (t <=? g_start g)%Z eqn:E4; apply grel_build; cbn; auto;
        try (intros _ H s' Hs'; apply own_mono; auto).
      + intros [R1 R2]. unfold range_ok, g_hi; cbn. split.
        * split; auto. intros t0 Ht0. inversion Ht0; subst. lia.
        * destruct (g_trunc g) as [ta|] eqn:Eta; [specialize (R2 _ eq_refl)|]; lia.
      + intros [R1 R2]. unfold range_ok, g_hi; cbn. split.
        * split; auto. intros t0 Ht0. inversion Ht0; subst. lia.
        * destruct (g_trunc g) as [ta|] eqn:Eta; [specialize (R2 _ eq_refl)|]; lia.
  Qed.

  (* --- remove_shard_from --- *)
  Lemma grel_remove_shard id g : grel ns ns' g (remove_shard_from id g).
  Proof.
    unfold remove_shard_from.
    assert (Hc : grel ns ns' g (g_set_shards g (remove_first (fun s => s_id s =? id) (g_shards g)))).
    { apply grel_build; cbn; auto.
      - apply range_same; reflexivity.
      - apply subl_map, subl_remove_first.
      - intros _ H s' Hs'. apply own_mono, H. eapply subl_in; [apply subl_remove_first|eauto]. }
    destruct (List.length (g_shards g) =? 1)%nat; auto.
    destruct Hc as (H1 & H2 & H3 & H4 & H5 & H6 & H7).
    apply grel_build; cbn; auto.
  Qed.

  (* --- CopyShardOwner on one group --- *)
  Lemma insert_owner_In n l x : In x (insert_owner n l) <-> x = n \/ In x l.
  Proof.
    induction l; cbn; [intuition|]. destruct (n <? a); cbn; [intuition|]. rewrite IHl. intuition.
  Qed.
  Lemma insert_owner_NoDup n l : ~ In n l -> NoDup l -> NoDup (insert_owner n l).
  Proof.
    induction l; cbn; intros Hn Hd.
    - constructor; auto.
    - destruct (n <? a).
      + constructor; auto.
      + inversion Hd; subst. constructor.
        * rewrite insert_owner_In. intuition.
        * apply IHl; auto.
  Qed.

  Lemma grel_copy_owner id nid g :
    In nid ns' ->
    grel ns ns' g (g_set_shards g (upd_first (fun s => s_id s =? id)
                      (fun s => if memN nid (s_owners s) then s
                                else s_set_owners s (insert_owner nid (s_owners s))) (g_shards g))).
  Proof.
    intros Hnid. apply grel_build; cbn; auto.
    - apply range_same; reflexivity.
    - rewrite upd_first_map_inv; auto. intros x. destruct (memN nid (s_owners x)); reflexivity.
    - intros _ H s' Hs'.
      destruct (Forall2_in_r _ _ _ _ (upd_first_Forall2 _ _ _) Hs') as [s [Hs [->| ->]]].
      + apply own_mono; auto.
      + destruct (memN nid (s_owners s)) eqn:E; [apply own_mono; auto|].
        apply memN_false in E. destruct (H _ Hs) as [Hd Hi]. split; cbn.
        * apply insert_owner_NoDup; auto.
        * intros x Hx. apply insert_owner_In in Hx. destruct Hx as [->|Hx]; auto.
  Qed.

  (* --- RemoveShardOwner on one group --- *)
  Lemma grel_remove_owner id nid g :
    grel ns ns' g
      (match find (fun s => s_id s =? id) (g_shards g) with
       | None => g
       | Some s =>
           match remove_first (N.eqb nid) (s_owners s) with
           | [] => remove_shard_from id g
           | o :: os => g_set_shards g (upd_first (fun s => s_id s =? id)
                                          (fun s0 => s_set_owners s0 (o :: os)) (g_shards g))
           end
       end).
  Proof.
    destruct (find (fun s => s_id s =? id) (g_shards g)) as [s|] eqn:Ef; [|apply grel_refl; auto].
    destruct (remove_first (N.eqb nid) (s_owners s)) as [|o os] eqn:Er; [apply grel_remove_shard|].
    apply grel_build; cbn; auto.
    - apply range_same; reflexivity.
    - rewrite upd_first_map_inv; auto.
    - intros _ H s' Hs'.
      destruct (Forall2_in_r _ _ _ _ (upd_first_Forall2 _ _ _) Hs') as [s0 [Hs0 [->| ->]]].
      + apply own_mono; auto.
      + apply find_some in Ef. destruct Ef as [Hin _]. destruct (H _ Hin) as [Hd Hi].
        rewrite <- Er. split; cbn.
        * eapply subl_NoDup; [apply subl_remove_first|auto].
        * intros x Hx. apply Hincl, Hi. eapply subl_in; [apply subl_remove_first|eauto].
  Qed.

  (* --- policy level --- *)
  Lemma prel_upd_first p h l : (forall g, grel ns ns' g (h g)) -> prel ns ns' l (upd_first p h l).
  Proof.
    intros H. exists l; split; auto.
    eapply Forall2_impl_; [|apply upd_first_Forall2].
    intros x y [->| ->]; auto using grel_refl.
  Qed.

  Lemma prel_map h l : (forall g, grel ns ns' g (h g)) -> prel ns ns' l (map h l).
  Proof. intros H. exists l; split; auto. apply Forall2_map_r; auto. Qed.

  Lemma prel_upd_first_opt (q : group -> bool) h l l' :
    (forall g, grel ns ns' g (h g)) ->
    upd_first_opt (fun g => if q g then Some (h g) else None) l = Some l' -> prel ns ns' l l'.
  Proof.
    intros H E. exists l; split; auto.
    eapply Forall2_impl_; [|eapply upd_first_opt_Forall2; eauto].
    intros x y [->|Hy]; auto using grel_refl. cbn in Hy. destruct (q x); inversion Hy; auto.
  Qed.

  Lemma prel_filter q l : prel ns ns' l (filter q l).
  Proof. apply prel_subl; auto. apply subl_filter. Qed.
End SameNodes.

(* ---------- DeleteDataNode on one shard group ---------- *)

Lemma remove_last_notin x l : NoDup l -> ~ In x (remove_last (N.eqb x) l).
Proof.
  induction l as [|a t IH]; cbn; intros Hd; auto. inversion Hd; subst.
  destruct (existsb (N.eqb x) t) eqn:E.
  - apply existsb_exists in E. destruct E as [y [Hy Hxy]]. apply N.eqb_eq in Hxy. subst y.
    intros [->|Hi]; [contradiction|]. apply IH; auto.
  - assert (Hn : ~ In x t).
    { intro Hi. assert (existsb (N.eqb x) t = true); [|congruence].
      apply existsb_exists. exists x; split; auto. apply N.eqb_refl. }
    destruct (N.eqb x a) eqn:Ea; auto.
    apply N.eqb_neq in Ea. intros [->|Hi]; auto.
Qed.

Lemma freq_incr_keys k m x : In x (map fst (freq_incr k m)) <-> x = k \/ In x (map fst m).
Proof.
  induction m as [|[k' c] t IH]; cbn; [intuition|].
  destruct (k' =? k) eqn:E; cbn.
  - apply N.eqb_eq in E. subst. intuition.
  - rewrite IH. intuition.
Qed.

Lemma freq_min_in m k c : freq_min m = Some (k, c) -> In k (map fst m).
Proof.
  revert k c; induction m as [|[k' c'] t IH]; cbn; intros k c H; [discriminate|].
  destruct (freq_min t) as [[k2 c2]|] eqn:E.
  - destruct ((c' <? c2) || (c' =? c2) && (k' <? k2)); inversion H; subst; auto.
    right. eapply IH; eauto.
  - inversion H; subst; auto.
Qed.

Lemma group_freqs_keys_aux sh : forall m k,
  In k (map fst (fold_left (fun m s => fold_left (fun m o => freq_incr o m) (s_owners s) m) sh m)) ->
  In k (map fst m) \/ exists s, In s sh /\ In k (s_owners s).
Proof.
  induction sh as [|s t IH]; cbn; intros m k H; auto.
  apply IH in H. destruct H as [H|[s' [Hs' Hk]]]; [|right; eauto].
  assert (Hin : forall os m0, In k (map fst (fold_left (fun m o => freq_incr o m) os m0)) ->
                              In k (map fst m0) \/ In k os).
  { clear. induction os; cbn; intros m0 H; auto. apply IHos in H. destruct H as [H|H]; auto.
    apply freq_incr_keys in H. destruct H; auto. }
  apply Hin in H. destruct H; auto. right. exists s; auto.
Qed.

Lemma group_freqs_keys sh k : In k (map fst (group_freqs sh)) -> exists s, In s sh /\ In k (s_owners s).
Proof. intros H. apply group_freqs_keys_aux in H. destruct H as [[]|H]; auto. Qed.

Lemma NoDup_map_inj {A} (f : A -> N) l a b :
  NoDup (map f l) -> In a l -> In b l -> f a = f b -> a = b.
Proof.
  induction l; cbn; intros Hd Ha Hb E; [contradiction|]. inversion Hd; subst.
  destruct Ha as [->|Ha], Hb as [->|Hb]; auto.
  - exfalso. apply H1. rewrite E. apply in_map; auto.
  - exfalso. apply H1. rewrite <- E. apply in_map; auto.
Qed.

Lemma reassign_ids orphans : forall freqs sh sh',
  reassign orphans freqs sh = Some sh' -> map s_id sh' = map s_id sh.
Proof.
  induction orphans as [|o rest IH]; cbn; intros freqs sh sh' H.
  - inversion H; auto.
  - destruct (freq_min freqs) as [[k c]|]; [|discriminate].
    apply IH in H. rewrite H. apply upd_first_map_inv. reflexivity.
Qed.

Lemma reassign_spec orphans : forall freqs sh sh',
  reassign orphans freqs sh = Some sh' ->
  NoDup (map s_id sh) -> NoDup orphans ->
  (forall o s, In o orphans -> In s sh -> s_id s = o -> s_owners s = []) ->
  forall s', In s' sh' -> In s' sh \/ exists k, In k (map fst freqs) /\ s_owners s' = [k].
Proof.
  induction orphans as [|o rest IH]; cbn; intros freqs sh sh' H Hd Ho Hemp s' Hs'.
  - inversion H; subst; auto.
  - destruct (freq_min freqs) as [[k c]|] eqn:Em; [|discriminate].
    apply freq_min_in in Em. inversion Ho; subst.
    set (sh1 := upd_first (fun s => s_id s =? o) (fun s => s_set_owners s (s_owners s ++ [k])) sh) in *.
    assert (Hids : map s_id sh1 = map s_id sh) by (apply upd_first_map_inv; reflexivity).
    assert (Hsh1 : forall s, In s sh1 -> In s sh \/ exists s0, In s0 sh /\ s_id s0 = o /\ s = s_set_owners s0 (s_owners s0 ++ [k])).
    { intros s Hs. unfold sh1 in Hs.
      assert (G : forall l, In s (upd_first (fun s => s_id s =? o) (fun s => s_set_owners s (s_owners s ++ [k])) l) ->
                  In s l \/ exists s0, In s0 l /\ s_id s0 = o /\ s = s_set_owners s0 (s_owners s0 ++ [k])).
      { clear. induction l; cbn; auto. destruct (s_id a =? o) eqn:E; cbn.
        - intros [<-|Hi]; auto. right. exists a. apply N.eqb_eq in E. auto.
        - intros [<-|Hi]; auto. apply IHl in Hi. destruct Hi as [Hi|[s0 [? ?]]]; eauto. }
      apply G; auto. }
    destruct (IH (freq_incr k freqs) sh1 sh' H) with (s' := s') as [Hi|[k' [Hk' Hown]]]; auto.
    + rewrite Hids; auto.
    + intros o' s Ho' Hs Hid. destruct (Hsh1 _ Hs) as [Hin|[s0 [Hin0 [Hid0 ->]]]].
      * eapply Hemp; eauto.
      * cbn in Hid. exfalso. apply H2. congruence.
    + destruct (Hsh1 _ Hi) as [Hin|[s0 [Hin0 [Hid0 ->]]]]; auto.
      right. exists k. split; auto. cbn. rewrite (Hemp o s0); auto.
    + right. exists k'. split; auto. apply freq_incr_keys in Hk'. destruct Hk'; subst; auto.
Qed.

Lemma filter_neq_In (id x : N) l : In x (filter (fun i => negb (i =? id)) l) <-> In x l /\ x <> id.
Proof. rewrite filter_In, negb_true_iff, N.eqb_neq. reflexivity. Qed.

Lemma grel_delete_node ns id g g' :
  delete_node_group id g = Some g' ->
  grel ns (filter (fun i => negb (i =? id)) ns) g g'.
Proof.
  unfold delete_node_group. intros H.
  set (stripped := map (fun s => s_set_owners s (remove_last (N.eqb id) (s_owners s))) (g_shards g)) in *.
  set (orphans := filter (fun s => match s_owners s with [] => true | _ => false end) stripped) in *.
  assert (Hids : map s_id stripped = map s_id (g_shards g)).
  { unfold stripped. rewrite map_map. reflexivity. }
  assert (Hstr : (forall s, In s (g_shards g) -> own_ok ns s) ->
                 forall s', In s' stripped -> own_ok (filter (fun i => negb (i =? id)) ns) s').
  { intros Ho s' Hs'. unfold stripped in Hs'. apply in_map_iff in Hs'. destruct Hs' as [s [<- Hs]].
    destruct (Ho _ Hs) as [Hd Hi]. split; cbn.
    - eapply subl_NoDup; [apply subl_remove_last|auto].
    - intros x Hx. apply filter_neq_In. split.
      + apply Hi. eapply subl_in; [apply subl_remove_last|eauto].
      + intros ->. eapply remove_last_notin; eauto. }
  destruct ((List.length (g_shards g) =? 0)%nat || (List.length orphans =? List.length (g_shards g))%nat).
  - inversion H; subst. apply grel_build; cbn; auto;
      try (apply range_same; reflexivity); try (rewrite Hids; apply subl_refl).
  - destruct (reassign (map s_id orphans) (filter (fun kc => negb (fst kc =? id)) (group_freqs (g_shards g))) stripped)
      as [sh|] eqn:Er; [|discriminate].
    inversion H; subst. apply grel_build; cbn; auto;
      try (apply range_same; reflexivity);
      try (rewrite (reassign_ids _ _ _ _ Er), Hids; apply subl_refl).
    + intros Hd Ho s' Hs'.
      assert (Hdo : NoDup (map s_id orphans)).
      { eapply subl_NoDup; [apply subl_map, subl_filter|]. rewrite Hids; auto. }
      destruct (reassign_spec _ _ _ _ Er) with (s' := s') as [Hi|[k [Hk Hown]]]; auto.
      * rewrite Hids; auto.
      * intros o s Hio Hs Hid. apply in_map_iff in Hio. destruct Hio as [s0 [Hid0 Hs0]].
        unfold orphans in Hs0. apply filter_In in Hs0. destruct Hs0 as [Hs0 Hemp].
        assert (s = s0).
        { eapply (NoDup_map_inj s_id stripped); eauto. rewrite Hids; auto. congruence. }
        subst. destruct (s_owners s0); auto; discriminate.
      * split; rewrite Hown.
        -- constructor; [intros []|constructor].
        -- intros x [<-|[]]. apply in_map_iff in Hk. destruct Hk as [[k' c] [Hk1 Hk2]]. cbn in Hk1. subst k'.
           apply filter_In in Hk2. destruct Hk2 as [Hk2 Hne]. cbn in Hne.
           apply filter_neq_In. split; [|apply negb_true_iff, N.eqb_neq in Hne; auto].
           assert (Hkk : In k (map fst (group_freqs (g_shards g)))) by (apply in_map_iff; exists (k, c); auto).
           apply group_freqs_keys in Hkk. destruct Hkk as [s [Hs Hks]]. apply (Ho _ Hs); auto.
Qed.

Lemma prel_delete_node ns id l l' :
  map_opt (delete_node_group id) l = Some l' -> prel ns (filter (fun i => negb (i =? id)) ns) l l'.
Proof.
  intros H. exists l; split; auto.
  eapply Forall2_impl_; [|eapply map_opt_Forall2; eauto]. intros x y Hxy. apply grel_delete_node; auto.
Qed.
