(* C06/Proofs.v — the invariant holds along every run; the facts about one transition;
   the link "the model satisfies the executable spec (Spec.state_ok / Spec.step_ok) for
   every input". *)
From Verif Require Import C06.Model C06.Eqb C06.Spec C06.ListLemmas C06.Inv C06.ProofsGroup
  C06.ProofsCmd C06.ProofsCreate C06.ProofsEven.
From VerifGen Require Import Consts.
From Coq Require Import Lia Permutation.
From Coq Require Import ZifyBool ZifyNat ZifyN.
Open Scope N_scope.

(* every command type of the switch in storeFSM.Apply (regenerated from the source) is
   either modelled or one of the four excluded ones, and every modelled type is in the switch *)
Lemma switch_covered :
  forallb (fun t => memN t modelled_types || memN t excluded_types) c06_apply_switch = true /\
  forallb (fun t => memN t c06_apply_switch) (modelled_types ++ excluded_types) = true.
Proof. split; vm_compute; reflexivity. Qed.

(* ---------- the invariant along runs ---------- *)

Lemma stamp_eqv d i t : eqv d (stamp d i t).
Proof. unfold eqv; repeat split. Qed.

Lemma Inv_stamp d i t : Inv d -> Inv (stamp d i t).
Proof.
  intros I. eapply Shrink_Inv; eauto. eapply Shrink_eqv_r; [apply stamp_eqv|apply Shrink_refl; auto].
Qed.

Lemma exec_Inv auto ex d c d' : Inv d -> cmd_wf c -> exec auto ex d c = Ok d' -> Inv d'.
Proof.
  intros I W H. destruct (is_create_group c) eqn:E.
  - destruct c; try discriminate. cbn in H, W.
    apply create_shard_group_cases in H. destruct H as [->|[r [C Hcov]]]; auto.
    eapply Created_Inv; eauto; unfold min_unix_nano, c06_max_nano_time in *; lia.
  - eapply Shrink_Inv; eauto. eapply exec_Shrink; eauto.
Qed.

Lemma apply_Inv auto ex d idx term c :
  Inv d -> cmd_wf c -> Inv (fst (apply auto ex d idx term c)).
Proof.
  intros I W. unfold apply. destruct (exec auto ex d c) eqn:E; cbn; apply Inv_stamp; auto.
  eapply exec_Inv; eauto.
Qed.

Definition log_wf (es : list entry) : Prop := Forall (fun e => cmd_wf (e_cmd e)) es.

Lemma run_from_Inv auto orc es : forall k d, Inv d -> log_wf es -> Inv (run_from auto orc k d es).
Proof.
  induction es as [|e es IH]; cbn; intros k d I W; auto. inversion W; subst.
  apply IH; auto. apply apply_Inv; auto.
Qed.

Lemma run_Inv auto orc es : log_wf es -> Inv (run auto orc es).
Proof. intros W. apply run_from_Inv; auto. apply Inv_init. Qed.

(* ---------- one value: Inv implies the executable check ---------- *)

Lemma disj_disjoint2 a b : disj a b -> disjoint2 a b = true.
Proof. unfold disj, disjoint2. intros [H|H]; apply orb_true_iff; [left|right]; lia. Qed.

Lemma pairwise_of l :
  NoDup (gids l) ->
  (forall a b, In a l -> In b l -> g_id a <> g_id b -> live a -> live b -> disj a b) ->
  pairwise_disjoint (live_groups l) = true.
Proof.
  unfold live_groups. induction l as [|a t IH]; cbn; intros Hd Hp; auto. inversion Hd; subst.
  destruct (g_deleted a) eqn:Ea; cbn.
  - apply IH; auto.
  - rewrite IH; auto. rewrite andb_true_r. apply forallb_forall. intros x Hx.
    apply filter_In in Hx. destruct Hx as [Hx Lx]. apply negb_true_iff in Lx.
    apply disj_disjoint2, Hp; auto.
    intros E. apply H1. rewrite E. apply in_map; auto.
Qed.

Lemma NoDup_gids_view vs v : NoDup (gids (vgroups vs)) -> In v vs -> NoDup (gids (snd v)).
Proof.
  intros Hd Hi. apply in_split in Hi. destruct Hi as (A & B & ->).
  rewrite vgroups_app, vgroups_cons in Hd. unfold gids in *. rewrite !map_app in Hd.
  apply NoDup_app_inv in Hd. destruct Hd as (_ & Hd & _).
  apply NoDup_app_inv in Hd. apply Hd.
Qed.

Lemma In_policy_view d r : In r (all_policies d) -> In (pview r) (views d).
Proof. intros H. rewrite <- all_policies_views. apply in_map; auto. Qed.

Lemma Inv_ids_ok d : Inv d -> ids_ok d = true.
Proof.
  intros I. unfold ids_ok. rewrite group_ids_views, shard_ids_views.
  apply andb_true_iff; split; [apply andb_true_iff; split; [apply andb_true_iff; split|]|].
  - apply nodup_b_NoDup, I.
  - apply forallb_forall; intros i Hi; apply N.leb_le. apply (inv_gids_max _ I); auto.
  - apply nodup_b_NoDup, I.
  - apply forallb_forall; intros i Hi; apply N.leb_le. apply (inv_sids_max _ I); auto.
Qed.

Lemma Inv_nodes_ok d : Inv d -> nodes_ok d = true.
Proof.
  intros I. unfold nodes_ok. apply andb_true_iff; split; [apply nodup_b_NoDup, I|].
  apply forallb_forall. intros i Hi. apply (inv_nodes_range _ I) in Hi. lia.
Qed.

Lemma Inv_owners_ok d : Inv d -> owners_ok d = true.
Proof.
  intros I. unfold owners_ok. rewrite all_shards_views. apply forallb_forall. intros s Hs.
  destruct (inv_owners _ I s Hs) as [H1 H2]. apply andb_true_iff; split.
  - apply nodup_b_NoDup; auto.
  - apply forallb_forall. intros o Ho. apply memN_In, H2; auto.
Qed.

Lemma Inv_disjoint_ok d : Inv d -> disjoint_ok d = true.
Proof.
  intros I. unfold disjoint_ok. apply forallb_forall. intros r Hr.
  pose proof (In_policy_view _ _ Hr) as Hv.
  pose proof (inv_views _ I) as Hok. rewrite Forall_forall in Hok. destruct (Hok _ Hv) as [_ [_ Hp]].
  apply pairwise_of; auto. apply (NoDup_gids_view _ _ (inv_gids _ I) Hv).
Qed.

Lemma Inv_state_ok d : Inv d -> state_ok d = true.
Proof.
  intros I. unfold state_ok.
  rewrite Inv_ids_ok, Inv_nodes_ok, Inv_owners_ok, Inv_disjoint_ok; auto.
Qed.

(* ---------- one transition ---------- *)

Definition NewGroupOk (d : data) (r : policy) (g : group) : Prop :=
  let rep := N.min (N.max (rp_replica r) 1) (llen (d_nodes d)) in
  g_shards g <> [] /\
  (forall s, In s (g_shards g) ->
     llen (s_owners s) = rep /\ NoDup (s_owners s) /\ incl (s_owners s) (node_ids d)) /\
  (forall o o0, In o (node_ids d) -> In o0 (node_ids d) -> count_owner o g = count_owner o0 g).

Record StepFacts (d : data) (c : cmd) (e : err) (d' : data) : Prop := {
  sf_counters : d_max_node d <= d_max_node d' /\ d_max_group d <= d_max_group d' /\
                d_max_shard d <= d_max_shard d';
  sf_fresh_g : forall i, In i (group_ids d') -> In i (group_ids d) \/ d_max_group d < i;
  sf_fresh_s : forall i, In i (shard_ids d') -> In i (shard_ids d) \/ d_max_shard d < i;
  sf_fresh_n : forall i, In i (node_ids d') ->
               In i (node_ids d) \/ d_max_node d < i \/ exists n, In n (d_meta d) /\ n_id n = i;
  sf_new : forall r g, In r (all_policies d') -> In g (rp_groups r) ->
           In (g_id g) (group_ids d) \/ NewGroupOk d' r g;
  sf_rejected : e <> ENone ->
                canon (stamp d' 0 0) = canon (stamp d 0 0) /\
                d_max_node d' = d_max_node d /\ d_max_group d' = d_max_group d /\ d_max_shard d' = d_max_shard d;
  sf_delete : forall id, c = CDeleteDataNode id -> e = ENone ->
              ~ In id (node_ids d') /\ forall s, In s (all_shards d') -> ~ In id (s_owners s)
}.

Lemma flat_map_map_ {A B C} (f : B -> list C) (h : A -> B) l :
  flat_map f (map h l) = flat_map (fun x => f (h x)) l.
Proof. induction l; cbn; auto. rewrite IHl. reflexivity. Qed.

Lemma new_group_NewGroupOk d d' r t :
  Inv d -> d_nodes d <> [] -> existsb (g_covers t) (rp_groups r) = false ->
  d_nodes d' = d_nodes d ->
  NewGroupOk d' (rp_set_groups r (sort_groups (rp_groups r ++ [new_group d r t]))) (new_group d r t).
Proof.
  intros I Hne Hcov En. unfold NewGroupOk. cbn [rp_replica rp_set_groups].
  assert (Eids : node_ids d' = node_ids d) by (unfold node_ids; rewrite En; auto).
  rewrite En, Eids, <- (rep_spec d r t Hne Hcov).
  destruct (new_group_shard_ids d r t Hcov) as (Es & El & Hsn).
  split; [|split].
  - intros E. rewrite E in El. cbn in El. lia.
  - intros s Hs. destruct (new_group_owners d r t I Hne Hcov s Hs) as [[H1 H2] H3]. auto.
  - intros o o0 Ho Ho0. unfold count_owner, llen. f_equal.
    unfold new_group; cbn [g_shards]. rewrite flat_map_map_. cbn [s_owners].
    set (rep := if rp_replica r =? 0 then 1 else if llen (d_nodes d) <? rp_replica r then llen (d_nodes d) else rp_replica r) in *.
    assert (Hlen : (0 < List.length (map n_id (d_nodes d)))%nat).
    { rewrite map_length. destruct (d_nodes d); [contradiction|cbn; lia]. }
    assert (Hdiv : (shard_n rep (llen (d_nodes d)) * rep) mod llen (map n_id (d_nodes d)) = 0).
    { unfold llen at 2. rewrite map_length. apply shard_n_div. unfold llen. rewrite map_length in Hlen. lia. }
    rewrite (count_even (map n_id (d_nodes d)) (d_index d mod llen (d_nodes d)) rep
               (shard_n rep (llen (d_nodes d))) (inv_nodes_nodup _ I) Hlen Hdiv o Ho).
    rewrite (count_even (map n_id (d_nodes d)) (d_index d mod llen (d_nodes d)) rep
               (shard_n rep (llen (d_nodes d))) (inv_nodes_nodup _ I) Hlen Hdiv o0 Ho0).
    reflexivity.
Qed.

Lemma canon_stamp_stamp d i t : canon (stamp (stamp d i t) 0 0) = canon (stamp d 0 0).
Proof. reflexivity. Qed.

Lemma In_group_ids d r g : In r (all_policies d) -> In g (rp_groups r) -> In (g_id g) (group_ids d).
Proof.
  intros Hr Hg. unfold group_ids, all_groups. apply in_map.
  unfold all_policies in Hr. rewrite <- flat_map_flat_map. apply in_flat_map. exists r. split; auto.
Qed.

Lemma StepFacts_same d c : (forall id, c <> CDeleteDataNode id) -> StepFacts d c ENone d.
Proof.
  intros Hc. constructor.
  - lia.
  - auto.
  - auto.
  - auto.
  - intros r g Hr Hg. left. eapply In_group_ids; eauto.
  - congruence.
  - intros id E. exfalso. eapply Hc; eauto.
Qed.

(* no method reports the nil error as an error *)
Ltac crush H :=
  repeat (match type of H with
          | context [if ?b then _ else _] => destruct b
          | context [match ?x with _ => _ end] => destruct x
          end; try discriminate).

Lemma create_rp_err d dbn n rep dur sgd df : create_rp d dbn n rep dur sgd df <> Er ENone.
Proof. unfold create_rp. intros H. crush H; discriminate. Qed.
Lemma create_database_err d n : create_database d n <> Er ENone.
Proof. unfold create_database. intros H. crush H; discriminate. Qed.

Lemma exec_err_not_none auto ex d c : exec auto ex d c <> Er ENone.
Proof.
  intros H. destruct c; cbn [exec] in H;
    try (unfold update_rp, create_shard_group, delete_shard_group, create_cq,
      create_sub, drop_sub, create_user, drop_user, update_user, set_privilege, set_admin_privilege,
      delete_meta_node, create_data_node, delete_data_node, update_data_node in H;
      crush H; discriminate).
  - destruct (create_database d name) eqn:E1; [|inversion H; subst; eapply create_database_err; eauto].
    destruct rp as [[[[rn rrep] rdur] rsgd]|].
    + destruct (create_rp d0 name rn rrep rdur rsgd true) as [|e] eqn:E2; [discriminate|].
      destruct e; try discriminate. eapply create_rp_err; eauto.
    + destruct auto; [eapply create_rp_err; eauto|discriminate].
  - eapply create_rp_err; eauto.
Qed.

Lemma exec_StepFacts auto ex d c :
  Inv d -> cmd_wf c ->
  match exec auto ex d c with
  | Ok d' => StepFacts d c ENone d'
  | Er e => e <> ENone
  end.
Proof.
  intros I W. destruct (exec auto ex d c) as [d'|e] eqn:E.
  2:{ intros ->. eapply exec_err_not_none; eauto. }
  destruct (is_create_group c) eqn:Ec.
  - destruct c; try discriminate. cbn in E, W.
    apply create_shard_group_cases in E. destruct E as [->|[r [C Hcov]]].
    + apply StepFacts_same. intros id; discriminate.
    + pose proof (Created_perm _ _ _ _ C) as P.
      assert (I' : Inv d') by (eapply Created_Inv; eauto; unfold min_unix_nano, c06_max_nano_time in *; lia).
      destruct (new_group_sids_fresh d r t Hcov) as (_ & Sf).
      constructor; try congruence.
      * rewrite (cr_maxn _ _ _ _ C), (cr_maxg _ _ _ _ C), (cr_maxs _ _ _ _ C). lia.
      * intros i Hi. rewrite group_ids_views in *. eapply Permutation_in in Hi; [|apply Permutation_map, P].
        cbn in Hi. destruct Hi as [<-|Hi]; [right; cbn; lia|left; auto].
      * intros i Hi. rewrite shard_ids_views in *.
        eapply Permutation_in in Hi; [|apply Permutation_map, Permutation_flat_map_, P].
        cbn in Hi. rewrite map_app in Hi. apply in_app_or in Hi. destruct Hi as [Hi|Hi]; [right|left; auto].
        apply Sf in Hi. lia.
      * intros i Hi. left. unfold node_ids in *. rewrite (cr_nodes _ _ _ _ C) in Hi. auto.
      * intros r' g Hr' Hg. destruct (cr_pols _ _ _ _ C) as (A & B & E1 & E2).
        rewrite E2 in Hr'. apply in_app_or in Hr'.
        assert (Hold : In r' (all_policies d) -> In (g_id g) (group_ids d)).
        { intros Hin. eapply In_group_ids; eauto. }
        destruct Hr' as [Hr'|[<-|Hr']].
        -- left. apply Hold. rewrite E1. apply in_or_app; auto.
        -- cbn [rp_groups rp_set_groups] in Hg. eapply Permutation_in in Hg; [|apply sort_snoc_perm].
           destruct Hg as [<-|Hg].
           ++ right. apply new_group_NewGroupOk; auto; apply C.
           ++ left. apply (In_group_ids d r g); auto.
              rewrite E1. apply in_or_app; right; left; auto.
        -- left. apply Hold. rewrite E1. apply in_or_app; right; right; auto.
  - pose proof (exec_Shrink _ _ _ _ _ I Ec E) as S. pose proof (Shrink_Inv _ _ I S) as I'.
    constructor; try congruence.
    + rewrite (sh_maxg _ _ S), (sh_maxs _ _ S). pose proof (sh_maxn _ _ S). lia.
    + intros i Hi. left. rewrite group_ids_views in *. eapply subl_in; [eapply pstruct_gids, (sh_ps _ _ S)|auto].
    + intros i Hi. left. rewrite shard_ids_views in *. eapply subl_in; [eapply pstruct_sids, (sh_ps _ _ S)|auto].
    + apply (sh_fresh_nodes _ _ S).
    + intros r g Hr Hg. left. rewrite group_ids_views.
      eapply subl_in; [eapply pstruct_gids, (sh_ps _ _ S)|].
      rewrite <- group_ids_views. eapply In_group_ids; eauto.
    + intros id -> _. cbn [exec] in E. unfold delete_data_node in E.
      destruct (List.length _ =? List.length (d_nodes d))%nat; [discriminate|].
      destruct (map_opt _ (d_dbs d)) as [dbs|]; [|discriminate]. inversion E; subst; clear E.
      assert (Hn : ~ In id (node_ids (set_dbs (set_nodes d (filter (fun n => negb (n_id n =? id)) (d_nodes d))) dbs))).
      { unfold node_ids at 1; cbn. rewrite node_ids_filter. intros Hi. apply filter_neq_In in Hi. destruct Hi; auto. }
      split; auto. intros s Hs Hi. apply Hn. rewrite all_shards_views in Hs.
      apply (inv_owners _ I' s Hs); auto.
Qed.

(* ---------- Apply ---------- *)

Lemma apply_StepFacts auto ex d idx term c :
  Inv d -> cmd_wf c ->
  StepFacts d c (snd (apply auto ex d idx term c)) (fst (apply auto ex d idx term c)).
Proof.
  intros I W. pose proof (exec_StepFacts auto ex d c I W) as F. unfold apply.
  destruct (exec auto ex d c) as [d1|e]; cbn [fst snd].
  - destruct F as [F1 F2 F3 F4 F5 F6 F7]. constructor; auto.
  - constructor.
    + cbn. lia.
    + auto.
    + auto.
    + auto.
    + intros r g Hr Hg. left. apply (In_group_ids d r g); auto.
    + intros _. repeat split.
    + intros id _ E. subst e. contradiction.
Qed.

(* ---------- reflection of the transition check ---------- *)

Lemma list_eqb_refl {A} (eqb : A -> A -> bool) l : (forall x, eqb x x = true) -> list_eqb eqb l l = true.
Proof. intros H. induction l; cbn; auto. rewrite H, IHl. reflexivity. Qed.

Ltac refl_tac :=
  repeat (apply andb_true_iff; split);
  auto using N.eqb_refl, String.eqb_refl, Z.eqb_refl, Bool.eqb_reflx;
  try (apply list_eqb_refl; auto using N.eqb_refl, String.eqb_refl, Z.eqb_refl).

Lemma data_eqb_refl d : data_eqb d d = true.
Proof.
  assert (Hn : forall x, node_eqb x x = true) by (intros x; unfold node_eqb; refl_tac).
  assert (Hs : forall x, shard_eqb x x = true) by (intros x; unfold shard_eqb; refl_tac).
  assert (Hg : forall x, group_eqb x x = true).
  { intros x; unfold group_eqb; refl_tac. destruct (g_trunc x); cbn; auto using Z.eqb_refl. }
  assert (Hsub : forall x, sub_eqb x x = true) by (intros x; unfold sub_eqb; refl_tac).
  assert (Hcq : forall x, cq_eqb x x = true) by (intros x; unfold cq_eqb; refl_tac).
  assert (Hp : forall x, policy_eq (list_eqb group_eqb) x x = true) by (intros x; unfold policy_eq; refl_tac).
  assert (Hdb : forall x, database_eq (list_eqb group_eqb) x x = true) by (intros x; unfold database_eq; refl_tac).
  assert (Hpr : forall x, priv_eqb x x = true) by (intros x; unfold priv_eqb; refl_tac).
  assert (Hu : forall x, user_eq (list_eqb priv_eqb) x x = true) by (intros x; unfold user_eq; refl_tac).
  unfold data_eqb, data_eq; refl_tac.
Qed.

Lemma err_code_zero e : err_code e = 0 <-> e = ENone.
Proof. destruct e; cbn; split; intros H; try discriminate; auto. Qed.

Lemma NewGroupOk_b d r g : NewGroupOk d r g -> new_group_ok d r g = true.
Proof.
  intros (H1 & H2 & H3). unfold new_group_ok.
  apply andb_true_iff; split; [apply andb_true_iff; split|].
  - apply negb_true_iff, N.eqb_neq. unfold llen. destruct (g_shards g); [contradiction|cbn; lia].
  - apply forallb_forall. intros s Hs. destruct (H2 s Hs) as (A & B & C).
    apply andb_true_iff; split; [apply andb_true_iff; split|].
    + apply N.eqb_eq; auto.
    + apply nodup_b_NoDup; auto.
    + apply forallb_forall. intros o Ho. apply memN_In; auto.
  - destruct (node_ids d) as [|o0 rest] eqn:E; auto.
    apply forallb_forall. intros o Ho. apply N.eqb_eq. apply H3; cbn; auto.
Qed.

Lemma StepFacts_step_ok d c e d' : StepFacts d c e d' -> step_ok d c (err_code e) d' = true.
Proof.
  intros [F1 F2 F3 F4 F5 F6 F7]. unfold step_ok.
  apply andb_true_iff; split; [apply andb_true_iff; split; [apply andb_true_iff; split; [apply andb_true_iff; split|]|]|].
  - unfold counters_le. apply andb_true_iff; split; [apply andb_true_iff; split|]; apply N.leb_le; lia.
  - unfold fresh_ok. apply andb_true_iff; split; [apply andb_true_iff; split|]; apply forallb_forall; intros i Hi.
    + destruct (F2 i Hi) as [H|H]; apply orb_true_iff; [left; apply memN_In; auto|right; apply N.ltb_lt; auto].
    + destruct (F3 i Hi) as [H|H]; apply orb_true_iff; [left; apply memN_In; auto|right; apply N.ltb_lt; auto].
    + destruct (F4 i Hi) as [H|[H|[n [Hn1 Hn2]]]].
      * apply orb_true_iff; left. apply orb_true_iff; left. apply memN_In; auto.
      * apply orb_true_iff; left. apply orb_true_iff; right. apply N.ltb_lt; auto.
      * apply orb_true_iff; right. apply existsb_exists. exists n. split; auto. apply N.eqb_eq; auto.
  - unfold new_groups_ok. apply forallb_forall. intros r Hr. apply forallb_forall. intros g Hg.
    destruct (F5 r g Hr Hg) as [H|H]; apply orb_true_iff; [left; apply memN_In; auto|right; apply NewGroupOk_b; auto].
  - destruct (err_code e =? 0) eqn:E; auto. apply N.eqb_neq in E.
    assert (Hne : e <> ENone) by (intros ->; apply E; reflexivity).
    destruct (F6 Hne) as (A & B & C & D). rewrite A, data_eqb_refl. cbn [andb].
    unfold counters_eq. rewrite B, C, D, !N.eqb_refl. reflexivity.
  - destruct c; auto. destruct (err_code e =? 0) eqn:E; auto. apply N.eqb_eq, err_code_zero in E.
    destruct (F7 id eq_refl E) as [A B]. apply andb_true_iff; split.
    + apply negb_true_iff, memN_false; auto.
    + apply forallb_forall. intros s Hs. apply negb_true_iff, memN_false. auto.
Qed.

(* ---------- the link: the model satisfies the executable spec on every input ---------- *)

(* the spec evaluated along a run of the model from state d *)
Fixpoint run_spec (auto : bool) (orc : nat -> list N) (k : nat) (d : data) (es : list entry) : bool :=
  match es with
  | [] => true
  | e :: t =>
      let r := apply auto (orc k) d (e_idx e) (e_term e) (e_cmd e) in
      state_ok (fst r) && step_ok d (e_cmd e) (err_code (snd r)) (fst r) && run_spec auto orc (S k) (fst r) t
  end.

Lemma run_spec_true auto orc es : forall k d, Inv d -> log_wf es -> run_spec auto orc k d es = true.
Proof.
  induction es as [|e es IH]; cbn; intros k d I W; auto. inversion W; subst.
  pose proof (apply_Inv auto (orc k) d (e_idx e) (e_term e) (e_cmd e) I H1) as I'.
  rewrite (Inv_state_ok _ I'), (StepFacts_step_ok _ _ _ _ (apply_StepFacts auto (orc k) d _ _ _ I H1)), IH; auto.
Qed.

Theorem model_satisfies_spec auto orc es :
  log_wf es -> state_ok init_data = true /\ run_spec auto orc 0 init_data es = true.
Proof.
  intros W. split; [apply Inv_state_ok, Inv_init|apply run_spec_true; auto using Inv_init].
Qed.

(* ---------- statements used by Props.v ---------- *)

Inductive reachable (auto : bool) : data -> Prop :=
| reach_init : reachable auto init_data
| reach_step d expired idx term c :
    reachable auto d -> cmd_wf c -> reachable auto (fst (apply auto expired d idx term c)).

Lemma reachable_Inv auto d : reachable auto d -> Inv d.
Proof. induction 1; [apply Inv_init|apply apply_Inv; auto]. Qed.

Lemma run_from_reachable auto orc es : forall k d,
  reachable auto d -> log_wf es -> reachable auto (run_from auto orc k d es).
Proof.
  induction es as [|e es IH]; cbn; intros k d R W; auto. inversion W; subst.
  apply IH; auto. constructor; auto.
Qed.

Lemma run_reachable auto orc es : log_wf es -> reachable auto (run auto orc es).
Proof. intros W. apply run_from_reachable; auto. constructor. Qed.

Lemma rejected_unchanged auto expired d idx term c :
  snd (apply auto expired d idx term c) <> ENone ->
  fst (apply auto expired d idx term c) = stamp d idx term.
Proof. unfold apply. destruct (exec auto expired d c); cbn; [congruence|auto]. Qed.

Lemma ids_unique auto d : reachable auto d ->
  NoDup (group_ids d) /\ (forall i, In i (group_ids d) -> i <= d_max_group d) /\
  NoDup (shard_ids d) /\ (forall i, In i (shard_ids d) -> i <= d_max_shard d) /\
  NoDup (node_ids d) /\ (forall i, In i (node_ids d) -> 1 <= i <= d_max_node d).
Proof.
  intros R. pose proof (reachable_Inv _ _ R) as I. rewrite group_ids_views, shard_ids_views.
  split; [apply I|]. split; [apply (inv_gids_max _ I)|]. split; [apply I|].
  split; [apply (inv_sids_max _ I)|]. split; [apply I|apply (inv_nodes_range _ I)].
Qed.

Lemma ids_fresh auto d expired idx term c : reachable auto d -> cmd_wf c ->
  let d' := fst (apply auto expired d idx term c) in
  d_max_node d <= d_max_node d' /\ d_max_group d <= d_max_group d' /\ d_max_shard d <= d_max_shard d' /\
  (forall i, In i (group_ids d') -> In i (group_ids d) \/ d_max_group d < i) /\
  (forall i, In i (shard_ids d') -> In i (shard_ids d) \/ d_max_shard d < i).
Proof.
  intros R W d'. destruct (apply_StepFacts auto expired d idx term c (reachable_Inv _ _ R) W) as [F1 F2 F3 _ _ _ _].
  repeat split; auto; apply F1.
Qed.

Lemma owners_are_data_nodes auto d : reachable auto d ->
  forall s, In s (all_shards d) -> NoDup (s_owners s) /\ forall o, In o (s_owners s) -> In o (node_ids d).
Proof.
  intros R s Hs. rewrite all_shards_views in Hs. destruct (inv_owners _ (reachable_Inv _ _ R) s Hs); auto.
Qed.

Lemma delete_node_strips auto d expired idx term id : reachable auto d ->
  snd (apply auto expired d idx term (CDeleteDataNode id)) = ENone ->
  let d' := fst (apply auto expired d idx term (CDeleteDataNode id)) in
  ~ In id (node_ids d') /\ forall s, In s (all_shards d') -> ~ In id (s_owners s).
Proof.
  intros R E d'. apply (sf_delete _ _ _ _ (apply_StepFacts auto expired d idx term (CDeleteDataNode id) (reachable_Inv _ _ R) Logic.I) id eq_refl E).
Qed.

Lemma owners_even_distinct auto d expired idx term c : reachable auto d -> cmd_wf c ->
  let d' := fst (apply auto expired d idx term c) in
  forall r g, In r (all_policies d') -> In g (rp_groups r) -> ~ In (g_id g) (group_ids d) ->
    let rep := N.min (N.max (rp_replica r) 1) (llen (d_nodes d')) in
    g_shards g <> [] /\
    (forall s, In s (g_shards g) ->
       llen (s_owners s) = rep /\ NoDup (s_owners s) /\ incl (s_owners s) (node_ids d')) /\
    (forall o o0, In o (node_ids d') -> In o0 (node_ids d') -> count_owner o g = count_owner o0 g).
Proof.
  intros R W d' r g Hr Hg Hnew.
  destruct (sf_new _ _ _ _ (apply_StepFacts auto expired d idx term c (reachable_Inv _ _ R) W) r g Hr Hg) as [H|H];
    [contradiction|exact H].
Qed.

Lemma groups_disjoint auto d : reachable auto d ->
  forall r a b, In r (all_policies d) -> In a (rp_groups r) -> In b (rp_groups r) ->
    g_id a <> g_id b -> g_deleted a = false -> g_deleted b = false ->
    (g_hi a <= g_start b)%Z \/ (g_hi b <= g_start a)%Z.
Proof.
  intros R r a b Hr Ha Hb Hne La Lb. pose proof (reachable_Inv _ _ R) as I.
  pose proof (inv_views _ I) as Hv. rewrite Forall_forall in Hv.
  destruct (Hv _ (In_policy_view _ _ Hr)) as [_ [_ Hd]]. apply Hd; auto.
Qed.

(* ---------- the defects repaired by "fix:" commits, as refutations of the unrepaired code ---------- *)

(* Data.CreateDataNode before the repair: the ID of a meta node with the same TCP address
   was re-used even when a data node already had it *)
Definition create_data_node_unpatched (d : data) (addr tcp : string) : result :=
  if existsb (fun n => String.eqb (n_tcp n) tcp) (d_nodes d) then Er ENodeExists
  else
    let existing := match find (fun n => String.eqb (n_tcp n) tcp) (d_meta d) with
                    | Some n => n_id n | None => 0 end in
    let fresh := existing =? 0 in
    let id := if fresh then d_max_node d + 1 else existing in
    let d1 := if fresh then set_max_node d (d_max_node d + 1) else d in
    Ok (set_nodes d1 (sort_nodes (d_nodes d ++ [Nd id addr tcp]))).

Definition dup_witness_log : list entry :=
  [ En 2 1 (CCreateMetaNode "h1:8091" "h1:8088" 42); En 3 1 (CCreateDataNode "h1:8086" "h1:8088");
    En 4 1 (CUpdateDataNode 1 "h1:8086" "h9:8088") ]%string.

Lemma create_data_node_unpatched_refuted :
  exists d d', reachable false d /\
    create_data_node_unpatched d "h1:8086" "h1:8088" = Ok d' /\ node_ids d' = [1; 1].
Proof.
  exists (run false (fun _ => []) dup_witness_log). eexists. split; [|split].
  - apply run_reachable. repeat constructor.
  - vm_compute. reflexivity.
  - vm_compute. reflexivity.
Qed.

(* applyCopyShardOwnerCommand before the repair did not look at the node list *)
Definition copy_witness_log : list entry :=
  [ En 2 1 (CCreateDataNode "h1:8086" "h1:8088"); En 3 1 (CCreateDatabase "db0" None);
    En 4 1 (CCreateShardGroup "db0" "autogen" 0) ]%string.

Lemma copy_shard_owner_unchecked_refuted :
  exists d, reachable true d /\
    exists s, In s (all_shards (copy_shard_owner d 1 7)) /\ In 7 (s_owners s) /\
              ~ In 7 (node_ids (copy_shard_owner d 1 7)).
Proof.
  exists (run true (fun _ => []) copy_witness_log). split.
  - apply run_reachable. repeat constructor; cbn; unfold c06_max_nano_time; lia.
  - exists (Sh 1 [1; 7]). vm_compute. repeat split; auto.
    intros [H|[]]. discriminate.
Qed.

(* ---------- CreateShardGroup twice ---------- *)

Lemma create_shard_group_idempotent auto d ex ex' idx term idx' term' dbn pol t :
  reachable auto d -> (- (c06_max_nano_time + 2) <= t <= c06_max_nano_time)%Z ->
  let r1 := apply auto ex d idx term (CCreateShardGroup dbn pol t) in
  snd r1 = ENone ->
  apply auto ex' (fst r1) idx' term' (CCreateShardGroup dbn pol t) = (stamp (fst r1) idx' term', ENone).
Proof.
  intros R Ht r1 E. pose proof (reachable_Inv _ _ R) as I. unfold r1, apply in *. cbn [exec] in *.
  destruct (create_shard_group d dbn pol t) as [d1|e] eqn:E1; cbn [fst snd] in *;
    [|subst e; exfalso; apply (exec_err_not_none auto ex d (CCreateShardGroup dbn pol t)); exact E1].
  assert (C : Covered d1 dbn pol t) by (eapply create_shard_group_Covered; eauto; unfold min_unix_nano; lia).
  assert (C' : Covered (stamp d1 idx term) dbn pol t) by exact C.
  rewrite (Covered_noop _ _ _ _ C'). reflexivity.
Qed.
