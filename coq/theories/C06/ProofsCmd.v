(* C06/ProofsCmd.v — every command except CreateShardGroup only shrinks / rewrites the
   existing shard groups: [Shrink d d'].  Hence the invariant is preserved and no shard
   or shard-group ID appears. *)
From Verif Require Import C06.Model C06.Eqb C06.Spec C06.ListLemmas C06.Inv C06.ProofsGroup.
From VerifGen Require Import Consts.
From Coq Require Import Lia Permutation.
From Coq Require Import ZifyBool ZifyNat ZifyN.
Open Scope N_scope.

Record Shrink (d d' : data) : Prop := {
  sh_ps : pstruct (node_ids d) (node_ids d') (views d) (views d');
  sh_maxg : d_max_group d' = d_max_group d;
  sh_maxs : d_max_shard d' = d_max_shard d;
  sh_maxn : d_max_node d <= d_max_node d';
  sh_nodes : NoDup (node_ids d') /\ (forall i, In i (node_ids d') -> 1 <= i <= d_max_node d') /\
             (forall n, In n (d_meta d') -> n_id n <= d_max_node d');
  sh_fresh_nodes : forall i, In i (node_ids d') ->
                   In i (node_ids d) \/ d_max_node d < i \/ exists n, In n (d_meta d) /\ n_id n = i
}.

Lemma Shrink_Inv d d' : Inv d -> Shrink d d' -> Inv d'.
Proof.
  intros I S. destruct (sh_nodes _ _ S) as (H1 & H2 & H3).
  eapply Inv_pstruct; eauto; try (rewrite (sh_maxg _ _ S) || rewrite (sh_maxs _ _ S)); try lia.
  apply S.
Qed.

(* commands that leave the nodes alone *)
Lemma Shrink_K1 d d' :
  Inv d -> d_nodes d' = d_nodes d -> d_meta d' = d_meta d -> d_max_node d' = d_max_node d ->
  d_max_group d' = d_max_group d -> d_max_shard d' = d_max_shard d ->
  pstruct (node_ids d) (node_ids d) (views d) (views d') -> Shrink d d'.
Proof.
  intros I Hn Hm Hx Hg Hs Hp. unfold node_ids in *. constructor; unfold node_ids; rewrite ?Hn, ?Hm, ?Hx; auto; try lia.
  - split; [apply I|split; [apply (inv_nodes_range _ I)|apply (inv_meta_range _ I)]].
Qed.

Lemma Shrink_refl d : Inv d -> Shrink d d.
Proof. intros I. apply Shrink_K1; auto. apply pstruct_refl. apply incl_refl. Qed.

(* ---------- lifting through the database and policy lists ---------- *)

Section Lift.
  Variables ns ns' : list N.
  Hypothesis Hincl : incl ns ns'.

  Lemma ps_upd_db d n F :
    (forall x, pstruct ns ns' (rviews x) (rviews (F x))) ->
    pstruct ns ns' (views d) (views (upd_db d n F)).
  Proof.
    intros H. unfold upd_db, views; cbn. apply views_Forall2.
    eapply Forall2_impl_; [|apply upd_first_Forall2].
    intros x y [->| ->]; auto. apply pstruct_refl; auto.
  Qed.

  Lemma ps_upd_rp x p f :
    (forall r, vrel ns ns' (pview r) (pview (f r))) ->
    pstruct ns ns' (rviews x) (rviews (upd_rp x p f)).
  Proof.
    intros H. unfold upd_rp, rviews; cbn. apply rviews_Forall2.
    eapply Forall2_impl_; [|apply upd_first_Forall2].
    intros r y [->| ->]; auto. apply vrel_refl; auto.
  Qed.

  Lemma ps_same_rps x y : db_rps y = db_rps x -> pstruct ns ns' (rviews x) (rviews y).
  Proof. intros E. unfold rviews. rewrite E. apply pstruct_refl; auto. Qed.

  Lemma vrel_set_groups r l' : prel ns ns' (rp_groups r) l' -> vrel ns ns' (pview r) (pview (rp_set_groups r l')).
  Proof. intros H; split; cbn; auto. Qed.

  Lemma vrel_same_view r r' : pview r' = pview r -> vrel ns ns' (pview r) (pview r').
  Proof. intros ->. apply vrel_refl; auto. Qed.

  (* a function applied to every group list (Truncate, Prune) *)
  Lemma ps_map_all d (h : list group -> list group) :
    (forall l, prel ns ns' l (h l)) ->
    pstruct ns ns' (views d)
      (views (set_dbs d (map (fun x => db_set_rps x (map (fun r => rp_set_groups r (h (rp_groups r))) (db_rps x))) (d_dbs d)))).
  Proof.
    intros H. unfold views; cbn. apply views_Forall2. apply Forall2_map_r. intros x.
    unfold rviews; cbn. apply rviews_Forall2. apply Forall2_map_r. intros r. apply vrel_set_groups; auto.
  Qed.

  (* the first group that has a given shard (DropShard, CopyShardOwner, RemoveShardOwner) *)
  Lemma ps_upd_group_of_shard d id h :
    (forall g, grel ns ns' g (h g)) ->
    pstruct ns ns' (views d) (views (upd_group_of_shard d id h)).
  Proof.
    intros H. unfold upd_group_of_shard.
    destruct (upd_first_opt _ (d_dbs d)) as [dbs|] eqn:E; [|apply pstruct_refl; auto].
    unfold views; cbn. apply views_Forall2.
    eapply Forall2_impl_; [|eapply upd_first_opt_Forall2; eauto].
    intros x y [->|Hy]; [apply pstruct_refl; auto|]. cbn in Hy.
    destruct (upd_first_opt _ (db_rps x)) as [rs|] eqn:E2; inversion Hy; subst.
    unfold rviews; cbn. apply rviews_Forall2.
    eapply Forall2_impl_; [|eapply upd_first_opt_Forall2; eauto].
    intros r r' [->|Hr]; [apply vrel_refl; auto|]. cbn in Hr.
    destruct (upd_first_opt _ (rp_groups r)) as [gs|] eqn:E3; inversion Hr; subst.
    apply vrel_set_groups. eapply prel_upd_first_opt; eauto.
  Qed.
End Lift.

(* ---------- commands that do not touch nodes ---------- *)

Ltac k1 I := apply Shrink_K1; [exact I|reflexivity..|].

Lemma create_database_Shrink d n d' : Inv d -> create_database d n = Ok d' -> Shrink d d'.
Proof.
  intros I. unfold create_database.
  destruct (String.eqb n ""); [discriminate|]. destruct (c06_max_name_len <? slen n); [discriminate|].
  destruct (find_db d n); intros H; inversion H; subst; [apply Shrink_refl; auto|].
  k1 I. unfold views; cbn. rewrite flat_map_app; cbn. rewrite app_nil_r. apply pstruct_refl, incl_refl.
Qed.

Lemma drop_database_Shrink d n : Inv d -> Shrink d (drop_database d n).
Proof.
  intros I. unfold drop_database. destruct (find_db d n); [|apply Shrink_refl; auto].
  k1 I. unfold views; cbn. apply pstruct_remove_first, incl_refl.
Qed.

Lemma sgd_pos sgd dur : (0 < normalised_shard_duration sgd dur)%Z.
Proof.
  unfold normalised_shard_duration, shard_group_duration.
  repeat match goal with |- context [if ?b then _ else _] => destruct b eqn:? end;
    unfold c06_sgd_long, c06_sgd_mid, c06_sgd_short, c06_min_rp_duration in *; lia.
Qed.

Lemma create_rp_Shrink d dbn n rep dur sgd df d' :
  Inv d -> create_rp d dbn n rep dur sgd df = Ok d' -> Shrink d d'.
Proof.
  intros I. unfold create_rp.
  destruct (String.eqb n ""); [discriminate|]. destruct (c06_max_name_len <? slen n); [discriminate|].
  destruct (rep <? 1); [discriminate|].
  destruct ((0 <? dur)%Z && (dur <? normalised_shard_duration sgd dur)%Z); [discriminate|].
  destruct (find_db d dbn) as [x|]; [|discriminate].
  destruct (db_rp x n) as [r|].
  - destruct (negb (rp_replica r =? rep) || negb (rp_dur r =? dur)%Z ||
              negb (rp_sgdur r =? normalised_shard_duration sgd dur)%Z); [discriminate|].
    destruct (df && negb (String.eqb (db_default x) n)); [discriminate|].
    intros H; inversion H; subst. apply Shrink_refl; auto.
  - intros H; inversion H; subst. k1 I. apply ps_upd_db; [apply incl_refl|]. intros y.
    assert (G : pstruct (node_ids d) (node_ids d) (rviews y)
                  (rviews (db_set_rps y (db_rps y ++ [Rp n rep dur (normalised_shard_duration sgd dur) [] []])))).
    { unfold rviews; cbn. rewrite map_app; cbn. apply pstruct_snoc; [apply incl_refl|apply sgd_pos]. }
    destruct df; auto.
Qed.

Lemma drop_rp_Shrink d dbn n : Inv d -> Shrink d (drop_rp d dbn n).
Proof.
  intros I. k1 I. apply ps_upd_db; [apply incl_refl|]. intros y. unfold rviews; cbn.
  assert (G : forall l, pstruct (node_ids d) (node_ids d) (map pview l)
                          (map pview (remove_first (fun r => String.eqb (rp_name r) n) l))).
  { induction l; cbn; [apply ps_nil|]. destruct (String.eqb (rp_name a) n).
    - apply ps_drop. apply pstruct_refl, incl_refl.
    - cbn. apply ps_keep; auto. apply vrel_refl, incl_refl. }
  apply G.
Qed.

Lemma update_rp_Shrink d dbn n nn dur rep sgd df d' :
  Inv d -> update_rp d dbn n nn dur rep sgd df = Ok d' -> Shrink d d'.
Proof.
  intros I. unfold update_rp.
  destruct (find_db d dbn) as [x|] eqn:Ex; [|discriminate].
  destruct (db_rp x n) as [r|] eqn:Erp; [|discriminate].
  match goal with |- context [if ?b then Er ERPNameExists else _] => destruct b end; [discriminate|].
  match goal with |- context [if ?b then Er ERPDurationTooLow else _] => destruct b end; [discriminate|].
  match goal with |- context [if ?b then Er EIncompatibleDurations else _] => destruct b end; [discriminate|].
  intros H; inversion H; subst; clear H. k1 I. apply ps_upd_db; [apply incl_refl|]. intros y.
  match goal with |- pstruct _ _ _ (rviews (if ?b then db_set_default ?a ?c else ?a)) =>
    assert (G : pstruct (node_ids d) (node_ids d) (rviews y) (rviews a)); [|destruct b; auto] end.
  apply ps_upd_rp; [apply incl_refl|]. intros r0. split; cbn; [|apply prel_refl, incl_refl].
  destruct sgd; auto. intros _. apply sgd_pos.
Qed.

Lemma delete_shard_group_Shrink d dbn pol id d' :
  Inv d -> delete_shard_group d dbn pol id = Ok d' -> Shrink d d'.
Proof.
  intros I. unfold delete_shard_group.
  destruct (find_db d dbn) as [x|]; [|discriminate]. destruct (find_rp x pol) as [r|]; [|discriminate].
  destruct (existsb _ (rp_groups r)); [|discriminate]. intros H; inversion H; subst.
  k1 I. apply ps_upd_db; [apply incl_refl|]. intros y. apply ps_upd_rp; [apply incl_refl|]. intros r0.
  apply vrel_set_groups. apply prel_upd_first; [apply incl_refl|]. intros g. apply grel_set_deleted, incl_refl.
Qed.

Lemma drop_shard_Shrink d id : Inv d -> Shrink d (drop_shard d id).
Proof.
  intros I. unfold drop_shard.
  assert (P := ps_upd_group_of_shard (node_ids d) (node_ids d) (incl_refl _) d id (remove_shard_from id)
                 (fun g => grel_remove_shard _ _ (incl_refl _) id g)).
  revert P. unfold upd_group_of_shard. destruct (upd_first_opt _ (d_dbs d)); intros P; k1 I; exact P.
Qed.

Lemma copy_shard_owner_Shrink d id nid :
  Inv d -> has_node (d_nodes d) nid = true -> Shrink d (copy_shard_owner d id nid).
Proof.
  intros I Hn. unfold copy_shard_owner.
  assert (Hin : In nid (node_ids d)).
  { unfold has_node in Hn. apply existsb_exists in Hn. destruct Hn as [n [Hn1 Hn2]].
    apply N.eqb_eq in Hn2. subst. unfold node_ids. apply in_map; auto. }
  match goal with |- Shrink d (upd_group_of_shard d id ?h) =>
    assert (P := ps_upd_group_of_shard (node_ids d) (node_ids d) (incl_refl _) d id h
                   (fun g => grel_copy_owner _ _ (incl_refl _) id nid g Hin)) end.
  revert P. unfold upd_group_of_shard. destruct (upd_first_opt _ (d_dbs d)); intros P; k1 I; exact P.
Qed.

Lemma remove_shard_owner_Shrink d id nid : Inv d -> Shrink d (remove_shard_owner d id nid).
Proof.
  intros I. unfold remove_shard_owner.
  match goal with |- Shrink d (upd_group_of_shard d id ?h) =>
    assert (P := ps_upd_group_of_shard (node_ids d) (node_ids d) (incl_refl _) d id h) end.
  assert (G : pstruct (node_ids d) (node_ids d) (views d)
               (views (upd_group_of_shard d id (fun g =>
                  match find (fun s => s_id s =? id) (g_shards g) with
                  | None => g
                  | Some s => match remove_first (N.eqb nid) (s_owners s) with
                              | [] => remove_shard_from id g
                              | _ => g_set_shards g (upd_first (fun s => s_id s =? id)
                                        (fun s0 => s_set_owners s0 (remove_first (N.eqb nid) (s_owners s))) (g_shards g))
                              end
                  end)))).
  { apply P. intros g.
    pose proof (grel_remove_owner (node_ids d) (node_ids d) (incl_refl _) id nid g) as G.
    destruct (find (fun s => s_id s =? id) (g_shards g)); auto.
    destruct (remove_first (N.eqb nid) (s_owners s)); auto. }
  revert G. unfold upd_group_of_shard. destruct (upd_first_opt _ (d_dbs d)); intros G; k1 I; exact G.
Qed.

Lemma truncate_Shrink d t : Inv d -> Shrink d (map_groups (truncate_group t) d).
Proof.
  intros I. k1 I. unfold map_groups.
  apply (ps_map_all _ _ d (map (truncate_group t))).
  intros l. apply prel_map. intros g. apply grel_truncate, incl_refl.
Qed.

Lemma prune_Shrink d ex : Inv d -> Shrink d (prune_groups ex d).
Proof.
  intros I. k1 I. unfold prune_groups.
  apply (ps_map_all _ _ d (filter (fun g => negb (g_deleted g && memN (g_id g) ex)))).
  intros l. apply prel_filter, incl_refl.
Qed.

Lemma views_same_dbs d d' : d_dbs d' = d_dbs d -> views d' = views d.
Proof. unfold views. intros ->. reflexivity. Qed.

Lemma cq_sub_user_Shrink d d' :
  Inv d -> d_nodes d' = d_nodes d -> d_meta d' = d_meta d -> d_max_node d' = d_max_node d ->
  d_max_group d' = d_max_group d -> d_max_shard d' = d_max_shard d -> views d' = views d -> Shrink d d'.
Proof.
  intros I H1 H2 H3 H4 H5 H6. apply Shrink_K1; auto. rewrite H6. apply pstruct_refl, incl_refl.
Qed.

Lemma views_upd_db_same d n F : (forall x, rviews (F x) = rviews x) -> views (upd_db d n F) = views d.
Proof.
  intros H. unfold upd_db, views; cbn. induction (d_dbs d); cbn; auto.
  destruct (String.eqb (db_name a) n); cbn; rewrite ?H, ?IHl; auto.
Qed.

Lemma rviews_upd_rp_same x p f : (forall r, pview (f r) = pview r) -> rviews (upd_rp x p f) = rviews x.
Proof.
  intros H. unfold upd_rp, rviews; cbn. induction (db_rps x); cbn; auto.
  destruct (String.eqb (rp_name a) p); cbn; rewrite ?H, ?IHl; auto.
Qed.

Lemma create_cq_Shrink d dbn n q d' : Inv d -> create_cq d dbn n q = Ok d' -> Shrink d d'.
Proof.
  intros I. unfold create_cq. destruct (find_db d dbn) as [x|]; [|discriminate].
  destruct (find _ (db_cqs x)) as [c|].
  - destruct (String.eqb _ _); intros H; inversion H; subst. apply Shrink_refl; auto.
  - intros H; inversion H; subst. apply cq_sub_user_Shrink; auto. apply views_upd_db_same. reflexivity.
Qed.

Lemma drop_cq_Shrink d dbn n : Inv d -> Shrink d (drop_cq d dbn n).
Proof. intros I. apply cq_sub_user_Shrink; auto. apply views_upd_db_same. reflexivity. Qed.

Lemma create_sub_Shrink d dbn pol n m ds d' : Inv d -> create_sub d dbn pol n m ds = Ok d' -> Shrink d d'.
Proof.
  intros I. unfold create_sub. destruct (negb (forallb snd ds)); [discriminate|].
  destruct (find_db d dbn) as [x|]; [|discriminate]. destruct (find_rp x pol) as [r|]; [|discriminate].
  destruct (existsb _ (rp_subs r)); [discriminate|]. intros H; inversion H; subst.
  apply cq_sub_user_Shrink; auto. apply views_upd_db_same. intros y. apply rviews_upd_rp_same. reflexivity.
Qed.

Lemma drop_sub_Shrink d dbn pol n d' : Inv d -> drop_sub d dbn pol n = Ok d' -> Shrink d d'.
Proof.
  intros I. unfold drop_sub.
  destruct (find_db d dbn) as [x|]; [|discriminate]. destruct (find_rp x pol) as [r|]; [|discriminate].
  destruct (existsb _ (rp_subs r)); [|discriminate]. intros H; inversion H; subst.
  apply cq_sub_user_Shrink; auto. apply views_upd_db_same. intros y. apply rviews_upd_rp_same. reflexivity.
Qed.

Lemma users_Shrink d us a : Inv d -> Shrink d (set_users d us a).
Proof. intros I. apply cq_sub_user_Shrink; auto. Qed.

(* ---------- node commands ---------- *)

Lemma insert_node_perm x l : Permutation (insert_node x l) (x :: l).
Proof.
  induction l; cbn; auto. destruct (n_id a <? n_id x); auto.
  eapply perm_trans; [apply perm_skip, IHl|apply perm_swap].
Qed.
Lemma sort_nodes_perm l : Permutation (sort_nodes l) l.
Proof.
  induction l; cbn; auto. eapply perm_trans; [apply insert_node_perm|auto].
Qed.

Lemma node_ids_snoc_perm l x : Permutation (map n_id (sort_nodes (l ++ [x]))) (n_id x :: map n_id l).
Proof.
  eapply perm_trans; [apply Permutation_map, sort_nodes_perm|].
  rewrite map_app; cbn. apply Permutation_sym, Permutation_cons_append.
Qed.

(* nodes unchanged as a set of IDs, dbs unchanged *)
Lemma Shrink_nodes d d' :
  Inv d -> d_dbs d' = d_dbs d -> d_max_group d' = d_max_group d -> d_max_shard d' = d_max_shard d ->
  d_max_node d <= d_max_node d' -> incl (node_ids d) (node_ids d') ->
  NoDup (node_ids d') ->
  (forall i, In i (node_ids d') -> 1 <= i <= d_max_node d') ->
  (forall n, In n (d_meta d') -> n_id n <= d_max_node d') ->
  (forall i, In i (node_ids d') -> In i (node_ids d) \/ d_max_node d < i \/ exists n, In n (d_meta d) /\ n_id n = i) ->
  Shrink d d'.
Proof.
  intros I Hd Hg Hs Hn Hi H1 H2 H3 H4. constructor; auto.
  rewrite (views_same_dbs _ _ Hd). apply pstruct_refl; auto.
Qed.

Lemma has_node_In l id : has_node l id = true <-> In id (map n_id l).
Proof.
  unfold has_node. rewrite existsb_exists, in_map_iff. split.
  - intros [n [H1 H2]]. apply N.eqb_eq in H2. eauto.
  - intros [n [H1 H2]]. exists n. split; auto. apply N.eqb_eq; auto.
Qed.

Lemma create_data_node_Shrink d a t d' : Inv d -> create_data_node d a t = Ok d' -> Shrink d d'.
Proof.
  intros I. unfold create_data_node. destruct (existsb _ (d_nodes d)); [discriminate|].
  set (ex := match find (fun n => String.eqb (n_tcp n) t) (d_meta d) with Some n => n_id n | None => 0 end).
  assert (Hex : ex = 0 \/ exists n, In n (d_meta d) /\ n_id n = ex).
  { unfold ex. destruct (find _ (d_meta d)) eqn:E; auto. apply find_some in E. right. exists n. intuition. }
  destruct ((ex =? 0) || has_node (d_nodes d) ex) eqn:Ef; intros H; inversion H; subst; clear H.
  - (* fresh ID *)
    apply Shrink_nodes; cbn; auto; try lia; unfold node_ids; cbn.
    + intros i Hi. eapply Permutation_in; [apply Permutation_sym, node_ids_snoc_perm|]. right; auto.
    + eapply Permutation_NoDup; [apply Permutation_sym, node_ids_snoc_perm|]. cbn. constructor; [|apply I].
      intros Hi. apply (inv_nodes_range _ I) in Hi. lia.
    + intros i Hi. eapply Permutation_in in Hi; [|apply node_ids_snoc_perm]. cbn in Hi.
      destruct Hi as [<-|Hi]; [lia|]. apply (inv_nodes_range _ I) in Hi. lia.
    + intros n Hn. apply (inv_meta_range _ I) in Hn. lia.
    + intros i Hi. eapply Permutation_in in Hi; [|apply node_ids_snoc_perm]. cbn in Hi.
      destruct Hi as [<-|Hi]; auto. right; left; lia.
  - (* the ID of the meta node with the same TCP address *)
    apply orb_false_iff in Ef. destruct Ef as [E0 Eh]. apply N.eqb_neq in E0.
    destruct Hex as [?|[n [Hn Hid]]]; [contradiction|].
    assert (Hnot : ~ In ex (map n_id (d_nodes d))).
    { intro Hi. apply has_node_In in Hi. congruence. }
    apply Shrink_nodes; cbn; auto; try lia; unfold node_ids; cbn.
    + intros i Hi. eapply Permutation_in; [apply Permutation_sym, node_ids_snoc_perm|]. right; auto.
    + eapply Permutation_NoDup; [apply Permutation_sym, node_ids_snoc_perm|]. cbn. constructor; [auto|apply I].
    + intros i Hi. eapply Permutation_in in Hi; [|apply node_ids_snoc_perm]. cbn in Hi.
      destruct Hi as [<-|Hi]; [|apply (inv_nodes_range _ I); auto].
      apply (inv_meta_range _ I) in Hn. lia.
    + apply (inv_meta_range _ I).
    + intros i Hi. eapply Permutation_in in Hi; [|apply node_ids_snoc_perm]. cbn in Hi.
      destruct Hi as [<-|Hi]; auto. right; right; eauto.
Qed.

Lemma update_data_node_Shrink d id a t d' : Inv d -> update_data_node d id a t = Ok d' -> Shrink d d'.
Proof.
  intros I. unfold update_data_node. destruct (negb (has_node (d_nodes d) id)); [discriminate|].
  intros H; inversion H; subst; clear H.
  assert (E : node_ids (set_nodes d (upd_first (fun n => n_id n =? id) (fun n => Nd (n_id n) a t) (d_nodes d))) = node_ids d).
  { unfold node_ids; cbn. apply upd_first_map_inv. reflexivity. }
  apply Shrink_nodes; try reflexivity; try (cbn; lia); rewrite ?E; auto; try apply I;
    try apply incl_refl; try apply (inv_nodes_range _ I); try apply (inv_meta_range _ I).
Qed.

Lemma Shrink_meta d d' :
  Inv d -> d_dbs d' = d_dbs d -> d_nodes d' = d_nodes d ->
  d_max_group d' = d_max_group d -> d_max_shard d' = d_max_shard d ->
  d_max_node d <= d_max_node d' ->
  (forall n, In n (d_meta d') -> n_id n <= d_max_node d') -> Shrink d d'.
Proof.
  intros I Hd Hn Hg Hs Hx Hm.
  assert (E : node_ids d' = node_ids d) by (unfold node_ids; rewrite Hn; auto).
  apply Shrink_nodes; auto; rewrite ?E; auto; try apply I.
  - apply incl_refl.
  - intros i Hi. apply (inv_nodes_range _ I) in Hi. lia.
Qed.

Lemma create_meta_node_Shrink d h t d' : Inv d -> create_meta_node d h t = Ok d' -> Shrink d d'.
Proof.
  intros I. unfold create_meta_node. destruct (existsb _ (d_meta d)); [discriminate|].
  set (ex := match find (fun n => String.eqb (n_tcp n) t) (d_nodes d) with Some n => n_id n | None => 0 end).
  assert (Hex : ex <= d_max_node d).
  { unfold ex. destruct (find _ (d_nodes d)) eqn:E; [|lia]. apply find_some in E. destruct E as [E _].
    apply (in_map n_id) in E. apply (inv_nodes_range _ I) in E. lia. }
  destruct (ex =? 0) eqn:E0; intros H; inversion H; subst; clear H; apply Shrink_meta; cbn; auto; try lia;
    intros n Hn; eapply Permutation_in in Hn; try apply sort_nodes_perm; apply in_app_or in Hn;
    (destruct Hn as [Hn|[<-|[]]]; [apply (inv_meta_range _ I) in Hn|]); cbn; lia.
Qed.

Lemma set_meta_node_Shrink d h t d' : Inv d -> set_meta_node d h t = Ok d' -> Shrink d d'.
Proof.
  intros I. unfold set_meta_node. destruct (d_meta d) as [|n [|n2 l]] eqn:E.
  - apply create_meta_node_Shrink; auto.
  - intros H; inversion H; subst. apply Shrink_meta; cbn; auto; try lia.
    intros n0 [<-|[]]. cbn. apply (inv_meta_range _ I). rewrite E. left; auto.
  - discriminate.
Qed.

Lemma delete_meta_node_Shrink d id d' : Inv d -> delete_meta_node d id = Ok d' -> Shrink d d'.
Proof.
  intros I. unfold delete_meta_node. destruct (negb (has_node (d_meta d) id)); [discriminate|].
  destruct (id =? 0); [discriminate|]. intros H; inversion H; subst.
  apply Shrink_meta; cbn; auto; try lia. intros n Hn. apply filter_In in Hn. apply (inv_meta_range _ I), Hn.
Qed.

Lemma set_cluster_Shrink d r : Inv d -> Shrink d (set_cluster_if_unset d r).
Proof.
  intros I. unfold set_cluster_if_unset. destruct (d_cluster d =? 0); [|apply Shrink_refl; auto].
  apply Shrink_K1; auto. apply pstruct_refl, incl_refl.
Qed.

Lemma node_ids_filter d id :
  map n_id (filter (fun n => negb (n_id n =? id)) (d_nodes d)) = filter (fun i => negb (i =? id)) (node_ids d).
Proof.
  unfold node_ids. induction (d_nodes d); cbn; auto. destruct (n_id a =? id); cbn; rewrite IHl; auto.
Qed.

Lemma delete_data_node_Shrink d id d' : Inv d -> delete_data_node d id = Ok d' -> Shrink d d'.
Proof.
  intros I. unfold delete_data_node.
  destruct (List.length _ =? List.length (d_nodes d))%nat; [discriminate|].
  destruct (map_opt _ (d_dbs d)) as [dbs|] eqn:E; [|discriminate]. intros H; inversion H; subst; clear H.
  assert (En : node_ids (set_dbs (set_nodes d (filter (fun n => negb (n_id n =? id)) (d_nodes d))) dbs)
               = filter (fun i => negb (i =? id)) (node_ids d)).
  { unfold node_ids at 1; cbn. apply node_ids_filter. }
  constructor; cbn; auto; try lia;
    try (change (node_ids (set_dbs (set_nodes d (filter (fun n => negb (n_id n =? id)) (d_nodes d))) dbs)) with (map n_id (filter (fun n => negb (n_id n =? id)) (d_nodes d))));
    rewrite ?node_ids_filter.
  - unfold views; cbn. apply views_Forall2.
    eapply Forall2_impl_; [|eapply map_opt_Forall2; eauto]. cbn. intros x y Hy.
    destruct (map_opt _ (db_rps x)) as [rs|] eqn:E2; inversion Hy; subst; clear Hy.
    unfold rviews; cbn. apply rviews_Forall2.
    eapply Forall2_impl_; [|eapply map_opt_Forall2; eauto]. cbn. intros r r' Hr.
    destruct (map_opt _ (rp_groups r)) as [gs|] eqn:E3; inversion Hr; subst; clear Hr.
    apply vrel_set_groups. apply prel_delete_node; auto.
  - split; [|split].
    + eapply subl_NoDup; [apply subl_filter|apply I].
    + intros i Hi. apply filter_In in Hi. apply (inv_nodes_range _ I), Hi.
    + apply (inv_meta_range _ I).
  - intros i Hi. apply filter_In in Hi. left; apply Hi.
Qed.

(* ---------- all commands but CreateShardGroup ---------- *)

Definition is_create_group (c : cmd) : bool :=
  match c with CCreateShardGroup _ _ _ => true | _ => false end.

(* Shrink only looks at views, nodes, meta nodes and counters *)
Definition eqv (a b : data) : Prop :=
  views a = views b /\ d_nodes a = d_nodes b /\ d_meta a = d_meta b /\
  d_max_node a = d_max_node b /\ d_max_group a = d_max_group b /\ d_max_shard a = d_max_shard b.

Lemma Shrink_eqv_l d d1 d2 : eqv d d1 -> Shrink d1 d2 -> Shrink d d2.
Proof.
  intros (Hv & Hn & Hm & Hx & Hg & Hs) S. destruct S as [P G S X N F].
  unfold node_ids in *. constructor; unfold node_ids; rewrite ?Hv, ?Hn, ?Hm, ?Hx, ?Hg, ?Hs; auto.
Qed.

Lemma Shrink_eqv_r d d1 d2 : eqv d1 d2 -> Shrink d d1 -> Shrink d d2.
Proof.
  intros (Hv & Hn & Hm & Hx & Hg & Hs) S. destruct S as [P G S X N F].
  unfold node_ids in *. constructor; unfold node_ids; rewrite <- ?Hv, <- ?Hn, <- ?Hm, <- ?Hx, <- ?Hg, <- ?Hs; auto.
Qed.

Lemma create_database_eqv d n d1 : create_database d n = Ok d1 -> eqv d d1.
Proof.
  unfold create_database. destruct (String.eqb n ""); [discriminate|].
  destruct (c06_max_name_len <? slen n); [discriminate|].
  destruct (find_db d n); intros H; inversion H; subst; unfold eqv; repeat split; auto.
  unfold views; cbn. rewrite flat_map_app; cbn. rewrite app_nil_r. reflexivity.
Qed.

Lemma set_cluster_eqv d r : eqv d (set_cluster_if_unset d r).
Proof. unfold set_cluster_if_unset. destruct (d_cluster d =? 0); unfold eqv; repeat split; auto. Qed.

Lemma exec_Shrink auto ex d c d' :
  Inv d -> is_create_group c = false -> exec auto ex d c = Ok d' -> Shrink d d'.
Proof.
  intros I Hc. destruct c; cbn in Hc; try discriminate; cbn [exec]; intros H.
  - inversion H; subst. apply Shrink_refl; auto.
  - (* CreateDatabase *)
    destruct (create_database d name) as [d1|] eqn:E1; [|discriminate].
    pose proof (create_database_eqv _ _ _ E1) as Q.
    pose proof (Shrink_Inv _ _ I (create_database_Shrink _ _ _ I E1)) as I1.
    destruct rp as [[[[rn rrep] rdur] rsgd]|].
    + destruct (create_rp d1 name rn rrep rdur rsgd true) as [d2|e] eqn:E2.
      * inversion H; subst. eapply Shrink_eqv_l; eauto. eapply create_rp_Shrink; eauto.
      * destruct e; discriminate.
    + destruct auto.
      * eapply Shrink_eqv_l; eauto. eapply create_rp_Shrink; eauto.
      * inversion H; subst. eapply create_database_Shrink; eauto.
  - inversion H; subst. apply drop_database_Shrink; auto.
  - eapply create_rp_Shrink; eauto.
  - inversion H; subst. apply drop_rp_Shrink; auto.
  - eapply update_rp_Shrink; eauto.
  - eapply delete_shard_group_Shrink; eauto.
  - eapply create_cq_Shrink; eauto.
  - inversion H; subst. apply drop_cq_Shrink; auto.
  - eapply create_sub_Shrink; eauto.
  - eapply drop_sub_Shrink; eauto.
  - unfold create_user in H. destruct (String.eqb name ""); [discriminate|].
    destruct (has_user d name); [discriminate|]. inversion H; subst. apply users_Shrink; auto.
  - unfold drop_user in H. destruct (find _ (d_users d)); [|discriminate].
    inversion H; subst. apply users_Shrink; auto.
  - unfold update_user in H. destruct (has_user d name); [|discriminate].
    inversion H; subst. apply users_Shrink; auto.
  - unfold set_privilege in H. destruct (negb (has_user d _)); [discriminate|].
    destruct (find_db d _); [|discriminate]. inversion H; subst. apply users_Shrink; auto.
  - unfold set_admin_privilege in H. destruct (negb (has_user d _)); [discriminate|].
    inversion H; subst. apply users_Shrink; auto.
  - (* CreateMetaNode *)
    inversion H; subst. eapply Shrink_eqv_r; [apply set_cluster_eqv|].
    destruct (create_meta_node d http tcp) eqn:E; [eapply create_meta_node_Shrink; eauto|apply Shrink_refl; auto].
  - eapply delete_meta_node_Shrink; eauto.
  - inversion H; subst. eapply Shrink_eqv_r; [apply set_cluster_eqv|].
    destruct (set_meta_node d http tcp) eqn:E; [eapply set_meta_node_Shrink; eauto|apply Shrink_refl; auto].
  - eapply create_data_node_Shrink; eauto.
  - eapply delete_data_node_Shrink; eauto.
  - eapply update_data_node_Shrink; eauto.
  - inversion H; subst. apply drop_shard_Shrink; auto.
  - inversion H; subst. apply truncate_Shrink; auto.
  - inversion H; subst. apply prune_Shrink; auto.
  - destruct (has_node (d_nodes d) _) eqn:E; [|discriminate]. inversion H; subst.
    apply copy_shard_owner_Shrink; auto.
  - inversion H; subst. apply remove_shard_owner_Shrink; auto.
Qed.
