(* C06/Run.v — correspondence cases.  One case = one command log applied by the harness to
   two independent implementation replicas (A and B, different wall clocks / different
   ageing of deletion stamps).  For replica A the full metadata is observed after every
   command; replica B reports its error class and whether its canonical observable equals
   A's after every command, plus its full final metadata.
   agree   : the model, run with each replica's prune oracle, reproduces A's metadata and
             error class after every command, B's error classes and B's final metadata;
   spec_ok : the OBSERVED values satisfy Spec.state_ok / Spec.step_ok after every command,
             the replicas' observables coincided after every command and at the end.
   result code: 0 agree/spec holds, 1 differ/spec holds, 2 differ/spec fails, 3 agree/spec fails *)
From Verif Require Export C06.Model C06.Eqb C06.Spec.
Open Scope N_scope.

Definition code (agree spec_ok : bool) : N :=
  match agree, spec_ok with
  | true, true => 0 | false, true => 1 | false, false => 2 | true, false => 3
  end.

(* shard groups are compared as sets keyed by ID, privilege maps as sets keyed by database:
   Go's sort.Sort leaves the order of equal keys unspecified and maps are unordered *)
Definition groups_sim (a b : list group) : bool :=
  (List.length a =? List.length b)%nat &&
  forallb (fun g => match find (fun h => g_id h =? g_id g) b with
                    | Some h => group_eqb g h | None => false end) a.
Definition privs_sim (a b : list (string * Z)) : bool :=
  (List.length a =? List.length b)%nat &&
  forallb (fun kv => match find (fun kv' => String.eqb (fst kv') (fst kv)) b with
                     | Some kv' => (snd kv =? snd kv')%Z | None => false end) a.
Definition data_sim : data -> data -> bool := data_eq groups_sim privs_sim.

Record step := St {
  st_idx : N; st_term : N; st_cmd : cmd;
  st_expA : list N;            (* deleted groups replica A pruned at this step *)
  st_errA : N;                 (* error class returned by A's Apply *)
  st_obsA : option data;       (* A's metadata afterwards; None = as before but for Term/Index *)
  st_oidx : N; st_oterm : N;   (* A's Data.Index / Data.Term afterwards *)
  st_expB : list N; st_errB : N;
  st_sameB : bool              (* B's canonical observable = A's (compared by the harness) *)
}.

Inductive case := CLog (auto : bool) (init_obs : data) (steps : list step) (finalB : data).

Fixpoint go (auto : bool) (steps : list step) (mA mB oA : data) (ag sp : bool) : data * data * bool * bool :=
  match steps with
  | [] => (mB, oA, ag, sp)
  | s :: t =>
      let ra := apply auto (st_expA s) mA (st_idx s) (st_term s) (st_cmd s) in
      let rb := apply auto (st_expB s) mB (st_idx s) (st_term s) (st_cmd s) in
      let o := match st_obsA s with Some o => o | None => stamp oA (st_oidx s) (st_oterm s) end in
      let ag' := ag && (err_code (snd ra) =? st_errA s) && data_sim o (fst ra) &&
                 (err_code (snd rb) =? st_errB s) in
      let sp' := sp && state_ok o && step_ok oA (st_cmd s) (st_errA s) o && st_sameB s in
      go auto t (fst ra) (fst rb) o ag' sp'
  end.

Definition check_case (c : case) : N :=
  match c with
  | CLog auto o0 steps fb =>
      match go auto steps init_data init_data o0 (data_sim o0 init_data) (state_ok o0) with
      | (mB, oA, ag, sp) =>
          code (ag && data_sim fb mB)
               (sp && state_ok fb && data_sim (canon fb) (canon oA))
      end
  end.

(* case files write names as string literals (bin/check opens N_scope after importing this) *)
Open Scope string_scope.

(* frequent strings of the harness' name pools, so that case files need not re-parse the
   literals (the harness prints z<i> for pool entry i; any other string is a literal) *)
Definition z0 : string := "".
Definition z1 : string := "db0".
Definition z2 : string := "db1".
Definition z3 : string := "db2".
Definition z4 : string := "_internal".
Definition z5 : string := "rp0".
Definition z6 : string := "rp1".
Definition z7 : string := "autogen".
Definition z8 : string := "week".
Definition z9 : string := "alice".
Definition z10 : string := "bob".
Definition z11 : string := "root".
Definition z12 : string := "h1:8088".
Definition z13 : string := "h2:8088".
Definition z14 : string := "h3:8088".
Definition z15 : string := "h4:8088".
Definition z16 : string := "h5:8088".
Definition z17 : string := "h6:8088".
Definition z18 : string := "h1:8086".
Definition z19 : string := "h2:8086".
Definition z20 : string := "h3:8086".
Definition z21 : string := "h4:8086".
Definition z22 : string := "h5:8086".
Definition z23 : string := "h6:8086".
Definition z24 : string := "h1:8089".
Definition z25 : string := "h2:8089".
Definition z26 : string := "h3:8089".
Definition z27 : string := "h1:8091".
Definition z28 : string := "h2:8091".
Definition z29 : string := "h3:8091".
Definition z30 : string := "h4:8091".
Definition z31 : string := "cq0".
Definition z32 : string := "cq1".
Definition z33 : string := "s0".
Definition z34 : string := "s1".
Definition z35 : string := "ALL".
Definition z36 : string := "ANY".
Definition z37 : string := "h1".
Definition z38 : string := "h2".
Definition z39 : string := "h3".
Definition z40 : string := "SELECT mean(v) INTO a FROM b GROUP BY time(1m)".
Definition z41 : string := "select MEAN(v) into a from b group by TIME(1m)".
Definition z42 : string := "SELECT max(v) INTO c FROM b GROUP BY time(5m)".
Definition z43 : string := "udp://h1:9000".
Definition z44 : string := "http://h2:9001".
Definition z45 : string := "https://h3:9002".
Definition z46 : string := "ftp://h1:21".
Definition z47 : string := "http://noport".
Definition z48 : string := "://bad".
Definition z49 : string := "udp://h9:1".
Definition z50 : string := "h9:8088".
Definition z51 : string := "x".
