(* C06/ProofsCreate.v — CreateShardGroup: the new group is disjoint from the live groups
   of its policy, its IDs are fresh, its owners are distinct existing data nodes. *)
From Verif Require Import C06.Model C06.Eqb C06.Spec C06.ListLemmas C06.Inv C06.ProofsGroup C06.ProofsCmd.
From VerifGen Require Import Consts.
From Coq Require Import Lia Permutation.
From Coq Require Import ZifyBool ZifyNat ZifyN.
Open Scope N_scope.

(* ---------- sorting is a permutation ---------- *)

Lemma insert_group_perm x l : Permutation (insert_group x l) (x :: l).
Proof.
  induction l; cbn; auto. destruct (g_less a x); auto.
  eapply perm_trans; [apply perm_skip, IHl|apply perm_swap].
Qed.
Lemma sort_groups_perm l : Permutation (sort_groups l) l.
Proof. induction l; cbn; auto. eapply perm_trans; [apply insert_group_perm|auto]. Qed.

Lemma sort_snoc_perm l g : Permutation (sort_groups (l ++ [g])) (g :: l).
Proof. eapply perm_trans; [apply sort_groups_perm|]. apply Permutation_sym, Permutation_cons_append. Qed.

(* ---------- locating the updated policy ---------- *)

Lemma find_upd_first {A} (p : A -> bool) f l x :
  find p l = Some x -> exists a b, l = a ++ x :: b /\ upd_first p f l = a ++ f x :: b.
Proof.
  induction l as [|y t IH]; cbn; [discriminate|]. destruct (p y) eqn:E.
  - intros H; inversion H; subst. exists [], t; auto.
  - intros H. destruct (IH H) as (a & b & -> & Hu). exists (y :: a), b. cbn. rewrite Hu. auto.
Qed.

Lemma views_upd_rp_found d dbn pol x r f :
  find_db d dbn = Some x -> find_rp x pol = Some r ->
  exists A B, views d = A ++ pview r :: B /\
              views (upd_db d dbn (fun x => upd_rp x pol f)) = A ++ pview (f r) :: B.
Proof.
  intros Hx Hr. unfold find_db in Hx. unfold find_rp in Hr.
  destruct (find_upd_first _ (fun x => upd_rp x pol f) _ _ Hx) as (a & b & Ea & Eb).
  destruct (find_upd_first _ f _ _ Hr) as (a2 & b2 & Ea2 & Eb2).
  exists (flat_map rviews a ++ map pview a2), (map pview b2 ++ flat_map rviews b).
  unfold views, upd_db; cbn. rewrite Eb, Ea. rewrite !flat_map_app; cbn.
  unfold rviews at 2 4. unfold upd_rp; cbn. rewrite Eb2, Ea2. rewrite !map_app; cbn.
  rewrite <- !app_assoc; cbn. auto.
Qed.

Lemma policies_upd_rp_found d dbn pol x r f :
  find_db d dbn = Some x -> find_rp x pol = Some r ->
  exists A B, all_policies d = A ++ r :: B /\
              all_policies (upd_db d dbn (fun x => upd_rp x pol f)) = A ++ f r :: B.
Proof.
  intros Hx Hr. unfold find_db in Hx. unfold find_rp in Hr.
  destruct (find_upd_first _ (fun x => upd_rp x pol f) _ _ Hx) as (a & b & Ea & Eb).
  destruct (find_upd_first _ f _ _ Hr) as (a2 & b2 & Ea2 & Eb2).
  exists (flat_map db_rps a ++ a2), (b2 ++ flat_map db_rps b).
  unfold all_policies, upd_db; cbn. rewrite Eb, Ea. rewrite !flat_map_app; cbn.
  unfold upd_rp; cbn. rewrite Eb2, Ea2. rewrite <- !app_assoc; cbn. auto.
Qed.

Lemma vgroups_app a b : vgroups (a ++ b) = vgroups a ++ vgroups b.
Proof. unfold vgroups. apply flat_map_app. Qed.

(* ---------- the time range of the new group ---------- *)

Lemma time_truncate_bounds t d : (0 < d)%Z -> (time_truncate t d <= t < time_truncate t d + d)%Z.
Proof.
  intros Hd. unfold time_truncate. destruct (d <=? 0)%Z eqn:E; [lia|].
  pose proof (Z.mod_pos_bound (t + unix_to_internal_ns) d Hd). lia.
Qed.

Lemma not_covers t g : range_ok g -> live g -> g_covers t g = false ->
  (g_hi g <= t)%Z \/ (t < g_start g)%Z.
Proof.
  intros [R1 R2] L. unfold live in L. unfold g_covers, g_hi. rewrite L.
  destruct (g_trunc g) as [ta|]; [specialize (R2 _ eq_refl)|]; lia.
Qed.

Lemma eff_end_hi g : range_ok g -> eff_end g = g_hi g.
Proof.
  intros [R1 R2]. unfold eff_end, g_hi. destruct (g_trunc g) as [ta|]; [specialize (R2 _ eq_refl)|]; lia.
Qed.

Lemma clip_range_mono t l : forall s0 e0,
  (fst (clip_range t l (s0, e0)) >= s0)%Z /\ (snd (clip_range t l (s0, e0)) <= e0)%Z.
Proof.
  unfold clip_range. induction l as [|g l IH]; cbn; intros s0 e0; [lia|].
  destruct (g_deleted g); [apply IH|].
  match goal with |- context [fold_left _ l (?a, ?b)] => destruct (IH a b) as [H1 H2] end.
  split; [eapply Z.le_ge, Z.le_trans; [|apply Z.ge_le, H1]|eapply Z.le_trans; [apply H2|]];
    repeat match goal with |- context [if ?b then _ else _] => destruct b eqn:? end; lia.
Qed.

Lemma clip_range_spec t l : forall s0 e0,
  (s0 <= t)%Z -> (t <= e0)%Z ->
  (forall g, In g l -> live g -> range_ok g /\ g_covers t g = false) ->
  let se := clip_range t l (s0, e0) in
  (fst se <= t)%Z /\ (t <= snd se)%Z /\
  forall g, In g l -> live g -> (g_hi g <= fst se)%Z \/ (snd se <= g_start g)%Z.
Proof.
  induction l as [|g l IH]; intros s0 e0 Hs He Hg; cbn.
  - repeat split; auto. intros ? [].
  - unfold clip_range; cbn. destruct (g_deleted g) eqn:Ed.
    + destruct (IH s0 e0 Hs He) as (A & B & C); [intros; apply Hg; cbn; auto|].
      repeat split; auto. intros g0 [<-|Hi] L; [unfold live in L; congruence|auto].
    + destruct (Hg g (or_introl eq_refl) Ed) as [R NC].
      pose proof (not_covers t g R Ed NC) as Hnc. rewrite <- (eff_end_hi g R) in Hnc.
      set (s1 := if (eff_end g <=? t)%Z && (s0 <? eff_end g)%Z then eff_end g else s0).
      set (e1 := if (t <? g_start g)%Z && (g_start g <? e0)%Z then g_start g else e0).
      assert (Hs1 : (s1 <= t)%Z) by (unfold s1; destruct ((eff_end g <=? t)%Z && (s0 <? eff_end g)%Z) eqn:E; lia).
      assert (He1 : (t <= e1)%Z) by (unfold e1; destruct ((t <? g_start g)%Z && (g_start g <? e0)%Z) eqn:E; lia).
      destruct (IH s1 e1 Hs1 He1) as (A & B & C); [intros; apply Hg; cbn; auto|].
      fold (clip_range t l (s1, e1)) in *.
      repeat split; auto. intros g0 [<-|Hi] L; [|auto].
      destruct (clip_range_mono t l s1 e1) as [M1 M2]. rewrite <- (eff_end_hi g R).
      destruct Hnc as [Hnc|Hnc].
      * left. assert (eff_end g <= s1)%Z; [|lia].
        unfold s1. destruct ((eff_end g <=? t)%Z && (s0 <? eff_end g)%Z) eqn:E; lia.
      * right. assert (e1 <= g_start g)%Z; [|lia].
        unfold e1. destruct ((t <? g_start g)%Z && (g_start g <? e0)%Z) eqn:E; lia.
Qed.

(* ---------- arguments have their Go types ---------- *)

(* CreateShardGroupCommand.Timestamp is an int64 *)
Definition cmd_wf (c : cmd) : Prop :=
  match c with
  | CCreateShardGroup _ _ t => (- (c06_max_nano_time + 2) <= t <= c06_max_nano_time + 1)%Z
  | _ => True
  end.

(* ---------- owners of the new shards ---------- *)

Lemma NoDup_map_inj_on {A B} (f : A -> B) l :
  (forall x y, In x l -> In y l -> f x = f y -> x = y) -> NoDup l -> NoDup (map f l).
Proof.
  induction l; cbn; intros Hi Hd; [constructor|]. inversion Hd; subst. constructor.
  - intros Hin. apply in_map_iff in Hin. destruct Hin as [y [Hy Hin]].
    assert (y = a) by (apply Hi; auto). subst. contradiction.
  - apply IHl; auto.
Qed.

Lemma mod_add_inj c a b n : 0 < n -> a < n -> b < n -> (c + a) mod n = (c + b) mod n -> a = b.
Proof.
  intros Hn Ha Hb H.
  pose proof (N.div_mod' (c + a) n) as E1. pose proof (N.div_mod' (c + b) n) as E2.
  rewrite H in E1.
  set (q1 := (c + a) / n) in *. set (q2 := (c + b) / n) in *. set (m := (c + b) mod n) in *.
  destruct (N.lt_trichotomy q1 q2) as [L|[L|L]].
  - assert (n * (q1 + 1) <= n * q2) by (apply N.mul_le_mono_l; lia). lia.
  - subst. lia.
  - assert (n * (q2 + 1) <= n * q1) by (apply N.mul_le_mono_l; lia). lia.
Qed.

Lemma rr_owners_ok ids start rep i :
  NoDup ids -> 1 <= rep <= llen ids ->
  NoDup (rr_owners ids start rep i) /\ incl (rr_owners ids start rep i) ids /\
  llen (rr_owners ids start rep i) = rep.
Proof.
  intros Hd Hr. unfold rr_owners, llen in *.
  set (n := N.of_nat (List.length ids)) in *.
  assert (Hidx : forall j, (N.to_nat ((start + N.of_nat i * rep + N.of_nat j) mod n) < List.length ids)%nat).
  { intros j. pose proof (N.mod_lt (start + N.of_nat i * rep + N.of_nat j) n ltac:(lia)). lia. }
  split; [|split].
  - apply NoDup_map_inj_on; [|apply seq_NoDup].
    intros x y Hx Hy E. apply in_seq in Hx, Hy.
    rewrite NoDup_nth in Hd. apply Hd in E; auto.
    assert (E' : (start + N.of_nat i * rep + N.of_nat x) mod n = (start + N.of_nat i * rep + N.of_nat y) mod n) by lia.
    apply mod_add_inj in E'; lia.
  - intros o Ho. apply in_map_iff in Ho. destruct Ho as [j [<- _]]. apply nth_In, Hidx.
  - rewrite map_length, seq_length. lia.
Qed.

Lemma shard_n_aux_le fuel : forall s r n, s <= shard_n_aux fuel s r n <= s + N.of_nat fuel.
Proof.
  induction fuel; cbn; intros s r n; [lia|].
  destruct ((s * r) mod n =? 0); [lia|]. specialize (IHfuel (s + 1) r n). lia.
Qed.

(* ---------- the new group ---------- *)

Section NewGroup.
  Variables (d : data) (r : policy) (t : Z).
  Hypothesis I : Inv d.
  Hypothesis Hnodes : d_nodes d <> [].
  Hypothesis Hview : In (pview r) (views d).
  Hypothesis Ht : (min_unix_nano <= t <= c06_max_nano_time + 1)%Z.
  Hypothesis Hcov : existsb (g_covers t) (rp_groups r) = false.

  Let g := new_group d r t.
  Let n := llen (d_nodes d).
  Let rep := if rp_replica r =? 0 then 1 else if n <? rp_replica r then n else rp_replica r.

  Lemma n_pos : 1 <= n.
  Proof. unfold n, llen. destruct (d_nodes d); [contradiction|cbn; lia]. Qed.

  Lemma rep_bounds : 1 <= rep <= n.
  Proof. pose proof n_pos. unfold rep. destruct (rp_replica r =? 0) eqn:E; [lia|]. destruct (n <? rp_replica r) eqn:E2; lia. Qed.

  Lemma rep_spec : rep = N.min (N.max (rp_replica r) 1) n.
  Proof. pose proof n_pos. unfold rep. destruct (rp_replica r =? 0) eqn:E; [lia|]. destruct (n <? rp_replica r) eqn:E2; lia. Qed.

  Lemma view_r_ok : (0 < rp_sgdur r)%Z /\ pol_ok (rp_groups r).
  Proof.
    pose proof (inv_views _ I) as Hv. rewrite Forall_forall in Hv. apply (Hv _ Hview).
  Qed.

  Lemma new_group_id : g_id g = d_max_group d + 1 /\ live g /\ g_trunc g = None.
  Proof. unfold g, new_group; cbn. repeat split. Qed.

  Lemma new_group_range :
    range_ok g /\ forall h, In h (rp_groups r) -> live h -> disj h g.
  Proof.
    destruct view_r_ok as [Hsg [Hr Hd]].
    pose proof (time_truncate_bounds t (rp_sgdur r) Hsg) as Hb.
    set (s00 := time_truncate t (rp_sgdur r)) in *.
    set (e0 := if (c06_max_nano_time <? s00 + rp_sgdur r)%Z then (c06_max_nano_time + 1)%Z else (s00 + rp_sgdur r)%Z).
    set (s0 := if (s00 <? min_unix_nano)%Z then min_unix_nano else s00).
    assert (He0 : (t <= e0)%Z) by (unfold e0; destruct (c06_max_nano_time <? s00 + rp_sgdur r)%Z; lia).
    assert (Hs0 : (s0 <= t)%Z) by (unfold s0; destruct (s00 <? min_unix_nano)%Z; lia).
    destruct (clip_range_spec t (rp_groups r) s0 e0) as (A & B & C); [lia|auto| |].
    { intros h Hh L. split; [apply Hr; auto|].
      rewrite <- not_true_iff_false. intros Hc.
      assert (existsb (g_covers t) (rp_groups r) = true); [|congruence].
      apply existsb_exists. eauto. }
    assert (Es : g_start g = fst (clip_range t (rp_groups r) (s0, e0))) by reflexivity.
    assert (Ee : g_end g = snd (clip_range t (rp_groups r) (s0, e0))) by reflexivity.
    split.
    - split; [lia|]. cbn. discriminate.
    - intros h Hh L. unfold disj. rewrite Es. destruct (C h Hh L) as [H|H]; [left; auto|right].
      unfold g_hi at 1. cbn [g_trunc g new_group]. rewrite Ee. auto.
  Qed.

  Lemma new_group_shard_ids :
    map s_id (g_shards g) = map (fun i => d_max_shard d + 1 + N.of_nat i) (seq 0 (N.to_nat (shard_n rep n))) /\
    llen (g_shards g) = shard_n rep n /\ 1 <= shard_n rep n.
  Proof.
    unfold g, new_group; cbn. fold n. fold rep. rewrite map_map; cbn. split; [reflexivity|]. split.
    - unfold llen. rewrite map_length, seq_length. lia.
    - unfold shard_n. pose proof (shard_n_aux_le (N.to_nat n) 1 rep n). lia.
  Qed.

  Lemma new_group_sids_fresh :
    NoDup (map s_id (g_shards g)) /\
    forall i, In i (map s_id (g_shards g)) -> d_max_shard d < i <= d_max_shard d + llen (g_shards g).
  Proof.
    destruct new_group_shard_ids as (E & L & _). rewrite E, L. split.
    - apply NoDup_map_inj_on; [|apply seq_NoDup]. intros; lia.
    - intros i Hi. apply in_map_iff in Hi. destruct Hi as [j [<- Hj]]. apply in_seq in Hj. lia.
  Qed.

  Lemma new_group_owners s :
    In s (g_shards g) ->
    own_ok (node_ids d) s /\ llen (s_owners s) = rep.
  Proof.
    unfold g, new_group; cbn. fold n. fold rep. intros Hs. apply in_map_iff in Hs.
    destruct Hs as [i [<- _]]. cbn.
    destruct (rr_owners_ok (map n_id (d_nodes d)) (d_index d mod n) rep i) as (A & B & C).
    - apply I.
    - pose proof rep_bounds. unfold n, llen in *. rewrite map_length. lia.
    - repeat split; auto.
  Qed.
End NewGroup.

(* ---------- the whole command ---------- *)

Lemma pol_ok_perm l l' : Permutation l l' -> pol_ok l -> pol_ok l'.
Proof.
  intros P [H1 H2]. split.
  - intros g Hg. apply H1. eapply Permutation_in; [apply Permutation_sym|]; eauto.
  - intros a b Ha Hb. apply H2; eapply Permutation_in; try (apply Permutation_sym; exact P); auto.
Qed.

Lemma disj_sym a b : disj a b -> disj b a.
Proof. unfold disj. tauto. Qed.

Lemma pol_ok_cons g l :
  range_ok g -> (forall h, In h l -> live h -> disj h g) -> pol_ok l -> pol_ok (g :: l).
Proof.
  intros R D [H1 H2]. split.
  - intros x [<-|Hx]; auto.
  - intros a b [<-|Ha] [<-|Hb] Hne La Lb; auto.
    + congruence.
    + apply disj_sym; auto.
Qed.

Lemma Permutation_flat_map_ {A B} (f : A -> list B) l l' :
  Permutation l l' -> Permutation (flat_map f l) (flat_map f l').
Proof.
  induction 1; cbn; auto.
  - apply Permutation_app_head; auto.
  - rewrite !app_assoc. apply Permutation_app_tail, Permutation_app_comm.
  - eapply perm_trans; eauto.
Qed.

(* what a successful CreateShardGroup that creates something did *)
Record Created (d d' : data) (r : policy) (g : group) : Prop := {
  cr_pols : exists A B, all_policies d = A ++ r :: B /\
                        all_policies d' = A ++ rp_set_groups r (sort_groups (rp_groups r ++ [g])) :: B;
  cr_nodes : d_nodes d' = d_nodes d;
  cr_meta : d_meta d' = d_meta d;
  cr_maxn : d_max_node d' = d_max_node d;
  cr_maxg : d_max_group d' = d_max_group d + 1;
  cr_maxs : d_max_shard d' = d_max_shard d + llen (g_shards g);
  cr_nonempty : d_nodes d <> []
}.

Lemma create_shard_group_cases d dbn pol t d' :
  create_shard_group d dbn pol t = Ok d' ->
  d' = d \/ exists r, Created d d' r (new_group d r t) /\ existsb (g_covers t) (rp_groups r) = false.
Proof.
  unfold create_shard_group. destruct (d_nodes d) as [|n0 ns] eqn:En; [intros H; inversion H; auto|].
  destruct (find_db d dbn) as [x|] eqn:Ex; [|discriminate].
  destruct (find_rp x pol) as [r|] eqn:Erp; [|discriminate].
  destruct (existsb (g_covers t) (rp_groups r)) eqn:Ec; intros H; inversion H; subst; clear H; auto.
  right. exists r. split; auto. constructor; cbn; auto; try congruence.
  destruct (policies_upd_rp_found d dbn pol x r
              (fun r0 => rp_set_groups r0 (sort_groups (rp_groups r0 ++ [new_group d r t]))) Ex Erp) as (A & B & E1 & E2).
  exists A, B. split; auto.
Qed.

Lemma cr_views d d' r g : Created d d' r g ->
  exists A B, views d = A ++ pview r :: B /\
              views d' = A ++ (rp_sgdur r, sort_groups (rp_groups r ++ [g])) :: B.
Proof.
  intros C. destruct (cr_pols _ _ _ _ C) as (A & B & E1 & E2).
  exists (map pview A), (map pview B). rewrite <- !all_policies_views, E1, E2, !map_app. cbn. auto.
Qed.

Lemma Created_perm d d' r g :
  Created d d' r g -> Permutation (vgroups (views d')) (g :: vgroups (views d)).
Proof.
  intros C. destruct (cr_views _ _ _ _ C) as (A & B & E1 & E2). rewrite E1, E2.
  rewrite !vgroups_app. rewrite !vgroups_cons. cbn [snd pview].
  eapply perm_trans; [apply Permutation_app_head, Permutation_app_tail, sort_snoc_perm|].
  cbn. apply Permutation_sym, Permutation_middle.
Qed.

Lemma Created_Inv d d' r t :
  Inv d -> (min_unix_nano <= t <= c06_max_nano_time + 1)%Z ->
  Created d d' r (new_group d r t) -> existsb (g_covers t) (rp_groups r) = false -> Inv d'.
Proof.
  intros I Ht C Hcov. set (g := new_group d r t) in *.
  destruct (cr_views _ _ _ _ C) as (A & B & E1 & E2).
  assert (Hview : In (pview r) (views d)) by (rewrite E1; apply in_or_app; right; left; auto).
  pose proof (cr_nonempty _ _ _ _ C) as Hne.
  pose proof (Created_perm _ _ _ _ C) as P.
  destruct (new_group_id d r t) as (Gid & Glive & Gtr). fold g in Gid, Glive, Gtr.
  destruct (new_group_sids_fresh d r t Hcov) as (Sn & Sf). fold g in Sn, Sf.
  assert (En : node_ids d' = node_ids d) by (unfold node_ids; rewrite (cr_nodes _ _ _ _ C); auto).
  constructor.
  - rewrite En. apply I.
  - rewrite En, (cr_maxn _ _ _ _ C). apply (inv_nodes_range _ I).
  - rewrite (cr_meta _ _ _ _ C), (cr_maxn _ _ _ _ C). apply (inv_meta_range _ I).
  - eapply Permutation_NoDup; [apply Permutation_sym, Permutation_map, P|]. cbn. constructor; [|apply I].
    intros Hi. apply (inv_gids_max _ I) in Hi. lia.
  - intros i Hi. eapply Permutation_in in Hi; [|apply Permutation_map, P]. cbn in Hi.
    rewrite (cr_maxg _ _ _ _ C). destruct Hi as [<-|Hi]; [lia|]. apply (inv_gids_max _ I) in Hi. lia.
  - eapply Permutation_NoDup; [apply Permutation_sym, Permutation_map, Permutation_flat_map_, P|]. cbn.
    rewrite map_app. apply NoDup_app_intro; auto; [apply I|].
    intros x Hx Hy. apply Sf in Hx. apply (inv_sids_max _ I) in Hy. lia.
  - intros i Hi. eapply Permutation_in in Hi; [|apply Permutation_map, Permutation_flat_map_, P]. cbn in Hi.
    rewrite map_app in Hi. rewrite (cr_maxs _ _ _ _ C). apply in_app_or in Hi. destruct Hi as [Hi|Hi].
    + apply Sf in Hi. lia.
    + apply (inv_sids_max _ I) in Hi. lia.
  - intros s Hs. eapply Permutation_in in Hs; [|apply Permutation_flat_map_, P]. cbn in Hs.
    rewrite En. apply in_app_or in Hs. destruct Hs as [Hs|Hs]; [|apply (inv_owners _ I); auto].
    apply (new_group_owners d r t I Hne Hcov s Hs).
  - pose proof (inv_views _ I) as Hv. rewrite E1 in Hv. rewrite E2.
    apply Forall_app in Hv. destruct Hv as [Ha Hb]. inversion Hb as [|? ? Hr Hb']; subst.
    apply Forall_app. split; auto. constructor; auto. destruct Hr as [Hsg Hp]. split; auto. cbn [snd fst] in *.
    eapply pol_ok_perm; [apply Permutation_sym, sort_snoc_perm|].
    destruct (new_group_range d r t I Hview Ht Hcov) as [Rg Dg].
    apply pol_ok_cons; auto.
Qed.

(* ---------- CreateShardGroup is idempotent ---------- *)

Lemma clip_range_bounds t l : forall s0 e0,
  (s0 <= t)%Z -> (t < e0)%Z ->
  (fst (clip_range t l (s0, e0)) <= t)%Z /\ (t < snd (clip_range t l (s0, e0)))%Z.
Proof.
  unfold clip_range. induction l as [|g l IH]; cbn; intros s0 e0 Hs He; [lia|].
  destruct (g_deleted g); [apply IH; auto|].
  apply IH; repeat match goal with |- context [if ?b then _ else _] => destruct b eqn:? end; lia.
Qed.

Lemma find_upd_first_same {A} (p : A -> bool) f l x :
  find p l = Some x -> p (f x) = true -> find p (upd_first p f l) = Some (f x).
Proof.
  induction l as [|y t IH]; cbn; [discriminate|]. destruct (p y) eqn:E.
  - intros H Hp; inversion H; subst. cbn. rewrite Hp. reflexivity.
  - intros H Hp. cbn. rewrite E. auto.
Qed.

(* "there is nothing to create": no data node, or a live group of the policy holds t *)
Definition Covered (d : data) (dbn pol : string) (t : Z) : Prop :=
  d_nodes d = [] \/
  exists x r, find_db d dbn = Some x /\ find_rp x pol = Some r /\ existsb (g_covers t) (rp_groups r) = true.

Lemma Covered_noop d dbn pol t : Covered d dbn pol t -> create_shard_group d dbn pol t = Ok d.
Proof.
  unfold create_shard_group. intros [H|(x & r & Hx & Hr & Hc)].
  - rewrite H. reflexivity.
  - destruct (d_nodes d); auto. rewrite Hx, Hr, Hc. reflexivity.
Qed.

Lemma create_shard_group_Covered d dbn pol t d1 :
  Inv d -> (min_unix_nano <= t <= c06_max_nano_time)%Z -> create_shard_group d dbn pol t = Ok d1 -> Covered d1 dbn pol t.
Proof.
  intros I Ht. unfold create_shard_group. destruct (d_nodes d) as [|n0 ns] eqn:En.
  { intros H; inversion H; subst. left; auto. }
  destruct (find_db d dbn) as [x|] eqn:Ex; [|discriminate].
  destruct (find_rp x pol) as [r|] eqn:Erp; [|discriminate].
  destruct (existsb (g_covers t) (rp_groups r)) eqn:Ec; intros H; inversion H; subst; clear H.
  { right. exists x, r. auto. }
  right. set (g := new_group d r t).
  set (F := fun r0 : policy => rp_set_groups r0 (sort_groups (rp_groups r0 ++ [g]))).
  exists (upd_rp x pol F), (F r). split; [|split].
  - unfold find_db, upd_db; cbn [d_dbs set_dbs set_group_counters].
    apply (find_upd_first_same (fun y => String.eqb (db_name y) dbn) (fun y => upd_rp y pol F)); auto.
    cbn. unfold find_db in Ex. apply find_some in Ex. apply Ex.
  - unfold find_rp, upd_rp; cbn [db_rps db_set_rps].
    apply (find_upd_first_same (fun y => String.eqb (rp_name y) pol) F); auto.
    cbn. unfold find_rp in Erp. apply find_some in Erp. apply Erp.
  - cbn [F rp_groups rp_set_groups]. apply existsb_exists. exists g. split.
    + eapply Permutation_in; [apply Permutation_sym, sort_snoc_perm|left; auto].
    + assert (Hview : In (pview r) (views d)).
      { rewrite <- all_policies_views. apply in_map. unfold all_policies. apply in_flat_map.
        unfold find_db in Ex. apply find_some in Ex. unfold find_rp in Erp. apply find_some in Erp.
        exists x. intuition. }
      pose proof (inv_views _ I) as Hv. rewrite Forall_forall in Hv. destruct (Hv _ Hview) as [Hsg _]. cbn in Hsg.
      pose proof (time_truncate_bounds t (rp_sgdur r) Hsg) as Hb.
      set (s00 := time_truncate t (rp_sgdur r)) in *.
      set (e0 := if (c06_max_nano_time <? s00 + rp_sgdur r)%Z then (c06_max_nano_time + 1)%Z else (s00 + rp_sgdur r)%Z).
      set (s0 := if (s00 <? min_unix_nano)%Z then min_unix_nano else s00).
      assert (He0 : (t < e0)%Z) by (unfold e0; destruct (c06_max_nano_time <? s00 + rp_sgdur r)%Z; lia).
      assert (Hs0 : (s0 <= t)%Z) by (unfold s0; destruct (s00 <? min_unix_nano)%Z; lia).
      destruct (clip_range_bounds t (rp_groups r) s0 e0) as [A B]; [lia|auto|].
      assert (Es : g_start g = fst (clip_range t (rp_groups r) (s0, e0))) by reflexivity.
      assert (Ee : g_end g = snd (clip_range t (rp_groups r) (s0, e0))) by reflexivity.
      unfold g_covers. rewrite Es, Ee. cbn [g_deleted g_trunc g new_group].
      apply andb_true_iff; split; [apply andb_true_iff; split; [apply andb_true_iff; split|]|]; auto; lia.
Qed.
