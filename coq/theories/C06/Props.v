(* C06/Props.v — property theorems only.  Everything is about the Gallina model of
   services/meta (Model.v): [apply] mirrors storeFSM.Apply, [canon] is the observable named
   by the property.  A metadata value is [reachable] when some finite sequence of commands
   with arbitrary arguments (of their Go types: [cmd_wf]) and arbitrary per-replica prune
   oracles produces it from the initial value.
   Excluded commands (not constructors of Model.cmd): SetDataCommand and the pre-0.10
   CreateNodeCommand / UpdateNodeCommand / DeleteNodeCommand. *)
From Verif Require Import C06.Model C06.Eqb C06.Spec C06.ListLemmas C06.Inv C06.ProofsCmd
  C06.ProofsCreate C06.Proofs C06.ProofsDet.
From VerifGen Require Import Consts.
From Coq Require Import Lia.
Open Scope N_scope.

(* the command table of the switch in storeFSM.Apply, re-read from the source, is exactly
   the modelled commands plus the four excluded ones *)
Theorem apply_switch_covered :
  forallb (fun t => memN t modelled_types || memN t excluded_types) c06_apply_switch = true /\
  forallb (fun t => memN t c06_apply_switch) (modelled_types ++ excluded_types) = true.
Proof. exact switch_covered. Qed.
Print Assumptions apply_switch_covered.

(* every replica's value after any log is reachable *)
Theorem run_reachable : forall auto orc es, log_wf es -> reachable auto (run auto orc es).
Proof. exact Proofs.run_reachable. Qed.
Print Assumptions run_reachable.

(* a rejected command changes nothing but the Term/Index stamp: for EVERY value d *)
Theorem rejected_unchanged :
  forall auto expired d idx term c,
    snd (apply auto expired d idx term c) <> ENone ->
    fst (apply auto expired d idx term c) = stamp d idx term.
Proof. exact Proofs.rejected_unchanged. Qed.
Print Assumptions rejected_unchanged.

(* shard and shard-group IDs are unique and never above their counters ... *)
Theorem ids_unique :
  forall auto d, reachable auto d ->
    NoDup (group_ids d) /\ (forall i, In i (group_ids d) -> i <= d_max_group d) /\
    NoDup (shard_ids d) /\ (forall i, In i (shard_ids d) -> i <= d_max_shard d) /\
    NoDup (node_ids d) /\ (forall i, In i (node_ids d) -> 1 <= i <= d_max_node d).
Proof. exact Proofs.ids_unique. Qed.
Print Assumptions ids_unique.

(* ... and never reused: whatever command comes next, the counters do not decrease and an
   ID that was not there before is above the old counter (also across prune and drop) *)
Theorem ids_fresh :
  forall auto d expired idx term c, reachable auto d -> cmd_wf c ->
    let d' := fst (apply auto expired d idx term c) in
    d_max_node d <= d_max_node d' /\ d_max_group d <= d_max_group d' /\ d_max_shard d <= d_max_shard d' /\
    (forall i, In i (group_ids d') -> In i (group_ids d) \/ d_max_group d < i) /\
    (forall i, In i (shard_ids d') -> In i (shard_ids d) \/ d_max_shard d < i).
Proof. exact Proofs.ids_fresh. Qed.
Print Assumptions ids_fresh.

(* no shard is owned by anything but a current data node, each owner once; in particular
   after a successful DeleteDataNode id nothing lists id *)
Theorem owners_are_data_nodes :
  forall auto d, reachable auto d ->
    forall s, In s (all_shards d) -> NoDup (s_owners s) /\ forall o, In o (s_owners s) -> In o (node_ids d).
Proof. exact Proofs.owners_are_data_nodes. Qed.
Print Assumptions owners_are_data_nodes.

Theorem delete_node_strips :
  forall auto d expired idx term id, reachable auto d ->
    snd (apply auto expired d idx term (CDeleteDataNode id)) = ENone ->
    let d' := fst (apply auto expired d idx term (CDeleteDataNode id)) in
    ~ In id (node_ids d') /\ forall s, In s (all_shards d') -> ~ In id (s_owners s).
Proof. exact Proofs.delete_node_strips. Qed.
Print Assumptions delete_node_strips.

(* a shard group that appears: every shard has min(max(ReplicaN,1), #data nodes) owners,
   pairwise distinct, all current data nodes, and every data node owns the same number of
   shard copies of the group *)
Theorem owners_even_distinct :
  forall auto d expired idx term c, reachable auto d -> cmd_wf c ->
    let d' := fst (apply auto expired d idx term c) in
    forall r g, In r (all_policies d') -> In g (rp_groups r) -> ~ In (g_id g) (group_ids d) ->
      let rep := N.min (N.max (rp_replica r) 1) (llen (d_nodes d')) in
      g_shards g <> [] /\
      (forall s, In s (g_shards g) ->
         llen (s_owners s) = rep /\ NoDup (s_owners s) /\ incl (s_owners s) (node_ids d')) /\
      (forall o o0, In o (node_ids d') -> In o0 (node_ids d') -> count_owner o g = count_owner o0 g).
Proof. exact Proofs.owners_even_distinct. Qed.
Print Assumptions owners_even_distinct.

(* the live groups of a policy cover pairwise disjoint ranges [Start, min(End, TruncatedAt)) *)
Theorem groups_disjoint :
  forall auto d, reachable auto d ->
    forall r a b, In r (all_policies d) -> In a (rp_groups r) -> In b (rp_groups r) ->
      g_id a <> g_id b -> g_deleted a = false -> g_deleted b = false ->
      (g_hi a <= g_start b)%Z \/ (g_hi b <= g_start a)%Z.
Proof. exact Proofs.groups_disjoint. Qed.
Print Assumptions groups_disjoint.

(* CreateShardGroup is idempotent: repeating it for the same timestamp (any int64 but the
   last one, whose group [.., MaxNanoTime+1) cannot contain it) returns the existing group:
   nothing changes but the Term/Index stamp, no ID is consumed.  The lookup
   (RetentionPolicyInfo.ShardGroupByTimestamp) scans the WHOLE list: [existsb (g_covers t)] *)
Theorem create_shard_group_idempotent :
  forall auto d ex ex' idx term idx' term' dbn pol t,
    reachable auto d -> (- (c06_max_nano_time + 2) <= t <= c06_max_nano_time)%Z ->
    let r1 := apply auto ex d idx term (CCreateShardGroup dbn pol t) in
    snd r1 = ENone ->
    apply auto ex' (fst r1) idx' term' (CCreateShardGroup dbn pol t) = (stamp (fst r1) idx' term', ENone).
Proof. exact Proofs.create_shard_group_idempotent. Qed.
Print Assumptions create_shard_group_idempotent.

(* the link: on every input the model passes the executable spec that Run.v evaluates on the
   implementation's observations *)
Theorem model_satisfies_spec :
  forall auto orc es, log_wf es ->
    state_ok init_data = true /\ run_spec auto orc 0 init_data es = true.
Proof. exact Proofs.model_satisfies_spec. Qed.
Print Assumptions model_satisfies_spec.

(* replicas agree: the observable after a log does not depend on the replicas' prune oracles
   (their wall clocks); both replicas run with the same config.RetentionAutoCreate [auto] *)
Theorem apply_deterministic :
  forall auto orc1 orc2 es, log_wf es -> canon (run auto orc1 es) = canon (run auto orc2 es).
Proof. exact ProofsDet.run_deterministic. Qed.
Print Assumptions apply_deterministic.

(* step form: two reachable values with the same observable have the same observable after
   any next command, whatever their hidden deleted groups and oracles are *)
Theorem apply_deterministic_step :
  forall auto d1 d2 ex1 ex2 idx term c, reachable auto d1 -> reachable auto d2 -> canon d1 = canon d2 ->
    canon (fst (apply auto ex1 d1 idx term c)) = canon (fst (apply auto ex2 d2 idx term c)).
Proof. exact ProofsDet.apply_deterministic_step. Qed.
Print Assumptions apply_deterministic_step.

(* the defects repaired by "fix:" commits, kept as checked refutations of the unrepaired
   code (witness logs are in corpus/C06.jsonl and replayed on the real code every run):
   CreateDataNode re-using a meta node's ID gave two data nodes the same ID; the FSM applied
   CopyShardOwner for IDs that are not data nodes.  (The third repair, map-iteration order
   in newShardOwner, has no functional model to refute.) *)
Theorem create_data_node_unpatched_refuted :
  exists d d', reachable false d /\
    create_data_node_unpatched d "h1:8086" "h1:8088" = Ok d' /\ node_ids d' = [1; 1].
Proof. exact Proofs.create_data_node_unpatched_refuted. Qed.
Print Assumptions create_data_node_unpatched_refuted.

Theorem copy_shard_owner_unchecked_refuted :
  exists d, reachable true d /\
    exists s, In s (all_shards (copy_shard_owner d 1 7)) /\ In 7 (s_owners s) /\
              ~ In 7 (node_ids (copy_shard_owner d 1 7)).
Proof. exact Proofs.copy_shard_owner_unchecked_refuted. Qed.
Print Assumptions copy_shard_owner_unchecked_refuted.

(* ---------- non-vacuity ---------- *)

Definition ex_log : list entry :=
  [ En 2 1 (CCreateDataNode "h1:8086" "h1:8088"); En 3 1 (CCreateDataNode "h2:8086" "h2:8088");
    En 4 1 (CCreateDataNode "h3:8086" "h3:8088"); En 5 1 (CCreateDatabase "db0" None);
    En 6 1 (CCreateRetentionPolicy "db0" "rp0" 2 0 3600000000000 true);
    En 7 1 (CCreateShardGroup "db0" "rp0" 1600000000000000000);
    En 8 1 (CCreateShardGroup "db0" "rp0" 1600003600000000000);
    En 9 1 (CTruncateShardGroups 1600003000000000000);
    En 10 1 (CCreateShardGroup "db0" "rp0" 1600003100000000000);
    En 11 1 (CDeleteDataNode 2); En 12 1 (CDeleteShardGroup "db0" "rp0" 1); En 13 1 CPruneShardGroups ]%string.

(* the hypotheses are satisfiable by a log that creates 3 groups x 3 shards on 3 nodes,
   truncates, removes a node and a group; the two prune oracles give different values with
   the same observable *)
Example ex_log_nonvacuous :
  log_wf ex_log /\
  List.length (all_groups (run true (fun _ => []) ex_log)) = 3%nat /\
  List.length (all_shards (run true (fun _ => []) ex_log)) = 9%nat /\
  node_ids (run true (fun _ => []) ex_log) = [1; 3] /\
  run true (fun _ => []) ex_log <> run true (fun _ => [1]) ex_log /\
  canon (run true (fun _ => []) ex_log) = canon (run true (fun _ => [1]) ex_log).
Proof.
  split; [repeat constructor; cbn; unfold c06_max_nano_time; lia|].
  vm_compute. repeat split; try reflexivity. discriminate.
Qed.
