(* C06/ProofsDet.v — replicas agree: the observable [canon] of the value after a command
   is a function of the observable before it (and of the command), whatever the prune
   oracles of the replicas were.  Proved by showing that every command commutes with
   [canon] (which forgets the shard groups that are marked deleted). *)
From Verif Require Import C06.Model C06.Eqb C06.Spec C06.ListLemmas C06.Inv C06.ProofsGroup
  C06.ProofsCmd C06.ProofsCreate C06.Proofs.
From VerifGen Require Import Consts.
From Coq Require Import Lia Permutation.
From Coq Require Import ZifyBool ZifyNat ZifyN.
Open Scope N_scope.

Definition crp (r : policy) : policy := rp_set_groups r (live_groups (rp_groups r)).
Definition cdb (x : database) : database := db_set_rps x (map crp (db_rps x)).

Lemma canon_eq d : canon d = set_dbs d (map cdb (d_dbs d)).
Proof. reflexivity. Qed.

(* ---------- generic list facts ---------- *)

Lemma find_map {A B} (p : B -> bool) (h : A -> B) l :
  find p (map h l) = option_map h (find (fun x => p (h x)) l).
Proof. induction l; cbn; auto. destruct (p (h a)); auto. Qed.

Lemma existsb_map {A B} (p : B -> bool) (h : A -> B) l :
  existsb p (map h l) = existsb (fun x => p (h x)) l.
Proof. induction l; cbn; auto. rewrite IHl. reflexivity. Qed.

Lemma upd_first_map {A B} (p : B -> bool) (F : B -> B) (h : A -> B) (p' : A -> bool) (F' : A -> A) l :
  (forall x, p (h x) = p' x) -> (forall x, F (h x) = h (F' x)) ->
  upd_first p F (map h l) = map h (upd_first p' F' l).
Proof.
  intros Hp HF. induction l; cbn; auto. rewrite Hp. destruct (p' a); cbn; rewrite ?HF, ?IHl; auto.
Qed.

Lemma remove_first_map {A B} (p : B -> bool) (h : A -> B) (p' : A -> bool) l :
  (forall x, p (h x) = p' x) -> remove_first p (map h l) = map h (remove_first p' l).
Proof. intros Hp. induction l; cbn; auto. rewrite Hp. destruct (p' a); cbn; rewrite ?IHl; auto. Qed.

Lemma find_ext_ {A} (p q : A -> bool) l : (forall x, p x = q x) -> find p l = find q l.
Proof. intros H. induction l; cbn; auto. rewrite H, IHl. reflexivity. Qed.

(* ---------- canon and the accessors ---------- *)

Lemma live_idem l : live_groups (live_groups l) = live_groups l.
Proof.
  unfold live_groups. induction l; cbn; auto. destruct (g_deleted a) eqn:E; cbn; rewrite ?E; cbn; rewrite IHl; auto.
Qed.
Lemma crp_idem r : crp (crp r) = crp r.
Proof. unfold crp, rp_set_groups; cbn. rewrite live_idem. reflexivity. Qed.
Lemma cdb_idem x : cdb (cdb x) = cdb x.
Proof. unfold cdb, db_set_rps; cbn. rewrite map_map. f_equal. apply map_ext, crp_idem. Qed.
Lemma canon_idem d : canon (canon d) = canon d.
Proof.
  transitivity (set_dbs d (map cdb (map cdb (d_dbs d)))); [reflexivity|].
  rewrite map_map, canon_eq. f_equal. apply map_ext, cdb_idem.
Qed.

Lemma find_db_canon d n : find_db (canon d) n = option_map cdb (find_db d n).
Proof. unfold find_db. cbn. rewrite find_map. reflexivity. Qed.

Lemma find_rp_cdb x n : find_rp (cdb x) n = option_map crp (find_rp x n).
Proof. unfold find_rp. cbn. rewrite find_map. reflexivity. Qed.

Lemma db_rp_cdb x n : db_rp (cdb x) n = option_map crp (db_rp x n).
Proof.
  unfold db_rp. cbn [db_default cdb db_set_rps]. destruct (String.eqb n "").
  - destruct (String.eqb (db_default x) ""); auto. apply find_rp_cdb.
  - apply find_rp_cdb.
Qed.

Lemma upd_db_canon d n F F' :
  (forall x, F (cdb x) = cdb (F' x)) -> upd_db (canon d) n F = canon (upd_db d n F').
Proof.
  intros H. unfold upd_db.
  change (set_dbs d (upd_first (fun x => String.eqb (db_name x) n) F (map cdb (d_dbs d)))
          = set_dbs d (map cdb (upd_first (fun x => String.eqb (db_name x) n) F' (d_dbs d)))).
  rewrite (upd_first_map _ F cdb (fun x => String.eqb (db_name x) n) F'); auto.
Qed.

Lemma upd_rp_cdb x n f f' :
  (forall r, f (crp r) = crp (f' r)) -> upd_rp (cdb x) n f = cdb (upd_rp x n f').
Proof.
  intros H. unfold upd_rp.
  change (db_set_rps x (upd_first (fun r => String.eqb (rp_name r) n) f (map crp (db_rps x)))
          = db_set_rps x (map crp (upd_first (fun r => String.eqb (rp_name r) n) f' (db_rps x)))).
  rewrite (upd_first_map _ f crp (fun r => String.eqb (rp_name r) n) f'); auto.
Qed.

(* commutation of a result-valued method with canon *)
Definition cres (r : result) : result := match r with Ok d => Ok (canon d) | Er e => Er e end.

Lemma canon_set_dbs d v : canon (set_dbs d v) = set_dbs d (map cdb v).
Proof. reflexivity. Qed.
Lemma set_dbs_canon d v : set_dbs (canon d) v = set_dbs d v.
Proof. reflexivity. Qed.
Lemma d_dbs_canon d : d_dbs (canon d) = map cdb (d_dbs d).
Proof. reflexivity. Qed.
Lemma canon_set_users d u a : canon (set_users d u a) = set_users (canon d) u a.
Proof. reflexivity. Qed.
Lemma canon_set_nodes d v : canon (set_nodes d v) = set_nodes (canon d) v.
Proof. reflexivity. Qed.
Lemma canon_set_meta d v : canon (set_meta d v) = set_meta (canon d) v.
Proof. reflexivity. Qed.
Lemma canon_set_max_node d v : canon (set_max_node d v) = set_max_node (canon d) v.
Proof. reflexivity. Qed.
Lemma canon_set_cluster d r : canon (set_cluster_if_unset d r) = set_cluster_if_unset (canon d) r.
Proof. unfold set_cluster_if_unset. cbn. destruct (d_cluster d =? 0); reflexivity. Qed.
Lemma canon_stamp d i t : canon (stamp d i t) = stamp (canon d) i t.
Proof. reflexivity. Qed.

(* ---------- commands that never look inside the shard groups ---------- *)

Lemma create_database_canon d n : create_database (canon d) n = cres (create_database d n).
Proof.
  unfold create_database. destruct (String.eqb n ""); auto. destruct (c06_max_name_len <? slen n); auto.
  rewrite find_db_canon. destruct (find_db d n); cbn [option_map cres]; auto.
  rewrite canon_set_dbs, set_dbs_canon, d_dbs_canon, map_app. reflexivity.
Qed.

Lemma drop_database_canon d n : drop_database (canon d) n = canon (drop_database d n).
Proof.
  unfold drop_database. rewrite find_db_canon. destruct (find_db d n); cbn [option_map]; auto.
  rewrite canon_set_users, canon_set_dbs, set_dbs_canon, d_dbs_canon.
  rewrite (remove_first_map _ cdb (fun x => String.eqb (db_name x) n)); auto.
Qed.

Lemma create_rp_canon d dbn n rep dur sgd df :
  create_rp (canon d) dbn n rep dur sgd df = cres (create_rp d dbn n rep dur sgd df).
Proof.
  unfold create_rp. destruct (String.eqb n ""); auto. destruct (c06_max_name_len <? slen n); auto.
  destruct (rep <? 1); auto. destruct ((0 <? dur)%Z && (dur <? normalised_shard_duration sgd dur)%Z); auto.
  rewrite find_db_canon. destruct (find_db d dbn) as [x|]; cbn [option_map]; auto.
  rewrite db_rp_cdb. destruct (db_rp x n) as [r|]; cbn [option_map].
  - cbn [crp rp_set_groups rp_replica rp_dur rp_sgdur cdb db_set_rps db_default].
    destruct (negb (rp_replica r =? rep) || negb (rp_dur r =? dur)%Z ||
              negb (rp_sgdur r =? normalised_shard_duration sgd dur)%Z); auto.
    destruct (df && negb (String.eqb (db_default x) n)); auto.
  - cbn [cres]. f_equal. apply upd_db_canon. intros y.
    destruct df; unfold cdb, db_set_default, db_set_rps; cbn; rewrite map_app; reflexivity.
Qed.

Lemma drop_rp_canon d dbn n : drop_rp (canon d) dbn n = canon (drop_rp d dbn n).
Proof.
  unfold drop_rp. apply upd_db_canon. intros y. unfold cdb, db_set_rps; cbn. f_equal.
  apply (remove_first_map _ crp (fun r => String.eqb (rp_name r) n)); auto.
Qed.

Lemma update_rp_canon d dbn n nn dur rep sgd df :
  update_rp (canon d) dbn n nn dur rep sgd df = cres (update_rp d dbn n nn dur rep sgd df).
Proof.
  unfold update_rp. rewrite find_db_canon. destruct (find_db d dbn) as [x|]; cbn [option_map]; auto.
  rewrite db_rp_cdb. destruct (db_rp x n) as [r|]; cbn [option_map]; auto.
  assert (E : match nn with
              | Some nn0 => negb (String.eqb nn0 n) && match db_rp (cdb x) nn0 with Some _ => true | None => false end
              | None => false end =
              match nn with
              | Some nn0 => negb (String.eqb nn0 n) && match db_rp x nn0 with Some _ => true | None => false end
              | None => false end).
  { destruct nn; auto. rewrite db_rp_cdb. destruct (db_rp x s); reflexivity. }
  rewrite E. clear E.
  match goal with |- context [if ?b then Er ERPNameExists else _] => destruct b end; auto.
  match goal with |- context [if ?b then Er ERPDurationTooLow else _] => destruct b end; auto.
  cbn [crp rp_set_groups rp_sgdur rp_dur rp_name].
  match goal with |- context [if ?b then Er EIncompatibleDurations else _] => destruct b end; auto.
  cbn [cres]. f_equal. apply upd_db_canon. intros y.
  cbn [cdb db_default db_set_rps].
  match goal with |- context [upd_rp (cdb y) ?k ?f] =>
    rewrite (upd_rp_cdb y k f f) by (intros r0; reflexivity) end.
  match goal with |- (if ?b then _ else _) = _ => destruct b end; reflexivity.
Qed.

Lemma create_cq_canon d dbn n q : create_cq (canon d) dbn n q = cres (create_cq d dbn n q).
Proof.
  unfold create_cq. rewrite find_db_canon. destruct (find_db d dbn) as [x|]; cbn [option_map]; auto.
  cbn [cdb db_cqs db_set_rps]. destruct (find _ (db_cqs x)).
  - destruct (String.eqb _ _); auto.
  - cbn [cres]. f_equal. apply upd_db_canon. intros y. reflexivity.
Qed.

Lemma drop_cq_canon d dbn n : drop_cq (canon d) dbn n = canon (drop_cq d dbn n).
Proof. unfold drop_cq. apply upd_db_canon. intros y. reflexivity. Qed.

Lemma create_sub_canon d dbn pol n m ds :
  create_sub (canon d) dbn pol n m ds = cres (create_sub d dbn pol n m ds).
Proof.
  unfold create_sub. destruct (negb (forallb snd ds)); auto.
  rewrite find_db_canon. destruct (find_db d dbn) as [x|]; cbn [option_map]; auto.
  rewrite find_rp_cdb. destruct (find_rp x pol) as [r|]; cbn [option_map]; auto.
  cbn [crp rp_set_groups rp_subs]. destruct (existsb _ (rp_subs r)); auto.
  cbn [cres]. f_equal. apply upd_db_canon. intros y. apply upd_rp_cdb. intros r0. reflexivity.
Qed.

Lemma drop_sub_canon d dbn pol n : drop_sub (canon d) dbn pol n = cres (drop_sub d dbn pol n).
Proof.
  unfold drop_sub. rewrite find_db_canon. destruct (find_db d dbn) as [x|]; cbn [option_map]; auto.
  rewrite find_rp_cdb. destruct (find_rp x pol) as [r|]; cbn [option_map]; auto.
  cbn [crp rp_set_groups rp_subs]. destruct (existsb _ (rp_subs r)); auto.
  cbn [cres]. f_equal. apply upd_db_canon. intros y. apply upd_rp_cdb. intros r0. reflexivity.
Qed.

Lemma set_privilege_canon d u dbn p : set_privilege (canon d) u dbn p = cres (set_privilege d u dbn p).
Proof.
  unfold set_privilege, has_user. cbn [d_users canon set_dbs].
  destruct (negb _); auto. rewrite find_db_canon. destruct (find_db d dbn); cbn [option_map]; auto.
Qed.

(* ---------- the stable sort commutes with dropping deleted groups ---------- *)

Definition gle (a b : group) : Prop := g_less b a = false.

Lemma g_less_spec a b :
  g_less a b = true <->
  ((eff_end a < eff_end b)%Z \/ (eff_end a = eff_end b /\ g_start a < g_start b)%Z).
Proof. unfold g_less. destruct (eff_end a =? eff_end b)%Z eqn:E; lia. Qed.

Lemma gle_spec a b :
  gle a b <-> ((eff_end a < eff_end b)%Z \/ (eff_end a = eff_end b /\ g_start a <= g_start b)%Z).
Proof.
  unfold gle. rewrite <- not_true_iff_false, g_less_spec. lia.
Qed.

Lemma gle_trans a b c : gle a b -> gle b c -> gle a c.
Proof. rewrite !gle_spec. lia. Qed.
Lemma less_gle a b : g_less a b = true -> gle a b.
Proof. rewrite g_less_spec, gle_spec. lia. Qed.

Fixpoint sorted (l : list group) : Prop :=
  match l with
  | [] => True
  | x :: t => Forall (gle x) t /\ sorted t
  end.

Lemma insert_group_In x l y : In y (insert_group x l) <-> y = x \/ In y l.
Proof.
  induction l; cbn; [intuition|]. destruct (g_less a x); cbn; [rewrite IHl|]; intuition.
Qed.

Lemma insert_sorted x l : sorted l -> sorted (insert_group x l).
Proof.
  induction l as [|y t IH]; cbn; intros H.
  - split; auto.
  - destruct H as [Hy Ht]. destruct (g_less y x) eqn:E; cbn.
    + split; auto. apply Forall_forall. intros z Hz. apply insert_group_In in Hz.
      destruct Hz as [->|Hz]; [apply less_gle; auto|]. rewrite Forall_forall in Hy. auto.
    + split; [|split; auto]. constructor; [exact E|].
      rewrite Forall_forall in *. intros z Hz. eapply gle_trans; [exact E|auto].
Qed.

Lemma sort_sorted l : sorted (sort_groups l).
Proof. induction l; cbn; auto. apply insert_sorted; auto. Qed.

Lemma filter_insert p x l :
  sorted l -> filter p (insert_group x l) = if p x then insert_group x (filter p l) else filter p l.
Proof.
  induction l as [|y t IH]; cbn; intros H.
  - destruct (p x); reflexivity.
  - destruct H as [Hy Ht]. destruct (g_less y x) eqn:E; cbn.
    + rewrite (IH Ht). destruct (p y), (p x); cbn; rewrite ?E; reflexivity.
    + destruct (p x) eqn:Px; cbn; [|reflexivity].
      destruct (p y) eqn:Py; cbn; [rewrite E; reflexivity|].
      (* x goes in front of the surviving elements: all of them are >= y >= x *)
      assert (G : forall l0, Forall (gle x) l0 -> insert_group x (filter p l0) = x :: filter p l0).
      { clear. induction l0; cbn; intros H; auto. inversion H; subst.
        destruct (p a); cbn; auto. unfold gle in H2. rewrite H2. reflexivity. }
      rewrite G; auto. rewrite Forall_forall in *. intros z Hz. eapply gle_trans; [exact E|auto].
Qed.

Lemma filter_sort p l : filter p (sort_groups l) = sort_groups (filter p l).
Proof.
  induction l; [reflexivity|].
  change (sort_groups (a :: l)) with (insert_group a (sort_groups l)).
  rewrite filter_insert by apply sort_sorted. rewrite IHl.
  cbn [filter]. destruct (p a); reflexivity.
Qed.

Lemma live_sort l : live_groups (sort_groups l) = sort_groups (live_groups l).
Proof. apply filter_sort. Qed.

(* ---------- functions applied to the group list of every policy ---------- *)

Definition map_pols (T : list group -> list group) (d : data) : data :=
  set_dbs d (map (fun x => db_set_rps x (map (fun r => rp_set_groups r (T (rp_groups r))) (db_rps x))) (d_dbs d)).

Lemma canon_map_pols T T' d :
  (forall l, live_groups (T l) = live_groups (T' (live_groups l))) ->
  canon (map_pols T d) = canon (map_pols T' (canon d)).
Proof.
  intros H. unfold map_pols.
  change (set_dbs d (map cdb (map (fun x => db_set_rps x (map (fun r => rp_set_groups r (T (rp_groups r))) (db_rps x))) (d_dbs d)))
        = set_dbs d (map cdb (map (fun x => db_set_rps x (map (fun r => rp_set_groups r (T' (rp_groups r))) (db_rps x))) (map cdb (d_dbs d))))).
  f_equal. rewrite !map_map. apply map_ext. intros x. unfold cdb, db_set_rps; cbn. f_equal.
  rewrite !map_map. apply map_ext. intros r. unfold crp, rp_set_groups; cbn. f_equal. apply H.
Qed.

Lemma live_map h l : (forall g, g_deleted (h g) = g_deleted g) -> live_groups (map h l) = map h (live_groups l).
Proof.
  intros H. unfold live_groups. induction l; cbn; auto. rewrite H. destruct (g_deleted a); cbn; rewrite IHl; auto.
Qed.

Lemma live_map_mono h l :
  (forall g, g_deleted g = true -> g_deleted (h g) = true) ->
  live_groups (map h l) = live_groups (map h (live_groups l)).
Proof.
  intros H. unfold live_groups. induction l; cbn; auto.
  destruct (g_deleted a) eqn:E; cbn.
  - rewrite (H _ E). cbn. auto.
  - rewrite IHl. reflexivity.
Qed.

Lemma truncate_canon t d : canon (map_groups (truncate_group t) d) = canon (map_groups (truncate_group t) (canon d)).
Proof.
  apply (canon_map_pols (map (truncate_group t)) (map (truncate_group t))). intros l.
  apply live_map_mono. intros g E. unfold truncate_group. rewrite E, orb_true_r. cbn. auto.
Qed.

Lemma prune_canon ex ex' d : canon (prune_groups ex d) = canon (prune_groups ex' (canon d)).
Proof.
  apply (canon_map_pols (filter (fun g => negb (g_deleted g && memN (g_id g) ex)))
                        (filter (fun g => negb (g_deleted g && memN (g_id g) ex')))).
  intros l. unfold live_groups. induction l; cbn; auto.
  destruct (g_deleted a) eqn:E; cbn.
  - destruct (memN (g_id a) ex); cbn; rewrite ?E; cbn; auto.
  - rewrite E. cbn. rewrite E. rewrite IHl. reflexivity.
Qed.

(* ---------- CreateShardGroup ---------- *)

Lemma existsb_covers_live t l : existsb (g_covers t) (live_groups l) = existsb (g_covers t) l.
Proof.
  unfold live_groups. induction l; cbn; auto. destruct (g_deleted a) eqn:E; cbn; rewrite IHl; auto.
  unfold g_covers. rewrite E. cbn. rewrite andb_false_r. reflexivity.
Qed.

Lemma clip_range_live t l : forall se, clip_range t (live_groups l) se = clip_range t l se.
Proof.
  unfold clip_range, live_groups. induction l; cbn; intros se; auto.
  destruct (g_deleted a) eqn:E; cbn; rewrite ?E; auto.
Qed.

Lemma new_group_canon d r t : new_group (canon d) (crp r) t = new_group d r t.
Proof.
  unfold new_group. cbn [crp rp_set_groups rp_replica rp_sgdur rp_groups].
  rewrite clip_range_live. reflexivity.
Qed.

Lemma create_shard_group_canon d dbn pol t :
  create_shard_group (canon d) dbn pol t = cres (create_shard_group d dbn pol t).
Proof.
  unfold create_shard_group. change (d_nodes (canon d)) with (d_nodes d).
  destruct (d_nodes d) eqn:En; auto.
  rewrite find_db_canon. destruct (find_db d dbn) as [x|]; cbn [option_map]; auto.
  rewrite find_rp_cdb. destruct (find_rp x pol) as [r|]; cbn [option_map]; auto.
  change (rp_groups (crp r)) with (live_groups (rp_groups r)). rewrite existsb_covers_live.
  destruct (existsb (g_covers t) (rp_groups r)); auto.
  change (live_groups (rp_groups r)) with (rp_groups (crp r)). rewrite new_group_canon.
  cbn [cres]. f_equal.
  change (d_max_group (canon d)) with (d_max_group d). change (d_max_shard (canon d)) with (d_max_shard d).
  match goal with |- set_group_counters ?a ?b ?c = canon (set_group_counters ?a' ?b ?c) =>
    change (set_group_counters a b c = set_group_counters (canon a') b c); f_equal end.
  apply upd_db_canon. intros y. apply upd_rp_cdb. intros r0.
  unfold crp, rp_set_groups; cbn. f_equal. rewrite live_sort. f_equal.
  unfold live_groups. rewrite filter_app. cbn. reflexivity.
Qed.

(* ---------- DeleteDataNode: newShardOwner never fails on reachable values ---------- *)

Lemma freq_min_some m : m <> [] -> exists kc, freq_min m = Some kc.
Proof.
  destruct m as [|[k c] t]; [congruence|]. intros _. cbn.
  destruct (freq_min t) as [[k' c']|]; [|eauto].
  destruct ((c <? c') || (c =? c') && (k <? k')); eauto.
Qed.

Lemma freq_incr_nonempty k m : freq_incr k m <> [].
Proof. destruct m as [|[k' c] t]; cbn; [discriminate|]. destruct (k' =? k); discriminate. Qed.

Lemma reassign_some orphans : forall freqs sh, freqs <> [] -> exists sh', reassign orphans freqs sh = Some sh'.
Proof.
  induction orphans as [|o rest IH]; cbn; intros freqs sh H; [eauto|].
  destruct (freq_min_some freqs H) as [[k c] E]. rewrite E. apply IH. apply freq_incr_nonempty.
Qed.

Lemma fold_incr_keys_mono os : forall m k, In k (map fst m) -> In k (map fst (fold_left (fun m o => freq_incr o m) os m)).
Proof.
  induction os; cbn; intros m k H; auto. apply IHos. apply freq_incr_keys. auto.
Qed.
Lemma fold_incr_keys_owner os : forall m o, In o os -> In o (map fst (fold_left (fun m o => freq_incr o m) os m)).
Proof.
  induction os; cbn; intros m o H; [contradiction|]. destruct H as [->|H].
  - apply fold_incr_keys_mono. apply freq_incr_keys. auto.
  - apply IHos; auto.
Qed.
Lemma group_freqs_owner_aux sh : forall m s o, In s sh -> In o (s_owners s) ->
  In o (map fst (fold_left (fun m s => fold_left (fun m o => freq_incr o m) (s_owners s) m) sh m)).
Proof.
  induction sh; cbn; intros m s o Hs Ho; [contradiction|]. destruct Hs as [->|Hs].
  - assert (G : forall l m0 k, In k (map fst m0) ->
       In k (map fst (fold_left (fun m s => fold_left (fun m o => freq_incr o m) (s_owners s) m) l m0))).
    { clear. induction l; cbn; intros m0 k H; auto. apply IHl. apply fold_incr_keys_mono; auto. }
    apply G. apply fold_incr_keys_owner; auto.
  - eapply IHsh; eauto.
Qed.
Lemma group_freqs_owner sh s o : In s sh -> In o (s_owners s) -> In o (map fst (group_freqs sh)).
Proof. apply group_freqs_owner_aux. Qed.

Lemma filter_all_length {A} (p : A -> bool) l :
  List.length (filter p l) <> List.length l -> exists x, In x l /\ p x = false.
Proof.
  induction l; cbn; intros H; [congruence|]. destruct (p a) eqn:E; [|eauto].
  cbn in H. destruct IHl as [x [Hx Hp]]; [congruence|eauto].
Qed.

Lemma delete_node_group_some id g :
  (forall s, In s (g_shards g) -> NoDup (s_owners s)) -> exists g', delete_node_group id g = Some g'.
Proof.
  intros Hd. unfold delete_node_group.
  set (stripped := map (fun s => s_set_owners s (remove_last (N.eqb id) (s_owners s))) (g_shards g)).
  set (orphans := filter (fun s => match s_owners s with [] => true | _ => false end) stripped).
  destruct ((List.length (g_shards g) =? 0)%nat || (List.length orphans =? List.length (g_shards g))%nat) eqn:E; [eauto|].
  apply orb_false_iff in E. destruct E as [_ E]. apply Nat.eqb_neq in E.
  assert (Hl : List.length stripped = List.length (g_shards g)) by (unfold stripped; apply map_length).
  rewrite <- Hl in E. apply filter_all_length in E. destruct E as [s' [Hs' Hne]].
  unfold stripped in Hs'. apply in_map_iff in Hs'. destruct Hs' as [s [<- Hs]]. cbn in Hne.
  destruct (remove_last (N.eqb id) (s_owners s)) as [|o os] eqn:Er; [discriminate|].
  assert (Ho : In o (s_owners s) /\ o <> id).
  { split.
    - eapply subl_in; [apply subl_remove_last|]. rewrite Er. left; auto.
    - intros ->. apply (remove_last_notin id (s_owners s) (Hd _ Hs)). rewrite Er. left; auto. }
  destruct Ho as [Ho Hoid].
  destruct (reassign_some (map s_id orphans) (filter (fun kc => negb (fst kc =? id)) (group_freqs (g_shards g))) stripped) as [sh' Esh].
  - pose proof (group_freqs_owner _ _ _ Hs Ho) as Hk. apply in_map_iff in Hk. destruct Hk as [[k c] [Hk1 Hk2]].
    cbn in Hk1. subst k. intros Hnil.
    assert (Hin : In (o, c) (filter (fun kc => negb (fst kc =? id)) (group_freqs (g_shards g)))).
    { apply filter_In. split; auto. cbn. apply negb_true_iff, N.eqb_neq; auto. }
    rewrite Hnil in Hin. contradiction.
  - rewrite Esh. eauto.
Qed.

Definition dng (id : N) (g : group) : group :=
  match delete_node_group id g with Some g' => g' | None => g end.

Lemma dng_deleted id g : g_deleted g = true -> g_deleted (dng id g) = true.
Proof.
  intros E. unfold dng, delete_node_group.
  destruct (_ || _); cbn; auto. destruct (reassign _ _ _); cbn; auto.
Qed.

Lemma map_opt_total {A B} (f : A -> option B) (h : A -> B) l :
  (forall x, In x l -> f x = Some (h x)) -> map_opt f l = Some (map h l).
Proof.
  induction l; cbn; intros H; auto. rewrite (H a) by auto. rewrite IHl; auto.
Qed.

Lemma delete_data_node_total d id :
  (forall s, In s (all_shards d) -> NoDup (s_owners s)) ->
  delete_data_node d id =
    let nodes := filter (fun n => negb (n_id n =? id)) (d_nodes d) in
    if (List.length nodes =? List.length (d_nodes d))%nat then Er ENodeNotFound
    else Ok (set_nodes (map_pols (map (dng id)) d) nodes).
Proof.
  intros Hd. unfold delete_data_node. cbn zeta.
  destruct (List.length _ =? List.length (d_nodes d))%nat; auto.
  rewrite (map_opt_total _ (fun x => db_set_rps x (map (fun r => rp_set_groups r (map (dng id) (rp_groups r))) (db_rps x)))).
  - reflexivity.
  - intros x Hx.
    rewrite (map_opt_total _ (fun r => rp_set_groups r (map (dng id) (rp_groups r)))); auto.
    intros r Hr. rewrite (map_opt_total _ (dng id)); auto.
    intros g Hg. unfold dng.
    destruct (delete_node_group_some id g) as [g' E]; [|rewrite E; auto].
    intros s Hs. apply Hd. unfold all_shards, all_groups. apply in_flat_map. exists g. split; auto.
    apply in_flat_map. exists x. split; auto. apply in_flat_map. exists r. split; auto.
Qed.

Lemma all_shards_canon d s : In s (all_shards (canon d)) -> In s (all_shards d).
Proof.
  unfold all_shards, all_groups. intros H. apply in_flat_map in H. destruct H as [g [Hg Hs]].
  apply in_flat_map. exists g. split; auto. change (d_dbs (canon d)) with (map cdb (d_dbs d)) in Hg.
  apply in_flat_map in Hg. destruct Hg as [x' [Hx' Hg]]. apply in_map_iff in Hx'. destruct Hx' as [x [<- Hx]].
  apply in_flat_map. exists x. split; auto. cbn in Hg. apply in_flat_map in Hg. destruct Hg as [r' [Hr' Hg]].
  apply in_map_iff in Hr'. destruct Hr' as [r [<- Hr]]. cbn in Hg. apply filter_In in Hg.
  apply in_flat_map. exists r. split; auto. apply Hg.
Qed.

Lemma delete_data_node_canon d id :
  (forall s, In s (all_shards d) -> NoDup (s_owners s)) ->
  match delete_data_node d id, delete_data_node (canon d) id with
  | Ok a, Ok b => canon a = canon b
  | Er _, Er _ => True
  | _, _ => False
  end.
Proof.
  intros Hd. rewrite (delete_data_node_total d id Hd).
  rewrite (delete_data_node_total (canon d) id) by (intros s Hs; apply Hd, all_shards_canon; auto).
  cbn zeta. change (d_nodes (canon d)) with (d_nodes d).
  destruct (List.length _ =? List.length (d_nodes d))%nat; auto.
  change (set_nodes (canon (map_pols (map (dng id)) d)) (filter (fun n => negb (n_id n =? id)) (d_nodes d))
        = set_nodes (canon (map_pols (map (dng id)) (canon d))) (filter (fun n => negb (n_id n =? id)) (d_nodes d))).
  f_equal. apply canon_map_pols. intros l. apply live_map_mono. intros g. apply dng_deleted.
Qed.

(* ---------- first-match updates, seen from the element that is found ---------- *)

Lemma upd_first_found {A} (p : A -> bool) F l x0 :
  find p l = Some x0 -> upd_first p F l = upd_first p (fun _ => F x0) l.
Proof.
  induction l; cbn; [discriminate|]. destruct (p a); intros H; [inversion H; subst; auto|].
  rewrite IHl; auto.
Qed.
Lemma upd_first_self {A} (p : A -> bool) l x0 : find p l = Some x0 -> upd_first p (fun _ => x0) l = l.
Proof.
  induction l; cbn; [discriminate|]. destruct (p a); intros H; [inversion H; subst; auto|].
  rewrite IHl; auto.
Qed.
Lemma upd_first_none {A} (p : A -> bool) F l : existsb p l = false -> upd_first p F l = l.
Proof.
  induction l; cbn; auto. destruct (p a); cbn; [discriminate|]. intros H. rewrite IHl; auto.
Qed.

Lemma upd_db_found d n F x0 : find_db d n = Some x0 -> upd_db d n F = upd_db d n (fun _ => F x0).
Proof. intros H. unfold upd_db. f_equal. apply upd_first_found; auto. Qed.
Lemma upd_rp_found x n f r0 : find_rp x n = Some r0 -> upd_rp x n f = upd_rp x n (fun _ => f r0).
Proof. intros H. unfold upd_rp. f_equal. apply upd_first_found; auto. Qed.

(* canon (upd_db d n F) only depends on cdb (F x0) for the database x0 that is found *)
Lemma canon_upd_db_found d n F x0 :
  find_db d n = Some x0 -> canon (upd_db d n F) = upd_db (canon d) n (fun _ => cdb (F x0)).
Proof.
  intros H. rewrite (upd_db_found _ _ _ _ H). symmetry. apply upd_db_canon. auto.
Qed.
Lemma cdb_upd_rp_found x n f r0 :
  find_rp x n = Some r0 -> cdb (upd_rp x n f) = upd_rp (cdb x) n (fun _ => crp (f r0)).
Proof.
  intros H. rewrite (upd_rp_found _ _ _ _ H). symmetry. apply upd_rp_cdb. auto.
Qed.

(* two updates of the found policy's groups give the same observable when the new group
   lists have the same live part *)
Lemma canon_upd_groups d dbn pol x r (U1 U2 : list group -> list group) :
  find_db d dbn = Some x -> find_rp x pol = Some r ->
  live_groups (U1 (rp_groups r)) = live_groups (U2 (live_groups (rp_groups r))) ->
  canon (upd_db d dbn (fun x => upd_rp x pol (fun r => rp_set_groups r (U1 (rp_groups r))))) =
  canon (upd_db (canon d) dbn (fun x => upd_rp x pol (fun r => rp_set_groups r (U2 (rp_groups r))))).
Proof.
  intros Hx Hr E.
  rewrite (canon_upd_db_found _ _ _ _ Hx).
  assert (Hx' : find_db (canon d) dbn = Some (cdb x)) by (rewrite find_db_canon, Hx; reflexivity).
  rewrite (canon_upd_db_found _ _ _ _ Hx'). rewrite canon_idem. f_equal.
  assert (Hr' : find_rp (cdb x) pol = Some (crp r)) by (rewrite find_rp_cdb, Hr; reflexivity).
  rewrite (cdb_upd_rp_found _ _ _ _ Hr), (cdb_upd_rp_found _ _ _ _ Hr'). rewrite cdb_idem.
  f_equal. unfold crp, rp_set_groups. cbn [rp_groups rp_name rp_replica rp_dur rp_sgdur rp_subs].
  rewrite E. reflexivity.
Qed.

Lemma canon_upd_groups_same d dbn pol x r (U : list group -> list group) :
  find_db d dbn = Some x -> find_rp x pol = Some r ->
  live_groups (U (rp_groups r)) = live_groups (rp_groups r) ->
  canon (upd_db d dbn (fun x => upd_rp x pol (fun r => rp_set_groups r (U (rp_groups r))))) = canon d.
Proof.
  intros Hx Hr E. rewrite (canon_upd_db_found _ _ _ _ Hx), (cdb_upd_rp_found _ _ _ _ Hr).
  assert (Ec : crp (rp_set_groups r (U (rp_groups r))) = crp r).
  { unfold crp, rp_set_groups. cbn [rp_groups rp_name rp_replica rp_dur rp_sgdur rp_subs]. rewrite E. reflexivity. }
  rewrite Ec.
  assert (Hr' : find_rp (cdb x) pol = Some (crp r)) by (rewrite find_rp_cdb, Hr; reflexivity).
  unfold upd_rp. rewrite (upd_first_self _ _ _ Hr').
  assert (Es : db_set_rps (cdb x) (db_rps (cdb x)) = cdb x) by reflexivity. rewrite Es.
  assert (Hx' : find_db (canon d) dbn = Some (cdb x)) by (rewrite find_db_canon, Hx; reflexivity).
  unfold upd_db. rewrite (upd_first_self _ _ _ Hx'). reflexivity.
Qed.

(* ---------- DeleteShardGroup ---------- *)

Lemma del_deleted g : g_deleted g = true -> g_set_deleted g = g.
Proof. destruct g; cbn; intros ->; reflexivity. Qed.

Lemma live_upd_del id l :
  NoDup (gids l) ->
  live_groups (upd_first (fun g => g_id g =? id) g_set_deleted l) =
  live_groups (upd_first (fun g => g_id g =? id) g_set_deleted (live_groups l)).
Proof.
  unfold live_groups. induction l as [|a t IH]; cbn; intros Hd; auto. inversion Hd; subst.
  destruct (g_id a =? id) eqn:Ea.
  - apply N.eqb_eq in Ea. cbn [filter g_deleted g_set_deleted negb].
    assert (Hnone : existsb (fun g => g_id g =? id) (filter (fun g => negb (g_deleted g)) t) = false).
    { apply not_true_iff_false. intros Hex. apply existsb_exists in Hex. destruct Hex as [g [Hg Hid]].
      apply filter_In in Hg. apply N.eqb_eq in Hid. apply H1. rewrite Ea, <- Hid. apply in_map, Hg. }
    destruct (g_deleted a) eqn:Da; cbn.
    + rewrite (upd_first_none _ _ _ Hnone). fold (live_groups t). fold (live_groups (live_groups t)).
      rewrite live_idem. reflexivity.
    + rewrite Ea, N.eqb_refl. cbn. fold (live_groups t). fold (live_groups (live_groups t)).
      rewrite live_idem. reflexivity.
  - destruct (g_deleted a) eqn:Da; cbn; rewrite ?Da; cbn; rewrite ?Ea; cbn; rewrite ?Da; cbn; rewrite IH; auto.
Qed.

Lemma existsb_live_sub (p : group -> bool) l : existsb p (live_groups l) = true -> existsb p l = true.
Proof.
  intros H. apply existsb_exists in H. destruct H as [g [Hg Hp]]. apply filter_In in Hg.
  apply existsb_exists. exists g. intuition.
Qed.

Lemma In_find_policy d dbn pol x r : find_db d dbn = Some x -> find_rp x pol = Some r -> In r (all_policies d).
Proof.
  intros Hx Hr. apply find_some in Hx. apply find_some in Hr. unfold all_policies.
  apply in_flat_map. exists x. intuition.
Qed.

Definition agree (a b : result) (d : data) : Prop :=
  canon (match a with Ok a' => a' | Er _ => d end) = canon (match b with Ok b' => b' | Er _ => canon d end).

Lemma delete_shard_group_canon d dbn pol id :
  Inv d -> agree (delete_shard_group d dbn pol id) (delete_shard_group (canon d) dbn pol id) d.
Proof.
  intros I. unfold agree, delete_shard_group. rewrite find_db_canon.
  destruct (find_db d dbn) as [x|] eqn:Ex; cbn [option_map]; [|rewrite canon_idem; auto].
  rewrite find_rp_cdb. destruct (find_rp x pol) as [r|] eqn:Erp; cbn [option_map]; [|rewrite canon_idem; auto].
  change (rp_groups (crp r)) with (live_groups (rp_groups r)).
  assert (Hd : NoDup (gids (rp_groups r))).
  { apply (NoDup_gids_view _ (pview r) (inv_gids _ I)). apply In_policy_view. eapply In_find_policy; eauto. }
  destruct (existsb (fun g => g_id g =? id) (rp_groups r)) eqn:E1;
    destruct (existsb (fun g => g_id g =? id) (live_groups (rp_groups r))) eqn:E2.
  - apply (canon_upd_groups d dbn pol x r (upd_first (fun g => g_id g =? id) g_set_deleted)
             (upd_first (fun g => g_id g =? id) g_set_deleted)); auto. apply live_upd_del; auto.
  - rewrite canon_idem.
    apply (canon_upd_groups_same d dbn pol x r (upd_first (fun g => g_id g =? id) g_set_deleted)); auto.
    rewrite live_upd_del by auto. rewrite (upd_first_none _ _ _ E2). apply live_idem.
  - apply existsb_live_sub in E2. congruence.
  - rewrite canon_idem. reflexivity.
Qed.

(* ---------- the group that holds a shard (DropShard / CopyShardOwner / RemoveShardOwner) ---------- *)

Definition total {A} (F : A -> option A) (x : A) : A := match F x with Some y => y | None => x end.

(* at most one element is touched by F *)
Fixpoint amo {A} (F : A -> option A) (l : list A) : Prop :=
  match l with
  | [] => True
  | x :: t => (F x <> None -> Forall (fun y => F y = None) t) /\ amo F t
  end.

Lemma map_total_none {A} (F : A -> option A) l : Forall (fun y => F y = None) l -> map (total F) l = l.
Proof. induction 1; cbn; auto. unfold total at 1. rewrite H, IHForall. reflexivity. Qed.

Lemma ufo_none {A} (F : A -> option A) l : upd_first_opt F l = None -> Forall (fun y => F y = None) l.
Proof.
  induction l; cbn; intros H; auto. destruct (F a) eqn:E; [discriminate|].
  destruct (upd_first_opt F l); [discriminate|]. constructor; auto.
Qed.

Lemma ufo_amo {A} (F : A -> option A) l :
  amo F l -> match upd_first_opt F l with Some l' => l' | None => l end = map (total F) l.
Proof.
  induction l as [|x t IH]; cbn; intros H; auto. destruct H as [H1 H2].
  unfold total at 1. destruct (F x) eqn:E.
  - rewrite map_total_none; auto. apply H1. congruence.
  - specialize (IH H2). destruct (upd_first_opt F t); [rewrite IH; reflexivity|f_equal; exact IH].
Qed.

Section OneShard.
  Variables (id : N) (f : group -> group).
  Definition Fg (g : group) : option group := if has_shard id g then Some (f g) else None.
  Definition Fr (r : policy) : option policy :=
    match upd_first_opt Fg (rp_groups r) with Some gs => Some (rp_set_groups r gs) | None => None end.
  Definition Fx (x : database) : option database :=
    match upd_first_opt Fr (db_rps x) with Some rs => Some (db_set_rps x rs) | None => None end.
  Definition kf (g : group) : group := if has_shard id g then f g else g.

  Lemma upd_group_of_shard_eq d :
    upd_group_of_shard d id f = match upd_first_opt Fx (d_dbs d) with Some dbs => set_dbs d dbs | None => d end.
  Proof. reflexivity. Qed.

  Lemma has_shard_sids g : has_shard id g = true -> In id (map s_id (g_shards g)).
  Proof.
    unfold has_shard. intros H. apply existsb_exists in H. destruct H as [s [Hs E]].
    apply N.eqb_eq in E. subst. apply in_map; auto.
  Qed.

  Lemma Fg_some_sids g : Fg g <> None -> In id (map s_id (g_shards g)).
  Proof. unfold Fg. destruct (has_shard id g) eqn:E; [intros _; apply has_shard_sids; auto|congruence]. Qed.

  Lemma ufo_some_in {A} (F : A -> option A) l : upd_first_opt F l <> None -> exists x, In x l /\ F x <> None.
  Proof.
    induction l; cbn; [congruence|]. destruct (F a) eqn:E.
    - intros _. exists a. split; auto. congruence.
    - destruct (upd_first_opt F l); [|congruence]. intros _. destruct IHl as [x [Hx Hf]]; [congruence|eauto].
  Qed.

  Lemma Fr_some_sids r : Fr r <> None -> In id (sids (rp_groups r)).
  Proof.
    unfold Fr. destruct (upd_first_opt Fg (rp_groups r)) eqn:E; [|congruence]. intros _.
    destruct (ufo_some_in Fg (rp_groups r)) as [g [Hg Hf]]; [congruence|].
    unfold sids, gshards.
    apply in_map_iff. apply Fg_some_sids in Hf. apply in_map_iff in Hf. destruct Hf as [s [Hs1 Hs2]].
    exists s. split; auto. apply in_flat_map. eauto.
  Qed.

  Definition xgroups (x : database) : list group := flat_map rp_groups (db_rps x).

  Lemma Fx_some_sids x : Fx x <> None -> In id (sids (xgroups x)).
  Proof.
    unfold Fx. destruct (upd_first_opt Fr (db_rps x)) eqn:E; [|congruence]. intros _.
    destruct (ufo_some_in Fr (db_rps x)) as [r [Hr Hf]]; [congruence|].
    apply Fr_some_sids in Hf. unfold sids, gshards, xgroups in *. apply in_map_iff in Hf.
    destruct Hf as [s [Hs1 Hs2]]. apply in_map_iff. exists s. split; auto.
    apply in_flat_map in Hs2. destruct Hs2 as [g [Hg Hs]]. apply in_flat_map. exists g. split; auto.
    apply in_flat_map. eauto.
  Qed.

  (* uniqueness of shard IDs gives "at most one" at each level *)
  Lemma amo_groups l : NoDup (sids l) -> amo Fg l.
  Proof.
    induction l as [|g t IH]; cbn; intros Hd; auto.
    change (sids (g :: t)) with (map s_id (g_shards g ++ gshards t)) in Hd. rewrite map_app in Hd.
    apply NoDup_app_inv in Hd. destruct Hd as (_ & Ht & Hx). split; [|apply IH; auto].
    intros Hg. apply Forall_forall. intros g' Hg'. destruct (Fg g') eqn:E; auto. exfalso.
    apply (Hx id); [apply Fg_some_sids; auto|].
    assert (Hin : In id (map s_id (g_shards g'))) by (apply Fg_some_sids; congruence).
    apply in_map_iff in Hin. destruct Hin as [s [Hs1 Hs2]]. apply in_map_iff. exists s. split; auto.
    unfold gshards. apply in_flat_map. eauto.
  Qed.

  Lemma amo_policies rs : NoDup (sids (flat_map rp_groups rs)) -> amo Fr rs.
  Proof.
    induction rs as [|r t IH]; intros Hd; [exact Logic.I|]. cbn [amo].
    change (flat_map rp_groups (r :: t)) with (rp_groups r ++ flat_map rp_groups t) in Hd. rewrite sids_app in Hd.
    apply NoDup_app_inv in Hd. destruct Hd as (_ & Ht & Hx). split; [|apply IH; auto].
    intros Hr. apply Forall_forall. intros r' Hr'. destruct (Fr r') eqn:E; auto. exfalso.
    apply (Hx id); [apply Fr_some_sids; auto|].
    assert (Hin : In id (sids (rp_groups r'))) by (apply Fr_some_sids; congruence).
    unfold sids, gshards in *. apply in_map_iff in Hin. destruct Hin as [s [Hs1 Hs2]].
    apply in_map_iff. exists s. split; auto. apply in_flat_map in Hs2. destruct Hs2 as [g [Hg Hs]].
    apply in_flat_map. exists g. split; auto. apply in_flat_map. eauto.
  Qed.

  Lemma amo_dbs dbs : NoDup (sids (flat_map xgroups dbs)) -> amo Fx dbs.
  Proof.
    induction dbs as [|x t IH]; intros Hd; [exact Logic.I|]. cbn [amo].
    change (flat_map xgroups (x :: t)) with (xgroups x ++ flat_map xgroups t) in Hd. rewrite sids_app in Hd.
    apply NoDup_app_inv in Hd. destruct Hd as (_ & Ht & Hx). split; [|apply IH; auto].
    intros Hr. apply Forall_forall. intros x' Hx'. destruct (Fx x') eqn:E; auto. exfalso.
    apply (Hx id); [apply Fx_some_sids; auto|].
    assert (Hin : In id (sids (xgroups x'))) by (apply Fx_some_sids; congruence).
    unfold sids, gshards in *. apply in_map_iff in Hin. destruct Hin as [s [Hs1 Hs2]].
    apply in_map_iff. exists s. split; auto. apply in_flat_map in Hs2. destruct Hs2 as [g [Hg Hs]].
    apply in_flat_map. exists g. split; auto. apply in_flat_map. eauto.
  Qed.

  Lemma NoDup_sids_sub_policy rs r : NoDup (sids (flat_map rp_groups rs)) -> In r rs -> NoDup (sids (rp_groups r)).
  Proof.
    induction rs; intros Hd Hi; [contradiction|].
    change (flat_map rp_groups (a :: rs)) with (rp_groups a ++ flat_map rp_groups rs) in Hd. rewrite sids_app in Hd.
    apply NoDup_app_inv in Hd. destruct Hd as (Ha & Ht & _). destruct Hi as [->|Hi]; auto.
  Qed.
  Lemma NoDup_sids_sub_db dbs x : NoDup (sids (flat_map xgroups dbs)) -> In x dbs -> NoDup (sids (xgroups x)).
  Proof.
    induction dbs; intros Hd Hi; [contradiction|].
    change (flat_map xgroups (a :: dbs)) with (xgroups a ++ flat_map xgroups dbs) in Hd. rewrite sids_app in Hd.
    apply NoDup_app_inv in Hd. destruct Hd as (Ha & Ht & _). destruct Hi as [->|Hi]; auto.
  Qed.

  Lemma total_Fg g : total Fg g = kf g.
  Proof. unfold total, Fg, kf. destruct (has_shard id g); reflexivity. Qed.

  Lemma total_Fr r : NoDup (sids (rp_groups r)) -> total Fr r = rp_set_groups r (map kf (rp_groups r)).
  Proof.
    intros Hd. pose proof (ufo_amo Fg (rp_groups r) (amo_groups _ Hd)) as E.
    unfold total, Fr. rewrite (map_ext _ _ total_Fg) in E.
    destruct (upd_first_opt Fg (rp_groups r)); rewrite <- E; auto. destruct r; reflexivity.
  Qed.

  Lemma total_Fx x :
    NoDup (sids (xgroups x)) ->
    total Fx x = db_set_rps x (map (fun r => rp_set_groups r (map kf (rp_groups r))) (db_rps x)).
  Proof.
    intros Hd. pose proof (ufo_amo Fr (db_rps x) (amo_policies _ Hd)) as E.
    assert (Em : map (total Fr) (db_rps x) = map (fun r => rp_set_groups r (map kf (rp_groups r))) (db_rps x)).
    { apply map_ext_in. intros r Hr. apply total_Fr. eapply NoDup_sids_sub_policy; eauto. }
    rewrite Em in E. unfold total, Fx.
    destruct (upd_first_opt Fr (db_rps x)); rewrite <- E; auto. destruct x; reflexivity.
  Qed.

  Lemma upd_group_of_shard_all d :
    NoDup (shard_ids d) -> upd_group_of_shard d id f = map_pols (map kf) d.
  Proof.
    intros Hd. rewrite upd_group_of_shard_eq.
    assert (Hd' : NoDup (sids (flat_map xgroups (d_dbs d)))) by exact Hd.
    pose proof (ufo_amo Fx (d_dbs d) (amo_dbs _ Hd')) as E.
    assert (Em : map (total Fx) (d_dbs d) =
                 map (fun x => db_set_rps x (map (fun r => rp_set_groups r (map kf (rp_groups r))) (db_rps x))) (d_dbs d)).
    { apply map_ext_in. intros x Hx. apply total_Fx. eapply NoDup_sids_sub_db; eauto. }
    rewrite Em in E. unfold map_pols.
    destruct (upd_first_opt Fx (d_dbs d)); rewrite <- E; auto. destruct d; reflexivity.
  Qed.
End OneShard.

(* ---------- node and user commands ---------- *)

Lemma create_data_node_canon d a t : create_data_node (canon d) a t = cres (create_data_node d a t).
Proof.
  unfold create_data_node. cbn [d_nodes d_meta d_max_node canon set_dbs].
  destruct (existsb _ (d_nodes d)); auto.
  match goal with |- context [if ?b then _ else _] => destruct b end; reflexivity.
Qed.

Lemma create_meta_node_canon d h t : create_meta_node (canon d) h t = cres (create_meta_node d h t).
Proof.
  unfold create_meta_node. cbn [d_nodes d_meta d_max_node canon set_dbs].
  destruct (existsb _ (d_meta d)); auto.
  match goal with |- context [if ?b then _ else _] => destruct b end; reflexivity.
Qed.

Lemma set_meta_node_canon d h t : set_meta_node (canon d) h t = cres (set_meta_node d h t).
Proof.
  unfold set_meta_node. cbn [d_meta canon set_dbs]. destruct (d_meta d) as [|n [|n2 l]] eqn:E; auto.
  apply create_meta_node_canon.
Qed.

Lemma delete_meta_node_canon d id : delete_meta_node (canon d) id = cres (delete_meta_node d id).
Proof.
  unfold delete_meta_node. cbn [d_meta canon set_dbs]. destruct (negb _); auto. destruct (id =? 0); auto.
Qed.

Lemma update_data_node_canon d id a t : update_data_node (canon d) id a t = cres (update_data_node d id a t).
Proof. unfold update_data_node. cbn [d_nodes canon set_dbs]. destruct (negb _); auto. Qed.

Lemma create_user_canon d n h a : create_user (canon d) n h a = cres (create_user d n h a).
Proof.
  unfold create_user, has_user. cbn [d_users d_admin canon set_dbs]. destruct (String.eqb n ""); auto.
  destruct (existsb _ (d_users d)); auto.
Qed.
Lemma drop_user_canon d n : drop_user (canon d) n = cres (drop_user d n).
Proof. unfold drop_user. cbn [d_users d_admin canon set_dbs]. destruct (find _ (d_users d)); auto. Qed.
Lemma update_user_canon d n h : update_user (canon d) n h = cres (update_user d n h).
Proof. unfold update_user, has_user. cbn [d_users d_admin canon set_dbs]. destruct (existsb _ (d_users d)); auto. Qed.
Lemma set_admin_privilege_canon d n a : set_admin_privilege (canon d) n a = cres (set_admin_privilege d n a).
Proof. unfold set_admin_privilege, has_user. cbn [d_users d_admin canon set_dbs]. destruct (negb _); auto. Qed.

(* ---------- the observable of canon d is an invariant-respecting value ---------- *)

Lemma Shrink_canon d : Inv d -> Shrink d (canon d).
Proof.
  intros I. apply Shrink_K1; auto.
  apply (ps_map_all _ _ d live_groups). intros l. apply prel_filter, incl_refl.
Qed.
Lemma Inv_canon d : Inv d -> Inv (canon d).
Proof. intros I. eapply Shrink_Inv; eauto using Shrink_canon. Qed.

(* ---------- every command ---------- *)

Definition val (r : result) (d : data) : data := match r with Ok a => a | Er _ => d end.

Lemma agree_cres a d : canon (val a d) = canon (val (cres a) (canon d)).
Proof. destruct a; cbn; rewrite canon_idem; reflexivity. Qed.

Lemma shard_op_canon d id f :
  Inv d -> (forall g, g_deleted g = true -> g_deleted (f g) = true) ->
  canon (upd_group_of_shard d id f) = canon (upd_group_of_shard (canon d) id f).
Proof.
  intros I Hf.
  rewrite (upd_group_of_shard_all id f d) by (rewrite shard_ids_views; apply I).
  rewrite (upd_group_of_shard_all id f (canon d)) by (rewrite shard_ids_views; apply (Inv_canon _ I)).
  apply canon_map_pols. intros l. apply live_map_mono. intros g E. unfold kf.
  destruct (has_shard id g); auto.
Qed.

Lemma exec_canon auto ex ex' d c :
  Inv d -> canon (val (exec auto ex d c) d) = canon (val (exec auto ex' (canon d) c) (canon d)).
Proof.
  intros I. destruct c; cbn [exec].
  - cbn. rewrite canon_idem. reflexivity.
  - (* CreateDatabase *)
    rewrite create_database_canon. destruct (create_database d name) as [d1|e]; cbn [cres]; [|apply (agree_cres (Er e))].
    change (d_nodes (canon d1)) with (d_nodes d1).
    destruct rp as [[[[rn rrep] rdur] rsgd]|].
    + rewrite create_rp_canon. destruct (create_rp d1 name rn rrep rdur rsgd true) as [d2|e]; cbn [cres].
      * apply (agree_cres (Ok d2)).
      * destruct e; apply (agree_cres (Er _)).
    + destruct auto; [rewrite create_rp_canon; apply agree_cres|apply (agree_cres (Ok d1))].
  - rewrite drop_database_canon. apply (agree_cres (Ok _)).
  - rewrite create_rp_canon. apply agree_cres.
  - rewrite drop_rp_canon. apply (agree_cres (Ok _)).
  - rewrite update_rp_canon. apply agree_cres.
  - rewrite create_shard_group_canon. apply agree_cres.
  - apply delete_shard_group_canon; auto.
  - rewrite create_cq_canon. apply agree_cres.
  - rewrite drop_cq_canon. apply (agree_cres (Ok _)).
  - rewrite create_sub_canon. apply agree_cres.
  - rewrite drop_sub_canon. apply agree_cres.
  - rewrite create_user_canon. apply agree_cres.
  - rewrite drop_user_canon. apply agree_cres.
  - rewrite update_user_canon. apply agree_cres.
  - rewrite set_privilege_canon. apply agree_cres.
  - rewrite set_admin_privilege_canon. apply agree_cres.
  - rewrite create_meta_node_canon. destruct (create_meta_node d http tcp); cbn [cres val];
      rewrite canon_set_cluster, canon_set_cluster, canon_idem; reflexivity.
  - rewrite delete_meta_node_canon. apply agree_cres.
  - rewrite set_meta_node_canon. destruct (set_meta_node d http tcp); cbn [cres val];
      rewrite canon_set_cluster, canon_set_cluster, canon_idem; reflexivity.
  - rewrite create_data_node_canon. apply agree_cres.
  - (* DeleteDataNode *)
    pose proof (delete_data_node_canon d id) as H.
    destruct (delete_data_node d id), (delete_data_node (canon d) id); cbn [val];
      try (rewrite canon_idem; reflexivity);
      (destruct H; [intros s Hs; rewrite all_shards_views in Hs; apply (inv_owners _ I s Hs)|..]); auto.
  - rewrite update_data_node_canon. apply agree_cres.
  - cbn [val]. apply shard_op_canon; auto. intros g E. unfold remove_shard_from.
    destruct (List.length (g_shards g) =? 1)%nat; cbn; auto.
  - cbn [val]. apply truncate_canon.
  - cbn [val]. apply prune_canon.
  - change (d_nodes (canon d)) with (d_nodes d). destruct (has_node (d_nodes d) node); cbn [val].
    + apply shard_op_canon; auto.
    + rewrite canon_idem. reflexivity.
  - cbn [val]. apply shard_op_canon; auto. intros g E.
    destruct (find (fun s => s_id s =? id) (g_shards g)); auto.
    destruct (remove_first (N.eqb node) (s_owners s)); cbn; auto.
    unfold remove_shard_from. destruct (List.length (g_shards g) =? 1)%nat; cbn; auto.
Qed.

Lemma apply_canon auto ex ex' d idx term c :
  Inv d ->
  canon (fst (apply auto ex d idx term c)) = canon (fst (apply auto ex' (canon d) idx term c)).
Proof.
  intros I. pose proof (exec_canon auto ex ex' d c I) as H. unfold apply.
  destruct (exec auto ex d c), (exec auto ex' (canon d) c); cbn [fst val] in *;
    rewrite !canon_stamp; congruence.
Qed.

(* two replicas whose observables agree still agree after the next command *)
Lemma run_from_canon auto orc1 orc2 es : forall k1 k2 d1 d2,
  Inv d1 -> Inv d2 -> log_wf es -> canon d1 = canon d2 ->
  canon (run_from auto orc1 k1 d1 es) = canon (run_from auto orc2 k2 d2 es).
Proof.
  induction es as [|e es IH]; cbn; intros k1 k2 d1 d2 I1 I2 W E; auto. inversion W; subst.
  apply IH; auto using apply_Inv.
  rewrite (apply_canon auto (orc1 k1) [] d1), (apply_canon auto (orc2 k2) [] d2), E; auto.
Qed.

Theorem run_deterministic auto orc1 orc2 es :
  log_wf es -> canon (run auto orc1 es) = canon (run auto orc2 es).
Proof. intros W. apply run_from_canon; auto using Inv_init. Qed.

Lemma apply_deterministic_step auto d1 d2 ex1 ex2 idx term c :
  reachable auto d1 -> reachable auto d2 -> canon d1 = canon d2 ->
  canon (fst (apply auto ex1 d1 idx term c)) = canon (fst (apply auto ex2 d2 idx term c)).
Proof.
  intros R1 R2 E.
  rewrite (apply_canon auto ex1 [] d1) by (eapply reachable_Inv; eauto).
  rewrite (apply_canon auto ex2 [] d2) by (eapply reachable_Inv; eauto).
  rewrite E. reflexivity.
Qed.
