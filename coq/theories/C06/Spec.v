(* C06/Spec.v — the property as executable checks on OBSERVED metadata values.
   Nothing here mentions how a command is executed: [state_ok] judges one metadata value,
   [step_ok] judges one transition (value before, command, returned error class, value
   after).  Run.v evaluates them on what the implementation did; Proofs.v proves them for
   every run of the model. *)
From Verif Require Import C06.Model C06.Eqb.
Open Scope N_scope.

Fixpoint nodup_b (l : list N) : bool :=
  match l with
  | [] => true
  | x :: t => negb (memN x t) && nodup_b t
  end.

Definition all_groups (d : data) : list group :=
  flat_map (fun x => flat_map rp_groups (db_rps x)) (d_dbs d).
Definition all_policies (d : data) : list policy := flat_map db_rps (d_dbs d).
Definition all_shards (d : data) : list shard := flat_map g_shards (all_groups d).
Definition group_ids (d : data) : list N := map g_id (all_groups d).
Definition shard_ids (d : data) : list N := map s_id (all_shards d).
Definition node_ids (d : data) : list N := map n_id (d_nodes d).

(* --- one value --- *)

(* shard and shard-group IDs are unique and not above their counters *)
Definition ids_ok (d : data) : bool :=
  nodup_b (group_ids d) && forallb (fun i => i <=? d_max_group d) (group_ids d) &&
  nodup_b (shard_ids d) && forallb (fun i => i <=? d_max_shard d) (shard_ids d).

(* data nodes have distinct IDs in 1..MaxNodeID *)
Definition nodes_ok (d : data) : bool :=
  nodup_b (node_ids d) && forallb (fun i => (1 <=? i) && (i <=? d_max_node d)) (node_ids d).

(* every owner of every shard is a current data node, listed once *)
Definition owners_ok (d : data) : bool :=
  forallb (fun s => nodup_b (s_owners s) && forallb (fun o => memN o (node_ids d)) (s_owners s))
          (all_shards d).

(* the live shard groups of a policy cover pairwise disjoint ranges [Start, min(End, TruncatedAt)) *)
Definition g_hi (g : group) : Z := match g_trunc g with Some t => Z.min t (g_end g) | None => g_end g end.
Definition disjoint2 (a b : group) : bool := (g_hi a <=? g_start b)%Z || (g_hi b <=? g_start a)%Z.
Fixpoint pairwise_disjoint (l : list group) : bool :=
  match l with
  | [] => true
  | g :: t => forallb (disjoint2 g) t && pairwise_disjoint t
  end.
Definition disjoint_ok (d : data) : bool :=
  forallb (fun r => pairwise_disjoint (live_groups (rp_groups r))) (all_policies d).

Definition state_ok (d : data) : bool := ids_ok d && nodes_ok d && owners_ok d && disjoint_ok d.

(* --- one transition --- *)

Definition counters_le (a b : data) : bool :=
  (d_max_node a <=? d_max_node b) && (d_max_group a <=? d_max_group b) && (d_max_shard a <=? d_max_shard b).
Definition counters_eq (a b : data) : bool :=
  (d_max_node a =? d_max_node b) && (d_max_group a =? d_max_group b) && (d_max_shard a =? d_max_shard b).

(* IDs that appear were never issued before: they are above the old counter *)
Definition fresh_ok (a b : data) : bool :=
  forallb (fun i => memN i (group_ids a) || (d_max_group a <? i)) (group_ids b) &&
  forallb (fun i => memN i (shard_ids a) || (d_max_shard a <? i)) (shard_ids b) &&
  forallb (fun i => memN i (node_ids a) || (d_max_node a <? i) ||
                    existsb (fun n => n_id n =? i) (d_meta a)) (node_ids b).

(* a new group of policy r: every shard has min(max(ReplicaN,1), #nodes) owners, pairwise
   distinct, all current data nodes, and all data nodes own the same number of copies *)
Definition count_owner (o : N) (g : group) : N :=
  llen (filter (N.eqb o) (flat_map s_owners (g_shards g))).
Definition new_group_ok (d : data) (r : policy) (g : group) : bool :=
  let n := llen (d_nodes d) in
  let rep := N.min (N.max (rp_replica r) 1) n in
  negb (llen (g_shards g) =? 0) &&
  forallb (fun s => (llen (s_owners s) =? rep) && nodup_b (s_owners s) &&
                    forallb (fun o => memN o (node_ids d)) (s_owners s)) (g_shards g) &&
  match node_ids d with
  | [] => true
  | o0 :: rest => forallb (fun o => count_owner o g =? count_owner o0 g) rest
  end.
Definition new_groups_ok (a b : data) : bool :=
  forallb (fun r => forallb (fun g => memN (g_id g) (group_ids a) || new_group_ok b r g) (rp_groups r))
          (all_policies b).

Definition step_ok (a : data) (c : cmd) (e : N) (b : data) : bool :=
  counters_le a b && fresh_ok a b && new_groups_ok a b &&
  (* a rejected command changes nothing (Term and Index are stamped by every Apply) *)
  (if e =? 0 then true
   else data_eqb (canon (stamp a 0 0)) (canon (stamp b 0 0)) && counters_eq a b) &&
  (* a removed node owns nothing *)
  match c with
  | CDeleteDataNode id =>
      if e =? 0 then negb (memN id (node_ids b)) &&
                     forallb (fun s => negb (memN id (s_owners s))) (all_shards b)
      else true
  | _ => true
  end.
