(* C06/ProofsEven.v — round-robin placement spreads the shard copies of a new group evenly:
   shardN * replicaN consecutive positions (mod #nodes) hit every node equally often. *)
From Verif Require Import C06.Model C06.Eqb C06.Spec C06.ListLemmas.
From Coq Require Import Lia Permutation Arith.
From Coq Require Import ZifyBool ZifyNat ZifyN.
Open Scope nat_scope.

(* exactly one element of a duplicate-free list satisfies f *)
Lemma filter_unique {A} (f : A -> bool) l x :
  NoDup l -> In x l -> (forall y, In y l -> (f y = true <-> y = x)) -> List.length (filter f l) = 1.
Proof.
  induction l as [|a t IH]; cbn; intros Hd Hi Hf; [contradiction|]. inversion Hd; subst.
  destruct (f a) eqn:E.
  - assert (a = x) by (apply Hf; auto). subst. cbn. f_equal.
    assert (G : forall l, (forall y, In y l -> f y = true -> False) -> filter f l = []).
    { clear. induction l; cbn; intros H; auto. destruct (f a) eqn:E; [exfalso; eapply H; eauto|].
      apply IHl. intros; eapply H; eauto. }
    rewrite G; auto. intros y Hy Hfy. assert (y = x) by (apply Hf; auto). subst. contradiction.
  - destruct Hi as [->|Hi].
    + assert (f x = true) by (apply Hf; auto). congruence.
    + apply IH; auto.
Qed.

(* in n consecutive integers every residue class mod n occurs once *)
Lemma residue_once c n p b :
  0 < n -> p < n -> List.length (filter (fun k => (c + k) mod n =? p) (seq b n)) = 1.
Proof.
  intros Hn Hp.
  (* the unique k in [b, b+n) with (c + k) mod n = p *)
  set (r := (c + b) mod n).
  set (k0 := b + (p + n - r) mod n).
  assert (Hr : r < n) by (apply Nat.mod_upper_bound; lia).
  assert (Hk0 : b <= k0 < b + n).
  { unfold k0. pose proof (Nat.mod_upper_bound (p + n - r) n ltac:(lia)). lia. }
  assert (Hmod : (c + k0) mod n = p).
  { symmetry.
    pose proof (Nat.div_mod (c + b) n ltac:(lia)) as Ea. fold r in Ea.
    pose proof (Nat.div_mod (p + n - r) n ltac:(lia)) as Em.
    pose proof (Nat.mod_upper_bound (p + n - r) n ltac:(lia)) as Hm.
    unfold k0.
    set (qa := (c + b) / n) in *. set (qm := (p + n - r) / n) in *. set (m := (p + n - r) mod n) in *.
    assert (Hq : qm <= 1).
    { destruct (le_lt_dec qm 1); auto.
      assert (n * 2 <= n * qm) by (apply Nat.mul_le_mono_l; lia). lia. }
    destruct qm as [|[|qm]]; [| |lia].
    - apply (Nat.mod_unique _ _ (qa + 1)); lia.
    - apply (Nat.mod_unique _ _ qa); lia. }
  apply (filter_unique _ _ k0).
  - apply seq_NoDup.
  - apply in_seq. lia.
  - intros y Hy. apply in_seq in Hy. rewrite Nat.eqb_eq. split; [|intros ->; auto].
    intros Hy2.
    (* (c+y) mod n = (c+k0) mod n with |y - k0| < n *)
    pose proof (Nat.div_mod (c + y) n ltac:(lia)) as E1.
    pose proof (Nat.div_mod (c + k0) n ltac:(lia)) as E2.
    rewrite Hy2 in E1. rewrite Hmod in E2.
    set (q1 := (c + y) / n) in *. set (q2 := (c + k0) / n) in *.
    destruct (lt_eq_lt_dec q1 q2) as [[L|L]|L].
    + assert (n * (q1 + 1) <= n * q2) by (apply Nat.mul_le_mono_l; lia). lia.
    + rewrite L in E1. lia.
    + assert (n * (q2 + 1) <= n * q1) by (apply Nat.mul_le_mono_l; lia). lia.
Qed.

Lemma residue_count c n p q :
  0 < n -> p < n -> List.length (filter (fun k => (c + k) mod n =? p) (seq 0 (q * n))) = q.
Proof.
  intros Hn Hp. induction q; cbn [Nat.mul]; [reflexivity|].
  replace (n + q * n) with (q * n + n) by lia. rewrite seq_app, filter_app, app_length, IHq.
  rewrite residue_once; auto. lia.
Qed.

Lemma map_seq_shift {A} (F : nat -> A) r : forall a,
  map F (seq a r) = map (fun j => F (a + j)) (seq 0 r).
Proof.
  induction r; intros a; cbn; [reflexivity|]. f_equal; [f_equal; lia|].
  rewrite IHr. rewrite <- seq_shift, map_map. apply map_ext. intros j. f_equal. lia.
Qed.

(* blocks of r consecutive positions, s times, are the first s*r positions *)
Lemma flat_map_blocks {A} (F : nat -> A) r s :
  flat_map (fun i => map (fun j => F (i * r + j)) (seq 0 r)) (seq 0 s) = map F (seq 0 (s * r)).
Proof.
  induction s; cbn [Nat.mul]; [reflexivity|].
  rewrite seq_S, flat_map_app, IHs. cbn [flat_map]. rewrite app_nil_r.
  replace (r + s * r) with (s * r + r) by lia. rewrite seq_app, map_app. f_equal.
  cbn [Nat.add]. symmetry. apply map_seq_shift.
Qed.

Lemma filter_map_length {A B} (p : B -> bool) (f : A -> B) l :
  List.length (filter p (map f l)) = List.length (filter (fun x => p (f x)) l).
Proof. induction l; cbn; auto. destruct (p (f a)); cbn; auto. Qed.

(* "for shardN*replicaN % len != 0 { shardN++ }" stops with a multiple *)
Lemma shard_n_aux_div fuel : forall s r n,
  (0 < n)%N -> (s <= n)%N -> (n < s + N.of_nat fuel)%N ->
  ((shard_n_aux fuel s r n * r) mod n = 0)%N.
Proof.
  induction fuel; intros s r n Hn Hs Hf; cbn; [lia|].
  destruct ((s * r) mod n =? 0)%N eqn:E; [apply N.eqb_eq; auto|].
  apply IHfuel; auto; try lia.
  assert (s <> n); [|lia]. intros ->. rewrite N.mul_comm, N.mod_mul in E by lia. discriminate.
Qed.

Lemma shard_n_div r n : (0 < n)%N -> ((shard_n r n * r) mod n = 0)%N.
Proof. intros Hn. unfold shard_n. apply shard_n_aux_div; lia. Qed.

Section Even.
  Variables (ids : list N) (start rep sn : N).
  Hypothesis Hd : NoDup ids.
  Hypothesis Hne : (0 < List.length ids).
  Hypothesis Hdiv : ((sn * rep) mod (llen ids) = 0)%N.

  Let n := List.length ids.
  Let c := N.to_nat start.
  Let r := N.to_nat rep.
  Let s := N.to_nat sn.
  Let F (k : nat) : N := nth ((c + k) mod n) ids 0%N.

  Lemma rr_owners_F i : rr_owners ids start rep i = map (fun j => F (i * r + j)) (seq 0 r).
  Proof.
    unfold rr_owners. fold r. apply map_ext. intros j. unfold F. f_equal.
    rewrite N2Nat.inj_mod. unfold llen. rewrite Nat2N.id. fold n. f_equal.
    rewrite !N2Nat.inj_add, N2Nat.inj_mul, !Nat2N.id. fold c. fold r. lia.
  Qed.

  Lemma all_owners_F :
    flat_map (fun i => rr_owners ids start rep i) (seq 0 s) = map F (seq 0 (s * r)).
  Proof.
    rewrite <- flat_map_blocks. apply flat_map_ext. intros i. apply rr_owners_F.
  Qed.

  Lemma count_even o :
    In o ids ->
    List.length (filter (N.eqb o) (flat_map (fun i => rr_owners ids start rep i) (seq 0 s))) = (s * r) / n.
  Proof.
    intros Ho. rewrite all_owners_F, filter_map_length.
    destruct (In_nth _ _ 0%N Ho) as [p [Hp Hnth]]. fold n in Hp.
    assert (Hsr : s * r = ((s * r) / n) * n).
    { assert (E : (s * r) mod n = 0).
      { unfold s, r, n. rewrite <- N2Nat.inj_mul. unfold llen in Hdiv.
        rewrite <- (Nat2N.id (List.length ids)), <- N2Nat.inj_mod, Hdiv. reflexivity. }
      pose proof (Nat.div_mod (s * r) n ltac:(lia)). lia. }
    remember ((s * r) / n) as q. rewrite Hsr.
    transitivity (List.length (filter (fun k => (c + k) mod n =? p) (seq 0 (q * n))));
      [|apply residue_count; auto].
    f_equal. apply filter_ext. intros k. unfold F.
    assert (Hk : (c + k) mod n < n) by (apply Nat.mod_upper_bound; lia).
    destruct (Nat.eqb_spec ((c + k) mod n) p) as [->|Hneq].
    - rewrite Hnth. apply N.eqb_refl.
    - apply N.eqb_neq. intros E. apply Hneq. rewrite NoDup_nth in Hd.
      apply (Hd _ _ Hk Hp). rewrite Hnth. auto.
  Qed.
End Even.
