(* C04/ProofsDrain.v — the send loop (Current; on success Advance; on io.EOF advanceSegment,
   as NodeProcessor.SendWrite does with an acknowledging target) reads exactly the pending
   blocks, in order, and then reports EOF: nothing acknowledged is skipped or repeated. *)
From Verif Require Import Lib.Bytes C04.Model C04.Spec C04.ProofsSeg C04.ProofsQueue C04.ProofsLink.
From VerifGen Require Import Consts.
From Coq Require Import ZifyBool ZifyNat ZifyN.
Open Scope Z_scope.

Lemma inv_length q al : inv q al -> qopen q = true -> length (qsegs q) = length al.
Proof.
  intros I Ho. pose proof (inv_state _ _ I) as HS. rewrite Ho in HS. destruct HS as [HS _].
  clear - HS. induction HS; cbn; [reflexivity|]. rewrite IHHS. reflexivity.
Qed.

Theorem drain_reads_pending : forall fuel q al acc,
  inv q al -> qopen q = true -> Forall nobuf al ->
  Forall (fun b => zlen b <= qmaxseg q) (apend al) ->
  (length (apend al) + length al <= fuel)%nat ->
  drain fuel q acc = (rev acc ++ apend al, EOF).
Proof.
  induction fuel as [|f IH]; intros q al acc I Ho Hnb Hsz Hf.
  - destruct (inv_open_cons _ _ I Ho) as [a [rest [s [segs [E _]]]]]. subst al. cbn in Hf. lia.
  - cbn [drain].
    destruct (q_current_inv q al I Ho) as [a [rest [E HC]]]. subst al.
    pose proof (Forall_inv Hnb) as Ha. unfold nobuf in Ha.
    destruct (a_t a) as [|b t'] eqn:Et.
    + rewrite HC. rewrite (inv_length _ _ I Ho). cbn [length].
      destruct rest as [|a2 rest2].
      * cbn. cbn [apend flat_map]. rewrite Et, Ha. cbn. rewrite app_nil_r. reflexivity.
      * cbn [Nat.leb].
        destruct (q_advance_segment_drop q a (a2 :: rest2) I Ho Et Ha ltac:(discriminate)) as [segs' [HA I']].
        rewrite HA. cbn [snd].
        assert (Hp : apend (a :: a2 :: rest2) = apend (a2 :: rest2)).
        { cbn [apend flat_map]. rewrite Et, Ha. reflexivity. }
        rewrite Hp in *.
        apply (IH _ _ acc I'); qset; [exact Ho|apply (Forall_inv_tail Hnb)|exact Hsz|].
        cbn [length] in *. lia.
    + destruct HC as [segs1 [I1 HC]].
      assert (Hb : zlen b <= qmaxseg q).
      { cbn [apend flat_map] in Hsz. rewrite Et in Hsz. inversion Hsz; assumption. }
      destruct (Z.gtb_spec (zlen b) (qmaxseg q)); [lia|].
      rewrite HC.
      destruct (q_advance_inv _ _ I1 Ho) as [a0 [rest0 [E0 [segs' [al' [HA [I' [[Hab Hlen] Hp]]]]]]]].
      inversion E0; subst a0 rest0. rewrite Et in Hp.
      rewrite HA. cbn [snd]. qset.
      rewrite Hp. rewrite Hp in Hsz, Hf.
      replace (rev acc ++ b :: apend al') with (rev (b :: acc) ++ apend al')
        by (cbn [rev]; rewrite <- app_assoc; reflexivity).
      apply (IH _ _ (b :: acc) I'); qset.
      * exact Ho.
      * apply nbuf0_nobuf. rewrite Hab, (abuf_nobuf _ Hnb). reflexivity.
      * inversion Hsz; assumption.
      * cbn [length] in *. lia.
Qed.

(* for a state the specification judges, with nothing buffered and no block above the limit *)
Corollary drain_reachable q st fuel :
  reachable q st -> qopen q = true -> s_nbuf st = 0%nat ->
  Forall (fun b => zlen b <= qmaxseg q) (pending q) ->
  (length (pending q) + length (qsegs q) <= fuel)%nat ->
  drain fuel q [] = (pending q, EOF).
Proof.
  intros R Ho Hn Hsz Hf. destruct (reachable_inv _ _ R) as [al [I L]].
  rewrite (pending_inv _ _ I) in *. rewrite (inv_length _ _ I Ho) in Hf.
  apply (drain_reads_pending fuel q al [] I Ho); try assumption.
  apply nbuf0_nobuf. pose proof (lk_nbuf _ _ _ L). lia.
Qed.
