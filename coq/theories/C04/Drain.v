(* C04/Drain.v — executable model of the CONSUMER of the hinted-handoff queue, on top of the
   queue model of Model.v:
     services/hh/node_processor.go  WriteShard (split + Append), SendWrite (branch by branch),
                                    the retry tick of run (SendWrite until an error), the purge
                                    tick (PurgeOlderThan), close(onlyIfEmpty) / CloseIfEmpty, Open
     services/hh/service.go         the processor map (node, shard) -> processor with WriteShard
                                    (processor creation), RemoveNode, one pass of
                                    purgeInactiveProcessors, restart (Open reloads the directories)
   Oracles: what metaClient.DataNode answers ([meta_out]), what shardWriter.WriteShardBinary
   answers ([wr_out]), which segment files are older than the age limit ([old]), which processors'
   LastModified is older than MaxAge ([aged]), which nodes the meta data knows ([active]).
   Every step also returns EVENTS (accept / writer call / drop with its reason): the ledger the
   specification (bottom of this file) is stated on.
   Definitions only; proofs in ProofsConsumer.v. *)
From Verif Require Export Lib.Bytes C04.Model C04.Spec.
From VerifGen Require Import Consts.
Open Scope Z_scope.

(* ------------------------------------------------------------------ *)
(* oracles *)

(* metaClient.DataNode(nodeID) as used by NodeProcessor.Active *)
Inductive meta_out :=
| MActive        (* a NodeInfo *)
| MInactive      (* nil, nil  or  nil, meta.ErrNodeNotFound *)
| MErr.          (* any other error *)

(* shardWriter.WriteShardBinary(shardID, nodeID, points) *)
Inductive wr_out :=
| WAck           (* nil: the target node stored the points *)
| WGone          (* nil WITHOUT sending: coordinator.ShardWriter finds no shard group for the shard *)
| WRetry         (* an error with IsRetryable(err) = true *)
| WPerm.         (* "field type conflict" / "partial write": the target rejects the write for good *)

Definition wr_code (w : wr_out) : N := match w with WAck => 0 | WGone => 1 | WRetry => 2 | WPerm => 3 end%N.
Definition wr_of_N (n : N) : wr_out := match n with 0 => WAck | 1 => WGone | 2 => WRetry | _ => WPerm end%N.

(* ------------------------------------------------------------------ *)
(* the shape of SendWrite's branches, re-read from the source (tools/genconsts/c04.go).
   action codes: 0 nothing, 1 queue.Advance, 2 queue.Truncate, 3 queue.advanceSegment *)
Record shape := mkShape {
  sh_on_err : N;            (* Current failed, not io.EOF *)
  sh_on_eof : N;            (* Current = io.EOF *)
  sh_on_um : N;             (* unmarshalWrite failed *)
  sh_retry_returns : bool;  (* a retryable writer error returns before any queue call *)
  sh_advance_first : bool   (* queue.Advance is called BEFORE WriteShardBinary *)
}.

Definition good_shape : shape := mkShape 2 3 1 true false.
Definition c04_shape : shape :=
  mkShape c04_sw_on_current_err c04_sw_on_eof c04_sw_on_unmarshal_err c04_sw_retry_returns c04_sw_advance_before_write.

Definition do_act (a : N) (q : queue) : queue :=
  match a with
  | 1 => snd (q_advance q)
  | 2 => snd (q_truncate q)
  | 3 => snd (q_advance_segment q)
  | _ => q
  end%N.

(* ------------------------------------------------------------------ *)
(* events *)

Definition key := (N * N)%type.                 (* (node, shard) *)
Definition key_eqb (a b : key) : bool := N.eqb (fst a) (fst b) && N.eqb (snd a) (snd b).

(* why a block left the queue without (or instead of) an acknowledged delivery *)
Inductive fate :=
| FUndecodable      (* unmarshalWrite failed: skipped with Advance *)
| FCorrupt          (* Current failed (record larger than the segment limit / short file): Truncate *)
| FAged             (* PurgeOlderThan: its segment file is older than max-age *)
| FNodeRemoved      (* Service.RemoveNode *)
| FInactiveAged     (* purge pass: the node is unknown to the meta data and the queue is older than max-age *)
| FLost.            (* NOT a documented reason: produced only by the refuted shapes of SendWrite *)

Inductive ev :=
| EAccept (k : key) (b : block)                 (* queue.Append returned nil *)
| ECall (k : key) (b : block) (w : wr_out)      (* WriteShardBinary(points of b) returned w *)
| EDrop (k : key) (bs : list block) (f : fate). (* blocks discarded, with the reason *)

(* ------------------------------------------------------------------ *)
(* NodeProcessor.WriteShard: the split is [write_shard] (it depends on the points only), each
   block goes through queue.Append with no other appender in flight; stops at the first refusal *)

Fixpoint appends (q : queue) (bs : list block) : rc * list block * queue :=
  match bs with
  | [] => (Ok, [], q)
  | b :: r =>
    match q_append q b 0 0 with
    | (Ok, q1) => let '(e, acc, q2) := appends q1 r in (e, b :: acc, q2)
    | (e, q1) => (e, [], q1)
    end
  end.

Definition split_blocks (shard : N) (pts : list bytes) : list block * ws_out :=
  let '(blks, out) := write_shard (fun p : bytes => zlen p) c04_default_segment_size (fun _ => true) pts in
  (map (marshal_write shard) blks, out).

(* result: error class, blocks accepted, queue *)
Definition np_write (shard : N) (pts : list bytes) (q : queue) : rc * list block * queue :=
  if negb (qopen q) then (Other, [], q)              (* "node processor is closed" *)
  else
    let '(bs, out) := split_blocks shard pts in
    match appends q bs with
    | (Ok, acc, q') => (match out with WsOk => Ok | _ => SegFull end, acc, q')
    | r => r
    end.

(* ------------------------------------------------------------------ *)
(* NodeProcessor.SendWrite *)

Inductive sw_rc := SwSent (n : Z) | SwEOF | SwErr | SwPanic.

Definition head_visible (q : queue) : list block :=
  match qsegs q with [] => [] | h :: _ => seg_visible h end.

(* blocks a queue-moving action releases, as events *)
Definition act_events (k : key) (a : N) (f : fate) (q : queue) : list ev :=
  match a with
  | 1 => match head_visible q with b :: _ => [EDrop k [b] f] | [] => [] end
  | 2 => match head_visible q with [] => [] | l => [EDrop k l f] end
  | _ => []
  end%N.

Definition mid_write (shard : N) (mid : list bytes) (q : queue) : rc * list block * queue :=
  match mid with [] => (Ok, [], q) | _ => np_write shard mid q end.

(* [mid]: one WriteShard(points) call of another goroutine that runs between queue.Current and
   the next queue call of SendWrite ([] = none): both hold n.mu only for READING.  On the send
   path that is exactly the time WriteShardBinary takes. *)
Definition send_write_with (sh : shape) (k : key) (m : meta_out) (w : wr_out) (mid : list bytes)
           (q : queue) : sw_rc * list ev * queue :=
  match m with
  | MErr => (SwErr, [], q)
  | MInactive => (SwEOF, [], q)
  | MActive =>
    let '(r, b, q1) := q_current q in
    let '(_, acc, q2) := mid_write (snd k) mid q1 in
    let eacc := map (EAccept k) acc in
    match r with
    | Ok =>
      match unmarshal_write b with
      | UmOk _ _ =>
        if sh_advance_first sh then
          (* (not the code as it is) Advance, then the write *)
          let q3 := snd (q_advance q2) in
          match w with
          | WRetry => (SwErr, ECall k b w :: eacc ++ [EDrop k [b] FLost], q3)
          | _ => (SwSent (zlen b), ECall k b w :: eacc, q3)
          end
        else
          match w with
          | WRetry =>
            if sh_retry_returns sh then (SwErr, ECall k b w :: eacc, q2)
            else (SwSent (zlen b), ECall k b w :: eacc ++ [EDrop k [b] FLost], snd (q_advance q2))
          | _ => (SwSent (zlen b), ECall k b w :: eacc, snd (q_advance q2))
          end
      | _ => (SwErr, eacc ++ act_events k (sh_on_um sh) FUndecodable q2, do_act (sh_on_um sh) q2)
      end
    | EOF => (SwEOF, eacc ++ act_events k (sh_on_eof sh) FLost q2, do_act (sh_on_eof sh) q2)
    | Panic => (SwPanic, eacc, q2)
    | _ => (SwErr, eacc ++ act_events k (sh_on_err sh) FCorrupt q2, do_act (sh_on_err sh) q2)
    end
  end.

Definition send_write := send_write_with c04_shape.

(* the retry tick of NodeProcessor.run: SendWrite until it returns an error.  The writer answers
   [ws] in order and a retryable error afterwards (so the loop ends for every oracle). *)
Fixpoint tick (k : key) (m : meta_out) (ws : list wr_out) (q : queue) : list ev * queue :=
  match ws with
  | [] => let '(_, e, q') := send_write k m WRetry [] q in (e, q')
  | w :: r =>
    let '(c, e, q') := send_write k m w [] q in
    match c with
    | SwSent _ => let '(e2, q2) := tick k m r q' in (e ++ e2, q2)
    | _ => (e, q')
    end
  end.

(* the purge tick of run: queue.PurgeOlderThan(now - MaxAge); [old] = ids of the segment files whose
   mtime is before the cutoff *)
Definition dropped_prefix (before after : list block) : list block :=
  firstn (length before - length after) before.

Definition age_purge (k : key) (old : list N) (q : queue) : list ev * queue :=
  let '(_, q') := q_purge q old in
  match dropped_prefix (pending q) (pending q') with
  | [] => ([], q')
  | d => ([EDrop k d FAged], q')
  end.

(* NodeProcessor.close(onlyIfEmpty = true): the emptiness check and the decision to close are
   taken in one critical section of n.mu (WriteShard holds it for reading) *)
Definition np_close_if_empty (q : queue) : bool * queue :=
  if negb (qopen q) then (true, q)
  else if negb (q_empty q) then (false, q)
  else (true, snd (q_close q)).

(* ------------------------------------------------------------------ *)
(* Service: the processor map.  Every processor in the map is open (Service.Close followed by a
   new Service is [SRestart]); its directory is [disk_of] its queue. *)

Record svc := mkSvc {
  sv_maxsize : Z;                  (* cfg.MaxSize *)
  sv_cap : Z;                      (* cfg.MaxWritesPending *)
  sv_procs : list (key * queue)
}.

Fixpoint find (k : key) (l : list (key * queue)) : option queue :=
  match l with
  | [] => None
  | (k', q) :: r => if key_eqb k k' then Some q else find k r
  end.

Fixpoint upd (k : key) (q : queue) (l : list (key * queue)) : list (key * queue) :=
  match l with
  | [] => [(k, q)]
  | (k', q') :: r => if key_eqb k k' then (k, q) :: r else (k', q') :: upd k q r
  end.

Definition set_procs (s : svc) l := mkSvc (sv_maxsize s) (sv_cap s) l.

Inductive sop :=
| SWrite (node shard : N) (pts : list bytes)                 (* Service.WriteShard(shard, node, points) *)
| SRaw (node shard : N) (b : block)                          (* test hook: queue.Append(b) on an existing processor *)
| SSetMax (node shard : N) (n : Z)                           (* test hook: queue.SetMaxSegmentSize(n) *)
| SSend (node shard : N) (m : meta_out) (w : wr_out) (mid : list bytes)   (* NodeProcessor.SendWrite *)
| STick (node shard : N) (m : meta_out) (ws : list wr_out)   (* run: retry tick *)
| SAgePurge (node shard : N) (old : list N)                  (* run: purge tick *)
| SCloseIfEmpty (node shard : N)                             (* NodeProcessor.CloseIfEmpty; re-opened by Open when closed *)
| SPurgePass (active : list N) (aged : list key)             (* one tick of purgeInactiveProcessors *)
| SRemoveNode (node : N)                                     (* Service.RemoveNode *)
| SRestart.                                                  (* Service.Close (or a crash: nothing is buffered),
                                                                then a new Service.Open on the same directory *)

(* one processor during the purge pass: keep it (Some) or close + Purge + delete it (None) *)
Definition pass_entry (active : list N) (aged : list key) (k : key) (q : queue) : option queue * list ev :=
  if q_empty q then
    let '(closed, q') := np_close_if_empty q in
    if closed then (None, []) else (Some q', [])
  else if existsb (N.eqb (fst k)) active then (Some q, [])
  else if negb (existsb (key_eqb k) aged) then (Some q, [])
  else (None, [EDrop k (pending q) FInactiveAged]).

(* a sweep over the map: each processor is kept (Some) or closed, purged and deleted (None) *)
Fixpoint sweep (f : key -> queue -> option queue * list ev) (l : list (key * queue)) : list (key * queue) * list ev :=
  match l with
  | [] => ([], [])
  | (k, q) :: r =>
    let '(o, e) := f k q in
    let '(r', e') := sweep f r in
    (match o with Some q' => (k, q') :: r' | None => r' end, e ++ e')
  end.

Definition pass (active : list N) (aged : list key) := sweep (pass_entry active aged).

(* Service.RemoveNode: Close + Purge of every processor of that node, and of no other *)
Definition remove_entry (node : N) (k : key) (q : queue) : option queue * list ev :=
  if N.eqb (fst k) node
  then (None, match pending q with [] => [] | d => [EDrop k d FNodeRemoved] end)
  else (Some q, []).

Definition remove_node (node : N) := sweep (remove_entry node).

(* what the caller of one operation sees: error class (numbered as in Run.v), bytes sent *)
Definition rc_code (r : rc) : N :=
  match r with Ok => 0 | EOF => 1 | NotOpen => 2 | SegFull => 3 | QueueFull => 4 | Blocked => 5 | Other => 6 | Panic => 7 end%N.
Definition sw_code (c : sw_rc) : N * Z :=
  match c with SwSent n => (0%N, n) | SwEOF => (1%N, 0) | SwErr => (6%N, 0) | SwPanic => (7%N, 0) end.
Definition absent : N := 99%N.     (* no processor for that (node, shard): the harness does nothing *)

Definition sstep (s : svc) (o : sop) : (N * Z) * list ev * svc :=
  match o with
  | SWrite node shard pts =>
    let k := (node, shard) in
    let q := match find k (sv_procs s) with
             | Some q => q
             | None => q_init (sv_maxsize s) (sv_cap s)      (* NewNodeProcessor + Open on a new directory *)
             end in
    let '(r, acc, q') := np_write shard pts q in
    ((rc_code r, 0), map (EAccept k) acc, set_procs s (upd k q' (sv_procs s)))
  | SRaw node shard b =>
    let k := (node, shard) in
    match find k (sv_procs s) with
    | None => ((absent, 0), [], s)
    | Some q =>
      let '(r, q') := q_append q b 0 0 in
      ((rc_code r, 0), match r with Ok => [EAccept k b] | _ => [] end, set_procs s (upd k q' (sv_procs s)))
    end
  | SSetMax node shard n =>
    let k := (node, shard) in
    match find k (sv_procs s) with
    | None => ((absent, 0), [], s)
    | Some q => let '(r, q') := q_set_max q n in ((rc_code r, 0), [], set_procs s (upd k q' (sv_procs s)))
    end
  | SSend node shard m w mid =>
    let k := (node, shard) in
    match find k (sv_procs s) with
    | None => ((absent, 0), [], s)
    | Some q => let '(c, e, q') := send_write k m w mid q in (sw_code c, e, set_procs s (upd k q' (sv_procs s)))
    end
  | STick node shard m ws =>
    let k := (node, shard) in
    match find k (sv_procs s) with
    | None => ((absent, 0), [], s)
    | Some q => let '(e, q') := tick k m ws q in ((0%N, 0), e, set_procs s (upd k q' (sv_procs s)))
    end
  | SAgePurge node shard old =>
    let k := (node, shard) in
    match find k (sv_procs s) with
    | None => ((absent, 0), [], s)
    | Some q => let '(e, q') := age_purge k old q in ((0%N, 0), e, set_procs s (upd k q' (sv_procs s)))
    end
  | SCloseIfEmpty node shard =>
    let k := (node, shard) in
    match find k (sv_procs s) with
    | None => ((absent, 0), [], s)
    | Some q =>
      let '(closed, q') := np_close_if_empty q in
      (* the harness re-opens a processor it closed (NodeProcessor.Open = a new queue object) *)
      let q'' := if closed then snd (q_fresh q') else q' in
      ((if closed then 1%N else 0%N, 0), [], set_procs s (upd k q'' (sv_procs s)))
    end
  | SPurgePass active aged =>
    let '(l, e) := pass active aged (sv_procs s) in ((0%N, 0), e, set_procs s l)
  | SRemoveNode node =>
    let '(l, e) := remove_node node (sv_procs s) in ((0%N, 0), e, set_procs s l)
  | SRestart =>
    ((0%N, 0), [], set_procs s (map (fun e => (fst e, snd (q_fresh (snd e)))) (sv_procs s)))
  end.

Fixpoint srun (s : svc) (ops : list sop) : list ev * svc :=
  match ops with
  | [] => ([], s)
  | o :: r => let '(_, e, s1) := sstep s o in let '(e2, s2) := srun s1 r in (e ++ e2, s2)
  end.

Definition svc_init (maxsize cap : Z) : svc := mkSvc maxsize cap [].

Definition pend_of (k : key) (s : svc) : list block :=
  match find k (sv_procs s) with Some q => pending q | None => [] end.

(* ------------------------------------------------------------------ *)
(* THE SPECIFICATION: a ledger per (node, shard).  [ledger k pend evs] replays the events that
   concern queue k on a FIFO of blocks and answers [None] at the first event the property forbids:
     - a writer call for a block that is not the OLDEST pending block          (order, (b)/(d))
     - a block leaves the FIFO only by a writer call that did not end in a retryable error, or by
       a drop of a PREFIX of the FIFO that names its reason                    ((a)/(c))
     - reason-specific: an undecodable block is one [unmarshal_write] rejects; node removal and
       the inactive-node purge drop the whole queue. *)

Definition um_ok (b : block) : bool := match unmarshal_write b with UmOk _ _ => true | _ => false end.

Definition fate_ok (f : fate) (bs pend : list block) : bool :=
  match f with
  | FUndecodable => match bs with [b] => negb (um_ok b) | _ => false end
  | FNodeRemoved | FInactiveAged => (length bs =? length pend)%nat
  | FCorrupt | FAged => negb (is_nil bs)
  | FLost => false
  end.

Fixpoint ledger (k : key) (pend : list block) (evs : list ev) : option (list block) :=
  match evs with
  | [] => Some pend
  | EAccept k' b :: r => ledger k (if key_eqb k k' then pend ++ [b] else pend) r
  | ECall k' b w :: r =>
    if key_eqb k k' then
      match pend with
      | h :: t => if bytes_eqb h b && um_ok b
                  then ledger k (match w with WRetry => pend | _ => t end) r
                  else None
      | [] => None
      end
    else ledger k pend r
  | EDrop k' bs f :: r =>
    if key_eqb k k' then
      if blocks_prefix bs pend && fate_ok f bs pend then ledger k (skipn (length bs) pend) r else None
    else ledger k pend r
  end.

(* projections of an event list *)
Definition accepted (k : key) (evs : list ev) : list block :=
  flat_map (fun e => match e with EAccept k' b => if key_eqb k k' then [b] else [] | _ => [] end) evs.
(* every block handed to the writer, in call order (a retryable failure may have reached the target) *)
Definition sent (k : key) (evs : list ev) : list block :=
  flat_map (fun e => match e with ECall k' b _ => if key_eqb k k' then [b] else [] | _ => [] end) evs.
(* blocks that left the queue, in order, with the reason (None = the writer's final answer) *)
Definition released (k : key) (evs : list ev) : list block :=
  flat_map (fun e => match e with
                     | ECall k' b w => if key_eqb k k' then match w with WRetry => [] | _ => [b] end else []
                     | EDrop k' bs _ => if key_eqb k k' then bs else []
                     | _ => [] end) evs.
