(* C04/ProofsSeg.v — one segment: the byte-level methods of queue.go simulate an abstract
   segment (blocks consumed / blocks readable / blocks buffered). *)
From Verif Require Import Lib.Bytes C04.Model C04.Spec.
From VerifGen Require Import Consts.
From Coq Require Import ZifyBool ZifyNat ZifyN.
Open Scope Z_scope.

(* the model follows these facts of the source; if they change the proofs stop here *)
Lemma footer_size_is_8 : c04_footer_size = 8.
Proof. reflexivity. Qed.
Lemma close_flushes : c04_close_flushes = true.
Proof. reflexivity. Qed.
Lemma empty_ignores_cursor : c04_empty_reads_cursor = false.
Proof. reflexivity. Qed.

Definition bnd : Z := 4611686018427387904.   (* 2^62 *)

(* ---------- integers on disk ---------- *)

Lemma zlen_app {A} (a b : list A) : zlen (a ++ b) = zlen a + zlen b.
Proof. unfold zlen. rewrite app_length. lia. Qed.

Lemma zlen_nonneg {A} (a : list A) : 0 <= zlen a.
Proof. unfold zlen. lia. Qed.

Lemma u64_length v : length (u64 v) = 8%nat.
Proof. apply be_enc_length. Qed.

Lemma zlen_u64 v : zlen (u64 v) = 8.
Proof. unfold zlen. rewrite u64_length. reflexivity. Qed.

Lemma rd64_u64 v : 0 <= v < bnd -> rd64 (u64 v) = v.
Proof.
  intros H. unfold rd64, u64. rewrite be_dec_enc.
  - apply to_of_int64. unfold two63, bnd in *. cbn [Z.of_N]. lia.
  - rewrite <- two64_pow. apply of_int64_lt.
Qed.

Lemma len_prefix_length b : length (len_prefix b) = 8%nat.
Proof. apply be_enc_length. Qed.

Lemma rd64_len_prefix b : zlen b < bnd -> rd64 (len_prefix b) = zlen b.
Proof.
  intros H. unfold rd64, len_prefix, zlen, bnd in *. rewrite be_dec_enc.
  - unfold to_int64, two63. destruct (N.ltb_spec (N.of_nat (length b)) 9223372036854775808); lia.
  - change (256 ^ N.of_nat 8)%N with 18446744073709551616%N. lia.
Qed.

Lemma wrap64_small v : 0 <= v < bnd -> wrap64 v = v.
Proof. intros H. unfold wrap64. apply to_of_int64. unfold two63, bnd in *. cbn [Z.of_N]. lia. Qed.

(* ---------- frames ---------- *)

Lemma frames_app a b : frames (a ++ b) = frames a ++ frames b.
Proof. unfold frames. apply flat_map_app. Qed.

Lemma frames_cons b bs : frames (b :: bs) = len_prefix b ++ b ++ frames bs.
Proof. unfold frames, frame. cbn [flat_map]. rewrite <- app_assoc. reflexivity. Qed.

Lemma zlen_frame b : zlen (frame b) = 8 + zlen b.
Proof. unfold frame. rewrite zlen_app. unfold zlen at 1. rewrite len_prefix_length. lia. Qed.

Lemma zlen_frames_cons b bs : zlen (frames (b :: bs)) = 8 + zlen b + zlen (frames bs).
Proof. rewrite frames_cons, !zlen_app. unfold zlen at 1. rewrite len_prefix_length. lia. Qed.

Lemma frames_nil_iff bs : frames bs = [] <-> bs = [].
Proof.
  split; [|intros ->; reflexivity].
  destruct bs as [|b bs]; [reflexivity|]. intros H. apply (f_equal zlen) in H.
  rewrite zlen_frames_cons in H. pose proof (zlen_nonneg b). pose proof (zlen_nonneg (frames bs)).
  change (zlen (@nil N)) with 0 in H. lia.
Qed.

Definition foff (bs : list block) : Z := zlen (frames bs).

Lemma foff_app a b : foff (a ++ b) = foff a + foff b.
Proof. unfold foff. rewrite frames_app, zlen_app. reflexivity. Qed.

Lemma foff_nonneg a : 0 <= foff a.
Proof. apply zlen_nonneg. Qed.

(* ---------- file primitives ---------- *)

Lemma firstn_app_exact {A} (a b : list A) : firstn (length a) (a ++ b) = a.
Proof. rewrite firstn_app, Nat.sub_diag, firstn_all. cbn. apply app_nil_r. Qed.

Lemma skipn_app_exact {A} (a b : list A) : skipn (length a) (a ++ b) = b.
Proof. rewrite skipn_app, Nat.sub_diag, skipn_all. reflexivity. Qed.

Lemma pwrite_at a r d : pwrite (a ++ r) (length a) d = a ++ d ++ skipn (length d) r.
Proof.
  unfold pwrite. rewrite firstn_app_exact.
  replace (length a - length (a ++ r))%nat with 0%nat by (rewrite app_length; lia).
  cbn [repeat app]. rewrite skipn_app.
  replace (length a + length d - length a)%nat with (length d) by lia.
  rewrite (skipn_all2 a) by lia. reflexivity.
Qed.

Lemma to_nat_zlen {A} (a : list A) : Z.to_nat (zlen a) = length a.
Proof. unfold zlen. apply Nat2Z.id. Qed.

(* write over [x] (same length) in the middle of a file *)
Lemma write_bytes_mid s a x c d :
  sfile s = a ++ x ++ c -> scur s = zlen a -> length x = length d ->
  write_bytes s d = set_cur (set_file s (a ++ d ++ c)) (zlen a + zlen d).
Proof.
  intros Hf Hc Hl. unfold write_bytes. rewrite Hf, Hc, to_nat_zlen, pwrite_at.
  rewrite <- Hl, skipn_app_exact. reflexivity.
Qed.

(* write at the tail of a file, at least covering what was there *)
Lemma write_bytes_tail s a x d :
  sfile s = a ++ x -> scur s = zlen a -> (length x <= length d)%nat ->
  write_bytes s d = set_cur (set_file s (a ++ d)) (zlen a + zlen d).
Proof.
  intros Hf Hc Hl. unfold write_bytes. rewrite Hf, Hc, to_nat_zlen, pwrite_at.
  rewrite skipn_all2 by lia. rewrite app_nil_r. reflexivity.
Qed.

Lemma read_bytes_at s a b c n :
  sfile s = a ++ b ++ c -> scur s = zlen a -> n = zlen b -> 0 < n ->
  read_bytes s n = RdOk b (set_cur s (zlen a + n)).
Proof.
  intros Hf Hc Hn Hpos. unfold read_bytes.
  destruct (Z.leb_spec n 0) as [H0|H0]; [lia|].
  rewrite Hf, Hc, !zlen_app.
  destruct (Z.leb_spec (zlen a + (zlen b + zlen c)) (zlen a)) as [H1|H1].
  { pose proof (zlen_nonneg c). lia. }
  destruct (Z.ltb_spec (zlen a + (zlen b + zlen c)) (zlen a + n)) as [H2|H2].
  { pose proof (zlen_nonneg c). lia. }
  rewrite to_nat_zlen, skipn_app_exact. subst n. rewrite to_nat_zlen, firstn_app_exact.
  reflexivity.
Qed.

Lemma seek_end_footer s p f :
  sfile s = p ++ f -> length f = 8%nat -> seek_end s (-8) = Some (set_cur s (zlen p)).
Proof.
  intros Hf Hl. unfold seek_end. rewrite Hf, zlen_app.
  assert (Hz : zlen f = 8) by (unfold zlen; rewrite Hl; reflexivity). rewrite Hz.
  replace (zlen p + 8 + -8) with (zlen p) by lia.
  destruct (Z.ltb_spec (zlen p) 0) as [H|H]; [pose proof (zlen_nonneg p); lia|].
  reflexivity.
Qed.

Lemma seek_nonneg s p : 0 <= p -> seek s p = Some (set_cur s p).
Proof. intros H. unfold seek. destruct (Z.ltb_spec p 0); [lia|reflexivity]. Qed.

(* ---------- the abstract segment ---------- *)

Definition nonempty (b : block) : Prop := b <> [].

(* d = blocks already consumed (before the head offset), t = blocks readable from the head
   offset, bf = blocks acknowledged but still in the write buffer *)
Record seg_rep (id : N) (m : Z) (d t bf : list block) (s : seg) : Prop := mkRep {
  rep_id : sid s = id;
  rep_max : smax s = m;
  rep_file : sfile s = frames d ++ frames t ++ u64 (foff d);
  rep_pos : spos s = foff d;
  rep_size : ssize s = zlen (sfile s);
  rep_csz : scsz s = match t with [] => 0 | b :: _ => zlen b end;
  rep_buf : sbuf s = frames bf;
  rep_ne : Forall nonempty (t ++ bf);
  rep_bound : ssize s + zlen (sbuf s) <= bnd
}.

Ltac sset := cbn [sid sfile scur spos scsz ssize smax sbuf
                  set_file set_cur set_pos set_csz set_size set_max set_buf] in *.

Lemma rep_size_eq id m d t bf s : seg_rep id m d t bf s -> ssize s = foff d + foff t + 8.
Proof.
  intros R. rewrite (rep_size _ _ _ _ _ _ R), (rep_file _ _ _ _ _ _ R), !zlen_app, zlen_u64.
  unfold foff. lia.
Qed.

Lemma nonempty_zlen b : nonempty b -> 0 < zlen b.
Proof. unfold nonempty, zlen. destruct b; [congruence|cbn; lia]. Qed.

Lemma take_frames_cons b bs rest :
  take 8 (frames (b :: bs) ++ rest) = Some (len_prefix b, b ++ frames bs ++ rest).
Proof.
  rewrite frames_cons, <- !app_assoc.
  replace 8%nat with (length (len_prefix b)) by apply len_prefix_length.
  apply take_app.
Qed.

Lemma take_frames_cons0 b bs :
  take 8 (frames (b :: bs)) = Some (len_prefix b, b ++ frames bs).
Proof.
  rewrite frames_cons.
  replace 8%nat with (length (len_prefix b)) by apply len_prefix_length.
  apply take_app.
Qed.

(* ---- flush ---- *)
Lemma seg_flush_rep id m d t bf s :
  seg_rep id m d t bf s ->
  exists s', seg_flush s = (Ok, s') /\ seg_rep id m d (t ++ bf) [] s'.
Proof.
  intros R. unfold seg_flush.
  pose proof (rep_file _ _ _ _ _ _ R) as Hf.
  pose proof (rep_size_eq _ _ _ _ _ _ R) as Hsz.
  pose proof (rep_size _ _ _ _ _ _ R) as Hsize.
  pose proof (rep_bound _ _ _ _ _ _ R) as Hbd.
  pose proof (rep_ne _ _ _ _ _ _ R) as Hne.
  pose proof (rep_csz _ _ _ _ _ _ R) as Hcs.
  pose proof (rep_buf _ _ _ _ _ _ R) as Hbuf.
  pose proof (rep_pos _ _ _ _ _ _ R) as Hpos.
  destruct (sbuf s) as [|x xs] eqn:Eb.
  - exists s. split; [reflexivity|].
    assert (bf = []) by (apply frames_nil_iff; rewrite <- Hbuf; reflexivity).
    subst bf. rewrite app_nil_r. exact R.
  - assert (Hbne : bf <> []) by (intros ->; discriminate Hbuf).
    rewrite <- Eb in *. clear x xs Eb.
    rewrite app_assoc in Hf.
    rewrite (seek_end_footer s _ _ Hf (u64_length _)).
    set (s1 := set_cur s (zlen (frames d ++ frames t))).
    assert (Hw : write_bytes s1 (sbuf s ++ u64 (spos s)) =
                 set_cur (set_file s1 ((frames d ++ frames t) ++ sbuf s ++ u64 (spos s)))
                         (zlen (frames d ++ frames t) + zlen (sbuf s ++ u64 (spos s)))).
    { apply write_bytes_tail with (x := u64 (foff d)); [exact Hf|reflexivity|].
      rewrite app_length, !u64_length. lia. }
    rewrite Hw. clear Hw.
    assert (Hfile : (frames d ++ frames t) ++ sbuf s ++ u64 (spos s)
                    = frames d ++ frames (t ++ bf) ++ u64 (foff d)).
    { rewrite Hbuf, Hpos, frames_app, <- !app_assoc. reflexivity. }
    assert (Hlen : zlen (frames d ++ frames (t ++ bf) ++ u64 (foff d)) = ssize s + zlen (sbuf s)).
    { rewrite Hbuf, frames_app, !zlen_app, zlen_u64. unfold foff in Hsz. lia. }
    destruct (Z.eqb_spec (scsz s) 0) as [Hc0|Hc0].
    + (* head was at the end: t = [] *)
      destruct t as [|b t'].
      2:{ exfalso. inversion Hne as [|? ? Hb _]; subst. apply nonempty_zlen in Hb. lia. }
      destruct bf as [|b0 bf']; [congruence|].
      assert (Ht : take 8 (sbuf s) = Some (len_prefix b0, b0 ++ frames bf')) by (rewrite Hbuf; apply take_frames_cons0).
      rewrite Ht.
      eexists. split; [reflexivity|].
      assert (Hb0 : zlen b0 < bnd).
      { rewrite Hbuf, zlen_frames_cons in Hbd. pose proof (zlen_nonneg (frames bf')).
        pose proof (foff_nonneg d). unfold foff in *. cbn [frames flat_map] in Hsz.
        change (zlen (@nil N)) with 0 in Hsz. unfold bnd in *. lia. }
      constructor; subst s1; sset.
      * apply (rep_id _ _ _ _ _ _ R).
      * apply (rep_max _ _ _ _ _ _ R).
      * exact Hfile.
      * exact Hpos.
      * rewrite Hfile, Hlen. reflexivity.
      * cbn [app]. apply rd64_len_prefix. exact Hb0.
      * reflexivity.
      * rewrite app_nil_r. exact Hne.
      * change (zlen (@nil N)) with 0. lia.
    + eexists. split; [reflexivity|].
      constructor; subst s1; sset.
      * apply (rep_id _ _ _ _ _ _ R).
      * apply (rep_max _ _ _ _ _ _ R).
      * exact Hfile.
      * exact Hpos.
      * rewrite Hfile, Hlen. reflexivity.
      * destruct t as [|b t']; [congruence|]. cbn [app]. exact Hcs.
      * reflexivity.
      * rewrite app_nil_r. exact Hne.
      * change (zlen (@nil N)) with 0. lia.
Qed.

Lemma frames_single b : frames [b] = frame b.
Proof. unfold frames. cbn [flat_map]. apply app_nil_r. Qed.

Lemma foff_single b : foff [b] = 8 + zlen b.
Proof. unfold foff. rewrite frames_single. apply zlen_frame. Qed.

Lemma foff_cons b bs : foff (b :: bs) = 8 + zlen b + foff bs.
Proof. unfold foff. apply zlen_frames_cons. Qed.

(* ---- append ---- *)
Lemma seg_append_rep id m d t bf s b buffered :
  seg_rep id m d t bf s -> nonempty b -> m <= bnd - 8 ->
  if ssize s + zlen (sbuf s) + zlen b >? m
  then exists s', seg_append s b buffered = (SegFull, s') /\ seg_rep id m d (t ++ bf) [] s'
  else if buffered
       then exists s', seg_append s b buffered = (Ok, s') /\ seg_rep id m d t (bf ++ [b]) s'
       else exists s', seg_append s b buffered = (Ok, s') /\ seg_rep id m d (t ++ bf ++ [b]) [] s'.
Proof.
  intros R Hb Hm. unfold seg_append. rewrite (rep_max _ _ _ _ _ _ R).
  destruct (Z.gtb_spec (ssize s + zlen (sbuf s) + zlen b) m) as [Hgt|Hle].
  - destruct (seg_flush_rep _ _ _ _ _ _ R) as [s' [Hfl R']]. rewrite Hfl. exists s'. auto.
  - assert (R1 : seg_rep id m d t (bf ++ [b]) (set_buf s (sbuf s ++ frame b))).
    { constructor; sset.
      - apply (rep_id _ _ _ _ _ _ R).
      - apply (rep_max _ _ _ _ _ _ R).
      - apply (rep_file _ _ _ _ _ _ R).
      - apply (rep_pos _ _ _ _ _ _ R).
      - apply (rep_size _ _ _ _ _ _ R).
      - apply (rep_csz _ _ _ _ _ _ R).
      - rewrite frames_app, frames_single, (rep_buf _ _ _ _ _ _ R). reflexivity.
      - rewrite app_assoc. apply Forall_app. split; [apply (rep_ne _ _ _ _ _ _ R)|constructor; [exact Hb|constructor]].
      - rewrite zlen_app, zlen_frame. lia. }
    destruct buffered.
    + eexists. split; [reflexivity|exact R1].
    + destruct (seg_flush_rep _ _ _ _ _ _ R1) as [s' [Hfl R']]. rewrite Hfl. exists s'. split; [reflexivity|exact R'].
Qed.

Lemma rep_block_bound id m d t bf s b : seg_rep id m d t bf s -> In b t -> zlen b < bnd.
Proof.
  intros R Hin. pose proof (rep_size_eq _ _ _ _ _ _ R) as Hsz.
  pose proof (rep_bound _ _ _ _ _ _ R) as Hbd. pose proof (zlen_nonneg (sbuf s)).
  pose proof (foff_nonneg d).
  assert (zlen b + 8 <= foff t).
  { clear - Hin. induction t as [|x t IH]; [destruct Hin|].
    rewrite foff_cons. pose proof (foff_nonneg t). pose proof (zlen_nonneg x).
    destruct Hin as [->|Hin]; [lia|]. specialize (IH Hin). lia. }
  lia.
Qed.

(* ---- current ---- *)
Lemma seg_current_rep id m d t bf s :
  seg_rep id m d t bf s ->
  match t with
  | [] => seg_current s = (EOF, [], s)
  | b :: _ => exists s', seg_rep id m d t bf s' /\
              seg_current s = (if zlen b >? m then (Other, [], s') else (Ok, b, s'))
  end.
Proof.
  intros R. unfold seg_current.
  pose proof (rep_size_eq _ _ _ _ _ _ R) as Hsz.
  pose proof (rep_pos _ _ _ _ _ _ R) as Hpos.
  destruct t as [|b t'].
  - unfold foff in Hsz at 2. cbn [frames flat_map] in Hsz. change (zlen (@nil N)) with 0 in Hsz.
    destruct (Z.eqb_spec (spos s) (ssize s - 8)); [reflexivity|lia].
  - pose proof (rep_ne _ _ _ _ _ _ R) as Hne. inversion Hne as [|? ? Hb Hne']; subst.
    pose proof (nonempty_zlen _ Hb) as Hbpos.
    pose proof (rep_block_bound _ _ _ _ _ _ b R (or_introl eq_refl)) as Hbb.
    rewrite foff_cons in Hsz. pose proof (foff_nonneg t'). pose proof (foff_nonneg d).
    destruct (Z.eqb_spec (spos s) (ssize s - 8)); [lia|].
    rewrite seek_nonneg by lia.
    pose proof (rep_file _ _ _ _ _ _ R) as Hf. rewrite frames_cons in Hf.
    rewrite <- !app_assoc in Hf.
    set (s1 := set_cur s (spos s)).
    rewrite (read_bytes_at s1 (frames d) (len_prefix b) (b ++ frames t' ++ u64 (foff d)) 8);
      [|exact Hf|subst s1; sset; exact Hpos|unfold zlen; rewrite len_prefix_length; reflexivity|lia].
    rewrite rd64_len_prefix by exact Hbb.
    set (s3 := set_csz (set_cur s1 (zlen (frames d) + 8)) (zlen b)).
    assert (R3 : forall c, seg_rep id m d (b :: t') bf (set_cur s3 c)).
    { intros c. constructor; subst s3 s1; sset.
      - apply (rep_id _ _ _ _ _ _ R).
      - apply (rep_max _ _ _ _ _ _ R).
      - rewrite frames_cons, <- !app_assoc. exact Hf.
      - exact Hpos.
      - apply (rep_size _ _ _ _ _ _ R).
      - reflexivity.
      - apply (rep_buf _ _ _ _ _ _ R).
      - exact Hne.
      - apply (rep_bound _ _ _ _ _ _ R). }
    rewrite (rep_max _ _ _ _ _ _ R).
    destruct (Z.gtb_spec (zlen b) m) as [Hgt|Hle].
    + exists s3. split; [|reflexivity]. specialize (R3 (scur s3)). destruct s3; exact R3.
    + destruct (Z.ltb_spec (zlen b) 0); [lia|].
      rewrite (read_bytes_at s3 (frames d ++ len_prefix b) b (frames t' ++ u64 (foff d)) (zlen b));
        [|subst s3 s1; sset; rewrite <- !app_assoc; exact Hf
         |subst s3 s1; sset; rewrite zlen_app; unfold zlen at 3; rewrite len_prefix_length; reflexivity
         |reflexivity|lia].
      eexists. split; [apply R3|reflexivity].
Qed.

(* ---- advance ---- *)
Lemma seg_advance_rep id m d t bf s :
  seg_rep id m d t bf s ->
  match t with
  | [] => exists s', seg_advance s = (EOF, s') /\ seg_rep id m d [] bf s'
  | b :: t' => exists s', seg_advance s = (match t' with [] => EOF | _ => Ok end, s') /\
                          seg_rep id m (d ++ [b]) t' bf s'
  end.
Proof.
  intros R. unfold seg_advance.
  pose proof (rep_size_eq _ _ _ _ _ _ R) as Hsz.
  pose proof (rep_pos _ _ _ _ _ _ R) as Hpos.
  pose proof (rep_csz _ _ _ _ _ _ R) as Hcs.
  destruct t as [|b t'].
  - unfold foff in Hsz at 2. cbn [frames flat_map] in Hsz. change (zlen (@nil N)) with 0 in Hsz.
    destruct (Z.eqb_spec (spos s) (ssize s - 8)); [|lia].
    eexists. split; [reflexivity|].
    constructor; sset; try apply R. reflexivity.
  - pose proof (rep_ne _ _ _ _ _ _ R) as Hne. inversion Hne as [|? ? Hb Hne']; subst.
    pose proof (nonempty_zlen _ Hb) as Hbpos.
    pose proof (rep_bound _ _ _ _ _ _ R) as Hbd. pose proof (zlen_nonneg (sbuf s)).
    rewrite foff_cons in Hsz. pose proof (foff_nonneg t'). pose proof (foff_nonneg d).
    destruct (Z.eqb_spec (spos s) (ssize s - 8)); [lia|].
    pose proof (rep_file _ _ _ _ _ _ R) as Hf.
    assert (Hf0 : sfile s = (frames d ++ frames (b :: t')) ++ u64 (foff d)) by (rewrite Hf, <- app_assoc; reflexivity).
    rewrite (seek_end_footer s _ _ Hf0 (u64_length _)).
    set (p := foff (d ++ [b])).
    assert (Hp : wrap64 (spos s + scsz s + 8) = p).
    { rewrite Hpos, Hcs. unfold p. rewrite foff_app, foff_single.
      replace (foff d + (8 + zlen b)) with (foff d + zlen b + 8) by lia. apply wrap64_small. unfold bnd in *. lia. }
    rewrite Hp.
    assert (Hpv : p = foff d + 8 + zlen b) by (unfold p; rewrite foff_app, foff_single; lia).
    set (s1 := set_cur s (zlen (frames d ++ frames (b :: t')))).
    rewrite (write_bytes_tail s1 (frames d ++ frames (b :: t')) (u64 (foff d)) (u64 p));
      [|exact Hf0|reflexivity|rewrite !u64_length; lia].
    rewrite seek_nonneg by lia.
    set (f2 := (frames d ++ frames (b :: t')) ++ u64 p).
    assert (Hf2 : f2 = frames (d ++ [b]) ++ frames t' ++ u64 p).
    { unfold f2. rewrite frames_app, frames_single, frames_cons. unfold frame. rewrite <- !app_assoc. reflexivity. }
    assert (Hl2 : zlen f2 = ssize s).
    { unfold f2. rewrite !zlen_app, zlen_u64. rewrite Hsz. unfold foff. rewrite zlen_frames_cons. lia. }
    destruct t' as [|b' t''].
    + (* reads the footer itself *)
      set (s3 := set_cur (set_pos (set_cur (set_file s1 f2) (zlen (frames d ++ frames [b]) + zlen (u64 p))) p) p).
      rewrite (read_bytes_at s3 (frames (d ++ [b])) (u64 p) [] 8);
        [|subst s3 s1; sset; rewrite Hf2; reflexivity|subst s3 s1; sset; reflexivity|rewrite zlen_u64; reflexivity|lia].
      assert (Hend : p = ssize s - 8).
      { rewrite Hsz, Hpv. unfold foff. cbn [frames flat_map]. change (zlen (@nil N)) with 0. lia. }
      destruct (Z.eqb_spec p (ssize s - 8)); [|lia].
      eexists. split; [reflexivity|].
      constructor; subst s3 s1; sset; try apply R.
      * exact Hf2.
      * reflexivity.
      * rewrite Hl2. reflexivity.
      * reflexivity.
      * exact Hne'.
    + set (s3 := set_cur (set_pos (set_cur (set_file s1 f2) (zlen (frames d ++ frames (b :: b' :: t'')) + zlen (u64 p))) p) p).
      assert (Hf3 : f2 = frames (d ++ [b]) ++ len_prefix b' ++ (b' ++ frames t'' ++ u64 p)).
      { rewrite Hf2, frames_cons, <- !app_assoc. reflexivity. }
      rewrite (read_bytes_at s3 (frames (d ++ [b])) (len_prefix b') (b' ++ frames t'' ++ u64 p) 8);
        [|subst s3 s1; sset; exact Hf3|subst s3 s1; sset; reflexivity
         |unfold zlen; rewrite len_prefix_length; reflexivity|lia].
      inversion Hne' as [|? ? Hb' _]; subst. pose proof (nonempty_zlen _ Hb').
      pose proof (rep_block_bound _ _ _ _ _ _ b' R (or_intror (or_introl eq_refl))) as Hbb.
      rewrite rd64_len_prefix by exact Hbb.
      destruct (Z.eqb_spec p (ssize s - 8)) as [E|E].
      { exfalso. rewrite Hsz, Hpv in E. rewrite foff_cons in E. pose proof (foff_nonneg t''). lia. }
      eexists. split; [reflexivity|].
      constructor; subst s3 s1; sset; try apply R.
      * exact Hf2.
      * reflexivity.
      * rewrite Hl2. reflexivity.
      * reflexivity.
      * exact Hne'.
Qed.

(* ---- truncate ---- *)
Lemma ftrunc_prefix a r : ftrunc (a ++ r) (length a) = a.
Proof.
  unfold ftrunc. rewrite firstn_app_exact.
  replace (length a - length (a ++ r))%nat with 0%nat by (rewrite app_length; lia).
  apply app_nil_r.
Qed.

Lemma Forall_app_r {A} (P : A -> Prop) a b : Forall P (a ++ b) -> Forall P b.
Proof. intros H. apply Forall_app in H. tauto. Qed.

Lemma seg_truncate_rep id m d t bf s :
  seg_rep id m d t bf s ->
  match t with
  | [] => seg_truncate s = (EOF, s)
  | _ :: _ => exists s', seg_truncate s = (Ok, s') /\ seg_rep id m d [] bf s'
  end.
Proof.
  intros R. unfold seg_truncate.
  pose proof (rep_size_eq _ _ _ _ _ _ R) as Hsz.
  pose proof (rep_pos _ _ _ _ _ _ R) as Hpos.
  destruct t as [|b t'].
  - unfold foff in Hsz at 2. cbn [frames flat_map] in Hsz. change (zlen (@nil N)) with 0 in Hsz.
    destruct (Z.eqb_spec (spos s) (ssize s - 8)); [reflexivity|lia].
  - pose proof (rep_ne _ _ _ _ _ _ R) as Hne.
    pose proof (rep_bound _ _ _ _ _ _ R) as Hbd.
    rewrite foff_cons in Hsz. pose proof (foff_nonneg t'). pose proof (foff_nonneg d). pose proof (zlen_nonneg b).
    destruct (Z.eqb_spec (spos s) (ssize s - 8)); [lia|].
    rewrite seek_nonneg by lia.
    pose proof (rep_file _ _ _ _ _ _ R) as Hf. rewrite frames_cons in Hf. rewrite <- !app_assoc in Hf.
    set (s1 := set_cur s (spos s)).
    rewrite (write_bytes_mid s1 (frames d) (len_prefix b) (b ++ frames t' ++ u64 (foff d)) (u64 (spos s)));
      [|exact Hf|subst s1; sset; exact Hpos|rewrite len_prefix_length, u64_length; reflexivity].
    eexists. split; [reflexivity|].
    assert (Hn : Z.to_nat (spos s + 8) = length (frames d ++ u64 (spos s))).
    { rewrite app_length, u64_length, Hpos. unfold foff, zlen. lia. }
    constructor; subst s1; sset; try apply R.
    + rewrite Hn, app_assoc, ftrunc_prefix, Hpos. reflexivity.
    + rewrite Hn, app_assoc, ftrunc_prefix, zlen_app, zlen_u64, Hpos. reflexivity.
    + reflexivity.
    + cbn [app]. apply Forall_app_r in Hne. exact Hne.
    + lia.
Qed.

(* ---- open / newSegment ---- *)
Lemma new_segment_rep id m d t :
  Forall nonempty t -> foff d + foff t + 8 <= bnd ->
  exists s, new_segment id (frames d ++ frames t ++ u64 (foff d)) m = Some s /\ seg_rep id m d t [] s.
Proof.
  intros Hne Hbd. unfold new_segment.
  set (f := frames d ++ frames t ++ u64 (foff d)).
  assert (Hzf : zlen f = foff d + foff t + 8).
  { unfold f. rewrite !zlen_app, zlen_u64. unfold foff. lia. }
  pose proof (foff_nonneg d). pose proof (foff_nonneg t).
  set (s0 := mkSeg id f 0 0 0 (zlen f) m []).
  unfold seg_open. change (ssize s0) with (zlen f).
  destruct (Z.eqb_spec (zlen f) 0); [lia|].
  assert (Hf0 : sfile s0 = (frames d ++ frames t) ++ u64 (foff d)) by (cbn [sfile s0]; unfold f; rewrite <- app_assoc; reflexivity).
  rewrite (seek_end_footer s0 _ _ Hf0 (u64_length _)).
  set (s1 := set_cur s0 (zlen (frames d ++ frames t))).
  rewrite (read_bytes_at s1 (frames d ++ frames t) (u64 (foff d)) [] 8);
    [|subst s1; sset; rewrite app_nil_r; exact Hf0|reflexivity|rewrite zlen_u64; reflexivity|lia].
  rewrite rd64_u64 by (unfold bnd in *; lia).
  sset. rewrite seek_nonneg by (sset; lia). subst s1 s0. sset.
  destruct t as [|b t'].
  - destruct (Z.ltb_spec (foff d) (zlen f - 8)) as [Hlt|Hge].
    { exfalso. rewrite Hzf in Hlt. unfold foff in Hlt at 3. cbn [frames flat_map] in Hlt.
      change (zlen (@nil N)) with 0 in Hlt. lia. }
    eexists. split; [reflexivity|].
    constructor; sset; try reflexivity.
    + exact Hne.
    + change (zlen (@nil N)) with 0. lia.
  - rewrite foff_cons in *. pose proof (foff_nonneg t'). pose proof (zlen_nonneg b).
    destruct (Z.ltb_spec (foff d) (zlen f - 8)) as [Hlt|Hge]; [|lia].
    inversion Hne as [|? ? Hb Hne']; subst.
    assert (Hf3 : f = frames d ++ len_prefix b ++ (b ++ frames t' ++ u64 (foff d))).
    { unfold f. rewrite frames_cons, <- !app_assoc. reflexivity. }
    match goal with |- context [read_bytes ?s 8] => set (s4 := s) end.
    rewrite (read_bytes_at s4 (frames d) (len_prefix b) (b ++ frames t' ++ u64 (foff d)) 8);
      [|subst s4; sset; exact Hf3|subst s4; sset; reflexivity
       |unfold zlen; rewrite len_prefix_length; reflexivity|lia].
    rewrite rd64_len_prefix by (unfold bnd in *; lia).
    eexists. split; [reflexivity|].
    constructor; subst s4; sset; try reflexivity.
    + rewrite app_nil_r. exact Hne.
    + change (zlen (@nil N)) with 0. lia.
Qed.

Lemma new_segment_empty id m :
  exists s, new_segment id [] m = Some s /\ seg_rep id m [] [] [] s.
Proof.
  unfold new_segment, seg_open. sset. change (zlen (@nil N)) with 0.
  cbn [Z.eqb]. eexists. split; [reflexivity|].
  constructor; sset; try reflexivity.
  - constructor.
  - unfold bnd, zlen. cbn. lia.
Qed.

(* ---- SetMaxSegmentSize on a segment ---- *)
Lemma seg_set_max_rep id m m' d t bf s :
  seg_rep id m d t bf s -> seg_rep id m' d t bf (set_max s m').
Proof. intros R. constructor; sset; try apply R. reflexivity. Qed.

(* ---- empty ---- *)
Lemma seg_empty_rep id m d t bf s :
  seg_rep id m d t bf s -> seg_empty s = is_nil t && is_nil bf.
Proof.
  intros R. unfold seg_empty.
  pose proof (rep_size_eq _ _ _ _ _ _ R) as Hsz.
  rewrite (rep_pos _ _ _ _ _ _ R), (rep_buf _ _ _ _ _ _ R).
  f_equal.
  - destruct t as [|b t']; cbn [is_nil].
    + unfold foff in Hsz at 2. cbn [frames flat_map] in Hsz. change (zlen (@nil N)) with 0 in Hsz.
      apply Z.eqb_eq. lia.
    + rewrite foff_cons in Hsz. pose proof (foff_nonneg t'). pose proof (zlen_nonneg b).
      apply Z.eqb_neq. lia.
  - destruct bf as [|b bf']; [reflexivity|]. cbn [is_nil].
    destruct (frames (b :: bf')) eqn:E; [|reflexivity].
    apply frames_nil_iff in E. discriminate.
Qed.

(* ---------- the independent frame parser reads back the abstract content ---------- *)

Lemma frames_length_ge bs : (length bs <= length (frames bs))%nat.
Proof.
  induction bs as [|b bs IH]; [cbn; lia|].
  rewrite frames_cons, !app_length, len_prefix_length. cbn [length]. lia.
Qed.

Lemma parse_frames_frames : forall bs fuel,
  (length bs < fuel)%nat -> Forall (fun b => zlen b < bnd) bs ->
  parse_frames fuel (frames bs) = bs.
Proof.
  induction bs as [|b bs IH]; intros fuel Hf HB.
  - destruct fuel; [lia|]. reflexivity.
  - destruct fuel as [|fuel]; [cbn in Hf; lia|].
    inversion HB as [|? ? Hb HB']; subst.
    cbn [parse_frames]. rewrite take_frames_cons0.
    assert (Hd : be_dec (len_prefix b) = N.of_nat (length b)).
    { unfold len_prefix. apply be_dec_enc. change (256 ^ N.of_nat 8)%N with 18446744073709551616%N.
      unfold zlen, bnd in Hb. lia. }
    rewrite Hd.
    destruct (N.ltb_spec (N.of_nat (length (b ++ frames bs))) (N.of_nat (length b))) as [H|H].
    { rewrite app_length in H. lia. }
    rewrite Nat2N.id, take_app. f_equal. apply IH; [cbn in Hf; lia|exact HB'].
Qed.

Lemma blocks_bound_of_foff t : foff t <= bnd -> Forall (fun b => zlen b < bnd) t.
Proof.
  induction t as [|b t IH]; intros H; [constructor|].
  rewrite foff_cons in H. pose proof (foff_nonneg t). pose proof (zlen_nonneg b).
  constructor; [lia|apply IH; lia].
Qed.

Lemma file_blocks_wf d t :
  foff d + foff t + 8 <= bnd ->
  file_blocks (frames d ++ frames t ++ u64 (foff d)) (foff d) = t.
Proof.
  intros Hbd. unfold file_blocks.
  pose proof (foff_nonneg d). pose proof (foff_nonneg t).
  set (f := frames d ++ frames t ++ u64 (foff d)).
  assert (Hzf : zlen f = foff d + foff t + 8) by (unfold f; rewrite !zlen_app, zlen_u64; unfold foff; lia).
  destruct (Z.ltb_spec (foff d) 0); [lia|].
  destruct (Z.ltb_spec (zlen f) (foff d)); [lia|].
  cbn [orb].
  assert (Hb : firstn (length f - 8) f = frames d ++ frames t).
  { unfold f. rewrite app_assoc.
    replace (length ((frames d ++ frames t) ++ u64 (foff d)) - 8)%nat with (length (frames d ++ frames t))
      by (rewrite (app_length (_ ++ _)), u64_length; lia).
    apply firstn_app_exact. }
  rewrite Hb. unfold foff at 1. rewrite to_nat_zlen, skipn_app_exact.
  apply parse_frames_frames.
  - pose proof (frames_length_ge t) as Hge. unfold f. rewrite !app_length. clear - Hge. unfold block, bytes in *. lia.
  - apply blocks_bound_of_foff. lia.
Qed.

Lemma seg_visible_rep id m d t bf s : seg_rep id m d t bf s -> seg_visible s = t.
Proof.
  intros R. unfold seg_visible. rewrite (rep_file _ _ _ _ _ _ R), (rep_pos _ _ _ _ _ _ R).
  apply file_blocks_wf.
  pose proof (rep_size_eq _ _ _ _ _ _ R). pose proof (rep_bound _ _ _ _ _ _ R).
  pose proof (zlen_nonneg (sbuf s)). lia.
Qed.

Lemma seg_buffered_rep id m d t bf s : seg_rep id m d t bf s -> seg_buffered s = bf.
Proof.
  intros R. unfold seg_buffered. rewrite (rep_buf _ _ _ _ _ _ R).
  apply parse_frames_frames.
  - pose proof (frames_length_ge bf). unfold block, bytes in *. lia.
  - apply blocks_bound_of_foff. unfold foff. rewrite <- (rep_buf _ _ _ _ _ _ R).
    pose proof (rep_size_eq _ _ _ _ _ _ R). pose proof (rep_bound _ _ _ _ _ _ R).
    pose proof (foff_nonneg d). pose proof (foff_nonneg t). lia.
Qed.

Lemma seg_pending_rep id m d t bf s : seg_rep id m d t bf s -> seg_pending s = t ++ bf.
Proof.
  intros R. unfold seg_pending. rewrite (seg_visible_rep _ _ _ _ _ _ R), (seg_buffered_rep _ _ _ _ _ _ R).
  reflexivity.
Qed.

Lemma disk_file_blocks_wf d t :
  foff d + foff t + 8 <= bnd ->
  disk_file_blocks (frames d ++ frames t ++ u64 (foff d)) = t.
Proof.
  intros Hbd. unfold disk_file_blocks.
  set (f := frames d ++ frames t ++ u64 (foff d)).
  assert (Ht : take (length f - 8) f = Some (frames d ++ frames t, u64 (foff d))).
  { unfold f. rewrite app_assoc.
    replace (length ((frames d ++ frames t) ++ u64 (foff d)) - 8)%nat with (length (frames d ++ frames t))
      by (rewrite (app_length (_ ++ _)), u64_length; lia).
    apply take_app. }
  rewrite Ht. pose proof (foff_nonneg d). pose proof (foff_nonneg t).
  rewrite rd64_u64 by (unfold bnd in *; lia).
  apply file_blocks_wf. exact Hbd.
Qed.

Lemma disk_file_blocks_rep id m d t bf s : seg_rep id m d t bf s -> disk_file_blocks (sfile s) = t.
Proof.
  intros R. rewrite (rep_file _ _ _ _ _ _ R). apply disk_file_blocks_wf.
  pose proof (rep_size_eq _ _ _ _ _ _ R). pose proof (rep_bound _ _ _ _ _ _ R).
  pose proof (zlen_nonneg (sbuf s)). lia.
Qed.

(* close = flush (the repaired segment.close) *)
Lemma seg_close_rep id m d t bf s :
  seg_rep id m d t bf s ->
  exists s', seg_close s = (Ok, s') /\ seg_rep id m d (t ++ bf) [] s'.
Proof. intros R. unfold seg_close, seg_close_with. rewrite close_flushes. apply seg_flush_rep. exact R. Qed.
