(* C04/ProofsCrash.v — what a new process finds after a crash.
   Crash model: the write in flight reached the file only up to some byte ([torn]). *)
From Verif Require Import Lib.Bytes C04.Model C04.Spec C04.ProofsSeg C04.ProofsQueue C04.ProofsLink.
From VerifGen Require Import Consts.
From Coq Require Import ZifyBool ZifyNat ZifyN.
Open Scope Z_scope.

Lemma torn_none f o d : (o <= length f)%nat -> torn f o d 0 = f.
Proof.
  intros H. unfold torn, pwrite. cbn [firstn length app].
  replace (o - length f)%nat with 0%nat by lia. cbn [repeat app].
  rewrite Nat.add_0_r. apply firstn_skipn.
Qed.

Lemma torn_all f o d : torn f o d (length d) = pwrite f o d.
Proof. unfold torn. rewrite firstn_all. reflexivity. Qed.

(* the write a non-buffered Append that fits the tail segment has in flight *)
Definition append_off (st : seg) : nat := Z.to_nat (zlen (sfile st) - 8).
Definition append_data (st : seg) (b : block) : bytes := frame b ++ u64 (spos st).

(* ... and it is the write the model of segment.append/flush performs *)
Lemma append_inflight_write id m d t st b :
  seg_rep id m d t [] st -> nonempty b -> m <= bnd - 8 ->
  ssize st + zlen b <= m ->
  exists st', seg_append st b false = (Ok, st') /\
              sfile st' = pwrite (sfile st) (append_off st) (append_data st b).
Proof.
  intros R Hb Hm Hfit. unfold seg_append, seg_flush.
  rewrite (rep_buf _ _ _ _ _ _ R). cbn [frames flat_map app]. change (zlen (@nil N)) with 0.
  rewrite (rep_max _ _ _ _ _ _ R).
  destruct (Z.gtb_spec (ssize st + 0 + zlen b) m); [lia|].
  sset.
  assert (Hfr : frame b <> []).
  { unfold frame. intros E. apply (f_equal (@length _)) in E. rewrite app_length, len_prefix_length in E. cbn in E. lia. }
  destruct (frame b) as [|x xs] eqn:Ef; [congruence|]. rewrite <- Ef. clear x xs Ef Hfr.
  pose proof (rep_file _ _ _ _ _ _ R) as Hf. rewrite app_assoc in Hf.
  unfold seek_end. sset.
  assert (Hz : zlen (sfile st) + -8 = zlen (frames d ++ frames t)).
  { rewrite Hf, zlen_app, zlen_u64. lia. }
  rewrite Hz. destruct (Z.ltb_spec (zlen (frames d ++ frames t)) 0); [pose proof (zlen_nonneg (frames d ++ frames t)); lia|].
  unfold write_bytes at 1. sset.
  unfold append_off, append_data. replace (zlen (sfile st) - 8) with (zlen (frames d ++ frames t)) by lia.
  destruct (scsz st =? 0).
  - destruct (take 8 (frame b)) as [[h r]|] eqn:Et.
    + eexists. split; [reflexivity|]. reflexivity.
    + exfalso. apply take_none in Et. unfold frame in Et. rewrite app_length, len_prefix_length in Et. lia.
  - eexists. split; [reflexivity|]. reflexivity.
Qed.

Lemma Forall2_frep_app a1 a2 d1 d2 :
  Forall2 frep a1 d1 -> Forall2 frep a2 d2 -> Forall2 frep (a1 ++ a2) (d1 ++ d2).
Proof. apply Forall2_app. Qed.

Lemma inv_closed_disk d al maxsize cap :
  Forall2 frep al d -> inv (new_queue d maxsize cap) al.
Proof.
  intros HF. constructor; unfold new_queue; qset.
  - apply default_limit_ok.
  - split; [reflexivity|exact HF].
  - apply Forall_removelast. apply (frep_nobuf _ _ HF).
Qed.

Lemma files_of_app a b : files_of (a ++ b) = files_of a ++ files_of b.
Proof. unfold files_of. apply map_app. Qed.

(* crash inside a non-buffered append that fits the tail segment: if the cut leaves the old
   footer intact (nothing written) or the new footer complete (everything written), a new
   process finds every acknowledged block, plus possibly the one in flight.
   PARTIAL: cuts strictly inside the write are not covered — see [torn_append_refuted]. *)
Theorem reopen_after_append_partial q al b c :
  inv q al -> qopen q = true -> Forall nobuf al -> nonempty b ->
  let st := last (qsegs q) dseg in
  ssize st + zlen b <= qmaxseg q ->
  (c = 0 \/ c = length (append_data st b))%nat ->
  let img := files_of (removelast (qsegs q)) ++
             [(sid st, torn (sfile st) (append_off st) (append_data st b) c)] in
  exists q', q_open (new_queue img (qmaxsize q) (qcap q)) = (Ok, q') /\
             (pending q' = pending q \/ pending q' = pending q ++ [b]).
Proof.
  intros I Ho Hnb Hb st Hfit Hc img.
  pose proof (inv_max _ _ I) as Hm.
  destruct (tail_split _ _ I Ho) as [fr [lst [sfr [st0 [Ea [Es [HS [R Hnf]]]]]]]].
  assert (Est : st = st0) by (unfold st; rewrite Es, last_last; reflexivity).
  unfold img. rewrite Es, removelast_last. rewrite Est in *. clear st Est img.
  assert (Hlb : a_bf lst = []).
  { subst al. apply Forall_app in Hnb. destruct Hnb as [_ Hl]. inversion Hl; assumption. }
  assert (Hfr : Forall2 frep fr (files_of sfr)) by (apply (frep_files _ _ _ HS Hnf)).
  unfold arep in R. rewrite Hlb in R.
  pose proof (rep_file _ _ _ _ _ _ R) as Hf. rewrite app_assoc in Hf.
  pose proof (rep_size _ _ _ _ _ _ R) as Hsize.
  assert (Hoff : append_off st0 = length (frames (a_d lst) ++ frames (a_t lst))).
  { unfold append_off. rewrite Hf, zlen_app, zlen_u64.
    replace (zlen (frames (a_d lst) ++ frames (a_t lst)) + 8 - 8) with (zlen (frames (a_d lst) ++ frames (a_t lst))) by lia.
    apply to_nat_zlen. }
  destruct Hc as [Hc|Hc]; subst c.
  - (* nothing reached the file *)
    rewrite torn_none by (rewrite Hoff, Hf, !app_length; lia).
    assert (HF : Forall2 frep (fr ++ [lst]) (files_of sfr ++ [(sid st0, sfile st0)])).
    { apply Forall2_app; [exact Hfr|]. constructor; [|constructor].
      apply (frep_of_arep (qmaxseg q)); [unfold arep; rewrite Hlb; exact R|exact Hlb]. }
    destruct (q_open_closed_inv _ _ (inv_closed_disk _ _ (qmaxsize q) (qcap q) HF) eq_refl)
      as [q' [al' [HQ [I' [Hp _]]]]].
    exists q'. split; [exact HQ|]. left.
    rewrite (pending_inv _ _ I'), (pending_inv _ _ I), Hp, Ea. reflexivity.
  - (* the whole write reached the file *)
    rewrite torn_all, Hoff, Hf, pwrite_at.
    rewrite skipn_all2 by (unfold append_data; rewrite app_length, !u64_length; lia).
    rewrite app_nil_r.
    set (lst' := mkA (a_id lst) (a_d lst) (a_t lst ++ [b]) []).
    assert (HF : Forall2 frep (fr ++ [lst'])
                   (files_of sfr ++ [(sid st0, (frames (a_d lst) ++ frames (a_t lst)) ++ append_data st0 b)])).
    { apply Forall2_app; [exact Hfr|]. constructor; [|constructor].
      unfold frep, lst'. cbn [fst snd a_id a_d a_t a_bf].
      split; [apply (rep_id _ _ _ _ _ _ R)|]. split.
      - unfold append_data. rewrite (rep_pos _ _ _ _ _ _ R), frames_app, frames_single, <- !app_assoc. reflexivity.
      - split; [|split; [|reflexivity]].
        + apply Forall_app. split; [|constructor; [exact Hb|constructor]].
          pose proof (rep_ne _ _ _ _ _ _ R) as Hne. rewrite app_nil_r in Hne. exact Hne.
        + pose proof (rep_size_eq _ _ _ _ _ _ R). rewrite foff_app, foff_single. lia. }
    destruct (q_open_closed_inv _ _ (inv_closed_disk _ _ (qmaxsize q) (qcap q) HF) eq_refl)
      as [q' [al' [HQ [I' [Hp _]]]]].
    exists q'. split; [exact HQ|]. right.
    rewrite (pending_inv _ _ I'), (pending_inv _ _ I), Hp, Ea, !apend_app.
    unfold lst'. cbn [apend flat_map a_t a_bf]. rewrite Hlb, !app_nil_r, <- app_assoc. reflexivity.
Qed.

(* ---- Advance: the 8-byte footer is rewritten in place ---- *)
Definition advance_data (st : seg) : bytes := u64 (wrap64 (spos st + scsz st + 8)).

Lemma advance_write_result id m d b t bf st :
  seg_rep id m d (b :: t) bf st ->
  pwrite (sfile st) (append_off st) (advance_data st)
  = frames (d ++ [b]) ++ frames t ++ u64 (foff (d ++ [b])).
Proof.
  intros R.
  pose proof (rep_size_eq _ _ _ _ _ _ R) as Hsz. rewrite foff_cons in Hsz.
  pose proof (rep_bound _ _ _ _ _ _ R) as Hbd. pose proof (zlen_nonneg (sbuf st)).
  pose proof (foff_nonneg t). pose proof (foff_nonneg d). pose proof (zlen_nonneg b).
  pose proof (rep_file _ _ _ _ _ _ R) as Hf. rewrite app_assoc in Hf.
  assert (Hoff : append_off st = length (frames d ++ frames (b :: t))).
  { unfold append_off. rewrite Hf, zlen_app, zlen_u64.
    replace (zlen (frames d ++ frames (b :: t)) + 8 - 8) with (zlen (frames d ++ frames (b :: t))) by lia.
    apply to_nat_zlen. }
  rewrite Hoff, Hf, pwrite_at.
  unfold advance_data. rewrite skipn_all2 by (rewrite !u64_length; lia). rewrite app_nil_r.
  rewrite (rep_pos _ _ _ _ _ _ R), (rep_csz _ _ _ _ _ _ R).
  replace (foff d + zlen b + 8) with (foff (d ++ [b])) by (rewrite foff_app, foff_single; lia).
  rewrite wrap64_small by (rewrite foff_app, foff_single; unfold bnd in *; lia).
  rewrite frames_app, frames_single, frames_cons. unfold frame. rewrite <- !app_assoc. reflexivity.
Qed.

(* ... which is the file content the model of segment.advance leaves *)
Lemma advance_inflight_write id m d b t bf st :
  seg_rep id m d (b :: t) bf st ->
  exists r st', seg_advance st = (r, st') /\
                sfile st' = pwrite (sfile st) (append_off st) (advance_data st).
Proof.
  intros R. destruct (seg_advance_rep _ _ _ _ _ _ R) as [st' [HA R']].
  eexists. exists st'. split; [exact HA|].
  rewrite (advance_write_result _ _ _ _ _ _ _ R). apply (rep_file _ _ _ _ _ _ R').
Qed.

(* crash inside Advance: with the old footer intact or the new one complete a new process
   finds what was pending, or what was pending minus the block just released.
   PARTIAL: a cut inside the 8 bytes is not covered — see [torn_advance_refuted]. *)
Theorem reopen_after_advance_partial q al c :
  inv q al -> qopen q = true -> Forall nobuf al -> head_exhausted q = false ->
  let st := hd dseg (qsegs q) in
  (c = 0 \/ c = 8)%nat ->
  let img := (sid st, torn (sfile st) (append_off st) (advance_data st) c) :: files_of (tl (qsegs q)) in
  exists q', q_open (new_queue img (qmaxsize q) (qcap q)) = (Ok, q') /\
             (pending q' = pending q \/ pending q = hd [] (pending q) :: pending q').
Proof.
  intros I Ho Hnb Hx st Hc img.
  destruct (inv_open_cons _ _ I Ho) as [a [rest [s [segs [E [Es [R HS]]]]]]].
  unfold img, st. rewrite Es. cbn [hd tl]. clear img st.
  rewrite (hx_inv _ _ _ _ I Ho E) in Hx.
  destruct (a_t a) as [|b t'] eqn:Et; [discriminate|].
  subst al. inversion Hnb as [|? ? Hna Hnr]; subst.
  assert (Hrest : Forall2 frep rest (files_of segs)) by (apply (frep_files _ _ _ HS Hnr)).
  unfold arep in R. rewrite Et in R.
  pose proof (rep_file _ _ _ _ _ _ R) as Hf. rewrite app_assoc in Hf.
  destruct Hc as [Hc|Hc]; subst c.
  - assert (Hoff : (append_off s <= length (sfile s))%nat).
    { unfold append_off. pose proof (zlen_nonneg (sfile s)). unfold zlen in *. lia. }
    rewrite torn_none by exact Hoff.
    assert (HF : Forall2 frep (a :: rest) ((sid s, sfile s) :: files_of segs)).
    { constructor; [|exact Hrest]. apply (frep_of_arep (qmaxseg q)); [unfold arep; rewrite Et; exact R|exact Hna]. }
    destruct (q_open_closed_inv _ _ (inv_closed_disk _ _ (qmaxsize q) (qcap q) HF) eq_refl)
      as [q' [al' [HQ [I' [Hp _]]]]].
    exists q'. split; [exact HQ|]. left.
    rewrite (pending_inv _ _ I'), (pending_inv _ _ I), Hp. reflexivity.
  - replace 8%nat with (length (advance_data s)) by (unfold advance_data; apply u64_length).
    rewrite torn_all, (advance_write_result _ _ _ _ _ _ _ R).
    set (a' := mkA (a_id a) (a_d a ++ [b]) t' []).
    assert (HF : Forall2 frep (a' :: rest)
              ((sid s, frames (a_d a ++ [b]) ++ frames t' ++ u64 (foff (a_d a ++ [b]))) :: files_of segs)).
    { constructor; [|exact Hrest]. unfold frep, a'. cbn [fst snd a_id a_d a_t a_bf].
      split; [apply (rep_id _ _ _ _ _ _ R)|]. split; [reflexivity|].
      pose proof (rep_ne _ _ _ _ _ _ R) as Hne. unfold nobuf in Hna. rewrite Hna, app_nil_r in Hne.
      split; [inversion Hne; assumption|]. split; [|reflexivity].
      pose proof (rep_size_eq _ _ _ _ _ _ R) as Hsz. pose proof (rep_bound _ _ _ _ _ _ R).
      pose proof (zlen_nonneg (sbuf s)). rewrite foff_cons in Hsz. rewrite foff_app, foff_single. lia. }
    destruct (q_open_closed_inv _ _ (inv_closed_disk _ _ (qmaxsize q) (qcap q) HF) eq_refl)
      as [q' [al' [HQ [I' [Hp _]]]]].
    exists q'. split; [exact HQ|]. right.
    rewrite (pending_inv _ _ I'), (pending_inv _ _ I), Hp.
    unfold a'. cbn [apend flat_map a_t a_bf]. rewrite Et. unfold nobuf in Hna. rewrite Hna.
    cbn [app hd]. rewrite !app_nil_r. reflexivity.
Qed.

(* crash around trimHead: the consumed head file still present, or already removed *)
Theorem reopen_after_trim q al :
  inv q al -> qopen q = true -> Forall nobuf al -> (2 <= length (qsegs q))%nat ->
  head_exhausted q = true ->
  exists q1 q2,
    q_open (new_queue (files_of (qsegs q)) (qmaxsize q) (qcap q)) = (Ok, q1) /\
    q_open (new_queue (files_of (tl (qsegs q))) (qmaxsize q) (qcap q)) = (Ok, q2) /\
    pending q1 = pending q /\ pending q2 = pending q.
Proof.
  intros I Ho Hnb Hlen Hx.
  destruct (inv_open_cons _ _ I Ho) as [a [rest [s [segs [E [Es [R HS]]]]]]].
  rewrite (hx_inv _ _ _ _ I Ho E) in Hx. rewrite Es in *. cbn [tl].
  subst al. inversion Hnb as [|? ? Hna Hnr]; subst.
  assert (Hrest : Forall2 frep rest (files_of segs)) by (apply (frep_files _ _ _ HS Hnr)).
  assert (HF : Forall2 frep (a :: rest) (files_of (s :: segs))).
  { apply (frep_files _ _ _ (Forall2_cons _ _ R HS) Hnb). }
  destruct (q_open_closed_inv _ _ (inv_closed_disk _ _ (qmaxsize q) (qcap q) HF) eq_refl)
    as [q1 [al1 [HQ1 [I1 [Hp1 _]]]]].
  destruct (q_open_closed_inv _ _ (inv_closed_disk _ _ (qmaxsize q) (qcap q) Hrest) eq_refl)
    as [q2 [al2 [HQ2 [I2 [Hp2 _]]]]].
  exists q1, q2. split; [exact HQ1|]. split; [exact HQ2|].
  rewrite (pending_inv _ _ I1), (pending_inv _ _ I2), (pending_inv _ _ I), Hp1, Hp2.
  split; [reflexivity|]. cbn [apend flat_map].
  destruct (a_t a); [|discriminate]. unfold nobuf in Hna. rewrite Hna. reflexivity.
Qed.

(* ---------- refutations, by evaluation of the model ---------- *)

Definition wA : block := [1;1;1;1]%N.
Definition wB : block := [2;2;2;2]%N.
Definition wC : block := [3;3;3]%N.

(* the length prefix of the block in flight lands where the head offset is read from:
   both acknowledged blocks become unreadable *)
Theorem torn_append_refuted :
  exists ops b c,
    let q := run (q_init 1048576 1024) ops in
    let st := last (qsegs q) dseg in
    let img := files_of (removelast (qsegs q)) ++ [(sid st, torn (sfile st) (append_off st) (append_data st b) c)] in
    (exists stp, spec_run 0 spec_init (trace (q_init 1048576 1024) ops) = ROk stp) /\
    (0 < c < length (append_data st b))%nat /\
    pending q = [wA; wB] /\
    read_dir img 1048576 1024 = ([], Other).
Proof.
  exists [OAppend wA 0 0; OAppend wB 0 0], wC, 8%nat.
  split; [eexists; vm_compute; reflexivity|].
  split; [vm_compute; lia|]. split; vm_compute; reflexivity.
Qed.

Definition wBig : block := repeat 65%N 240.
Definition wD : block := repeat 66%N 40.
Definition wE : block := repeat 67%N 9.

(* the footer is rewritten in place: 7 of its 8 bytes written mixes 0x00F8 and 0x0128 into 0x01F8 *)
Theorem torn_advance_refuted :
  exists ops c,
    let q := run (q_init 1048576 1024) ops in
    let st := hd dseg (qsegs q) in
    let img := (sid st, torn (sfile st) (append_off st) (advance_data st) c) :: files_of (tl (qsegs q)) in
    (exists stp, spec_run 0 spec_init (trace (q_init 1048576 1024) ops) = ROk stp) /\
    (0 < c < 8)%nat /\
    pending q = [wD; wE] /\
    read_dir img 1048576 1024 = ([], EOF).
Proof.
  exists [OAppend wBig 0 0; OAppend wD 0 0; OAppend wE 0 0; OAdvance], 7%nat.
  split; [eexists; vm_compute; reflexivity|].
  split; [lia|]. split; vm_compute; reflexivity.
Qed.

(* the pinned tree's Empty(): after Advance the OS cursor sits 8 bytes past the head offset *)
Theorem empty_cursor_refuted :
  exists ops,
    let q := run (q_init 1048576 1024) ops in
    q_empty_cursor q = true /\ pending q = [wB; wC] /\ q_empty q = false.
Proof.
  exists [OAppend wA 0 0; OAppend wB 0 0; OAppend wC 0 0; OCurrent; OAdvance].
  vm_compute. auto.
Qed.

(* the pinned tree's segment.close: acknowledged buffered appends never reach the file *)
Theorem close_without_flush_refuted :
  exists ops,
    let q := run (q_init 1048576 1024) ops in
    let st := last (qsegs q) dseg in
    pending q = [wA; wB] /\
    disk_file_blocks (sfile (snd (seg_close_with false st))) = [] /\
    disk_file_blocks (sfile (snd (seg_close_with true st))) = [wA; wB].
Proof.
  exists [OAppend wA 9 5; OAppend wB 9 5].
  vm_compute. auto.
Qed.
