(* C04/ProofsQueue.v — the queue: every method preserves the representation invariant and
   acts on the pending blocks as the FIFO of Spec.v prescribes. *)
From Verif Require Import Lib.Bytes C04.Model C04.Spec C04.ProofsSeg.
From VerifGen Require Import Consts.
From Coq Require Import ZifyBool ZifyNat ZifyN.
Open Scope Z_scope.

Record aseg := mkA { a_id : N; a_d : list block; a_t : list block; a_bf : list block }.

Definition arep (m : Z) (a : aseg) (s : seg) : Prop :=
  seg_rep (a_id a) m (a_d a) (a_t a) (a_bf a) s.

Definition apend (al : list aseg) : list block := flat_map (fun a => a_t a ++ a_bf a) al.
Definition avis (al : list aseg) : list block := flat_map a_t al.

Definition nobuf (a : aseg) : Prop := a_bf a = [].

(* a well-formed segment file on disk *)
Definition frep (a : aseg) (e : N * bytes) : Prop :=
  fst e = a_id a /\
  snd e = frames (a_d a) ++ frames (a_t a) ++ u64 (foff (a_d a)) /\
  Forall nonempty (a_t a) /\ foff (a_d a) + foff (a_t a) + 8 <= bnd /\ a_bf a = [].

Record inv (q : queue) (al : list aseg) : Prop := mkInv {
  inv_max : qmaxseg q <= bnd - 8;
  inv_state : if qopen q
              then Forall2 (arep (qmaxseg q)) al (qsegs q) /\ al <> []
              else qsegs q = [] /\ Forall2 frep al (qdisk q);
  inv_bufs : Forall nobuf (removelast al)
}.

Ltac qset := cbn [qsegs qopen qmaxseg qmaxsize qcap qdisk set_segs set_maxseg] in *.

(* ---------- list helpers ---------- *)

Lemma apend_app a b : apend (a ++ b) = apend a ++ apend b.
Proof. unfold apend. apply flat_map_app. Qed.

Lemma avis_app a b : avis (a ++ b) = avis a ++ avis b.
Proof. unfold avis. apply flat_map_app. Qed.

Lemma apend_nobuf al : Forall nobuf al -> apend al = avis al.
Proof.
  induction 1 as [|a al Ha _ IH]; [reflexivity|].
  cbn. unfold nobuf in Ha. rewrite Ha, app_nil_r. f_equal. exact IH.
Qed.

Lemma set_segs_same q : set_segs q (qsegs q) = q.
Proof. destruct q; reflexivity. Qed.

Lemma removelast_cons2 {A} (a b : A) l : removelast (a :: b :: l) = a :: removelast (b :: l).
Proof. reflexivity. Qed.

Lemma Forall_removelast_tl {A} (P : A -> Prop) a l :
  Forall P (removelast (a :: l)) -> Forall P (removelast l).
Proof.
  destruct l as [|b l]; [intros _; constructor|].
  rewrite removelast_cons2. intros H. inversion H; assumption.
Qed.

Lemma Forall_removelast_hd {A} (P : A -> Prop) a b l :
  Forall P (removelast (a :: b :: l)) -> P a.
Proof. rewrite removelast_cons2. intros H. inversion H; assumption. Qed.

Lemma upd_last_snoc l x s : upd_last (l ++ [x]) s = l ++ [s].
Proof. unfold upd_last. rewrite removelast_last. reflexivity. Qed.

Lemma exists_last' {A} (l : list A) : l <> [] -> exists fr x, l = fr ++ [x].
Proof. intros H. destruct (exists_last H) as [fr [x E]]. eauto. Qed.

(* ---------- visible / pending of a represented queue ---------- *)

Lemma flat_map_pending m al segs :
  Forall2 (arep m) al segs -> flat_map seg_pending segs = apend al.
Proof.
  induction 1 as [|a s al segs R _ IH]; [reflexivity|].
  cbn [flat_map apend]. rewrite (seg_pending_rep _ _ _ _ _ _ R). f_equal. exact IH.
Qed.

Lemma disk_blocks_files m al segs :
  Forall2 (arep m) al segs -> disk_blocks (files_of segs) = avis al.
Proof.
  induction 1 as [|a s al segs R _ IH]; [reflexivity|].
  cbn [files_of map disk_blocks flat_map avis snd]. rewrite (disk_file_blocks_rep _ _ _ _ _ _ R).
  f_equal. exact IH.
Qed.

Lemma disk_blocks_frep al d : Forall2 frep al d -> disk_blocks d = avis al.
Proof.
  induction 1 as [|a e al d R _ IH]; [reflexivity|].
  cbn [disk_blocks flat_map avis]. destruct R as [_ [Hf [_ [Hb _]]]].
  rewrite Hf, disk_file_blocks_wf by exact Hb. f_equal. exact IH.
Qed.

Lemma frep_nobuf al d : Forall2 frep al d -> Forall nobuf al.
Proof. induction 1 as [|a e al d R _ IH]; constructor; [apply R|exact IH]. Qed.

Lemma pending_inv q al : inv q al -> pending q = apend al.
Proof.
  intros I. unfold pending. pose proof (inv_state _ _ I) as S.
  destruct (qopen q).
  - destruct S as [S _]. apply (flat_map_pending _ _ _ S).
  - destruct S as [_ S]. rewrite (disk_blocks_frep _ _ S). symmetry. apply apend_nobuf.
    apply (frep_nobuf _ _ S).
Qed.

Lemma apend_split al : al <> [] -> Forall nobuf (removelast al) ->
  apend al = avis al ++ a_bf (last al (mkA 0 [] [] [])).
Proof.
  intros Hne Hb. destruct (exists_last' _ Hne) as [fr [x E]]. subst al.
  rewrite removelast_last in Hb. rewrite last_last, apend_app, avis_app, (apend_nobuf _ Hb).
  cbn [apend avis flat_map]. rewrite !app_nil_r, app_assoc. reflexivity.
Qed.

Lemma visible_inv q al : inv q al -> visible q = avis al.
Proof.
  intros I. unfold visible, disk_of. pose proof (inv_state _ _ I) as S.
  destruct (qopen q).
  - destruct S as [S _]. apply (disk_blocks_files _ _ _ S).
  - destruct S as [_ S]. apply (disk_blocks_frep _ _ S).
Qed.

(* Empty() of an open queue *)
Lemma forallb_seg_empty m al segs :
  Forall2 (arep m) al segs -> forallb seg_empty segs = is_nil (apend al).
Proof.
  induction 1 as [|a s al segs R _ IH]; [reflexivity|].
  cbn [forallb apend flat_map]. rewrite (seg_empty_rep _ _ _ _ _ _ R), IH.
  destruct (a_t a); cbn; [|reflexivity]. destruct (a_bf a); cbn; reflexivity.
Qed.

Lemma q_empty_inv q al : inv q al -> qopen q = true -> q_empty q = is_nil (apend al).
Proof.
  intros I Ho. pose proof (inv_state _ _ I) as S. rewrite Ho in S. destruct S as [S Hne].
  unfold q_empty. destruct (qsegs q) as [|s segs] eqn:E.
  - inversion S; subst. congruence.
  - rewrite <- E in *. apply (forallb_seg_empty _ _ _ S).
Qed.

(* ---------- building invariants ---------- *)

Lemma inv_set_segs q al segs :
  qopen q = true -> qmaxseg q <= bnd - 8 ->
  Forall2 (arep (qmaxseg q)) al segs -> al <> [] -> Forall nobuf (removelast al) ->
  inv (set_segs q segs) al.
Proof.
  intros Ho Hm HF Hne Hb. constructor; qset; [exact Hm| |exact Hb].
  rewrite Ho. split; assumption.
Qed.

Lemma inv_open_cons q al :
  inv q al -> qopen q = true ->
  exists a rest s segs, al = a :: rest /\ qsegs q = s :: segs /\
                        arep (qmaxseg q) a s /\ Forall2 (arep (qmaxseg q)) rest segs.
Proof.
  intros I Ho. pose proof (inv_state _ _ I) as S. rewrite Ho in S. destruct S as [S Hne].
  destruct S as [|a s rest segs R S']; [congruence|].
  exists a, rest, s, segs. auto.
Qed.

Lemma hx_inv q al a rest :
  inv q al -> qopen q = true -> al = a :: rest -> head_exhausted q = is_nil (a_t a).
Proof.
  intros I Ho E. destruct (inv_open_cons _ _ I Ho) as [a' [rest' [s [segs [E' [Es [R _]]]]]]].
  rewrite E in E'. inversion E'; subst a' rest'.
  unfold head_exhausted. rewrite Es.
  pose proof (rep_size_eq _ _ _ _ _ _ R) as Hsz. rewrite (rep_pos _ _ _ _ _ _ R).
  destruct (a_t a) as [|b t']; cbn [is_nil].
  - unfold foff in Hsz at 2. cbn [frames flat_map] in Hsz. change (zlen (@nil N)) with 0 in Hsz.
    apply Z.eqb_eq. lia.
  - rewrite foff_cons in Hsz. pose proof (foff_nonneg t'). pose proof (zlen_nonneg b).
    apply Z.eqb_neq. lia.
Qed.

(* ---------- trimHead ---------- *)
Lemma trim_head_ok q m a s rest segs :
  qsegs q = s :: segs -> arep m a s -> Forall2 (arep m) rest segs ->
  trim_head q = (Ok, match segs with [] => q | _ => set_segs q segs end).
Proof.
  intros Es R S. unfold trim_head. rewrite Es.
  destruct segs as [|s2 segs2]; [reflexivity|].
  destruct (seg_close_rep _ _ _ _ _ _ R) as [s' [Hc _]]. rewrite Hc. reflexivity.
Qed.

(* ---------- Current ---------- *)
Lemma q_current_inv q al :
  inv q al -> qopen q = true ->
  exists a rest, al = a :: rest /\
  match a_t a with
  | [] => q_current q = (EOF, [], q)
  | b :: _ => exists segs', inv (set_segs q segs') al /\
              q_current q = (if zlen b >? qmaxseg q then (Other, [], set_segs q segs')
                             else (Ok, b, set_segs q segs'))
  end.
Proof.
  intros I Ho. destruct (inv_open_cons _ _ I Ho) as [a [rest [s [segs [E [Es [R S]]]]]]].
  exists a, rest. split; [exact E|].
  unfold q_current. rewrite Es.
  pose proof (seg_current_rep _ _ _ _ _ _ R) as HC.
  destruct (a_t a) as [|b t'] eqn:Et.
  - rewrite HC. rewrite <- Es, set_segs_same. reflexivity.
  - destruct HC as [s' [R' HC]]. exists (s' :: segs). split.
    + apply inv_set_segs; [exact Ho|apply I| |subst al; discriminate|apply I].
      subst al. constructor; [unfold arep; rewrite Et; exact R'|exact S].
    + rewrite HC. destruct (zlen b >? qmaxseg q); reflexivity.
Qed.

Lemma nobuf_removelast_swap a a' rest :
  a_bf a' = a_bf a -> Forall nobuf (removelast (a :: rest)) -> Forall nobuf (removelast (a' :: rest)).
Proof.
  intros E H. destruct rest as [|b l]; [constructor|].
  rewrite removelast_cons2 in *. inversion H; subst. constructor; [unfold nobuf in *; congruence|assumption].
Qed.

Lemma Forall2_nonnil {A B} (R : A -> B -> Prop) l l' : Forall2 R l l' -> l' <> [] -> l <> [].
Proof. intros H Hn ->. inversion H; subst. congruence. Qed.

Definition abuf (al : list aseg) : list block := flat_map a_bf al.

Lemma abuf_app a b : abuf (a ++ b) = abuf a ++ abuf b.
Proof. unfold abuf. apply flat_map_app. Qed.

Lemma abuf_nobuf al : Forall nobuf al -> abuf al = [].
Proof. induction 1 as [|a al Ha _ IH]; [reflexivity|]. cbn. unfold nobuf in Ha. rewrite Ha. exact IH. Qed.

Lemma apend_length al : length (apend al) = (length (avis al) + length (abuf al))%nat.
Proof.
  induction al as [|a al IH]; [reflexivity|].
  cbn [apend avis abuf flat_map]. rewrite !app_length. fold (apend al) (avis al) (abuf al). lia.
Qed.

(* ---------- Advance ---------- *)
Lemma q_advance_inv q al :
  inv q al -> qopen q = true ->
  exists a rest, al = a :: rest /\
  exists segs' al', q_advance q = (Ok, set_segs q segs') /\ inv (set_segs q segs') al' /\
    (abuf al' = abuf al /\ (length al' <= length al)%nat) /\
    match a_t a with
    | [] => apend al' = apend al
    | b :: _ => apend al = b :: apend al'
    end.
Proof.
  intros I Ho. destruct (inv_open_cons _ _ I Ho) as [a [rest [s [segs [E [Es [R S]]]]]]]. subst al.
  exists a, rest. split; [reflexivity|].
  pose proof (inv_max _ _ I) as Hm. pose proof (inv_bufs _ _ I) as Hb.
  unfold q_advance. rewrite Es.
  pose proof (seg_advance_rep _ _ _ _ _ _ R) as HA.
  assert (Hhd : forall a2 rest2, rest = a2 :: rest2 -> a_bf a = []).
  { intros a2 rest2 ->. apply Forall_removelast_hd in Hb. exact Hb. }
  destruct (a_t a) as [|b t'] eqn:Et.
  - destruct HA as [s' [HA R']]. rewrite HA.
    rewrite (trim_head_ok (set_segs q (s' :: segs)) (qmaxseg q) a s' rest segs);
      [|reflexivity|unfold arep; rewrite Et; exact R'|exact S].
    destruct segs as [|s2 segs2].
    + exists [s'], (a :: rest). split; [reflexivity|]. split; [|split; [split; [reflexivity|lia]|reflexivity]].
      inversion S; subst.
      apply inv_set_segs; [exact Ho|exact Hm| |discriminate|exact Hb].
      constructor; [unfold arep; rewrite Et; exact R'|constructor].
    + exists (s2 :: segs2), rest. split; [reflexivity|].
      destruct rest as [|a2 rest2]; [inversion S|]. specialize (Hhd _ _ eq_refl).
      split; [|split].
      * apply inv_set_segs; [exact Ho|exact Hm|exact S|discriminate|].
        apply (Forall_removelast_tl _ _ _ Hb).
      * split; [cbn [abuf flat_map]; rewrite Hhd; reflexivity|cbn; lia].
      * cbn [apend flat_map]. rewrite Et, Hhd. reflexivity.
  - destruct HA as [s' [HA R']]. rewrite HA.
    set (a' := mkA (a_id a) (a_d a ++ [b]) t' (a_bf a)).
    assert (Ra : arep (qmaxseg q) a' s') by exact R'.
    destruct t' as [|b' t''].
    + rewrite (trim_head_ok (set_segs q (s' :: segs)) (qmaxseg q) a' s' rest segs);
        [|reflexivity|exact Ra|exact S].
      destruct segs as [|s2 segs2].
      * exists [s'], [a']. split; [reflexivity|]. inversion S; subst. split; [|split].
        -- apply inv_set_segs; [exact Ho|exact Hm|constructor; [exact Ra|constructor]|discriminate|constructor].
        -- split; [reflexivity|cbn; lia].
        -- cbn [apend flat_map]. rewrite Et. cbn. reflexivity.
      * exists (s2 :: segs2), rest. split; [reflexivity|].
        destruct rest as [|a2 rest2]; [inversion S|]. specialize (Hhd _ _ eq_refl).
        split; [|split].
        -- apply inv_set_segs; [exact Ho|exact Hm|exact S|discriminate|].
           apply (Forall_removelast_tl _ _ _ Hb).
        -- split; [cbn [abuf flat_map]; rewrite Hhd; reflexivity|cbn; lia].
        -- cbn [apend flat_map]. rewrite Et, Hhd. reflexivity.
    + exists (s' :: segs), (a' :: rest). split; [reflexivity|]. split; [|split].
      * apply inv_set_segs; [exact Ho|exact Hm|constructor; [exact Ra|exact S]|discriminate|].
        apply (nobuf_removelast_swap a a'); [reflexivity|exact Hb].
      * split; [reflexivity|cbn; lia].
      * cbn [apend flat_map]. rewrite Et. reflexivity.
Qed.

(* ---------- advanceSegment ---------- *)
Lemma q_advance_segment_inv q al :
  inv q al -> qopen q = true ->
  exists segs' al', q_advance_segment q = (Ok, set_segs q segs') /\ inv (set_segs q segs') al' /\
                    apend al' = apend al /\ abuf al' = abuf al.
Proof.
  intros I Ho. destruct (inv_open_cons _ _ I Ho) as [a [rest [s [segs [E [Es [R S]]]]]]]. subst al.
  pose proof (inv_max _ _ I) as Hm. pose proof (inv_bufs _ _ I) as Hb.
  unfold q_advance_segment. rewrite Es.
  rewrite (seg_empty_rep _ _ _ _ _ _ R).
  destruct (a_t a) as [|b t'] eqn:Et; cbn [is_nil andb].
  2:{ exists (s :: segs), (a :: rest). rewrite <- Es, set_segs_same. auto. }
  destruct (a_bf a) as [|b0 bf'] eqn:Eb; cbn [is_nil].
  2:{ exists (s :: segs), (a :: rest). rewrite <- Es, set_segs_same. auto. }
  rewrite (trim_head_ok q (qmaxseg q) a s rest segs Es R S).
  destruct segs as [|s2 segs2].
  - exists (qsegs q), (a :: rest). rewrite set_segs_same. auto.
  - exists (s2 :: segs2), rest. split; [reflexivity|]. split.
    + apply inv_set_segs; [exact Ho|exact Hm|exact S|apply (Forall2_nonnil _ _ _ S); discriminate|].
      apply (Forall_removelast_tl _ _ _ Hb).
    + split; [cbn [apend flat_map]; rewrite Et, Eb; reflexivity|cbn [abuf flat_map]; rewrite Eb; reflexivity].
Qed.

Lemma q_advance_segment_drop q a rest :
  inv q (a :: rest) -> qopen q = true -> a_t a = [] -> a_bf a = [] -> rest <> [] ->
  exists segs', q_advance_segment q = (Ok, set_segs q segs') /\ inv (set_segs q segs') rest.
Proof.
  intros I Ho Et Eb Hr. destruct (inv_open_cons _ _ I Ho) as [a0 [rest0 [s [segs [E [Es [R S]]]]]]].
  inversion E; subst a0 rest0. clear E.
  pose proof (inv_max _ _ I) as Hm. pose proof (inv_bufs _ _ I) as Hb.
  unfold q_advance_segment. rewrite Es, (seg_empty_rep _ _ _ _ _ _ R), Et, Eb. cbn [is_nil andb].
  rewrite (trim_head_ok q (qmaxseg q) a s rest segs Es R S).
  destruct segs as [|s2 segs2]; [inversion S; subst; congruence|].
  exists (s2 :: segs2). split; [reflexivity|].
  apply inv_set_segs; [exact Ho|exact Hm|exact S|exact Hr|apply (Forall_removelast_tl _ _ _ Hb)].
Qed.

(* ---------- Truncate ---------- *)
Lemma q_truncate_inv q al :
  inv q al -> qopen q = true ->
  exists a rest, al = a :: rest /\
  match a_t a with
  | [] => q_truncate q = (EOF, q)
  | _ :: _ => exists segs', q_truncate q = (Ok, set_segs q segs') /\
                            inv (set_segs q segs') (mkA (a_id a) (a_d a) [] (a_bf a) :: rest)
  end.
Proof.
  intros I Ho. destruct (inv_open_cons _ _ I Ho) as [a [rest [s [segs [E [Es [R S]]]]]]]. subst al.
  exists a, rest. split; [reflexivity|].
  pose proof (inv_max _ _ I) as Hm. pose proof (inv_bufs _ _ I) as Hb.
  unfold q_truncate. rewrite Es.
  pose proof (seg_truncate_rep _ _ _ _ _ _ R) as HT.
  destruct (a_t a) as [|b t'] eqn:Et.
  - rewrite HT. rewrite <- Es, set_segs_same. reflexivity.
  - destruct HT as [s' [HT R']]. rewrite HT. exists (s' :: segs). split; [reflexivity|].
    apply inv_set_segs; [exact Ho|exact Hm|constructor; [exact R'|exact S]|discriminate|].
    apply (nobuf_removelast_swap a); [reflexivity|exact Hb].
Qed.

(* ---------- the tail ---------- *)
Lemma tail_split q al :
  inv q al -> qopen q = true ->
  exists fr lst sfr st, al = fr ++ [lst] /\ qsegs q = sfr ++ [st] /\
    Forall2 (arep (qmaxseg q)) fr sfr /\ arep (qmaxseg q) lst st /\ Forall nobuf fr.
Proof.
  intros I Ho. pose proof (inv_state _ _ I) as S. rewrite Ho in S. destruct S as [S Hne].
  destruct (exists_last' _ Hne) as [fr [lst E]]. subst al.
  apply Forall2_app_inv_l in S. destruct S as [sfr [sl [S1 [S2 Es]]]].
  inversion S2 as [|? st ? ? R S3]; subst. inversion S3; subst.
  exists fr, lst, sfr, st. pose proof (inv_bufs _ _ I) as Hb. rewrite removelast_last in Hb. auto.
Qed.

Lemma inv_snoc q fr lst sfr st :
  qopen q = true -> qmaxseg q <= bnd - 8 ->
  Forall2 (arep (qmaxseg q)) fr sfr -> arep (qmaxseg q) lst st -> Forall nobuf fr ->
  inv (set_segs q (sfr ++ [st])) (fr ++ [lst]).
Proof.
  intros Ho Hm S R Hb. apply inv_set_segs; [exact Ho|exact Hm| | |rewrite removelast_last; exact Hb].
  - apply Forall2_app; [exact S|constructor; [exact R|constructor]].
  - intros E. apply app_eq_nil in E. destruct E; discriminate.
Qed.

Lemma add_segment_ok q :
  exists s, add_segment q = Some (set_segs q (qsegs q ++ [s])) /\
            seg_rep (next_id (qsegs q)) (qmaxseg q) [] [] [] s.
Proof.
  unfold add_segment. destruct (new_segment_empty (next_id (qsegs q)) (qmaxseg q)) as [s [E R]].
  rewrite E. exists s. auto.
Qed.

Definition dseg : seg := mkSeg 0 [] 0 0 0 0 0 [].

(* the deferred flush of the last buffered appender *)
Lemma flush_tail_inv q fr lst sfr st :
  qopen q = true -> qmaxseg q <= bnd - 8 ->
  qsegs q = sfr ++ [st] ->
  Forall2 (arep (qmaxseg q)) fr sfr -> arep (qmaxseg q) lst st -> Forall nobuf fr ->
  exists st', upd_last (qsegs q) (snd (seg_flush (last (qsegs q) dseg))) = sfr ++ [st'] /\
    arep (qmaxseg q) (mkA (a_id lst) (a_d lst) (a_t lst ++ a_bf lst) []) st'.
Proof.
  intros Ho Hm Es S R Hb. rewrite Es, last_last, upd_last_snoc.
  destruct (seg_flush_rep _ _ _ _ _ _ R) as [st' [Hf R']]. rewrite Hf. exists st'. auto.
Qed.

(* ---------- Append ---------- *)
Definition nbuf_after (nb na : Z) (n : nat) : nat :=
  if (nb + 1 >=? c04_buffer_threshold) && negb (na + 1 <=? c04_last_writer_bound) then S n else O.

Lemma q_append_inv q al b nb na :
  inv q al -> qopen q = true -> nonempty b ->
  exists r segs' al',
    q_append q b nb na = (r, set_segs q segs') /\ inv (set_segs q segs') al' /\
    (if rc_eqb r Ok
     then apend al' = apend al ++ [b] /\
          (length (abuf al') <= nbuf_after nb na (length (abuf al)))%nat
     else apend al' = apend al /\ (length (abuf al') <= length (abuf al))%nat).
Proof.
  intros I Ho Hb.
  pose proof (inv_max _ _ I) as Hm.
  unfold q_append.
  destruct (nb >=? qcap q).
  { exists Blocked, (qsegs q), al. rewrite set_segs_same. cbn. auto. }
  rewrite Ho. cbn [negb].
  destruct (disk_usage q + zlen b >? qmaxsize q).
  { exists QueueFull, (qsegs q), al. rewrite set_segs_same. cbn. auto. }
  destruct (tail_split _ _ I Ho) as [fr [lst [sfr [st [Ea [Es [HS [R Hnb]]]]]]]]. subst al.
  set (buffered := nb + 1 >=? c04_buffer_threshold).
  set (lastw := na + 1 <=? c04_last_writer_bound).
  fold dseg.
  (* the part before the deferred flush *)
  match goal with
  | |- exists _ _ _, (let '(_, _) := ?X in _) = _ /\ _ => set (core := X)
  end.
  assert (Hcore : exists r sfr1 st1 fr1 lst1,
     core = (r, set_segs q (sfr1 ++ [st1])) /\
     Forall2 (arep (qmaxseg q)) fr1 sfr1 /\ arep (qmaxseg q) lst1 st1 /\ Forall nobuf fr1 /\
     (if rc_eqb r Ok
      then apend (fr1 ++ [lst1]) = apend (fr ++ [lst]) ++ [b] /\
           (length (a_bf lst1) <= if buffered then Datatypes.S (length (a_bf lst)) else 0)%nat
      else apend (fr1 ++ [lst1]) = apend (fr ++ [lst]) /\ (length (a_bf lst1) <= length (a_bf lst))%nat)).
  { unfold core. rewrite Es, last_last.
    pose proof (seg_append_rep _ _ _ _ _ _ b buffered R Hb Hm) as HA.
    destruct (ssize st + zlen (sbuf st) + zlen b >? qmaxseg q).
    - (* tail full: roll over *)
      destruct HA as [t1 [HA R1]]. rewrite HA, upd_last_snoc.
      set (lst1 := mkA (a_id lst) (a_d lst) (a_t lst ++ a_bf lst) []).
      destruct (add_segment_ok (set_segs q (sfr ++ [t1]))) as [sn [Hadd Rn]]. rewrite Hadd. qset.
      rewrite last_last.
      set (nid := next_id (sfr ++ [t1])) in *.
      pose proof (seg_append_rep _ _ _ _ _ _ b buffered Rn Hb Hm) as HB.
      destruct (ssize sn + zlen (sbuf sn) + zlen b >? qmaxseg q).
      + destruct HB as [t2 [HB R2]]. rewrite HB, upd_last_snoc.
        exists SegFull, (sfr ++ [t1]), t2, (fr ++ [lst1]), (mkA nid [] [] []).
        split; [reflexivity|]. split; [apply Forall2_app; [exact HS|constructor; [exact R1|constructor]]|].
        split; [exact R2|]. split; [apply Forall_app; split; [exact Hnb|constructor; [reflexivity|constructor]]|].
        cbn [rc_eqb]. split; [|cbn; lia].
        try (subst lst1). rewrite !apend_app. cbn [apend flat_map a_t a_bf]. rewrite !app_nil_r. reflexivity.
      + destruct buffered.
        * destruct HB as [t2 [HB R2]]. rewrite HB, upd_last_snoc.
          exists Ok, (sfr ++ [t1]), t2, (fr ++ [lst1]), (mkA nid [] [] [b]).
          split; [reflexivity|]. split; [apply Forall2_app; [exact HS|constructor; [exact R1|constructor]]|].
          split; [exact R2|]. split; [apply Forall_app; split; [exact Hnb|constructor; [reflexivity|constructor]]|].
          cbn [rc_eqb]. split; [|cbn; lia].
          try (subst lst1). rewrite !apend_app. cbn [apend flat_map a_t a_bf]. rewrite !app_nil_r, <- !app_assoc. reflexivity.
        * destruct HB as [t2 [HB R2]]. rewrite HB, upd_last_snoc.
          exists Ok, (sfr ++ [t1]), t2, (fr ++ [lst1]), (mkA nid [] [b] []).
          split; [reflexivity|]. split; [apply Forall2_app; [exact HS|constructor; [exact R1|constructor]]|].
          split; [exact R2|]. split; [apply Forall_app; split; [exact Hnb|constructor; [reflexivity|constructor]]|].
          cbn [rc_eqb]. split; [|cbn; lia].
          try (subst lst1). rewrite !apend_app. cbn [apend flat_map a_t a_bf]. rewrite !app_nil_r, <- !app_assoc. reflexivity.
    - destruct buffered.
      + destruct HA as [t1 [HA R1]]. rewrite HA, upd_last_snoc.
        exists Ok, sfr, t1, fr, (mkA (a_id lst) (a_d lst) (a_t lst) (a_bf lst ++ [b])).
        split; [reflexivity|]. split; [exact HS|]. split; [exact R1|]. split; [exact Hnb|].
        cbn [rc_eqb]. split; [|cbn [a_bf]; rewrite app_length; cbn; lia].
        try (subst lst1). rewrite !apend_app. cbn [apend flat_map a_t a_bf]. rewrite !app_nil_r, <- !app_assoc. reflexivity.
      + destruct HA as [t1 [HA R1]]. rewrite HA, upd_last_snoc.
        exists Ok, sfr, t1, fr, (mkA (a_id lst) (a_d lst) (a_t lst ++ a_bf lst ++ [b]) []).
        split; [reflexivity|]. split; [exact HS|]. split; [exact R1|]. split; [exact Hnb|].
        cbn [rc_eqb]. split; [|cbn; lia].
        try (subst lst1). rewrite !apend_app. cbn [apend flat_map a_t a_bf]. rewrite !app_nil_r, <- !app_assoc. reflexivity. }
  destruct Hcore as [r [sfr1 [st1 [fr1 [lst1 [Hc [S1 [R1 [Hnb1 Hres]]]]]]]]].
  rewrite Hc. clear Hc core.
  assert (Hab : forall l x, Forall nobuf l -> length (abuf (l ++ [x])) = length (a_bf x)).
  { intros l x Hl. rewrite abuf_app, (abuf_nobuf _ Hl). cbn. rewrite app_nil_r. reflexivity. }
  destruct (buffered && lastw) eqn:Ebl.
  - (* deferred flush *)
    destruct (flush_tail_inv (set_segs q (sfr1 ++ [st1])) fr1 lst1 sfr1 st1 Ho Hm eq_refl S1 R1 Hnb1)
      as [st' [Hu R']]. qset. rewrite Hu.
    exists r, (sfr1 ++ [st']), (fr1 ++ [mkA (a_id lst1) (a_d lst1) (a_t lst1 ++ a_bf lst1) []]).
    split; [reflexivity|]. split; [apply inv_snoc; assumption|].
    assert (Eap : apend (fr1 ++ [mkA (a_id lst1) (a_d lst1) (a_t lst1 ++ a_bf lst1) []]) = apend (fr1 ++ [lst1])).
    { rewrite !apend_app. cbn [apend flat_map a_t a_bf]. rewrite !app_nil_r. reflexivity. }
    rewrite Eap, !Hab by assumption. cbn [a_bf length].
    destruct (rc_eqb r Ok); destruct Hres as [Hp _]; (split; [exact Hp|lia]).
  - exists r, (sfr1 ++ [st1]), (fr1 ++ [lst1]).
    split; [reflexivity|]. split; [apply inv_snoc; assumption|].
    rewrite !Hab by assumption.
    destruct (rc_eqb r Ok); destruct Hres as [Hp Hl]; (split; [exact Hp|]); [|exact Hl].
    unfold nbuf_after. fold buffered. fold lastw.
    destruct buffered; cbn [andb] in *.
    + rewrite Ebl. cbn [negb]. exact Hl.
    + exact Hl.
Qed.

(* ---------- SetMaxSegmentSize ---------- *)
Lemma Forall2_set_max m n al segs :
  Forall2 (arep m) al segs -> Forall2 (arep n) al (map (fun s => set_max s n) segs).
Proof.
  induction 1 as [|a s al segs R _ IH]; [constructor|].
  cbn [map]. constructor; [apply (seg_set_max_rep _ _ _ _ _ _ _ R)|exact IH].
Qed.

Lemma q_set_max_inv q al n :
  inv q al -> qopen q = true -> n <= bnd - 8 -> Forall nobuf al ->
  exists q' al', q_set_max q n = (Ok, q') /\ inv q' al' /\ apend al' = apend al /\
                 Forall nobuf al' /\ qopen q' = true /\ qmaxseg q' = n.
Proof.
  intros I Ho Hn Hnb.
  pose proof (inv_state _ _ I) as HS. rewrite Ho in HS. destruct HS as [HS Hne].
  pose proof (Forall2_set_max _ n _ _ HS) as HS'.
  unfold q_set_max.
  set (q1 := set_maxseg (set_segs q (map (fun s => set_max s n) (qsegs q))) n).
  assert (I1 : inv q1 al).
  { constructor; subst q1; qset; [exact Hn| |apply I]. rewrite Ho. split; assumption. }
  destruct (qsegs q1) as [|s1 l1] eqn:E1.
  { exfalso. subst q1. qset. rewrite E1 in HS'. inversion HS'; subst. congruence. }
  rewrite <- E1. clear s1 l1 E1.
  destruct (ssize (last (qsegs q1) (mkSeg 0 [] 0 0 0 0 0 [])) >=? n).
  - destruct (add_segment_ok q1) as [sn [Hadd Rn]]. rewrite Hadd.
    exists (set_segs q1 (qsegs q1 ++ [sn])), (al ++ [mkA (next_id (qsegs q1)) [] [] []]).
    split; [reflexivity|]. split; [|split; [|split; [|subst q1; qset; split; [exact Ho|reflexivity]]]].
    + apply inv_snoc; [subst q1; qset; exact Ho|subst q1; qset; exact Hn|subst q1; qset; exact HS'|exact Rn|exact Hnb].
    + rewrite apend_app. cbn. apply app_nil_r.
    + apply Forall_app. split; [exact Hnb|constructor; [reflexivity|constructor]].
  - exists q1, al. split; [reflexivity|]. split; [exact I1|]. split; [reflexivity|]. split; [exact Hnb|].
    subst q1; qset. split; [exact Ho|reflexivity].
Qed.

(* ---------- Close ---------- *)
Definition flushA (a : aseg) : aseg := mkA (a_id a) (a_d a) (a_t a ++ a_bf a) [].

Lemma apend_flushA al : apend (map flushA al) = apend al.
Proof.
  induction al as [|a al IH]; [reflexivity|].
  cbn [map apend flat_map flushA a_t a_bf]. rewrite app_nil_r. f_equal. exact IH.
Qed.

Lemma close_all_ok m al segs :
  Forall2 (arep m) al segs ->
  exists l, close_all segs = (Ok, l) /\ Forall2 (arep m) (map flushA al) l.
Proof.
  induction 1 as [|a s al segs R _ IH]; [exists []; split; [reflexivity|constructor]|].
  destruct IH as [l [Hc Hl]]. destruct (seg_close_rep _ _ _ _ _ _ R) as [s' [Hs R']].
  cbn [close_all]. rewrite Hs, Hc. exists (s' :: l). split; [reflexivity|].
  cbn [map]. constructor; [exact R'|exact Hl].
Qed.

Lemma frep_of_arep m a s : arep m a s -> nobuf a -> frep a (sid s, sfile s).
Proof.
  intros R Hn. unfold frep. cbn [fst snd].
  pose proof (rep_size_eq _ _ _ _ _ _ R) as Hsz. pose proof (rep_bound _ _ _ _ _ _ R) as Hbd.
  pose proof (zlen_nonneg (sbuf s)). pose proof (rep_ne _ _ _ _ _ _ R) as Hne.
  unfold nobuf in Hn. rewrite Hn, app_nil_r in Hne.
  split; [apply (rep_id _ _ _ _ _ _ R)|]. split; [apply (rep_file _ _ _ _ _ _ R)|].
  split; [exact Hne|]. split; [lia|exact Hn].
Qed.

Lemma frep_files m al segs :
  Forall2 (arep m) al segs -> Forall nobuf al -> Forall2 frep al (files_of segs).
Proof.
  induction 1 as [|a s al segs R _ IH]; intros Hn; [constructor|].
  inversion Hn; subst. cbn [files_of map]. constructor; [apply (frep_of_arep _ _ _ R); assumption|apply IH; assumption].
Qed.

Lemma nobuf_flushA al : Forall nobuf (map flushA al).
Proof. induction al; cbn; constructor; [reflexivity|assumption]. Qed.

Lemma Forall_removelast {A} (P : A -> Prop) l : Forall P l -> Forall P (removelast l).
Proof.
  induction 1 as [|a l Ha Hl IH]; [constructor|].
  destruct l as [|b l']; [constructor|]. rewrite removelast_cons2. constructor; assumption.
Qed.

Lemma q_close_inv q al :
  inv q al ->
  exists q' al', q_close q = (Ok, q') /\ inv q' al' /\ apend al' = apend al /\
                 Forall nobuf al' /\ qopen q' = false /\ qmaxseg q' = qmaxseg q.
Proof.
  intros I. unfold q_close. pose proof (inv_state _ _ I) as HS.
  destruct (qopen q) eqn:Ho.
  - destruct HS as [HS Hne]. destruct (close_all_ok _ _ _ HS) as [l [Hc Hl]]. rewrite Hc.
    eexists. exists (map flushA al). split; [reflexivity|]. split; [|split; [apply apend_flushA|split; [apply nobuf_flushA|split; reflexivity]]].
    constructor; qset; [apply I| |apply Forall_removelast, nobuf_flushA].
    split; [reflexivity|]. apply (frep_files _ _ _ Hl), nobuf_flushA.
  - exists q, al. split; [reflexivity|]. split; [exact I|]. split; [reflexivity|].
    destruct HS as [_ HS]. split; [apply (frep_nobuf _ _ HS)|]. split; [exact Ho|reflexivity].
Qed.

(* ---------- Open ---------- *)
Lemma load_segments_ok m al d :
  Forall2 frep al d ->
  exists segs, load_segments d m = Some segs /\ Forall2 (arep m) al segs.
Proof.
  induction 1 as [|a e al d R _ IH]; [exists []; split; [reflexivity|constructor]|].
  destruct IH as [segs [Hl HS]]. destruct e as [id f]. destruct R as [Hid [Hf [Hne [Hb Hn]]]].
  cbn [fst snd] in *. subst id f.
  destruct (new_segment_rep (a_id a) m (a_d a) (a_t a) Hne Hb) as [s [Hs R]].
  cbn [load_segments]. rewrite Hs, Hl. exists (s :: segs). split; [reflexivity|].
  constructor; [|exact HS]. unfold arep. rewrite Hn. exact R.
Qed.

Lemma q_open_closed_inv q al :
  inv q al -> qopen q = false ->
  exists q' al', q_open q = (Ok, q') /\ inv q' al' /\ apend al' = apend al /\
                 Forall nobuf al' /\ qopen q' = true /\ qmaxseg q' = qmaxseg q.
Proof.
  intros I Ho. pose proof (inv_state _ _ I) as HS. rewrite Ho in HS. destruct HS as [_ HS].
  pose proof (inv_max _ _ I) as Hm. pose proof (frep_nobuf _ _ HS) as Hnb.
  unfold q_open, disk_of. rewrite Ho.
  destruct (load_segments_ok (qmaxseg q) _ _ HS) as [segs [Hl HF]]. rewrite Hl.
  set (q1 := mkQ segs true (qmaxseg q) (qmaxsize q) (qcap q) []).
  (* after the optional addSegment *)
  assert (H2 : exists q2 al2, (match segs with [] => add_segment q1 | _ => Some q1 end) = Some q2 /\
            Forall2 (arep (qmaxseg q)) al2 (qsegs q2) /\ al2 <> [] /\ apend al2 = apend al /\
            Forall nobuf al2 /\ q2 = set_segs q1 (qsegs q2)).
  { destruct segs as [|s0 segs0].
    - inversion HF; subst. destruct (add_segment_ok q1) as [sn [Hadd Rn]]. rewrite Hadd.
      eexists. exists [mkA (next_id (qsegs q1)) [] [] []]. split; [reflexivity|]. qset.
      split; [constructor; [exact Rn|constructor]|]. split; [discriminate|]. split; [reflexivity|].
      split; [constructor; [reflexivity|constructor]|reflexivity].
    - exists q1, al. split; [reflexivity|]. subst q1; qset. split; [exact HF|].
      split; [apply (Forall2_nonnil _ _ _ HF); discriminate|]. split; [reflexivity|]. split; [exact Hnb|reflexivity]. }
  destruct H2 as [q2 [al2 [E2 [HF2 [Hne2 [Hap2 [Hnb2 Eq2]]]]]]]. rewrite E2.
  destruct HF2 as [|a s rest segs' R HS']; [congruence|].
  assert (Ho1 : qopen q1 = true) by reflexivity.
  assert (Hm1 : qmaxseg q1 <= bnd - 8) by exact Hm.
  pose proof (seg_current_rep _ _ _ _ _ _ R) as HC.
  pose proof (Forall_inv Hnb2) as Hna. pose proof (Forall_inv_tail Hnb2) as Hnr.
  assert (Hrm : forall x, a_bf x = a_bf a -> Forall nobuf (removelast (x :: rest))).
  { intros x Hx. apply Forall_removelast. constructor; [unfold nobuf in *; congruence|exact Hnr]. }
  destruct (a_t a) as [|b t'] eqn:Et.
  - rewrite HC.
    rewrite (trim_head_ok (set_segs q2 (s :: segs')) (qmaxseg q) a s rest segs' eq_refl R HS').
    destruct segs' as [|s2 segs2].
    + inversion HS'; subst. eexists. exists [a]. split; [reflexivity|].
      qset. split; [|split; [exact Hap2|split; [exact Hnb2|split; reflexivity]]].
      apply inv_set_segs; [exact Ho1|exact Hm1|constructor; [exact R|constructor]|discriminate|constructor].
    + eexists. exists rest. split; [reflexivity|].
      rewrite Eq2. qset. split; [|split; [|split; [exact Hnr|split; reflexivity]]].
      * apply inv_set_segs; [exact Ho1|exact Hm1|exact HS'|apply (Forall2_nonnil _ _ _ HS'); discriminate|apply Forall_removelast; exact Hnr].
      * rewrite <- Hap2. cbn [apend flat_map]. rewrite Et. unfold nobuf in Hna. rewrite Hna. reflexivity.
  - destruct HC as [s' [R' HC]].
    assert (Hres : (let '(r, _, h') := seg_current s in
                    match r with
                    | EOF => trim_head (set_segs q2 (h' :: segs'))
                    | Panic => (Panic, set_segs q2 (h' :: segs'))
                    | _ => (Ok, set_segs q2 (h' :: segs'))
                    end) = (Ok, set_segs q2 (s' :: segs'))).
    { rewrite HC. destruct (zlen b >? qmaxseg q); reflexivity. }
    match goal with |- exists _ _, ?X = _ /\ _ => replace X with (Ok, set_segs q2 (s' :: segs')) end.
    exists (set_segs q2 (s' :: segs')), (a :: rest). split; [reflexivity|].
    rewrite Eq2. qset. split; [|split; [exact Hap2|split; [exact Hnb2|split; reflexivity]]].
    apply inv_set_segs; [exact Ho1|exact Hm1| |discriminate|apply Forall_removelast; exact Hnb2].
    constructor; [unfold arep; rewrite Et; exact R'|exact HS'].
Qed.

(* ---------- a new process opens the directory ---------- *)
Lemma default_limit_ok : c04_default_segment_size <= bnd - 8.
Proof. vm_compute. discriminate. Qed.

Lemma q_fresh_inv q al :
  inv q al -> Forall nobuf al ->
  exists q' al', q_fresh q = (Ok, q') /\ inv q' al' /\ apend al' = apend al /\
                 Forall nobuf al' /\ qopen q' = true /\ qmaxseg q' = c04_default_segment_size.
Proof.
  intros I Hnb. unfold q_fresh.
  assert (I0 : inv (new_queue (disk_of q) (qmaxsize q) (qcap q)) al).
  { constructor; unfold new_queue; qset; [apply default_limit_ok| |apply Forall_removelast; exact Hnb].
    split; [reflexivity|]. unfold disk_of. pose proof (inv_state _ _ I) as HS.
    destruct (qopen q).
    - destruct HS as [HS _]. apply (frep_files _ _ _ HS Hnb).
    - apply HS. }
  destruct (q_open_closed_inv _ _ I0 eq_refl) as [q' [al' [H1 [H2 [H3 [H4 [H5 H6]]]]]]].
  exists q', al'. split; [exact H1|]. split; [exact H2|]. split; [exact H3|]. split; [exact H4|]. split; [exact H5|exact H6].
Qed.

(* ---------- PurgeOlderThan: whatever the ages, a prefix is discarded ---------- *)
Lemma purge_loop_inv : forall fuel old q al,
  inv q al -> qopen q = true -> Forall nobuf al ->
  exists q' al', purge_loop fuel old q = (Ok, q') /\ inv q' al' /\
                 (exists pre, apend al = pre ++ apend al') /\
                 Forall nobuf al' /\ qopen q' = true /\ qmaxseg q' = qmaxseg q.
Proof.
  induction fuel as [|f IH]; intros old q al I Ho Hnb.
  - exists q, al. cbn. split; [reflexivity|]. split; [exact I|]. split; [exists []; reflexivity|]. split; [exact Hnb|]. split; [exact Ho|reflexivity].
  - destruct (inv_open_cons _ _ I Ho) as [a [rest [s [segs [E [Es [R HS]]]]]]]. subst al.
    pose proof (inv_max _ _ I) as Hm.
    cbn [purge_loop]. rewrite Es.
    destruct (existsb (N.eqb (sid s)) old).
    2:{ exists q, (a :: rest). split; [reflexivity|]. split; [exact I|]. split; [exists []; reflexivity|]. split; [exact Hnb|]. split; [exact Ho|reflexivity]. }
    destruct segs as [|s2 segs2].
    + inversion HS; subst.
      destruct (add_segment_ok q) as [sn [Hadd Rn]]. rewrite Hadd. rewrite Es in Rn |- *. cbn [app].
      rewrite (trim_head_ok (set_segs q [s; sn]) (qmaxseg q) a s [mkA (next_id [s]) [] [] []] [sn] eq_refl R);
        [|constructor; [exact Rn|constructor]].
      qset.
      assert (I2 : inv (set_segs q [sn]) [mkA (next_id [s]) [] [] []]).
      { apply inv_set_segs; [exact Ho|exact Hm|constructor; [exact Rn|constructor]|discriminate|constructor]. }
      destruct (IH old _ _ I2 Ho ltac:(constructor; [reflexivity|constructor]))
        as [q' [al' [H1 [H2 [[pre H3] [H4 [H5 H6]]]]]]].
      exists q', al'. split; [exact H1|]. split; [exact H2|]. split; [|split; [exact H4|split; [exact H5|exact H6]]].
      exists (apend [a] ++ pre). rewrite <- app_assoc, <- H3. cbn. rewrite !app_nil_r. reflexivity.
    + rewrite (trim_head_ok q (qmaxseg q) a s rest (s2 :: segs2) Es R HS).
      assert (I2 : inv (set_segs q (s2 :: segs2)) rest).
      { apply inv_set_segs; [exact Ho|exact Hm|exact HS|apply (Forall2_nonnil _ _ _ HS); discriminate|].
        apply Forall_removelast. inversion Hnb; assumption. }
      destruct (IH old _ _ I2 Ho ltac:(inversion Hnb; assumption))
        as [q' [al' [H1 [H2 [[pre H3] [H4 [H5 H6]]]]]]].
      exists q', al'. split; [exact H1|]. split; [exact H2|]. split; [|split; [exact H4|split; [exact H5|exact H6]]].
      exists ((a_t a ++ a_bf a) ++ pre). cbn [apend flat_map]. fold (apend rest). rewrite H3, <- !app_assoc. reflexivity.
Qed.

Lemma q_purge_inv q al old :
  inv q al -> qopen q = true -> Forall nobuf al ->
  exists q' al', q_purge q old = (Ok, q') /\ inv q' al' /\
                 (exists pre, apend al = pre ++ apend al') /\
                 Forall nobuf al' /\ qopen q' = true /\ qmaxseg q' = qmaxseg q.
Proof. intros. unfold q_purge. apply purge_loop_inv; assumption. Qed.
