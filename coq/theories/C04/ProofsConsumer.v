(* C04/ProofsConsumer.v — the consumer of the hinted-handoff queue (Drain.v): for EVERY
   sequence of service operations and every oracle, the events of the model satisfy the ledger
   specification of Drain.v, per (node, shard) queue. *)
From Verif Require Import Lib.Bytes C04.Model C04.Spec C04.Drain C04.ProofsSplit C04.ProofsSeg C04.ProofsQueue C04.ProofsLink.
From VerifGen Require Import Consts.
From Coq Require Import ZifyBool ZifyNat ZifyN.
Open Scope Z_scope.

(* ---------- the structure of the source the model is written against ---------- *)
Lemma c04_shape_ok : c04_shape = good_shape.
Proof. reflexivity. Qed.

Lemma consumer_structure_facts :
  c04_sw_write_then_advance = true /\ c04_sw_branches_return = true /\ c04_sw_inactive_is_eof = true /\
  c04_run_loops_until_error = true /\ c04_run_purges_by_max_age = true /\
  c04_close_if_empty_one_section = true /\ c04_purge_pass_shape = true /\ c04_remove_node_scoped = true /\
  c04_writer_drops_unknown_shard = true /\ c04_permanent_errors_are_conflict_and_partial = true.
Proof. repeat split; reflexivity. Qed.

(* ---------- a processor the theorems talk about: open, represented, nothing buffered ---------- *)
Definition good (q : queue) : Prop := exists al, inv q al /\ qopen q = true /\ Forall nobuf al.

Definition dA : aseg := mkA 0 [] [] [].

Lemma hd_snoc_same (fr : list aseg) x y :
  fr <> [] -> hd dA (fr ++ [x]) = hd dA (fr ++ y).
Proof. destruct fr; [congruence|reflexivity]. Qed.

Lemma buffered0 : (0 + 1 >=? c04_buffer_threshold) = false.
Proof. reflexivity. Qed.

(* queue.Append with no other appender in flight, on a queue with nothing buffered: the block goes
   to the end, and the blocks visible in the head segment stay a prefix of what they become *)
Lemma q_append0_inv q al b :
  inv q al -> qopen q = true -> Forall nobuf al -> nonempty b ->
  exists r segs' al',
    q_append q b 0 0 = (r, set_segs q segs') /\ inv (set_segs q segs') al' /\ Forall nobuf al' /\
    apend al' = apend al ++ (if rc_eqb r Ok then [b] else []) /\
    (exists x, a_t (hd dA al') = a_t (hd dA al) ++ x).
Proof.
  intros I Ho Hnb0 Hb.
  pose proof (inv_max _ _ I) as Hm.
  unfold q_append.
  destruct (0 >=? qcap q).
  { exists Blocked, (qsegs q), al. rewrite set_segs_same. cbn [rc_eqb]. rewrite !app_nil_r.
    split; [reflexivity|]. split; [exact I|]. split; [exact Hnb0|]. split; [reflexivity|].
    exists []. rewrite app_nil_r. reflexivity. }
  rewrite Ho. cbn [negb].
  destruct (disk_usage q + zlen b >? qmaxsize q).
  { exists QueueFull, (qsegs q), al. rewrite set_segs_same. cbn [rc_eqb]. rewrite !app_nil_r.
    split; [reflexivity|]. split; [exact I|]. split; [exact Hnb0|]. split; [reflexivity|].
    exists []. rewrite app_nil_r. reflexivity. }
  destruct (tail_split _ _ I Ho) as [fr [lst [sfr [st [Ea [Es [HS [R Hnb]]]]]]]]. subst al.
  assert (Hl : a_bf lst = []).
  { apply Forall_app in Hnb0. destruct Hnb0 as [_ H]. inversion H; assumption. }
  rewrite buffered0. cbn [andb]. fold dseg.
  rewrite Es, last_last.
  pose proof (seg_append_rep _ _ _ _ _ _ b false R Hb Hm) as HA.
  destruct (ssize st + zlen (sbuf st) + zlen b >? qmaxseg q).
  - destruct HA as [t1 [HA R1]]. rewrite HA, upd_last_snoc.
    set (lst1 := mkA (a_id lst) (a_d lst) (a_t lst ++ a_bf lst) []).
    destruct (add_segment_ok (set_segs q (sfr ++ [t1]))) as [sn [Hadd Rn]]. rewrite Hadd. qset.
    rewrite last_last.
    set (nid := next_id (sfr ++ [t1])) in *.
    pose proof (seg_append_rep _ _ _ _ _ _ b false Rn Hb Hm) as HB.
    assert (Hhd : forall y, exists x, a_t (hd dA ((fr ++ [lst1]) ++ [y])) = a_t (hd dA (fr ++ [lst])) ++ x).
    { intros y. destruct fr as [|f0 fr0]; cbn.
      - exists []. rewrite Hl. reflexivity.
      - exists []. rewrite app_nil_r. reflexivity. }
    destruct (ssize sn + zlen (sbuf sn) + zlen b >? qmaxseg q).
    + destruct HB as [t2 [HB R2]]. rewrite HB, upd_last_snoc.
      exists SegFull, ((sfr ++ [t1]) ++ [t2]), ((fr ++ [lst1]) ++ [mkA nid [] [] []]).
      split; [reflexivity|]. split.
      { apply inv_snoc; auto.
        - apply Forall2_app; [exact HS|constructor; [exact R1|constructor]].
        - apply Forall_app; split; [exact Hnb|constructor; [reflexivity|constructor]]. }
      split. { repeat (apply Forall_app; split); auto; repeat constructor. }
      split; [|apply Hhd].
      cbn [rc_eqb]. subst lst1. rewrite !apend_app. cbn [apend flat_map a_t a_bf]. rewrite !app_nil_r. reflexivity.
    + destruct HB as [t2 [HB R2]]. rewrite HB, upd_last_snoc.
      exists Ok, ((sfr ++ [t1]) ++ [t2]), ((fr ++ [lst1]) ++ [mkA nid [] [b] []]).
      split; [reflexivity|]. split.
      { apply inv_snoc; auto.
        - apply Forall2_app; [exact HS|constructor; [exact R1|constructor]].
        - apply Forall_app; split; [exact Hnb|constructor; [reflexivity|constructor]]. }
      split. { repeat (apply Forall_app; split); auto; repeat constructor. }
      split; [|apply Hhd].
      cbn [rc_eqb]. subst lst1. rewrite !apend_app. cbn [apend flat_map a_t a_bf]. rewrite !app_nil_r, <- !app_assoc. reflexivity.
  - destruct HA as [t1 [HA R1]]. rewrite HA, upd_last_snoc.
    exists Ok, (sfr ++ [t1]), (fr ++ [mkA (a_id lst) (a_d lst) (a_t lst ++ a_bf lst ++ [b]) []]).
    split; [reflexivity|]. split; [apply inv_snoc; auto|].
    split. { apply Forall_app; split; [exact Hnb|constructor; [reflexivity|constructor]]. }
    split.
    + cbn [rc_eqb]. rewrite !apend_app. cbn [apend flat_map a_t a_bf]. rewrite !app_nil_r, <- !app_assoc. reflexivity.
    + destruct fr as [|f0 fr0]; cbn.
      * exists (a_bf lst ++ [b]). reflexivity.
      * exists []. rewrite app_nil_r. reflexivity.
Qed.

(* ---------- keys and the ledger ---------- *)
Lemma key_eqb_refl k : key_eqb k k = true.
Proof. unfold key_eqb. rewrite !N.eqb_refl. reflexivity. Qed.

Lemma key_eqb_eq a b : key_eqb a b = true <-> a = b.
Proof.
  unfold key_eqb. destruct a as [a1 a2], b as [b1 b2]. cbn [fst snd]. split.
  - intros H. apply andb_true_iff in H. destruct H as [H1 H2].
    apply N.eqb_eq in H1. apply N.eqb_eq in H2. subst. reflexivity.
  - intros H. inversion H. subst. rewrite !N.eqb_refl. reflexivity.
Qed.

Lemma key_eqb_sym a b : key_eqb a b = key_eqb b a.
Proof. unfold key_eqb. rewrite (N.eqb_sym (fst a)), (N.eqb_sym (snd a)). reflexivity. Qed.

Definition ev_key (e : ev) : key := match e with EAccept k _ | ECall k _ _ | EDrop k _ _ => k end.

Lemma ledger_app k e1 : forall p e2,
  ledger k p (e1 ++ e2) = match ledger k p e1 with Some p' => ledger k p' e2 | None => None end.
Proof.
  induction e1 as [|e e1 IH]; intros p e2; [reflexivity|].
  destruct e as [k' b|k' b w|k' bs f]; cbn [app ledger].
  - apply IH.
  - destruct (key_eqb k k'); [|apply IH]. destruct p as [|h t]; [reflexivity|].
    destruct (bytes_eqb h b && um_ok b); [apply IH|reflexivity].
  - destruct (key_eqb k k'); [|apply IH].
    destruct (blocks_prefix bs p && fate_ok f bs p); [apply IH|reflexivity].
Qed.

Lemma ledger_other k e : forall p,
  Forall (fun x => key_eqb k (ev_key x) = false) e -> ledger k p e = Some p.
Proof.
  induction e as [|x e IH]; intros p H; [reflexivity|].
  inversion H as [|? ? Hx He]; subst.
  destruct x as [k' b|k' b w|k' bs f]; cbn [ledger ev_key] in *; rewrite Hx; apply IH; exact He.
Qed.

Lemma ledger_accepts k acc : forall p, ledger k p (map (EAccept k) acc) = Some (p ++ acc).
Proof.
  induction acc as [|b acc IH]; intros p; cbn [map ledger]; [rewrite app_nil_r; reflexivity|].
  rewrite key_eqb_refl, IH, <- app_assoc. reflexivity.
Qed.

Lemma keys_accepts k acc : Forall (fun x => ev_key x = k) (map (EAccept k) acc).
Proof. induction acc; cbn; constructor; auto. Qed.

Lemma blocks_prefix_refl l : blocks_prefix l l = true.
Proof. pose proof (blocks_prefix_app l []) as H. rewrite app_nil_r in H. exact H. Qed.

(* ---------- WriteShard ---------- *)
Lemma appends_inv bs : forall q al,
  inv q al -> qopen q = true -> Forall nobuf al -> Forall nonempty bs ->
  exists r acc q' al',
    appends q bs = (r, acc, q') /\ inv q' al' /\ qopen q' = true /\ Forall nobuf al' /\
    apend al' = apend al ++ acc /\ (exists x, a_t (hd dA al') = a_t (hd dA al) ++ x) /\
    (r = Ok -> acc = bs).
Proof.
  induction bs as [|b bs IH]; intros q al I Ho Hnb Hne.
  - exists Ok, [], q, al. cbn. rewrite app_nil_r. repeat (split; auto). exists []. rewrite app_nil_r. reflexivity.
  - inversion Hne as [|? ? Hb Hbs]; subst.
    destruct (q_append0_inv q al b I Ho Hnb Hb) as [r [segs' [al1 [HA [I1 [Hnb1 [Hp1 [x1 Hx1]]]]]]]].
    cbn [appends]. rewrite HA.
    assert (Ho1 : qopen (set_segs q segs') = true) by exact Ho.
    destruct r; cbn [rc_eqb] in Hp1;
      try (eexists _, [], _, al1; split; [reflexivity|]; rewrite app_nil_r in *;
           repeat (split; auto); [exists x1; exact Hx1|discriminate]).
    destruct (IH _ _ I1 Ho1 Hnb1 Hbs) as [r2 [acc2 [q2 [al2 [HA2 [I2 [Ho2 [Hnb2 [Hp2 [[x2 Hx2] Hr2]]]]]]]]]].
    rewrite HA2. exists r2, (b :: acc2), q2, al2. split; [reflexivity|].
    split; [exact I2|]. split; [exact Ho2|]. split; [exact Hnb2|]. split.
    + rewrite Hp2, Hp1, <- app_assoc. reflexivity.
    + split; [exists (x1 ++ x2); rewrite Hx2, Hx1, <- app_assoc; reflexivity|].
      intros E. rewrite (Hr2 E). reflexivity.
Qed.

Lemma split_blocks_nonempty shard pts : Forall nonempty (fst (split_blocks shard pts)).
Proof.
  unfold split_blocks. destruct (write_shard _ _ _ pts) as [blks out]. cbn [fst].
  induction blks; cbn; constructor; [apply marshal_write_nonempty|assumption].
Qed.

Lemma np_write_inv shard pts q al :
  inv q al -> qopen q = true -> Forall nobuf al ->
  exists r acc q' al',
    np_write shard pts q = (r, acc, q') /\ inv q' al' /\ qopen q' = true /\ Forall nobuf al' /\
    apend al' = apend al ++ acc /\ (exists x, a_t (hd dA al') = a_t (hd dA al) ++ x).
Proof.
  intros I Ho Hnb. unfold np_write. rewrite Ho. cbn [negb].
  pose proof (split_blocks_nonempty shard pts) as Hne.
  destruct (split_blocks shard pts) as [bs out]. cbn [fst] in Hne.
  destruct (appends_inv bs q al I Ho Hnb Hne) as [r [acc [q' [al' [HA [I' [Ho' [Hnb' [Hp [Hx _]]]]]]]]]].
  rewrite HA. destruct r; eexists _, acc, q', al'; (split; [reflexivity|]); auto.
Qed.

Lemma mid_write_inv shard mid q al :
  inv q al -> qopen q = true -> Forall nobuf al ->
  exists r acc q' al',
    mid_write shard mid q = (r, acc, q') /\ inv q' al' /\ qopen q' = true /\ Forall nobuf al' /\
    apend al' = apend al ++ acc /\ (exists x, a_t (hd dA al') = a_t (hd dA al) ++ x).
Proof.
  intros I Ho Hnb. unfold mid_write. destruct mid as [|p mid].
  - exists Ok, [], q, al. rewrite app_nil_r. repeat (split; auto). exists []. rewrite app_nil_r. reflexivity.
  - apply np_write_inv; assumption.
Qed.

(* ---------- the queue calls SendWrite makes ---------- *)
Lemma head_visible_inv q al a rest :
  inv q al -> qopen q = true -> al = a :: rest -> head_visible q = a_t a.
Proof.
  intros I Ho E. destruct (inv_open_cons _ _ I Ho) as [a' [rest' [s [segs [E' [Es [R _]]]]]]].
  rewrite E in E'. inversion E'; subst a' rest'. unfold head_visible. rewrite Es.
  apply (seg_visible_rep _ _ _ _ _ _ R).
Qed.

Lemma nobuf_of_abuf al al' : Forall nobuf al -> abuf al' = abuf al -> Forall nobuf al'.
Proof. intros H E. apply nbuf0_nobuf. rewrite E, (abuf_nobuf _ H). reflexivity. Qed.

Lemma advance_pops q al b x tl0 :
  inv q al -> qopen q = true -> Forall nobuf al ->
  a_t (hd dA al) = b :: x -> apend al = b :: tl0 ->
  exists al', inv (snd (q_advance q)) al' /\ qopen (snd (q_advance q)) = true /\ Forall nobuf al' /\
              apend al' = tl0.
Proof.
  intros I Ho Hnb Hh Hp.
  destruct (q_advance_inv q al I Ho) as [a [rest [E [segs' [al' [HA [I' [[Hab _] Hm]]]]]]]].
  subst al. cbn [hd] in Hh. rewrite Hh in Hm. rewrite HA. cbn [snd].
  exists al'. split; [exact I'|]. split; [exact Ho|]. split; [apply (nobuf_of_abuf _ _ Hnb Hab)|].
  rewrite Hp in Hm. inversion Hm. reflexivity.
Qed.

Lemma advseg_keeps q al :
  inv q al -> qopen q = true -> Forall nobuf al ->
  exists al', inv (snd (q_advance_segment q)) al' /\ qopen (snd (q_advance_segment q)) = true /\
              Forall nobuf al' /\ apend al' = apend al.
Proof.
  intros I Ho Hnb.
  destruct (q_advance_segment_inv q al I Ho) as [segs' [al' [HA [I' [Hp Hab]]]]].
  rewrite HA. cbn [snd]. exists al'. split; [exact I'|]. split; [exact Ho|].
  split; [apply (nobuf_of_abuf _ _ Hnb Hab)|exact Hp].
Qed.

Lemma truncate_drops q al b x :
  inv q al -> qopen q = true -> Forall nobuf al -> a_t (hd dA al) = b :: x ->
  exists al', inv (snd (q_truncate q)) al' /\ qopen (snd (q_truncate q)) = true /\ Forall nobuf al' /\
              apend al = (b :: x) ++ apend al'.
Proof.
  intros I Ho Hnb Hh.
  destruct (q_truncate_inv q al I Ho) as [a [rest [E HT]]]. subst al. cbn [hd] in Hh. rewrite Hh in HT.
  destruct HT as [segs' [HT I']]. rewrite HT. cbn [snd].
  inversion Hnb as [|? ? Ha Hr]; subst. unfold nobuf in Ha.
  eexists. split; [exact I'|]. split; [exact Ho|]. split.
  - constructor; [exact Ha|exact Hr].
  - cbn [apend flat_map a_t a_bf]. rewrite Hh, Ha. cbn. rewrite app_nil_r. reflexivity.
Qed.

(* ---------- SendWrite ---------- *)
Definition quiet (w : wr_out) (m : meta_out) : bool :=
  match m with MActive => match w with WRetry => true | _ => false end | _ => true end.

Lemma send_write_ledger k m w mid q :
  good q ->
  exists c e q', send_write k m w mid q = (c, e, q') /\ good q' /\
    ledger k (pending q) e = Some (pending q') /\ Forall (fun x => ev_key x = k) e /\
    (* a retryable failure, an unknown node or a meta error never removes a block *)
    (quiet w m = true -> exists acc, pending q' = pending q ++ acc \/
         exists b, hd_error (pending q) = Some b /\ (um_ok b = false \/ zlen b > qmaxseg q)).
Proof.
  intros [al [I [Ho Hnb]]]. unfold send_write. rewrite c04_shape_ok. unfold send_write_with, good_shape.
  cbn [sh_on_err sh_on_eof sh_on_um sh_retry_returns sh_advance_first].
  assert (G : good q) by (exists al; auto).
  destruct m.
  2,3: (eexists _, [], q; split; [reflexivity|]; split; [exact G|]; split; [reflexivity|]; split; [constructor|];
        intros _; exists []; left; rewrite app_nil_r; reflexivity).
  rewrite (pending_inv _ _ I).
  destruct (q_current_inv q al I Ho) as [a [rest [E HC]]].
  destruct (a_t a) as [|b t'] eqn:Et.
  - (* io.EOF: advanceSegment *)
    rewrite HC.
    destruct (mid_write_inv (snd k) mid q al I Ho Hnb) as [r0 [acc [q2 [al2 [HM [I2 [Ho2 [Hnb2 [Hp2 _]]]]]]]]].
    rewrite HM. cbn [act_events do_act].
    destruct (advseg_keeps q2 al2 I2 Ho2 Hnb2) as [al3 [I3 [Ho3 [Hnb3 Hp3]]]].
    eexists _, _, _. split; [reflexivity|]. split; [exists al3; auto|].
    rewrite app_nil_r, ledger_accepts, (pending_inv _ _ I3), Hp3, Hp2.
    split; [reflexivity|]. split; [apply keys_accepts|].
    intros _. exists acc. left. reflexivity.
  - destruct HC as [segs1 [I1 HC]].
    assert (Ho1 : qopen (set_segs q segs1) = true) by exact Ho.
    destruct (mid_write_inv (snd k) mid _ al I1 Ho1 Hnb) as [r0 [acc [q2 [al2 [HM [I2 [Ho2 [Hnb2 [Hp2 [x Hx]]]]]]]]]].
    assert (Hh : a_t (hd dA al2) = b :: (t' ++ x)). { rewrite Hx, E. cbn [hd]. rewrite Et. reflexivity. }
    assert (Hpa : apend al = b :: (t' ++ a_bf a ++ apend rest)).
    { rewrite E. cbn [apend flat_map]. rewrite Et. fold (apend rest). rewrite <- app_assoc. reflexivity. }
    assert (Hp2' : apend al2 = b :: ((t' ++ a_bf a ++ apend rest) ++ acc)). { rewrite Hp2, Hpa. reflexivity. }
    assert (Hhv : head_visible q2 = b :: (t' ++ x)).
    { destruct al2 as [|a2 r2]; [cbn in Hh; discriminate|]. rewrite (head_visible_inv q2 _ a2 r2 I2 Ho2 eq_refl). exact Hh. }
    rewrite Hpa.
    destruct (zlen b >? qmaxseg q) eqn:Ez.
    + (* record larger than the segment limit: Truncate *)
      rewrite HC, HM. cbn [act_events do_act]. rewrite Hhv.
      destruct (truncate_drops q2 al2 b _ I2 Ho2 Hnb2 Hh) as [al3 [I3 [Ho3 [Hnb3 Hp3]]]].
      eexists _, _, _. split; [reflexivity|]. split; [exists al3; auto|].
      rewrite ledger_app, ledger_accepts. cbn [ledger]. rewrite key_eqb_refl.
      change (b :: t' ++ a_bf a ++ apend rest) with ((b :: (t' ++ a_bf a ++ apend rest))).
      replace ((b :: t' ++ a_bf a ++ apend rest) ++ acc) with (apend al2) by (rewrite Hp2'; reflexivity).
      rewrite Hp3, blocks_prefix_app. cbn [fate_ok is_nil negb andb].
      rewrite skipn_app_exact, (pending_inv _ _ I3).
      split; [reflexivity|]. split; [apply Forall_app; split; [apply keys_accepts|repeat constructor]|].
      intros _. exists []. right. exists b. split; [reflexivity|]. right. lia.
    + rewrite HC, HM.
      destruct (advance_pops q2 al2 b _ _ I2 Ho2 Hnb2 Hh Hp2') as [al3 [I3 [Ho3 [Hnb3 Hp3]]]].
      destruct (unmarshal_write b) as [sh pts| |sh pts] eqn:Eu.
      * (* decodable: the writer is called *)
        assert (Hum : um_ok b = true) by (unfold um_ok; rewrite Eu; reflexivity).
        assert (Hcall : forall w', ledger k (b :: t' ++ a_bf a ++ apend rest) (ECall k b w' :: map (EAccept k) acc)
                          = Some ((match w' with WRetry => b :: t' ++ a_bf a ++ apend rest | _ => t' ++ a_bf a ++ apend rest end) ++ acc)).
        { intros w'. cbn [ledger]. rewrite key_eqb_refl, bytes_eqb_refl, Hum. cbn [andb]. apply ledger_accepts. }
        assert (Hk : forall w', Forall (fun x0 => ev_key x0 = k) (ECall k b w' :: map (EAccept k) acc)).
        { intros w'. constructor; [reflexivity|apply keys_accepts]. }
        destruct w.
        1,2,4: (eexists _, _, _; split; [reflexivity|]; split; [exists al3; auto|];
                rewrite Hcall, (pending_inv _ _ I3), Hp3; split; [reflexivity|]; split; [apply Hk|]; cbn; discriminate).
        eexists _, _, _. split; [reflexivity|]. split; [exists al2; auto|].
        rewrite Hcall, (pending_inv _ _ I2), Hp2'. split; [reflexivity|]. split; [apply Hk|].
        intros _. exists acc. left. reflexivity.
      * (* undecodable: skipped with Advance *)
        cbn [act_events do_act]. rewrite Hhv.
        eexists _, _, _. split; [reflexivity|]. split; [exists al3; auto|].
        rewrite ledger_app, ledger_accepts. cbn [ledger]. rewrite key_eqb_refl.
        cbn [app blocks_prefix fate_ok]. rewrite bytes_eqb_refl. unfold um_ok. rewrite Eu.
        cbn [negb andb skipn length]. rewrite (pending_inv _ _ I3), Hp3.
        split; [reflexivity|]. split; [apply Forall_app; split; [apply keys_accepts|repeat constructor]|].
        intros _. exists []. right. exists b. split; [reflexivity|]. left. unfold um_ok. rewrite Eu. reflexivity.
      * cbn [act_events do_act]. rewrite Hhv.
        eexists _, _, _. split; [reflexivity|]. split; [exists al3; auto|].
        rewrite ledger_app, ledger_accepts. cbn [ledger]. rewrite key_eqb_refl.
        cbn [app blocks_prefix fate_ok]. rewrite bytes_eqb_refl. unfold um_ok. rewrite Eu.
        cbn [negb andb skipn length]. rewrite (pending_inv _ _ I3), Hp3.
        split; [reflexivity|]. split; [apply Forall_app; split; [apply keys_accepts|repeat constructor]|].
        intros _. exists []. right. exists b. split; [reflexivity|]. left. unfold um_ok. rewrite Eu. reflexivity.
Qed.

(* ---------- the retry tick of run ---------- *)
Lemma tick_ledger k m ws : forall q,
  good q ->
  exists e q', tick k m ws q = (e, q') /\ good q' /\
    ledger k (pending q) e = Some (pending q') /\ Forall (fun x => ev_key x = k) e.
Proof.
  induction ws as [|w ws IH]; intros q G; cbn [tick].
  - destruct (send_write_ledger k m WRetry [] q G) as [c [e [q' [HS [G' [HL [HK _]]]]]]].
    rewrite HS. exists e, q'. split; [reflexivity|]. split; [assumption|]. split; assumption.
  - destruct (send_write_ledger k m w [] q G) as [c [e [q' [HS [G' [HL [HK _]]]]]]].
    rewrite HS. destruct c; try (exists e, q'; split; [reflexivity|]; split; [assumption|]; split; assumption).
    destruct (IH q' G') as [e2 [q2 [HT [G2 [HL2 HK2]]]]]. rewrite HT.
    exists (e ++ e2), q2. split; [reflexivity|]. split; [exact G2|].
    rewrite ledger_app, HL. split; [exact HL2|apply Forall_app; auto].
Qed.

(* ---------- the purge tick of run ---------- *)
Lemma dropped_prefix_app (pre x : list block) : dropped_prefix (pre ++ x) x = pre.
Proof.
  unfold dropped_prefix. rewrite app_length.
  replace (length pre + length x - length x)%nat with (length pre) by lia.
  rewrite firstn_app, Nat.sub_diag, firstn_all. cbn. apply app_nil_r.
Qed.

Lemma age_purge_ledger k old q :
  good q ->
  exists e q', age_purge k old q = (e, q') /\ good q' /\
    ledger k (pending q) e = Some (pending q') /\ Forall (fun x => ev_key x = k) e.
Proof.
  intros [al [I [Ho Hnb]]]. unfold age_purge.
  destruct (q_purge_inv q al old I Ho Hnb) as [q' [al' [HP [I' [[pre Hpre] [Hnb' [Ho' _]]]]]]].
  rewrite HP, (pending_inv _ _ I), (pending_inv _ _ I'), Hpre, dropped_prefix_app.
  assert (G' : good q') by (exists al'; auto).
  destruct pre as [|p0 pre].
  - exists [], q'. split; [reflexivity|]. split; [exact G'|]. split; [|constructor].
    cbn. rewrite (pending_inv _ _ I'). reflexivity.
  - eexists _, q'. split; [reflexivity|]. split; [exact G'|]. split; [|repeat constructor].
    cbn [ledger]. rewrite key_eqb_refl, blocks_prefix_app. cbn [fate_ok is_nil negb andb].
    rewrite skipn_app_exact, (pending_inv _ _ I'). reflexivity.
Qed.

(* a young head segment protects the whole queue: nothing is purged *)
Lemma age_purge_young_head k old q h tl :
  qsegs q = h :: tl -> existsb (N.eqb (sid h)) old = false -> age_purge k old q = ([], q).
Proof.
  intros Es Hy. unfold age_purge, q_purge. rewrite Es. cbn [length purge_loop map].
  assert (Hf : existsb (N.eqb (sid h)) (filter (fun id => existsb (N.eqb id) (sid h :: map sid tl)) old) = false).
  { clear - Hy. induction old as [|o old IH]; [reflexivity|]. cbn [existsb] in Hy.
    apply orb_false_iff in Hy. destruct Hy as [H1 H2]. cbn [filter].
    destruct (existsb (N.eqb o) (sid h :: map sid tl)); [cbn [existsb]; rewrite H1; cbn; auto|auto]. }
  rewrite Es. rewrite Hf. unfold dropped_prefix. rewrite Nat.sub_diag. reflexivity.
Qed.

(* ---------- CloseIfEmpty ---------- *)
Lemma pending_nil_empty q : good q -> (q_empty q = true <-> pending q = []).
Proof.
  intros [al [I [Ho _]]]. rewrite (q_empty_inv _ _ I Ho), (pending_inv _ _ I). apply is_nil_true.
Qed.

(* (e) a processor with pending blocks is never closed by CloseIfEmpty *)
Lemma close_if_empty_keeps q closed q' :
  good q -> np_close_if_empty q = (closed, q') -> pending q <> [] -> closed = false /\ q' = q.
Proof.
  intros G H Hne. unfold np_close_if_empty in H. destruct G as [al [I [Ho Hnb]]]. rewrite Ho in H. cbn [negb] in H.
  destruct (q_empty q) eqn:Ee.
  - exfalso. apply Hne. apply (pending_nil_empty q); [exists al; auto|exact Ee].
  - cbn [negb] in H. inversion H. auto.
Qed.

Lemma close_then_fresh_good q :
  good q -> good (snd (q_fresh (snd (q_close q)))) /\ pending (snd (q_fresh (snd (q_close q)))) = pending q.
Proof.
  intros [al [I [Ho Hnb]]].
  destruct (q_close_inv q al I) as [q1 [al1 [HC [I1 [Hp1 [Hnb1 _]]]]]]. rewrite HC. cbn [snd].
  destruct (q_fresh_inv q1 al1 I1 Hnb1) as [q2 [al2 [HF [I2 [Hp2 [Hnb2 [Ho2 _]]]]]]]. rewrite HF. cbn [snd].
  split; [exists al2; auto|]. rewrite (pending_inv _ _ I2), (pending_inv _ _ I), Hp2, Hp1. reflexivity.
Qed.

Lemma fresh_good q : good q -> good (snd (q_fresh q)) /\ pending (snd (q_fresh q)) = pending q.
Proof.
  intros [al [I [Ho Hnb]]].
  destruct (q_fresh_inv q al I Hnb) as [q2 [al2 [HF [I2 [Hp2 [Hnb2 [Ho2 _]]]]]]]. rewrite HF. cbn [snd].
  split; [exists al2; auto|]. rewrite (pending_inv _ _ I2), (pending_inv _ _ I), Hp2. reflexivity.
Qed.

Lemma init_good maxsize cap : good (q_init maxsize cap) /\ pending (q_init maxsize cap) = [].
Proof.
  destruct (q_init_inv maxsize cap) as [al [I L]].
  pose proof (lk_pend _ _ _ L) as Hp. pose proof (lk_open _ _ _ L) as Ho. pose proof (lk_nbuf _ _ _ L) as Hn.
  cbn in Hp, Ho, Hn. split.
  - exists al. split; [exact I|]. split; [symmetry; exact Ho|]. apply nbuf0_nobuf. lia.
  - rewrite (pending_inv _ _ I). symmetry. exact Hp.
Qed.

(* one processor during the purge pass *)
Lemma pass_entry_ledger active aged k q :
  good q ->
  match pass_entry active aged k q with
  | (Some q', e) => q' = q /\ e = []
  | (None, e) => ledger k (pending q) e = Some [] /\ Forall (fun x => ev_key x = k) e /\
                 (* (e): a processor with pending blocks goes only for an unknown node with aged data *)
                 (pending q <> [] -> existsb (N.eqb (fst k)) active = false /\ existsb (key_eqb k) aged = true)
  end.
Proof.
  intros G. unfold pass_entry. destruct (q_empty q) eqn:Ee.
  - pose proof (proj1 (pending_nil_empty q G) Ee) as Hp.
    unfold np_close_if_empty. destruct G as [al [I [Ho Hnb]]]. rewrite Ho, Ee. cbn [negb].
    rewrite Hp. split; [reflexivity|]. split; [constructor|]. congruence.
  - destruct (existsb (N.eqb (fst k)) active) eqn:Ea; [auto|].
    destruct (existsb (key_eqb k) aged) eqn:Eg; cbn [negb]; [|auto].
    split; [|split; [repeat constructor|auto]].
    cbn [ledger]. rewrite key_eqb_refl, blocks_prefix_refl. cbn [fate_ok]. rewrite Nat.eqb_refl. cbn [andb].
    rewrite skipn_all. reflexivity.
Qed.

(* ---------- the processor map ---------- *)
Definition allgood (l : list (key * queue)) : Prop := Forall (fun e => good (snd e)) l.
Definition sgood (s : svc) : Prop := allgood (sv_procs s) /\ NoDup (map fst (sv_procs s)).

Definition pendl (k : key) (l : list (key * queue)) : list block :=
  match find k l with Some q => pending q | None => [] end.

Lemma pend_of_pendl k s : pend_of k s = pendl k (sv_procs s).
Proof. reflexivity. Qed.

Lemma find_good l k q : allgood l -> find k l = Some q -> good q.
Proof.
  induction 1 as [|[k' q'] l Hq _ IH]; cbn [find]; [discriminate|].
  destruct (key_eqb k k'); [intros E; inversion E; subst; exact Hq|exact IH].
Qed.

Lemma find_none_notin k l : find k l = None -> ~ In k (map fst l).
Proof.
  induction l as [|[k' q'] l IH]; cbn [find map fst]; [auto|].
  destruct (key_eqb k k') eqn:E; [discriminate|].
  intros H [H1|H1]; [subst; rewrite key_eqb_refl in E; discriminate|exact (IH H H1)].
Qed.

Lemma notin_find_none k l : ~ In k (map fst l) -> find k l = None.
Proof.
  induction l as [|[k' q'] l IH]; cbn [find map fst]; [auto|].
  intros H. destruct (key_eqb k k') eqn:E.
  - apply key_eqb_eq in E. subst. exfalso. apply H. left. reflexivity.
  - apply IH. intros H1. apply H. right. exact H1.
Qed.

Lemma find_upd_same k q l : find k (upd k q l) = Some q.
Proof.
  induction l as [|[k' q'] l IH]; cbn [upd find]; [rewrite key_eqb_refl; reflexivity|].
  destruct (key_eqb k k') eqn:E; cbn [find]; [rewrite key_eqb_refl; reflexivity|rewrite E; exact IH].
Qed.

Lemma find_upd_other k k' q l : key_eqb k' k = false -> find k' (upd k q l) = find k' l.
Proof.
  intros Hn. induction l as [|[k2 q2] l IH]; cbn [upd find]; [rewrite Hn; reflexivity|].
  destruct (key_eqb k k2) eqn:E; cbn [find].
  - apply key_eqb_eq in E. subst k2. rewrite Hn. reflexivity.
  - rewrite IH. reflexivity.
Qed.

Lemma upd_allgood k q l : allgood l -> good q -> allgood (upd k q l).
Proof.
  intros H G. induction H as [|[k' q'] l Hq Hl IH]; cbn [upd]; [constructor; [exact G|constructor]|].
  destruct (key_eqb k k'); constructor; cbn [snd] in *; auto.
Qed.

Lemma upd_keys k q l :
  map fst (upd k q l) = match find k l with Some _ => map fst l | None => map fst l ++ [k] end.
Proof.
  induction l as [|[k' q'] l IH]; cbn [upd find map fst app]; [reflexivity|].
  destruct (key_eqb k k') eqn:E; cbn [map fst].
  - apply key_eqb_eq in E. subst. reflexivity.
  - rewrite IH. destruct (find k l); reflexivity.
Qed.

Lemma NoDup_app_snoc {A} (l : list A) x : NoDup l -> ~ In x l -> NoDup (l ++ [x]).
Proof.
  induction 1 as [|y l Hy _ IH]; intros Hx; cbn; [constructor; [auto|constructor]|].
  constructor.
  - intros Hin. apply in_app_or in Hin. destruct Hin as [Hin|[Hin|[]]]; [auto|].
    subst. apply Hx. left. reflexivity.
  - apply IH. intros Hin. apply Hx. right. exact Hin.
Qed.

Lemma upd_nodup k q l : NoDup (map fst l) -> NoDup (map fst (upd k q l)).
Proof.
  intros H. rewrite upd_keys. destruct (find k l) eqn:E; [exact H|].
  apply NoDup_app_snoc; [exact H|apply find_none_notin; exact E].
Qed.

(* an operation that acts on ONE processor *)
Lemma upd_step s k q0 q' e :
  sgood s -> good q' -> pendl k (sv_procs s) = pending q0 ->
  ledger k (pending q0) e = Some (pending q') -> Forall (fun x => ev_key x = k) e ->
  sgood (set_procs s (upd k q' (sv_procs s))) /\ forall k', ledger k' (pend_of k' s) e = Some (pend_of k' (set_procs s (upd k q' (sv_procs s)))).
Proof.
  intros [Hg Hn] G' Hp HL HK. split.
  - split; cbn [sv_procs set_procs]; [apply upd_allgood; assumption|apply upd_nodup; assumption].
  - intros k'. rewrite !pend_of_pendl. cbn [sv_procs set_procs]. unfold pendl at 2.
    destruct (key_eqb k' k) eqn:E.
    + apply key_eqb_eq in E. subst k'. rewrite find_upd_same, Hp. exact HL.
    + rewrite (find_upd_other _ _ _ _ E). apply ledger_other.
      eapply Forall_impl; [|exact HK]. intros x Hx. cbn beta in Hx. rewrite Hx. exact E.
Qed.

Lemma ledger_nil k p : ledger k p [] = Some p.
Proof. reflexivity. Qed.

(* sweeps: the purge pass and RemoveNode *)
Definition entry_ok (f : key -> queue -> option queue * list ev) : Prop :=
  forall k q, good q ->
    match f k q with
    | (Some q', e) => q' = q /\ e = []
    | (None, e) => ledger k (pending q) e = Some [] /\ Forall (fun x => ev_key x = k) e
    end.

Lemma sweep_ledger f l :
  entry_ok f -> allgood l -> NoDup (map fst l) ->
  exists l' e, sweep f l = (l', e) /\ allgood l' /\ NoDup (map fst l') /\
    (forall k, In k (map fst l') -> In k (map fst l)) /\
    Forall (fun x => In (ev_key x) (map fst l)) e /\
    forall k, ledger k (pendl k l) e = Some (pendl k l').
Proof.
  intros Hf. induction l as [|[k0 q0] l IH]; intros Hg Hn.
  - exists [], []. cbn. repeat split; auto; constructor.
  - inversion Hg as [|? ? G0 Hg']; subst. inversion Hn as [|? ? Hni Hn']; subst. cbn [snd fst map] in *.
    destruct (IH Hg' Hn') as [l' [e' [HS [Hgl [Hnl [Hsub [Hke HL]]]]]]].
    cbn [sweep]. rewrite HS. pose proof (Hf k0 q0 G0) as H0.
    assert (Hother : forall k, key_eqb k k0 = false -> forall e0, Forall (fun x => ev_key x = k0) e0 ->
              forall p, ledger k p e0 = Some p).
    { intros k E e0 He0 p. apply ledger_other. eapply Forall_impl; [|exact He0]. intros x Hx. cbn beta in Hx. rewrite Hx. exact E. }
    assert (Hk0 : forall p, ledger k0 p e' = Some p).
    { intros p. apply ledger_other. eapply Forall_impl; [|exact Hke]. intros x Hx. cbn beta in Hx.
      destruct (key_eqb k0 (ev_key x)) eqn:E; [|reflexivity]. apply key_eqb_eq in E. rewrite <- E in Hx. contradiction. }
    destruct (f k0 q0) as [[q1|] e0].
    + destruct H0 as [-> ->]. exists ((k0, q0) :: l'), e'. split; [reflexivity|].
      split; [constructor; assumption|]. split; [cbn; constructor; [intros Hin; apply Hni, Hsub, Hin|exact Hnl]|].
      split; [cbn; intros k [H|H]; [left; exact H|right; apply Hsub, H]|].
      split; [eapply Forall_impl; [|exact Hke]; intros x Hx; right; exact Hx|].
      intros k. cbn [app]. unfold pendl. cbn [find]. destruct (key_eqb k k0) eqn:E.
      * apply key_eqb_eq in E. subst k. apply Hk0.
      * apply HL.
    + destruct H0 as [HL0 HK0]. exists l', (e0 ++ e'). split; [reflexivity|].
      split; [exact Hgl|]. split; [exact Hnl|].
      split; [intros k H; right; apply Hsub, H|].
      split. { apply Forall_app. split.
               - eapply Forall_impl; [|exact HK0]. intros x Hx. cbn beta in Hx. left. symmetry. exact Hx.
               - eapply Forall_impl; [|exact Hke]. intros x Hx. right. exact Hx. }
      intros k. rewrite ledger_app. unfold pendl at 1. cbn [find]. destruct (key_eqb k k0) eqn:E.
      * apply key_eqb_eq in E. subst k. rewrite HL0, Hk0. unfold pendl.
        rewrite (notin_find_none k0 l'); [reflexivity|]. intros Hin. apply Hni, Hsub, Hin.
      * rewrite (Hother k E e0 HK0). apply HL.
Qed.

Lemma pass_entry_ok active aged : entry_ok (pass_entry active aged).
Proof.
  intros k q G. pose proof (pass_entry_ledger active aged k q G) as H.
  destruct (pass_entry active aged k q) as [[q'|] e]; [exact H|]. destruct H as [H1 [H2 _]]. auto.
Qed.

Lemma remove_entry_ok node : entry_ok (remove_entry node).
Proof.
  intros k q G. unfold remove_entry. destruct (N.eqb (fst k) node); [|auto].
  destruct (pending q) as [|b t] eqn:Ep; [split; [reflexivity|constructor]|].
  split; [|repeat constructor].
  cbn [ledger]. rewrite key_eqb_refl, blocks_prefix_refl. cbn [fate_ok]. rewrite Nat.eqb_refl. cbn [andb].
  rewrite skipn_all. reflexivity.
Qed.

(* RemoveNode removes the processors of that node and no other *)
Lemma remove_node_scoped node l k q :
  fst k <> node -> find k l = Some q -> find k (fst (remove_node node l)) = Some q.
Proof.
  intros Hk. unfold remove_node. induction l as [|[k0 q0] l IH]; cbn [find sweep]; [discriminate|].
  destruct (sweep (remove_entry node) l) as [r' e'] eqn:ES. cbn [fst] in IH.
  unfold remove_entry at 1. destruct (N.eqb (fst k0) node) eqn:En.
  - destruct (key_eqb k k0) eqn:E; [|cbn [fst]; exact IH].
    apply key_eqb_eq in E. subst k0. apply N.eqb_eq in En. contradiction.
  - cbn [app fst find]. destruct (key_eqb k k0); [auto|exact IH].
Qed.

Lemma restart_map l :
  allgood l -> NoDup (map fst l) ->
  let l' := map (fun e => (fst e, snd (q_fresh (snd e)))) l in
  allgood l' /\ NoDup (map fst l') /\ forall k, pendl k l' = pendl k l.
Proof.
  intros Hg Hn. cbn zeta. split; [|split].
  - clear Hn. induction Hg as [|[k q] l G _ IH]; cbn [map]; [apply Forall_nil|apply Forall_cons; [cbn; apply (fresh_good q G)|exact IH]].
  - rewrite map_map. cbn [fst]. exact Hn.
  - intros k. unfold pendl. clear Hn. induction Hg as [|[k0 q0] l G _ IH]; cbn [map find fst snd]; [reflexivity|].
    destruct (key_eqb k k0); [apply (fresh_good q0 G)|exact IH].
Qed.

(* ---------- every operation ---------- *)
Definition sop_ok (o : sop) : Prop :=
  match o with
  | SRaw _ _ b => b <> []
  | SSetMax _ _ n => n <= max_limit
  | _ => True
  end.

Lemma good_np_write shard pts q :
  good q -> exists r acc q', np_write shard pts q = (r, acc, q') /\ good q' /\ pending q' = pending q ++ acc.
Proof.
  intros [al [I [Ho Hnb]]].
  destruct (np_write_inv shard pts q al I Ho Hnb) as [r [acc [q' [al' [HW [I' [Ho' [Hnb' [Hp _]]]]]]]]].
  exists r, acc, q'. split; [exact HW|]. split; [exists al'; auto|].
  rewrite (pending_inv _ _ I'), (pending_inv _ _ I). exact Hp.
Qed.

Theorem sstep_ledger s o :
  sgood s -> sop_ok o ->
  exists cn e s', sstep s o = (cn, e, s') /\ sgood s' /\
    forall k, ledger k (pend_of k s) e = Some (pend_of k s').
Proof.
  intros GS Hok. pose proof GS as [Hg Hn].
  assert (Hnone : forall cn : N * Z, exists cn0 e s', (cn, @nil ev, s) = (cn0, e, s') /\ sgood s' /\
            forall k, ledger k (pend_of k s) e = Some (pend_of k s')).
  { intros cn. exists cn, [], s. auto. }
  destruct o as [node shard pts|node shard b|node shard n|node shard m w mid|node shard m ws|node shard old|node shard|active aged|node|];
    cbn [sstep].
  - (* WriteShard *)
    set (k := (node, shard)).
    assert (Hq : exists q, match find k (sv_procs s) with Some q => q | None => q_init (sv_maxsize s) (sv_cap s) end = q /\
                           good q /\ pendl k (sv_procs s) = pending q).
    { unfold pendl. destruct (find k (sv_procs s)) as [q|] eqn:Ef.
      - exists q. split; [reflexivity|]. split; [apply (find_good _ _ _ Hg Ef)|reflexivity].
      - eexists. split; [reflexivity|]. destruct (init_good (sv_maxsize s) (sv_cap s)) as [G P]. split; [exact G|]. symmetry. exact P. }
    destruct Hq as [q [Eq [G Hp]]]. rewrite Eq.
    destruct (good_np_write shard pts q G) as [r [acc [q' [HW [G' Hp']]]]]. rewrite HW.
    destruct (upd_step s k q q' (map (EAccept k) acc) GS G' Hp) as [GS' HL].
    { rewrite ledger_accepts, Hp'. reflexivity. } { apply keys_accepts. }
    eexists _, _, _. split; [reflexivity|]. split; [exact GS'|exact HL].
  - (* raw append *)
    set (k := (node, shard)). destruct (find k (sv_procs s)) as [q|] eqn:Ef; [|apply Hnone].
    pose proof (find_good _ _ _ Hg Ef) as [al [I [Ho Hnb]]].
    destruct (q_append0_inv q al b I Ho Hnb Hok) as [r [segs' [al' [HA [I' [Hnb' [Hp _]]]]]]].
    rewrite HA.
    assert (G' : good (set_segs q segs')) by (exists al'; auto).
    assert (Hpl : pendl k (sv_procs s) = pending q) by (unfold pendl; rewrite Ef; reflexivity).
    destruct (upd_step s k q (set_segs q segs') (match r with Ok => [EAccept k b] | _ => [] end) GS G' Hpl) as [GS' HL].
    { rewrite (pending_inv _ _ I'), (pending_inv _ _ I), Hp.
      destruct r; cbn [rc_eqb ledger]; rewrite ?key_eqb_refl, ?app_nil_r; reflexivity. }
    { destruct r; repeat constructor. }
    eexists _, _, _. split; [reflexivity|]. split; [exact GS'|exact HL].
  - (* SetMaxSegmentSize *)
    set (k := (node, shard)). destruct (find k (sv_procs s)) as [q|] eqn:Ef; [|apply Hnone].
    pose proof (find_good _ _ _ Hg Ef) as [al [I [Ho Hnb]]].
    cbn [sop_ok] in Hok. rewrite max_limit_bnd in Hok.
    destruct (q_set_max_inv q al n I Ho Hok Hnb) as [q' [al' [HM [I' [Hp [Hnb' [Ho' _]]]]]]].
    rewrite HM.
    assert (G' : good q') by (exists al'; auto).
    assert (Hpl : pendl k (sv_procs s) = pending q) by (unfold pendl; rewrite Ef; reflexivity).
    destruct (upd_step s k q q' [] GS G' Hpl) as [GS' HL].
    { cbn. rewrite (pending_inv _ _ I'), (pending_inv _ _ I), Hp. reflexivity. } { constructor. }
    eexists _, _, _. split; [reflexivity|]. split; [exact GS'|exact HL].
  - (* SendWrite *)
    set (k := (node, shard)). destruct (find k (sv_procs s)) as [q|] eqn:Ef; [|apply Hnone].
    pose proof (find_good _ _ _ Hg Ef) as G.
    destruct (send_write_ledger k m w mid q G) as [c [e [q' [HS [G' [HL0 [HK _]]]]]]]. rewrite HS.
    assert (Hpl : pendl k (sv_procs s) = pending q) by (unfold pendl; rewrite Ef; reflexivity).
    destruct (upd_step s k q q' e GS G' Hpl HL0 HK) as [GS' HL].
    eexists _, _, _. split; [reflexivity|]. split; [exact GS'|exact HL].
  - (* retry tick *)
    set (k := (node, shard)). destruct (find k (sv_procs s)) as [q|] eqn:Ef; [|apply Hnone].
    pose proof (find_good _ _ _ Hg Ef) as G.
    destruct (tick_ledger k m ws q G) as [e [q' [HS [G' [HL0 HK]]]]]. rewrite HS.
    assert (Hpl : pendl k (sv_procs s) = pending q) by (unfold pendl; rewrite Ef; reflexivity).
    destruct (upd_step s k q q' e GS G' Hpl HL0 HK) as [GS' HL].
    eexists _, _, _. split; [reflexivity|]. split; [exact GS'|exact HL].
  - (* purge tick *)
    set (k := (node, shard)). destruct (find k (sv_procs s)) as [q|] eqn:Ef; [|apply Hnone].
    pose proof (find_good _ _ _ Hg Ef) as G.
    destruct (age_purge_ledger k old q G) as [e [q' [HS [G' [HL0 HK]]]]]. rewrite HS.
    assert (Hpl : pendl k (sv_procs s) = pending q) by (unfold pendl; rewrite Ef; reflexivity).
    destruct (upd_step s k q q' e GS G' Hpl HL0 HK) as [GS' HL].
    eexists _, _, _. split; [reflexivity|]. split; [exact GS'|exact HL].
  - (* CloseIfEmpty (+ Open) *)
    set (k := (node, shard)). destruct (find k (sv_procs s)) as [q|] eqn:Ef; [|apply Hnone].
    pose proof (find_good _ _ _ Hg Ef) as G.
    assert (Hpl : pendl k (sv_procs s) = pending q) by (unfold pendl; rewrite Ef; reflexivity).
    assert (Hq : exists (closed : bool) (q'' : queue), (let '(c0, q') := np_close_if_empty q in
                  ((if c0 then 1%N else 0%N, 0), @nil ev,
                   set_procs s (upd k (if c0 then snd (q_fresh q') else q') (sv_procs s))))
                 = ((if closed then 1%N else 0%N, 0), [], set_procs s (upd k q'' (sv_procs s))) /\
                 good q'' /\ pending q'' = pending q).
    { unfold np_close_if_empty. destruct G as [al [I [Ho Hnb]]]. rewrite Ho. cbn [negb].
      destruct (q_empty q); cbn [negb].
      - exists true. eexists. split; [reflexivity|]. apply close_then_fresh_good. exists al; auto.
      - exists false, q. split; [reflexivity|]. split; [exists al; auto|reflexivity]. }
    destruct Hq as [closed [q'' [HE [G'' Hp'']]]]. rewrite HE.
    destruct (upd_step s k q q'' [] GS G'' Hpl) as [GS' HL].
    { cbn. rewrite Hp''. reflexivity. } { constructor. }
    eexists _, _, _. split; [reflexivity|]. split; [exact GS'|exact HL].
  - (* purge pass *)
    destruct (sweep_ledger _ (sv_procs s) (pass_entry_ok active aged) Hg Hn) as [l' [e [HS [Hgl [Hnl [_ [_ HL]]]]]]].
    unfold pass. rewrite HS. eexists _, _, _. split; [reflexivity|]. split; [split; assumption|exact HL].
  - (* RemoveNode *)
    destruct (sweep_ledger _ (sv_procs s) (remove_entry_ok node) Hg Hn) as [l' [e [HS [Hgl [Hnl [_ [_ HL]]]]]]].
    unfold remove_node. rewrite HS. eexists _, _, _. split; [reflexivity|]. split; [split; assumption|exact HL].
  - (* restart *)
    destruct (restart_map (sv_procs s) Hg Hn) as [Hgl [Hnl Hp]].
    eexists _, _, _. split; [reflexivity|]. split; [split; assumption|].
    intros k. cbn [ledger]. rewrite !pend_of_pendl. cbn [sv_procs set_procs]. rewrite Hp. reflexivity.
Qed.

Lemma svc_init_good maxsize cap : sgood (svc_init maxsize cap).
Proof. split; cbn; constructor. Qed.

(* THE THEOREM: for every sequence of operations and every oracle, per (node, shard) queue, the
   ledger accepts the events and ends with exactly the blocks still pending *)
Theorem srun_ledger ops : forall s,
  sgood s -> Forall sop_ok ops ->
  exists e s', srun s ops = (e, s') /\ sgood s' /\
    forall k, ledger k (pend_of k s) e = Some (pend_of k s').
Proof.
  induction ops as [|o ops IH]; intros s GS Hok.
  - exists [], s. auto.
  - inversion Hok as [|? ? Ho Hops]; subst.
    destruct (sstep_ledger s o GS Ho) as [cn [e [s1 [HS [GS1 HL1]]]]].
    destruct (IH s1 GS1 Hops) as [e2 [s2 [HR [GS2 HL2]]]].
    cbn [srun]. rewrite HS, HR. exists (e ++ e2), s2. split; [reflexivity|]. split; [exact GS2|].
    intros k. rewrite ledger_app, HL1. apply HL2.
Qed.

Corollary consumer_ledger maxsize cap ops k :
  Forall sop_ok ops ->
  ledger k [] (fst (srun (svc_init maxsize cap) ops)) = Some (pend_of k (snd (srun (svc_init maxsize cap) ops))).
Proof.
  intros Hok. destruct (srun_ledger ops _ (svc_init_good maxsize cap) Hok) as [e [s' [HR [_ HL]]]].
  rewrite HR. cbn [fst snd]. apply (HL k).
Qed.

(* ---------- what the ledger means (pure list facts about [ledger]) ---------- *)
Lemma blocks_prefix_eq a : forall p, blocks_prefix a p = true -> p = a ++ skipn (length a) p.
Proof.
  induction a as [|x a IH]; intros p H; [reflexivity|].
  destruct p as [|y p]; cbn [blocks_prefix] in H; [discriminate|].
  apply andb_true_iff in H. destruct H as [H1 H2].
  assert (x = y).
  { clear - H1. revert y H1. induction x as [|c x IHx]; intros [|d y] H; cbn in H; try discriminate; [reflexivity|].
    apply andb_true_iff in H. destruct H as [Hc Hx]. apply N.eqb_eq in Hc. subst. f_equal. apply IHx. exact Hx. }
  subst y. cbn [length skipn app]. f_equal. apply IH. exact H2.
Qed.

Lemma bytes_eqb_eq x : forall y, bytes_eqb x y = true -> x = y.
Proof.
  induction x as [|c x IHx]; intros [|d y] H; cbn in H; try discriminate; [reflexivity|].
  apply andb_true_iff in H. destruct H as [Hc Hx]. apply N.eqb_eq in Hc. subst. f_equal. apply IHx. exact Hx.
Qed.

(* (a)+(b): every accepted block is, in acceptance order, either released (by a writer answer that
   is not a retryable error, or by a drop that names its reason) or still pending *)
Theorem ledger_accounts k evs : forall p p',
  ledger k p evs = Some p' -> p ++ accepted k evs = released k evs ++ p'.
Proof.
  unfold accepted, released.
  induction evs as [|e evs IH]; intros p p' H.
  - cbn in *. inversion H. rewrite app_nil_r. reflexivity.
  - destruct e as [k' b|k' b w|k' bs f]; cbn [ledger accepted released flat_map] in *.
    + destruct (key_eqb k k').
      * apply IH in H. rewrite <- app_assoc in H. exact H.
      * apply IH in H. exact H.
    + destruct (key_eqb k k'); [|apply IH in H; exact H].
      destruct p as [|h t]; [discriminate|].
      destruct (bytes_eqb h b && um_ok b) eqn:E; [|discriminate].
      apply andb_true_iff in E. destruct E as [E _]. apply bytes_eqb_eq in E. subst h.
      destruct w; apply IH in H; cbn [app] in *; first [exact H|f_equal; exact H].
    + destruct (key_eqb k k'); [|apply IH in H; exact H].
      destruct (blocks_prefix bs p && fate_ok f bs p) eqn:E; [|discriminate].
      apply andb_true_iff in E. destruct E as [E _]. apply blocks_prefix_eq in E.
      apply IH in H. rewrite E at 1. rewrite <- !app_assoc. f_equal. exact H.
Qed.

(* (b)+(d): the blocks handed to the writer, in call order, are the accepted blocks in acceptance
   order with some left out (dropped or still pending) and only IMMEDIATE repetitions: a block is
   sent again only while it is the oldest pending one, never after a later block was sent *)
Inductive stutter : list block -> list block -> Prop :=
| st_nil l : stutter [] l
| st_skip s a l : stutter s l -> stutter s (a :: l)
| st_again s a l : stutter s (a :: l) -> stutter (a :: s) (a :: l)
| st_last s a l : stutter s l -> stutter (a :: s) (a :: l).

Lemma stutter_skipn n : forall s l, stutter s (skipn n l) -> stutter s l.
Proof.
  induction n as [|n IH]; intros s l H; [exact H|].
  destruct l as [|a l]; [exact H|]. apply st_skip. apply IH. exact H.
Qed.

Theorem sent_in_acceptance_order k evs : forall p p',
  ledger k p evs = Some p' -> stutter (sent k evs) (p ++ accepted k evs).
Proof.
  unfold accepted, sent.
  induction evs as [|e evs IH]; intros p p' H; [apply st_nil|].
  destruct e as [k' b|k' b w|k' bs f]; cbn [ledger accepted sent flat_map] in *.
  - destruct (key_eqb k k'); cbn [app].
    + apply IH in H. rewrite <- app_assoc in H. exact H.
    + apply IH in H. exact H.
  - destruct (key_eqb k k'); [|apply IH in H; exact H].
    destruct p as [|h t]; [discriminate|].
    destruct (bytes_eqb h b && um_ok b) eqn:E; [|discriminate].
    apply andb_true_iff in E. destruct E as [E _]. apply bytes_eqb_eq in E. subst h.
    cbn [app]. destruct w; apply IH in H; first [apply st_last; exact H|apply st_again; exact H].
  - destruct (key_eqb k k'); [|apply IH in H; exact H]. cbn [app].
    destruct (blocks_prefix bs p && fate_ok f bs p) eqn:E; [|discriminate].
    apply IH in H. apply (stutter_skipn (length bs)).
    apply andb_true_iff in E. destruct E as [E _].
    pose proof (blocks_prefix_eq _ _ E) as Ep.
    match goal with |- stutter _ (skipn _ (p ++ ?A)) =>
      assert (Hs : skipn (length bs) (p ++ A) = skipn (length bs) p ++ A)
        by (rewrite Ep at 1; rewrite <- app_assoc, skipn_app_exact; reflexivity);
      rewrite Hs end. exact H.
Qed.

(* ---------- the old shapes of SendWrite, refuted ---------- *)
Definition pA : bytes := [0;0;0;1;109;0;0;0;1;118]%N.
Definition pB : bytes := [0;0;0;1;110;0;0;0;1;119]%N.

(* 499fabe: Current = io.EOF handled with Advance.  A block appended between Current and Advance
   is skipped without having been sent: the queue is empty, the ledger rejects. *)
Lemma eof_with_advance_refuted_l :
  let k := (2, 7)%N in
  let q0 := q_init 1048576 1024 in
  let q1 := snd (np_write 7 [pA] q0) in
  let q2 := snd (send_write_with good_shape k MActive WAck [] q1) in
  let '(c, e, q3) := send_write_with (mkShape 2 1 1 true false) k MActive WAck [pB] q2 in
  pending q2 = [] /\ pending q3 = [] /\ accepted k e = [marshal_write 7 [pB]] /\ sent k e = [] /\
  ledger k [] e = None /\
  (* the code as it is: the block stays *)
  pending (snd (send_write_with good_shape k MActive WAck [pB] q2)) = [marshal_write 7 [pB]].
Proof. vm_compute. repeat split. Qed.

(* advancing after a retryable error / advancing before the write loses the block in flight *)
Lemma advance_on_retry_refuted_l :
  let k := (2, 7)%N in
  let q1 := snd (np_write 7 [pA] (q_init 1048576 1024)) in
  let '(_, e1, r1) := send_write_with (mkShape 2 3 1 false false) k MActive WRetry [] q1 in
  let '(_, e2, r2) := send_write_with (mkShape 2 3 1 true true) k MActive WRetry [] q1 in
  pending q1 = [marshal_write 7 [pA]] /\ pending r1 = [] /\ pending r2 = [] /\
  ledger k (pending q1) e1 = None /\ ledger k (pending q1) e2 = None /\
  pending (snd (send_write_with good_shape k MActive WRetry [] q1)) = pending q1.
Proof. vm_compute. repeat split. Qed.

(* an unmarshal error handled with Truncate drops the good blocks behind the bad one *)
Lemma truncate_on_unmarshal_refuted_l :
  let k := (2, 7)%N in
  let q1 := snd (appends (q_init 1048576 1024) [[1;2;3]%N; marshal_write 7 [pA]]) in
  let '(_, e, r) := send_write_with (mkShape 2 3 2 true false) k MActive WAck [] q1 in
  pending q1 = [[1;2;3]%N; marshal_write 7 [pA]] /\ pending r = [] /\ ledger k (pending q1) e = None.
Proof. vm_compute. repeat split. Qed.

(* ---------- the statements Props.v closes ---------- *)
Lemma consumer_accounts maxsize cap ops k :
  Forall sop_ok ops ->
  let '(evs, s) := srun (svc_init maxsize cap) ops in
  accepted k evs = released k evs ++ pend_of k s /\ stutter (sent k evs) (accepted k evs).
Proof.
  intros Hok. pose proof (consumer_ledger maxsize cap ops k Hok) as H.
  destruct (srun (svc_init maxsize cap) ops) as [evs s]. cbn [fst snd] in H.
  split; [apply (ledger_accounts k evs [] _ H)|apply (sent_in_acceptance_order k evs [] _ H)].
Qed.

Lemma reachable_processors_good maxsize cap ops k q :
  Forall sop_ok ops -> find k (sv_procs (snd (srun (svc_init maxsize cap) ops))) = Some q -> good q.
Proof.
  intros Hok Hf. destruct (srun_ledger ops _ (svc_init_good maxsize cap) Hok) as [e [s' [HR [[Hg _] _]]]].
  rewrite HR in Hf. cbn [snd] in Hf. apply (find_good _ _ _ Hg Hf).
Qed.

Lemma send_write_quiet k m w mid q :
  good q -> quiet w m = true ->
  let q' := snd (send_write k m w mid q) in
  exists acc, pending q' = pending q ++ acc \/
    exists b, hd_error (pending q) = Some b /\ (um_ok b = false \/ zlen b > qmaxseg q).
Proof.
  intros G Hq. destruct (send_write_ledger k m w mid q G) as [c [e [q' [HS [_ [_ [_ H]]]]]]].
  rewrite HS. cbn [snd]. apply H. exact Hq.
Qed.

(* fa83cce: the purger decided on a stale Empty() and then called Close + Purge.  A write accepted
   between the two is in a queue that the stale decision removes; CloseIfEmpty (the check and the
   close in ONE critical section of n.mu) refuses. *)
Lemma stale_empty_check_refuted_l :
  let q := q_init 1048576 1024 in
  let q1 := snd (np_write 7 [pA] q) in
  q_empty q = true /\ pending q1 = [marshal_write 7 [pA]] /\
  pending (snd (q_close q1)) = [marshal_write 7 [pA]] /\   (* what Close + Purge would delete *)
  np_close_if_empty q1 = (false, q1).
Proof. vm_compute. repeat split. Qed.
