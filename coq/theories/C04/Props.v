(* C04/Props.v — property theorems only: each is closed by [exact] of a lemma proved in
   Proofs*.v and followed by Print Assumptions.
   Vocabulary (Model.v / Spec.v): [q_init maxsize cap] = queue object created and opened on an
   empty directory; [run q ops] / [trace q ops] = state / per-call observations after a sequence
   of calls (Append with any block and any number of concurrent writers, Current, Advance,
   advanceSegment, Truncate, SetMaxSegmentSize, PurgeOlderThan with any ages, Close, Open, a new
   process on the same directory); [spec_run] = the FIFO specification judging a trace;
   [pending q] = the blocks the state holds, read back by an independent frame parser;
   [reachable q st] = q is reached by a sequence the specification judges, ending in spec state st. *)
From Verif Require Import Lib.Bytes C04.Model C04.Spec C04.Drain C04.Proofs.
From VerifGen Require Import Consts.
Open Scope Z_scope.

(* For EVERY sequence of calls, the FIFO specification never finds a violation in what the
   model observes: accepted blocks come back from Current in the order accepted, Advance
   releases exactly the block Current shows, Empty() is true exactly when nothing is pending,
   the directory holds every pending block except at most the ones still buffered, across
   segment rollover, size changes, close/reopen and process restart.  (The spec declines to judge
   - ROutOfScope - only for: empty blocks, limits above 2^62-8, and size change / purge /
   truncate / restart-without-Close issued while acknowledged appends may still be buffered.) *)
Theorem model_never_violates_fifo_spec :
  forall maxsize cap ops k,
    spec_run 0 spec_init (trace (q_init maxsize cap) ops) <> RViolation k.
Proof. exact never_violates. Qed.
Print Assumptions model_never_violates_fifo_spec.

(* ... and the blocks the model state holds are exactly the spec's FIFO content. *)
Theorem queue_refines_fifo :
  forall maxsize cap ops st,
    spec_run 0 spec_init (trace (q_init maxsize cap) ops) = ROk st ->
    pending (run (q_init maxsize cap) ops) = s_pend st.
Proof. exact refines_fifo. Qed.
Print Assumptions queue_refines_fifo.

(* Reads return the head of the FIFO; the error cases say why nothing was returned. *)
Theorem reads_return_head :
  forall q st r b q',
    reachable q st -> q_current q = (r, b, q') ->
    match r with
    | Ok => exists rest, pending q = b :: rest
    | EOF => seg_visible (hd dseg (qsegs q)) = []
    | Other => exists b0 rest, pending q = b0 :: rest /\ zlen b0 > qmaxseg q
    | NotOpen => qopen q = false
    | _ => False
    end.
Proof. exact reachable_current. Qed.
Print Assumptions reads_return_head.

(* Advance releases exactly the head block, or nothing when the head segment is exhausted. *)
Theorem advance_releases_head :
  forall q st,
    reachable q st -> qopen q = true ->
    exists q', q_advance q = (Ok, q') /\
      (if head_exhausted q then pending q' = pending q
       else pending q = hd [] (pending q) :: pending q' /\ pending q <> []).
Proof. exact reachable_advance. Qed.
Print Assumptions advance_releases_head.

(* The send loop of NodeProcessor.SendWrite against an acknowledging target (Current; Advance on
   success; advanceSegment on io.EOF) delivers exactly the pending blocks, in the order accepted,
   then reports EOF - from any judged state with nothing buffered and no block above the limit. *)
Theorem send_loop_delivers_pending_in_order :
  forall q st fuel,
    reachable q st -> qopen q = true -> s_nbuf st = 0%nat ->
    Forall (fun b => zlen b <= qmaxseg q) (pending q) ->
    (length (pending q) + length (qsegs q) <= fuel)%nat ->
    drain fuel q [] = (pending q, EOF).
Proof. exact drain_reachable. Qed.
Print Assumptions send_loop_delivers_pending_in_order.

Theorem empty_iff_nothing_pending :
  forall q st, reachable q st -> qopen q = true -> (q_empty q = true <-> pending q = []).
Proof. exact reachable_empty. Qed.
Print Assumptions empty_iff_nothing_pending.

(* WriteShard, for every batch, limit and Append oracle: the blocks handed to the queue are
   the batch in order (all of it when nil is returned), no block is empty or above the limit,
   and ErrSegmentFull means the next point alone does not fit. *)
Theorem split_preserves_points :
  forall (A : Type) (sz : A -> Z) (limit : Z) (accept : nat -> bool) (pts : list A),
    let '(blocks, out) := write_shard sz limit accept pts in
    (exists rest, pts = concat blocks ++ rest /\
       match out with
       | WsOk => rest = []
       | WsSegFull => exists p r, rest = p :: r /\ block_len sz [p] > limit
       | WsAppendErr => True
       end) /\
    Forall (fun blk => blk <> [] /\ block_len sz blk <= limit) blocks.
Proof. exact (@write_shard_spec). Qed.
Print Assumptions split_preserves_points.

(* [block_len] is the length of the real marshalWrite image, which is never empty *)
Theorem marshal_write_length_is_block_len :
  forall shard pts, zlen (marshal_write shard pts) = block_len zlen pts /\ marshal_write shard pts <> [].
Proof. intros shard pts. split; [exact (marshal_write_length shard pts)|exact (marshal_write_nonempty shard pts)]. Qed.
Print Assumptions marshal_write_length_is_block_len.

(* unmarshalWrite on ANY byte string: every slice it takes is in range (the model reads through
   checked [take]s and has no other outcome), what it accepts is a sequence of well-framed
   points, and the loop's fuel (length+1) is never the reason it stops. *)
Theorem unmarshal_never_crash :
  forall b,
    match unmarshal_write b with
    | UmOk shard pts => exists hdr body, b = hdr ++ body /\ length hdr = 8%nat /\
                                        shard = be_dec hdr /\ framed4 body pts
    | UmTooShort => (length b < 8)%nat
    | UmShortBuffer _ _ => (8 <= length b)%nat
    end.
Proof. exact unmarshal_write_inv. Qed.
Print Assumptions unmarshal_never_crash.

Theorem unmarshal_fuel_independent :
  forall f1 f2 b acc, (length b < f1)%nat -> (length b < f2)%nat ->
    unmarshal_points f1 b acc = unmarshal_points f2 b acc.
Proof. exact unmarshal_points_fuel. Qed.
Print Assumptions unmarshal_fuel_independent.

Theorem marshal_unmarshal_roundtrip :
  forall shard pts,
    (shard < 18446744073709551616)%N ->
    Forall (fun p => (N.of_nat (length p) < 4294967296)%N) pts ->
    unmarshal_write (marshal_write shard pts) = UmOk shard pts.
Proof. exact marshal_unmarshal_roundtrip_l. Qed.
Print Assumptions marshal_unmarshal_roundtrip.

(* Crash inside a non-buffered Append that fits the tail segment.  PARTIAL: proved for cuts
   that leave the old footer intact (c = 0) or the new footer complete (c = whole write);
   for the cuts in between see reopen_keeps_acked_refuted. *)
Theorem reopen_keeps_acked_partial :
  forall q al b c,
    inv q al -> qopen q = true -> Forall nobuf al -> nonempty b ->
    let st := last (qsegs q) dseg in
    ssize st + zlen b <= qmaxseg q ->
    (c = 0 \/ c = length (append_data st b))%nat ->
    let img := files_of (removelast (qsegs q)) ++
               [(sid st, torn (sfile st) (append_off st) (append_data st b) c)] in
    exists q', q_open (new_queue img (qmaxsize q) (qcap q)) = (Ok, q') /\
               (pending q' = pending q \/ pending q' = pending q ++ [b]).
Proof. exact reopen_after_append_partial. Qed.
Print Assumptions reopen_keeps_acked_partial.

(* every state the spec judges satisfies the premises [inv]/[nobuf] when nothing is buffered *)
Theorem reachable_states_are_represented :
  forall q st, reachable q st -> exists al, inv q al /\ link q al st.
Proof. exact reachable_inv. Qed.
Print Assumptions reachable_states_are_represented.

(* [append_data]/[append_off] is the write the model of segment.append performs *)
Theorem append_write_is_the_models :
  forall id m d t st b,
    seg_rep id m d t [] st -> nonempty b -> m <= bnd - 8 -> ssize st + zlen b <= m ->
    exists st', seg_append st b false = (Ok, st') /\
                sfile st' = pwrite (sfile st) (append_off st) (append_data st b).
Proof. exact append_inflight_write. Qed.
Print Assumptions append_write_is_the_models.

(* the faithful model refutes the full crash property: two acknowledged blocks, a third in
   flight, 8 bytes of its write on disk: a new process can read neither acknowledged block *)
Theorem reopen_keeps_acked_refuted :
  exists ops b c,
    let q := run (q_init 1048576 1024) ops in
    let st := last (qsegs q) dseg in
    let img := files_of (removelast (qsegs q)) ++ [(sid st, torn (sfile st) (append_off st) (append_data st b) c)] in
    (exists stp, spec_run 0 spec_init (trace (q_init 1048576 1024) ops) = ROk stp) /\
    (0 < c < length (append_data st b))%nat /\
    pending q = [wA; wB] /\
    read_dir img 1048576 1024 = ([], Other).
Proof. exact torn_append_refuted. Qed.
Print Assumptions reopen_keeps_acked_refuted.

(* Crash inside Advance (footer rewritten in place): PARTIAL in the same way. *)
Theorem reopen_after_advance_keeps_acked_partial :
  forall q al c,
    inv q al -> qopen q = true -> Forall nobuf al -> head_exhausted q = false ->
    let st := hd dseg (qsegs q) in
    (c = 0 \/ c = 8)%nat ->
    let img := (sid st, torn (sfile st) (append_off st) (advance_data st) c) :: files_of (tl (qsegs q)) in
    exists q', q_open (new_queue img (qmaxsize q) (qcap q)) = (Ok, q') /\
               (pending q' = pending q \/ pending q = hd [] (pending q) :: pending q').
Proof. exact reopen_after_advance_partial. Qed.
Print Assumptions reopen_after_advance_keeps_acked_partial.

Theorem reopen_after_advance_keeps_acked_refuted :
  exists ops c,
    let q := run (q_init 1048576 1024) ops in
    let st := hd dseg (qsegs q) in
    let img := (sid st, torn (sfile st) (append_off st) (advance_data st) c) :: files_of (tl (qsegs q)) in
    (exists stp, spec_run 0 spec_init (trace (q_init 1048576 1024) ops) = ROk stp) /\
    (0 < c < 8)%nat /\
    pending q = [wD; wE] /\
    read_dir img 1048576 1024 = ([], EOF).
Proof. exact torn_advance_refuted. Qed.
Print Assumptions reopen_after_advance_keeps_acked_refuted.

(* Crash around the removal of a consumed head segment: with or without the file, nothing is lost. *)
Theorem reopen_after_trim_keeps_acked :
  forall q al,
    inv q al -> qopen q = true -> Forall nobuf al -> (2 <= length (qsegs q))%nat ->
    head_exhausted q = true ->
    exists q1 q2,
      q_open (new_queue (files_of (qsegs q)) (qmaxsize q) (qcap q)) = (Ok, q1) /\
      q_open (new_queue (files_of (tl (qsegs q))) (qmaxsize q) (qcap q)) = (Ok, q2) /\
      pending q1 = pending q /\ pending q2 = pending q.
Proof. exact reopen_after_trim. Qed.
Print Assumptions reopen_after_trim_keeps_acked.

(* the two defects repaired by fix: commits, kept as checked refutations of the pinned tree *)
Theorem empty_by_file_cursor_refuted :
  exists ops,
    let q := run (q_init 1048576 1024) ops in
    q_empty_cursor q = true /\ pending q = [wB; wC] /\ q_empty q = false.
Proof. exact empty_cursor_refuted. Qed.
Print Assumptions empty_by_file_cursor_refuted.

Theorem close_dropping_buffer_refuted :
  exists ops,
    let q := run (q_init 1048576 1024) ops in
    let st := last (qsegs q) dseg in
    pending q = [wA; wB] /\
    disk_file_blocks (sfile (snd (seg_close_with false st))) = [] /\
    disk_file_blocks (sfile (snd (seg_close_with true st))) = [wA; wB].
Proof. exact close_without_flush_refuted. Qed.
Print Assumptions close_dropping_buffer_refuted.

(* the executable split check of Spec.v accepts the model's WriteShard for every batch *)
Theorem split_spec_accepts_model :
  forall (A : Type) (sz : A -> Z) limit (eqb : A -> A -> bool), (forall a, eqb a a = true) ->
  forall accept pts,
    let '(blocks, out) := write_shard sz limit accept pts in
    split_ok sz limit eqb pts blocks (match out with WsOk => true | _ => false end) = true.
Proof. exact (@split_ok_model). Qed.
Print Assumptions split_spec_accepts_model.

(* ====================== the CONSUMER of the queue (Drain.v) ======================
   Vocabulary: [svc] = the processor map (node, shard) -> processor of hh.Service; [sstep]/[srun] =
   one / a sequence of operations: Service.WriteShard, NodeProcessor.SendWrite under every answer
   of metaClient.DataNode (node / unknown / error) and of shardWriter.WriteShardBinary (ack / shard
   gone / retryable error / permanent rejection) with an optional concurrent WriteShard between
   queue.Current and the next queue call, the retry tick of run (SendWrite until an error), the
   purge tick (PurgeOlderThan, ages as oracle), CloseIfEmpty, one pass of
   purgeInactiveProcessors (known nodes and aged queues as oracles), RemoveNode, restart, and two
   test hooks (raw Append, SetMaxSegmentSize).  Every step returns EVENTS (accept / writer call /
   drop with its reason); [ledger k pend evs] replays the events of queue k on a FIFO and answers
   None at the first event the property forbids (Drain.v, bottom).  [sop_ok]: a raw block is
   non-empty and a segment limit is <= 2^62-8. *)

(* For EVERY sequence of operations and every oracle, per (node, shard) queue: the ledger accepts
   all events and ends with exactly the blocks still pending.  So a writer call is always for the
   OLDEST pending block; a block leaves the queue only by a writer answer that is not a retryable
   error (delivered / shard gone / permanently rejected) or by a drop of a prefix that names a
   documented reason (undecodable: exactly that one block, which unmarshalWrite rejects; corrupt
   or oversized record: Truncate; segment older than max-age; node removed / node unknown with
   aged data: the whole queue); nothing else ever removes a block. *)
Theorem consumer_events_satisfy_ledger :
  forall maxsize cap ops k,
    Forall sop_ok ops ->
    ledger k [] (fst (srun (svc_init maxsize cap) ops))
    = Some (pend_of k (snd (srun (svc_init maxsize cap) ops))).
Proof. exact consumer_ledger. Qed.
Print Assumptions consumer_events_satisfy_ledger.

(* (a)+(b)+(d) spelled out: the accepted blocks of a queue are, in acceptance order, the released
   ones followed by the pending ones; and the blocks handed to the writer, in call order, are the
   accepted ones in acceptance order with omissions and only IMMEDIATE repetitions (a block is
   re-sent only while it is the oldest pending one, never after a later block was sent). *)
Theorem consumer_accounts_for_every_block_in_order :
  forall maxsize cap ops k,
    Forall sop_ok ops ->
    let '(evs, s) := srun (svc_init maxsize cap) ops in
    accepted k evs = released k evs ++ pend_of k s /\ stutter (sent k evs) (accepted k evs).
Proof. exact consumer_accounts. Qed.
Print Assumptions consumer_accounts_for_every_block_in_order.

(* the same two facts for ANY event list the ledger accepts (what the ledger means) *)
Theorem ledger_means_fifo_accounting :
  forall k evs p p', ledger k p evs = Some p' -> p ++ accepted k evs = released k evs ++ p'.
Proof. exact ledger_accounts. Qed.
Print Assumptions ledger_means_fifo_accounting.

Theorem ledger_means_in_order_sends :
  forall k evs p p', ledger k p evs = Some p' -> stutter (sent k evs) (p ++ accepted k evs).
Proof. exact sent_in_acceptance_order. Qed.
Print Assumptions ledger_means_in_order_sends.

(* every processor reached by any operation sequence satisfies the premise [good] used below *)
Theorem reachable_processors_are_good :
  forall maxsize cap ops k q,
    Forall sop_ok ops -> find k (sv_procs (snd (srun (svc_init maxsize cap) ops))) = Some q -> good q.
Proof. exact reachable_processors_good. Qed.
Print Assumptions reachable_processors_are_good.

(* (c) SendWrite that ends in a retryable writer error, finds the node unknown, or gets a meta
   error removes NOTHING (blocks of a concurrent WriteShard are appended), unless the oldest block
   is undecodable or larger than the segment limit (the two documented skips, taken before any write). *)
Theorem retryable_failure_never_removes_a_block :
  forall k m w mid q,
    good q -> quiet w m = true ->
    let q' := snd (send_write k m w mid q) in
    exists acc, pending q' = pending q ++ acc \/
      exists b, hd_error (pending q) = Some b /\ (um_ok b = false \/ zlen b > qmaxseg q).
Proof. exact send_write_quiet. Qed.
Print Assumptions retryable_failure_never_removes_a_block.

(* (e) CloseIfEmpty never closes a processor that holds a block ... *)
Theorem close_if_empty_never_closes_pending :
  forall q closed q',
    good q -> np_close_if_empty q = (closed, q') -> pending q <> [] -> closed = false /\ q' = q.
Proof. exact close_if_empty_keeps. Qed.
Print Assumptions close_if_empty_never_closes_pending.

(* ... and a pass of purgeInactiveProcessors keeps a processor untouched or removes it; it removes
   one that holds blocks only when the node is unknown to the meta data AND its data is aged, and
   then records every block with that reason. *)
Theorem purge_pass_removes_only_empty_or_inactive_aged :
  forall active aged k q,
    good q ->
    match pass_entry active aged k q with
    | (Some q', e) => q' = q /\ e = []
    | (None, e) => ledger k (pending q) e = Some [] /\ Forall (fun x => ev_key x = k) e /\
                   (pending q <> [] -> existsb (N.eqb (fst k)) active = false /\ existsb (key_eqb k) aged = true)
    end.
Proof. exact pass_entry_ledger. Qed.
Print Assumptions purge_pass_removes_only_empty_or_inactive_aged.

(* the age purge discards nothing when the head segment is not older than the limit, whatever
   the ages of the segments behind it *)
Theorem age_purge_spares_queue_with_young_head :
  forall k old q h tl,
    qsegs q = h :: tl -> existsb (N.eqb (sid h)) old = false -> age_purge k old q = ([], q).
Proof. exact age_purge_young_head. Qed.
Print Assumptions age_purge_spares_queue_with_young_head.

(* RemoveNode(n) leaves the processors of every other node as they are *)
Theorem remove_node_keeps_other_nodes :
  forall node l k q, fst k <> node -> find k l = Some q -> find k (fst (remove_node node l)) = Some q.
Proof. exact remove_node_scoped. Qed.
Print Assumptions remove_node_keeps_other_nodes.

(* the structure of the source the model follows, re-read by tools/genconsts on every run *)
Theorem send_write_shape_is_the_sources : c04_shape = good_shape.
Proof. exact c04_shape_ok. Qed.
Print Assumptions send_write_shape_is_the_sources.

Theorem consumer_structure_is_the_sources :
  c04_sw_write_then_advance = true /\ c04_sw_branches_return = true /\ c04_sw_inactive_is_eof = true /\
  c04_run_loops_until_error = true /\ c04_run_purges_by_max_age = true /\
  c04_close_if_empty_one_section = true /\ c04_purge_pass_shape = true /\ c04_remove_node_scoped = true /\
  c04_writer_drops_unknown_shard = true /\ c04_permanent_errors_are_conflict_and_partial = true.
Proof. exact consumer_structure_facts. Qed.
Print Assumptions consumer_structure_is_the_sources.

(* the shapes SendWrite must not have, refuted on the model (witnesses replayed on the real code by
   the designed harness cases; the first is the race repaired by commit 499fabe) *)
Theorem eof_handled_with_advance_refuted :
  let k := (2, 7)%N in
  let q0 := q_init 1048576 1024 in
  let q1 := snd (np_write 7 [pA] q0) in
  let q2 := snd (send_write_with good_shape k MActive WAck [] q1) in
  let '(c, e, q3) := send_write_with (mkShape 2 1 1 true false) k MActive WAck [pB] q2 in
  pending q2 = [] /\ pending q3 = [] /\ accepted k e = [marshal_write 7 [pB]] /\ sent k e = [] /\
  ledger k [] e = None /\
  pending (snd (send_write_with good_shape k MActive WAck [pB] q2)) = [marshal_write 7 [pB]].
Proof. exact eof_with_advance_refuted_l. Qed.
Print Assumptions eof_handled_with_advance_refuted.

Theorem advance_on_retry_or_before_write_refuted :
  let k := (2, 7)%N in
  let q1 := snd (np_write 7 [pA] (q_init 1048576 1024)) in
  let '(_, e1, r1) := send_write_with (mkShape 2 3 1 false false) k MActive WRetry [] q1 in
  let '(_, e2, r2) := send_write_with (mkShape 2 3 1 true true) k MActive WRetry [] q1 in
  pending q1 = [marshal_write 7 [pA]] /\ pending r1 = [] /\ pending r2 = [] /\
  ledger k (pending q1) e1 = None /\ ledger k (pending q1) e2 = None /\
  pending (snd (send_write_with good_shape k MActive WRetry [] q1)) = pending q1.
Proof. exact advance_on_retry_refuted_l. Qed.
Print Assumptions advance_on_retry_or_before_write_refuted.

Theorem truncate_on_unmarshal_error_refuted :
  let k := (2, 7)%N in
  let q1 := snd (appends (q_init 1048576 1024) [[1;2;3]%N; marshal_write 7 [pA]]) in
  let '(_, e, r) := send_write_with (mkShape 2 3 2 true false) k MActive WAck [] q1 in
  pending q1 = [[1;2;3]%N; marshal_write 7 [pA]] /\ pending r = [] /\ ledger k (pending q1) e = None.
Proof. exact truncate_on_unmarshal_refuted_l. Qed.
Print Assumptions truncate_on_unmarshal_error_refuted.

(* the race repaired by commit fa83cce: a decision taken on a stale Empty() would delete a queue
   that accepted a write in between; CloseIfEmpty refuses to close it *)
Theorem stale_empty_check_refuted :
  let q := q_init 1048576 1024 in
  let q1 := snd (np_write 7 [pA] q) in
  q_empty q = true /\ pending q1 = [marshal_write 7 [pA]] /\
  pending (snd (q_close q1)) = [marshal_write 7 [pA]] /\
  np_close_if_empty q1 = (false, q1).
Proof. exact stale_empty_check_refuted_l. Qed.
Print Assumptions stale_empty_check_refuted.

(* ---------- non-vacuity ---------- *)

(* a judged sequence with rollover, buffered appends, close, restart: 3 blocks pending at the end *)
Example fifo_nonvacuous :
  let ops := [OSetMax 60; OAppend wA 0 0; OAppend (repeat 9%N 40) 0 0; OAppend wB 9 5; OAppend wC 9 5;
              OCurrent; OAdvance; OClose; OFresh; OCurrent] in
  exists st, spec_run 0 spec_init (trace (q_init 1048576 1024) ops) = ROk st /\
             s_pend st = [repeat 9%N 40; wB; wC] /\
             length (qsegs (run (q_init 1048576 1024) ops)) = 2%nat.
Proof. eexists. vm_compute. repeat split. Qed.

Example split_nonvacuous :
  write_shard (fun z : Z => z) 100 (fun _ => true) [30; 30; 30; 90; 200]
  = ([[30; 30]; [30]], WsSegFull).
Proof. vm_compute. reflexivity. Qed.

Example roundtrip_nonvacuous :
  unmarshal_write (marshal_write 7 [[1;2;3]; []; [9]]%N) = UmOk 7%N [[1;2;3]; []; [9]]%N.
Proof. vm_compute. reflexivity. Qed.

Example crash_partial_nonvacuous :
  let q := run (q_init 1048576 1024) [OAppend wA 0 0; OAppend wB 0 0] in
  exists al, inv q al /\ qopen q = true /\ Forall nobuf al /\
             ssize (last (qsegs q) dseg) + zlen wC <= qmaxseg q.
Proof.
  destruct (reachable_inv (run (q_init 1048576 1024) [OAppend wA 0 0; OAppend wB 0 0])
              (mkS [wA; wB] 0 true c04_default_segment_size)) as [al [I L]].
  { exists 1048576, 1024, [OAppend wA 0 0; OAppend wB 0 0]. split; vm_compute; reflexivity. }
  exists al. split; [exact I|]. split; [vm_compute; reflexivity|]. split.
  - apply nbuf0_nobuf. pose proof (lk_nbuf _ _ _ L) as H. cbn in H. lia.
  - vm_compute. discriminate.
Qed.

(* a service run with two queues, a retry, a permanent rejection, an undecodable block, a write
   during a send, node removal and a restart: the ledger accepts and a block is still pending *)
Example consumer_nonvacuous :
  let ops := [SWrite 2 7 [pA]; SWrite 2 7 [pB]; SWrite 3 7 [pA]; SRaw 2 7 [1;2;3]%N;
              SSend 2 7 MActive WRetry []; SSend 2 7 MActive WAck [pB]; STick 2 7 MActive [WPerm; WAck];
              SRemoveNode 3; SRestart; SSend 2 7 MInactive WAck []] in
  Forall sop_ok ops /\
  ledger (2, 7)%N [] (fst (srun (svc_init 1048576 1024) ops)) = Some [marshal_write 7 [pB]] /\
  length (released (2, 7)%N (fst (srun (svc_init 1048576 1024) ops))) = 3%nat /\
  released (3, 7)%N (fst (srun (svc_init 1048576 1024) ops)) = [marshal_write 7 [pA]].
Proof. split; [repeat constructor; discriminate|vm_compute; repeat split]. Qed.
