(* C04/Props.v — property theorems only: each is closed by [exact] of a lemma proved in
   Proofs*.v and followed by Print Assumptions.
   Vocabulary (Model.v / Spec.v): [q_init maxsize cap] = queue object created and opened on an
   empty directory; [run q ops] / [trace q ops] = state / per-call observations after a sequence
   of calls (Append with any block and any number of concurrent writers, Current, Advance,
   advanceSegment, Truncate, SetMaxSegmentSize, PurgeOlderThan with any ages, Close, Open, a new
   process on the same directory); [spec_run] = the FIFO specification judging a trace;
   [pending q] = the blocks the state holds, read back by an independent frame parser;
   [reachable q st] = q is reached by a sequence the specification judges, ending in spec state st. *)
From Verif Require Import Lib.Bytes C04.Model C04.Spec C04.Proofs.
From VerifGen Require Import Consts.
Open Scope Z_scope.

(* For EVERY sequence of calls, the FIFO specification never finds a violation in what the
   model observes: accepted blocks come back from Current in the order accepted, Advance
   releases exactly the block Current shows, Empty() is true exactly when nothing is pending,
   the directory holds every pending block except at most the ones still buffered, across
   segment rollover, size changes, close/reopen and process restart.  (The spec declines to judge
   - ROutOfScope - only for: empty blocks, limits above 2^62-8, and size change / purge /
   truncate / restart-without-Close issued while acknowledged appends may still be buffered.) *)
Theorem model_never_violates_fifo_spec :
  forall maxsize cap ops k,
    spec_run 0 spec_init (trace (q_init maxsize cap) ops) <> RViolation k.
Proof. exact never_violates. Qed.
Print Assumptions model_never_violates_fifo_spec.

(* ... and the blocks the model state holds are exactly the spec's FIFO content. *)
Theorem queue_refines_fifo :
  forall maxsize cap ops st,
    spec_run 0 spec_init (trace (q_init maxsize cap) ops) = ROk st ->
    pending (run (q_init maxsize cap) ops) = s_pend st.
Proof. exact refines_fifo. Qed.
Print Assumptions queue_refines_fifo.

(* Reads return the head of the FIFO; the error cases say why nothing was returned. *)
Theorem reads_return_head :
  forall q st r b q',
    reachable q st -> q_current q = (r, b, q') ->
    match r with
    | Ok => exists rest, pending q = b :: rest
    | EOF => seg_visible (hd dseg (qsegs q)) = []
    | Other => exists b0 rest, pending q = b0 :: rest /\ zlen b0 > qmaxseg q
    | NotOpen => qopen q = false
    | _ => False
    end.
Proof. exact reachable_current. Qed.
Print Assumptions reads_return_head.

(* Advance releases exactly the head block, or nothing when the head segment is exhausted. *)
Theorem advance_releases_head :
  forall q st,
    reachable q st -> qopen q = true ->
    exists q', q_advance q = (Ok, q') /\
      (if head_exhausted q then pending q' = pending q
       else pending q = hd [] (pending q) :: pending q' /\ pending q <> []).
Proof. exact reachable_advance. Qed.
Print Assumptions advance_releases_head.

(* The send loop of NodeProcessor.SendWrite against an acknowledging target (Current; Advance on
   success; advanceSegment on io.EOF) delivers exactly the pending blocks, in the order accepted,
   then reports EOF - from any judged state with nothing buffered and no block above the limit. *)
Theorem send_loop_delivers_pending_in_order :
  forall q st fuel,
    reachable q st -> qopen q = true -> s_nbuf st = 0%nat ->
    Forall (fun b => zlen b <= qmaxseg q) (pending q) ->
    (length (pending q) + length (qsegs q) <= fuel)%nat ->
    drain fuel q [] = (pending q, EOF).
Proof. exact drain_reachable. Qed.
Print Assumptions send_loop_delivers_pending_in_order.

Theorem empty_iff_nothing_pending :
  forall q st, reachable q st -> qopen q = true -> (q_empty q = true <-> pending q = []).
Proof. exact reachable_empty. Qed.
Print Assumptions empty_iff_nothing_pending.

(* WriteShard, for every batch, limit and Append oracle: the blocks handed to the queue are
   the batch in order (all of it when nil is returned), no block is empty or above the limit,
   and ErrSegmentFull means the next point alone does not fit. *)
Theorem split_preserves_points :
  forall (A : Type) (sz : A -> Z) (limit : Z) (accept : nat -> bool) (pts : list A),
    let '(blocks, out) := write_shard sz limit accept pts in
    (exists rest, pts = concat blocks ++ rest /\
       match out with
       | WsOk => rest = []
       | WsSegFull => exists p r, rest = p :: r /\ block_len sz [p] > limit
       | WsAppendErr => True
       end) /\
    Forall (fun blk => blk <> [] /\ block_len sz blk <= limit) blocks.
Proof. exact (@write_shard_spec). Qed.
Print Assumptions split_preserves_points.

(* [block_len] is the length of the real marshalWrite image, which is never empty *)
Theorem marshal_write_length_is_block_len :
  forall shard pts, zlen (marshal_write shard pts) = block_len zlen pts /\ marshal_write shard pts <> [].
Proof. intros shard pts. split; [exact (marshal_write_length shard pts)|exact (marshal_write_nonempty shard pts)]. Qed.
Print Assumptions marshal_write_length_is_block_len.

(* unmarshalWrite on ANY byte string: every slice it takes is in range (the model reads through
   checked [take]s and has no other outcome), what it accepts is a sequence of well-framed
   points, and the loop's fuel (length+1) is never the reason it stops. *)
Theorem unmarshal_never_crash :
  forall b,
    match unmarshal_write b with
    | UmOk shard pts => exists hdr body, b = hdr ++ body /\ length hdr = 8%nat /\
                                        shard = be_dec hdr /\ framed4 body pts
    | UmTooShort => (length b < 8)%nat
    | UmShortBuffer _ _ => (8 <= length b)%nat
    end.
Proof. exact unmarshal_write_inv. Qed.
Print Assumptions unmarshal_never_crash.

Theorem unmarshal_fuel_independent :
  forall f1 f2 b acc, (length b < f1)%nat -> (length b < f2)%nat ->
    unmarshal_points f1 b acc = unmarshal_points f2 b acc.
Proof. exact unmarshal_points_fuel. Qed.
Print Assumptions unmarshal_fuel_independent.

Theorem marshal_unmarshal_roundtrip :
  forall shard pts,
    (shard < 18446744073709551616)%N ->
    Forall (fun p => (N.of_nat (length p) < 4294967296)%N) pts ->
    unmarshal_write (marshal_write shard pts) = UmOk shard pts.
Proof. exact marshal_unmarshal_roundtrip_l. Qed.
Print Assumptions marshal_unmarshal_roundtrip.

(* Crash inside a non-buffered Append that fits the tail segment.  PARTIAL: proved for cuts
   that leave the old footer intact (c = 0) or the new footer complete (c = whole write);
   for the cuts in between see reopen_keeps_acked_refuted. *)
Theorem reopen_keeps_acked_partial :
  forall q al b c,
    inv q al -> qopen q = true -> Forall nobuf al -> nonempty b ->
    let st := last (qsegs q) dseg in
    ssize st + zlen b <= qmaxseg q ->
    (c = 0 \/ c = length (append_data st b))%nat ->
    let img := files_of (removelast (qsegs q)) ++
               [(sid st, torn (sfile st) (append_off st) (append_data st b) c)] in
    exists q', q_open (new_queue img (qmaxsize q) (qcap q)) = (Ok, q') /\
               (pending q' = pending q \/ pending q' = pending q ++ [b]).
Proof. exact reopen_after_append_partial. Qed.
Print Assumptions reopen_keeps_acked_partial.

(* every state the spec judges satisfies the premises [inv]/[nobuf] when nothing is buffered *)
Theorem reachable_states_are_represented :
  forall q st, reachable q st -> exists al, inv q al /\ link q al st.
Proof. exact reachable_inv. Qed.
Print Assumptions reachable_states_are_represented.

(* [append_data]/[append_off] is the write the model of segment.append performs *)
Theorem append_write_is_the_models :
  forall id m d t st b,
    seg_rep id m d t [] st -> nonempty b -> m <= bnd - 8 -> ssize st + zlen b <= m ->
    exists st', seg_append st b false = (Ok, st') /\
                sfile st' = pwrite (sfile st) (append_off st) (append_data st b).
Proof. exact append_inflight_write. Qed.
Print Assumptions append_write_is_the_models.

(* the faithful model refutes the full crash property: two acknowledged blocks, a third in
   flight, 8 bytes of its write on disk: a new process can read neither acknowledged block *)
Theorem reopen_keeps_acked_refuted :
  exists ops b c,
    let q := run (q_init 1048576 1024) ops in
    let st := last (qsegs q) dseg in
    let img := files_of (removelast (qsegs q)) ++ [(sid st, torn (sfile st) (append_off st) (append_data st b) c)] in
    (exists stp, spec_run 0 spec_init (trace (q_init 1048576 1024) ops) = ROk stp) /\
    (0 < c < length (append_data st b))%nat /\
    pending q = [wA; wB] /\
    read_dir img 1048576 1024 = ([], Other).
Proof. exact torn_append_refuted. Qed.
Print Assumptions reopen_keeps_acked_refuted.

(* Crash inside Advance (footer rewritten in place): PARTIAL in the same way. *)
Theorem reopen_after_advance_keeps_acked_partial :
  forall q al c,
    inv q al -> qopen q = true -> Forall nobuf al -> head_exhausted q = false ->
    let st := hd dseg (qsegs q) in
    (c = 0 \/ c = 8)%nat ->
    let img := (sid st, torn (sfile st) (append_off st) (advance_data st) c) :: files_of (tl (qsegs q)) in
    exists q', q_open (new_queue img (qmaxsize q) (qcap q)) = (Ok, q') /\
               (pending q' = pending q \/ pending q = hd [] (pending q) :: pending q').
Proof. exact reopen_after_advance_partial. Qed.
Print Assumptions reopen_after_advance_keeps_acked_partial.

Theorem reopen_after_advance_keeps_acked_refuted :
  exists ops c,
    let q := run (q_init 1048576 1024) ops in
    let st := hd dseg (qsegs q) in
    let img := (sid st, torn (sfile st) (append_off st) (advance_data st) c) :: files_of (tl (qsegs q)) in
    (exists stp, spec_run 0 spec_init (trace (q_init 1048576 1024) ops) = ROk stp) /\
    (0 < c < 8)%nat /\
    pending q = [wD; wE] /\
    read_dir img 1048576 1024 = ([], EOF).
Proof. exact torn_advance_refuted. Qed.
Print Assumptions reopen_after_advance_keeps_acked_refuted.

(* Crash around the removal of a consumed head segment: with or without the file, nothing is lost. *)
Theorem reopen_after_trim_keeps_acked :
  forall q al,
    inv q al -> qopen q = true -> Forall nobuf al -> (2 <= length (qsegs q))%nat ->
    head_exhausted q = true ->
    exists q1 q2,
      q_open (new_queue (files_of (qsegs q)) (qmaxsize q) (qcap q)) = (Ok, q1) /\
      q_open (new_queue (files_of (tl (qsegs q))) (qmaxsize q) (qcap q)) = (Ok, q2) /\
      pending q1 = pending q /\ pending q2 = pending q.
Proof. exact reopen_after_trim. Qed.
Print Assumptions reopen_after_trim_keeps_acked.

(* the two defects repaired by fix: commits, kept as checked refutations of the pinned tree *)
Theorem empty_by_file_cursor_refuted :
  exists ops,
    let q := run (q_init 1048576 1024) ops in
    q_empty_cursor q = true /\ pending q = [wB; wC] /\ q_empty q = false.
Proof. exact empty_cursor_refuted. Qed.
Print Assumptions empty_by_file_cursor_refuted.

Theorem close_dropping_buffer_refuted :
  exists ops,
    let q := run (q_init 1048576 1024) ops in
    let st := last (qsegs q) dseg in
    pending q = [wA; wB] /\
    disk_file_blocks (sfile (snd (seg_close_with false st))) = [] /\
    disk_file_blocks (sfile (snd (seg_close_with true st))) = [wA; wB].
Proof. exact close_without_flush_refuted. Qed.
Print Assumptions close_dropping_buffer_refuted.

(* the executable split check of Spec.v accepts the model's WriteShard for every batch *)
Theorem split_spec_accepts_model :
  forall (A : Type) (sz : A -> Z) limit (eqb : A -> A -> bool), (forall a, eqb a a = true) ->
  forall accept pts,
    let '(blocks, out) := write_shard sz limit accept pts in
    split_ok sz limit eqb pts blocks (match out with WsOk => true | _ => false end) = true.
Proof. exact (@split_ok_model). Qed.
Print Assumptions split_spec_accepts_model.

(* ---------- non-vacuity ---------- *)

(* a judged sequence with rollover, buffered appends, close, restart: 3 blocks pending at the end *)
Example fifo_nonvacuous :
  let ops := [OSetMax 60; OAppend wA 0 0; OAppend (repeat 9%N 40) 0 0; OAppend wB 9 5; OAppend wC 9 5;
              OCurrent; OAdvance; OClose; OFresh; OCurrent] in
  exists st, spec_run 0 spec_init (trace (q_init 1048576 1024) ops) = ROk st /\
             s_pend st = [repeat 9%N 40; wB; wC] /\
             length (qsegs (run (q_init 1048576 1024) ops)) = 2%nat.
Proof. eexists. vm_compute. repeat split. Qed.

Example split_nonvacuous :
  write_shard (fun z : Z => z) 100 (fun _ => true) [30; 30; 30; 90; 200]
  = ([[30; 30]; [30]], WsSegFull).
Proof. vm_compute. reflexivity. Qed.

Example roundtrip_nonvacuous :
  unmarshal_write (marshal_write 7 [[1;2;3]; []; [9]]%N) = UmOk 7%N [[1;2;3]; []; [9]]%N.
Proof. vm_compute. reflexivity. Qed.

Example crash_partial_nonvacuous :
  let q := run (q_init 1048576 1024) [OAppend wA 0 0; OAppend wB 0 0] in
  exists al, inv q al /\ qopen q = true /\ Forall nobuf al /\
             ssize (last (qsegs q) dseg) + zlen wC <= qmaxseg q.
Proof.
  destruct (reachable_inv (run (q_init 1048576 1024) [OAppend wA 0 0; OAppend wB 0 0])
              (mkS [wA; wB] 0 true c04_default_segment_size)) as [al [I L]].
  { exists 1048576, 1024, [OAppend wA 0 0; OAppend wB 0 0]. split; vm_compute; reflexivity. }
  exists al. split; [exact I|]. split; [vm_compute; reflexivity|]. split.
  - apply nbuf0_nobuf. pose proof (lk_nbuf _ _ _ L) as H. cbn in H. lia.
  - vm_compute. discriminate.
Qed.
