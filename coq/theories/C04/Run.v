(* C04/Run.v — correspondence cases: the harness records what the real code of
   services/hh did; [check_case] re-runs the model on the same input, compares, and
   evaluates the executable spec (Spec.v) on the implementation's observation.
   result code: 0 = agree and property holds on the observation
                1 = model and implementation differ, property still holds on the observation
                2 = they differ and the property fails on the implementation's observation
                3 = they agree and the property fails (model mirrors a defect) *)
From Verif Require Export Lib.Bytes C04.Model C04.Spec C04.Drain C04.DrainSpec.
From VerifGen Require Import Consts.
Open Scope Z_scope.

Definition code (agree spec_ok : bool) : N :=
  match agree, spec_ok with
  | true, true => 0 | false, true => 1 | false, false => 2 | true, false => 3
  end%N.

(* error classes as numbered by the harness *)
Definition rc_of_N (n : N) : rc :=
  match n with
  | 0 => Ok | 1 => EOF | 2 => NotOpen | 3 => SegFull | 4 => QueueFull | 5 => Blocked | 6 => Other | _ => Panic
  end%N.

(* what the harness saw from one call: error class, block returned by Current, Empty(),
   every segment's fields, and the blocks a fresh reader of a copy of the directory gets
   (as indexes into the appended blocks of this case; class of the error that ended the read) *)
Record stepobs := mkSO {
  so_rc : N; so_data : bytes; so_empty : bool; so_segs : list segobs; so_vis : list N; so_vis_rc : N
}.

Definition disk_eqb (a b : list (N * bytes)) : bool :=
  list_eqb (fun x y => N.eqb (fst x) (fst y) && bytes_eqb (snd x) (snd y)) a b.

Inductive case :=
(* op sequence on a queue opened on an empty directory; final directory content *)
| CSeq (maxsize cap : Z) (steps : list (op * stepobs)) (files : list (N * bytes))
(* crash image: directory [base] with the first [cut] bytes of a write of [data] at [off] into
   file [fid] applied; the real code reopens it and reads until the queue is exhausted.
   [before]/[after]: what a reader gets from the directory before / after the whole call. *)
| CCrash (maxsize cap : Z) (base : list (N * bytes)) (fid : N) (off : nat) (data : bytes) (cut : nat)
         (before after drained : list block) (drain_rc : N)
(* k appenders racing Close: ids of acknowledged appends; ids read back after reopen, in order *)
| CConc (attempted : N) (acked readable : list N)
(* WriteShard on points of the given marshalled sizes: blocks (point indexes) that reached the
   queue, outcome 0 nil / 1 ErrSegmentFull before any Append of the oversized point / 2 Append refused *)
| CSplit (sizes : list Z) (blocks : list (list N)) (outcome : N)
| CMarshal (shard : N) (pts : list bytes) (impl : bytes) (roundtrip : bool)
(* unmarshalWrite(b): class 0 ok / 1 too short / 2 short buffer / 3 panic *)
| CUnmarshal (b : bytes) (cls : N) (shard : N) (pts : list bytes)
(* op sequence on a real hh.Service (fake shardWriter scripted by the oracle, fake metaClient):
   per step what the harness saw (DrainSpec.svobs); directories at the end *)
| CSvc (maxsize cap : Z) (steps : list (sop * svobs)) (files : list (N * N * list (N * bytes))).

(* ---- op sequences ---- *)

Definition appended (steps : list (op * stepobs)) : list block :=
  flat_map (fun s => match fst s with OAppend b _ _ => [b] | _ => [] end) steps.

Definition hx_of (segs : list segobs) : bool :=
  match segs with
  | [] => true
  | SO _ p _ s _ _ _ :: _ => p =? s - 8
  end.

Fixpoint seq_agree (tbl : list block) (q : queue) (steps : list (op * stepobs)) : bool * queue :=
  match steps with
  | [] => (true, q)
  | (o, so) :: r =>
    let '(rcm, d, q') := step q o in
    let ok :=
      rc_eqb rcm (rc_of_N (so_rc so)) && bytes_eqb d (so_data so)
      && Bool.eqb (q_empty q') (so_empty so)
      && list_eqb segobs_eqb (map seg_snapshot (qsegs q')) (so_segs so)
      && blocks_eqb (visible q') (map (fun i => nth (N.to_nat i) tbl [999%N]) (so_vis so))
      && N.eqb (so_vis_rc so) 1 in
    if ok then seq_agree tbl q' r else (false, q')
  end.

Fixpoint impl_trace (tbl : list block) (hx : bool) (steps : list (op * stepobs)) : list (op * obs) :=
  match steps with
  | [] => []
  | (o, so) :: r =>
    (o, mkObs (rc_of_N (so_rc so)) (so_data so) (so_empty so) hx
              (map (fun i => nth (N.to_nat i) tbl [999%N]) (so_vis so)))
    :: impl_trace tbl (hx_of (so_segs so)) r
  end.

Definition result_ok (r : result) : bool := match r with RViolation _ => false | _ => true end.

Fixpoint set_file_in (d : list (N * bytes)) (id : N) (f : bytes) : list (N * bytes) :=
  match d with
  | [] => []
  | (i, g) :: r => if N.eqb i id then (i, f) :: r else (i, g) :: set_file_in r id f
  end.

Fixpoint get_file (d : list (N * bytes)) (id : N) : bytes :=
  match d with
  | [] => []
  | (i, g) :: r => if N.eqb i id then g else get_file r id
  end.

Definition crash_image (base : list (N * bytes)) (fid : N) (off : nat) (data : bytes) (cut : nat) :=
  set_file_in base fid (torn (get_file base fid) off data cut).

(* ---- concurrency ---- *)
Definition conc_block (id : N) : block := be_enc 8 id.

Fixpoint nodup_N (l : list N) : bool :=
  match l with
  | [] => true
  | x :: r => negb (existsb (N.eqb x) r) && nodup_N r
  end.

(* ---- WriteShard ---- *)
Definition split_model (sizes : list Z) (nacc : nat) :=
  let pts := combine (map N.of_nat (seq 0 (length sizes))) sizes in
  write_shard (fun p : N * Z => snd p) c04_default_segment_size (fun k => (k <? nacc)%nat) pts.

Definition um_eqb (m : um_out) (cls shard : N) (pts : list bytes) : bool :=
  match m with
  | UmOk s p => N.eqb cls 0 && N.eqb s shard && blocks_eqb p pts
  | UmTooShort => N.eqb cls 1
  | UmShortBuffer s p => N.eqb cls 2 && N.eqb s shard && blocks_eqb p pts
  end.

(* ---- service / consumer ---- *)
Definition kobs_eqb (tbl : list block) (e : key * queue) (o : kobs) : bool :=
  let '(k, q) := e in
  N.eqb (fst k) (ko_node o) && N.eqb (snd k) (ko_shard o) && Bool.eqb (q_empty q) (ko_empty o)
  && list_eqb segobs_eqb (map seg_snapshot (qsegs q)) (ko_segs o)
  && blocks_eqb (visible q) (map (fun i => nth (N.to_nat i) tbl [999%N]) (ko_vis o)).

Definition call_eqb (a b : N * N * list bytes * N) : bool :=
  let '(n1, s1, p1, w1) := a in let '(n2, s2, p2, w2) := b in
  N.eqb n1 n2 && N.eqb s1 s2 && blocks_eqb p1 p2 && N.eqb w1 w2.

Fixpoint svc_agree (tbl : list block) (s : svc) (steps : list (sop * svobs)) : bool * svc :=
  match steps with
  | [] => (true, s)
  | (o, ob) :: r =>
    let '(cn, evs, s') := sstep s o in
    let ents := sort_procs (sv_procs s') in
    let ok :=
      N.eqb (fst cn) (vo_rc ob) && (snd cn =? vo_n ob)
      && list_eqb call_eqb (model_calls evs) (vo_calls ob)
      && list_eqb (kobs_eqb tbl) ents (vo_keys ob)
      && list_eqb (fun k d => N.eqb (fst k) (fst d) && N.eqb (snd k) (snd d)) (map fst ents) (vo_dirs ob) in
    if ok then svc_agree tbl s' r else (false, s')
  end.

Definition files_eqb (e : key * queue) (f : N * N * list (N * bytes)) : bool :=
  let '(k, q) := e in let '(n, sh, d) := f in
  N.eqb (fst k) n && N.eqb (snd k) sh && disk_eqb (disk_of q) d.

Definition check_case (c : case) : N :=
  match c with
  | CSvc maxsize cap steps files =>
    let tbl := svc_tbl (map fst steps) in
    let '(ag, s) := svc_agree tbl (svc_init maxsize cap) steps in
    let agree := ag && list_eqb files_eqb (sort_procs (sv_procs s)) files in
    code agree (judge_run tbl [] [] steps)
  | CSeq maxsize cap steps files =>
    let tbl := appended steps in
    let '(ag, q) := seq_agree tbl (q_init maxsize cap) steps in
    let agree := ag && disk_eqb (disk_of q) files in
    let spec_ok := result_ok (spec_run 0 spec_init (impl_trace tbl true steps)) in
    code agree spec_ok
  | CCrash maxsize cap base fid off data cut before after drained drc =>
    let img := crash_image base fid off data cut in
    let '(md, mrc) := read_dir img maxsize cap in
    let agree := blocks_eqb md drained && rc_eqb mrc (rc_of_N drc) in
    let spec_ok := N.eqb drc 1 && (blocks_eqb drained before || blocks_eqb drained after) in
    code agree spec_ok
  | CConc attempted acked readable =>
    let q0 := q_init 1073741824 1024 in
    let q1 := run q0 (map (fun i => OAppend (conc_block i) 0 0) readable) in
    let '(md, mrc) := read_dir (disk_of (snd (q_close q1))) 1073741824 1024 in
    let agree := blocks_eqb md (map conc_block readable) && rc_eqb mrc EOF in
    let spec_ok := forallb (fun a => existsb (N.eqb a) readable) acked && nodup_N readable
                   && forallb (fun r => (r <? attempted)%N) readable in
    code agree spec_ok
  | CSplit sizes blocks outcome =>
    let '(mb, mo) := split_model sizes (length blocks) in
    let mb' := match mo with WsAppendErr => removelast mb | _ => mb end in
    let mcode := match mo with WsOk => 0 | WsSegFull => 1 | WsAppendErr => 2 end%N in
    let agree := list_eqb (list_eqb N.eqb) (map (map fst) mb') blocks && N.eqb mcode outcome in
    let pts := combine (map N.of_nat (seq 0 (length sizes))) sizes in
    let iblocks := map (map (fun i => (i, nth (N.to_nat i) sizes 0))) blocks in
    let spec_ok := split_ok (fun p : N * Z => snd p) c04_default_segment_size
                            (fun a b => N.eqb (fst a) (fst b)) pts iblocks (N.eqb outcome 0) in
    code agree spec_ok
  | CMarshal shard pts impl rt =>
    code (bytes_eqb (marshal_write shard pts) impl) rt
  | CUnmarshal b cls shard pts =>
    code (um_eqb (unmarshal_write b) cls shard pts) (negb (N.eqb cls 3))
  end.
