(* C04/Proofs.v — entry point of the proofs (split over ProofsSplit, ProofsSeg, ProofsQueue,
   ProofsLink, ProofsCrash, ProofsDrain, ProofsConsumer) and the statements Props.v closes by [exact]. *)
From Verif Require Export Lib.Bytes C04.Model C04.Spec C04.ProofsSplit C04.ProofsSeg C04.ProofsQueue
     C04.ProofsLink C04.ProofsCrash C04.ProofsDrain C04.Drain C04.ProofsConsumer.
From VerifGen Require Import Consts.
From Coq Require Import ZifyBool ZifyNat ZifyN.
Open Scope Z_scope.

(* the link required by the Run.v contract: for EVERY op sequence the executable spec
   accepts what the model observes (it may only decline to judge: ROutOfScope) *)
Lemma spec_accepts_model maxsize cap ops :
  match spec_run 0 spec_init (trace (q_init maxsize cap) ops) with
  | RViolation _ => False
  | _ => True
  end.
Proof.
  pose proof (never_violates maxsize cap ops) as H.
  destruct (spec_run 0 spec_init (trace (q_init maxsize cap) ops)); auto. exact (H _ eq_refl).
Qed.

Lemma refines_fifo maxsize cap ops st :
  spec_run 0 spec_init (trace (q_init maxsize cap) ops) = ROk st ->
  pending (run (q_init maxsize cap) ops) = s_pend st.
Proof. intros H. apply reachable_pending. exists maxsize, cap, ops. auto. Qed.
