(* C04/DrainSpec.v — what the harness observes from the real hh.Service / NodeProcessor after
   every operation, and the EXECUTABLE SPECIFICATION that judges such observations without
   looking at the model: a FIFO of blocks per (node, shard) ([jstate]); an operation may
     - call the writer only for the OLDEST pending block (its decoded points), which leaves the
       FIFO iff the writer's answer is not a retryable error;
     - append a prefix of the blocks the request produces (all of them when it returns nil);
     - drop a PREFIX of the FIFO only for a documented reason that the operation and its oracle
       justify (undecodable head: exactly one; head larger than the segment limit; head segment
       older than the age limit; node removed; node unknown AND queue older than max-age);
     - remove a processor only when its FIFO is empty or for the last two reasons;
   and Empty() must be true exactly when the FIFO is empty. *)
From Verif Require Export Lib.Bytes C04.Model C04.Spec C04.Drain.
From VerifGen Require Import Consts.
Open Scope Z_scope.

Fixpoint list_eqb {A B} (eqb : A -> B -> bool) (a : list A) (b : list B) : bool :=
  match a, b with
  | [], [] => true
  | x :: a', y :: b' => eqb x y && list_eqb eqb a' b'
  | _, _ => false
  end.

(* snapshot of one segment's in-memory fields: id pos currentSize size maxSize len(buf) cursor *)
Inductive segobs := SO (id : N) (pos csz size max buflen cur : Z).

Definition segobs_eqb (a b : segobs) : bool :=
  match a, b with
  | SO i p c s m bl cu, SO i' p' c' s' m' bl' cu' =>
    N.eqb i i' && (p =? p') && (c =? c') && (s =? s') && (m =? m') && (bl =? bl') && (cu =? cu')
  end.

Definition seg_snapshot (s : seg) : segobs :=
  SO (sid s) (spos s) (scsz s) (ssize s) (smax s) (zlen (sbuf s)) (scur s).

(* one processor of the map after a call: Empty(), its segments, and the blocks a fresh reader of
   a copy of its directory gets (indexes into the blocks of the case) *)
Record kobs := mkKO { ko_node : N; ko_shard : N; ko_empty : bool; ko_segs : list segobs; ko_vis : list N }.

(* one call: error class / bytes sent; what the fake writer received, in order
   (node, shard, points, answer code); the processors in the map (sorted); the shard directories
   on disk (sorted) *)
Record svobs := mkSV {
  vo_rc : N; vo_n : Z;
  vo_calls : list (N * N * list bytes * N);
  vo_keys : list kobs;
  vo_dirs : list (N * N)
}.

(* ---- model side helpers ---- *)
Definition key_ltb (a b : key) : bool :=
  (fst a <? fst b)%N || (N.eqb (fst a) (fst b) && (snd a <? snd b)%N).

Fixpoint ins_proc (e : key * queue) (l : list (key * queue)) : list (key * queue) :=
  match l with
  | [] => [e]
  | x :: r => if key_ltb (fst e) (fst x) then e :: l else x :: ins_proc e r
  end.
Definition sort_procs (l : list (key * queue)) : list (key * queue) := fold_right ins_proc [] l.

Definition pts_of (b : block) : list bytes :=
  match unmarshal_write b with UmOk _ p => p | UmShortBuffer _ p => p | UmTooShort => [] end.

Definition model_calls (evs : list ev) : list (N * N * list bytes * N) :=
  flat_map (fun e => match e with ECall k b w => [(fst k, snd k, pts_of b, wr_code w)] | _ => [] end) evs.

Definition new_blocks (o : sop) : list block :=
  match o with
  | SWrite _ sh pts => fst (split_blocks sh pts)
  | SRaw _ _ b => [b]
  | SSend _ sh _ _ mid => fst (split_blocks sh mid)
  | _ => []
  end.

Definition svc_tbl (ops : list sop) : list block := flat_map new_blocks ops.

(* ---- the judge ---- *)
Definition jstate := list (key * (list block * Z)).

Fixpoint jfind (k : key) (st : jstate) : option (list block * Z) :=
  match st with
  | [] => None
  | (k', v) :: r => if key_eqb k k' then Some v else jfind k r
  end.

Fixpoint kfind (k : key) (l : list kobs) : option kobs :=
  match l with
  | [] => None
  | o :: r => if key_eqb k (ko_node o, ko_shard o) then Some o else kfind k r
  end.

Definition op_key (o : sop) : option key :=
  match o with
  | SWrite n s _ | SRaw n s _ | SSetMax n s _ | SSend n s _ _ _ | STick n s _ _ | SAgePurge n s _
  | SCloseIfEmpty n s => Some (n, s)
  | _ => None
  end.

Definition retry_code : N := 2%N.

(* the writer calls of one operation on one queue, replayed on its FIFO *)
Fixpoint replay (calls : list (list bytes * N)) (pend : list block) : option (list block) :=
  match calls with
  | [] => Some pend
  | (pts, w) :: r =>
    match pend with
    | h :: t =>
      match unmarshal_write h with
      | UmOk _ p => if blocks_eqb p pts then replay r (if N.eqb w retry_code then pend else t) else None
      | _ => None
      end
    | [] => None
    end
  end.

Fixpoint nprefix (a b : list N) : bool :=
  match a, b with
  | [], _ => true
  | x :: a', y :: b' => N.eqb x y && nprefix a' b'
  | _ :: _, [] => false
  end.

Definition calls_ok (o : sop) (mine : bool) (calls : list (list bytes * N)) : bool :=
  if negb mine then is_nil calls else
  match o with
  | SSend _ _ MActive w _ =>
    match calls with [] => true | [(_, c)] => N.eqb c (wr_code w) | _ => false end
  | STick _ _ MActive ws => nprefix (map snd calls) (map wr_code ws ++ [retry_code])
  | _ => is_nil calls
  end.

Definition drop_ok (o : sop) (mine : bool) (d : nat) (l : list block) (mx : Z) (prevhead : option N) : bool :=
  (d =? 0)%nat ||
  (mine && match o with
           | SSend _ _ MActive _ _ | STick _ _ MActive _ =>
             match l with
             | h :: _ => ((d =? 1)%nat && negb (um_ok h)) || (zlen h >? mx)
             | [] => false
             end
           | SAgePurge _ _ old =>
             match prevhead with Some id => existsb (N.eqb id) old | None => false end
           | _ => false
           end).

Definition rc_ok (o : sop) (mine : bool) (rc : N) (n : Z) (j nnew : nat)
           (calls : list (list bytes * N)) (pend : list block) : bool :=
  if negb mine then true else
  match o with
  | SWrite _ _ _ | SRaw _ _ _ => if N.eqb rc 0 then (j =? nnew)%nat else true
  | SSend _ _ _ _ _ =>
    let sent := existsb (fun c => negb (N.eqb (snd c) retry_code)) calls in
    Bool.eqb (N.eqb rc 0) sent &&
    (if N.eqb rc 0 then match pend with h :: _ => n =? zlen h | [] => false end else true)
  | SCloseIfEmpty _ _ => if N.eqb rc 1 then is_nil pend else true
  | _ => true
  end.

Definition head_id (o : option kobs) : option N :=
  match o with
  | Some ob => match ko_segs ob with SO id _ _ _ _ _ _ :: _ => Some id | [] => None end
  | None => None
  end.

(* None = violation; Some None = the processor is gone; Some (Some st) = its new FIFO *)
Definition judge_key (tbl : list block) (o : sop) (k : key) (pm : list block * Z)
           (calls : list (list bytes * N)) (after : option kobs) (rc : N) (n : Z)
           (prevhead : option N) : option (option (list block * Z)) :=
  let '(pend, mx) := pm in
  let mine := match op_key o with Some k' => key_eqb k k' | None => false end in
  match replay calls pend with
  | None => None
  | Some pend1 =>
    if negb (calls_ok o mine calls) then None else
    let news := if mine then new_blocks o else [] in
    match after with
    | None =>
      let okgone :=
        match o with
        | SPurgePass active aged =>
          is_nil pend1 || (negb (existsb (N.eqb (fst k)) active) && existsb (key_eqb k) aged)
        | SRemoveNode node => N.eqb (fst k) node
        | _ => false
        end in
      if okgone then Some None else None
    | Some ob =>
      let aft := map (fun i => nth (N.to_nat i) tbl [999%N]) (ko_vis ob) in
      let must_go := match o with SRemoveNode node => N.eqb (fst k) node | _ => false end in
      if must_go then None
      else if negb (Bool.eqb (ko_empty ob) (is_nil aft)) then None
      else if existsb (fun d =>
                let j := (length aft + d - length pend1)%nat in
                (j <=? length news)%nat && (length pend1 <=? length aft + d)%nat
                && (d <=? length pend1 + j)%nat
                && blocks_eqb aft (skipn d (pend1 ++ firstn j news))
                && drop_ok o mine d (pend1 ++ firstn j news) mx prevhead
                && rc_ok o mine rc n j (length news) calls pend)
              (seq 0 (S (length pend1 + length news)))
      then
        let mx' := match o with
                   | SSetMax _ _ m => if mine && N.eqb rc 0 then m else mx
                   | SRestart => c04_default_segment_size
                   | SCloseIfEmpty _ _ => if mine && N.eqb rc 1 then c04_default_segment_size else mx
                   | _ => mx
                   end in
        Some (Some (aft, mx'))
      else None
    end
  end.

Definition calls_of (k : key) (calls : list (N * N * list bytes * N)) : list (list bytes * N) :=
  flat_map (fun c => let '(n, s, p, w) := c in if key_eqb k (n, s) then [(p, w)] else []) calls.

(* processors known before the call *)
Fixpoint judge_old (tbl : list block) (o : sop) (ob : svobs) (prev : list kobs) (st : jstate) : option jstate :=
  match st with
  | [] => Some []
  | (k, pm) :: r =>
    match judge_key tbl o k pm (calls_of k (vo_calls ob)) (kfind k (vo_keys ob)) (vo_rc ob) (vo_n ob)
                    (head_id (kfind k prev)), judge_old tbl o ob prev r with
    | Some None, Some r' => Some r'
    | Some (Some v), Some r' => Some ((k, v) :: r')
    | _, _ => None
    end
  end.

(* processors that appear: only the one Service.WriteShard creates *)
Fixpoint judge_new (tbl : list block) (o : sop) (ob : svobs) (st : jstate) (keys : list kobs) : option jstate :=
  match keys with
  | [] => Some []
  | kb :: r =>
    let k := (ko_node kb, ko_shard kb) in
    match jfind k st with
    | Some _ => judge_new tbl o ob st r
    | None =>
      match o with
      | SWrite n s _ =>
        if key_eqb k (n, s) then
          match judge_key tbl o k ([], c04_default_segment_size) (calls_of k (vo_calls ob)) (Some kb)
                          (vo_rc ob) (vo_n ob) None, judge_new tbl o ob st r with
          | Some (Some v), Some r' => Some ((k, v) :: r')
          | _, _ => None
          end
        else None
      | _ => None
      end
    end
  end.

Definition known_call (st : jstate) (o : sop) (c : N * N * list bytes * N) : bool :=
  let '(n, s, _, _) := c in match jfind (n, s) st with Some _ => true | None => false end.

Definition judge_step (tbl : list block) (st : jstate) (prev : list kobs) (o : sop) (ob : svobs) : option jstate :=
  if negb (forallb (known_call st o) (vo_calls ob)) then None      (* a call for a queue that does not exist *)
  else if negb (list_eqb (fun (kb : kobs) (d : N * N) => N.eqb (ko_node kb) (fst d) && N.eqb (ko_shard kb) (snd d))
                         (vo_keys ob) (vo_dirs ob)) then None     (* directories = processors *)
  else
    match judge_old tbl o ob prev st, judge_new tbl o ob st (vo_keys ob) with
    | Some a, Some b => Some (a ++ b)
    | _, _ => None
    end.

Fixpoint judge_run (tbl : list block) (st : jstate) (prev : list kobs) (steps : list (sop * svobs)) : bool :=
  match steps with
  | [] => true
  | (o, ob) :: r =>
    if N.eqb (vo_rc ob) absent then judge_run tbl st prev r      (* no such processor: nothing was called *)
    else match judge_step tbl st prev o ob with
         | Some st' => judge_run tbl st' (vo_keys ob) r
         | None => false
         end
  end.
