(* C04/Spec.v — the abstract specification: a FIFO of accepted blocks.

   State: [s_pend] = blocks accepted and not yet released, oldest first.
          [s_nbuf] = upper bound on how many of the youngest entries were acknowledged on
                     the buffered path and may not have reached the disk yet.
   An observation is what a caller (or an on-looker reading the directory) sees from one
   call; the same [spec_step] judges observations of the implementation (Run.v) and of
   the model (Proofs: it never answers [None] on the model, for every op sequence).

   Documented releases: Advance (delivered / permanently rejected / unknown shard),
   PurgeOlderThan (age), Truncate (corrupt or oversized record after a failed read).
   Size-limit rejections are refusals (the append returns an error), not releases. *)
From Verif Require Import Lib.Bytes C04.Model.
From VerifGen Require Import Consts.
Open Scope Z_scope.

Record obs := mkObs {
  o_rc : rc;               (* error class returned by the call *)
  o_data : bytes;          (* block returned by Current *)
  o_empty : bool;          (* Empty() right after the call *)
  o_hx : bool;             (* BEFORE the call: head segment had no readable block left *)
  o_vis : list block       (* AFTER the call: blocks a fresh reader of the directory gets *)
}.

Record sst := mkS { s_pend : list block; s_nbuf : nat; s_open : bool; s_max : Z }.

Fixpoint bytes_eqb (a b : bytes) : bool :=
  match a, b with
  | [], [] => true
  | x :: a', y :: b' => N.eqb x y && bytes_eqb a' b'
  | _, _ => false
  end.

Fixpoint blocks_eqb (a b : list block) : bool :=
  match a, b with
  | [], [] => true
  | x :: a', y :: b' => bytes_eqb x y && blocks_eqb a' b'
  | _, _ => false
  end.

Fixpoint blocks_prefix (a b : list block) : bool :=
  match a, b with
  | [], _ => true
  | x :: a', y :: b' => bytes_eqb x y && blocks_prefix a' b'
  | _ :: _, [] => false
  end.

Definition is_nil {A} (l : list A) : bool := match l with [] => true | _ => false end.

(* largest segment size limit for which no int64 arithmetic of the code can wrap *)
Definition max_limit : Z := 4611686018427387896.   (* 2^62 - 8 *)

Inductive verdict := VOk (st : sst) | VViolation | VOutOfScope.

(* one call.  Out of scope (no claim): empty blocks (marshalWrite never produces one),
   segment limits above 2^62-8, size changes / crash-at-rest / purge / truncate while
   acknowledged appends may still be buffered, Open on an open queue. *)
Definition spec_step (st : sst) (o : op) (ob : obs) : verdict :=
  match o with
  | OAppend b nb na =>
    if is_nil b then VOutOfScope
    else if rc_eqb (o_rc ob) Ok then
      if s_open st then
        let buffered := nb + 1 >=? c04_buffer_threshold in
        let last := na + 1 <=? c04_last_writer_bound in
        VOk (mkS (s_pend st ++ [b]) (if buffered && negb last then S (s_nbuf st) else O) true (s_max st))
      else VViolation                                  (* accepted by a closed queue *)
    else VOk st
  | OCurrent =>
    match o_rc ob with
    | Ok => match s_pend st with
            | h :: _ => if bytes_eqb h (o_data ob) then VOk st else VViolation
            | [] => VViolation
            end
    | EOF => if o_hx ob || is_nil (o_vis ob) then VOk st else VViolation
    | NotOpen => if s_open st then VViolation else VOk st
    | Other => match s_pend st with
               | h :: _ => if zlen h >? s_max st then VOk st else VViolation
               | [] => VViolation
               end
    | _ => VViolation
    end
  | OAdvance =>
    if s_open st && negb (o_hx ob) then
      match s_pend st with
      | _ :: t => VOk (mkS t (s_nbuf st) true (s_max st))
      | [] => VViolation
      end
    else VOk st
  | OAdvSeg => VOk st                                   (* releases nothing *)
  | OTruncate | OPurge _ =>
    if negb (s_open st) then VOk st
    else match s_nbuf st with
    | O => (* the survivors are a suffix of what was pending *)
      let n := (length (s_pend st) - length (o_vis ob))%nat in
      if (length (o_vis ob) <=? length (s_pend st))%nat && blocks_eqb (skipn n (s_pend st)) (o_vis ob)
      then VOk (mkS (o_vis ob) O true (s_max st)) else VViolation
    | _ => VOutOfScope
    end
  | OSetMax n =>
    if negb (s_open st) then VOutOfScope                 (* nil dereference in the code *)
    else if n >? max_limit then VOutOfScope
    else match s_nbuf st with
         | O => VOk (mkS (s_pend st) O true n)
         | _ => VOutOfScope
         end
  | OClose => VOk (mkS (s_pend st) O false (s_max st))
  | OOpen => if s_open st then VOutOfScope else VOk (mkS (s_pend st) (s_nbuf st) true (s_max st))
  | OFresh =>
    match s_nbuf st with
    | O => VOk (mkS (s_pend st) O true c04_default_segment_size)
    | _ => VOutOfScope
    end
  end.

(* what must hold right after every call *)
Definition spec_post (st : sst) (ob : obs) : bool :=
  (* Empty() is true exactly when nothing is pending *)
  (if s_open st then Bool.eqb (o_empty ob) (is_nil (s_pend st)) else true)
  (* the directory holds every pending block, in order, except at most the youngest
     [s_nbuf] ones that are still buffered *)
  && blocks_prefix (o_vis ob) (s_pend st)
  && (length (s_pend st) - length (o_vis ob) <=? s_nbuf st)%nat.

Inductive result := ROk (st : sst) | RViolation (at_step : nat) | ROutOfScope (at_step : nat).

Fixpoint spec_run (k : nat) (st : sst) (tr : list (op * obs)) : result :=
  match tr with
  | [] => ROk st
  | (o, ob) :: r =>
    match spec_step st o ob with
    | VViolation => RViolation k
    | VOutOfScope => ROutOfScope k
    | VOk st' => if spec_post st' ob then spec_run (S k) st' r else RViolation k
    end
  end.

Definition spec_init : sst := mkS [] O true c04_default_segment_size.

(* ---- WriteShard: the blocks handed to Append are the batch, in order ---- *)
Definition split_ok {A} (sz : A -> Z) (limit : Z) (eqb : A -> A -> bool)
           (pts : list A) (blocks : list (list A)) (complete : bool) : bool :=
  let fix pre (a b : list A) := match a, b with
                                | [], _ => true
                                | x :: a', y :: b' => eqb x y && pre a' b'
                                | _ :: _, [] => false end in
  pre (concat blocks) pts
  && (if complete then (length (concat blocks) =? length pts)%nat else true)
  && forallb (fun blk => negb (is_nil blk) && (block_len sz blk <=? limit)) blocks.

(* ---- observations produced by the model (used by the link theorem and by Run.v) ---- *)
Definition head_exhausted (q : queue) : bool :=
  match qsegs q with
  | [] => true
  | h :: _ => spos h =? ssize h - 8
  end.

Definition visible (q : queue) : list block := disk_blocks (disk_of q).

Definition observe (q : queue) (o : op) : obs * queue :=
  let '(r, d, q') := step q o in
  (mkObs r d (q_empty q') (head_exhausted q) (visible q'), q').

Fixpoint trace (q : queue) (ops : list op) : list (op * obs) :=
  match ops with
  | [] => []
  | o :: r => let '(ob, q') := observe q o in (o, ob) :: trace q' r
  end.

(* a queue object created and opened on an empty directory *)
Definition q_init (maxsize cap : Z) : queue := snd (q_open (new_queue [] maxsize cap)).

(* states reached by sequences the specification has a claim about *)
Definition reachable (q : queue) (st : sst) : Prop :=
  exists maxsize cap ops,
    spec_run 0 spec_init (trace (q_init maxsize cap) ops) = ROk st /\
    q = run (q_init maxsize cap) ops.


(* ---- reading a directory with the model's own Open/Current/Advance ---- *)
Fixpoint drain (fuel : nat) (q : queue) (acc : list block) : list block * rc :=
  match fuel with
  | O => (rev acc, Ok)
  | S f =>
    match q_current q with
    | (Ok, b, q1) => drain f (snd (q_advance q1)) (b :: acc)
    | (EOF, _, q1) =>
      if (length (qsegs q1) <=? 1)%nat then (rev acc, EOF) else drain f (snd (q_advance_segment q1)) acc
    | (r, _, _) => (rev acc, r)
    end
  end.

Definition read_dir (d : list (N * bytes)) (maxsize cap : Z) : list block * rc :=
  match q_open (new_queue d maxsize cap) with
  | (Ok, q) => drain 200 q []
  | (r, _) => ([], r)
  end.

