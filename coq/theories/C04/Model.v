(* C04/Model.v — executable model of the hinted-handoff queue (services/hh/queue.go) as
   written: a segment is { file bytes; OS file cursor; pos; currentSize; size; maxSize;
   buffered appends }, every method is mirrored including the seeks it performs and the
   cursor position it leaves; plus NodeProcessor.WriteShard's bisection and the
   marshalWrite/unmarshalWrite layout (services/hh/node_processor.go).
   Definitions only; proofs live in Proofs*.v. *)
From Verif Require Export Lib.Bytes.
From VerifGen Require Import Consts.
Open Scope Z_scope.

Definition block := bytes.
Definition zlen {A} (l : list A) : Z := Z.of_nat (length l).

(* ------------------------------------------------------------------ *)
(* integers on disk *)

(* binary.BigEndian.PutUint64(buf, uint64(v)) for an int64 v *)
Definition u64 (v : Z) : bytes := be_enc 8 (of_int64 v).
(* int64(binary.BigEndian.Uint64(b)) *)
Definition rd64 (b : bytes) : Z := to_int64 (be_dec b).
(* int64 addition wraps *)
Definition wrap64 (v : Z) : Z := to_int64 (of_int64 v).
(* binary.Write(buf, BigEndian, uint64(len(b))) *)
Definition len_prefix (b : block) : bytes := be_enc 8 (N.of_nat (length b)).

Definition frame (b : block) : bytes := len_prefix b ++ b.
Definition frames (bs : list block) : bytes := flat_map frame bs.

(* ------------------------------------------------------------------ *)
(* result codes (error -> small enum; Panic is a Go runtime panic) *)

Inductive rc := Ok | EOF | NotOpen | SegFull | QueueFull | Blocked | Other | Panic.

Definition rc_eqb (a b : rc) : bool :=
  match a, b with
  | Ok, Ok | EOF, EOF | NotOpen, NotOpen | SegFull, SegFull | QueueFull, QueueFull
  | Blocked, Blocked | Other, Other | Panic, Panic => true
  | _, _ => false
  end.

(* ------------------------------------------------------------------ *)
(* segment *)

Record seg := mkSeg {
  sid : N;          (* file name *)
  sfile : bytes;    (* content of the file *)
  scur : Z;         (* OS file cursor of the open *os.File *)
  spos : Z;         (* l.pos *)
  scsz : Z;         (* l.currentSize *)
  ssize : Z;        (* l.size *)
  smax : Z;         (* l.maxSize *)
  sbuf : bytes      (* l.buf (nil and empty are not distinguished by the code) *)
}.

Definition set_file s f := mkSeg (sid s) f (scur s) (spos s) (scsz s) (ssize s) (smax s) (sbuf s).
Definition set_cur s c := mkSeg (sid s) (sfile s) c (spos s) (scsz s) (ssize s) (smax s) (sbuf s).
Definition set_pos s p := mkSeg (sid s) (sfile s) (scur s) p (scsz s) (ssize s) (smax s) (sbuf s).
Definition set_csz s c := mkSeg (sid s) (sfile s) (scur s) (spos s) c (ssize s) (smax s) (sbuf s).
Definition set_size s z := mkSeg (sid s) (sfile s) (scur s) (spos s) (scsz s) z (smax s) (sbuf s).
Definition set_max s m := mkSeg (sid s) (sfile s) (scur s) (spos s) (scsz s) (ssize s) m (sbuf s).
Definition set_buf s b := mkSeg (sid s) (sfile s) (scur s) (spos s) (scsz s) (ssize s) (smax s) b.

(* ---- OS file primitives ---- *)

(* pwrite: bytes d written at offset o; a gap beyond EOF is zero-filled *)
Definition pwrite (f : bytes) (o : nat) (d : bytes) : bytes :=
  firstn o f ++ repeat 0%N (o - length f)%nat ++ d ++ skipn (o + length d)%nat f.

(* ftruncate to n bytes *)
Definition ftrunc (f : bytes) (n : nat) : bytes :=
  firstn n f ++ repeat 0%N (n - length f)%nat.

(* file.Seek(off, io.SeekEnd): negative resulting offset is EINVAL *)
Definition seek_end (s : seg) (off : Z) : option seg :=
  let n := zlen (sfile s) + off in
  if n <? 0 then None else Some (set_cur s n).

(* segment.seek(pos): file.Seek(pos, io.SeekStart) *)
Definition seek (s : seg) (p : Z) : option seg :=
  if p <? 0 then None else Some (set_cur s p).

Inductive rd :=
| RdOk (b : bytes) (s : seg)
| RdEof (s : seg)       (* file.Read returned io.EOF *)
| RdBad (s : seg).      (* short read: "bad read" *)

(* segment.readBytes(make([]byte, n)); bounds are compared before any conversion *)
Definition read_bytes (s : seg) (n : Z) : rd :=
  if n <=? 0 then RdOk [] s
  else if zlen (sfile s) <=? scur s then RdEof s
  else if zlen (sfile s) <? scur s + n then RdBad (set_cur s (zlen (sfile s)))
  else RdOk (firstn (Z.to_nat n) (skipn (Z.to_nat (scur s)) (sfile s))) (set_cur s (scur s + n)).

(* segment.writeBytes(d) (write errors such as ENOSPC are outside the model) *)
Definition write_bytes (s : seg) (d : bytes) : seg :=
  set_cur (set_file s (pwrite (sfile s) (Z.to_nat (scur s)) d)) (scur s + zlen d).

(* ---- segment.flush ---- *)
Definition seg_flush (s : seg) : rc * seg :=
  match sbuf s with
  | [] => (Ok, s)
  | _ =>
    match seek_end s (-8) with
    | None => (Other, s)
    | Some s1 =>
      let s2 := write_bytes s1 (sbuf s ++ u64 (spos s)) in
      if scsz s =? 0 then
        match take 8 (sbuf s) with
        | None => (Panic, s2)                       (* b[:8] out of range *)
        | Some (h, _) => (Ok, set_buf (set_size (set_csz s2 (rd64 h)) (ssize s + zlen (sbuf s))) [])
        end
      else (Ok, set_buf (set_size s2 (ssize s + zlen (sbuf s))) [])
    end
  end.

(* ---- segment.append ---- *)
Definition seg_append (s : seg) (b : block) (buffered : bool) : rc * seg :=
  if ssize s + zlen (sbuf s) + zlen b >? smax s then
    match seg_flush s with
    | (Ok, s1) => (SegFull, s1)
    | r => r
    end
  else
    let s1 := set_buf s (sbuf s ++ frame b) in
    if buffered then (Ok, s1) else seg_flush s1.

(* ---- segment.current ---- *)
Definition seg_current (s : seg) : rc * bytes * seg :=
  if spos s =? ssize s - 8 then (EOF, [], s)
  else match seek s (spos s) with
  | None => (Other, [], s)
  | Some s1 =>
    match read_bytes s1 8 with
    | RdEof s2 => (EOF, [], s2)
    | RdBad s2 => (Other, [], s2)
    | RdOk h s2 =>
      let sz := rd64 h in                         (* int64(sz) *)
      let s3 := set_csz s2 sz in
      if sz >? smax s then (Other, [], s3)        (* record size out of range *)
      else if sz <? 0 then (Panic, [], s3)        (* make([]byte, sz) with sz >= 2^63 *)
      else match read_bytes s3 sz with
           | RdOk b s4 => (Ok, b, s4)
           | RdEof s4 => (EOF, [], s4)
           | RdBad s4 => (Other, [], s4)
           end
    end
  end.

(* ---- segment.truncate ---- *)
Definition seg_truncate (s : seg) : rc * seg :=
  if spos s =? ssize s - 8 then (EOF, s)
  else match seek s (spos s) with
  | None => (Other, s)
  | Some s1 =>
    let s2 := write_bytes s1 (u64 (spos s)) in
    let size := spos s + 8 in
    let s3 := set_file s2 (ftrunc (sfile s2) (Z.to_nat size)) in
    (Ok, set_size (set_csz s3 0) size)
  end.

(* ---- segment.advance ---- *)
Definition seg_advance (s : seg) : rc * seg :=
  if spos s =? ssize s - 8 then (EOF, set_csz s 0)
  else match seek_end s (-8) with
  | None => (Other, s)
  | Some s1 =>
    let p := wrap64 (spos s + scsz s + 8) in
    let s2 := set_pos (write_bytes s1 (u64 p)) p in
    match seek s2 p with
    | None => (Other, s2)
    | Some s3 =>
      match read_bytes s3 8 with
      | RdEof s4 => (EOF, s4)
      | RdBad s4 => (Other, s4)
      | RdOk h s4 =>
        let s5 := set_csz s4 (rd64 h) in
        if p =? ssize s - 8 then (EOF, set_csz s5 0) else (Ok, s5)
      end
    end
  end.

(* ---- segment.open (on a freshly built struct: pos = currentSize = 0, cursor 0) ---- *)
Definition seg_open (s : seg) : rc * seg :=
  if ssize s =? 0 then
    let s1 := write_bytes (set_csz (set_pos s 0) 0) (u64 0) in
    (Ok, set_size s1 8)
  else match seek_end s (-8) with
  | None => (Other, s)
  | Some s1 =>
    match read_bytes s1 8 with
    | RdEof s2 => (EOF, s2)
    | RdBad s2 => (Other, s2)
    | RdOk h s2 =>
      let s3 := set_pos s2 (rd64 h) in
      match seek s3 (spos s3) with
      | None => (Other, set_pos s3 0)
      | Some s4 =>
        if spos s4 <? ssize s4 - 8 then
          match read_bytes s4 8 with
          | RdEof s5 => (EOF, s5)
          | RdBad s5 => (Other, s5)
          | RdOk h2 s5 => (Ok, set_csz s5 (rd64 h2))
          end
        else (Ok, s4)
      end
    end
  end.

(* newSegment(id, dir, maxSize) on a file with content f (empty = just created).
   None = newSegment returns an error. *)
Definition new_segment (id : N) (f : bytes) (max : Z) : option seg :=
  let s0 := mkSeg id f 0 0 0 (zlen f) max [] in
  match seg_open s0 with
  | (Ok, s1) => Some s1
  | (_, s1) =>
    match seg_truncate s1 with
    | (Ok, s2) | (EOF, s2) => Some s2
    | _ => None
    end
  end.

(* segment.close: flushes acknowledged buffered appends first (since the fix: commit;
   [c04_close_flushes] is re-read from the source) *)
Definition seg_close_with (flushes : bool) (s : seg) : rc * seg :=
  if flushes then seg_flush s else (Ok, s).
Definition seg_close := seg_close_with c04_close_flushes.

(* segment.empty (added by the fix: commit) *)
Definition seg_empty (s : seg) : bool := (spos s =? ssize s - 8) && match sbuf s with [] => true | _ => false end.

(* ------------------------------------------------------------------ *)
(* queue.  While open: head = first segment, tail = last, and the directory holds
   exactly the files of [qsegs].  While closed: qsegs = [] and [qdisk] is the directory. *)

Record queue := mkQ {
  qsegs : list seg;
  qopen : bool;
  qmaxseg : Z;               (* l.maxSegmentSize *)
  qmaxsize : Z;              (* l.maxSize *)
  qcap : Z;                  (* cap(l.limiter) *)
  qdisk : list (N * bytes)   (* directory content while closed, sorted by id *)
}.

Definition set_segs q l := mkQ l (qopen q) (qmaxseg q) (qmaxsize q) (qcap q) (qdisk q).
Definition set_maxseg q m := mkQ (qsegs q) (qopen q) m (qmaxsize q) (qcap q) (qdisk q).

Definition files_of (l : list seg) : list (N * bytes) := map (fun s => (sid s, sfile s)) l.
Definition disk_of (q : queue) : list (N * bytes) := if qopen q then files_of (qsegs q) else qdisk q.

Definition new_queue (disk : list (N * bytes)) (maxsize cap : Z) : queue :=
  mkQ [] false c04_default_segment_size maxsize cap disk.

Definition disk_usage (q : queue) : Z := fold_right (fun s a => ssize s + a) 0 (qsegs q).

Definition next_id (l : list seg) : N := (last (map sid l) 0 + 1)%N.

(* queue.addSegment *)
Definition add_segment (q : queue) : option queue :=
  match new_segment (next_id (qsegs q)) [] (qmaxseg q) with
  | Some s => Some (set_segs q (qsegs q ++ [s]))
  | None => None
  end.

(* queue.trimHead *)
Definition trim_head (q : queue) : rc * queue :=
  match qsegs q with
  | h :: (_ :: _) as tl =>
    match seg_close h with
    | (Ok, _) => (Ok, set_segs q tl)          (* file removed *)
    | (r, h') => (r, set_segs q (h' :: tl))    (* close failed: unreachable, see Proofs *)
    end
  | _ => (Ok, q)
  end.

Fixpoint load_segments (d : list (N * bytes)) (max : Z) : option (list seg) :=
  match d with
  | [] => Some []
  | (id, f) :: r =>
    match new_segment id f max, load_segments r max with
    | Some s, Some l => Some (s :: l)
    | _, _ => None
    end
  end.

(* queue.Open *)
Definition q_open (q : queue) : rc * queue :=
  match load_segments (disk_of q) (qmaxseg q) with
  | None => (Other, q)
  | Some segs =>
    let q1 := mkQ segs true (qmaxseg q) (qmaxsize q) (qcap q) [] in
    match (match segs with [] => add_segment q1 | _ => Some q1 end) with
    | None => (Other, q1)
    | Some q2 =>
      match qsegs q2 with
      | [] => (Panic, q2)                                   (* l.segments[0]: cannot happen *)
      | h :: tl =>
        match seg_current h with
        | (EOF, _, h') => trim_head (set_segs q2 (h' :: tl))
        | (Panic, _, h') => (Panic, set_segs q2 (h' :: tl))
        | (_, _, h') => (Ok, set_segs q2 (h' :: tl))
        end
      end
    end
  end.

Fixpoint close_all (l : list seg) : rc * list seg :=
  match l with
  | [] => (Ok, [])
  | s :: r =>
    match seg_close s with
    | (Ok, s') => let '(e, r') := close_all r in (e, s' :: r')
    | (e, s') => (e, s' :: r)
    end
  end.

(* queue.Close *)
Definition q_close (q : queue) : rc * queue :=
  if qopen q then
    match close_all (qsegs q) with
    | (Ok, l) => (Ok, mkQ [] false (qmaxseg q) (qmaxsize q) (qcap q) (files_of l))
    | (e, l) => (e, set_segs q l)
    end
  else (Ok, q).

Definition upd_last (l : list seg) (s : seg) : list seg := removelast l ++ [s].
Definition upd_head (l : list seg) (s : seg) : list seg := s :: tl l.

(* queue.Append(b) entered while [nb] other appenders hold a limiter token and left
   while [na] others hold one *)
Definition q_append (q : queue) (b : block) (nb na : Z) : rc * queue :=
  if nb >=? qcap q then (Blocked, q)
  else if negb (qopen q) then (NotOpen, q)
  else if disk_usage q + zlen b >? qmaxsize q then (QueueFull, q)
  else
    let buffered := nb + 1 >=? c04_buffer_threshold in
    let '(r, q1) :=
      match seg_append (last (qsegs q) (mkSeg 0 [] 0 0 0 0 0 [])) b buffered with
      | (SegFull, t1) =>
        match add_segment (set_segs q (upd_last (qsegs q) t1)) with
        | None => (Other, set_segs q (upd_last (qsegs q) t1))
        | Some q' =>
          let '(r2, t2) := seg_append (last (qsegs q') (mkSeg 0 [] 0 0 0 0 0 [])) b buffered in
          (r2, set_segs q' (upd_last (qsegs q') t2))
        end
      | (r1, t1) => (r1, set_segs q (upd_last (qsegs q) t1))
      end in
    if buffered && (na + 1 <=? c04_last_writer_bound) then
      (r, set_segs q1 (upd_last (qsegs q1) (snd (seg_flush (last (qsegs q1) (mkSeg 0 [] 0 0 0 0 0 []))))))
    else (r, q1).

(* queue.Current *)
Definition q_current (q : queue) : rc * bytes * queue :=
  match qsegs q with
  | [] => (NotOpen, [], q)
  | h :: tl => let '(r, b, h') := seg_current h in (r, b, set_segs q (h' :: tl))
  end.

(* queue.Truncate *)
Definition q_truncate (q : queue) : rc * queue :=
  match qsegs q with
  | [] => (NotOpen, q)
  | h :: tl => let '(r, h') := seg_truncate h in (r, set_segs q (h' :: tl))
  end.

(* queue.Advance: every error of segment.advance except EOF is swallowed *)
Definition q_advance (q : queue) : rc * queue :=
  match qsegs q with
  | [] => (NotOpen, q)
  | h :: tl =>
    match seg_advance h with
    | (EOF, h') => trim_head (set_segs q (h' :: tl))
    | (_, h') => (Ok, set_segs q (h' :: tl))
    end
  end.

(* queue.advanceSegment (used by SendWrite after Current reported io.EOF): drops the head
   segment only when nothing in it is unread, never moves past a block *)
Definition q_advance_segment (q : queue) : rc * queue :=
  match qsegs q with
  | [] => (NotOpen, q)
  | h :: _ => if seg_empty h then trim_head q else (Ok, q)
  end.

(* queue.SetMaxSegmentSize *)
Definition q_set_max (q : queue) (n : Z) : rc * queue :=
  let q1 := set_maxseg (set_segs q (map (fun s => set_max s n) (qsegs q))) n in
  match qsegs q1 with
  | [] => (Panic, q1)                                      (* l.tail is nil *)
  | _ =>
    if ssize (last (qsegs q1) (mkSeg 0 [] 0 0 0 0 0 [])) >=? n then
      match add_segment q1 with
      | Some q2 => (Ok, q2)
      | None => (Other, q1)
      end
    else (Ok, q1)
  end.

(* queue.PurgeOlderThan: [old] = ids of the segment files whose mtime is before the cutoff
   (age is an oracle; a segment created by the call itself is never old) *)
Fixpoint purge_loop (fuel : nat) (old : list N) (q : queue) : rc * queue :=
  match fuel with
  | O => (Ok, q)
  | S f =>
    match qsegs q with
    | [] => (Ok, q)
    | h :: tl =>
      if existsb (N.eqb (sid h)) old then
        match (match tl with [] => add_segment q | _ => Some q end) with
        | None => (Other, q)
        | Some q1 =>
          match trim_head q1 with
          | (Ok, q2) => purge_loop f old q2
          | r => r
          end
        end
      else (Ok, q)
    end
  end.
Definition q_purge (q : queue) (old : list N) : rc * queue :=
  let present := map sid (qsegs q) in
  purge_loop (S (length (qsegs q))) (filter (fun id => existsb (N.eqb id) present) old) q.

(* queue.Empty, as repaired *)
Definition q_empty (q : queue) : bool :=
  match qsegs q with
  | [] => true
  | l => forallb seg_empty l
  end.

(* queue.Empty of the pinned tree: head offset compared with the OS file cursor *)
Definition q_empty_cursor (q : queue) : bool :=
  match qsegs q with
  | [] => true
  | [s] => spos s =? scur s - 8
  | _ => false
  end.

(* a new process opens the directory (crash at rest, or after Close) *)
Definition q_fresh (q : queue) : rc * queue :=
  q_open (new_queue (disk_of q) (qmaxsize q) (qcap q)).

(* ------------------------------------------------------------------ *)
(* operations and observations *)

Inductive op :=
| OAppend (b : block) (nb na : Z)
| OCurrent
| OAdvance
| OAdvSeg
| OTruncate
| OSetMax (n : Z)
| OPurge (old : list N)
| OClose
| OOpen
| OFresh.

(* what a caller sees from one call *)
Definition step (q : queue) (o : op) : rc * bytes * queue :=
  match o with
  | OAppend b nb na => let '(r, q') := q_append q b nb na in (r, [], q')
  | OCurrent => q_current q
  | OAdvance => let '(r, q') := q_advance q in (r, [], q')
  | OAdvSeg => let '(r, q') := q_advance_segment q in (r, [], q')
  | OTruncate => let '(r, q') := q_truncate q in (r, [], q')
  | OSetMax n => let '(r, q') := q_set_max q n in (r, [], q')
  | OPurge old => let '(r, q') := q_purge q old in (r, [], q')
  | OClose => let '(r, q') := q_close q in (r, [], q')
  | OOpen => let '(r, q') := q_open q in (r, [], q')
  | OFresh => let '(r, q') := q_fresh q in (r, [], q')
  end.

Fixpoint run (q : queue) (ops : list op) : queue :=
  match ops with
  | [] => q
  | o :: r => run (snd (step q o)) r
  end.

(* ------------------------------------------------------------------ *)
(* blocks held by a state, read back by an independent frame parser *)

Fixpoint parse_frames (fuel : nat) (s : bytes) : list block :=
  match fuel with
  | O => []
  | S f =>
    match take 8 s with
    | None => []
    | Some (h, r) =>
      if (N.of_nat (length r) <? be_dec h)%N then []
      else match take (N.to_nat (be_dec h)) r with
           | None => []
           | Some (b, r') => b :: parse_frames f r'
           end
    end
  end.

Definition file_blocks (f : bytes) (pos : Z) : list block :=
  if (pos <? 0) || (zlen f <? pos) then []
  else
    let body := firstn (length f - 8)%nat f in
    parse_frames (S (length f)) (skipn (Z.to_nat pos) body).

Definition seg_visible (s : seg) : list block := file_blocks (sfile s) (spos s).
Definition seg_buffered (s : seg) : list block := parse_frames (S (length (sbuf s))) (sbuf s).
Definition seg_pending (s : seg) : list block := seg_visible s ++ seg_buffered s.

(* blocks a directory holds for a reader: per file, from the head offset in its footer *)
Definition disk_file_blocks (f : bytes) : list block :=
  match take (length f - 8)%nat f with
  | Some (_, ft) => file_blocks f (rd64 ft)
  | None => []
  end.
Definition disk_blocks (d : list (N * bytes)) : list block := flat_map (fun e => disk_file_blocks (snd e)) d.

Definition pending (q : queue) : list block :=
  if qopen q then flat_map seg_pending (qsegs q) else disk_blocks (qdisk q).

(* ------------------------------------------------------------------ *)
(* crash images: a write of [d] at offset [o] was in flight; the first [c] bytes reached the file *)
Definition torn (f : bytes) (o : nat) (d : bytes) (c : nat) : bytes := pwrite f o (firstn c d).

(* ------------------------------------------------------------------ *)
(* node_processor.go: marshalWrite / unmarshalWrite / WriteShard *)

(* marshalWrite(shardID, points): points are their MarshalBinary images *)
Definition be32 (n : nat) : bytes := be_enc 4 (N.of_nat n mod 4294967296).
Definition marshal_points (pts : list bytes) : bytes := flat_map (fun p => be32 (length p) ++ p) pts.
Definition marshal_write (shard : N) (pts : list bytes) : bytes := be_enc 8 shard ++ marshal_points pts.

Inductive um_out :=
| UmOk (shard : N) (pts : list bytes)
| UmTooShort                                 (* len(b) < 8 *)
| UmShortBuffer (shard : N) (pts : list bytes).

Fixpoint unmarshal_points (fuel : nat) (b : bytes) (acc : list bytes) : option (list bytes) * list bytes :=
  match b with
  | [] => (Some (rev acc), [])
  | _ =>
    match fuel with
    | O => (None, rev acc)                     (* excluded: fuel = length b + 1 suffices *)
    | S f =>
      match take 4 b with
      | None => (None, rev acc)
      | Some (h, r) =>
        if (N.of_nat (length r) <? be_dec h)%N then (None, rev acc)
        else match take (N.to_nat (be_dec h)) r with
             | None => (None, rev acc)
             | Some (p, r') => unmarshal_points f r' (p :: acc)
             end
      end
    end
  end.

Definition unmarshal_write (b : bytes) : um_out :=
  match take 8 b with
  | None => UmTooShort
  | Some (h, r) =>
    match unmarshal_points (S (length r)) r [] with
    | (Some pts, _) => UmOk (be_dec h) pts
    | (None, pts) => UmShortBuffer (be_dec h) pts
    end
  end.

(* length of marshalWrite(shard, pts) from the sizes of the points *)
Definition block_len {A} (sz : A -> Z) (pts : list A) : Z :=
  8 + fold_right (fun p a => 4 + sz p + a) 0 pts.

(* The loop of WriteShard over points[i:j].  [append] is queue.Append seen as an oracle
   (true = nil error).  Result: blocks handed to Append in order, and the outcome. *)
Inductive ws_out := WsOk | WsSegFull | WsAppendErr.

(* inner loop: shrink j until marshalWrite(points[i:j]) fits; pts = points[i:j] *)
Fixpoint ws_shrink {A} (sz : A -> Z) (limit : Z) (fuel : nat) (pts : list A) : option (list A) :=
  if block_len sz pts >? limit then
    match fuel with
    | O => None
    | S f =>
      if (length pts =? 1)%nat then None                         (* j == i+1: ErrSegmentFull *)
      else ws_shrink sz limit f (firstn ((length pts + 1) / 2)%nat pts)   (* j = (i+j+1)/2 *)
    end
  else Some pts.

Fixpoint ws_loop {A} (sz : A -> Z) (limit : Z) (fuel : nat) (accept : nat -> bool) (k : nat)
         (pts : list A) : list (list A) * ws_out :=
  match pts with
  | [] => ([], WsOk)                                              (* i < j fails *)
  | _ =>
    match fuel with
    | O => ([], WsOk)
    | S f =>
      match ws_shrink sz limit (S (length pts)) pts with
      | None => ([], WsSegFull)
      | Some blk =>
        if accept k then
          let '(bl, o) := ws_loop sz limit f accept (S k) (skipn (length blk) pts) in
          (blk :: bl, o)
        else ([blk], WsAppendErr)
      end
    end
  end.

Definition write_shard {A} (sz : A -> Z) (limit : Z) (accept : nat -> bool) (pts : list A) :=
  ws_loop sz limit (S (length pts)) accept 0 pts.
