(* C04/ProofsSplit.v — marshalWrite/unmarshalWrite and the WriteShard bisection. *)
From Verif Require Import Lib.Bytes C04.Model C04.Spec.
From VerifGen Require Import Consts.
From Coq Require Import ZifyBool ZifyNat ZifyN.
Open Scope Z_scope.

(* ---------- marshalWrite / unmarshalWrite ---------- *)

Lemma be32_length n : length (be32 n) = 4%nat.
Proof. apply be_enc_length. Qed.

Lemma be32_dec n : (N.of_nat n < 4294967296)%N -> be_dec (be32 n) = N.of_nat n.
Proof.
  intros H. unfold be32. rewrite N.mod_small by exact H.
  apply be_dec_enc. change (256 ^ N.of_nat 4)%N with 4294967296%N. exact H.
Qed.

Lemma unmarshal_points_marshal pts : forall fuel acc,
  Forall (fun p => (N.of_nat (length p) < 4294967296)%N) pts ->
  (length pts < fuel)%nat ->
  unmarshal_points fuel (marshal_points pts) acc = (Some (rev acc ++ pts), []).
Proof.
  induction pts as [|p pts IH]; intros fuel acc HF Hfuel.
  - destruct fuel; cbn; rewrite app_nil_r; reflexivity.
  - inversion HF as [|? ? Hp HF']; subst.
    destruct fuel as [|f]; [cbn in Hfuel; lia|].
    cbn [marshal_points flat_map]. fold (marshal_points pts).
    destruct ((be32 (length p) ++ p) ++ marshal_points pts) as [|x xs] eqn:E.
    { exfalso. apply (f_equal (@length _)) in E. rewrite !app_length, be32_length in E. cbn in E. lia. }
    cbn [unmarshal_points].
    rewrite <- E. rewrite <- app_assoc.
    replace 4%nat with (length (be32 (length p))) at 1 by apply be32_length.
    rewrite take_app. rewrite be32_dec by exact Hp.
    destruct (N.ltb_spec (N.of_nat (length (p ++ marshal_points pts))) (N.of_nat (length p))) as [Hlt|Hge].
    { rewrite app_length in Hlt. lia. }
    rewrite Nat2N.id. rewrite take_app.
    rewrite IH; [|exact HF'|cbn in Hfuel; lia].
    cbn [rev]. rewrite <- app_assoc. reflexivity.
Qed.

Lemma marshal_points_length pts : (length pts <= length (marshal_points pts))%nat.
Proof.
  induction pts as [|p pts IH]; cbn [marshal_points flat_map length]; [lia|].
  fold (marshal_points pts). rewrite !app_length, be32_length. lia.
Qed.

Lemma marshal_unmarshal_roundtrip_l shard pts :
  (shard < 18446744073709551616)%N ->
  Forall (fun p => (N.of_nat (length p) < 4294967296)%N) pts ->
  unmarshal_write (marshal_write shard pts) = UmOk shard pts.
Proof.
  intros Hs HF. unfold unmarshal_write, marshal_write.
  replace 8%nat with (length (be_enc 8 shard)) at 1 by apply be_enc_length.
  rewrite take_app.
  rewrite unmarshal_points_marshal; [|exact HF|pose proof (marshal_points_length pts) as Hm; apply Nat.lt_succ_r; exact Hm].
  cbn [rev app]. rewrite be_dec_enc by exact Hs. reflexivity.
Qed.

(* marshalWrite output is never shorter than its 8-byte shard id, hence never empty *)
Lemma marshal_write_length shard pts :
  zlen (marshal_write shard pts) = block_len zlen pts.
Proof.
  unfold marshal_write, block_len, zlen. rewrite app_length, be_enc_length.
  induction pts as [|p pts IH]; cbn [marshal_points flat_map fold_right length]; [lia|].
  fold (marshal_points pts). rewrite !app_length, be32_length. lia.
Qed.

Lemma marshal_write_nonempty shard pts : marshal_write shard pts <> [].
Proof.
  intros H. apply (f_equal (@length _)) in H. unfold marshal_write in H.
  rewrite app_length, be_enc_length in H. cbn in H. lia.
Qed.

(* fuel independence: with fuel > length b the out-of-fuel branch is never taken *)
Lemma unmarshal_points_fuel : forall f1 f2 b acc,
  (length b < f1)%nat -> (length b < f2)%nat ->
  unmarshal_points f1 b acc = unmarshal_points f2 b acc.
Proof.
  induction f1 as [|f1 IH]; intros f2 b acc H1 H2; [lia|].
  destruct f2 as [|f2]; [lia|].
  destruct b as [|x xs]; [reflexivity|].
  cbn [unmarshal_points].
  destruct (take 4 (x :: xs)) as [[h r]|] eqn:E1; [|reflexivity].
  destruct (N.ltb (N.of_nat (length r)) (be_dec h)); [reflexivity|].
  destruct (take (N.to_nat (be_dec h)) r) as [[p r']|] eqn:E3; [|reflexivity].
  apply take_some in E1. destruct E1 as [E1 L1].
  apply take_some in E3. destruct E3 as [E3 L3].
  assert (length r' < length (x :: xs))%nat.
  { rewrite E1, app_length. subst r. rewrite app_length. lia. }
  apply IH; lia.
Qed.

(* whatever unmarshalWrite accepts is a sequence of 4-byte-length-prefixed points: every
   slice expression of the Go loop is in range (the model reads through checked [take]s) *)
Inductive framed4 : bytes -> list bytes -> Prop :=
| f4_nil : framed4 [] []
| f4_cons h p b ps : length h = 4%nat -> be_dec h = N.of_nat (length p) -> framed4 b ps ->
                     framed4 (h ++ p ++ b) (p :: ps).

Lemma unmarshal_points_inv : forall fuel b acc pts rest,
  unmarshal_points fuel b acc = (Some pts, rest) ->
  exists ps, pts = rev acc ++ ps /\ framed4 b ps.
Proof.
  induction fuel as [|f IH]; intros b acc pts rest H.
  - destruct b; cbn in H; [|discriminate]. inversion H; subst.
    exists []. rewrite app_nil_r. split; [reflexivity|constructor].
  - destruct b as [|x xs].
    { cbn in H. inversion H; subst. exists []. rewrite app_nil_r. split; [reflexivity|constructor]. }
    cbn [unmarshal_points] in H.
    destruct (take 4 (x :: xs)) as [[h r]|] eqn:E1; [|discriminate].
    destruct (N.ltb (N.of_nat (length r)) (be_dec h)) eqn:E2; [discriminate|].
    destruct (take (N.to_nat (be_dec h)) r) as [[p r']|] eqn:E3; [|discriminate].
    apply IH in H. destruct H as [ps [Hp Hf]].
    apply take_some in E1. destruct E1 as [E1 L1].
    apply take_some in E3. destruct E3 as [E3 L3].
    exists (p :: ps). split.
    + rewrite Hp. cbn [rev]. rewrite <- app_assoc. reflexivity.
    + rewrite E1, E3. constructor; [exact L1|lia|exact Hf].
Qed.

Lemma unmarshal_write_inv b :
  match unmarshal_write b with
  | UmOk shard pts => exists hdr body, b = hdr ++ body /\ length hdr = 8%nat /\
                                      shard = be_dec hdr /\ framed4 body pts
  | UmTooShort => (length b < 8)%nat
  | UmShortBuffer _ _ => (8 <= length b)%nat
  end.
Proof.
  unfold unmarshal_write.
  destruct (take 8 b) as [[h r]|] eqn:E.
  - pose proof (take_some _ _ _ _ E) as [Eb Lh].
    destruct (unmarshal_points (S (length r)) r []) as [[pts|] rest] eqn:E2.
    + apply unmarshal_points_inv in E2. destruct E2 as [ps [Hp Hf]]. cbn in Hp. subst pts.
      exists h, r. auto.
    + subst b. rewrite app_length. lia.
  - apply take_none in E. exact E.
Qed.

(* ---------- WriteShard ---------- *)

Section Split.
Context {A : Type} (sz : A -> Z) (limit : Z).

Lemma ws_shrink_spec : forall fuel pts,
  pts <> [] -> (length pts <= fuel)%nat ->
  match ws_shrink sz limit fuel pts with
  | Some blk => exists k, (0 < k <= length pts)%nat /\ blk = firstn k pts /\ block_len sz blk <= limit
  | None => block_len sz (firstn 1 pts) > limit
  end.
Proof.
  induction fuel as [|f IH]; intros pts Hne Hlen.
  - destruct pts; [congruence|cbn in Hlen; lia].
  - cbn [ws_shrink].
    destruct (Z.gtb_spec (block_len sz pts) limit) as [Hgt|Hle].
    + destruct (Nat.eqb_spec (length pts) 1) as [H1|H1].
      * destruct pts as [|a [|b r]]; cbn in H1; try lia. cbn [firstn]. lia.
      * assert (Hn : (2 <= length pts)%nat) by (destruct pts as [|a [|b r]]; cbn in *; try congruence; lia).
        set (h := ((length pts + 1) / 2)%nat).
        assert (Hh : (1 <= h < length pts)%nat).
        { unfold h. split.
          - apply Nat.div_le_lower_bound; lia.
          - apply Nat.div_lt_upper_bound; lia. }
        clearbody h.
        assert (Hl : length (firstn h pts) = h) by (rewrite firstn_length; lia).
        specialize (IH (firstn h pts)).
        assert (Hne' : firstn h pts <> []).
        { intros E. rewrite E in Hl. cbn in Hl. lia. }
        specialize (IH Hne' ltac:(lia)).
        destruct (ws_shrink sz limit f (firstn h pts)) as [blk|].
        -- destruct IH as [k [Hk [Hb Hbl]]]. exists k. rewrite Hl in Hk. split; [lia|]. split; [|exact Hbl].
           rewrite Hb. rewrite firstn_firstn. f_equal. lia.
        -- rewrite firstn_firstn in IH. replace (Nat.min 1 h) with 1%nat in IH by lia. exact IH.
    + exists (length pts). split; [destruct pts; [congruence|cbn; lia]|]. split; [rewrite firstn_all; reflexivity|lia].
Qed.

(* all the facts about one run of the WriteShard loop *)
Lemma ws_loop_spec : forall fuel accept k pts,
  (length pts <= fuel)%nat ->
  let '(blocks, out) := ws_loop sz limit fuel accept k pts in
  (exists rest, pts = concat blocks ++ rest /\
     match out with
     | WsOk => rest = []
     | WsSegFull => exists p r, rest = p :: r /\ block_len sz [p] > limit
     | WsAppendErr => True
     end) /\
  Forall (fun blk => blk <> [] /\ block_len sz blk <= limit) blocks.
Proof.
  induction fuel as [|f IH]; intros accept k pts Hlen.
  - destruct pts; [|cbn in Hlen; lia]. cbn. split; [exists []; split; reflexivity|constructor].
  - destruct pts as [|a r]; [cbn; split; [exists []; split; reflexivity|constructor]|].
    cbn [ws_loop].
    pose proof (ws_shrink_spec (S (length (a :: r))) (a :: r) ltac:(discriminate) ltac:(lia)) as HS.
    destruct (ws_shrink sz limit (S (length (a :: r))) (a :: r)) as [blk|].
    + destruct HS as [n [Hn [Hb Hbl]]].
      assert (Hlb : length blk = n) by (rewrite Hb, firstn_length; lia).
      assert (Hbne : blk <> []) by (intros E; rewrite E in Hlb; cbn in Hlb; lia).
      destruct (accept k).
      * specialize (IH accept (S k) (skipn (length blk) (a :: r))).
        assert (Hl2 : (length (skipn (length blk) (a :: r)) <= f)%nat).
        { rewrite skipn_length. cbn [length] in *. lia. }
        specialize (IH Hl2).
        destruct (ws_loop sz limit f accept (S k) (skipn (length blk) (a :: r))) as [bl o].
        destruct IH as [[rest [Hc Ho]] HF].
        split.
        -- exists rest. split; [|exact Ho].
           cbn [concat]. rewrite <- app_assoc, <- Hc, Hb.
           rewrite firstn_length. replace (Nat.min n (length (a :: r))) with n by lia.
           symmetry. apply firstn_skipn.
        -- constructor; [split; [exact Hbne|exact Hbl]|exact HF].
      * split.
        -- exists (skipn n (a :: r)). split; [|exact I].
           cbn [concat]. rewrite app_nil_r, Hb. symmetry. apply firstn_skipn.
        -- constructor; [split; [exact Hbne|exact Hbl]|constructor].
    + split; [|constructor].
      exists (a :: r). split; [reflexivity|]. exists a, r. split; [reflexivity|]. cbn [firstn] in HS. exact HS.
Qed.

Lemma write_shard_spec accept pts :
  let '(blocks, out) := write_shard sz limit accept pts in
  (exists rest, pts = concat blocks ++ rest /\
     match out with
     | WsOk => rest = []
     | WsSegFull => exists p r, rest = p :: r /\ block_len sz [p] > limit
     | WsAppendErr => True
     end) /\
  Forall (fun blk => blk <> [] /\ block_len sz blk <= limit) blocks.
Proof. unfold write_shard. apply ws_loop_spec. lia. Qed.

(* more fuel changes nothing *)
Lemma ws_shrink_fuel : forall f1 f2 pts,
  pts <> [] -> (length pts <= f1)%nat -> (length pts <= f2)%nat ->
  ws_shrink sz limit f1 pts = ws_shrink sz limit f2 pts.
Proof.
  induction f1 as [|f1 IH]; intros f2 pts Hne H1 H2.
  - destruct pts; [congruence|cbn in H1; lia].
  - destruct f2 as [|f2]; [destruct pts; [congruence|cbn in H2; lia]|].
    cbn [ws_shrink].
    destruct (block_len sz pts >? limit); [|reflexivity].
    destruct (Nat.eqb_spec (length pts) 1) as [E|E]; [reflexivity|].
    assert (Hn : (2 <= length pts)%nat) by (destruct pts as [|a [|b r]]; cbn in *; try congruence; lia).
    set (h := ((length pts + 1) / 2)%nat).
    assert (Hh : (1 <= h < length pts)%nat).
    { unfold h. split; [apply Nat.div_le_lower_bound; lia|apply Nat.div_lt_upper_bound; lia]. }
    clearbody h.
    assert (Hl : length (firstn h pts) = h) by (rewrite firstn_length; lia).
    apply IH; try lia.
    intros E'. rewrite E' in Hl. cbn in Hl. lia.
Qed.

End Split.

(* the executable check of Spec.v accepts what the model produces, for every batch *)
Lemma split_ok_prefix {A} (eqb : A -> A -> bool) (Heq : forall a, eqb a a = true) :
  forall (a rest : list A),
  (fix pre (a b : list A) := match a, b with
                             | [], _ => true
                             | x :: a', y :: b' => eqb x y && pre a' b'
                             | _ :: _, [] => false end) a (a ++ rest) = true.
Proof. induction a as [|x a IH]; intros rest; cbn; [reflexivity|]. rewrite Heq, IH. reflexivity. Qed.

Lemma split_ok_model {A} (sz : A -> Z) limit (eqb : A -> A -> bool) (Heq : forall a, eqb a a = true)
      accept pts :
  let '(blocks, out) := write_shard sz limit accept pts in
  split_ok sz limit eqb pts blocks (match out with WsOk => true | _ => false end) = true.
Proof.
  pose proof (write_shard_spec sz limit accept pts) as H.
  destruct (write_shard sz limit accept pts) as [blocks out].
  destruct H as [[rest [Hc Ho]] HF].
  unfold split_ok. rewrite Hc at 1. rewrite (split_ok_prefix eqb Heq). cbn [andb].
  apply andb_true_iff. split.
  - destruct out; try reflexivity. subst rest. rewrite app_nil_r in Hc. rewrite <- Hc. apply Nat.eqb_refl.
  - apply forallb_forall. intros blk Hin. rewrite Forall_forall in HF. destruct (HF blk Hin) as [Hne Hl].
    apply andb_true_iff. split; [destruct blk; [congruence|reflexivity]|lia].
Qed.
