(* C04/ProofsLink.v — the model refines the FIFO specification: the executable spec of
   Spec.v never reports a violation on the model's own observations, for every sequence
   of operations, and the spec's pending list is the model's pending list. *)
From Verif Require Import Lib.Bytes C04.Model C04.Spec C04.ProofsSeg C04.ProofsQueue.
From VerifGen Require Import Consts.
From Coq Require Import ZifyBool ZifyNat ZifyN.
Open Scope Z_scope.

Record link (q : queue) (al : list aseg) (st : sst) : Prop := mkLink {
  lk_pend : s_pend st = apend al;
  lk_open : s_open st = qopen q;
  lk_max : s_max st = qmaxseg q;
  lk_nbuf : (length (abuf al) <= s_nbuf st)%nat
}.

Lemma bytes_eqb_refl a : bytes_eqb a a = true.
Proof. induction a as [|x a IH]; [reflexivity|]. cbn. rewrite N.eqb_refl, IH. reflexivity. Qed.

Lemma blocks_eqb_refl a : blocks_eqb a a = true.
Proof. induction a as [|x a IH]; [reflexivity|]. cbn. rewrite bytes_eqb_refl, IH. reflexivity. Qed.

Lemma blocks_prefix_app a r : blocks_prefix a (a ++ r) = true.
Proof. induction a as [|x a IH]; [reflexivity|]. cbn. rewrite bytes_eqb_refl, IH. reflexivity. Qed.

Lemma flat_map_nil_inv {A B} (f : A -> list B) l : flat_map f l = [] -> Forall (fun a => f a = []) l.
Proof.
  induction l as [|a l IH]; intros H; [constructor|].
  cbn in H. apply app_eq_nil in H. destruct H. constructor; auto.
Qed.

Lemma nbuf0_nobuf al : length (abuf al) = 0%nat -> Forall nobuf al.
Proof. intros H. apply length_zero_iff_nil in H. apply (flat_map_nil_inv _ _ H). Qed.

Lemma apend_avis_split q al : inv q al -> apend al = avis al ++ abuf al.
Proof.
  intros I. pose proof (inv_bufs _ _ I) as Hb. pose proof (inv_state _ _ I) as HS.
  destruct (qopen q).
  - destruct HS as [_ Hne]. destruct (exists_last' _ Hne) as [fr [x E]]. subst al.
    rewrite removelast_last in Hb. rewrite apend_app, avis_app, abuf_app, (apend_nobuf _ Hb), (abuf_nobuf _ Hb).
    cbn. rewrite !app_nil_r, app_assoc. reflexivity.
  - destruct HS as [_ HS]. pose proof (frep_nobuf _ _ HS) as Hn.
    rewrite (apend_nobuf _ Hn), (abuf_nobuf _ Hn), app_nil_r. reflexivity.
Qed.

Lemma spec_post_ok q al st r d hx :
  inv q al -> link q al st ->
  spec_post st (mkObs r d (q_empty q) hx (visible q)) = true.
Proof.
  intros I L. unfold spec_post. cbn [o_empty o_vis].
  rewrite (lk_pend _ _ _ L), (lk_open _ _ _ L), (visible_inv _ _ I).
  rewrite (apend_avis_split _ _ I), blocks_prefix_app, app_length.
  apply andb_true_iff. split; [apply andb_true_iff; split; [|reflexivity]|].
  - destruct (qopen q) eqn:Ho; [|reflexivity].
    rewrite (q_empty_inv _ _ I Ho), (apend_avis_split _ _ I). apply eqb_reflx.
  - apply Nat.leb_le. pose proof (lk_nbuf _ _ _ L). lia.
Qed.

Lemma max_limit_bnd : max_limit = bnd - 8.
Proof. reflexivity. Qed.

(* a discarded prefix passes the spec's suffix test *)
Lemma suffix_check pre vis :
  (length vis <=? length (pre ++ vis))%nat &&
  blocks_eqb (skipn (length (pre ++ vis) - length vis) (pre ++ vis)) vis = true.
Proof.
  rewrite app_length. apply andb_true_iff. split; [apply Nat.leb_le; lia|].
  replace (length pre + length vis - length vis)%nat with (length pre) by lia.
  rewrite skipn_app_exact. apply blocks_eqb_refl.
Qed.

(* operations on a closed queue *)
Lemma closed_segs q al : inv q al -> qopen q = false -> qsegs q = [].
Proof. intros I Ho. pose proof (inv_state _ _ I) as HS. rewrite Ho in HS. apply HS. Qed.

Definition step_ok (q : queue) (al : list aseg) (st : sst) (o : op) : Prop :=
  let '(ob, q') := observe q o in
  match spec_step st o ob with
  | VViolation => False
  | VOutOfScope => True
  | VOk st' => spec_post st' ob = true /\ exists al', inv q' al' /\ link q' al' st'
  end.

Lemma finish q' al' st' r d hx e v :
  inv q' al' -> link q' al' st' -> e = q_empty q' -> v = visible q' ->
  spec_post st' (mkObs r d e hx v) = true /\
  exists al'', inv q' al'' /\ link q' al'' st'.
Proof. intros I L -> ->. split; [apply (spec_post_ok _ _ _ _ _ _ I L)|exists al'; auto]. Qed.

Ltac fin H := eapply finish; [exact H| |reflexivity|first [reflexivity|symmetry; apply (visible_inv _ _ H)]].

Theorem step_sound q al st o : inv q al -> link q al st -> step_ok q al st o.
Proof.
  intros I L. unfold step_ok, observe.
  pose proof (lk_pend _ _ _ L) as Lp. pose proof (lk_open _ _ _ L) as Lo.
  pose proof (lk_max _ _ _ L) as Lm. pose proof (lk_nbuf _ _ _ L) as Ln.
  destruct o as [b nb na| | | | |n|old| | |].
  - (* Append *)
    cbn [step].
    destruct b as [|x xs].
    { destruct (q_append q [] nb na) as [r q']. cbn. exact Logic.I. }
    destruct (qopen q) eqn:Ho.
    + destruct (q_append_inv q al (x :: xs) nb na I Ho ltac:(discriminate)) as [r [segs' [al' [Hq [I' Hres]]]]].
      rewrite Hq. cbn [spec_step is_nil o_rc].
      destruct (rc_eqb r Ok).
      * rewrite Lo. destruct Hres as [Hp Hb]. fin I'.
        constructor; cbn [s_pend s_open s_max s_nbuf]; qset.
        -- rewrite Lp, Hp. reflexivity.
        -- symmetry. exact Ho.
        -- exact Lm.
        -- unfold nbuf_after in Hb.
           destruct ((nb + 1 >=? c04_buffer_threshold) && negb (na + 1 <=? c04_last_writer_bound)); lia.
      * destruct Hres as [Hp Hb]. fin I'.
        constructor; qset; [rewrite Lp, Hp; reflexivity|rewrite Ho; exact Lo|exact Lm|lia].
    + assert (Hq : exists r, q_append q (x :: xs) nb na = (r, q) /\ rc_eqb r Ok = false).
      { unfold q_append. destruct (nb >=? qcap q); [exists Blocked; auto|]. rewrite Ho. exists NotOpen. auto. }
      destruct Hq as [r [Hq Hr]]. rewrite Hq. cbn [spec_step is_nil o_rc]. rewrite Hr.
      first [fin I'; eassumption | fin I; eassumption].
  - (* Current *)
    cbn [step].
    destruct (qopen q) eqn:Ho.
    + destruct (q_current_inv q al I Ho) as [a [rest [E HC]]].
      pose proof (hx_inv _ _ _ _ I Ho E) as Hx.
      destruct (a_t a) as [|b t'] eqn:Et.
      * rewrite HC. cbn [spec_step o_rc o_hx]. rewrite Hx. cbn [is_nil orb]. first [fin I'; eassumption | fin I; eassumption].
      * destruct HC as [segs' [I' HC]]. rewrite HC.
        assert (Hhd : s_pend st = b :: (t' ++ a_bf a ++ apend rest)).
        { rewrite Lp, E. cbn [apend flat_map]. rewrite Et, <- app_assoc. reflexivity. }
        assert (L' : link (set_segs q segs') al st) by (constructor; qset; [exact Lp|rewrite Ho; exact Lo|exact Lm|exact Ln]).
        destruct (zlen b >? qmaxseg q) eqn:Eg.
        -- cbn [spec_step o_rc]. rewrite Hhd, Lm, Eg. first [fin I'; eassumption | fin I; eassumption].
        -- cbn [spec_step o_rc o_data]. rewrite Hhd, bytes_eqb_refl. first [fin I'; eassumption | fin I; eassumption].
    + unfold q_current. rewrite (closed_segs _ _ I Ho). cbn [spec_step o_rc]. rewrite Lo.
      first [fin I'; eassumption | fin I; eassumption].
  - (* Advance *)
    cbn [step].
    destruct (qopen q) eqn:Ho.
    + destruct (q_advance_inv q al I Ho) as [a [rest [E [segs' [al' [HA [I' [[Hab _] Hp]]]]]]]].
      pose proof (hx_inv _ _ _ _ I Ho E) as Hx.
      rewrite HA. cbn [spec_step o_hx]. rewrite Lo, Hx.
      destruct (a_t a) as [|b t'] eqn:Et; cbn [is_nil negb andb].
      * fin I'. constructor; qset; [rewrite Lp, Hp; reflexivity|rewrite Ho; exact Lo|exact Lm|rewrite Hab; exact Ln].
      * rewrite Lp, Hp. fin I'.
        constructor; cbn [s_pend s_open s_max s_nbuf]; qset; [reflexivity|symmetry; exact Ho|exact Lm|rewrite Hab; exact Ln].
    + unfold q_advance. rewrite (closed_segs _ _ I Ho). cbn [spec_step]. rewrite Lo. cbn [andb].
      first [fin I'; eassumption | fin I; eassumption].
  - (* advanceSegment *)
    cbn [step].
    destruct (qopen q) eqn:Ho.
    + destruct (q_advance_segment_inv q al I Ho) as [segs' [al' [HA [I' [Hp Hab]]]]].
      rewrite HA. cbn [spec_step]. fin I'.
      constructor; qset; [rewrite Lp, Hp; reflexivity|rewrite Ho; exact Lo|exact Lm|rewrite Hab; exact Ln].
    + unfold q_advance_segment. rewrite (closed_segs _ _ I Ho). cbn [spec_step]. first [fin I'; eassumption | fin I; eassumption].
  - (* Truncate *)
    cbn [step].
    destruct (qopen q) eqn:Ho.
    + cbn [spec_step]. rewrite Lo. cbn [negb].
      destruct (s_nbuf st) as [|k] eqn:En.
      2:{ destruct (q_truncate q) as [r q']. exact Logic.I. }
      assert (Hnb : Forall nobuf al) by (apply nbuf0_nobuf; lia).
      destruct (q_truncate_inv q al I Ho) as [a [rest [E HT]]].
      destruct (a_t a) as [|b t'] eqn:Et.
      * rewrite HT. cbn [o_vis]. rewrite (visible_inv _ _ I), Lp, (apend_nobuf _ Hnb).
        pose proof (suffix_check [] (avis al)) as Hs. cbn [app] in Hs. rewrite Hs.
        fin I.
        constructor; cbn [s_pend s_open s_max s_nbuf]; [symmetry; apply apend_nobuf; exact Hnb|symmetry; exact Ho|exact Lm|rewrite (abuf_nobuf _ Hnb); cbn; lia].
      * destruct HT as [segs' [HT I']]. rewrite HT. cbn [o_vis].
        set (al' := mkA (a_id a) (a_d a) [] (a_bf a) :: rest) in *.
        assert (Hnb' : Forall nobuf al').
        { subst al. inversion Hnb; subst. constructor; assumption. }
        rewrite (visible_inv _ _ I'), Lp.
        assert (Hsp : apend al = (b :: t') ++ avis al').
        { rewrite <- (apend_nobuf _ Hnb'). subst al al'. cbn [apend flat_map a_t a_bf]. rewrite Et.
          inversion Hnb as [|? ? Ha _]; subst. unfold nobuf in Ha. rewrite Ha. cbn. rewrite app_nil_r. reflexivity. }
        rewrite Hsp, suffix_check.
        fin I'.
        constructor; cbn [s_pend s_open s_max s_nbuf]; qset; [symmetry; apply apend_nobuf; exact Hnb'|symmetry; exact Ho|exact Lm|rewrite (abuf_nobuf _ Hnb'); cbn; lia].
    + unfold q_truncate. rewrite (closed_segs _ _ I Ho). cbn [spec_step]. rewrite Lo. cbn [negb].
      first [fin I'; eassumption | fin I; eassumption].
  - (* SetMax *)
    cbn [step spec_step]. rewrite Lo.
    destruct (qopen q) eqn:Ho; cbn [negb].
    2:{ destruct (q_set_max q n) as [r q']. exact Logic.I. }
    destruct (Z.gtb_spec n max_limit) as [Hgt|Hle].
    { destruct (q_set_max q n) as [r q']. exact Logic.I. }
    destruct (s_nbuf st) as [|k] eqn:En.
    2:{ destruct (q_set_max q n) as [r q']. exact Logic.I. }
    assert (Hnb : Forall nobuf al) by (apply nbuf0_nobuf; lia).
    rewrite max_limit_bnd in Hle.
    destruct (q_set_max_inv q al n I Ho Hle Hnb) as [q' [al' [HQ [I' [Hp [Hnb' [Ho' Hm']]]]]]].
    rewrite HQ. fin I'.
    constructor; cbn [s_pend s_open s_max s_nbuf]; [rewrite Lp, Hp; reflexivity|symmetry; exact Ho'|symmetry; exact Hm'|rewrite (abuf_nobuf _ Hnb'); cbn; lia].
  - (* Purge *)
    cbn [step].
    destruct (qopen q) eqn:Ho.
    + cbn [spec_step]. rewrite Lo. cbn [negb].
      destruct (s_nbuf st) as [|k] eqn:En.
      2:{ destruct (q_purge q old) as [r q']. exact Logic.I. }
      assert (Hnb : Forall nobuf al) by (apply nbuf0_nobuf; lia).
      destruct (q_purge_inv q al old I Ho Hnb) as [q' [al' [HQ [I' [[pre Hp] [Hnb' [Ho' Hm']]]]]]].
      rewrite HQ. cbn [o_vis]. rewrite (visible_inv _ _ I'), Lp, Hp, (apend_nobuf _ Hnb'), suffix_check.
      fin I'.
      constructor; cbn [s_pend s_open s_max s_nbuf]; [symmetry; apply apend_nobuf; exact Hnb'|symmetry; exact Ho'|rewrite Hm'; exact Lm|rewrite (abuf_nobuf _ Hnb'); cbn; lia].
    + assert (HQ : q_purge q old = (Ok, q)).
      { unfold q_purge. rewrite (closed_segs _ _ I Ho). cbn. rewrite (closed_segs _ _ I Ho). reflexivity. }
      rewrite HQ. cbn [spec_step]. rewrite Lo. cbn [negb]. first [fin I'; eassumption | fin I; eassumption].
  - (* Close *)
    cbn [step spec_step].
    destruct (q_close_inv q al I) as [q' [al' [HQ [I' [Hp [Hnb' [Ho' Hm']]]]]]].
    rewrite HQ. fin I'.
    constructor; cbn [s_pend s_open s_max s_nbuf]; [rewrite Lp, Hp; reflexivity|symmetry; exact Ho'|rewrite Hm'; exact Lm|rewrite (abuf_nobuf _ Hnb'); cbn; lia].
  - (* Open *)
    cbn [step spec_step]. rewrite Lo.
    destruct (qopen q) eqn:Ho.
    { destruct (q_open q) as [r q']. exact Logic.I. }
    destruct (q_open_closed_inv q al I Ho) as [q' [al' [HQ [I' [Hp [Hnb' [Ho' Hm']]]]]]].
    rewrite HQ. fin I'.
    constructor; cbn [s_pend s_open s_max s_nbuf]; [rewrite Lp, Hp; reflexivity|symmetry; exact Ho'|rewrite Hm'; exact Lm|rewrite (abuf_nobuf _ Hnb'); cbn; lia].
  - (* Fresh *)
    cbn [step spec_step].
    destruct (s_nbuf st) as [|k] eqn:En.
    2:{ destruct (q_fresh q) as [r q']. exact Logic.I. }
    assert (Hnb : Forall nobuf al) by (apply nbuf0_nobuf; lia).
    destruct (q_fresh_inv q al I Hnb) as [q' [al' [HQ [I' [Hp [Hnb' [Ho' Hm']]]]]]].
    rewrite HQ. fin I'.
    constructor; cbn [s_pend s_open s_max s_nbuf]; [rewrite Lp, Hp; reflexivity|symmetry; exact Ho'|symmetry; exact Hm'|rewrite (abuf_nobuf _ Hnb'); cbn; lia].
Qed.

(* ---------- sequences ---------- *)

Lemma observe_snd q o : snd (observe q o) = snd (step q o).
Proof. unfold observe. destruct (step q o) as [[r d] q']. reflexivity. Qed.

Theorem trace_sound : forall ops q al st k,
  inv q al -> link q al st ->
  match spec_run k st (trace q ops) with
  | RViolation _ => False
  | ROutOfScope _ => True
  | ROk st' => exists al', inv (run q ops) al' /\ link (run q ops) al' st'
  end.
Proof.
  induction ops as [|o ops IH]; intros q al st k I L.
  - cbn. exists al. auto.
  - cbn [trace run]. pose proof (step_sound q al st o I L) as HS. unfold step_ok in HS.
    rewrite <- observe_snd.
    destruct (observe q o) as [ob q'] eqn:Eo. cbn [snd spec_run].
    destruct (spec_step st o ob) as [st'| |]; [|exact HS|exact Logic.I].
    destruct HS as [Hpost [al' [I' L']]]. rewrite Hpost.
    apply (IH q' al' st' (S k) I' L').
Qed.

(* the initial state: a queue object created and opened on an empty directory *)
Lemma q_init_inv maxsize cap :
  exists al, inv (q_init maxsize cap) al /\ link (q_init maxsize cap) al spec_init.
Proof.
  unfold q_init.
  assert (I0 : inv (new_queue [] maxsize cap) []).
  { constructor; unfold new_queue; qset; [apply default_limit_ok|split; [reflexivity|constructor]|constructor]. }
  destruct (q_open_closed_inv _ _ I0 eq_refl) as [q' [al' [HQ [I' [Hp [Hnb [Ho Hm]]]]]]].
  rewrite HQ. cbn [snd]. exists al'. split; [exact I'|].
  constructor; unfold spec_init; cbn [s_pend s_open s_max s_nbuf].
  - rewrite Hp. reflexivity.
  - symmetry. exact Ho.
  - rewrite Hm. reflexivity.
  - rewrite (abuf_nobuf _ Hnb). cbn. lia.
Qed.

Lemma reachable_inv q st : reachable q st -> exists al, inv q al /\ link q al st.
Proof.
  intros [maxsize [cap [ops [Hr Hq]]]].
  destruct (q_init_inv maxsize cap) as [al0 [I0 L0]].
  pose proof (trace_sound ops _ _ _ 0%nat I0 L0) as H. rewrite Hr in H. subst q. exact H.
Qed.

Lemma never_violates maxsize cap ops k :
  spec_run 0 spec_init (trace (q_init maxsize cap) ops) <> RViolation k.
Proof.
  destruct (q_init_inv maxsize cap) as [al0 [I0 L0]].
  pose proof (trace_sound ops _ _ _ 0%nat I0 L0) as H. intros E. rewrite E in H. exact H.
Qed.

Lemma reachable_pending q st : reachable q st -> pending q = s_pend st.
Proof.
  intros R. destruct (reachable_inv _ _ R) as [al [I L]].
  rewrite (pending_inv _ _ I), (lk_pend _ _ _ L). reflexivity.
Qed.

Lemma is_nil_true {A} (l : list A) : is_nil l = true <-> l = [].
Proof. destruct l; cbn; split; congruence. Qed.

Lemma reachable_empty q st : reachable q st -> qopen q = true -> (q_empty q = true <-> pending q = []).
Proof.
  intros R Ho. destruct (reachable_inv _ _ R) as [al [I L]].
  rewrite (q_empty_inv _ _ I Ho), (pending_inv _ _ I). apply is_nil_true.
Qed.

Lemma reachable_current q st r b q' :
  reachable q st -> q_current q = (r, b, q') ->
  match r with
  | Ok => exists rest, pending q = b :: rest
  | EOF => seg_visible (hd dseg (qsegs q)) = []
  | Other => exists b0 rest, pending q = b0 :: rest /\ zlen b0 > qmaxseg q
  | NotOpen => qopen q = false
  | _ => False
  end.
Proof.
  intros R HC. destruct (reachable_inv _ _ R) as [al [I L]].
  destruct (qopen q) eqn:Ho.
  - destruct (q_current_inv q al I Ho) as [a [rest [E H]]].
    destruct (inv_open_cons _ _ I Ho) as [a' [rest' [s [segs [E' [Es [Ra _]]]]]]].
    rewrite E in E'. inversion E'; subst a' rest'.
    rewrite (pending_inv _ _ I), E. cbn [apend flat_map].
    destruct (a_t a) as [|b0 t'] eqn:Et.
    + rewrite H in HC. inversion HC; subst. rewrite Es. cbn [hd].
      rewrite (seg_visible_rep _ _ _ _ _ _ Ra). exact Et.
    + destruct H as [segs' [_ H]]. rewrite H in HC.
      destruct (Z.gtb_spec (zlen b0) (qmaxseg q)); inversion HC; subst.
      * exists b0. eexists. split; [rewrite <- app_assoc; reflexivity|lia].
      * eexists. rewrite <- app_assoc. reflexivity.
  - unfold q_current in HC. rewrite (closed_segs _ _ I Ho) in HC. inversion HC; subst. reflexivity.
Qed.

(* Advance releases exactly the block Current shows, or nothing when the head segment is exhausted *)
Lemma reachable_advance q st :
  reachable q st -> qopen q = true ->
  exists q', q_advance q = (Ok, q') /\
    (if head_exhausted q then pending q' = pending q else pending q = hd [] (pending q) :: pending q' /\ pending q <> []).
Proof.
  intros R Ho. destruct (reachable_inv _ _ R) as [al [I L]].
  destruct (q_advance_inv q al I Ho) as [a [rest [E [segs' [al' [HA [I' [_ Hp]]]]]]]].
  exists (set_segs q segs'). split; [exact HA|].
  rewrite (hx_inv _ _ _ _ I Ho E), (pending_inv _ _ I), (pending_inv _ _ I').
  destruct (a_t a); cbn [is_nil].
  - exact Hp.
  - rewrite Hp. cbn [hd]. split; [reflexivity|discriminate].
Qed.
