(* C16/Props.v — property theorems only.  bcrypt verification and the salted hash of the
   cache are universally quantified functions; the only hypothesis is that the salted hash
   determines the password (collision freedom on the explored domain). *)
From Verif Require Import Lib.Bytes C16.Model C16.Spec C16.Proofs C16.Reads C16.Run C16.Link C16.ReadsProofs.
Open Scope N_scope.

Definition salted_injective (salted : str -> str -> str) : Prop :=
  forall salt p q, salted salt p = salted salt q -> p = q.

(* For every bcrypt/salted-hash function, every history [es] of meta-store changes, snapshots
   reaching the node and authentications (any cache contents), every credential carrier,
   every statement list, default database and executor reach: if the query handler hands at
   least one statement to the executor then either no user exists and the first statement
   creates an administrator, or the request CARRIES a credential that is valid for an
   existing user (password verifies against his current hash / bearer token good and shared
   secret configured) and that user is allowed EVERY statement of the request (administrator,
   or every required privilege covered on the named-or-default database). *)
Theorem exec_implies_authorized :
  forall bcrypt_ok salted, salted_injective salted ->
  forall es secret salt cr hq po ss db reach st ex c',
    handle bcrypt_ok salted true secret (node_after bcrypt_ok salted es) salt (RQuery cr hq po ss db reach) = ((st, ex), c') ->
    ex <> 0 ->
    (c_users (node_after bcrypt_ok salted es) = [] /\ first_creates_admin ss = true) \/
    (c_users (node_after bcrypt_ok salted es) <> [] /\
     exists cd ui, In cd (carried cr) /\
                   cred_valid bcrypt_ok (c_users (node_after bcrypt_ok salted es)) secret cd = Some ui /\
                   forall s, In s ss -> stmt_allowed ui db s = true).
Proof. intros b s H. exact (exec_implies_authorized_query b s H). Qed.
Print Assumptions exec_implies_authorized.

(* The same per required privilege: for a non-administrator every single required privilege of
   every statement is covered on ITS OWN target database - the database that privilege names,
   otherwise the request's default database; no database is carried over from an earlier
   privilege, source or statement of the request. *)
Theorem exec_implies_each_privilege_covered :
  forall bcrypt_ok salted, salted_injective salted ->
  forall es secret salt cr hq po ss db reach st ex c',
    handle bcrypt_ok salted true secret (node_after bcrypt_ok salted es) salt (RQuery cr hq po ss db reach) = ((st, ex), c') ->
    ex <> 0 -> c_users (node_after bcrypt_ok salted es) <> [] ->
    exists cd ui, In cd (carried cr) /\
      cred_valid bcrypt_ok (c_users (node_after bcrypt_ok salted es)) secret cd = Some ui /\
      (u_admin ui = true \/
       forall s, In s ss -> exists ps, s_privs s = Some ps /\
         forall p, In p ps ->
           rp_admin p = false /\
           grant_covers (lookup_priv (u_privs ui) (if is_empty (rp_name p) then db else rp_name p)) (rp_priv p) = true).
Proof. intros b s H. exact (exec_each_privilege_covered b s H). Qed.
Print Assumptions exec_implies_each_privilege_covered.

(* Same for writes (/write and /api/v2/write): the points writer is called only for a carried,
   valid credential of an existing user who is administrator or holds WRITE/ALL on that
   database, and the database exists.  In particular never while no user exists. *)
Theorem exec_implies_authorized_writes :
  forall bcrypt_ok salted, salted_injective salted ->
  forall es secret salt v2 cr db st ex c',
    handle bcrypt_ok salted true secret (node_after bcrypt_ok salted es) salt (RWrite v2 cr db) = ((st, ex), c') ->
    ex <> 0 ->
    exists cd ui, In cd (carried cr) /\
                  cred_valid bcrypt_ok (c_users (node_after bcrypt_ok salted es)) secret cd = Some ui /\
                  write_allowed ui db = true /\ mem_str db (c_dbs (node_after bcrypt_ok salted es)) = true.
Proof. intros b s H. exact (exec_implies_authorized_write b s H). Qed.
Print Assumptions exec_implies_authorized_writes.

(* Once a user exists, a request containing a statement with an administrator-only required
   privilege is executed only for a carried valid credential of an administrator. *)
Theorem admin_only :
  forall bcrypt_ok salted, salted_injective salted ->
  forall es secret salt cr hq po ss db reach st ex c',
    handle bcrypt_ok salted true secret (node_after bcrypt_ok salted es) salt (RQuery cr hq po ss db reach) = ((st, ex), c') ->
    ex <> 0 -> c_users (node_after bcrypt_ok salted es) <> [] ->
    exists cd ui, In cd (carried cr) /\
      cred_valid bcrypt_ok (c_users (node_after bcrypt_ok salted es)) secret cd = Some ui /\
      forall s ps p, In s ss -> s_privs s = Some ps -> In p ps -> rp_admin p = true -> u_admin ui = true.
Proof. intros b s H. exact (admin_only_lemma b s H). Qed.
Print Assumptions admin_only.

(* Bootstrap, per request: with no users (any cache, any credentials, any carrier) a parsable
   query request is admitted iff its first statement creates an administrator; a write never. *)
Theorem bootstrap_only_first_admin :
  forall bcrypt_ok salted secret c salt cr ss db reach,
    c_users c = [] ->
    fst (handle bcrypt_ok salted true secret c salt (RQuery cr true true ss db reach)) =
    (if first_creates_admin ss then (200, reach) else (403, 0)).
Proof. exact bootstrap_query_lemma. Qed.
Print Assumptions bootstrap_only_first_admin.

Theorem bootstrap_no_write :
  forall bcrypt_ok salted secret c salt v2 cr db,
    c_users c = [] -> snd (fst (handle bcrypt_ok salted true secret c salt (RWrite v2 cr db))) = 0.
Proof. exact bootstrap_write_lemma. Qed.
Print Assumptions bootstrap_no_write.

(* Bootstrap, per statement: what happens to the statements FOLLOWING the create-administrator
   statement of that same request.  The authoriser never looks at them: whatever they require
   (administrator rights, privileges on any database, even an error from RequiredPrivileges)
   the whole list is authorised ... *)
Theorem bootstrap_trailing_statements :
  forall s rest db u, s_create_admin s = true -> authorize_query [] u (s :: rest) db = QOk.
Proof. intros s rest db u H. rewrite bootstrap_first_only, H. reflexivity. Qed.
Print Assumptions bootstrap_trailing_statements.

(* ... so the literal reading "before any user exists ONLY the creation of the first
   administrator is allowed" is refuted for the model and the code it mirrors (the witness is
   in corpus/C16.jsonl and is replayed on the real httpd.Handler on every run; recorded as known
   finding C16-bootstrap-trailing) ... *)
Theorem bootstrap_strict_refuted :
  exists bc secret r o,
    handle_all (bc_ok bc) salted_id true secret (swap client0 (mkM [] [])) salt0 [r] = [o] /\
    req_loose bc [] secret (r, o) = true /\ req_strict [] (r, o) = false.
Proof. exact bootstrap_strict_refuted_lemma. Qed.
Print Assumptions bootstrap_strict_refuted.

(* ... while no authority is gained over sending the rest in a second request as the
   administrator just created: that request is authorised for any statement list as well. *)
Theorem bootstrap_trailing_no_extra_authority :
  forall adm rest db, u_admin adm = true -> authorize_query [adm] (Some adm) rest db = QOk.
Proof. exact bootstrap_no_extra_authority. Qed.
Print Assumptions bootstrap_trailing_no_extra_authority.

(* The credential cache is transparent: after ANY history, Authenticate answers exactly what
   a cache-less check of the password against the node's current metadata answers. *)
Theorem authenticate_transparent :
  forall bcrypt_ok salted, salted_injective salted ->
  forall es salt name pw,
    fst (authenticate bcrypt_ok salted (node_after bcrypt_ok salted es) salt name pw) =
    auth_ref bcrypt_ok (c_users (node_after bcrypt_ok salted es)) name pw.
Proof. intros b s H es salt name pw. exact (authenticate_after_history b s H es salt name pw). Qed.
Print Assumptions authenticate_transparent.

(* For every prior history of cache population: once updateAuthCache has run for a metadata
   value m in which the user is gone or has a hash the password does not verify against,
   Authenticate with that password fails. *)
Theorem cache_sound_after_update :
  forall bcrypt_ok salted, salted_injective salted ->
  forall es m salt name pw,
    (match find_user (m_users m) name with
     | None => True
     | Some ui => bcrypt_ok (u_hash ui) pw = false
     end) ->
    forall ui, fst (authenticate bcrypt_ok salted (swap (node_after bcrypt_ok salted es) m) salt name pw) <> AOk ui.
Proof. intros b s H es m salt name pw. exact (cache_sound_after_update_lemma b s H es m salt name pw). Qed.
Print Assumptions cache_sound_after_update.

(* Revocation / removal / password change: after any history the response to ANY request is
   the one a node with an empty cache holding the same (last installed) metadata gives;
   nothing from earlier metadata or earlier authentications survives. *)
Theorem revocation_effective :
  forall bcrypt_ok salted, salted_injective salted ->
  forall es secret salt r,
    fst (handle bcrypt_ok salted true secret (node_after bcrypt_ok salted es) salt r) =
    fst (handle bcrypt_ok salted true secret
                (mkC (c_users (node_after bcrypt_ok salted es)) (c_dbs (node_after bcrypt_ok salted es)) []) salt r).
Proof. intros b s H. exact (revocation_effective_lemma b s H). Qed.
Print Assumptions revocation_effective.

(* A request changes the node's state only the way one Authenticate call does (or not at all):
   the histories quantified over above therefore cover requests interleaved with changes. *)
Theorem requests_touch_cache_like_authenticate :
  forall bcrypt_ok salted secret c salt r,
    snd (handle bcrypt_ok salted true secret c salt r) = c \/
    exists name pw, snd (handle bcrypt_ok salted true secret c salt r) = snd (authenticate bcrypt_ok salted c salt name pw).
Proof. exact handle_effect. Qed.
Print Assumptions requests_touch_cache_like_authenticate.

(* Interleaved form (Authenticate cut where it releases its locks, any number of calls in
   flight, any schedule es1 before): a call made after snapshot m was installed and before the
   next snapshot returns a user only if m lists him under that name and the password verifies
   against the hash m gives him. *)
Theorem password_change_effective_interleaved :
  forall bcrypt_ok salted, salted_injective salted ->
  forall es1 m mid salt name pw post q,
    no_swap mid = true -> no_swap post = true ->
    let s1 := sys_step bcrypt_ok salted true (sys_run bcrypt_ok salted true sys0 es1) (SSwap m) in
    let s2 := sys_run bcrypt_ok salted true s1 (mid ++ SCall salt name pw :: post) in
    nth_error (sy_calls s2) (length (sy_calls s1) + n_calls mid) = Some q ->
    pc_namepw q = (name, pw) /\
    forall n p ui, q = PDone n p (AOk ui) ->
      find_user (m_users m) name = Some ui /\ bcrypt_ok (u_hash ui) pw = true.
Proof. intros b s H. exact (call_after_swap_sound b s H). Qed.
Print Assumptions password_change_effective_interleaved.

(* The pinned tree (cache hit without comparing the stored bcrypt hash; repaired by the
   "fix:" commit) violated it: the witness schedule is replayed on the real client (kind race). *)
Theorem cache_hit_without_hash_check_refuted :
  exists bc u1 u2 name pw_old pw_new k,
    (k <= 3)%nat /\
    auth_obs_ok (bc_ok bc) u2 name pw_old
                (snd (fst (race_outcome false bc u1 u2 name pw_old pw_new k)) =? 0) = false.
Proof. exact unpatched_interleaved_refuted. Qed.
Print Assumptions cache_hit_without_hash_check_refuted.

(* Revocation as executed by coordinator.StatementExecutor (REVOKE r ON db FROM name resolved to
   UserPrivilege + SetPrivilege on the metadata): for every metadata value, user, database,
   held privilege (any number) and revoked privilege, a successful REVOKE leaves the user
   with held &^ r on db (nothing for ALL), touches no other entry, name, hash or admin flag,
   and afterwards no need overlapping r is covered by the grant on db. *)
Theorem revoke_removes_exactly :
  forall m name db r m',
    exec_stmt m (XRevoke name db r) = (true, m') ->
    exists u u', find_user (m_users m) name = Some u /\ find_user (m_users m') name = Some u' /\
      u_name u' = u_name u /\ u_hash u' = u_hash u /\ u_admin u' = u_admin u /\
      lookup_priv (u_privs u') db =
        Some (if r =? AllPrivileges then NoPrivileges
              else N.ldiff (match lookup_priv (u_privs u) db with Some p => p | None => NoPrivileges end) r) /\
      (forall d', str_eqb db d' = false -> lookup_priv (u_privs u') d' = lookup_priv (u_privs u) d') /\
      (forall need, N.land need AllPrivileges = need -> need <> 0 -> N.land need r <> 0 ->
                    grant_covers (lookup_priv (u_privs u') db) need = false).
Proof. exact revoke_removes_exactly_lemma. Qed.
Print Assumptions revoke_removes_exactly.

(* Every successful GRANT / REVOKE / GRANT ALL PRIVILEGES TO / REVOKE ALL PRIVILEGES FROM /
   SET PASSWORD / DROP USER, on metadata whose user names are unique, has the effect
   Spec.stmt_effect_ok demands of the resulting user table. *)
Theorem user_statements_take_effect :
  forall m x m', names_unique (m_users m) -> exec_stmt m x = (true, m') -> stmt_effect_ok x (m_users m') = true.
Proof. exact stmt_effect_sound. Qed.
Print Assumptions user_statements_take_effect.

(* ---------- link: the model satisfies the executable spec of Run.v for ALL inputs ---------- *)

(* sessions on one node: tables installed, requests and user-management statements in any order
   (cache carried over): every request is judged against the table installed at that moment *)
Theorem model_satisfies_spec_sessions :
  forall bc secret ts, Forall step_unique ts ->
    seq_spec_g false bc secret [] (combine ts (seq_run (bc_ok bc) salted_id true secret salt0 seq0 ts)) = true.
Proof. exact link_seq0. Qed.
Print Assumptions model_satisfies_spec_sessions.


Theorem model_satisfies_spec_authz :
  forall users u ss db, authz_obs_ok users u ss db (qres_code (authorize_query users u ss db) =? 0) = true.
Proof. exact link_authz. Qed.
Print Assumptions model_satisfies_spec_authz.

Theorem model_satisfies_spec_writeaz :
  forall users name db, writeaz_obs_ok users name db (authorize_write users name db) = true.
Proof. exact link_writeaz. Qed.
Print Assumptions model_satisfies_spec_writeaz.

Theorem model_satisfies_spec_requests :
  forall bc users dbs secret rs,
    forallb (req_loose bc users secret)
            (combine rs (handle_all (bc_ok bc) salted_id true secret (swap client0 (mkM users dbs)) salt0 rs)) = true.
Proof. exact link_req. Qed.
Print Assumptions model_satisfies_spec_requests.

(* After any history: SHOW DATABASES / SHOW CONTINUOUS QUERIES list only databases that an
   existing user whose valid credentials the request carries may read or write
   (administrator: all); nothing when the request was let through un-authenticated. *)
Theorem show_databases_filtered :
  forall bcrypt_ok salted, salted_injective salted ->
  forall es secret salt cr ss db,
    show_obs_ok bcrypt_ok (c_users (node_after bcrypt_ok salted es)) secret cr
      (snd (fst (handle_show bcrypt_ok salted true secret (node_after bcrypt_ok salted es) salt cr ss db))) = true.
Proof.
  intros b s H es secret salt cr ss db.
  exact (handle_show_ok b s H secret (node_after b s es) salt cr ss db (node_after_wf b s es)).
Qed.
Print Assumptions show_databases_filtered.

Theorem model_satisfies_spec_show :
  forall bc users dbs secret cr ss db,
    show_obs_ok (bc_ok bc) users secret cr
      (snd (fst (handle_show (bc_ok bc) salted_id true secret (swap client0 (mkM users dbs)) salt0 cr ss db))) = true.
Proof. exact link_show. Qed.
Print Assumptions model_satisfies_spec_show.

Theorem model_satisfies_spec_histories :
  forall bc es, hist_spec bc [] (hist_model bc world0 es) = true.
Proof. exact link_hist0. Qed.
Print Assumptions model_satisfies_spec_histories.

Theorem model_satisfies_spec_race :
  forall bc u1 u2 name pw_old pw_new k, (k <= 3)%nat ->
    auth_obs_ok (bc_ok bc) u2 name pw_old (snd (fst (race_outcome true bc u1 u2 name pw_old pw_new k)) =? 0) = true.
Proof. exact link_race. Qed.
Print Assumptions model_satisfies_spec_race.

(* the strict bootstrap clause of the executable spec fails exactly on the known-finding shape *)
Theorem strict_clause_fails_only_on_bootstrap_trailing :
  (forall users r st ex, req_strict users (r, (st, ex)) = false <->
     users = [] /\ 1 < ex /\ exists cr hq po ss db reach, r = RQuery cr hq po ss db reach) /\
  (forall users ss ok, authz_strict_ok users ss ok = false <-> ok = true /\ users = [] /\ (1 < length ss)%nat).
Proof. split; [exact req_strict_fails_iff|exact authz_strict_fails_iff]. Qed.
Print Assumptions strict_clause_fails_only_on_bootstrap_trailing.

(* ---------- the databases a SHOW statement reads ---------- *)

(* For EVERY non-/administrator user record, default database, statement of the SHOW family (ten
   statement kinds, any ON clause incl. the *.* wildcard, EXACT or not, any list of sources with or
   without their own database) and set of existing databases: if the authoriser's privilege loop
   accepts the list checked for the statement (library privileges + showReadPrivileges), then every
   database whose shards or index the execution reads (rewrite into a SELECT over the sources,
   default-database normalisation, TAG KEYS/TAG VALUES/MEASUREMENTS executors, cardinality
   estimation, ON *.* filtered by the coarse authoriser) is one the user may READ. *)
Theorem show_reads_only_checked_databases :
  forall ui reqdb s all d,
    check_privs ui reqdb (show_privs true s) = QOk ->
    In d (show_reads true (Some ui) s reqdb all) ->
    authorize_database ui ReadPrivilege d = true.
Proof. exact show_reads_covered. Qed.
Print Assumptions show_reads_only_checked_databases.

(* The same through the HTTP handler after any history of user/grant/password changes, snapshots
   and authentications, for every credential carrier: a database is read only if the request
   CARRIES a credential valid for an existing user who may READ that database. *)
Theorem exec_reads_only_authorized_databases :
  forall bcrypt_ok salted, salted_injective salted ->
  forall es secret salt cr s db st reads c' d,
    handle_dbread bcrypt_ok salted true true secret (node_after bcrypt_ok salted es) salt cr s db = ((st, reads), c') ->
    In d reads ->
    exists cd ui, In cd (carried cr) /\
                  cred_valid bcrypt_ok (c_users (node_after bcrypt_ok salted es)) secret cd = Some ui /\
                  authorize_database ui ReadPrivilege d = true.
Proof. intros b s H. exact (exec_reads_authorized b s H). Qed.
Print Assumptions exec_reads_only_authorized_databases.

(* The pinned rule (library privileges only, ON *.* unfiltered) is refuted: a user holding READ on
   "pub" only is authorised for, and the execution reads "secret" in,
     SHOW FIELD KEYS ON pub FROM secret..cpu            (source database not checked)
     SHOW SERIES CARDINALITY ON pub FROM secret..cpu    (idem, cardinality forms)
     SHOW TAG KEY CARDINALITY ON secret                 (no source: no privilege required at all)
     SHOW MEASUREMENTS ON *.*                           (every database listed)
   All four were replayed on the real code (corpus/C16.jsonl) and repaired by two "fix:" commits. *)
Theorem exec_reads_only_authorized_databases_refuted :
  exists ui reqdb s all d,
    check_privs ui reqdb (show_privs false s) = QOk /\
    In d (show_reads false (Some ui) s reqdb all) /\
    authorize_database ui ReadPrivilege d = false.
Proof. exact pinned_rule_refuted. Qed.
Print Assumptions exec_reads_only_authorized_databases_refuted.

Theorem pinned_show_leaks :
  pinned_leak (mkShow KFieldKeys w_pub 0 false false [w_secret]) /\
    pinned_leak (mkShow KSeriesCard w_pub 0 false false [w_secret]) /\
    pinned_leak (mkShow KTagKeyCard w_secret 0 false false []) /\
    pinned_leak (mkShow KMeasurements [] 1 false false []).
Proof. exact pinned_show_leaks_all. Qed.
Print Assumptions pinned_show_leaks.

Theorem model_satisfies_spec_dbread :
  forall bc users dbs secret cr s db,
    dbread_obs_ok (bc_ok bc) users secret cr
      (snd (fst (handle_dbread (bc_ok bc) salted_id true true secret (swap client0 (mkM users dbs)) salt0 cr s db))) = true.
Proof. exact link_dbread. Qed.
Print Assumptions model_satisfies_spec_dbread.

(* ---------- non-vacuity ---------- *)

(* a reader of "pub" and "secret" is authorised for SHOW FIELD KEYS ON pub FROM secret..cpu, pub..cpu
   and the execution reads exactly these two; the reader of "pub" alone is refused, and
   SHOW MEASUREMENTS ON *.* shows him "pub" only *)
Example show_reads_nonvacuous :
  let both := mkUser [98] 0 false [(w_pub, 1); (w_secret, 1)] in
  let s := mkShow KFieldKeys w_pub 0 false false [w_secret; w_pub] in
  check_privs both w_pub (show_privs true s) = QOk /\
    show_reads true (Some both) s w_pub [w_pub; w_secret] = [w_secret; w_pub] /\
    check_privs w_bob w_pub (show_privs true s) = QErrPriv /\
    show_reads true (Some w_bob) (mkShow KMeasurements [] 1 false false []) w_pub [w_pub; w_secret] = [w_pub].
Proof. vm_compute. repeat split. Qed.

(* a reader of db0 with the right password over basic auth runs SELECT on the default database;
   the same request needing WRITE is refused, as is a wrong password *)
Example exec_nonvacuous :
  let bc := [(0, [112])] in
  let users := [mkUser [114] 0 true []; mkUser [97] 0 false [([100], 1)]] in
  let c := swap client0 (mkM users [[100]]) in
  let sel := mkStmt false (Some [mkRp false [] 1]) in
  let del := mkStmt false (Some [mkRp false [] 2]) in
  handle_all (bc_ok bc) salted_id true true c salt0
    [RQuery (mkCreds [] [] (HBasic [97; 58; 112])) true true [sel] [100] 1;
     RQuery (mkCreds [] [] (HBasic [97; 58; 112])) true true [sel; del] [100] 2;
     RQuery (mkCreds [] [] (HBasic [97; 58; 113])) true true [sel] [100] 1;
     RWrite false (mkCreds [97] [112] HNone) [100];
     RWrite false (mkCreds [114] [112] HNone) [100]]
  = [(200, 1); (403, 0); (401, 0); (403, 0); (204, 1)].
Proof. vm_compute. reflexivity. Qed.

(* a history in which the cache is populated, the password changes, and the old one dies *)
Example history_nonvacuous :
  let bc := [(1, [111]); (2, [110])] in
  hist_model bc world0
    [HOp (OCreateUser [97] 1 true); HPublish; HAuth [] [97] [111]; HAuth [] [97] [111];
     HOp (OUpdateUser [97] 2); HAuth [] [97] [111]; HPublish; HAuth [] [97] [111]; HAuth [] [97] [110]]
  = [XOp (OCreateUser [97] 1 true) true; XPub [mkUser [97] 1 true []] [] [];
     XAuth [97] [111] 0 (Some (mkUser [97] 1 true [])) [([97], 1)]; XAuth [97] [111] 0 (Some (mkUser [97] 1 true [])) [([97], 1)];
     XOp (OUpdateUser [97] 2) true; XAuth [97] [111] 0 (Some (mkUser [97] 1 true [])) [([97], 1)];
     XPub [mkUser [97] 2 true []] [] []; XAuth [97] [111] 2 None []; XAuth [97] [110] 0 (Some (mkUser [97] 2 true [])) [([97], 2)]].
Proof. vm_compute. reflexivity. Qed.

(* the repaired code on the refutation witness: the old password is refused for every position of the swap *)
Example race_fixed_nonvacuous :
  map (race_outcome true [(1, [111]); (2, [110])] [mkUser [97] 1 true []] [mkUser [97] 2 true []] [97] [111] [110])
      [0; 1; 2; 3]%nat
  = [(2, 2, 0); (0, 2, 0); (0, 2, 0); (0, 2, 0)].
Proof. vm_compute. reflexivity. Qed.

(* READ revoked from a holder of ALL leaves WRITE; ALL revoked from a holder of READ leaves nothing *)
Example revoke_nonvacuous :
  let m := mkM [mkUser [98] 0 false [([100], 3); ([101], 1)]] [[100]; [101]] in
  (m_users (snd (exec_stmt m (XRevoke [98] [100] 1))), m_users (snd (exec_stmt m (XRevoke [98] [101] 3))))
  = ([mkUser [98] 0 false [([100], 2); ([101], 1)]], [mkUser [98] 0 false [([100], 3); ([101], 0)]]).
Proof. vm_compute. reflexivity. Qed.
