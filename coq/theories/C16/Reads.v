(* C16/Reads.v — definitions only: the SHOW family of statements, the privileges the
   authoriser checks for them and the databases whose indexes/shards their execution reads.

   Code mirrored:
     influxql  Show...Statement.RequiredPrivileges, Sources.RequiredPrivileges         -> lib_privs
     services/meta/query_authorizer.go  showReadPrivileges (added by the "fix:" commit)  -> show_read_privs
     query/executor.go  default database; query/statement_rewriter.go rewriteSources,
       rewriteSources2; coordinator/statement_executor.go NormalizeStatement,
       normalizeMeasurement, executeShowTagKeys, executeShowTagValues,
       executeShowMeasurementsStatement (ON *.* filtered by the coarse authoriser since
       the "fix:" commit), executeShow{Series,Measurement}CardinalityStatement,
       LocalShardMapper                                                                    -> show_reads
   [fixed]=false is the pinned tree, kept for the refutation theorems. *)
From Verif Require Export Lib.Bytes C16.Model.
Open Scope N_scope.

Inductive skind :=
| KFieldKeys | KSeries | KTagKeys | KTagValues | KMeasurements
| KSeriesCard | KMeasCard | KTagKeyCard | KTagValuesCard | KFieldKeyCard.

(* sh_on    : stmt.Database (the ON clause; empty = none)
   sh_wild  : SHOW MEASUREMENTS only: 0 no database wildcard, 1 ON *.*, 2 a wildcard form the executor refuses
   sh_exact : ... EXACT CARDINALITY
   sh_plain : cardinality: no EXACT, condition, dimensions, limit, offset (with no sources: estimation path)
   sh_srcs  : the Database of each measurement source, in order (empty = unqualified) *)
Record showstmt := mkShow { sh_kind : skind; sh_on : str; sh_wild : N; sh_exact : bool; sh_plain : bool; sh_srcs : list str }.

Definition read_on (d : str) : rpriv := mkRp false d ReadPrivilege.

(* d if non-empty, else e *)
Definition or_else (d e : str) : str := if is_empty d then e else d.

(* Sources.RequiredPrivileges: one READ per measurement source, on the database the source names *)
Definition sources_privs (srcs : list str) : list rpriv := map read_on srcs.

(* stmt.RequiredPrivileges() of the influxql library *)
Definition lib_privs (s : showstmt) : list rpriv :=
  match sh_kind s with
  | KFieldKeys | KSeries | KTagKeys | KTagValues | KMeasurements => [read_on (sh_on s)]
  | KSeriesCard | KMeasCard => if sh_exact s then sources_privs (sh_srcs s) else [read_on (sh_on s)]
  | KTagKeyCard | KTagValuesCard | KFieldKeyCard => sources_privs (sh_srcs s)
  end.

(* statements executed over their sources (the others read stmt.Database only) *)
Definition reads_sources (k : skind) : bool :=
  match k with KTagKeys | KTagValues | KMeasurements => false | _ => true end.

(* showReadPrivileges: READ on the database of every source (the source's own, else the ON
   clause); with no sources READ on the ON clause.  An empty name is resolved against the
   request's default database by the authoriser's loop, as for every privilege. *)
Definition show_read_privs (s : showstmt) : list rpriv :=
  if reads_sources (sh_kind s) then
    match sh_srcs s with
    | [] => [read_on (sh_on s)]
    | srcs => map (fun d => read_on (or_else d (sh_on s))) srcs
    end
  else [].

(* the list AuthorizeQuery iterates over for the statement *)
Definition show_privs (fixed : bool) (s : showstmt) : list rpriv :=
  lib_privs s ++ (if fixed then show_read_privs s else []).

(* rewriteSources/rewriteSources2 give a source without database stmt.Database;
   NormalizeStatement then gives what is still empty the request's database *)
Definition source_targets (s : showstmt) (reqdb : str) : list str :=
  match sh_srcs s with
  | [] => [or_else (sh_on s) reqdb]
  | srcs => map (fun d => or_else (or_else d (sh_on s)) reqdb) srcs
  end.

(* estimation path of SHOW SERIES/MEASUREMENT CARDINALITY: answered from stmt.Database's sketches *)
Definition est_path (s : showstmt) : bool :=
  sh_plain s && match sh_srcs s with [] => true | _ => false end.

(* rewritten into a SELECT over the sources *)
Definition via_select (s : showstmt) : bool :=
  match sh_kind s with
  | KFieldKeys | KSeries | KTagKeyCard | KTagValuesCard | KFieldKeyCard => true
  | KSeriesCard | KMeasCard => negb (est_path s)
  | KTagKeys | KTagValues | KMeasurements => false
  end.

(* the databases (of [all], the databases that exist) whose shards/indexes the execution
   touches, for the user [u] the middleware admitted *)
Definition show_reads (fixed : bool) (u : option user) (s : showstmt) (reqdb : str) (all : list str) : list str :=
  if via_select s then
    let ts := source_targets s reqdb in
    if forallb (fun d => mem_str d all) ts then ts else []      (* normalizeMeasurement: database not found *)
  else
    match sh_kind s with
    | KMeasurements =>
        if sh_wild s =? 1 then (if fixed then filter (fun d => coarse_authorize u ReadPrivilege d) all else all)
        else if sh_wild s =? 0 then filter (fun d => mem_str d all) [or_else (sh_on s) reqdb]
        else []
    | _ => filter (fun d => mem_str d all) [or_else (sh_on s) reqdb]
    end.

(* one query request holding one SHOW-family statement: HTTP status, databases read *)
Definition handle_dbread (bcrypt_ok : N -> str -> bool) (salted : str -> str -> str) (fixed chk secret_set : bool)
           (c : client) (salt : str) (cr : creds) (s : showstmt) (db : str) : (N * list str) * client :=
  match authenticate_mw bcrypt_ok salted chk secret_set c salt cr with
  | (MwReject st, c') => ((st, []), c')
  | (MwInner u, c') =>
      match authorize_query (c_users c') u [mkStmt false (Some (show_privs fixed s))] db with
      | QOk => ((200, show_reads fixed u s db (c_dbs c')), c')
      | _ => ((403, []), c')
      end
  end.
