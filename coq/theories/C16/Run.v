(* C16/Run.v — correspondence cases.  The harness records what the implementation did;
   [check_case] compares with the model (agree) and evaluates Spec.v on the implementation's
   observation (spec_ok).
   result code: 0 agree /\ spec_ok, 1 ~agree /\ spec_ok, 2 ~agree /\ ~spec_ok,
                3 agree /\ ~spec_ok (model mirrors a defect) *)
From Verif Require Export Lib.Bytes C16.Model C16.Reads.
From Verif Require Import C16.Spec.
Open Scope N_scope.

Definition code (agree spec_ok : bool) : N :=
  match agree, spec_ok with
  | true, true => 0 | false, true => 1 | false, false => 2 | true, false => 3
  end.

(* ---------- concrete instances of the Section functions ---------- *)

(* bcrypt: the harness knows from which password each stored hash was generated *)
Fixpoint assoc_n (k : N) (l : list (N * str)) : option str :=
  match l with [] => None | (k', v) :: r => if k' =? k then Some v else assoc_n k r end.

Definition bc_ok (bc : list (N * str)) (h : N) (pw : str) : bool :=
  match assoc_n h bc with Some p => str_eqb p pw | None => false end.

(* the harness' pool: password number i has the two hash ids 2i and 2i+1 *)
Fixpoint bcp_from (i : N) (pws : list str) : list (N * str) :=
  match pws with [] => [] | p :: r => (2 * i, p) :: (2 * i + 1, p) :: bcp_from (i + 1) r end.
Definition bcp (pws : list str) : list (N * str) := bcp_from 0 pws.

(* SHA-256(salt ++ pw) is replaced by salt ++ pw itself (injective in pw for a fixed salt) *)
Definition salted_id (salt pw : str) : str := salt ++ pw.
Definition salt0 : str := [].

(* ---------- comparisons of observed values ---------- *)

(* privilege maps compared by what lookups answer (order and shadowed bindings do not matter) *)
Definition opt_n_eqb (a b : option N) : bool :=
  match a, b with Some x, Some y => x =? y | None, None => true | _, _ => false end.

Definition privs_eqb (a b : list (str * N)) : bool :=
  forallb (fun dp => opt_n_eqb (lookup_priv a (fst dp)) (lookup_priv b (fst dp))) (a ++ b).

Definition user_eqb (a b : user) : bool :=
  str_eqb (u_name a) (u_name b) && (u_hash a =? u_hash b) && Bool.eqb (u_admin a) (u_admin b) &&
  privs_eqb (u_privs a) (u_privs b).

Fixpoint list_eqb {A} (eqb : A -> A -> bool) (a b : list A) : bool :=
  match a, b with
  | [], [] => true
  | x :: a', y :: b' => eqb x y && list_eqb eqb a' b'
  | _, _ => false
  end.

Fixpoint lookup_view (v : list (str * N)) (name : str) : option N :=
  match v with [] => None | (n, h) :: r => if str_eqb n name then Some h else lookup_view r name end.

Definition cache_view (c : cache) : list (str * N) := map (fun ne => (fst ne, ce_bhash (snd ne))) c.

Definition view_sub (a b : list (str * N)) : bool :=
  forallb (fun nh => match lookup_view b (fst nh) with Some h => h =? snd nh | None => false end) a.

Definition view_eqb (a b : list (str * N)) : bool := view_sub a b && view_sub b a.

Definition hres_eqb (a b : N * N) : bool := (fst a =? fst b) && (snd a =? snd b).

(* ---------- cases ---------- *)

(* a history as recorded *)
Inductive hobs :=
| XOp (o : mop) (ok : bool)                                          (* data.go operation at the meta store, did it succeed *)
| XPub (users : list user) (dbs : list str) (cv : list (str * N))    (* snapshot installed: what the node now reports, cache entries *)
| XAuth (name pw : str) (res : N) (ru : option user) (cv : list (str * N)).
    (* Client.Authenticate result (0 ok, 1 not found, 2 bad password), the user VALUE it returned, cache entries *)

Inductive case :=
| CAuthz (users : list user) (u : option user) (ss : list stmt) (db : str) (res : N)
| CWriteAz (users : list user) (name db : str) (ok : bool)
| CHist (bc : list (N * str)) (evs : list hobs)
| CReq (bc : list (N * str)) (users : list user) (dbs : list str) (secret_set : bool) (rs : list (request * (N * N)))
| CShow (bc : list (N * str)) (users : list user) (dbs : list str) (secret_set : bool) (cr : creds) (ss : list stmt) (db : str)
        (status : N) (visible : list str)
| CSeq (bc : list (N * str)) (secret_set : bool) (steps : list (step * sobs))
| CDbRead (bc : list (N * str)) (users : list user) (dbs : list str) (secret_set : bool) (cr : creds) (s : showstmt)
          (privs : option (list rpriv)) (db : str) (status : N) (reads : list str)
    (* one SHOW-family statement through handler + real executor over a real store holding [dbs];
       privs = the list the real authoriser checks for it; reads = databases touched / named in the answer *)
| CRace (bc : list (N * str)) (u1 u2 : list user) (name pw_old pw_new : str) (r_first r_old r_new : N).

Definition ares_user (a : ares) : option user := match a with AOk ui => Some ui | _ => None end.

Definition ret_user_eqb (a b : option user) : bool :=
  match a, b with Some x, Some y => user_eqb x y | None, None => true | _, _ => false end.

(* the user value handed out by Authenticate is the one the node's CURRENT metadata lists
   (grants and admin flag included) *)
Definition ret_user_current (cur : list user) (name : str) (ru : option user) : bool :=
  match ru with
  | None => true
  | Some r => match find_user cur name with Some ui => user_eqb r ui | None => false end
  end.

(* ---------- histories ---------- *)

(* replay on the model; returns (agree so far) *)
Fixpoint hist_agree (bc : list (N * str)) (w : world) (evs : list hobs) : bool :=
  match evs with
  | [] => true
  | XOp o ok :: r =>
      let '(ok', m') := apply_mop (w_master w) o in
      Bool.eqb ok ok' && hist_agree bc (mkW m' (w_node w)) r
  | XPub users dbs cv :: r =>
      let n' := swap (w_node w) (w_master w) in
      list_eqb user_eqb (c_users n') users && list_eqb str_eqb (c_dbs n') dbs &&
      view_eqb (cache_view (c_cache n')) cv &&
      hist_agree bc (mkW (w_master w) n') r
  | XAuth name pw res ru cv :: r =>
      let '(a, n') := authenticate (bc_ok bc) salted_id (w_node w) salt0 name pw in
      (ares_code a =? res) && ret_user_eqb (ares_user a) ru && view_eqb (cache_view (c_cache n')) cv &&
      hist_agree bc (mkW (w_master w) n') r
  end.

(* the property on the recorded history: [cur] = the user table the node reported after the
   last snapshot it installed *)
Fixpoint hist_spec (bc : list (N * str)) (cur : list user) (evs : list hobs) : bool :=
  match evs with
  | [] => true
  | XOp _ _ :: r => hist_spec bc cur r
  | XPub users _ _ :: r => hist_spec bc users r
  | XAuth name pw res ru _ :: r =>
      auth_obs_ok (bc_ok bc) cur name pw (res =? 0) && ret_user_current cur name ru && hist_spec bc cur r
  end.

(* ---------- requests ---------- *)

(* the request-level reading of the property ... *)
Definition req_loose (bc : list (N * str)) (users : list user) (secret_set : bool) (ro : request * (N * N)) : bool :=
  match ro with
  | (RQuery cr _ _ ss db _, (_, executed)) => query_obs_ok (bc_ok bc) users secret_set cr ss db executed
  | (RWrite _ cr db, (_, wrote)) => write_obs_ok (bc_ok bc) users secret_set cr db wrote
  end.

(* ... and the per-statement reading of its bootstrap clause *)
Definition req_strict (users : list user) (ro : request * (N * N)) : bool :=
  match ro with
  | (RQuery _ _ _ _ _ _, (_, executed)) => strict_bootstrap_ok users executed
  | (RWrite _ _ _, _) => true
  end.

Definition req_spec (bc : list (N * str)) (users : list user) (secret_set : bool) (ro : request * (N * N)) : bool :=
  req_loose bc users secret_set ro && req_strict users ro.

(* ---------- sessions: tables, requests, user-management statements ---------- *)

Definition sobs_eqb (a b : sobs) : bool :=
  match a, b with
  | OSet, OSet => true
  | OReq x, OReq y => hres_eqb x y
  | OStmt s1 e1 k1 u1, OStmt s2 e2 k2 u2 => (s1 =? s2) && (e1 =? e2) && Bool.eqb k1 k2 && list_eqb user_eqb u1 u2
  | _, _ => false
  end.

(* the property on a recorded session; [cur] = the user table currently installed on the node
   (as given by TSet / as the node reported after the last statement) *)
Fixpoint seq_spec_g (strict : bool) (bc : list (N * str)) (secret_set : bool) (cur : list user) (tos : list (step * sobs)) : bool :=
  match tos with
  | [] => true
  | (TSet m, _) :: r => seq_spec_g strict bc secret_set (m_users m) r
  | (TReq rq, OReq o) :: r =>
      req_loose bc cur secret_set (rq, o) && (negb strict || req_strict cur (rq, o)) &&
      seq_spec_g strict bc secret_set cur r
  | (TStmt cr ss db x, OStmt st ex ok ua) :: r =>
      query_obs_ok (bc_ok bc) cur secret_set cr ss db ex && (negb strict || strict_bootstrap_ok cur ex) &&
      (if ex =? 0 then list_eqb user_eqb ua cur            (* a refused request changes nothing *)
       else if ok then stmt_effect_ok x ua else true) &&
      seq_spec_g strict bc secret_set ua r
  | _ :: _ => false
  end.

(* with the per-statement bootstrap clause (see known finding) *)
Definition seq_spec := seq_spec_g true.

(* ---------- metadata swap while Authenticate is in flight ---------- *)

(* the four places the swap can fall relative to the first call's three steps; afterwards
   Authenticate(old) and Authenticate(new) run to completion.  Returns the three results. *)
Definition race_steps : list sev := [SStep 0; SStep 0; SStep 0].
Definition race_post (name pw_new : str) : list sev :=
  [SStep 1; SStep 1; SStep 1; SCall salt0 name pw_new; SStep 2; SStep 2; SStep 2].

Definition race_outcome (chk : bool) (bc : list (N * str)) (u1 u2 : list user) (name pw_old pw_new : str) (k : nat) : N * N * N :=
  let es1 := [SSwap (mkM u1 []); SCall salt0 name pw_old] ++ firstn k race_steps in
  let s1 := sys_step (bc_ok bc) salted_id chk (sys_run (bc_ok bc) salted_id chk sys0 es1) (SSwap (mkM u2 [])) in
  let s := sys_run (bc_ok bc) salted_id chk s1 (skipn k race_steps ++ SCall salt0 name pw_old :: race_post name pw_new) in
  let res k := match nth_error (sy_calls s) k with Some (PDone _ _ r) => ares_code r | _ => 9 end in
  (res 0%nat, res 1%nat, res 2%nat).

Definition triple_eqb (a b : N * N * N) : bool :=
  (fst (fst a) =? fst (fst b)) && (snd (fst a) =? snd (fst b)) && (snd a =? snd b).

Definition rpriv_eqb (a b : rpriv) : bool :=
  Bool.eqb (rp_admin a) (rp_admin b) && str_eqb (rp_name a) (rp_name b) && (rp_priv a =? rp_priv b).

Definition privs_seen_eqb (a : option (list rpriv)) (b : list rpriv) : bool :=
  match a with Some l => list_eqb rpriv_eqb l b | None => false end.

Definition strs_sub (a b : list str) : bool := forallb (fun x => mem_str x b) a.
Definition strs_seteq (a b : list str) : bool := strs_sub a b && strs_sub b a.

Definition check_case (c : case) : N :=
  match c with
  | CAuthz users u ss db res =>
      let m := authorize_query users u ss db in
      code (qres_code m =? res)
           (authz_obs_ok users u ss db (res =? 0) && authz_strict_ok users ss (res =? 0))
  | CWriteAz users name db ok =>
      code (Bool.eqb (authorize_write users name db) ok) (writeaz_obs_ok users name db ok)
  | CHist bc evs =>
      code (hist_agree bc (world0) evs) (hist_spec bc [] evs)
  | CReq bc users dbs secret_set rs =>
      let c0 := swap (client0) (mkM users dbs) in
      let m := handle_all (bc_ok bc) salted_id true secret_set c0 salt0 (map fst rs) in
      code (list_eqb hres_eqb m (map snd rs)) (forallb (req_spec bc users secret_set) rs)
  | CShow bc users dbs secret_set cr ss db status visible =>
      let c0 := swap (client0) (mkM users dbs) in
      let m := fst (handle_show (bc_ok bc) salted_id true secret_set c0 salt0 cr ss db) in
      code ((fst m =? status) && list_eqb str_eqb (snd m) visible)
           (show_obs_ok (bc_ok bc) users secret_set cr visible)
  | CSeq bc secret_set tos =>
      let m := seq_run (bc_ok bc) salted_id true secret_set salt0 seq0 (map fst tos) in
      code (list_eqb sobs_eqb m (map snd tos)) (seq_spec bc secret_set [] tos)
  | CDbRead bc users dbs secret_set cr s privs db status reads =>
      let c0 := swap (client0) (mkM users dbs) in
      let m := fst (handle_dbread (bc_ok bc) salted_id true true secret_set c0 salt0 cr s db) in
      code ((fst m =? status) && strs_seteq (snd m) reads && privs_seen_eqb privs (show_privs true s))
           (dbread_obs_ok (bc_ok bc) users secret_set cr reads)
  | CRace bc u1 u2 name pw_old pw_new r0 r_old r_new =>
      let outs := map (race_outcome true bc u1 u2 name pw_old pw_new) [0%nat; 1%nat; 2%nat; 3%nat] in
      code (existsb (triple_eqb (r0, r_old, r_new)) outs)
           (auth_obs_ok (bc_ok bc) u2 name pw_old (r_old =? 0))
  end.
