(* C16/Spec.v — what the property demands of an OBSERVATION, written without reference to
   how the code decides (no middleware order, no cache, no loops with early exit).

   "A query or write is executed only if it carries valid credentials of an existing user
    whose grants cover every privilege the statement or write needs on the database it
    targets; statements that need administrator rights run only for administrators, and
    before any user exists only the creation of the first administrator is allowed.  Once a
    password change, privilege revocation or user removal has reached a node, the old
    password or privilege stops working there." *)
From Verif Require Import Lib.Bytes C16.Model.
Open Scope N_scope.

Section Spec.
  (* pw_ok h pw: password pw verifies against the stored hash h *)
  Variable pw_ok : N -> str -> bool.

  (* a grant g on the target database covers the needed privilege *)
  Definition grant_covers (g : option N) (need : N) : bool :=
    (need =? NoPrivileges) ||
    match g with
    | Some p => (p =? need) || (p =? AllPrivileges)
    | None => false
    end.

  (* the database a required privilege is about: the one it names, else the request's default *)
  Definition target (p : rpriv) (default : str) : str :=
    if is_empty (rp_name p) then default else rp_name p.

  Definition priv_allowed (ui : user) (default : str) (p : rpriv) : bool :=
    u_admin ui ||
    (negb (rp_admin p) && grant_covers (lookup_priv (u_privs ui) (target p default)) (rp_priv p)).

  (* administrators may run anything; everybody else needs every required privilege *)
  Definition stmt_allowed (ui : user) (default : str) (s : stmt) : bool :=
    u_admin ui ||
    match s_privs s with
    | Some ps => forallb (priv_allowed ui default) ps
    | None => false
    end.

  Definition write_allowed (ui : user) (db : str) : bool :=
    priv_allowed ui db (mkRp false db WritePrivilege).

  (* every credential a request carries, in any carrier *)
  Inductive cred := CPass (u p : str) | CJwt (cls : N) (u : str).

  Definition carried (cr : creds) : list cred :=
    (if is_empty (cr_u cr) then [] else [CPass (cr_u cr) (cr_p cr)]) ++
    match cr_hdr cr with
    | HBearer cls n => [CJwt cls n]
    | HToken raw | HBasic raw =>
        match cut_colon raw with Some (u, p) => [CPass u p] | None => [] end
    | HNone | HOther => []
    end.

  (* the existing user a credential is valid for *)
  Definition cred_valid (users : list user) (secret_set : bool) (c : cred) : option user :=
    match c with
    | CPass u p =>
        match find_user users u with
        | Some ui => if pw_ok (u_hash ui) p then Some ui else None
        | None => None
        end
    | CJwt cls u => if secret_set && (cls =? 0) then find_user users u else None
    end.

  Definition is_nil {A} (l : list A) : bool := match l with [] => true | _ => false end.

  Definition first_creates_admin (ss : list stmt) : bool :=
    match ss with s :: _ => s_create_admin s | [] => false end.

  (* [executed] statements of a query request reached the executor *)
  Definition query_obs_ok (users : list user) (secret_set : bool) (cr : creds) (ss : list stmt)
             (db : str) (executed : N) : bool :=
    (executed =? 0) ||
    (if is_nil users then first_creates_admin ss
     else existsb (fun c => match cred_valid users secret_set c with
                            | Some ui => forallb (stmt_allowed ui db) (firstn (N.to_nat executed) ss)
                            | None => false
                            end) (carried cr)).

  (* the literal reading of "before any user exists only the creation of the first
     administrator is allowed": nothing but that one statement runs *)
  Definition strict_bootstrap_ok (users : list user) (executed : N) : bool :=
    negb (is_nil users) || (executed <=? 1).

  Definition write_obs_ok (users : list user) (secret_set : bool) (cr : creds) (db : str) (wrote : N) : bool :=
    (wrote =? 0) ||
    existsb (fun c => match cred_valid users secret_set c with
                      | Some ui => write_allowed ui db
                      | None => false
                      end) (carried cr).

  (* database names shown by SHOW DATABASES / SHOW CONTINUOUS QUERIES: each must be readable or
     writable by an existing user the request carries valid credentials of *)
  Definition may_see (ui : user) (db : str) : bool :=
    u_admin ui || grant_covers (lookup_priv (u_privs ui) db) ReadPrivilege
               || grant_covers (lookup_priv (u_privs ui) db) WritePrivilege.

  Definition show_obs_ok (users : list user) (secret_set : bool) (cr : creds) (visible : list str) : bool :=
    forallb (fun db => existsb (fun c => match cred_valid users secret_set c with
                                         | Some ui => may_see ui db
                                         | None => false
                                         end) (carried cr)) visible.

  (* databases whose shards/indexes were read (or written) while a request was executed, or whose
     measurement/tag/field names appear in its answer: each must be readable by an existing user
     the request carries valid credentials of *)
  Definition may_read (ui : user) (db : str) : bool :=
    u_admin ui || grant_covers (lookup_priv (u_privs ui) db) ReadPrivilege.

  Definition dbread_obs_ok (users : list user) (secret_set : bool) (cr : creds) (reads : list str) : bool :=
    forallb (fun db => existsb (fun c => match cred_valid users secret_set c with
                                         | Some ui => may_read ui db
                                         | None => false
                                         end) (carried cr)) reads.

  (* what a successful user-management statement must have achieved, read off the user table
     the node reports afterwards.  REVOKE r: no need overlapping r is covered by the grant on
     that database any more (an administrator keeps access through the admin flag only) *)
  Definition stmt_effect_ok (x : xstmt) (users_after : list user) : bool :=
    match x with
    | XRevoke name db r =>
        match find_user users_after name with
        | Some u => forallb (fun need => (N.land need r =? 0) ||
                                         negb (grant_covers (lookup_priv (u_privs u) db) need))
                            [ReadPrivilege; WritePrivilege; AllPrivileges]
        | None => true
        end
    | XRevokeAdmin name => match find_user users_after name with Some u => negb (u_admin u) | None => true end
    | XDropUser name => match find_user users_after name with Some _ => false | None => true end
    | XSetPassword name h => match find_user users_after name with Some u => u_hash u =? h | None => true end
    | XGrant name db p => match find_user users_after name with
                          | Some u => grant_covers (lookup_priv (u_privs u) db) p
                          | None => true
                          end
    | XGrantAdmin name => match find_user users_after name with Some u => u_admin u | None => true end
    | XOther => true
    end.

  (* AuthorizeQuery said yes for user u *)
  Definition authz_obs_ok (users : list user) (u : option user) (ss : list stmt) (db : str) (ok : bool) : bool :=
    negb ok ||
    (if is_nil users then first_creates_admin ss
     else match u with Some ui => forallb (stmt_allowed ui db) ss | None => false end).

  Definition authz_strict_ok (users : list user) (ss : list stmt) (ok : bool) : bool :=
    negb ok || negb (is_nil users) || (N.of_nat (length ss) <=? 1).

  Definition writeaz_obs_ok (users : list user) (name db : str) (ok : bool) : bool :=
    negb ok || match find_user users name with Some ui => write_allowed ui db | None => false end.

  (* Authenticate(name, pw) said yes on a node whose current metadata lists [users] *)
  Definition auth_obs_ok (users : list user) (name pw : str) (ok : bool) : bool :=
    negb ok || match find_user users name with Some ui => pw_ok (u_hash ui) pw | None => false end.
End Spec.
