(* C16/Link.v — the model satisfies the executable spec of Run.v/Spec.v for ALL inputs
   (the link between the theorems and the per-case check), and the exact shape of the
   inputs on which the strict bootstrap reading fails. *)
From Verif Require Import Lib.Bytes C16.Model C16.Spec C16.Proofs C16.Run.
From Coq Require Import ZifyBool ZifyNat ZifyN.
Open Scope N_scope.

Lemma salted_id_inj salt p q : salted_id salt p = salted_id salt q -> p = q.
Proof. unfold salted_id. apply app_inv_head. Qed.

(* ---------- direct authoriser cases ---------- *)

Lemma link_authz users u ss db :
  authz_obs_ok users u ss db (qres_code (authorize_query users u ss db) =? 0) = true.
Proof. apply authz_link. Qed.

Lemma link_writeaz users name db :
  writeaz_obs_ok users name db (authorize_write users name db) = true.
Proof. apply writeaz_link. Qed.

(* the strict reading fails exactly for an admitted multi-statement bootstrap query *)
Lemma authz_strict_fails_iff users ss ok :
  authz_strict_ok users ss ok = false <-> ok = true /\ users = [] /\ (1 < length ss)%nat.
Proof.
  unfold authz_strict_ok. split.
  - intros H. destruct ok; cbn [negb orb] in H; [|discriminate].
    destruct users as [|u us]; cbn [is_nil negb orb] in H; [|discriminate].
    apply N.leb_gt in H. repeat split. lia.
  - intros [-> [-> H]]. cbn [negb is_nil orb]. apply N.leb_gt. lia.
Qed.

(* ---------- request cases ---------- *)

Lemma all_ok_loose bc users secret rs : forall os,
  all_ok (bc_ok bc) users secret rs os = true ->
  forallb (req_loose bc users secret) (combine rs os) = true.
Proof.
  induction rs as [|r rs IH]; intros [|o os] H; cbn [combine forallb]; try reflexivity.
  cbn [all_ok] in H. apply andb_true_iff in H. destruct H as [H1 H2].
  rewrite (IH _ H2), andb_true_r.
  destruct r, o; exact H1.
Qed.

Lemma link_req bc users dbs secret rs :
  forallb (req_loose bc users secret)
          (combine rs (handle_all (bc_ok bc) salted_id true secret (swap client0 (mkM users dbs)) salt0 rs)) = true.
Proof.
  apply all_ok_loose.
  apply (handle_all_ok (bc_ok bc) salted_id salted_id_inj secret salt0 rs (swap client0 (mkM users dbs))).
  apply swap_wf. apply cache_wf_nil.
Qed.

Lemma req_strict_fails_iff users r st ex :
  req_strict users (r, (st, ex)) = false <->
  users = [] /\ 1 < ex /\ exists cr hq po ss db reach, r = RQuery cr hq po ss db reach.
Proof.
  unfold req_strict, strict_bootstrap_ok. split.
  - intros H. destruct r as [cr hq po ss db reach|v2 cr db]; [|discriminate].
    destruct users as [|u us]; cbn [is_nil negb orb] in H; [|discriminate].
    apply N.leb_gt in H. repeat split; [assumption|]. repeat eexists.
  - intros [-> [H [cr [hq [po [ss [db [reach ->]]]]]]]]. cbn [is_nil negb orb]. apply N.leb_gt. assumption.
Qed.

Lemma link_show bc users dbs secret cr ss db :
  show_obs_ok (bc_ok bc) users secret cr
    (snd (fst (handle_show (bc_ok bc) salted_id true secret (swap client0 (mkM users dbs)) salt0 cr ss db))) = true.
Proof.
  apply (handle_show_ok (bc_ok bc) salted_id salted_id_inj secret (swap client0 (mkM users dbs)) salt0 cr ss db).
  apply swap_wf. apply cache_wf_nil.
Qed.

(* ---------- histories ---------- *)

(* what the model would record for a history *)
Fixpoint hist_model (bc : list (N * str)) (w : world) (es : list hev) : list hobs :=
  match es with
  | [] => []
  | HOp o :: r =>
      XOp o (fst (apply_mop (w_master w) o)) :: hist_model bc (mkW (snd (apply_mop (w_master w) o)) (w_node w)) r
  | HPublish :: r =>
      let n' := swap (w_node w) (w_master w) in
      XPub (c_users n') (c_dbs n') (cache_view (c_cache n')) :: hist_model bc (mkW (w_master w) n') r
  | HAuth salt name pw :: r =>
      let an := authenticate (bc_ok bc) salted_id (w_node w) salt name pw in
      XAuth name pw (ares_code (fst an)) (ares_user (fst an)) (cache_view (c_cache (snd an))) :: hist_model bc (mkW (w_master w) (snd an)) r
  end.

Lemma opt_n_eqb_refl a : opt_n_eqb a a = true.
Proof. destruct a; cbn; [apply N.eqb_refl|reflexivity]. Qed.

Lemma user_eqb_refl u : user_eqb u u = true.
Proof.
  unfold user_eqb. rewrite str_eqb_refl, N.eqb_refl, Bool.eqb_reflx. cbn [andb].
  unfold privs_eqb. apply forallb_forall. intros dp _. apply opt_n_eqb_refl.
Qed.

Lemma list_user_eqb_refl l : list_eqb user_eqb l l = true.
Proof. induction l as [|u l IH]; cbn [list_eqb]; [reflexivity|]. rewrite user_eqb_refl, IH. reflexivity. Qed.

Lemma link_hist bc es : forall w,
  node_wf (bc_ok bc) salted_id w ->
  hist_spec bc (c_users (w_node w)) (hist_model bc w es) = true.
Proof.
  induction es as [|e es IH]; intros w Hwf; cbn [hist_model hist_spec]; [reflexivity|].
  destruct e as [o| |salt name pw]; cbn [hist_spec].
  - apply (IH (mkW _ (w_node w))). exact Hwf.
  - apply (IH (mkW (w_master w) (swap (w_node w) (w_master w)))).
    unfold node_wf. cbn [w_node]. apply swap_wf. exact Hwf.
  - pose proof (authenticate_exact (bc_ok bc) salted_id salted_id_inj (w_node w) salt name pw Hwf) as E.
    pose proof (authenticate_keeps (bc_ok bc) salted_id (w_node w) salt name pw) as K. cbn zeta in K.
    destruct (authenticate (bc_ok bc) salted_id (w_node w) salt name pw) as [a n']. cbn [fst snd] in *.
    destruct K as [Ku [_ Kw]].
    apply andb_true_iff. split; [apply andb_true_iff; split|].
    + unfold auth_obs_ok. subst a. unfold auth_ref.
      destruct (find_user (c_users (w_node w)) name) as [ui|]; [|reflexivity].
      destruct (bc_ok bc (u_hash ui) pw) eqn:Eb; reflexivity.
    + unfold ret_user_current. subst a. unfold auth_ref.
      destruct (find_user (c_users (w_node w)) name) as [ui|] eqn:Ef; [|reflexivity].
      destruct (bc_ok bc (u_hash ui) pw); cbn [ares_user]; [|reflexivity].
      apply user_eqb_refl.
    + rewrite <- Ku. apply (IH (mkW (w_master w) n')). unfold node_wf. cbn [w_node]. apply Kw. exact Hwf.
Qed.

Lemma link_hist0 bc es : hist_spec bc [] (hist_model bc world0 es) = true.
Proof. apply (link_hist bc es world0). apply world0_wf. Qed.

(* ---------- sessions ---------- *)

Definition step_unique (t : step) : Prop :=
  match t with TSet m => names_unique (m_users m) | _ => True end.

Lemma handle_query_executed bc secret c cr hq po ss db reach :
  snd (fst (handle (bc_ok bc) salted_id true secret c salt0 (RQuery cr hq po ss db reach))) = 0 \/
  snd (fst (handle (bc_ok bc) salted_id true secret c salt0 (RQuery cr hq po ss db reach))) = reach.
Proof.
  cbn [handle]. destruct (authenticate_mw (bc_ok bc) salted_id true secret c salt0 cr) as [[st|u] c1]; [left; reflexivity|].
  unfold serve_query. destruct (negb hq); [left; reflexivity|]. destruct (negb po); [left; reflexivity|].
  destruct (authorize_query (c_users c1) u ss db); cbn [fst snd]; auto.
Qed.

(* the model's record of ANY session (tables with unique user names) satisfies the executable
   spec, except for the per-statement bootstrap clause *)
Lemma link_seq bc secret ts : forall s,
  cache_wf (bc_ok bc) salted_id (c_cache (q_node s)) ->
  names_unique (m_users (q_master s)) -> Forall step_unique ts ->
  seq_spec_g false bc secret (c_users (q_node s))
             (combine ts (seq_run (bc_ok bc) salted_id true secret salt0 s ts)) = true.
Proof.
  induction ts as [|t ts IH]; intros s Hwf Hun Hts; cbn [seq_run combine seq_spec_g]; [reflexivity|].
  inversion Hts as [|t' ts' Ht Hts']; subst.
  destruct t as [m|rq|cr ss db x]; cbn [seq_step fst snd].
  - apply (IH (mkQ m (swap (q_node s) m))); [apply swap_wf; exact Hwf|exact Ht|exact Hts'].
  - pose proof (handle_req_ok (bc_ok bc) salted_id salted_id_inj secret (q_node s) salt0 rq Hwf) as H1.
    pose proof (handle_keeps (bc_ok bc) salted_id salted_id_inj secret (q_node s) salt0 rq Hwf) as H2. cbn zeta in H2.
    destruct (handle (bc_ok bc) salted_id true secret (q_node s) salt0 rq) as [o c1]. cbn [fst snd] in *.
    destruct H2 as [Hu [_ Hw]].
    assert (Hl : req_loose bc (c_users (q_node s)) secret (rq, o) = true) by (destruct rq, o; exact H1).
    rewrite Hl. cbn [negb orb andb]. rewrite <- Hu. apply (IH (mkQ (q_master s) c1)); assumption.
  - set (rq := RQuery cr true true ss db 1).
    pose proof (handle_req_ok (bc_ok bc) salted_id salted_id_inj secret (q_node s) salt0 rq Hwf) as H1.
    pose proof (handle_keeps (bc_ok bc) salted_id salted_id_inj secret (q_node s) salt0 rq Hwf) as H2. cbn zeta in H2.
    destruct (handle (bc_ok bc) salted_id true secret (q_node s) salt0 rq) as [[st ex] c1]. cbn [fst snd] in *.
    destruct H2 as [Hu [_ Hw]]. cbn [req_ok rq snd] in H1.
    destruct (N.eqb_spec ex 0) as [->|Hne].
    + cbn [fst snd]. rewrite H1. cbn [negb orb andb N.eqb]. rewrite Hu, list_user_eqb_refl. cbn [andb].
      rewrite <- Hu. apply (IH (mkQ (q_master s) c1)); assumption.
    + cbn [fst snd]. rewrite H1. cbn [negb orb andb].
      destruct (N.eqb_spec ex 0) as [E|_]; [contradiction|].
      pose proof (stmt_effect_sound (q_master s) x) as Heff.
      pose proof (exec_stmt_unique (q_master s) x Hun) as Hun'.
      destruct (exec_stmt (q_master s) x) as [ok m']. cbn [fst snd] in *.
      destruct ok.
      * cbn [swap c_users]. rewrite (Heff m' Hun eq_refl). cbn [andb].
        apply (IH (mkQ m' (swap c1 m'))); [apply swap_wf; exact Hw|exact Hun'|exact Hts'].
      * cbn [andb]. apply (IH (mkQ m' c1)); [exact Hw|exact Hun'|exact Hts'].
Qed.

Lemma link_seq0 bc secret ts :
  Forall step_unique ts ->
  seq_spec_g false bc secret [] (combine ts (seq_run (bc_ok bc) salted_id true secret salt0 seq0 ts)) = true.
Proof. intros H. apply (link_seq bc secret ts seq0); [apply cache_wf_nil|constructor|exact H]. Qed.

(* ---------- swap during Authenticate ---------- *)

Lemma link_race bc u1 u2 name pw_old pw_new k :
  (k <= 3)%nat ->
  auth_obs_ok (bc_ok bc) u2 name pw_old
              (snd (fst (race_outcome true bc u1 u2 name pw_old pw_new k)) =? 0) = true.
Proof.
  intros Hk. unfold race_outcome. cbn [fst snd].
  set (es1 := [SSwap (mkM u1 []); SCall salt0 name pw_old] ++ firstn k race_steps).
  set (s1 := sys_step (bc_ok bc) salted_id true (sys_run (bc_ok bc) salted_id true sys0 es1) (SSwap (mkM u2 []))).
  set (s := sys_run (bc_ok bc) salted_id true s1 (skipn k race_steps ++ SCall salt0 name pw_old :: race_post name pw_new)).
  assert (Hlen : (length (sy_calls s1) + n_calls (skipn k race_steps) = 1)%nat).
  { unfold s1. rewrite sys_step_length, sys_run_length; try apply salted_id_inj. unfold es1.
    destruct k as [|[|[|[|k]]]]; reflexivity. }
  assert (Hns : no_swap (skipn k race_steps) = true /\ no_swap (race_post name pw_new) = true).
  { split; [|reflexivity]. destruct k as [|[|[|[|k]]]]; reflexivity. }
  destruct Hns as [Hn1 Hn2].
  destruct (nth_error (sy_calls s) 1) as [q|] eqn:Eq; [|reflexivity].
  pose proof (call_after_swap_sound (bc_ok bc) salted_id salted_id_inj es1 (mkM u2 []) (skipn k race_steps)
                                    salt0 name pw_old (race_post name pw_new) q Hn1 Hn2) as H.
  cbn zeta in H. fold s1 in H. fold s in H. rewrite Hlen in H. specialize (H Eq). destruct H as [_ H].
  destruct q as [a b c|a b c d|a b c d|n p r]; try reflexivity.
  destruct r as [ui| |]; try reflexivity.
  destruct (H n p ui eq_refl) as [Hf Hb]. cbn [m_users] in Hf.
  unfold auth_obs_ok. cbn [ares_code]. change (0 =? 0) with true. cbn [negb orb]. rewrite Hf. exact Hb.
Qed.

(* ---------- the pinned tree (cache hit does not compare hashes) ---------- *)

(* alice: hash 1 = bcrypt("o"), then her password is changed: hash 2 = bcrypt("n").  The swap
   falls between the first call's read of her record and its cache store.  Afterwards, with
   the change installed on the node, Authenticate(alice, "o") succeeds. *)
Lemma unpatched_interleaved_refuted :
  exists bc u1 u2 name pw_old pw_new k,
    (k <= 3)%nat /\
    auth_obs_ok (bc_ok bc) u2 name pw_old
                (snd (fst (race_outcome false bc u1 u2 name pw_old pw_new k)) =? 0) = false.
Proof.
  exists [(1, [111]); (2, [110])], [mkUser [97] 1 true []], [mkUser [97] 2 true []], [97], [111], [110], 1%nat.
  split; [lia|]. vm_compute. reflexivity.
Qed.

(* ---------- bootstrap: trailing statements ---------- *)

(* the per-statement reading is false of the model (and of the code it mirrors):
   no users, no credentials; CREATE USER ... WITH ALL PRIVILEGES followed by a statement that
   needs administrator rights: both are handed to the executor *)
Lemma bootstrap_strict_refuted_lemma :
  exists bc secret r o,
    handle_all (bc_ok bc) salted_id true secret (swap client0 (mkM [] [])) salt0 [r] = [o] /\
    req_loose bc [] secret (r, o) = true /\ req_strict [] (r, o) = false.
Proof.
  exists [], true,
    (RQuery (mkCreds [] [] HNone) true true
            [mkStmt true (Some [mkRp true [] 3]); mkStmt false (Some [mkRp true [] 3])] [] 2),
    (200, 2).
  vm_compute. repeat split.
Qed.

(* ---------- derived forms used by Props.v ---------- *)

Lemma forallb_In {A} (f : A -> bool) l : forallb f l = true -> forall x, In x l -> f x = true.
Proof. intros H. apply forallb_forall. exact H. Qed.

Lemma stmt_allowed_admin_only ui db s ps p :
  stmt_allowed ui db s = true -> s_privs s = Some ps -> In p ps -> rp_admin p = true -> u_admin ui = true.
Proof.
  unfold stmt_allowed. intros H Hs Hin Hp. destruct (u_admin ui) eqn:Ea; [reflexivity|].
  cbn [orb] in H. rewrite Hs in H. pose proof (forallb_In _ _ H p Hin) as Hpa.
  unfold priv_allowed in Hpa. rewrite Ea, Hp in Hpa. discriminate.
Qed.

Section Derived.
  Variable bcrypt_ok : N -> str -> bool.
  Variable salted : str -> str -> str.
  Hypothesis salted_inj : forall salt p q, salted salt p = salted salt q -> p = q.

  Definition node_after (es : list hev) : client := w_node (hist_run bcrypt_ok salted true world0 es).

  Lemma node_after_wf es : cache_wf bcrypt_ok salted (c_cache (node_after es)).
  Proof. apply (hist_run_wf bcrypt_ok salted es world0). apply world0_wf. Qed.

  Lemma exec_implies_authorized_query es secret salt cr hq po ss db reach st ex c' :
    handle bcrypt_ok salted true secret (node_after es) salt (RQuery cr hq po ss db reach) = ((st, ex), c') ->
    ex <> 0 ->
    (c_users (node_after es) = [] /\ first_creates_admin ss = true) \/
    (c_users (node_after es) <> [] /\
     exists cd ui, In cd (carried cr) /\ cred_valid bcrypt_ok (c_users (node_after es)) secret cd = Some ui /\
                   forall s, In s ss -> stmt_allowed ui db s = true).
  Proof.
    intros H Hex.
    destruct (handle_query_sound bcrypt_ok salted salted_inj _ _ _ _ _ _ _ _ _ _ _ _ (node_after_wf es) H Hex)
      as [Hl|[Hn [cd [ui [H1 [H2 H3]]]]]]; [left; exact Hl|right].
    split; [exact Hn|]. exists cd, ui. split; [exact H1|split; [exact H2|]]. apply forallb_In. exact H3.
  Qed.

  Lemma exec_implies_authorized_write es secret salt v2 cr db st ex c' :
    handle bcrypt_ok salted true secret (node_after es) salt (RWrite v2 cr db) = ((st, ex), c') ->
    ex <> 0 ->
    exists cd ui, In cd (carried cr) /\ cred_valid bcrypt_ok (c_users (node_after es)) secret cd = Some ui /\
                  write_allowed ui db = true /\ mem_str db (c_dbs (node_after es)) = true.
  Proof. intros H Hex. exact (handle_write_sound bcrypt_ok salted salted_inj _ _ _ _ _ _ _ _ _ (node_after_wf es) H Hex). Qed.

  Lemma admin_only_lemma es secret salt cr hq po ss db reach st ex c' :
    handle bcrypt_ok salted true secret (node_after es) salt (RQuery cr hq po ss db reach) = ((st, ex), c') ->
    ex <> 0 -> c_users (node_after es) <> [] ->
    exists cd ui, In cd (carried cr) /\ cred_valid bcrypt_ok (c_users (node_after es)) secret cd = Some ui /\
      forall s ps p, In s ss -> s_privs s = Some ps -> In p ps -> rp_admin p = true -> u_admin ui = true.
  Proof.
    intros H Hex Hne.
    destruct (exec_implies_authorized_query _ _ _ _ _ _ _ _ _ _ _ _ H Hex) as [[Hn _]|[_ [cd [ui [H1 [H2 H3]]]]]]; [contradiction|].
    exists cd, ui. split; [exact H1|split; [exact H2|]].
    intros s ps p Hs Hps Hp Ha. exact (stmt_allowed_admin_only ui db s ps p (H3 s Hs) Hps Hp Ha).
  Qed.

  (* the same, unfolded to single required privileges: each is checked against ITS OWN target
     database - the one it names, else the request's default - with nothing carried over from
     other privileges or statements *)
  Lemma exec_each_privilege_covered es secret salt cr hq po ss db reach st ex c' :
    handle bcrypt_ok salted true secret (node_after es) salt (RQuery cr hq po ss db reach) = ((st, ex), c') ->
    ex <> 0 -> c_users (node_after es) <> [] ->
    exists cd ui, In cd (carried cr) /\ cred_valid bcrypt_ok (c_users (node_after es)) secret cd = Some ui /\
      (u_admin ui = true \/
       forall s, In s ss -> exists ps, s_privs s = Some ps /\
         forall p, In p ps ->
           rp_admin p = false /\
           grant_covers (lookup_priv (u_privs ui) (if is_empty (rp_name p) then db else rp_name p)) (rp_priv p) = true).
  Proof.
    intros H Hex Hne.
    destruct (exec_implies_authorized_query _ _ _ _ _ _ _ _ _ _ _ _ H Hex) as [[Hn _]|[_ [cd [ui [H1 [H2 H3]]]]]]; [contradiction|].
    exists cd, ui. split; [exact H1|split; [exact H2|]].
    destruct (u_admin ui) eqn:Ea; [left; reflexivity|right].
    intros s Hs. specialize (H3 s Hs). unfold stmt_allowed in H3. rewrite Ea in H3. cbn [orb] in H3.
    destruct (s_privs s) as [ps|]; [|discriminate]. exists ps. split; [reflexivity|].
    intros p Hp. pose proof (forallb_In _ _ H3 p Hp) as Hpa.
    unfold priv_allowed, target in Hpa. rewrite Ea in Hpa. cbn [orb] in Hpa.
    apply andb_true_iff in Hpa. destruct Hpa as [Hna Hg]. split; [|exact Hg].
    destruct (rp_admin p); [discriminate|reflexivity].
  Qed.

  (* no users: the middleware lets everything through un-authenticated and AuthorizeQuery
     looks at the first statement only *)
  Lemma bootstrap_query_lemma secret c salt cr ss db reach :
    c_users c = [] ->
    fst (handle bcrypt_ok salted true secret c salt (RQuery cr true true ss db reach)) =
    (if first_creates_admin ss then (200, reach) else (403, 0)).
  Proof.
    intros Hn. cbn [handle]. unfold authenticate_mw. rewrite Hn. cbn [admin_user_exists existsb negb fst].
    unfold serve_query. cbn [negb]. rewrite Hn. unfold authorize_query. cbn [length N.of_nat N.eqb].
    unfold first_creates_admin. destruct ss as [|s ss]; [reflexivity|]. destruct (s_create_admin s); reflexivity.
  Qed.

  Lemma bootstrap_write_lemma secret c salt v2 cr db :
    c_users c = [] ->
    snd (fst (handle bcrypt_ok salted true secret c salt (RWrite v2 cr db))) = 0.
  Proof.
    intros Hn. cbn [handle]. unfold authenticate_mw. rewrite Hn. cbn [admin_user_exists existsb negb fst].
    unfold serve_write. destruct (is_empty db); [destruct v2; reflexivity|].
    destruct (mem_str db (c_dbs c)); reflexivity.
  Qed.

  Lemma revocation_effective_lemma es secret salt r :
    fst (handle bcrypt_ok salted true secret (node_after es) salt r) =
    fst (handle bcrypt_ok salted true secret (mkC (c_users (node_after es)) (c_dbs (node_after es)) []) salt r).
  Proof. apply (handle_cache_independent bcrypt_ok salted salted_inj). apply node_after_wf. Qed.
End Derived.
