(* C16/Model.v — executable model of authentication and authorisation:
     services/meta/data.go     UserInfo.AuthorizeDatabase, Data.user, CreateUser/DropUser/UpdateUser/
                               SetPrivilege/SetAdminPrivilege/CreateDatabase/DropDatabase (user part)
     services/meta/query_authorizer.go  QueryAuthorizer.AuthorizeQuery
     services/meta/write_authorizer.go  WriteAuthorizer.AuthorizeWrite
     services/meta/client.go   Client.Authenticate (credential cache), updateAuthCache, the
                               metadata swap of pollForUpdates
     services/httpd/handler.go parseCredentials, authenticate (middleware), serveQuery, serveWrite
   Definitions only; proofs live in Proofs.v.
   bcrypt.CompareHashAndPassword and the salted SHA-256 of the cache are Section variables. *)
From Verif Require Export Lib.Bytes.
Open Scope N_scope.

Definition str := list N.

Fixpoint str_eqb (a b : str) : bool :=
  match a, b with
  | [], [] => true
  | x :: a', y :: b' => N.eqb x y && str_eqb a' b'
  | _, _ => false
  end.

Definition is_empty (s : str) : bool := match s with [] => true | _ => false end.

(* influxql.Privilege values (asserted against the library by the harness at start-up) *)
Definition NoPrivileges : N := 0.
Definition ReadPrivilege : N := 1.
Definition WritePrivilege : N := 2.
Definition AllPrivileges : N := 3.

(* ---------- meta.UserInfo ---------- *)

(* u_hash identifies the stored bcrypt hash string (equal ids <-> equal strings);
   u_privs is the Privileges map (association list, first binding wins). *)
Record user := mkUser { u_name : str; u_hash : N; u_admin : bool; u_privs : list (str * N) }.

(* Data.user / Client.user: first record with that name *)
Fixpoint find_user (us : list user) (name : str) : option user :=
  match us with
  | [] => None
  | u :: r => if str_eqb (u_name u) name then Some u else find_user r name
  end.

Fixpoint lookup_priv (ps : list (str * N)) (db : str) : option N :=
  match ps with
  | [] => None
  | (d, p) :: r => if str_eqb d db then Some p else lookup_priv r db
  end.

(* UserInfo.AuthorizeDatabase *)
Definition authorize_database (ui : user) (privilege : N) (db : str) : bool :=
  if u_admin ui || (privilege =? NoPrivileges) then true
  else match lookup_priv (u_privs ui) db with
       | Some p => (p =? privilege) || (p =? AllPrivileges)
       | None => false
       end.

(* Data.hasAdminUser, cached as adminUserExists when a snapshot is decoded *)
Definition admin_user_exists (us : list user) : bool := existsb u_admin us.

(* ---------- statements, abstracted to what the authoriser looks at ---------- *)

(* influxql.ExecutionPrivilege *)
Record rpriv := mkRp { rp_admin : bool; rp_name : str; rp_priv : N }.

(* s_create_admin: the statement is a *CreateUserStatement with Admin set;
   s_privs: result of stmt.RequiredPrivileges(), None when it returns an error *)
Record stmt := mkStmt { s_create_admin : bool; s_privs : option (list rpriv) }.

(* AuthorizeQuery result; the error classes are told apart by the harness from the message *)
Inductive qres := QOk | QErrBootstrap | QErrNoUser | QErrAdmin | QErrPriv | QErrStmt.

Definition qres_code (r : qres) : N :=
  match r with QOk => 0 | QErrBootstrap => 1 | QErrNoUser => 2 | QErrAdmin => 3 | QErrPriv => 4 | QErrStmt => 5 end.

(* inner loop "for _, p := range privs" *)
Fixpoint check_privs (ui : user) (database : str) (ps : list rpriv) : qres :=
  match ps with
  | [] => QOk
  | p :: r =>
      if rp_admin p then QErrAdmin
      else
        let db := if is_empty (rp_name p) then database else rp_name p in
        if authorize_database ui (rp_priv p) db then check_privs ui database r else QErrPriv
  end.

(* outer loop "for _, stmt := range q.Statements" *)
Fixpoint check_stmts (ui : user) (database : str) (ss : list stmt) : qres :=
  match ss with
  | [] => QOk
  | s :: r =>
      match s_privs s with
      | None => QErrStmt
      | Some ps => match check_privs ui database ps with
                   | QOk => check_stmts ui database r
                   | e => e
                   end
      end
  end.

(* QueryAuthorizer.AuthorizeQuery; [users] = Client.data().Users, [u] = the User handed in *)
Definition authorize_query (users : list user) (u : option user) (ss : list stmt) (database : str) : qres :=
  if (N.of_nat (length users) =? 0) then
    match ss with
    | s :: _ => if s_create_admin s then QOk else QErrBootstrap
    | [] => QErrBootstrap
    end
  else match u with
       | None => QErrNoUser
       | Some ui => if u_admin ui then QOk else check_stmts ui database ss
       end.

(* WriteAuthorizer.AuthorizeWrite: looks the user up again by name *)
Definition authorize_write (users : list user) (username database : str) : bool :=
  match find_user users username with
  | None => false
  | Some ui => authorize_database ui WritePrivilege database
  end.

(* ---------- meta store side: the replicated user table (data.go) ---------- *)

Record mdata := mkM { m_users : list user; m_dbs : list str }.

Inductive mop :=
| OCreateUser (name : str) (hash : N) (admin : bool)
| ODropUser (name : str)
| OUpdateUser (name : str) (hash : N)
| OSetPriv (name db : str) (p : N)
| OSetAdmin (name : str) (admin : bool)
| OCreateDb (db : str)
| ODropDb (db : str).

Fixpoint mem_str (x : str) (l : list str) : bool :=
  match l with [] => false | y :: r => str_eqb y x || mem_str x r end.

Fixpoint drop_first_user (us : list user) (name : str) : list user :=
  match us with
  | [] => []
  | u :: r => if str_eqb (u_name u) name then r else u :: drop_first_user r name
  end.

(* apply f to the first user called name *)
Fixpoint map_first_user (f : user -> user) (us : list user) (name : str) : list user :=
  match us with
  | [] => []
  | u :: r => if str_eqb (u_name u) name then f u :: r else u :: map_first_user f r name
  end.

(* map assignment m[db] = p *)
Fixpoint set_priv (ps : list (str * N)) (db : str) (p : N) : list (str * N) :=
  match ps with
  | [] => [(db, p)]
  | (d, q) :: r => if str_eqb d db then (d, p) :: r else (d, q) :: set_priv r db p
  end.

(* delete(m, db) *)
Fixpoint del_priv (ps : list (str * N)) (db : str) : list (str * N) :=
  match ps with
  | [] => []
  | (d, q) :: r => if str_eqb d db then del_priv r db else (d, q) :: del_priv r db
  end.

Fixpoint drop_first_str (l : list str) (x : str) : list str :=
  match l with [] => [] | y :: r => if str_eqb y x then r else y :: drop_first_str r x end.

(* returns (error?, new value); on error the value is unchanged *)
Definition apply_mop (m : mdata) (o : mop) : bool * mdata :=
  match o with
  | OCreateUser name hash admin =>
      if is_empty name then (false, m)
      else match find_user (m_users m) name with
           | Some _ => (false, m)
           | None => (true, mkM (m_users m ++ [mkUser name hash admin []]) (m_dbs m))
           end
  | ODropUser name =>
      match find_user (m_users m) name with
      | None => (false, m)
      | Some _ => (true, mkM (drop_first_user (m_users m) name) (m_dbs m))
      end
  | OUpdateUser name hash =>
      match find_user (m_users m) name with
      | None => (false, m)
      | Some _ => (true, mkM (map_first_user (fun u => mkUser (u_name u) hash (u_admin u) (u_privs u)) (m_users m) name) (m_dbs m))
      end
  | OSetPriv name db p =>
      match find_user (m_users m) name with
      | None => (false, m)
      | Some _ =>
          if mem_str db (m_dbs m)
          then (true, mkM (map_first_user (fun u => mkUser (u_name u) (u_hash u) (u_admin u) (set_priv (u_privs u) db p)) (m_users m) name) (m_dbs m))
          else (false, m)
      end
  | OSetAdmin name admin =>
      match find_user (m_users m) name with
      | None => (false, m)
      | Some _ => (true, mkM (map_first_user (fun u => mkUser (u_name u) (u_hash u) admin (u_privs u)) (m_users m) name) (m_dbs m))
      end
  | OCreateDb db =>
      if is_empty db then (false, m)
      else if mem_str db (m_dbs m) then (true, m)
      else (true, mkM (m_users m) (m_dbs m ++ [db]))
  | ODropDb db =>
      if mem_str db (m_dbs m)
      then (true, mkM (map (fun u => mkUser (u_name u) (u_hash u) (u_admin u) (del_priv (u_privs u) db)) (m_users m))
                      (drop_first_str (m_dbs m) db))
      else (true, m)
  end.

(* ---------- coordinator.StatementExecutor: user-management statements ---------- *)

(* the statements that change users and grants, abstracted to what the executor passes on
   (XSetPassword carries the id of the hash UpdateUser stores; XOther: anything else) *)
Inductive xstmt :=
| XGrant (name db : str) (p : N)
| XRevoke (name db : str) (p : N)
| XGrantAdmin (name : str)
| XRevokeAdmin (name : str)
| XSetPassword (name : str) (hash : N)
| XDropUser (name : str)
| XOther.

(* Data.UserPrivilege: error for an unknown user, NoPrivileges when the map has no entry *)
Definition user_privilege (m : mdata) (name db : str) : option N :=
  match find_user (m_users m) name with
  | None => None
  | Some u => Some (match lookup_priv (u_privs u) db with Some p => p | None => NoPrivileges end)
  end.

(* executeGrantStatement / executeRevokeStatement / executeGrantAdminStatement /
   executeRevokeAdminStatement / executeSetPasswordUserStatement / executeDropUserStatement,
   with the MetaClient calls resolved to the data.go operations *)
Definition exec_stmt (m : mdata) (x : xstmt) : bool * mdata :=
  match x with
  | XGrant name db p => apply_mop m (OSetPriv name db p)
  | XRevoke name db p =>
      (* "Revoking all privileges means there's no need to look at existing user privileges" *)
      if p =? AllPrivileges then apply_mop m (OSetPriv name db NoPrivileges)
      else match user_privilege m name db with
           | None => (false, m)
           | Some held => apply_mop m (OSetPriv name db (N.ldiff held p))   (* held &^ revoked *)
           end
  | XGrantAdmin name => apply_mop m (OSetAdmin name true)
  | XRevokeAdmin name => apply_mop m (OSetAdmin name false)
  | XSetPassword name hash => apply_mop m (OUpdateUser name hash)
  | XDropUser name => apply_mop m (ODropUser name)
  | XOther => (true, m)
  end.

(* ---------- meta.Client: Authenticate with its cache, metadata swap ---------- *)

Section Auth.
  (* bcrypt.CompareHashAndPassword(hash, pw) == nil *)
  Variable bcrypt_ok : N -> str -> bool.
  (* Client.hashWithSalt(salt, pw) *)
  Variable salted : str -> str -> str.

  (* authUser *)
  Record centry := mkCe { ce_salt : str; ce_hash : str; ce_bhash : N }.
  Definition cache := list (str * centry).

  Fixpoint cache_get (c : cache) (name : str) : option centry :=
    match c with
    | [] => None
    | (n, e) :: r => if str_eqb n name then Some e else cache_get r name
    end.

  (* map assignment *)
  Fixpoint cache_put (c : cache) (name : str) (e : centry) : cache :=
    match c with
    | [] => [(name, e)]
    | (n, e0) :: r => if str_eqb n name then (n, e) :: r else (n, e0) :: cache_put r name e
    end.

  (* the node's view: current metadata snapshot (users, database names) and the cache *)
  Record client := mkC { c_users : list user; c_dbs : list str; c_cache : cache }.

  Definition client0 : client := mkC [] [] [].

  Inductive ares := AOk (ui : user) | ANotFound | ABadPw.

  Definition ares_code (r : ares) : N := match r with AOk _ => 0 | ANotFound => 1 | ABadPw => 2 end.

  (* cache hit test.  [chk]=true is the repaired code ("fix:" commit): a hit also requires
     that the entry was verified against the hash the user has NOW; [chk]=false is the
     pinned tree, kept for the refutation lemma. *)
  Definition cache_hit (chk : bool) (c : cache) (ui : user) (name pw : str) : bool :=
    match cache_get c name with
    | Some e => (if chk then ce_bhash e =? u_hash ui else true) && str_eqb (salted (ce_salt e) pw) (ce_hash e)
    | None => false
    end.

  (* Client.Authenticate run without interruption; [salt] is what crypto/rand delivers *)
  Definition authenticate_with (chk : bool) (c : client) (salt name pw : str) : ares * client :=
    match find_user (c_users c) name with
    | None => (ANotFound, c)
    | Some ui =>
        if cache_hit chk (c_cache c) ui name pw then (AOk ui, c)
        else if bcrypt_ok (u_hash ui) pw
             then (AOk ui, mkC (c_users c) (c_dbs c)
                               (cache_put (c_cache c) name (mkCe salt (salted salt pw) (u_hash ui))))
             else (ABadPw, c)
    end.

  Definition authenticate := authenticate_with true.

  (* Client.updateAuthCache: keep entries of users still present with the same hash *)
  Fixpoint update_auth_cache (us : list user) (old : cache) : cache :=
    match us with
    | [] => []
    | u :: r =>
        let rest := update_auth_cache r old in
        match cache_get old (u_name u) with
        | Some e => if ce_bhash e =? u_hash u then cache_put rest (u_name u) e else rest
        | None => rest
        end
    end.

  (* pollForUpdates critical section: c.cacheData = data; c.updateAuthCache() *)
  Definition swap (c : client) (m : mdata) : client :=
    mkC (m_users m) (m_dbs m) (update_auth_cache (m_users m) (c_cache c)).

  (* ----- the same Authenticate cut where it releases its locks (interleaving model) ----- *)
  (* A1: userInfo := c.data().user(name)     (RLock inside data())
     A2: au, ok := c.authCache[name]         (RLock) ; then hit test and bcrypt: thread-local
     A3: c.authCache[name] = ...             (Lock)                                          *)
  Inductive pc :=
  | PStart (salt name pw : str)
  | PHaveUser (ui : user) (salt name pw : str)
  | PStore (ui : user) (salt name pw : str)
  | PDone (name pw : str) (r : ares).

  Definition step_call (chk : bool) (c : client) (p : pc) : pc * client :=
    match p with
    | PStart salt name pw =>
        match find_user (c_users c) name with
        | None => (PDone name pw ANotFound, c)
        | Some ui => (PHaveUser ui salt name pw, c)
        end
    | PHaveUser ui salt name pw =>
        if cache_hit chk (c_cache c) ui name pw then (PDone name pw (AOk ui), c)
        else if bcrypt_ok (u_hash ui) pw then (PStore ui salt name pw, c)
        else (PDone name pw ABadPw, c)
    | PStore ui salt name pw =>
        (PDone name pw (AOk ui), mkC (c_users c) (c_dbs c)
                             (cache_put (c_cache c) name (mkCe salt (salted salt pw) (u_hash ui))))
    | PDone name pw r => (PDone name pw r, c)
    end.

  (* a schedule: start a call, advance call number k by one step, or swap in a snapshot *)
  Inductive sev :=
  | SCall (salt name pw : str)
  | SStep (k : nat)
  | SSwap (m : mdata).

  Record sys := mkSys { sy_client : client; sy_calls : list pc }.

  Fixpoint upd_nth {A} (l : list A) (k : nat) (x : A) : list A :=
    match l, k with
    | [], _ => []
    | _ :: r, O => x :: r
    | y :: r, S k' => y :: upd_nth r k' x
    end.

  Definition sys_step (chk : bool) (s : sys) (e : sev) : sys :=
    match e with
    | SCall salt name pw => mkSys (sy_client s) (sy_calls s ++ [PStart salt name pw])
    | SStep k =>
        match nth_error (sy_calls s) k with
        | None => s
        | Some p => let '(p', c') := step_call chk (sy_client s) p in
                    mkSys c' (upd_nth (sy_calls s) k p')
        end
    | SSwap m => mkSys (swap (sy_client s) m) (sy_calls s)
    end.

  Definition sys_run (chk : bool) (s : sys) (es : list sev) : sys := fold_left (sys_step chk) es s.

  Definition sys0 : sys := mkSys client0 [].

  (* ---------- sequential histories: meta-store changes, snapshots reaching the node,
                authentications on the node ---------- *)
  Inductive hev :=
  | HOp (o : mop)                  (* change applied at the meta store *)
  | HPublish                       (* the current value reaches the node *)
  | HAuth (salt name pw : str).    (* Client.Authenticate on the node *)

  Record world := mkW { w_master : mdata; w_node : client }.
  Definition world0 : world := mkW (mkM [] []) client0.

  Definition hist_step (chk : bool) (w : world) (e : hev) : world :=
    match e with
    | HOp o => mkW (snd (apply_mop (w_master w) o)) (w_node w)
    | HPublish => mkW (w_master w) (swap (w_node w) (w_master w))
    | HAuth salt name pw => mkW (w_master w) (snd (authenticate_with chk (w_node w) salt name pw))
    end.

  Definition hist_run (chk : bool) (w : world) (es : list hev) : world := fold_left (hist_step chk) es w.

  (* ---------- httpd: credentials, middleware, inner handlers ---------- *)

  (* Authorization header as built by the client.
     HBearer cls name: "Bearer <jwt>"; cls = 0 iff the token is HMAC-signed with the shared
       secret, unexpired, carries a positive numeric exp and a string username claim
       (the JWT library is trusted: any other class is rejected by jwt.Parse or the claim checks)
     HToken raw: "Token <raw>";  HBasic raw: "Basic base64(raw)";  HOther: any other scheme *)
  Inductive header :=
  | HNone
  | HBearer (cls : N) (name : str)
  | HToken (raw : str)
  | HBasic (raw : str)
  | HOther.

  (* u, p URL parameters and the header *)
  Record creds := mkCreds { cr_u : str; cr_p : str; cr_hdr : header }.

  Inductive pcred := PUser (u p : str) | PBearer (cls : N) (name : str).

  (* strings.Cut(s, ":") *)
  Fixpoint cut_colon (s : str) : option (str * str) :=
    match s with
    | [] => None
    | c :: r => if c =? 58 then Some ([], r)
                else match cut_colon r with
                     | Some (a, b) => Some (c :: a, b)
                     | None => None
                     end
    end.

  Definition has_space (s : str) : bool := existsb (fun c => c =? 32) s.

  (* parseCredentials *)
  Definition parse_credentials (cr : creds) : option pcred :=
    if negb (is_empty (cr_u cr)) && negb (is_empty (cr_p cr)) then Some (PUser (cr_u cr) (cr_p cr))
    else match cr_hdr cr with
         | HNone => None
         | HBearer cls name => Some (PBearer cls name)
         | HToken raw =>
             (* strings.Split(s, " ") must give exactly two parts, then parseToken;
                otherwise r.BasicAuth() which fails on a non-Basic scheme *)
             if has_space raw then None
             else match cut_colon raw with
                  | Some (u, p) => Some (PUser u p)
                  | None => None
                  end
         | HBasic raw =>
             match cut_colon raw with
             | Some (u, p) => Some (PUser u p)
             | None => None
             end
         | HOther => None
         end.

  Inductive mw_res := MwReject (status : N) | MwInner (u : option user).

  (* authenticate(inner, h, requireAuthentication = true) *)
  Definition authenticate_mw (chk secret_set : bool) (c : client) (salt : str) (cr : creds) : mw_res * client :=
    if negb (admin_user_exists (c_users c)) then (MwInner None, c)
    else match parse_credentials cr with
         | None => (MwReject 401, c)
         | Some (PUser u p) =>
             if is_empty u then (MwReject 401, c)
             else match authenticate_with chk c salt u p with
                  | (AOk ui, c') => (MwInner (Some ui), c')
                  | (_, c') => (MwReject 401, c')
                  end
         | Some (PBearer cls name) =>
             if negb secret_set then (MwReject 401, c)
             else if negb (cls =? 0) then (MwReject 401, c)
             else if is_empty name then (MwReject 401, c)
             else match find_user (c_users c) name with
                  | Some ui => (MwInner (Some ui), c)
                  | None => (MwReject 401, c)
                  end
         end.

  (* one HTTP request.
     RQuery: has_q = a non-blank q parameter is present; parse_ok = the influxql parser accepts it;
             reach = how many statements the executor loop hands to the StatementExecutor once the
             query is authorised (measured on the same handler with authentication off)
     RWrite: v2 = /api/v2/write (bucket) instead of /write (db) *)
  Inductive request :=
  | RQuery (cr : creds) (has_q parse_ok : bool) (ss : list stmt) (db : str) (reach : N)
  | RWrite (v2 : bool) (cr : creds) (db : str).

  (* HTTP status and the number of statements executed / 1 when the points writer was called *)
  Definition hres := (N * N)%type.

  Definition serve_query (c : client) (u : option user) (has_q parse_ok : bool) (ss : list stmt) (db : str) (reach : N) : hres :=
    if negb has_q then (400, 0)
    else if negb parse_ok then (400, 0)
    else match authorize_query (c_users c) u ss db with
         | QOk => (200, reach)
         | _ => (403, 0)
         end.

  Definition serve_write (c : client) (u : option user) (v2 : bool) (db : str) : hres :=
    if is_empty db then ((if v2 then 404 else 400), 0)
    else if negb (mem_str db (c_dbs c)) then (404, 0)
    else match u with
         | None => (403, 0)
         | Some ui => if authorize_write (c_users c) (u_name ui) db then (204, 1) else (403, 0)
         end.

  Definition handle (chk secret_set : bool) (c : client) (salt : str) (r : request) : hres * client :=
    match r with
    | RQuery cr has_q parse_ok ss db reach =>
        match authenticate_mw chk secret_set c salt cr with
        | (MwReject st, c') => ((st, 0), c')
        | (MwInner u, c') => (serve_query c' u has_q parse_ok ss db reach, c')
        end
    | RWrite v2 cr db =>
        match authenticate_mw chk secret_set c salt cr with
        | (MwReject st, c') => ((st, 0), c')
        | (MwInner u, c') => (serve_write c' u v2 db, c')
        end
    end.

  (* httpd.userQueryAuthorizer.AuthorizeDatabase -> QueryAuthorizer.AuthorizeDatabase:
     no user, no access *)
  Definition coarse_authorize (u : option user) (p : N) (db : str) : bool :=
    match u with
    | None => false
    | Some ui => authorize_database ui p db
    end.

  (* coordinator.StatementExecutor.executeShowDatabasesStatement / ...ShowContinuousQueries...:
     "only include databases that the user is authorized to read or write" *)
  Definition visible_dbs (u : option user) (dbs : list str) : list str :=
    filter (fun db => coarse_authorize u ReadPrivilege db || coarse_authorize u WritePrivilege db) dbs.

  (* a query request containing one SHOW DATABASES / SHOW CONTINUOUS QUERIES statement:
     HTTP status and the database names in the answer *)
  Definition handle_show (chk secret_set : bool) (c : client) (salt : str) (cr : creds) (ss : list stmt) (db : str)
    : (N * list str) * client :=
    match authenticate_mw chk secret_set c salt cr with
    | (MwReject st, c') => ((st, []), c')
    | (MwInner u, c') =>
        match authorize_query (c_users c') u ss db with
        | QOk => ((200, visible_dbs u (c_dbs c')), c')
        | _ => ((403, []), c')
        end
    end.

  (* ----- a session on one node: tables installed, requests, user-management statements ----- *)
  (* TStmt: one user-management statement sent as a query request with credentials cr and
     executed by the real StatementExecutor; every successful change is installed on the node
     before the next step *)
  Inductive step :=
  | TSet (m : mdata)
  | TReq (r : request)
  | TStmt (cr : creds) (ss : list stmt) (db : str) (x : xstmt).

  (* OStmt: HTTP status, statements executed, did the statement succeed, the node's user table afterwards *)
  Inductive sobs :=
  | OSet
  | OReq (o : hres)
  | OStmt (status executed : N) (ok : bool) (users_after : list user).

  Record seqst := mkQ { q_master : mdata; q_node : client }.

  Definition seq_step (chk secret_set : bool) (salt : str) (s : seqst) (t : step) : sobs * seqst :=
    match t with
    | TSet m => (OSet, mkQ m (swap (q_node s) m))
    | TReq r => let oc := handle chk secret_set (q_node s) salt r in (OReq (fst oc), mkQ (q_master s) (snd oc))
    | TStmt cr ss db x =>
        let oc := handle chk secret_set (q_node s) salt (RQuery cr true true ss db 1) in
        if snd (fst oc) =? 0 then (OStmt (fst (fst oc)) 0 false (c_users (snd oc)), mkQ (q_master s) (snd oc))
        else
          let em := exec_stmt (q_master s) x in
          let c' := if fst em then swap (snd oc) (snd em) else snd oc in
          (OStmt (fst (fst oc)) (snd (fst oc)) (fst em) (c_users c'), mkQ (snd em) c')
    end.

  Fixpoint seq_run (chk secret_set : bool) (salt : str) (s : seqst) (ts : list step) : list sobs :=
    match ts with
    | [] => []
    | t :: r => let os := seq_step chk secret_set salt s t in fst os :: seq_run chk secret_set salt (snd os) r
    end.

  Definition seq0 : seqst := mkQ (mkM [] []) client0.

  (* several requests in sequence on one node (the cache carries over) *)
  Fixpoint handle_all (chk secret_set : bool) (c : client) (salt : str) (rs : list request) : list hres :=
    match rs with
    | [] => []
    | r :: rest => let '(o, c') := handle chk secret_set c salt r in o :: handle_all chk secret_set c' salt rest
    end.
End Auth.
