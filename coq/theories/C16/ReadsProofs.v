(* C16/ReadsProofs.v — every database an authorised SHOW statement reads is covered by a
   privilege the authoriser checked (repaired rule); refuted for the pinned rule. *)
From Verif Require Import Lib.Bytes C16.Model C16.Spec C16.Proofs C16.Reads C16.Run C16.Link.
Open Scope N_scope.

Lemma check_privs_app ui db a b :
  check_privs ui db (a ++ b) = QOk -> check_privs ui db a = QOk /\ check_privs ui db b = QOk.
Proof.
  induction a as [|p a IH]; cbn [app check_privs]; intros H; [split; [reflexivity|exact H]|].
  destruct (rp_admin p); [discriminate|].
  destruct (authorize_database ui (rp_priv p) _); [exact (IH H)|discriminate].
Qed.

Lemma check_privs_read1 ui db x :
  check_privs ui db [read_on x] = QOk -> authorize_database ui ReadPrivilege (or_else x db) = true.
Proof.
  unfold read_on, or_else. cbn [check_privs rp_admin rp_name rp_priv].
  destruct (authorize_database ui ReadPrivilege _); [reflexivity|discriminate].
Qed.

Lemma check_privs_read_map ui db (f : str -> str) l :
  check_privs ui db (map (fun d => read_on (f d)) l) = QOk ->
  forall d, In d l -> authorize_database ui ReadPrivilege (or_else (f d) db) = true.
Proof.
  induction l as [|x l IH]; cbn [map]; intros H d Hin; [destruct Hin|].
  change (check_privs ui db ([read_on (f x)] ++ map (fun d => read_on (f d)) l) = QOk) in H.
  apply check_privs_app in H. destruct H as [H1 H2].
  destruct Hin as [<-|Hin]; [exact (check_privs_read1 _ _ _ H1)|exact (IH H2 d Hin)].
Qed.

Lemma in_filter_single (f : str -> bool) x d : In d (filter f [x]) -> d = x.
Proof. cbn [filter]. destruct (f x); intros H; [destruct H as [<-|[]]; reflexivity|destruct H]. Qed.

(* the core: for EVERY user, default database, SHOW statement and set of existing databases *)
Lemma show_reads_covered ui reqdb s all d :
  check_privs ui reqdb (show_privs true s) = QOk ->
  In d (show_reads true (Some ui) s reqdb all) ->
  authorize_database ui ReadPrivilege d = true.
Proof.
  intros Hp Hin. unfold show_privs in Hp. apply check_privs_app in Hp. destruct Hp as [Hlib Hext].
  unfold show_reads in Hin.
  destruct (via_select s) eqn:Ev.
  - assert (Hrs : reads_sources (sh_kind s) = true).
    { unfold via_select in Ev. destruct (sh_kind s); try reflexivity; discriminate. }
    cbv zeta in Hin.
    destruct (forallb (fun d0 => mem_str d0 all) (source_targets s reqdb)); [|destruct Hin].
    unfold show_read_privs in Hext. rewrite Hrs in Hext. unfold source_targets in Hin.
    destruct (sh_srcs s) as [|x l] eqn:Es.
    + destruct Hin as [<-|[]]. exact (check_privs_read1 _ _ _ Hext).
    + apply in_map_iff in Hin. destruct Hin as [y [<- Hy]].
      exact (check_privs_read_map ui reqdb (fun d => or_else d (sh_on s)) (x :: l) Hext y Hy).
  - unfold via_select in Ev. unfold lib_privs in Hlib. unfold show_read_privs in Hext.
    destruct (sh_kind s) eqn:Ek; try discriminate; cbn [reads_sources] in Hext.
    + (* SHOW TAG KEYS *) apply in_filter_single in Hin. subst d. exact (check_privs_read1 _ _ _ Hlib).
    + (* SHOW TAG VALUES *) apply in_filter_single in Hin. subst d. exact (check_privs_read1 _ _ _ Hlib).
    + (* SHOW MEASUREMENTS *)
      destruct (sh_wild s =? 1).
      * apply filter_In in Hin. destruct Hin as [_ Hin]. exact Hin.
      * destruct (sh_wild s =? 0); [|destruct Hin].
        apply in_filter_single in Hin. subst d. exact (check_privs_read1 _ _ _ Hlib).
    + (* SHOW SERIES CARDINALITY, estimation path *)
      apply negb_false_iff in Ev. unfold est_path in Ev. apply andb_true_iff in Ev. destruct Ev as [_ Ev].
      destruct (sh_srcs s); [|discriminate].
      apply in_filter_single in Hin. subst d. exact (check_privs_read1 _ _ _ Hext).
    + (* SHOW MEASUREMENT CARDINALITY, estimation path *)
      apply negb_false_iff in Ev. unfold est_path in Ev. apply andb_true_iff in Ev. destruct Ev as [_ Ev].
      destruct (sh_srcs s); [|discriminate].
      apply in_filter_single in Hin. subst d. exact (check_privs_read1 _ _ _ Hext).
Qed.

(* through the handler, any node state: a database is read only for the user the middleware
   admitted, and that user may read it *)
Lemma handle_dbread_sound bcrypt_ok salted secret c salt cr s db st reads c' d :
  handle_dbread bcrypt_ok salted true true secret c salt cr s db = ((st, reads), c') ->
  In d reads ->
  exists ui, fst (authenticate_mw bcrypt_ok salted true secret c salt cr) = MwInner (Some ui) /\
             authorize_database ui ReadPrivilege d = true.
Proof.
  unfold handle_dbread. destruct (authenticate_mw bcrypt_ok salted true secret c salt cr) as [r c1].
  destruct r as [st0|u]; intros H Hin.
  - inversion H; subst. destruct Hin.
  - destruct (authorize_query (c_users c1) u [mkStmt false (Some (show_privs true s))] db) eqn:Eq;
      [|inversion H; subst; destruct Hin ..].
    injection H as H1 H2 H3. subst reads.
    unfold authorize_query in Eq.
    destruct (N.of_nat (length (c_users c1)) =? 0); [cbn in Eq; discriminate|].
    destruct u as [ui|]; [|discriminate]. exists ui. split; [reflexivity|].
    destruct (u_admin ui) eqn:Ea.
    + unfold authorize_database. rewrite Ea. reflexivity.
    + cbn [check_stmts s_privs] in Eq.
      destruct (check_privs ui db (show_privs true s)) eqn:Ec; try discriminate.
      exact (show_reads_covered ui db s (c_dbs c1) d Ec Hin).
Qed.

Section ReadsAuth.
  Variable bcrypt_ok : N -> str -> bool.
  Variable salted : str -> str -> str.
  Hypothesis salted_inj : forall salt p q, salted salt p = salted salt q -> p = q.

  Lemma handle_dbread_ok secret c salt cr s db :
    cache_wf bcrypt_ok salted (c_cache c) ->
    dbread_obs_ok bcrypt_ok (c_users c) secret cr
      (snd (fst (handle_dbread bcrypt_ok salted true true secret c salt cr s db))) = true.
  Proof.
    intros Hwf. unfold dbread_obs_ok. apply forallb_forall. intros d Hd.
    destruct (handle_dbread bcrypt_ok salted true true secret c salt cr s db) as [[st reads] c'] eqn:Eh.
    cbn [fst snd] in Hd.
    destruct (handle_dbread_sound _ _ _ _ _ _ _ _ _ _ _ _ Eh Hd) as [ui [Hmw Hr]].
    pose proof (authenticate_mw_sound bcrypt_ok salted salted_inj secret c salt cr Hwf) as Hs. cbn zeta in Hs.
    rewrite Hmw in Hs. destruct Hs as [_ [_ [_ [cd [Hin Hv]]]]].
    apply existsb_exists. exists cd. split; [exact Hin|]. rewrite Hv.
    unfold may_read. rewrite <- authorize_database_spec. exact Hr.
  Qed.

  Lemma exec_reads_authorized es secret salt cr s db st reads c' d :
    handle_dbread bcrypt_ok salted true true secret (node_after bcrypt_ok salted es) salt cr s db = ((st, reads), c') ->
    In d reads ->
    exists cd ui, In cd (carried cr) /\
                  cred_valid bcrypt_ok (c_users (node_after bcrypt_ok salted es)) secret cd = Some ui /\
                  authorize_database ui ReadPrivilege d = true.
  Proof.
    intros H Hin. destruct (handle_dbread_sound _ _ _ _ _ _ _ _ _ _ _ _ H Hin) as [ui [Hmw Hr]].
    pose proof (authenticate_mw_sound bcrypt_ok salted salted_inj secret _ salt cr (node_after_wf bcrypt_ok salted es)) as Hs.
    cbn zeta in Hs. rewrite Hmw in Hs. destruct Hs as [_ [_ [_ [cd [Hc Hv]]]]].
    exists cd, ui. auto.
  Qed.
End ReadsAuth.

Lemma link_dbread bc users dbs secret cr s db :
  dbread_obs_ok (bc_ok bc) users secret cr
    (snd (fst (handle_dbread (bc_ok bc) salted_id true true secret (swap client0 (mkM users dbs)) salt0 cr s db))) = true.
Proof.
  apply (handle_dbread_ok (bc_ok bc) salted_id salted_id_inj secret (swap client0 (mkM users dbs)) salt0 cr s db).
  apply swap_wf. apply cache_wf_nil.
Qed.

(* ---------- the pinned rule (before the "fix:" commits) ---------- *)

Definition w_pub : str := [112; 117; 98].
Definition w_secret : str := [115; 101; 99; 114; 101; 116].
Definition w_bob : user := mkUser [98; 111; 98] 0 false [(w_pub, ReadPrivilege)].

Definition pinned_leak (s : showstmt) : Prop :=
  check_privs w_bob w_pub (show_privs false s) = QOk /\
  In w_secret (show_reads false (Some w_bob) s w_pub [w_pub; w_secret]) /\
  authorize_database w_bob ReadPrivilege w_secret = false.

(* SHOW FIELD KEYS ON pub FROM secret..cpu *)
Lemma pinned_source_database_leak : pinned_leak (mkShow KFieldKeys w_pub 0 false false [w_secret]).
Proof. unfold pinned_leak. vm_compute. repeat split; auto. Qed.

(* SHOW SERIES CARDINALITY ON pub FROM secret..cpu *)
Lemma pinned_cardinality_source_leak : pinned_leak (mkShow KSeriesCard w_pub 0 false false [w_secret]).
Proof. unfold pinned_leak. vm_compute. repeat split; auto. Qed.

(* SHOW TAG KEY CARDINALITY ON secret   (no privilege at all is required) *)
Lemma pinned_cardinality_on_leak : pinned_leak (mkShow KTagKeyCard w_secret 0 false false []).
Proof. unfold pinned_leak. vm_compute. repeat split; auto. Qed.

(* SHOW MEASUREMENTS ON *.* *)
Lemma pinned_wildcard_leak : pinned_leak (mkShow KMeasurements [] 1 false false []).
Proof. unfold pinned_leak. vm_compute. repeat split; auto. Qed.

(* the same four statements are refused / filtered by the repaired rule *)
Lemma repaired_refuses_witnesses :
  check_privs w_bob w_pub (show_privs true (mkShow KFieldKeys w_pub 0 false false [w_secret])) = QErrPriv /\
  check_privs w_bob w_pub (show_privs true (mkShow KSeriesCard w_pub 0 false false [w_secret])) = QErrPriv /\
  check_privs w_bob w_pub (show_privs true (mkShow KTagKeyCard w_secret 0 false false [])) = QErrPriv /\
  show_reads true (Some w_bob) (mkShow KMeasurements [] 1 false false []) w_pub [w_pub; w_secret] = [w_pub].
Proof. vm_compute. repeat split. Qed.

(* the statement of the property for the pinned rule fails *)
Lemma pinned_rule_refuted :
  exists ui reqdb s all d,
    check_privs ui reqdb (show_privs false s) = QOk /\
    In d (show_reads false (Some ui) s reqdb all) /\
    authorize_database ui ReadPrivilege d = false.
Proof.
  exists w_bob, w_pub, (mkShow KFieldKeys w_pub 0 false false [w_secret]), [w_pub; w_secret], w_secret.
  exact pinned_source_database_leak.
Qed.

Lemma pinned_show_leaks_all :
  pinned_leak (mkShow KFieldKeys w_pub 0 false false [w_secret]) /\
  pinned_leak (mkShow KSeriesCard w_pub 0 false false [w_secret]) /\
  pinned_leak (mkShow KTagKeyCard w_secret 0 false false []) /\
  pinned_leak (mkShow KMeasurements [] 1 false false []).
Proof.
  exact (conj pinned_source_database_leak (conj pinned_cardinality_source_leak
        (conj pinned_cardinality_on_leak pinned_wildcard_leak))).
Qed.
