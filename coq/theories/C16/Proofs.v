(* C16/Proofs.v — lemmas about the authentication/authorisation model. *)
From Verif Require Import Lib.Bytes C16.Model C16.Spec.
From Coq Require Import ZifyBool ZifyNat ZifyN.
Open Scope N_scope.

(* ---------- strings ---------- *)

Lemma str_eqb_refl a : str_eqb a a = true.
Proof. induction a as [|x a IH]; cbn [str_eqb]; [reflexivity|]. rewrite N.eqb_refl, IH. reflexivity. Qed.

Lemma str_eqb_eq a b : str_eqb a b = true <-> a = b.
Proof.
  split.
  - revert b. induction a as [|x a IH]; intros [|y b] H; cbn [str_eqb] in H; try discriminate; [reflexivity|].
    apply andb_true_iff in H. destruct H as [H1 H2]. apply N.eqb_eq in H1. apply IH in H2. subst. reflexivity.
  - intros ->. apply str_eqb_refl.
Qed.

Lemma str_eqb_neq a b : str_eqb a b = false <-> a <> b.
Proof.
  split.
  - intros H E. apply str_eqb_eq in E. congruence.
  - intros H. destruct (str_eqb a b) eqn:E; [|reflexivity]. apply str_eqb_eq in E. contradiction.
Qed.

Lemma str_eqb_sym a b : str_eqb a b = str_eqb b a.
Proof.
  destruct (str_eqb a b) eqn:E.
  - apply str_eqb_eq in E. subst. symmetry. apply str_eqb_refl.
  - symmetry. apply str_eqb_neq. apply str_eqb_neq in E. congruence.
Qed.

Lemma is_empty_nil s : is_empty s = true <-> s = [].
Proof. destruct s; cbn; split; congruence. Qed.

(* ---------- user table ---------- *)

Lemma find_user_some us name u :
  find_user us name = Some u -> In u us /\ u_name u = name.
Proof.
  induction us as [|v us IH]; cbn [find_user]; [discriminate|].
  destruct (str_eqb (u_name v) name) eqn:E.
  - intros H. inversion H; subst. apply str_eqb_eq in E. split; [left; reflexivity|assumption].
  - intros H. destruct (IH H) as [H1 H2]. split; [right; assumption|assumption].
Qed.

Lemma length_zero_nil {A} (l : list A) : (N.of_nat (length l) =? 0) = is_nil l.
Proof. destruct l; cbn [length is_nil]; [reflexivity|]. apply N.eqb_neq. lia. Qed.

(* ---------- authorisation ---------- *)

Lemma authorize_database_spec ui p db :
  authorize_database ui p db = u_admin ui || grant_covers (lookup_priv (u_privs ui) db) p.
Proof.
  unfold authorize_database, grant_covers.
  destruct (u_admin ui); cbn [orb]; [reflexivity|].
  destruct (p =? NoPrivileges); cbn [orb]; reflexivity.
Qed.

(* for somebody who is not an administrator the loops compute exactly Spec's predicate *)
Lemma check_privs_ok ui db ps :
  u_admin ui = false ->
  (check_privs ui db ps = QOk <-> forallb (priv_allowed ui db) ps = true).
Proof.
  intros Hna. induction ps as [|p ps IH]; cbn [check_privs forallb]; [tauto|].
  unfold priv_allowed at 1. rewrite Hna. cbn [orb]. unfold target.
  destruct (rp_admin p); cbn [negb andb].
  - split; discriminate.
  - rewrite authorize_database_spec, Hna. cbn [orb].
    destruct (grant_covers _ _); cbn [andb]; [exact IH|split; discriminate].
Qed.

Lemma check_stmts_ok ui db ss :
  u_admin ui = false ->
  (check_stmts ui db ss = QOk <-> forallb (stmt_allowed ui db) ss = true).
Proof.
  intros Hna. induction ss as [|s ss IH]; cbn [check_stmts forallb]; [tauto|].
  unfold stmt_allowed at 1. rewrite Hna. cbn [orb].
  destruct (s_privs s) as [ps|]; [|split; discriminate].
  pose proof (check_privs_ok ui db ps Hna) as HP.
  destruct (check_privs ui db ps) eqn:E.
  - assert (forallb (priv_allowed ui db) ps = true) as -> by (apply HP; reflexivity). cbn [andb]. exact IH.
  - destruct (forallb (priv_allowed ui db) ps); [destruct HP as [_ HP]; specialize (HP eq_refl); discriminate|]. split; discriminate.
  - destruct (forallb (priv_allowed ui db) ps); [destruct HP as [_ HP]; specialize (HP eq_refl); discriminate|]. split; discriminate.
  - destruct (forallb (priv_allowed ui db) ps); [destruct HP as [_ HP]; specialize (HP eq_refl); discriminate|]. split; discriminate.
  - destruct (forallb (priv_allowed ui db) ps); [destruct HP as [_ HP]; specialize (HP eq_refl); discriminate|]. split; discriminate.
  - destruct (forallb (priv_allowed ui db) ps); [destruct HP as [_ HP]; specialize (HP eq_refl); discriminate|]. split; discriminate.
Qed.

Lemma stmt_allowed_admin ui db ss : u_admin ui = true -> forallb (stmt_allowed ui db) ss = true.
Proof.
  intros Ha. induction ss as [|s ss IH]; cbn [forallb]; [reflexivity|].
  unfold stmt_allowed at 1. rewrite Ha. cbn [orb andb]. exact IH.
Qed.

(* AuthorizeQuery says yes exactly when Spec allows the whole query *)
Lemma authorize_query_ok_iff users u ss db :
  authorize_query users u ss db = QOk <->
  (if is_nil users then first_creates_admin ss = true
   else exists ui, u = Some ui /\ forallb (stmt_allowed ui db) ss = true).
Proof.
  unfold authorize_query. rewrite length_zero_nil.
  destruct (is_nil users).
  - unfold first_creates_admin. destruct ss as [|s ss]; [split; discriminate|].
    destruct (s_create_admin s); split; congruence.
  - destruct u as [ui|].
    + destruct (u_admin ui) eqn:Ha.
      * split; [intros _; exists ui; split; [reflexivity|apply stmt_allowed_admin; assumption]|reflexivity].
      * rewrite (check_stmts_ok ui db ss Ha). split.
        -- intros H. exists ui. split; [reflexivity|assumption].
        -- intros [ui' [E H]]. inversion E; subst. assumption.
    + split; [discriminate|]. intros [ui [E _]]. discriminate.
Qed.

Lemma authz_link users u ss db :
  authz_obs_ok users u ss db (qres_code (authorize_query users u ss db) =? 0) = true.
Proof.
  unfold authz_obs_ok.
  destruct (authorize_query users u ss db) eqn:E; cbn [qres_code]; try reflexivity.
  change (0 =? 0) with true. cbn [negb orb].
  apply authorize_query_ok_iff in E.
  destruct (is_nil users); [assumption|].
  destruct E as [ui [-> H]]. assumption.
Qed.

Lemma authorize_write_spec users name db :
  authorize_write users name db =
  match find_user users name with Some ui => write_allowed ui db | None => false end.
Proof.
  unfold authorize_write, write_allowed, priv_allowed, target.
  destruct (find_user users name) as [ui|]; [|reflexivity].
  rewrite authorize_database_spec. cbn [rp_admin rp_name rp_priv negb andb].
  destruct (is_empty db) eqn:E; [|reflexivity].
  apply is_empty_nil in E. subst. reflexivity.
Qed.

Lemma writeaz_link users name db :
  writeaz_obs_ok users name db (authorize_write users name db) = true.
Proof.
  unfold writeaz_obs_ok. rewrite authorize_write_spec.
  destruct (find_user users name) as [ui|]; [|reflexivity].
  destruct (write_allowed ui db); reflexivity.
Qed.

(* the bootstrap branch looks at the first statement only *)
Lemma bootstrap_first_only s rest db u :
  authorize_query [] u (s :: rest) db = (if s_create_admin s then QOk else QErrBootstrap).
Proof. reflexivity. Qed.

Lemma bootstrap_empty_query db u : authorize_query [] u [] db = QErrBootstrap.
Proof. reflexivity. Qed.

(* nothing is gained over creating the administrator and sending the rest as that administrator *)
Lemma bootstrap_no_extra_authority adm rest db :
  u_admin adm = true -> authorize_query [adm] (Some adm) rest db = QOk.
Proof. intros H. unfold authorize_query. cbn. rewrite H. reflexivity. Qed.

(* ---------- user-management statements of the executor ---------- *)

Definition names_unique (us : list user) : Prop := NoDup (map u_name us).

Lemma find_user_none_names us n : find_user us n = None -> ~ In n (map u_name us).
Proof.
  induction us as [|u us IH]; cbn [find_user map]; [intros _ []|].
  destruct (str_eqb (u_name u) n) eqn:E; [discriminate|]. intros H [H1|H1].
  - apply str_eqb_neq in E. contradiction.
  - exact (IH H H1).
Qed.

Lemma names_find_user_none us n : ~ In n (map u_name us) -> find_user us n = None.
Proof.
  intros H. destruct (find_user us n) as [u|] eqn:E; [|reflexivity].
  destruct (find_user_some _ _ _ E) as [Hin Hn]. exfalso. apply H. rewrite <- Hn. apply in_map. exact Hin.
Qed.

Lemma map_first_user_names f us n :
  (forall u, u_name (f u) = u_name u) -> map u_name (map_first_user f us n) = map u_name us.
Proof.
  intros Hf. induction us as [|u us IH]; cbn [map_first_user map]; [reflexivity|].
  destruct (str_eqb (u_name u) n); cbn [map]; [rewrite Hf; reflexivity|rewrite IH; reflexivity].
Qed.

Lemma find_user_map_first f us n :
  (forall u, u_name (f u) = u_name u) ->
  find_user (map_first_user f us n) n = option_map f (find_user us n).
Proof.
  intros Hf. induction us as [|u us IH]; cbn [map_first_user find_user]; [reflexivity|].
  destruct (str_eqb (u_name u) n) eqn:E; cbn [find_user].
  - rewrite Hf, E. reflexivity.
  - rewrite E. exact IH.
Qed.

Lemma drop_first_user_in us n a : In a (map u_name (drop_first_user us n)) -> In a (map u_name us).
Proof.
  induction us as [|u us IH]; cbn [drop_first_user map]; [tauto|].
  destruct (str_eqb (u_name u) n); cbn [map In]; [tauto|]. intros [H|H]; [left; exact H|right; exact (IH H)].
Qed.

Lemma drop_first_user_unique us n : names_unique us -> names_unique (drop_first_user us n).
Proof.
  unfold names_unique. induction us as [|u us IH]; cbn [drop_first_user map]; [tauto|].
  intros H. inversion H as [|x l Hnin Hnd]; subst.
  destruct (str_eqb (u_name u) n); [exact Hnd|]. cbn [map]. constructor; [|exact (IH Hnd)].
  intros Hc. apply Hnin. exact (drop_first_user_in _ _ _ Hc).
Qed.

Lemma find_user_drop_first us n : names_unique us -> find_user (drop_first_user us n) n = None.
Proof.
  unfold names_unique. induction us as [|u us IH]; cbn [drop_first_user map]; [reflexivity|].
  intros H. inversion H as [|x l Hnin Hnd]; subst.
  destruct (str_eqb (u_name u) n) eqn:E.
  - apply str_eqb_eq in E. rewrite E in Hnin. apply names_find_user_none. exact Hnin.
  - cbn [find_user]. rewrite E. exact (IH Hnd).
Qed.

Lemma NoDup_snoc {A} (l : list A) x : NoDup l -> ~ In x l -> NoDup (l ++ [x]).
Proof.
  induction l as [|a l IH]; cbn [app]; intros Hnd Hx; [constructor; [intros []|constructor]|].
  inversion Hnd as [|y l' Ha Hl]; subst. constructor.
  - intros Hc. apply in_app_or in Hc. destruct Hc as [Hc|[Hc|[]]]; [exact (Ha Hc)|]. apply Hx. left. symmetry. exact Hc.
  - apply IH; [exact Hl|]. intros Hc. apply Hx. right. exact Hc.
Qed.

Lemma apply_mop_unique m o : names_unique (m_users m) -> names_unique (m_users (snd (apply_mop m o))).
Proof.
  intros H. destruct o as [name hash admin|name|name hash|name db p|name admin|db|db]; cbn [apply_mop].
  - destruct (is_empty name); [exact H|]. destruct (find_user (m_users m) name) eqn:E; [exact H|].
    cbn [snd m_users]. unfold names_unique. rewrite map_app. cbn [map u_name].
    apply NoDup_snoc; [exact H|]. apply find_user_none_names. exact E.
  - destruct (find_user (m_users m) name); [|exact H]. cbn [snd m_users]. apply drop_first_user_unique. exact H.
  - destruct (find_user (m_users m) name); [|exact H]. cbn [snd m_users]. unfold names_unique.
    rewrite map_first_user_names; [exact H|reflexivity].
  - destruct (find_user (m_users m) name); [|exact H]. destruct (mem_str db (m_dbs m)); [|exact H].
    cbn [snd m_users]. unfold names_unique. rewrite map_first_user_names; [exact H|reflexivity].
  - destruct (find_user (m_users m) name); [|exact H]. cbn [snd m_users]. unfold names_unique.
    rewrite map_first_user_names; [exact H|reflexivity].
  - destruct (is_empty db); [exact H|]. destruct (mem_str db (m_dbs m)); exact H.
  - destruct (mem_str db (m_dbs m)); [|exact H]. cbn [snd m_users]. unfold names_unique.
    rewrite map_map. cbn [u_name]. exact H.
Qed.

Lemma exec_stmt_unique m x : names_unique (m_users m) -> names_unique (m_users (snd (exec_stmt m x))).
Proof.
  intros H. destruct x as [n d p|n d p|n|n|n h|n|]; cbn [exec_stmt]; try (apply apply_mop_unique; exact H).
  - destruct (p =? AllPrivileges); [apply apply_mop_unique; exact H|].
    destruct (user_privilege m n d); [apply apply_mop_unique; exact H|exact H].
  - exact H.
Qed.

Lemma lookup_set_priv ps d p : lookup_priv (set_priv ps d p) d = Some p.
Proof.
  induction ps as [|[d0 q] ps IH]; cbn [set_priv lookup_priv]; [rewrite str_eqb_refl; reflexivity|].
  destruct (str_eqb d0 d) eqn:E; cbn [lookup_priv]; rewrite E; [reflexivity|exact IH].
Qed.

Lemma lookup_set_priv_other ps d p d' : str_eqb d d' = false -> lookup_priv (set_priv ps d p) d' = lookup_priv ps d'.
Proof.
  intros Hne. induction ps as [|[d0 q] ps IH]; cbn [set_priv lookup_priv]; [rewrite Hne; reflexivity|].
  destruct (str_eqb d0 d) eqn:E; cbn [lookup_priv].
  - apply str_eqb_eq in E. subst d0. rewrite Hne. reflexivity.
  - destruct (str_eqb d0 d'); [reflexivity|exact IH].
Qed.

(* a grant with no bit of r in it covers no need that has a bit of r *)
Lemma revoked_not_covered g r need :
  N.land g r = 0 -> N.land need AllPrivileges = need -> need <> 0 -> N.land need r <> 0 ->
  grant_covers (Some g) need = false.
Proof.
  intros Hg Hn3 Hn0 Hnr. unfold grant_covers, NoPrivileges.
  destruct (N.eqb_spec need 0) as [E|_]; [contradiction|]. cbn [orb].
  destruct (N.eqb_spec g need) as [E|_]; [subst g; contradiction|]. cbn [orb].
  destruct (N.eqb_spec g AllPrivileges) as [E|_]; [|reflexivity].
  exfalso. apply Hnr. rewrite <- Hn3, <- N.land_assoc. subst g. rewrite Hg. apply N.land_0_r.
Qed.

(* SetPrivilege on an existing user and database sets exactly that entry *)
Lemma set_priv_effect m name db p m' :
  apply_mop m (OSetPriv name db p) = (true, m') ->
  exists u, find_user (m_users m) name = Some u /\
    find_user (m_users m') name = Some (mkUser (u_name u) (u_hash u) (u_admin u) (set_priv (u_privs u) db p)).
Proof.
  cbn [apply_mop]. destruct (find_user (m_users m) name) as [u|] eqn:E; [|discriminate].
  destruct (mem_str db (m_dbs m)); [|discriminate]. intros H. inversion H; subst. exists u. split; [reflexivity|].
  cbn [m_users]. rewrite find_user_map_first by reflexivity. rewrite E. reflexivity.
Qed.

(* revoke_removes_exactly: after a successful REVOKE r ON db FROM name the user's entry for db
   is held &^ r (0 for ALL), every other entry of his map is untouched, and no need
   overlapping r is covered by the grant any more *)
Lemma revoke_removes_exactly_lemma m name db r m' :
  exec_stmt m (XRevoke name db r) = (true, m') ->
  exists u u', find_user (m_users m) name = Some u /\ find_user (m_users m') name = Some u' /\
    u_name u' = u_name u /\ u_hash u' = u_hash u /\ u_admin u' = u_admin u /\
    lookup_priv (u_privs u') db =
      Some (if r =? AllPrivileges then NoPrivileges
            else N.ldiff (match lookup_priv (u_privs u) db with Some p => p | None => NoPrivileges end) r) /\
    (forall d', str_eqb db d' = false -> lookup_priv (u_privs u') d' = lookup_priv (u_privs u) d') /\
    (forall need, N.land need AllPrivileges = need -> need <> 0 -> N.land need r <> 0 ->
                  grant_covers (lookup_priv (u_privs u') db) need = false).
Proof.
  cbn [exec_stmt]. intros H.
  assert (Hg : exists g, apply_mop m (OSetPriv name db g) = (true, m') /\ N.land g r = 0 /\
                g = (if r =? AllPrivileges then NoPrivileges
                     else N.ldiff (match find_user (m_users m) name with
                                   | Some u => match lookup_priv (u_privs u) db with Some p => p | None => NoPrivileges end
                                   | None => 0 end) r)).
  { destruct (r =? AllPrivileges) eqn:Er.
    - exists NoPrivileges. split; [exact H|split; [apply N.land_0_l|reflexivity]].
    - unfold user_privilege in H. destruct (find_user (m_users m) name) as [u|] eqn:E; [|discriminate].
      eexists. split; [exact H|split; [apply N.land_ldiff|reflexivity]]. }
  destruct Hg as [g [Hset [Hland Hgdef]]].
  destruct (set_priv_effect _ _ _ _ _ Hset) as [u [Hu Hu']].
  rewrite Hu in Hgdef.
  exists u, (mkUser (u_name u) (u_hash u) (u_admin u) (set_priv (u_privs u) db g)).
  split; [exact Hu|split; [exact Hu'|]]. cbn [u_name u_hash u_admin u_privs].
  split; [reflexivity|split; [reflexivity|split; [reflexivity|]]].
  rewrite lookup_set_priv. split; [rewrite Hgdef; reflexivity|]. split.
  - intros d' Hd. apply lookup_set_priv_other. exact Hd.
  - intros need H3 H0 Hr. apply (revoked_not_covered g r need); assumption.
Qed.

(* every successful user-management statement achieves what Spec.stmt_effect_ok demands *)
Lemma stmt_effect_sound m x m' :
  names_unique (m_users m) -> exec_stmt m x = (true, m') -> stmt_effect_ok x (m_users m') = true.
Proof.
  intros Hun H. destruct x as [n d p|n d r|n|n|n h|n|]; cbn [stmt_effect_ok]; [| | | | | |reflexivity].
  - cbn [exec_stmt] in H. destruct (set_priv_effect _ _ _ _ _ H) as [u [_ Hu']]. rewrite Hu'. cbn [u_privs].
    rewrite lookup_set_priv. unfold grant_covers. rewrite N.eqb_refl. destruct (p =? NoPrivileges); reflexivity.
  - destruct (revoke_removes_exactly_lemma _ _ _ _ _ H) as [u [u' [_ [Hu' [_ [_ [_ [_ [_ Hcov]]]]]]]]].
    rewrite Hu'. cbn [forallb]. rewrite andb_true_r.
    assert (Hone : forall need, N.land need AllPrivileges = need -> need <> 0 ->
              (N.land need r =? 0) || negb (grant_covers (lookup_priv (u_privs u') d) need) = true).
    { intros need H3 H0. destruct (N.eqb_spec (N.land need r) 0) as [E|E]; [reflexivity|].
      cbn [orb]. rewrite (Hcov need H3 H0 E). reflexivity. }
    rewrite (Hone ReadPrivilege), (Hone WritePrivilege), (Hone AllPrivileges); try reflexivity; discriminate.
  - cbn [exec_stmt apply_mop] in H. destruct (find_user (m_users m) n) as [u|] eqn:E; [|discriminate].
    inversion H; subst. cbn [m_users]. rewrite find_user_map_first by reflexivity. rewrite E. reflexivity.
  - cbn [exec_stmt apply_mop] in H. destruct (find_user (m_users m) n) as [u|] eqn:E; [|discriminate].
    inversion H; subst. cbn [m_users]. rewrite find_user_map_first by reflexivity. rewrite E. reflexivity.
  - cbn [exec_stmt apply_mop] in H. destruct (find_user (m_users m) n) as [u|] eqn:E; [|discriminate].
    inversion H; subst. cbn [m_users]. rewrite find_user_map_first by reflexivity. rewrite E. cbn. apply N.eqb_refl.
  - cbn [exec_stmt apply_mop] in H. destruct (find_user (m_users m) n) as [u|] eqn:E; [|discriminate].
    inversion H; subst. cbn [m_users]. rewrite find_user_drop_first by exact Hun. reflexivity.
Qed.

(* ====================================================================== *)
(* authentication: the credential cache                                    *)
(* ====================================================================== *)

Section AuthProofs.
  Variable bcrypt_ok : N -> str -> bool.
  Variable salted : str -> str -> str.
  (* the salted hash determines the password (collision freedom of SHA-256 on the explored
     domain; it appears as a premise of every theorem that goes through a cache hit) *)
  Hypothesis salted_inj : forall salt p q, salted salt p = salted salt q -> p = q.

  Lemma cache_get_put c n e m :
    cache_get (cache_put c n e) m = if str_eqb n m then Some e else cache_get c m.
  Proof.
    induction c as [|[n0 e0] c IH]; cbn [cache_put cache_get]; [reflexivity|].
    destruct (str_eqb n0 n) eqn:E0; cbn [cache_get].
    - apply str_eqb_eq in E0. subst n0. destruct (str_eqb n m); reflexivity.
    - rewrite IH. destruct (str_eqb n0 m) eqn:E1; [|reflexivity].
      apply str_eqb_eq in E1. subst m. rewrite str_eqb_sym, E0. reflexivity.
  Qed.

  (* every entry was produced from a password that verified against the hash it records *)
  Definition entry_wf (e : centry) : Prop :=
    exists pw0, ce_hash e = salted (ce_salt e) pw0 /\ bcrypt_ok (ce_bhash e) pw0 = true.

  Definition cache_wf (c : cache) : Prop :=
    forall name e, cache_get c name = Some e -> entry_wf e.

  Lemma cache_wf_nil : cache_wf [].
  Proof. intros name e H. discriminate. Qed.

  Lemma cache_wf_put c n e : cache_wf c -> entry_wf e -> cache_wf (cache_put c n e).
  Proof.
    intros Hc He m e' H. rewrite cache_get_put in H.
    destruct (str_eqb n m); [inversion H; subst; assumption|]. exact (Hc _ _ H).
  Qed.

  Lemma update_auth_cache_get us old n e :
    cache_get (update_auth_cache us old) n = Some e -> cache_get old n = Some e.
  Proof.
    induction us as [|u us IH]; cbn [update_auth_cache]; [discriminate|].
    destruct (cache_get old (u_name u)) as [e0|] eqn:E0; [|exact IH].
    destruct (ce_bhash e0 =? u_hash u); [|exact IH].
    rewrite cache_get_put. destruct (str_eqb (u_name u) n) eqn:E1; [|exact IH].
    apply str_eqb_eq in E1. subst n. intros H. inversion H; subst. assumption.
  Qed.

  (* an entry survives updateAuthCache only if some listed user of that name has exactly
     the hash the entry was verified against *)
  Lemma update_auth_cache_keeps us old n e :
    cache_get (update_auth_cache us old) n = Some e ->
    exists u, In u us /\ u_name u = n /\ u_hash u = ce_bhash e.
  Proof.
    induction us as [|u us IH]; cbn [update_auth_cache]; [discriminate|].
    destruct (cache_get old (u_name u)) as [e0|] eqn:E0.
    2:{ intros H. destruct (IH H) as [v [Hv Hr]]. exists v. split; [right; assumption|assumption]. }
    destruct (ce_bhash e0 =? u_hash u) eqn:Eh.
    2:{ intros H. destruct (IH H) as [v [Hv Hr]]. exists v. split; [right; assumption|assumption]. }
    rewrite cache_get_put. destruct (str_eqb (u_name u) n) eqn:E1.
    - intros H. inversion H; subst. apply str_eqb_eq in E1. apply N.eqb_eq in Eh.
      exists u. split; [left; reflexivity|split; [assumption|symmetry; assumption]].
    - intros H. destruct (IH H) as [v [Hv Hr]]. exists v. split; [right; assumption|assumption].
  Qed.

  Lemma cache_wf_update us old : cache_wf old -> cache_wf (update_auth_cache us old).
  Proof. intros H n e G. apply update_auth_cache_get in G. exact (H _ _ G). Qed.

  Lemma swap_wf c m : cache_wf (c_cache c) -> cache_wf (c_cache (swap c m)).
  Proof. intros H. cbn [swap c_cache]. apply cache_wf_update. assumption. Qed.

  (* a hit of the repaired code proves the password against the user's CURRENT hash *)
  Lemma cache_hit_sound c ui name pw :
    cache_wf c -> cache_hit salted true c ui name pw = true -> bcrypt_ok (u_hash ui) pw = true.
  Proof.
    intros Hwf H. unfold cache_hit in H.
    destruct (cache_get c name) as [e|] eqn:E; [|discriminate].
    apply andb_true_iff in H. destruct H as [H1 H2].
    apply N.eqb_eq in H1. apply str_eqb_eq in H2.
    destruct (Hwf _ _ E) as [pw0 [Hh Hb]].
    rewrite Hh in H2. apply salted_inj in H2. subst pw0. rewrite <- H1. assumption.
  Qed.

  (* what Authenticate must answer, written without any cache *)
  Definition auth_ref (users : list user) (name pw : str) : ares :=
    match find_user users name with
    | None => ANotFound
    | Some ui => if bcrypt_ok (u_hash ui) pw then AOk ui else ABadPw
    end.

  (* the cache is transparent: with a well-formed cache the repaired Authenticate answers
     exactly like a cache-less check against the current metadata *)
  Lemma authenticate_exact c salt name pw :
    cache_wf (c_cache c) ->
    fst (authenticate bcrypt_ok salted c salt name pw) = auth_ref (c_users c) name pw.
  Proof.
    intros Hwf. unfold authenticate, authenticate_with, auth_ref.
    destruct (find_user (c_users c) name) as [ui|]; [|reflexivity].
    destruct (cache_hit salted true (c_cache c) ui name pw) eqn:Eh.
    - rewrite (cache_hit_sound _ _ _ _ Hwf Eh). reflexivity.
    - destruct (bcrypt_ok (u_hash ui) pw); reflexivity.
  Qed.

  Lemma authenticate_keeps c salt name pw :
    let c' := snd (authenticate bcrypt_ok salted c salt name pw) in
    c_users c' = c_users c /\ c_dbs c' = c_dbs c /\ (cache_wf (c_cache c) -> cache_wf (c_cache c')).
  Proof.
    unfold authenticate, authenticate_with.
    destruct (find_user (c_users c) name) as [ui|]; [|cbn; tauto].
    destruct (cache_hit salted true (c_cache c) ui name pw); [cbn; tauto|].
    destruct (bcrypt_ok (u_hash ui) pw) eqn:Eb; [|cbn; tauto].
    cbn [snd c_users c_dbs c_cache]. split; [reflexivity|split; [reflexivity|]].
    intros Hwf. apply cache_wf_put; [assumption|].
    exists pw. cbn [ce_hash ce_salt ce_bhash]. split; [reflexivity|assumption].
  Qed.

  Lemma authenticate_sound c salt name pw ui c' :
    cache_wf (c_cache c) ->
    authenticate bcrypt_ok salted c salt name pw = (AOk ui, c') ->
    find_user (c_users c) name = Some ui /\ bcrypt_ok (u_hash ui) pw = true.
  Proof.
    intros Hwf H. pose proof (authenticate_exact c salt name pw Hwf) as E.
    rewrite H in E. cbn [fst] in E. unfold auth_ref in E.
    destruct (find_user (c_users c) name) as [uj|]; [|discriminate].
    destruct (bcrypt_ok (u_hash uj) pw) eqn:Eb; [|discriminate].
    inversion E; subst. split; [reflexivity|assumption].
  Qed.

  (* ---------- sequential histories ---------- *)

  Definition node_wf (w : world) : Prop := cache_wf (c_cache (w_node w)).

  Lemma hist_step_wf w e : node_wf w -> node_wf (hist_step bcrypt_ok salted true w e).
  Proof.
    intros H. destruct e as [o| |salt name pw]; unfold node_wf; cbn [hist_step w_node].
    - exact H.
    - apply swap_wf. exact H.
    - apply (authenticate_keeps (w_node w) salt name pw). exact H.
  Qed.

  Lemma hist_run_wf es : forall w, node_wf w -> node_wf (hist_run bcrypt_ok salted true w es).
  Proof.
    induction es as [|e es IH]; intros w H; cbn [hist_run fold_left]; [exact H|].
    apply IH. apply hist_step_wf. exact H.
  Qed.

  Lemma world0_wf : node_wf world0.
  Proof. unfold node_wf. cbn. apply cache_wf_nil. Qed.

  (* after ANY history of meta-store changes, snapshots and authentications, Authenticate on
     the node answers from the node's current metadata alone *)
  Lemma authenticate_after_history es salt name pw :
    let w := hist_run bcrypt_ok salted true world0 es in
    fst (authenticate bcrypt_ok salted (w_node w) salt name pw) = auth_ref (c_users (w_node w)) name pw.
  Proof. cbn zeta. apply authenticate_exact. apply hist_run_wf. apply world0_wf. Qed.

  (* cache_sound_after_update: whatever populated the cache before, once a snapshot in which
     the user is gone or has a hash the password does not verify against is installed,
     that password is refused *)
  Lemma cache_sound_after_update_lemma es m salt name pw :
    let w := hist_run bcrypt_ok salted true world0 es in
    (match find_user (m_users m) name with
     | None => True
     | Some ui => bcrypt_ok (u_hash ui) pw = false
     end) ->
    forall ui, fst (authenticate bcrypt_ok salted (swap (w_node w) m) salt name pw) <> AOk ui.
  Proof.
    cbn zeta. intros Hbad ui.
    rewrite authenticate_exact by (apply swap_wf; apply hist_run_wf; apply world0_wf).
    cbn [swap c_users]. unfold auth_ref.
    destruct (find_user (m_users m) name) as [uj|]; [|discriminate].
    rewrite Hbad. discriminate.
  Qed.

  (* ---------- Authenticate interleaved with metadata swaps ---------- *)

  Lemma nth_error_upd_nth {A} (l : list A) k x j :
    nth_error (upd_nth l k x) j =
    if Nat.eqb k j then match nth_error l j with Some _ => Some x | None => None end
    else nth_error l j.
  Proof.
    revert k j. induction l as [|y l IH]; intros k j.
    - cbn [upd_nth]. destruct (Nat.eqb k j); destruct j; reflexivity.
    - destruct k as [|k]; destruct j as [|j]; cbn [upd_nth nth_error Nat.eqb]; try reflexivity.
      apply IH.
  Qed.

  Lemma Forall_upd_nth {A} (P : A -> Prop) l k x : Forall P l -> P x -> Forall P (upd_nth l k x).
  Proof.
    intros Hl Hx. revert k. induction Hl as [|y l Hy Hl IH]; intros k; cbn [upd_nth]; [constructor|].
    destruct k; constructor; auto.
  Qed.

  (* thread-local knowledge of a call in flight *)
  Definition pc_ok (p : pc) : Prop :=
    match p with
    | PStore ui _ _ pw => bcrypt_ok (u_hash ui) pw = true
    | PDone _ pw (AOk ui) => bcrypt_ok (u_hash ui) pw = true
    | _ => True
    end.

  (* the record the call holds is the one [users] lists under the name it was asked about *)
  Definition pc_cur (users : list user) (p : pc) : Prop :=
    match p with
    | PHaveUser ui _ name _ => find_user users name = Some ui
    | PStore ui _ name _ => find_user users name = Some ui
    | PDone name _ (AOk ui) => find_user users name = Some ui
    | _ => True
    end.

  Lemma step_call_ok c p :
    cache_wf (c_cache c) -> pc_ok p ->
    pc_ok (fst (step_call bcrypt_ok salted true c p)) /\
    cache_wf (c_cache (snd (step_call bcrypt_ok salted true c p))) /\
    c_users (snd (step_call bcrypt_ok salted true c p)) = c_users c.
  Proof.
    intros Hwf Hp. destruct p as [salt name pw|ui salt name pw|ui salt name pw|name pw r]; cbn [step_call].
    - destruct (find_user (c_users c) name); cbn; auto.
    - destruct (cache_hit salted true (c_cache c) ui name pw) eqn:Eh.
      + cbn [fst snd pc_ok]. split; [exact (cache_hit_sound _ _ _ _ Hwf Eh)|auto].
      + destruct (bcrypt_ok (u_hash ui) pw) eqn:Eb; cbn [fst snd pc_ok]; auto.
    - cbn [fst snd pc_ok c_cache c_users]. split; [exact Hp|]. split; [|reflexivity].
      apply cache_wf_put; [assumption|]. exists pw. cbn [ce_hash ce_salt ce_bhash]. split; [reflexivity|exact Hp].
    - cbn [fst snd]. auto.
  Qed.

  Lemma step_call_cur c p :
    pc_cur (c_users c) p -> pc_cur (c_users c) (fst (step_call bcrypt_ok salted true c p)).
  Proof.
    intros Hp. destruct p as [salt name pw|ui salt name pw|ui salt name pw|name pw r]; cbn [step_call].
    - destruct (find_user (c_users c) name) eqn:E; cbn [fst pc_cur]; auto.
    - destruct (cache_hit salted true (c_cache c) ui name pw); [cbn [fst pc_cur]; exact Hp|].
      destruct (bcrypt_ok (u_hash ui) pw); cbn [fst pc_cur]; auto.
    - cbn [fst pc_cur]. exact Hp.
    - cbn [fst]. exact Hp.
  Qed.

  Lemma step_call_users c p :
    c_users (snd (step_call bcrypt_ok salted true c p)) = c_users c.
  Proof.
    destruct p as [salt name pw|ui salt name pw|ui salt name pw|name pw r]; cbn [step_call].
    - destruct (find_user (c_users c) name); reflexivity.
    - destruct (cache_hit salted true (c_cache c) ui name pw); [reflexivity|].
      destruct (bcrypt_ok (u_hash ui) pw); reflexivity.
    - reflexivity.
    - reflexivity.
  Qed.

  Definition sys_ok (s : sys) : Prop := cache_wf (c_cache (sy_client s)) /\ Forall pc_ok (sy_calls s).

  Lemma sys_step_ok s e : sys_ok s -> sys_ok (sys_step bcrypt_ok salted true s e).
  Proof.
    intros [Hc Hl]. destruct e as [salt name pw|k|m]; cbn [sys_step].
    - split; [exact Hc|]. cbn [sy_calls]. apply Forall_app. split; [assumption|]. constructor; [exact I|constructor].
    - destruct (nth_error (sy_calls s) k) as [p|] eqn:E; [|split; assumption].
      assert (Hp : pc_ok p) by (rewrite Forall_forall in Hl; apply Hl; eapply nth_error_In; eassumption).
      destruct (step_call_ok (sy_client s) p Hc Hp) as [H1 [H2 _]].
      destruct (step_call bcrypt_ok salted true (sy_client s) p) as [p' c']. cbn [fst snd] in *.
      split; cbn [sy_client sy_calls]; [assumption|]. apply Forall_upd_nth; assumption.
    - split; cbn [sy_client sy_calls]; [apply swap_wf; assumption|assumption].
  Qed.

  Lemma sys_run_ok es : forall s, sys_ok s -> sys_ok (sys_run bcrypt_ok salted true s es).
  Proof.
    induction es as [|e es IH]; intros s H; cbn [sys_run fold_left]; [exact H|].
    apply IH. apply sys_step_ok. exact H.
  Qed.

  Lemma sys0_ok : sys_ok sys0.
  Proof. split; cbn; [apply cache_wf_nil|constructor]. Qed.

  (* every schedule: a call that returns a user has verified the password against the hash
     of the record it returns *)
  Lemma interleaved_sound es k name pw ui :
    nth_error (sy_calls (sys_run bcrypt_ok salted true sys0 es)) k = Some (PDone name pw (AOk ui)) ->
    bcrypt_ok (u_hash ui) pw = true.
  Proof.
    intros H. destruct (sys_run_ok es sys0 sys0_ok) as [_ Hl].
    rewrite Forall_forall in Hl. apply nth_error_In in H. exact (Hl _ H).
  Qed.

  Definition no_swap (es : list sev) : bool :=
    forallb (fun e => match e with SSwap _ => false | _ => true end) es.

  Definition calls_cur (k0 : nat) (users : list user) (s : sys) : Prop :=
    c_users (sy_client s) = users /\
    forall k p, (k0 <= k)%nat -> nth_error (sy_calls s) k = Some p -> pc_cur users p.

  Lemma sys_step_cur k0 users s e :
    match e with SSwap _ => False | _ => True end ->
    calls_cur k0 users s -> calls_cur k0 users (sys_step bcrypt_ok salted true s e).
  Proof.
    intros Hns [Hu Hc]. destruct e as [salt name pw|j|m]; cbn [sys_step]; [| |contradiction].
    - split; [exact Hu|]. cbn [sy_calls]. intros k p Hk H.
      destruct (Nat.lt_ge_cases k (length (sy_calls s))) as [Hlt|Hge].
      + rewrite nth_error_app1 in H by assumption. exact (Hc _ _ Hk H).
      + rewrite nth_error_app2 in H by assumption.
        destruct (k - length (sy_calls s))%nat as [|d]; cbn [nth_error] in H.
        * inversion H; subst. exact I.
        * destruct d; discriminate.
    - destruct (nth_error (sy_calls s) j) as [p0|] eqn:E; [|split; assumption].
      pose proof (step_call_cur (sy_client s) p0) as Hstep.
      pose proof (step_call_users (sy_client s) p0) as Hus.
      destruct (step_call bcrypt_ok salted true (sy_client s) p0) as [p' c']. cbn [fst snd] in *.
      split; cbn [sy_client sy_calls]; [congruence|].
      intros k p Hk H. rewrite nth_error_upd_nth in H.
      destruct (Nat.eqb_spec j k) as [->|Hne]; [|exact (Hc _ _ Hk H)].
      rewrite E in H. inversion H; subst p. rewrite <- Hu. apply Hstep. rewrite Hu. exact (Hc _ _ Hk E).
  Qed.

  Lemma sys_run_cur k0 users es :
    no_swap es = true -> forall s, calls_cur k0 users s -> calls_cur k0 users (sys_run bcrypt_ok salted true s es).
  Proof.
    induction es as [|e es IH]; intros Hns s H; cbn [sys_run fold_left]; [exact H|].
    cbn [no_swap forallb] in Hns. apply andb_true_iff in Hns. destruct Hns as [He Hes].
    apply IH; [exact Hes|]. apply sys_step_cur; [destruct e; [exact I|exact I|discriminate]|exact H].
  Qed.

  (* the interleaved form of "once the change has reached the node the old password stops
     working": for EVERY schedule before the swap (calls in flight, cache contents), every call
     started after the snapshot m was installed - and before the next one - returns a user
     only if m lists that user under that name and the password verifies against the hash m
     gives him *)
  Lemma interleaved_after_swap es1 m es2 k name pw ui :
    no_swap es2 = true ->
    let s1 := sys_step bcrypt_ok salted true (sys_run bcrypt_ok salted true sys0 es1) (SSwap m) in
    (length (sy_calls s1) <= k)%nat ->
    nth_error (sy_calls (sys_run bcrypt_ok salted true s1 es2)) k = Some (PDone name pw (AOk ui)) ->
    find_user (m_users m) name = Some ui /\ bcrypt_ok (u_hash ui) pw = true.
  Proof.
    cbn zeta. intros Hns Hk H.
    set (s1 := sys_step bcrypt_ok salted true (sys_run bcrypt_ok salted true sys0 es1) (SSwap m)) in *.
    assert (Hok : sys_ok s1) by (apply sys_step_ok; apply sys_run_ok; apply sys0_ok).
    assert (Hcur : calls_cur (length (sy_calls s1)) (m_users m) s1).
    { split; [reflexivity|]. intros j p Hj Hn.
      assert (Hn' : nth_error (sy_calls s1) j <> None) by congruence.
      apply nth_error_Some in Hn'. lia. }
    pose proof (sys_run_cur _ _ es2 Hns s1 Hcur) as [_ Hc].
    pose proof (sys_run_ok es2 s1 Hok) as [_ Hl].
    split.
    - exact (Hc _ _ Hk H).
    - rewrite Forall_forall in Hl. apply nth_error_In in H. exact (Hl _ H).
  Qed.

  (* ----- bookkeeping: which call sits at which index, and for whom it was made ----- *)

  Definition pc_namepw (p : pc) : str * str :=
    match p with
    | PStart _ name pw | PHaveUser _ _ name pw | PStore _ _ name pw | PDone name pw _ => (name, pw)
    end.

  Lemma step_call_namepw chk c p : pc_namepw (fst (step_call bcrypt_ok salted chk c p)) = pc_namepw p.
  Proof.
    destruct p as [salt name pw|ui salt name pw|ui salt name pw|name pw r]; cbn [step_call].
    - destruct (find_user (c_users c) name); reflexivity.
    - destruct (cache_hit salted chk (c_cache c) ui name pw); [reflexivity|].
      destruct (bcrypt_ok (u_hash ui) pw); reflexivity.
    - reflexivity.
    - reflexivity.
  Qed.

  Lemma length_upd_nth {A} (l : list A) k x : length (upd_nth l k x) = length l.
  Proof. revert k. induction l as [|y l IH]; intros k; cbn [upd_nth]; [reflexivity|]. destruct k; cbn [length]; [reflexivity|]. rewrite IH. reflexivity. Qed.

  Definition n_calls (es : list sev) : nat :=
    length (filter (fun e => match e with SCall _ _ _ => true | _ => false end) es).

  Lemma sys_step_length chk s e :
    length (sy_calls (sys_step bcrypt_ok salted chk s e)) =
    (length (sy_calls s) + match e with SCall _ _ _ => 1 | _ => 0 end)%nat.
  Proof.
    destruct e as [salt name pw|k|m]; cbn [sys_step].
    - cbn [sy_calls]. rewrite app_length. reflexivity.
    - destruct (nth_error (sy_calls s) k) as [p|]; [|lia].
      destruct (step_call bcrypt_ok salted chk (sy_client s) p) as [p' c']. cbn [sy_calls]. rewrite length_upd_nth. lia.
    - cbn [sy_calls]. lia.
  Qed.

  Lemma sys_run_length chk es : forall s,
    length (sy_calls (sys_run bcrypt_ok salted chk s es)) = (length (sy_calls s) + n_calls es)%nat.
  Proof.
    induction es as [|e es IH]; intros s; cbn [sys_run fold_left]; [unfold n_calls; cbn; lia|].
    change (fold_left (sys_step bcrypt_ok salted chk) es (sys_step bcrypt_ok salted chk s e))
      with (sys_run bcrypt_ok salted chk (sys_step bcrypt_ok salted chk s e) es).
    rewrite IH, sys_step_length. unfold n_calls. cbn [filter]. destruct e; cbn [length]; lia.
  Qed.

  Definition call_np (k : nat) (np : str * str) (s : sys) : Prop :=
    exists p, nth_error (sy_calls s) k = Some p /\ pc_namepw p = np.

  Lemma sys_step_np chk k np s e : call_np k np s -> call_np k np (sys_step bcrypt_ok salted chk s e).
  Proof.
    intros [p [Hn Hp]]. destruct e as [salt name pw|j|m]; cbn [sys_step].
    - exists p. split; [|assumption]. cbn [sy_calls]. rewrite nth_error_app1; [assumption|].
      apply nth_error_Some. congruence.
    - destruct (nth_error (sy_calls s) j) as [p0|] eqn:E; [|exists p; auto].
      pose proof (step_call_namepw chk (sy_client s) p0) as Hs.
      destruct (step_call bcrypt_ok salted chk (sy_client s) p0) as [p' c']. cbn [fst] in Hs.
      unfold call_np. cbn [sy_calls].
      destruct (Nat.eqb_spec j k) as [->|Hne].
      + exists p'. rewrite nth_error_upd_nth, Nat.eqb_refl, Hn. split; [reflexivity|]. congruence.
      + exists p. rewrite nth_error_upd_nth. destruct (Nat.eqb_spec j k); [contradiction|]. auto.
    - exists p. auto.
  Qed.

  Lemma sys_run_np chk k np es : forall s, call_np k np s -> call_np k np (sys_run bcrypt_ok salted chk s es).
  Proof.
    induction es as [|e es IH]; intros s H; cbn [sys_run fold_left]; [exact H|].
    apply IH. apply sys_step_np. exact H.
  Qed.

  Lemma sys_run_app chk s a b :
    sys_run bcrypt_ok salted chk s (a ++ b) = sys_run bcrypt_ok salted chk (sys_run bcrypt_ok salted chk s a) b.
  Proof. unfold sys_run. apply fold_left_app. Qed.

  Lemma no_swap_app a b : no_swap (a ++ b) = no_swap a && no_swap b.
  Proof. unfold no_swap. apply forallb_app. Qed.

  (* a call made after snapshot m was installed (and before the next snapshot), whatever was
     going on before: if it returns a user, m lists him under the requested name and the
     requested password verifies against the hash m gives him *)
  Lemma call_after_swap_sound es1 m mid salt name pw post q :
    no_swap mid = true -> no_swap post = true ->
    let s1 := sys_step bcrypt_ok salted true (sys_run bcrypt_ok salted true sys0 es1) (SSwap m) in
    let s2 := sys_run bcrypt_ok salted true s1 (mid ++ SCall salt name pw :: post) in
    nth_error (sy_calls s2) (length (sy_calls s1) + n_calls mid) = Some q ->
    pc_namepw q = (name, pw) /\
    forall n p ui, q = PDone n p (AOk ui) ->
      find_user (m_users m) name = Some ui /\ bcrypt_ok (u_hash ui) pw = true.
  Proof.
    cbn zeta. intros Hmid Hpost Hq.
    set (s1 := sys_step bcrypt_ok salted true (sys_run bcrypt_ok salted true sys0 es1) (SSwap m)) in *.
    set (k := (length (sy_calls s1) + n_calls mid)%nat) in *.
    assert (Hnp : pc_namepw q = (name, pw)).
    { rewrite sys_run_app in Hq. cbn [sys_run fold_left] in Hq.
      set (sm := sys_run bcrypt_ok salted true s1 mid) in *.
      assert (Hlen : length (sy_calls sm) = k) by (apply (sys_run_length true mid s1)).
      assert (Hc : call_np k (name, pw) (sys_step bcrypt_ok salted true sm (SCall salt name pw))).
      { exists (PStart salt name pw). split; [|reflexivity]. cbn [sys_step sy_calls].
        rewrite nth_error_app2 by lia. rewrite Hlen, Nat.sub_diag. reflexivity. }
      destruct (sys_run_np true k (name, pw) post _ Hc) as [p' [Hn' Hp']].
      unfold sys_run in Hn'. rewrite Hn' in Hq. inversion Hq; subst. assumption. }
    split; [assumption|]. intros n p ui ->. cbn [pc_namepw] in Hnp. inversion Hnp; subst n p.
    assert (Hns : no_swap (mid ++ SCall salt name pw :: post) = true).
    { rewrite no_swap_app, Hmid. cbn [andb]. unfold no_swap in *. cbn [forallb]. assumption. }
    apply (interleaved_after_swap es1 m _ k name pw ui Hns); [unfold k; fold s1; lia|exact Hq].
  Qed.

  (* ====================================================================== *)
  (* httpd: middleware and inner handlers                                    *)
  (* ====================================================================== *)

  Lemma parse_credentials_carried cr :
    match parse_credentials cr with
    | Some (PUser u p) => In (CPass u p) (carried cr)
    | Some (PBearer cls n) => In (CJwt cls n) (carried cr)
    | None => True
    end.
  Proof.
    unfold parse_credentials, carried.
    destruct (is_empty (cr_u cr)) eqn:Eu; cbn [negb andb].
    - destruct (cr_hdr cr) as [|cls n|raw|raw|]; cbn [app]; try exact I.
      + left; reflexivity.
      + destruct (has_space raw); [exact I|]. destruct (cut_colon raw) as [[u p]|]; [left; reflexivity|exact I].
      + destruct (cut_colon raw) as [[u p]|]; [left; reflexivity|exact I].
    - destruct (is_empty (cr_p cr)); cbn [negb].
      + destruct (cr_hdr cr) as [|cls n|raw|raw|]; cbn [app]; try exact I.
        * right; left; reflexivity.
        * destruct (has_space raw); [exact I|]. destruct (cut_colon raw) as [[u p]|]; [right; left; reflexivity|exact I].
        * destruct (cut_colon raw) as [[u p]|]; [right; left; reflexivity|exact I].
      + left; reflexivity.
  Qed.

  (* what the middleware hands to the inner handler *)
  Lemma authenticate_mw_sound secret c salt cr :
    cache_wf (c_cache c) ->
    let r := authenticate_mw bcrypt_ok salted true secret c salt cr in
    c_users (snd r) = c_users c /\ c_dbs (snd r) = c_dbs c /\ cache_wf (c_cache (snd r)) /\
    match fst r with
    | MwInner (Some ui) =>
        exists cd, In cd (carried cr) /\ cred_valid bcrypt_ok (c_users c) secret cd = Some ui
    | MwInner None => admin_user_exists (c_users c) = false
    | MwReject st => st = 401
    end.
  Proof.
    intros Hwf. cbn zeta. unfold authenticate_mw.
    destruct (admin_user_exists (c_users c)) eqn:Ea; cbn [negb]; [|cbn; auto].
    pose proof (parse_credentials_carried cr) as Hcar.
    destruct (parse_credentials cr) as [[u p|cls name]|]; [| |cbn; auto].
    - destruct (is_empty u); [cbn; auto|].
      pose proof (authenticate_keeps c salt u p) as Hk. cbn zeta in Hk.
      pose proof (authenticate_sound c salt u p) as Hs.
      unfold authenticate in *.
      destruct (authenticate_with bcrypt_ok salted true c salt u p) as [a c1]. cbn [snd] in Hk.
      destruct Hk as [Hk1 [Hk2 Hk3]].
      destruct a as [ui| |]; cbn [fst snd]; (split; [assumption|split; [assumption|split; [auto|]]]); try reflexivity.
      destruct (Hs ui c1 Hwf eq_refl) as [Hf Hb].
      exists (CPass u p). split; [assumption|]. cbn [cred_valid]. rewrite Hf, Hb. reflexivity.
    - destruct secret; cbn [negb]; [|cbn; auto].
      destruct (cls =? 0) eqn:Ec; cbn [negb]; [|cbn; auto].
      destruct (is_empty name); [cbn; auto|].
      destruct (find_user (c_users c) name) as [ui|] eqn:Ef; cbn [fst snd]; (split; [reflexivity|split; [reflexivity|split; [assumption|]]]); [|reflexivity].
      exists (CJwt cls name). split; [assumption|]. cbn [cred_valid andb]. rewrite Ec. assumption.
  Qed.

  Lemma is_nil_nil {A} (l : list A) : is_nil l = true -> l = [].
  Proof. destruct l; [reflexivity|discriminate]. Qed.

  (* exec_implies_authorized, queries *)
  Lemma handle_query_sound secret c salt cr hq po ss db reach st ex c' :
    cache_wf (c_cache c) ->
    handle bcrypt_ok salted true secret c salt (RQuery cr hq po ss db reach) = ((st, ex), c') ->
    ex <> 0 ->
    (c_users c = [] /\ first_creates_admin ss = true) \/
    (c_users c <> [] /\ exists cd ui, In cd (carried cr) /\ cred_valid bcrypt_ok (c_users c) secret cd = Some ui /\
                   forallb (stmt_allowed ui db) ss = true).
  Proof.
    intros Hwf H Hex. cbn [handle] in H.
    pose proof (authenticate_mw_sound secret c salt cr Hwf) as Hmw. cbn zeta in Hmw.
    destruct (authenticate_mw bcrypt_ok salted true secret c salt cr) as [r c1]. cbn [fst snd] in Hmw.
    destruct Hmw as [Hu [_ [_ Hr]]].
    destruct r as [s0|u]; [inversion H; subst; contradiction|].
    unfold serve_query in H.
    destruct hq; cbn [negb] in H; [|inversion H; subst; contradiction].
    destruct po; cbn [negb] in H; [|inversion H; subst; contradiction].
    destruct (authorize_query (c_users c1) u ss db) eqn:Eq; try (inversion H; subst; contradiction).
    apply authorize_query_ok_iff in Eq. rewrite Hu in Eq.
    destruct (is_nil (c_users c)) eqn:En.
    - left. split; [apply is_nil_nil; assumption|assumption].
    - right. split; [intros E; rewrite E in En; discriminate|].
      destruct Eq as [ui [-> Hall]]. destruct Hr as [cd [Hin Hv]].
      exists cd, ui. auto.
  Qed.

  (* exec_implies_authorized, writes *)
  Lemma handle_write_sound secret c salt v2 cr db st ex c' :
    cache_wf (c_cache c) ->
    handle bcrypt_ok salted true secret c salt (RWrite v2 cr db) = ((st, ex), c') ->
    ex <> 0 ->
    exists cd ui, In cd (carried cr) /\ cred_valid bcrypt_ok (c_users c) secret cd = Some ui /\
                  write_allowed ui db = true /\ mem_str db (c_dbs c) = true.
  Proof.
    intros Hwf H Hex. cbn [handle] in H.
    pose proof (authenticate_mw_sound secret c salt cr Hwf) as Hmw. cbn zeta in Hmw.
    destruct (authenticate_mw bcrypt_ok salted true secret c salt cr) as [r c1]. cbn [fst snd] in Hmw.
    destruct Hmw as [Hu [Hd [_ Hr]]].
    destruct r as [s0|u]; [inversion H; subst; contradiction|].
    unfold serve_write in H.
    destruct (is_empty db); [inversion H; subst; contradiction|].
    destruct (mem_str db (c_dbs c1)) eqn:Em; cbn [negb] in H; [|inversion H; subst; contradiction].
    destruct u as [ui|]; [|inversion H; subst; contradiction].
    destruct (authorize_write (c_users c1) (u_name ui) db) eqn:Ew; [|inversion H; subst; contradiction].
    destruct Hr as [cd [Hin Hv]].
    rewrite authorize_write_spec, Hu in Ew.
    (* the record found again by name is the one the credentials identified *)
    assert (Hf : find_user (c_users c) (u_name ui) = Some ui).
    { destruct cd as [u p|cls u]; cbn [cred_valid] in Hv.
      - destruct (find_user (c_users c) u) as [uj|] eqn:Ef; [|discriminate].
        destruct (bcrypt_ok (u_hash uj) p); [|discriminate]. inversion Hv; subst uj.
        destruct (find_user_some _ _ _ Ef) as [_ Hn]. rewrite Hn. assumption.
      - destruct (secret && (cls =? 0)); [|discriminate].
        destruct (find_user_some _ _ _ Hv) as [_ Hn]. rewrite Hn. assumption. }
    rewrite Hf in Ew. exists cd, ui. rewrite <- Hd. auto.
  Qed.

  Lemma handle_keeps secret c salt r :
    cache_wf (c_cache c) ->
    let c' := snd (handle bcrypt_ok salted true secret c salt r) in
    c_users c' = c_users c /\ c_dbs c' = c_dbs c /\ cache_wf (c_cache c').
  Proof.
    intros Hwf. cbn zeta.
    destruct r as [cr hq po ss db reach|v2 cr db]; cbn [handle];
      pose proof (authenticate_mw_sound secret c salt cr Hwf) as Hmw; cbn zeta in Hmw;
      destruct (authenticate_mw bcrypt_ok salted true secret c salt cr) as [r c1]; cbn [fst snd] in Hmw;
      destruct Hmw as [Hu [Hd [Hw _]]]; destruct r; cbn [snd]; auto.
  Qed.

  Lemma forallb_firstn {A} (f : A -> bool) n l : forallb f l = true -> forallb f (firstn n l) = true.
  Proof.
    revert l. induction n as [|n IH]; intros [|x l] H; cbn [firstn forallb]; try reflexivity.
    cbn [forallb] in H. apply andb_true_iff in H. destruct H as [H1 H2]. rewrite H1. cbn [andb]. apply IH. assumption.
  Qed.

  Lemma existsb_intro {A} (f : A -> bool) l x : In x l -> f x = true -> existsb f l = true.
  Proof. intros H1 H2. apply existsb_exists. exists x. auto. Qed.

  (* the executable spec holds of whatever the model answers to one request *)
  Definition req_ok (users : list user) (secret : bool) (r : request) (o : N * N) : bool :=
    match r with
    | RQuery cr _ _ ss db _ => query_obs_ok bcrypt_ok users secret cr ss db (snd o)
    | RWrite _ cr db => write_obs_ok bcrypt_ok users secret cr db (snd o)
    end.

  Lemma handle_req_ok secret c salt r :
    cache_wf (c_cache c) ->
    req_ok (c_users c) secret r (fst (handle bcrypt_ok salted true secret c salt r)) = true.
  Proof.
    intros Hwf. destruct (handle bcrypt_ok salted true secret c salt r) as [[st ex] c'] eqn:E.
    cbn [fst]. destruct r as [cr hq po ss db reach|v2 cr db]; cbn [req_ok snd].
    - unfold query_obs_ok. destruct (N.eqb_spec ex 0) as [->|Hne]; [reflexivity|]. cbn [orb].
      destruct (handle_query_sound _ _ _ _ _ _ _ _ _ _ _ _ Hwf E Hne) as [[Hn Hf]|[Hn [cd [ui [Hin [Hv Hall]]]]]].
      + rewrite Hn. cbn [is_nil]. assumption.
      + destruct (c_users c) eqn:Eu; [contradiction|]. cbn [is_nil]. rewrite <- Eu in *.
        apply (existsb_intro _ _ cd Hin). rewrite Hv. apply forallb_firstn. assumption.
    - unfold write_obs_ok. destruct (N.eqb_spec ex 0) as [->|Hne]; [reflexivity|]. cbn [orb].
      destruct (handle_write_sound _ _ _ _ _ _ _ _ _ Hwf E Hne) as [cd [ui [Hin [Hv [Hw _]]]]].
      apply (existsb_intro _ _ cd Hin). rewrite Hv. assumption.
  Qed.

  Fixpoint all_ok (users : list user) (secret : bool) (rs : list request) (os : list (N * N)) : bool :=
    match rs, os with
    | [], [] => true
    | r :: rs', o :: os' => req_ok users secret r o && all_ok users secret rs' os'
    | _, _ => false
    end.

  Lemma handle_all_ok secret salt rs : forall c,
    cache_wf (c_cache c) ->
    all_ok (c_users c) secret rs (handle_all bcrypt_ok salted true secret c salt rs) = true.
  Proof.
    induction rs as [|r rs IH]; intros c Hwf; cbn [handle_all all_ok]; [reflexivity|].
    pose proof (handle_req_ok secret c salt r Hwf) as H1.
    pose proof (handle_keeps secret c salt r Hwf) as H2. cbn zeta in H2.
    destruct (handle bcrypt_ok salted true secret c salt r) as [o c1]. cbn [fst snd] in *.
    cbn [all_ok]. rewrite H1. cbn [andb]. destruct H2 as [Hu [_ Hw]]. rewrite <- Hu. apply IH. assumption.
  Qed.

  (* the response does not depend on what the cache holds (revocation_effective /
     cache transparency at the HTTP level) *)
  Lemma authenticate_mw_cache_independent secret c salt cr :
    cache_wf (c_cache c) ->
    fst (authenticate_mw bcrypt_ok salted true secret c salt cr) =
    fst (authenticate_mw bcrypt_ok salted true secret (mkC (c_users c) (c_dbs c) []) salt cr).
  Proof.
    intros Hwf. unfold authenticate_mw. cbn [c_users].
    destruct (admin_user_exists (c_users c)); cbn [negb]; [|reflexivity].
    destruct (parse_credentials cr) as [[u p|cls name]|]; [| |reflexivity].
    - destruct (is_empty u); [reflexivity|].
      pose proof (authenticate_exact c salt u p Hwf) as E1.
      pose proof (authenticate_exact (mkC (c_users c) (c_dbs c) []) salt u p cache_wf_nil) as E2.
      cbn [c_users] in E2. unfold authenticate in *.
      destruct (authenticate_with bcrypt_ok salted true c salt u p) as [a1 c1].
      destruct (authenticate_with bcrypt_ok salted true (mkC (c_users c) (c_dbs c) []) salt u p) as [a2 c2].
      cbn [fst] in *. rewrite E1, E2. destruct (auth_ref (c_users c) u p); reflexivity.
    - destruct (negb secret); [reflexivity|]. destruct (negb (cls =? 0)); [reflexivity|].
      destruct (is_empty name); [reflexivity|]. destruct (find_user (c_users c) name); reflexivity.
  Qed.

  Lemma handle_cache_independent secret c salt r :
    cache_wf (c_cache c) ->
    fst (handle bcrypt_ok salted true secret c salt r) =
    fst (handle bcrypt_ok salted true secret (mkC (c_users c) (c_dbs c) []) salt r).
  Proof.
    intros Hwf.
    destruct r as [cr hq po ss db reach|v2 cr db]; cbn [handle];
      pose proof (authenticate_mw_cache_independent secret c salt cr Hwf) as Hi;
      pose proof (authenticate_mw_sound secret c salt cr Hwf) as H1; cbn zeta in H1;
      pose proof (authenticate_mw_sound secret (mkC (c_users c) (c_dbs c) []) salt cr cache_wf_nil) as H2; cbn zeta in H2;
      destruct (authenticate_mw bcrypt_ok salted true secret c salt cr) as [r1 c1];
      destruct (authenticate_mw bcrypt_ok salted true secret (mkC (c_users c) (c_dbs c) []) salt cr) as [r2 c2];
      cbn [fst snd c_users c_dbs] in *; subst r2;
      destruct H1 as [Hu1 [Hd1 _]]; destruct H2 as [Hu2 [Hd2 _]];
      destruct r1 as [s0|u]; cbn [fst]; try reflexivity.
    - unfold serve_query. rewrite Hu1, Hu2. reflexivity.
    - unfold serve_write. rewrite Hu1, Hu2, Hd1, Hd2. reflexivity.
  Qed.

  (* SHOW DATABASES / SHOW CONTINUOUS QUERIES filtering *)
  Lemma visible_dbs_sound u dbs db :
    In db (visible_dbs u dbs) -> exists ui, u = Some ui /\ may_see ui db = true.
  Proof.
    unfold visible_dbs. intros H. apply filter_In in H. destruct H as [_ H].
    destruct u as [ui|]; [|discriminate]. exists ui. split; [reflexivity|].
    cbn [coarse_authorize] in H. rewrite !authorize_database_spec in H. unfold may_see.
    destruct (u_admin ui); [reflexivity|]. cbn [orb] in *. exact H.
  Qed.

  Lemma handle_show_ok secret c salt cr ss db :
    cache_wf (c_cache c) ->
    show_obs_ok bcrypt_ok (c_users c) secret cr
                (snd (fst (handle_show bcrypt_ok salted true secret c salt cr ss db))) = true.
  Proof.
    intros Hwf. unfold handle_show.
    pose proof (authenticate_mw_sound secret c salt cr Hwf) as Hmw. cbn zeta in Hmw.
    destruct (authenticate_mw bcrypt_ok salted true secret c salt cr) as [r c1]. cbn [fst snd] in Hmw.
    destruct Hmw as [_ [_ [_ Hr]]].
    destruct r as [s0|u]; [reflexivity|].
    destruct (authorize_query (c_users c1) u ss db); try reflexivity.
    cbn [fst snd]. unfold show_obs_ok. apply forallb_forall. intros d Hd.
    destruct (visible_dbs_sound _ _ _ Hd) as [ui [-> Hsee]].
    destruct Hr as [cd [Hin Hv]]. apply (existsb_intro _ _ cd Hin). rewrite Hv. exact Hsee.
  Qed.

  (* a request touches the cache exactly like one Authenticate call (or not at all), so the
     HAuth events of a history stand for requests as well *)
  Lemma handle_effect secret c salt r :
    snd (handle bcrypt_ok salted true secret c salt r) = c \/
    exists name pw, snd (handle bcrypt_ok salted true secret c salt r) = snd (authenticate bcrypt_ok salted c salt name pw).
  Proof.
    assert (Hmw : forall cr, snd (authenticate_mw bcrypt_ok salted true secret c salt cr) = c \/
                  exists name pw, snd (authenticate_mw bcrypt_ok salted true secret c salt cr) =
                                  snd (authenticate bcrypt_ok salted c salt name pw)).
    { intros cr. unfold authenticate_mw.
      destruct (negb (admin_user_exists (c_users c))); [left; reflexivity|].
      destruct (parse_credentials cr) as [[u p|cls name]|]; [| |left; reflexivity].
      - destruct (is_empty u); [left; reflexivity|]. right. exists u, p. unfold authenticate.
        destruct (authenticate_with bcrypt_ok salted true c salt u p) as [a c1]. destruct a; reflexivity.
      - left. destruct (negb secret); [reflexivity|]. destruct (negb (cls =? 0)); [reflexivity|].
        destruct (is_empty name); [reflexivity|]. destruct (find_user (c_users c) name); reflexivity. }
    destruct r as [cr hq po ss db reach|v2 cr db]; cbn [handle]; specialize (Hmw cr);
      destruct (authenticate_mw bcrypt_ok salted true secret c salt cr) as [m c1]; cbn [snd] in Hmw; destruct m; cbn [snd]; exact Hmw.
  Qed.
End AuthProofs.
