(* Shard/Store.v — logical ("layer A") storage state of a TSM shard, shared by the shard
   family: the cache (hot store + snapshot being flushed), immutable data files with
   per-file tombstones ordered oldest -> newest by (generation, sequence), and the read
   that overlays them.  Byte formats are C13's business; block layout is layer B. *)
From Verif Require Export Shard.Values Shard.Spec.
Open Scope Z_scope.

(* key -> values association list; values of one key are kept in ARRIVAL order in the
   cache and sorted-unique in files *)
Definition kvs := list (key * list tv).

Fixpoint kv_get (k : key) (m : kvs) : list tv :=
  match m with
  | [] => []
  | (k', vs) :: r => if key_eqb k' k then vs else kv_get k r
  end.

Fixpoint kv_append (k : key) (vs : list tv) (m : kvs) : kvs :=
  match m with
  | [] => [(k, vs)]
  | (k', old) :: r => if key_eqb k' k then (k', old ++ vs) :: r else (k', old) :: kv_append k vs r
  end.

Definition kv_keys (m : kvs) : list key := map fst m.

Record tsmfile := {
  f_gen : N; f_seq : N;
  f_data : kvs;                       (* per key: sorted, one value per timestamp *)
  f_tombs : list (key * (Z * Z))      (* tombstoned [lo, hi] per key, inclusive *)
}.

(* values of key k a reader gets from one file: stored values minus tombstoned ranges *)
Definition apply_tombs (k : key) (tombs : list (key * (Z * Z))) (vs : list tv) : list tv :=
  fold_left (fun acc tb => if key_eqb (fst tb) k then exclude_range (fst (snd tb)) (snd (snd tb)) acc else acc) tombs vs.

Definition file_values (f : tsmfile) (k : key) : list tv := apply_tombs k (f_tombs f) (kv_get k (f_data f)).

(* overlay files oldest -> newest; a newer file wins on equal timestamps *)
Definition files_values (fs : list tsmfile) (k : key) : list tv :=
  fold_left (fun acc f => merge_lw acc (file_values f k)) fs [].

Record cache := { c_snap : kvs; c_hot : kvs }.   (* snapshot being flushed; hot store *)

Definition cache_values (c : cache) (k : key) : list tv := kv_get k (c_snap c) ++ kv_get k (c_hot c).

(* everything a reader sees for k: files, then the snapshot, then the hot cache on top *)
Definition read_all (fs : list tsmfile) (c : cache) (k : key) : list tv :=
  merge_lw (files_values fs k) (cache_values c k).

Definition read (fs : list tsmfile) (c : cache) (k : key) (lo hi : Z) (asc : bool) : list tv :=
  let r := include_range lo hi (read_all fs c k) in if asc then r else rev r.

(* ---- basic facts ---- *)

Lemma apply_tombs_sorted k tombs : forall vs, ssorted vs -> ssorted (apply_tombs k tombs vs).
Proof.
  unfold apply_tombs. induction tombs as [|tb r IH]; intros vs Hs; cbn [fold_left]; [assumption|].
  apply IH. destruct (key_eqb (fst tb) k); [apply filter_ssorted|]; assumption.
Qed.

Lemma files_values_sorted fs k : ssorted (files_values fs k).
Proof.
  unfold files_values. assert (H : ssorted (@nil tv)) by exact I. revert H. generalize (@nil tv).
  induction fs as [|f r IH]; intros acc Hacc; cbn [fold_left]; [assumption|].
  apply IH. apply merge_lw_sorted. assumption.
Qed.

Lemma read_all_sorted fs c k : ssorted (read_all fs c k).
Proof. apply merge_lw_sorted. apply files_values_sorted. Qed.

(* lookup through the file overlay = lookup in the concatenation oldest -> newest *)
Lemma files_values_lookup t k fs :
  lookup_last t (files_values fs k) = lookup_last t (flat_map (fun f => file_values f k) fs).
Proof.
  unfold files_values.
  assert (G : forall acc, ssorted acc ->
              lookup_last t (fold_left (fun a f => merge_lw a (file_values f k)) fs acc) =
              lookup_last t (acc ++ flat_map (fun f => file_values f k) fs)).
  { induction fs as [|f r IH]; intros acc Hacc; cbn [fold_left flat_map].
    - rewrite app_nil_r. reflexivity.
    - rewrite IH by (apply merge_lw_sorted; assumption).
      rewrite app_assoc. rewrite !(lookup_last_app t _ (flat_map _ r)).
      rewrite merge_lw_lookup by assumption. reflexivity. }
  apply (G [] I).
Qed.

Lemma read_all_lookup t fs c k :
  lookup_last t (read_all fs c k) =
  lookup_last t (flat_map (fun f => file_values f k) fs ++ cache_values c k).
Proof.
  unfold read_all. rewrite merge_lw_lookup by apply files_values_sorted.
  rewrite !lookup_last_app. rewrite files_values_lookup. reflexivity.
Qed.
