(* Shard/Spec.v — the abstract last-write-wins specification of a shard, shared by
   C01 C02 C09 C10 C18.  A history is the list of ACKNOWLEDGED operations, oldest first.
   Small on purpose: a reader can check it in minutes. *)
From Verif Require Export Shard.Values.
Open Scope Z_scope.

Definition key_eqb (a b : key) : bool := nlist_eqb a b.

Inductive op :=
| OWrite (pts : list (key * tv))            (* one acknowledged batch, points in batch order *)
| ODelete (keys : list key) (lo hi : Z).    (* completed delete of these series-field keys, inclusive range *)

Definition batch_values (k : key) (pts : list (key * tv)) : list tv :=
  map snd (filter (fun p => key_eqb (fst p) k) pts).

(* effect of one acknowledged operation on the value visible at (k, t) *)
Definition apply_op (k : key) (t : Z) (cur : option value) (o : op) : option value :=
  match o with
  | OWrite pts => match lookup_last t (batch_values k pts) with Some v => Some v | None => cur end
  | ODelete ks lo hi => if existsb (key_eqb k) ks && ((lo <=? t) && (t <=? hi)) then None else cur
  end.

(* the value a read must return at (k, t) after history h: the latest acknowledged write
   not removed by a later delete *)
Definition lww (h : list op) (k : key) (t : Z) : option value :=
  fold_left (apply_op k t) h None.

(* what a correct read of key k over [lo, hi] is *)
Definition is_read (h : list op) (k : key) (lo hi : Z) (asc : bool) (r : list tv) : Prop :=
  let r' := if asc then r else rev r in
  ssorted r' /\ forall t v, In (t, v) r' <-> (lo <= t <= hi /\ lww h k t = Some v).

(* executable form: only timestamps written for k can be visible *)
Definition times_of (h : list op) (k : key) : list Z :=
  flat_map (fun o => match o with OWrite pts => map fst (batch_values k pts) | ODelete _ _ _ => [] end) h.

Definition spec_read_asc (h : list op) (k : key) (lo hi : Z) : list tv :=
  dedup (flat_map (fun t => if (lo <=? t) && (t <=? hi)
                            then match lww h k t with Some v => [(t, v)] | None => [] end
                            else []) (times_of h k)).

Definition spec_read (h : list op) (k : key) (lo hi : Z) (asc : bool) : list tv :=
  if asc then spec_read_asc h k lo hi else rev (spec_read_asc h k lo hi).

Lemma lww_app h1 h2 k t : lww (h1 ++ h2) k t = fold_left (apply_op k t) h2 (lww h1 k t).
Proof. unfold lww. apply fold_left_app. Qed.

Lemma lww_snoc h o k t : lww (h ++ [o]) k t = apply_op k t (lww h k t) o.
Proof. rewrite lww_app. reflexivity. Qed.
