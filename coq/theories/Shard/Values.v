(* Shard/Values.v — shared foundation of the shard family (C01 C02 C09 C10 C18):
   field values, timestamped value lists, last-write-wins de-duplication and merging
   (tsm1.Values.Deduplicate / Values.Merge / Values.Exclude at the logical level),
   with the lookup characterisations every refinement proof rests on.  Stdlib only. *)
From Coq Require Export List ZArith NArith Bool Lia.
From Coq Require Import ZifyBool Sorted.
Export ListNotations.
Open Scope Z_scope.

(* ---------- values ---------- *)

(* floats are IEEE-754 bit patterns: the storage layer never does arithmetic on them *)
Inductive value :=
| VFloat (bits : N) | VInt (z : Z) | VUint (n : N) | VBool (b : bool) | VStr (s : list N).

(* block type byte as in tsm1/encoding.go: BlockFloat64=0 BlockInteger=1 BlockBoolean=2
   BlockString=3 BlockUnsigned=4 *)
Definition vtype (v : value) : N :=
  match v with VFloat _ => 0 | VInt _ => 1 | VBool _ => 2 | VStr _ => 3 | VUint _ => 4 end%N.

Fixpoint nlist_eqb (a b : list N) : bool :=
  match a, b with
  | [], [] => true
  | x :: a', y :: b' => N.eqb x y && nlist_eqb a' b'
  | _, _ => false
  end.

Lemma nlist_eqb_eq a b : nlist_eqb a b = true <-> a = b.
Proof.
  revert b; induction a as [|x a IH]; destruct b as [|y b]; cbn; try (split; congruence).
  rewrite andb_true_iff, N.eqb_eq, IH. split; [intros [-> ->]; reflexivity|intros H; inversion H; auto].
Qed.

Definition value_eqb (a b : value) : bool :=
  match a, b with
  | VFloat x, VFloat y => N.eqb x y
  | VInt x, VInt y => Z.eqb x y
  | VUint x, VUint y => N.eqb x y
  | VBool x, VBool y => Bool.eqb x y
  | VStr x, VStr y => nlist_eqb x y
  | _, _ => false
  end.

Lemma value_eqb_eq a b : value_eqb a b = true <-> a = b.
Proof.
  destruct a, b; cbn; try (split; congruence).
  - rewrite N.eqb_eq; split; congruence.
  - rewrite Z.eqb_eq; split; congruence.
  - rewrite N.eqb_eq; split; congruence.
  - rewrite Bool.eqb_true_iff; split; congruence.
  - rewrite nlist_eqb_eq; split; congruence.
Qed.

Notation tv := (Z * value)%type.         (* unix-nano timestamp, value; a notation so that rewriting never trips on folding *)
Definition key := list N.                (* series key ++ "#!~#" ++ field name *)

(* ---------- last occurrence lookup: the meaning of an (unsorted, duplicated) value list ---------- *)

(* the value a reader must see at time t given values appended in this order: the LAST one *)
Fixpoint lookup_last (t : Z) (l : list tv) : option value :=
  match l with
  | [] => None
  | (t', v) :: r => match lookup_last t r with
                    | Some v' => Some v'
                    | None => if t' =? t then Some v else None
                    end
  end.

Lemma lookup_last_app t a b :
  lookup_last t (a ++ b) = match lookup_last t b with Some v => Some v | None => lookup_last t a end.
Proof.
  induction a as [|[t' v] a IH]; cbn.
  - destruct (lookup_last t b); reflexivity.
  - rewrite IH. destruct (lookup_last t b); [reflexivity|]. reflexivity.
Qed.

(* ---------- sorted, duplicate-free lists ---------- *)

Fixpoint ssorted (l : list tv) : Prop :=          (* strictly increasing timestamps *)
  match l with
  | [] => True
  | x :: r => (match r with [] => True | y :: _ => fst x < fst y end) /\ ssorted r
  end.

Fixpoint ssortedb (l : list tv) : bool :=
  match l with
  | [] => true
  | x :: r => (match r with [] => true | y :: _ => fst x <? fst y end) && ssortedb r
  end.

Lemma ssortedb_spec l : ssortedb l = true <-> ssorted l.
Proof.
  induction l as [|x r IH]; cbn; [tauto|].
  rewrite andb_true_iff, IH. destruct r as [|y r']; [tauto|]. rewrite Z.ltb_lt. tauto.
Qed.

Lemma ssorted_tail x r : ssorted (x :: r) -> ssorted r.
Proof. cbn. tauto. Qed.

Lemma ssorted_all_gt x r : ssorted (x :: r) -> forall y, In y r -> fst x < fst y.
Proof.
  revert x; induction r as [|z r IH]; intros x H y Hy; [destruct Hy|].
  cbn in H. destruct H as [Hxz Hr]. destruct Hy as [<-|Hy]; [assumption|].
  specialize (IH z Hr y Hy). lia.
Qed.

(* insert one value into a sorted-unique list; an equal timestamp is REPLACED (later wins) *)
Fixpoint insert_lw (x : tv) (l : list tv) : list tv :=
  match l with
  | [] => [x]
  | y :: r => if fst x <? fst y then x :: l
              else if fst x =? fst y then x :: r
              else y :: insert_lw x r
  end.

Lemma insert_lw_head_ge (x : tv) l (y : tv) :
  ssorted l -> (forall z, In z l -> fst y < fst z) -> fst y < fst x ->
  forall z, In z (insert_lw x l) -> fst y < fst z.
Proof.
  induction l as [|h r IH]; intros Hs Hall Hyx z Hz; cbn in Hz.
  - destruct Hz as [<-|[]]; assumption.
  - destruct (fst x <? fst h) eqn:E1.
    + destruct Hz as [<-|Hz]; [assumption|]. apply Hall; assumption.
    + destruct (fst x =? fst h) eqn:E2.
      * destruct Hz as [<-|Hz]; [assumption|]. apply Hall; right; assumption.
      * destruct Hz as [<-|Hz]; [apply Hall; left; reflexivity|].
        apply (IH (ssorted_tail _ _ Hs)); auto. intros w Hw; apply Hall; right; assumption.
Qed.

Lemma ssorted_cons x r : (forall y, In y r -> fst x < fst y) -> ssorted r -> ssorted (x :: r).
Proof.
  intros H Hr. cbn. split; [|assumption]. destruct r as [|y r']; [exact I|]. apply H; left; reflexivity.
Qed.

Lemma insert_lw_sorted x l : ssorted l -> ssorted (insert_lw x l).
Proof.
  induction l as [|h r IH]; intros Hs; cbn; [auto|].
  destruct (fst x <? fst h) eqn:E1.
  - cbn. split; [lia|exact Hs].
  - destruct (fst x =? fst h) eqn:E2.
    + apply ssorted_cons; [|exact (ssorted_tail _ _ Hs)].
      intros y Hy. pose proof (ssorted_all_gt _ _ Hs y Hy). lia.
    + apply ssorted_cons; [|apply IH; exact (ssorted_tail _ _ Hs)].
      apply insert_lw_head_ge; [exact (ssorted_tail _ _ Hs)|exact (ssorted_all_gt _ _ Hs)|lia].
Qed.

(* in a sorted-unique list, lookup is unambiguous *)
Lemma lookup_last_sorted_head t v r :
  ssorted ((t, v) :: r) -> lookup_last t ((t, v) :: r) = Some v.
Proof.
  intros Hs. cbn. assert (lookup_last t r = None) as ->.
  { pose proof (ssorted_all_gt _ _ Hs) as Hgt. clear Hs.
    induction r as [|[t' v'] r IH]; cbn; [reflexivity|].
    rewrite IH by (intros y Hy; apply Hgt; right; assumption).
    specialize (Hgt (t', v') (or_introl eq_refl)). cbn in Hgt.
    destruct (t' =? t) eqn:E; [lia|reflexivity]. }
  rewrite Z.eqb_refl. reflexivity.
Qed.

Lemma lookup_last_none_lt t l : (forall y, In y l -> t < fst y) -> lookup_last t l = None.
Proof.
  induction l as [|[t' v'] r IH]; intros H; cbn; [reflexivity|].
  rewrite IH by (intros y Hy; apply H; right; assumption).
  specialize (H (t', v') (or_introl eq_refl)). cbn in H.
  destruct (t' =? t) eqn:E; [lia|reflexivity].
Qed.

(* THE key lemma: inserting behaves like appending, as far as lookup can tell *)
Lemma lookup_insert_lw' t tx vx l :
  ssorted l ->
  lookup_last t (insert_lw (tx, vx) l) = if tx =? t then Some vx else lookup_last t l.
Proof.
  induction l as [|[th vh] r IH]; intros Hs; cbn [insert_lw fst].
  - cbn. destruct (tx =? t); reflexivity.
  - pose proof (ssorted_all_gt _ _ Hs) as Hgt. cbn [fst] in Hgt.
    destruct (tx <? th) eqn:E1.
    + cbn [lookup_last]. destruct (tx =? t) eqn:E.
      * rewrite (lookup_last_none_lt t r) by (intros y Hy; specialize (Hgt y Hy); lia).
        destruct (th =? t) eqn:Eh; [lia|reflexivity].
      * destruct (lookup_last t r); [reflexivity|]. destruct (th =? t); reflexivity.
    + destruct (tx =? th) eqn:E2.
      * cbn [lookup_last]. destruct (tx =? t) eqn:E.
        -- rewrite (lookup_last_none_lt t r) by (intros y Hy; specialize (Hgt y Hy); lia). reflexivity.
        -- destruct (lookup_last t r); [reflexivity|]. destruct (th =? t) eqn:Eh; [lia|reflexivity].
      * cbn [lookup_last]. rewrite (IH (ssorted_tail _ _ Hs)).
        destruct (tx =? t) eqn:E; [reflexivity|]. reflexivity.
Qed.

Lemma lookup_insert_lw t x l :
  ssorted l -> lookup_last t (insert_lw x l) = lookup_last t (l ++ [x]).
Proof.
  destruct x as [tx vx]. intros Hs. rewrite lookup_insert_lw' by assumption.
  rewrite lookup_last_app. cbn [lookup_last]. destruct (tx =? t); reflexivity.
Qed.

(* ---------- Values.Deduplicate and merging ---------- *)

(* values in arrival order -> sorted, one per timestamp, the LAST arrival wins *)
Definition dedup (l : list tv) : list tv := fold_left (fun acc x => insert_lw x acc) l [].

(* overlay newer values (arrival order) on an already sorted-unique older list *)
Definition merge_lw (older newer : list tv) : list tv :=
  fold_left (fun acc x => insert_lw x acc) newer older.

Lemma merge_lw_sorted newer : forall older, ssorted older -> ssorted (merge_lw older newer).
Proof.
  unfold merge_lw. induction newer as [|x r IH]; intros older Hs; cbn; [assumption|].
  apply IH. apply insert_lw_sorted. assumption.
Qed.

Lemma merge_lw_lookup t newer : forall older, ssorted older ->
  lookup_last t (merge_lw older newer) = lookup_last t (older ++ newer).
Proof.
  unfold merge_lw. induction newer as [|x r IH]; intros older Hs; cbn [fold_left].
  - rewrite app_nil_r. reflexivity.
  - rewrite IH by (apply insert_lw_sorted; assumption).
    rewrite lookup_last_app. rewrite lookup_insert_lw by assumption.
    replace (older ++ x :: r) with ((older ++ [x]) ++ r) by (rewrite <- app_assoc; reflexivity).
    rewrite (lookup_last_app t (older ++ [x]) r). reflexivity.
Qed.

Lemma dedup_sorted l : ssorted (dedup l).
Proof. apply (merge_lw_sorted l []). exact I. Qed.

Theorem dedup_last_wins t l : lookup_last t (dedup l) = lookup_last t l.
Proof. apply (merge_lw_lookup t l []). exact I. Qed.

(* membership in a sorted-unique list is lookup *)
Lemma in_sorted_lookup t v l : ssorted l -> (In (t, v) l <-> lookup_last t l = Some v).
Proof.
  induction l as [|[th vh] r IH]; intros Hs; [cbn; split; [tauto|discriminate]|].
  pose proof (ssorted_all_gt _ _ Hs) as Hgt. cbn [fst] in Hgt.
  specialize (IH (ssorted_tail _ _ Hs)). cbn [In lookup_last].
  split.
  - intros [E|Hin].
    + inversion E; subst. rewrite lookup_last_none_lt by exact Hgt. rewrite Z.eqb_refl. reflexivity.
    + apply IH in Hin. rewrite Hin. reflexivity.
  - destruct (lookup_last t r) eqn:Er.
    + intros E; inversion E; subst. right. apply IH. reflexivity.
    + destruct (th =? t) eqn:E; [|discriminate]. intros H; inversion H; subst.
      left. f_equal. lia.
Qed.

(* two sorted-unique lists with the same lookups are equal: reads are canonical *)
Lemma sorted_lookup_ext a : forall b, ssorted a -> ssorted b ->
  (forall t, lookup_last t a = lookup_last t b) -> a = b.
Proof.
  induction a as [|[ta va] ra IH]; intros b Ha Hb H.
  - destruct b as [|[tb vb] rb]; [reflexivity|].
    pose proof (lookup_last_sorted_head _ _ _ Hb) as E. rewrite <- (H tb) in E. discriminate.
  - destruct b as [|[tb vb] rb].
    + pose proof (lookup_last_sorted_head _ _ _ Ha) as E. rewrite (H ta) in E. discriminate.
    + pose proof (ssorted_all_gt _ _ Ha) as Ga. pose proof (ssorted_all_gt _ _ Hb) as Gb. cbn [fst] in *.
      pose proof (lookup_last_sorted_head _ _ _ Ha) as Ea.
      pose proof (lookup_last_sorted_head _ _ _ Hb) as Eb.
      assert (ta = tb).
      { destruct (Z.lt_trichotomy ta tb) as [L|[E|L]]; [|assumption|].
        - rewrite (H ta) in Ea.
          rewrite lookup_last_none_lt in Ea; [discriminate|].
          intros y [<-|Hy]; cbn; [assumption|]. specialize (Gb y Hy). lia.
        - rewrite <- (H tb) in Eb.
          rewrite lookup_last_none_lt in Eb; [discriminate|].
          intros y [<-|Hy]; cbn; [assumption|]. specialize (Ga y Hy). lia. }
      subst tb.
      rewrite (H ta), Eb in Ea. inversion Ea; subst vb. f_equal.
      apply IH; [exact (ssorted_tail _ _ Ha)|exact (ssorted_tail _ _ Hb)|].
      intros t. specialize (H t). cbn [lookup_last] in H.
      destruct (lookup_last t ra) eqn:Era, (lookup_last t rb) eqn:Erb; try reflexivity.
      * assumption.
      * destruct (ta =? t) eqn:E; [|discriminate].
        assert (t = ta) by lia; subst t. rewrite lookup_last_none_lt in Era by exact Ga. discriminate.
      * destruct (ta =? t) eqn:E; [|discriminate].
        assert (t = ta) by lia; subst t. rewrite lookup_last_none_lt in Erb by exact Gb. discriminate.
Qed.

(* ---------- ranges: tombstones, deletes, read windows (all inclusive, as in the code) ---------- *)

Definition in_range (lo hi : Z) (x : tv) : bool := (lo <=? fst x) && (fst x <=? hi).
Definition exclude_range (lo hi : Z) (l : list tv) : list tv := filter (fun x => negb (in_range lo hi x)) l.
Definition include_range (lo hi : Z) (l : list tv) : list tv := filter (in_range lo hi) l.

Lemma lookup_last_filter t (p : tv -> bool) l :
  (forall v1 v2, p (t, v1) = p (t, v2)) ->
  lookup_last t (filter p l) =
  match lookup_last t l with Some v => if p (t, v) then Some v else None | None => None end.
Proof.
  intros Hp. induction l as [|[t' v'] r IH]; cbn [filter]; [reflexivity|].
  destruct (p (t', v')) eqn:Ep; cbn [lookup_last]; rewrite IH.
  - destruct (lookup_last t r) as [v|] eqn:Er.
    + destruct (p (t, v)) eqn:Epv; [reflexivity|].
      destruct (t' =? t) eqn:E; [|reflexivity].
      assert (t' = t) by lia; subst. rewrite (Hp v' v) in Ep. congruence.
    + destruct (t' =? t) eqn:E; [|reflexivity]. assert (t' = t) by lia; subst. rewrite Ep. reflexivity.
  - destruct (lookup_last t r) as [v|] eqn:Er; [reflexivity|].
    destruct (t' =? t) eqn:E; [|reflexivity]. assert (t' = t) by lia; subst. rewrite Ep. reflexivity.
Qed.

Lemma lookup_exclude_range t lo hi l :
  lookup_last t (exclude_range lo hi l) =
  if (lo <=? t) && (t <=? hi) then None else lookup_last t l.
Proof.
  unfold exclude_range. rewrite lookup_last_filter by (intros; reflexivity).
  unfold in_range; cbn [fst]. destruct (lookup_last t l); destruct ((lo <=? t) && (t <=? hi)); reflexivity.
Qed.

Lemma lookup_include_range t lo hi l :
  lookup_last t (include_range lo hi l) =
  if (lo <=? t) && (t <=? hi) then lookup_last t l else None.
Proof.
  unfold include_range. rewrite lookup_last_filter by (intros; reflexivity).
  unfold in_range; cbn [fst]. destruct (lookup_last t l); destruct ((lo <=? t) && (t <=? hi)); reflexivity.
Qed.

Lemma filter_ssorted p l : ssorted l -> ssorted (filter p l).
Proof.
  induction l as [|x r IH]; intros Hs; cbn [filter]; [exact I|].
  pose proof (ssorted_all_gt _ _ Hs) as Hgt.
  destruct (p x); [|apply IH; exact (ssorted_tail _ _ Hs)].
  apply ssorted_cons; [|apply IH; exact (ssorted_tail _ _ Hs)].
  intros y Hy. apply filter_In in Hy. apply Hgt. tauto.
Qed.
