(* Shard/Engine.v — step machine of one TSM shard engine (tsdb/engine/tsm1: wal.go, cache.go,
   engine.go, compact.go, file_store.go, tombstone.go), at the logical level of Shard/Store.v.
   Shared by C01 (durability) and C10 (deletes).  Definitions only; everything computes.

   One constructor of [step] per durable step of the code, so that "a crash between any two
   steps" (including inside recovery) is just a history containing [Crash].  Inapplicable steps
   leave the state unchanged and are reported by [step_ok].

   [cfg] selects the pinned-tree behaviour (both flags false) or the repaired code:
     fix_woff     : WAL.Open opens the tail segment in append mode, so writes after
                    CacheLoader.Load truncated a torn tail land at the new end of file
                    (pinned tree: at the OLD length, leaving a hole of zero bytes);
     fix_snapsegs : a retried snapshot (retained after a failed flush) removes only the WAL
                    segments that were closed when it was TAKEN (pinned tree: all segments
                    closed at the time of the retry).
   The [g_hist] field is ghost: no other field is computed from it. *)
From Verif Require Export Shard.Values Shard.Spec Shard.Store.
Open Scope Z_scope.

(* ---------- keys ---------- *)

Definition key_sep : list N := [35; 33; 126; 35]%N.       (* "#!~#" keyFieldSeparator *)

Fixpoint has_prefix (p l : list N) : bool :=
  match p, l with
  | [], _ => true
  | x :: p', y :: l' => N.eqb x y && has_prefix p' l'
  | _ :: _, [] => false
  end.

(* SeriesAndFieldFromCompositeKey: the part before the first separator (whole key if none) *)
Fixpoint series_of (k : key) : key :=
  match k with
  | [] => []
  | c :: r => if has_prefix key_sep k then [] else c :: series_of r
  end.

Definition kmem (k : key) (ks : list key) : bool := existsb (key_eqb k) ks.
(* does composite key k belong to one of the selected series *)
Definition sel (ss : list key) (k : key) : bool := kmem (series_of k) ss.

Definition is_nil {A} (l : list A) : bool := match l with [] => true | _ => false end.

(* ---------- cache stores ---------- *)

(* Cache.WriteMulti / ring.write: append in arrival order *)
Definition kv_write (pts : list (key * tv)) (m : kvs) : kvs :=
  fold_left (fun acc p => kv_append (fst p) [snd p] acc) pts m.

(* Cache.DeleteRange(keys, lo, hi): entry.filter, entries left empty are removed *)
Fixpoint kv_delrange (dk : list key) (lo hi : Z) (m : kvs) : kvs :=
  match m with
  | [] => []
  | (k, vs) :: r =>
      if kmem k dk then
        let vs' := exclude_range lo hi vs in
        if is_nil vs' then kv_delrange dk lo hi r else (k, vs') :: kv_delrange dk lo hi r
      else (k, vs) :: kv_delrange dk lo hi r
  end.

(* ---------- WAL ---------- *)

Inductive entry :=
| EWrite (pts : list (key * tv))                 (* WriteWALEntry: one batch *)
| EDelRange (dk : list key) (lo hi : Z).         (* DeleteRangeWALEntry: explicit composite keys *)

(* the content of a segment file is a sequence of whole frames and of byte runs that do not
   parse as a frame: a torn prefix of a frame (crash), or a hole of zero bytes (pinned tree).
   WALSegmentReader.Next stops with an error at the first such run. *)
Inductive item := IEntry (e : entry) | IJunk (n : N).

Record segment := { sg_id : N; sg_items : list item; sg_synced : nat }.

Definition is_entry (i : item) : bool := match i with IEntry _ => true | IJunk _ => false end.

(* entries CacheLoader.Load gets from one segment: the whole frames before the first bad one *)
Fixpoint good_prefix (l : list item) : list entry :=
  match l with
  | IEntry e :: r => e :: good_prefix r
  | _ => []
  end.

Definition item_bytes (i : item) : N := match i with IJunk n => n | IEntry _ => 5%N end.
Definition dropped_bytes (l : list item) : N :=
  fold_left (fun a i => (a + item_bytes i)%N) (skipn (length (good_prefix l)) l) 0%N.

Definition apply_entry (m : kvs) (e : entry) : kvs :=
  match e with
  | EWrite pts => kv_write pts m
  | EDelRange dk lo hi => kv_delrange dk lo hi m
  end.

Definition replay (es : list entry) (m : kvs) : kvs := fold_left apply_entry es m.

Definition wal_entries (w : list segment) : list entry :=
  flat_map (fun sg => good_prefix (sg_items sg)) w.

(* ---------- files ---------- *)

Definition fid (f : tsmfile) : N * N := (f_gen f, f_seq f).
Definition fid_eqb (a b : N * N) : bool := N.eqb (fst a) (fst b) && N.eqb (snd a) (snd b).
Definition fid_ltb (a b : N * N) : bool :=
  N.ltb (fst a) (fst b) || (N.eqb (fst a) (fst b) && N.ltb (snd a) (snd b)).

(* FileStore keeps readers sorted by file name = (generation, sequence) *)
Fixpoint insert_file (f : tsmfile) (fs : list tsmfile) : list tsmfile :=
  match fs with
  | [] => [f]
  | g :: r => if fid_ltb (fid f) (fid g) then f :: fs else g :: insert_file f r
  end.

Definition remove_file (id : N * N) (fs : list tsmfile) : list tsmfile :=
  filter (fun f => negb (fid_eqb (fid f) id)) fs.

Definition nonempty_kvs (m : kvs) : kvs := filter (fun kv => negb (is_nil (snd kv))) m.

(* Compactor.WriteSnapshot: one file, every key de-duplicated and sorted *)
Definition snap_file (gen : N) (sn : kvs) : tsmfile :=
  {| f_gen := gen; f_seq := 1%N;
     f_data := nonempty_kvs (map (fun kv => (fst kv, dedup (snd kv))) sn);
     f_tombs := [] |}.

Fixpoint kunion (a b : list key) : list key :=
  match b with
  | [] => a
  | k :: r => if kmem k a then kunion a r else kunion (a ++ [k]) r
  end.

Definition group_keys (g : list tsmfile) : list key :=
  fold_left (fun acc f => kunion acc (kv_keys (f_data f))) g [].

(* Compactor.compact: output generation = max input generation, sequence = its max sequence + 1 *)
Definition group_genseq (g : list tsmfile) : N * N :=
  fold_left (fun ms f =>
               let '(mg, sq) := ms in
               let '(mg1, sq1) := if N.ltb mg (f_gen f) then (f_gen f, f_seq f) else (mg, sq) in
               if N.eqb (f_gen f) mg1 && N.ltb sq1 (f_seq f) then (mg1, f_seq f) else (mg1, sq1))
            g (0%N, 0%N).

(* tsmBatchKeyIterator at the logical level: per key, inputs overlaid oldest -> newest with
   their tombstoned ranges dropped; ErrNoValues (no output file) when nothing is left *)
Definition compact_out (g : list tsmfile) : option tsmfile :=
  let data := nonempty_kvs (map (fun k => (k, files_values g k)) (group_keys g)) in
  if is_nil data then None
  else let '(mg, sq) := group_genseq g in
       Some {| f_gen := mg; f_seq := (sq + 1)%N; f_data := data; f_tombs := [] |}.

Definition file_times (f : tsmfile) : list Z := flat_map (fun kv => map fst (snd kv)) (f_data f).
(* TSMFile.OverlapsTimeRange on the file's index time range *)
Definition file_overlaps (lo hi : Z) (f : tsmfile) : bool :=
  match file_times f with
  | [] => false
  | t0 :: r => let mn := fold_left Z.min r t0 in let mx := fold_left Z.max r t0 in
               negb (mx <? lo) && negb (hi <? mn)
  end.

(* deleteSeriesRange on one file: a tombstone for every index key of a selected series *)
Definition tombstone_file (ss : list key) (lo hi : Z) (f : tsmfile) : tsmfile :=
  if file_overlaps lo hi f then
    {| f_gen := f_gen f; f_seq := f_seq f; f_data := f_data f;
       f_tombs := f_tombs f ++ map (fun k => (k, (lo, hi))) (filter (sel ss) (kv_keys (f_data f))) |}
  else f.

Fixpoint update_nth {A} (n : nat) (g : A -> A) (l : list A) : list A :=
  match l, n with
  | [], _ => []
  | x :: r, O => g x :: r
  | x :: r, S n' => x :: update_nth n' g r
  end.

Fixpoint remove_nth {A} (n : nat) (l : list A) : list A :=
  match l, n with
  | [], _ => []
  | _ :: r, O => r
  | x :: r, S n' => x :: remove_nth n' r
  end.

(* file-name order: [f] sorts after every file of [a] and before every file of [b] *)
Definition fits_between (a : list tsmfile) (f : tsmfile) (b : list tsmfile) : bool :=
  forallb (fun g => fid_ltb (fid g) (fid f)) a && forallb (fun g => fid_ltb (fid f) (fid g)) b.

(* FileStore.Open: currentGeneration from the file names *)
Definition open_gen (fs : list tsmfile) : N :=
  fold_left (fun cur f => if N.leb cur (f_gen f) then (f_gen f + 1)%N else cur) fs 0%N.

(* Is key k still in the file's (in-memory) index?  indirectIndex.DeleteRange drops a key only
   when the time range of its block entries [mn, mx] is covered: by the new range alone, or by
   the chain of all tombstones recorded for the key so far, provided the chain has no gap
   (adjacent or overlapping ranges only).  Ranges that do not touch [mn, mx] are not recorded.
   So a key whose points were all removed piecewise by non-adjacent ranges STAYS in the index
   (and its series stays listed) until a compaction rewrites the file. *)
Definition rng_le (a b : Z * Z) : bool := (fst a <? fst b) || ((fst a =? fst b) && (snd a <=? snd b)).
Fixpoint rng_insert (x : Z * Z) (l : list (Z * Z)) : list (Z * Z) :=
  match l with
  | [] => [x]
  | y :: r => if rng_le x y then x :: l else y :: rng_insert x r
  end.
(* walk the sorted ranges: Some (minTs, maxTs) of the chain when there is no gap *)
Fixpoint rng_chain (prev : Z * Z) (acc : Z * Z) (l : list (Z * Z)) : option (Z * Z) :=
  match l with
  | [] => Some acc
  | ts :: r =>
      if (snd prev =? fst ts - 1) || ((fst prev <=? snd ts) && (fst ts <=? snd prev))
      then rng_chain ts (Z.min (fst acc) (fst ts), Z.max (snd acc) (snd ts)) r
      else None
  end.
Definition min_int64 : Z := -9223372036854775808.
Definition max_int64 : Z := 9223372036854775807.
(* state: Some stored-ranges while the key is in the index, None once it was dropped *)
Definition index_step (mn mx : Z) (st : option (list (Z * Z))) (r : Z * Z) : option (list (Z * Z)) :=
  match st with
  | None => None
  | Some stored =>
      let '(lo, hi) := r in
      if (lo =? min_int64) && (hi =? max_int64) then None
      else if (mx <? lo) || (hi <? mn) then Some stored
      else if (lo <=? mn) && (mx <=? hi) then None
      else let stored' := rng_insert r stored in
           match stored' with
           | [] => Some stored'
           | t0 :: rest => match rng_chain t0 t0 rest with
                           | Some (a, b) => if (a <=? mn) && (mx <=? b) then None else Some stored'
                           | None => Some stored'
                           end
           end
  end.
Definition file_has_key (f : tsmfile) (k : key) : bool :=
  match map fst (kv_get k (f_data f)) with
  | [] => false
  | t0 :: r =>
      let mn := fold_left Z.min r t0 in
      let mx := fold_left Z.max r t0 in
      let mine := map snd (filter (fun tb => key_eqb (fst tb) k) (f_tombs f)) in
      match fold_left (index_step mn mx) mine (Some []) with Some _ => true | None => false end
  end.

Definition add_key (k : key) (l : list key) : list key := if kmem k l then l else l ++ [k].

(* LoadMetadataIndex (inmem index): series of every key left in a file index or in the cache *)
Definition rebuild_listed (fs : list tsmfile) (h : kvs) : list key :=
  let fk := flat_map (fun f => filter (file_has_key f) (kv_keys (f_data f))) fs in
  fold_left (fun acc k => add_key (series_of k) acc) (fk ++ kv_keys h) [].

(* ---------- configuration, state, steps ---------- *)

Record cfg := { fix_woff : bool; fix_snapsegs : bool }.
Definition repaired : cfg := {| fix_woff := true; fix_snapsegs := true |}.
Definition pinned : cfg := {| fix_woff := false; fix_snapsegs := false |}.

Inductive gop := GWrite (pts : list (key * tv)) | GDelete (ss : list key) (lo hi : Z).
(* KAck: acknowledged to the client.  KSurvived: never acknowledged (crash in flight) but its
   durable effects are complete.  KMaybe: a delete cut by a crash, applied to some layers only. *)
Inductive gkind := KAck | KSurvived | KMaybe.

Inductive phase := Down | O1 | O2 | O3 | Up.
Inductive snap_stage := SIdle | SBegun | SWritten (f : tsmfile) | SRenamed | SCleared.
Inductive comp_stage :=
| CIdle
| CWritten (i n : nat) (out : option tsmfile)   (* group = n files from position i; tmp output written *)
| CReplacing (i : nat) (olds : list (N * N)).  (* output renamed; old files at position i still to remove *)
Inductive del_stage :=
| DIdle
| DTomb (ss : list key) (lo hi : Z) (todo : list (N * N))   (* files not yet tombstoned *)
| DWal (ss : list key) (lo hi : Z) (dk : list key)          (* cache done (dk = deleteKeys), WAL entry appended, not synced *)
| DIndexing (ss : list key) (lo hi : Z) (dk : list key).    (* data layers done *)
Inductive pending := PNone | PWrite (pts : list (key * tv)) | PDelete.

Record dur := { wal : list segment; files : list tsmfile; tmps : list tsmfile }.

Record vol := {
  ph : phase;
  w_open : bool;            (* currentSegmentWriter != nil; the current segment is the last one *)
  w_id : N;                 (* currentSegmentID *)
  w_gap : N;                (* writer offset minus file length of the current segment *)
  w_nonempty : bool;        (* currentSegmentWriter.size > 0 *)
  hot : kvs;                (* Cache.store *)
  snap : kvs;               (* Cache.snapshot: being flushed, or retained after a failed flush *)
  snapshotting : bool;
  snap_segs : list N;       (* closedFiles handed to WAL.Remove by this WriteSnapshot call *)
  snap_keep : list N;       (* repaired code: segments closed when the snapshot was taken *)
  sstage : snap_stage;
  cur_gen : N;              (* FileStore.currentGeneration *)
  cstage : comp_stage;
  dstage : del_stage;
  pend : pending;           (* operation whose WAL entry is appended but not yet fsynced *)
  listed : list key         (* series in the shard's index *)
}.

Record state := { sd : dur; sv : vol; g_hist : list (gkind * gop) }.

Definition vol0 : vol :=
  {| ph := Down; w_open := false; w_id := 0%N; w_gap := 0%N; w_nonempty := false; hot := []; snap := [];
     snapshotting := false; snap_segs := []; snap_keep := []; sstage := SIdle; cur_gen := 0%N;
     cstage := CIdle; dstage := DIdle; pend := PNone; listed := [] |}.

Definition init : state := {| sd := {| wal := []; files := []; tmps := [] |}; sv := vol0; g_hist := [] |}.

Inductive step :=
| Write (pts : list (key * tv))      (* Cache.WriteMulti + WAL append (bufio flush, not yet fsynced) *)
| WalSync                            (* fsync; the pending operation proceeds / is acknowledged *)
| RollSegment                        (* WAL.rollSegment: size threshold reached *)
| SnapBegin | SnapWriteTmp | SnapFail | SnapRename | SnapClear | SnapRemoveWAL
| CompactWriteTmp (i n : nat)        (* group = n files starting at position i *)
| CompactAbort | ReplaceRename | ReplaceRemove
| DeleteBegin (ss : list key) (lo hi : Z)
| DeleteTombstone (i : nat)
| DeleteCache                        (* Cache.DeleteRange + WAL.DeleteRange append (not yet fsynced); a snapshot
                                        starting between the two statements is not modelled *)
| DeleteIndex
| Crash (keep : nat) (torn : N)      (* keep whole unsynced items, then torn bytes of the next *)
| OpenCleanup | OpenWAL | OpenFiles | OpenLoad.

(* ---- setters ---- *)
Definition set_wal (w : list segment) (s : state) : state :=
  {| sd := {| wal := w; files := files (sd s); tmps := tmps (sd s) |}; sv := sv s; g_hist := g_hist s |}.
Definition set_files (f : list tsmfile) (s : state) : state :=
  {| sd := {| wal := wal (sd s); files := f; tmps := tmps (sd s) |}; sv := sv s; g_hist := g_hist s |}.
Definition set_tmps (t : list tsmfile) (s : state) : state :=
  {| sd := {| wal := wal (sd s); files := files (sd s); tmps := t |}; sv := sv s; g_hist := g_hist s |}.
Definition set_vol (v : vol) (s : state) : state := {| sd := sd s; sv := v; g_hist := g_hist s |}.
Definition add_hist (k : gkind) (o : gop) (s : state) : state :=
  {| sd := sd s; sv := sv s; g_hist := g_hist s ++ [(k, o)] |}.

Definition v_ph (x : phase) (v : vol) : vol :=
  {| ph := x; w_open := w_open v; w_id := w_id v; w_gap := w_gap v; w_nonempty := w_nonempty v; hot := hot v;
     snap := snap v; snapshotting := snapshotting v; snap_segs := snap_segs v; snap_keep := snap_keep v;
     sstage := sstage v; cur_gen := cur_gen v; cstage := cstage v; dstage := dstage v; pend := pend v; listed := listed v |}.
Definition v_writer (o : bool) (id gap : N) (ne : bool) (v : vol) : vol :=
  {| ph := ph v; w_open := o; w_id := id; w_gap := gap; w_nonempty := ne; hot := hot v;
     snap := snap v; snapshotting := snapshotting v; snap_segs := snap_segs v; snap_keep := snap_keep v;
     sstage := sstage v; cur_gen := cur_gen v; cstage := cstage v; dstage := dstage v; pend := pend v; listed := listed v |}.
Definition v_hot (x : kvs) (v : vol) : vol :=
  {| ph := ph v; w_open := w_open v; w_id := w_id v; w_gap := w_gap v; w_nonempty := w_nonempty v; hot := x;
     snap := snap v; snapshotting := snapshotting v; snap_segs := snap_segs v; snap_keep := snap_keep v;
     sstage := sstage v; cur_gen := cur_gen v; cstage := cstage v; dstage := dstage v; pend := pend v; listed := listed v |}.
Definition v_snap (x : kvs) (b : bool) (v : vol) : vol :=
  {| ph := ph v; w_open := w_open v; w_id := w_id v; w_gap := w_gap v; w_nonempty := w_nonempty v; hot := hot v;
     snap := x; snapshotting := b; snap_segs := snap_segs v; snap_keep := snap_keep v;
     sstage := sstage v; cur_gen := cur_gen v; cstage := cstage v; dstage := dstage v; pend := pend v; listed := listed v |}.
Definition v_segs (a b : list N) (v : vol) : vol :=
  {| ph := ph v; w_open := w_open v; w_id := w_id v; w_gap := w_gap v; w_nonempty := w_nonempty v; hot := hot v;
     snap := snap v; snapshotting := snapshotting v; snap_segs := a; snap_keep := b;
     sstage := sstage v; cur_gen := cur_gen v; cstage := cstage v; dstage := dstage v; pend := pend v; listed := listed v |}.
Definition v_sstage (x : snap_stage) (v : vol) : vol :=
  {| ph := ph v; w_open := w_open v; w_id := w_id v; w_gap := w_gap v; w_nonempty := w_nonempty v; hot := hot v;
     snap := snap v; snapshotting := snapshotting v; snap_segs := snap_segs v; snap_keep := snap_keep v;
     sstage := x; cur_gen := cur_gen v; cstage := cstage v; dstage := dstage v; pend := pend v; listed := listed v |}.
Definition v_gen (x : N) (v : vol) : vol :=
  {| ph := ph v; w_open := w_open v; w_id := w_id v; w_gap := w_gap v; w_nonempty := w_nonempty v; hot := hot v;
     snap := snap v; snapshotting := snapshotting v; snap_segs := snap_segs v; snap_keep := snap_keep v;
     sstage := sstage v; cur_gen := x; cstage := cstage v; dstage := dstage v; pend := pend v; listed := listed v |}.
Definition v_cstage (x : comp_stage) (v : vol) : vol :=
  {| ph := ph v; w_open := w_open v; w_id := w_id v; w_gap := w_gap v; w_nonempty := w_nonempty v; hot := hot v;
     snap := snap v; snapshotting := snapshotting v; snap_segs := snap_segs v; snap_keep := snap_keep v;
     sstage := sstage v; cur_gen := cur_gen v; cstage := x; dstage := dstage v; pend := pend v; listed := listed v |}.
Definition v_dstage (x : del_stage) (v : vol) : vol :=
  {| ph := ph v; w_open := w_open v; w_id := w_id v; w_gap := w_gap v; w_nonempty := w_nonempty v; hot := hot v;
     snap := snap v; snapshotting := snapshotting v; snap_segs := snap_segs v; snap_keep := snap_keep v;
     sstage := sstage v; cur_gen := cur_gen v; cstage := cstage v; dstage := x; pend := pend v; listed := listed v |}.
Definition v_pend (x : pending) (v : vol) : vol :=
  {| ph := ph v; w_open := w_open v; w_id := w_id v; w_gap := w_gap v; w_nonempty := w_nonempty v; hot := hot v;
     snap := snap v; snapshotting := snapshotting v; snap_segs := snap_segs v; snap_keep := snap_keep v;
     sstage := sstage v; cur_gen := cur_gen v; cstage := cstage v; dstage := dstage v; pend := x; listed := listed v |}.
Definition v_listed (x : list key) (v : vol) : vol :=
  {| ph := ph v; w_open := w_open v; w_id := w_id v; w_gap := w_gap v; w_nonempty := w_nonempty v; hot := hot v;
     snap := snap v; snapshotting := snapshotting v; snap_segs := snap_segs v; snap_keep := snap_keep v;
     sstage := sstage v; cur_gen := cur_gen v; cstage := cstage v; dstage := dstage v; pend := pend v; listed := x |}.

Definition upd (f : vol -> vol) (s : state) : state := set_vol (f (sv s)) s.

(* ---- WAL operations ---- *)

Fixpoint update_last {A} (g : A -> A) (l : list A) : list A :=
  match l with
  | [] => []
  | [x] => [g x]
  | x :: r => x :: update_last g r
  end.

Definition sync_seg (sg : segment) : segment :=
  {| sg_id := sg_id sg; sg_items := sg_items sg; sg_synced := length (sg_items sg) |}.

(* WAL.newSegmentFile: sync + close the current segment, create the next one *)
Definition new_segment (s : state) : state :=
  let v := sv s in
  let id := (w_id v + 1)%N in
  let w := if w_open v then update_last sync_seg (wal (sd s)) else wal (sd s) in
  set_wal (w ++ [{| sg_id := id; sg_items := []; sg_synced := 0 |}])
          (upd (v_writer true id 0%N false) s).

(* WALSegmentWriter.Write + bufio flush: the frame lands at the WRITER's offset *)
Definition append_entry (e : entry) (s : state) : state :=
  let s1 := if w_open (sv s) then s else new_segment s in
  let gap := w_gap (sv s1) in
  let add := (if N.eqb gap 0 then [] else [IJunk gap]) ++ [IEntry e] in
  set_wal (update_last (fun sg => {| sg_id := sg_id sg; sg_items := sg_items sg ++ add; sg_synced := sg_synced sg |})
                       (wal (sd s1)))
          (upd (v_writer true (w_id (sv s1)) 0%N true) s1).

Definition sync_wal (s : state) : state := set_wal (update_last sync_seg (wal (sd s))) s.

Definition seg_ids (w : list segment) : list N := map sg_id w.
Definition remove_seg (id : N) (w : list segment) : list segment :=
  filter (fun sg => negb (N.eqb (sg_id sg) id)) w.

(* WAL.ClosedSegments: every segment file except the current one *)
Definition closed_ids (s : state) : list N :=
  if w_open (sv s) then seg_ids (removelast (wal (sd s))) else seg_ids (wal (sd s)).

(* crash: the file keeps its synced items, [keep] further whole items and [torn] bytes of the next *)
Definition cut_seg (keep : nat) (torn : N) (sg : segment) : segment :=
  let n := (sg_synced sg + keep)%nat in
  let kept := firstn n (sg_items sg) in
  let tail := match skipn n (sg_items sg) with
              | _ :: _ => if N.eqb torn 0 then [] else [IJunk torn]
              | [] => []
              end in
  {| sg_id := sg_id sg; sg_items := kept ++ tail; sg_synced := length (kept ++ tail) |}.

(* CacheLoader.Load on one segment: truncate at the first bad frame *)
Definition truncate_seg (sg : segment) : segment :=
  let g := map IEntry (good_prefix (sg_items sg)) in
  {| sg_id := sg_id sg; sg_items := g; sg_synced := length g |}.

Definition last_dropped (w : list segment) : N :=
  match rev w with
  | sg :: _ => dropped_bytes (sg_items sg)
  | [] => 0%N
  end.

(* ---- index reconciliation at the end of deleteSeriesRange ---- *)
Definition series_kept (s : state) (dk : list key) (sr : key) : bool :=
  existsb (fun f => existsb (fun k => key_eqb (series_of k) sr && file_has_key f k) (kv_keys (f_data f))) (files (sd s))
  || existsb (fun k => key_eqb (series_of k) sr) (kv_keys (hot (sv s)))
  || existsb (fun k => key_eqb (series_of k) sr && negb (is_nil (cache_values {| c_snap := snap (sv s); c_hot := hot (sv s) |} k))) dk.

(* ---- applicability ---- *)
Definition is_up (s : state) : bool := match ph (sv s) with Up => true | _ => false end.
Definition no_pend (s : state) : bool := match pend (sv s) with PNone => true | _ => false end.
Definition d_idle (s : state) : bool := match dstage (sv s) with DIdle => true | _ => false end.
Definition c_idle (s : state) : bool := match cstage (sv s) with CIdle => true | _ => false end.
Definition pending_unsynced (s : state) : list item :=
  match rev (wal (sd s)) with
  | sg :: _ => skipn (sg_synced sg) (sg_items sg)
  | [] => []
  end.

(* while the WAL entry of a client operation is appended but not fsynced, the only things
   that can happen next are the fsync and a crash (one client operation at a time) *)
Definition pend_free (x : step) : bool := match x with WalSync | Crash _ _ => true | _ => false end.

Definition group_at (i n : nat) (fs : list tsmfile) : list tsmfile := firstn n (skipn i fs).

Definition step_ok0 (s : state) (x : step) : bool :=
  match x with
  | Write pts => is_up s && d_idle s && negb (is_nil pts)
  | WalSync => is_up s && negb (no_pend s)
  | RollSegment => is_up s
  | SnapBegin => is_up s && negb (snapshotting (sv s)) && match sstage (sv s) with SIdle => true | _ => false end
  | SnapWriteTmp => is_up s && match sstage (sv s) with SBegun => true | _ => false end
  | SnapFail => is_up s && match sstage (sv s) with SBegun | SWritten _ => true | _ => false end
  | SnapRename => is_up s && match sstage (sv s) with
                             | SWritten f => fits_between (files (sd s)) f []   (* NextGeneration is monotone *)
                             | _ => false
                             end
  | SnapClear => is_up s && match sstage (sv s) with SRenamed => true | _ => false end
  | SnapRemoveWAL => is_up s && match sstage (sv s) with SCleared => true | _ => false end
                     && match snap_segs (sv s), wal (sd s) with
                        | [], _ => true
                        | id :: _, sg :: r =>        (* segment file names are unique; the oldest goes first *)
                            N.eqb (sg_id sg) id && negb (existsb (N.eqb id) (seg_ids r))
                        | _ :: _, [] => false
                        end
  | CompactWriteTmp i n => is_up s && c_idle s && d_idle s && (1 <=? n)%nat && (i + n <=? length (files (sd s)))%nat
  | CompactAbort => is_up s && match cstage (sv s) with CWritten _ _ _ => true | _ => false end
  | ReplaceRename => is_up s && match cstage (sv s) with
                                | CWritten i n (Some f) =>
                                    (* the output is named after the group: it sorts right behind it *)
                                    fits_between (firstn (i + n) (files (sd s))) f (skipn (i + n) (files (sd s)))
                                | CWritten _ _ None => true
                                | _ => false
                                end
  | ReplaceRemove => is_up s && match cstage (sv s) with
                                | CReplacing i (id :: _) => match nth_error (files (sd s)) i with
                                                            | Some f => fid_eqb (fid f) id
                                                            | None => false
                                                            end
                                | CReplacing _ [] => true
                                | _ => false
                                end
  | DeleteBegin ss lo hi => is_up s && d_idle s && negb (is_nil ss)
                            && match cstage (sv s) with CReplacing _ _ => false | _ => true end
  | DeleteTombstone i => is_up s && match dstage (sv s) with
                                    | DTomb _ _ _ todo => match nth_error (files (sd s)) i with
                                                          | Some f => existsb (fid_eqb (fid f)) todo
                                                          | None => false
                                                          end
                                    | _ => false
                                    end
  | DeleteCache => is_up s && match dstage (sv s) with DTomb _ _ _ [] => true | _ => false end
  | DeleteIndex => is_up s && match dstage (sv s) with DIndexing _ _ _ _ => true | _ => false end
  | Crash keep torn => (keep <=? length (pending_unsynced s))%nat
  | OpenCleanup => match ph (sv s) with Down => true | _ => false end
  | OpenWAL => match ph (sv s) with O1 => true | _ => false end
  | OpenFiles => match ph (sv s) with O2 => true | _ => false end
  | OpenLoad => match ph (sv s) with O3 => true | _ => false end
  end.

Definition step_ok (s : state) (x : step) : bool := (pend_free x || no_pend s) && step_ok0 s x.

(* ---- the transition ---- *)
Definition do_step (c : cfg) (s : state) (x : step) : state :=
  let v := sv s in
  match x with
  | Write pts =>
      let s1 := upd (fun v => v_listed (fold_left (fun acc p => add_key (series_of (fst p)) acc) pts (listed v))
                                       (v_hot (kv_write pts (hot v)) v)) s in
      upd (v_pend (PWrite pts)) (append_entry (EWrite pts) s1)
  | WalSync =>
      let s1 := upd (v_pend PNone) (sync_wal s) in
      match pend v with
      | PWrite pts => add_hist KAck (GWrite pts) s1
      | PDelete => match dstage v with
                   | DWal ss lo hi dk => upd (v_dstage (DIndexing ss lo hi dk)) s1
                   | _ => s1
                   end
      | PNone => s1
      end
  | RollSegment => new_segment s
  | SnapBegin =>
      (* WAL.CloseSegment *)
      let s1 := if negb (w_open v) || w_nonempty v then new_segment s else s in
      let closed := closed_ids s1 in
      (* Cache.Snapshot *)
      if is_nil (snap v) then
        if is_nil (hot v) then upd (v_segs [] []) s1                      (* empty snapshot: ClearSnapshot(true) *)
        else upd (fun v => v_sstage SBegun (v_segs closed closed (v_snap (hot v) true (v_hot [] v)))) s1
      else
        (* a snapshot retained after a failed flush is returned again *)
        let segs := if fix_snapsegs c then snap_keep v else closed in
        upd (fun v => v_sstage SBegun (v_segs segs (snap_keep v) (v_snap (snap v) true v))) s1
  | SnapWriteTmp =>
      let g := (cur_gen v + 1)%N in
      let f := snap_file g (snap v) in
      set_tmps (tmps (sd s) ++ [f]) (upd (fun v => v_sstage (SWritten f) (v_gen g v)) s)
  | SnapFail => upd (fun v => v_sstage SIdle (v_snap (snap v) false v)) s      (* ClearSnapshot(false) *)
  | SnapRename =>
      match sstage v with
      | SWritten f =>
          set_tmps (remove_file (fid f) (tmps (sd s)))
                   (set_files (insert_file f (files (sd s))) (upd (v_sstage SRenamed) s))
      | _ => s
      end
  | SnapClear => upd (fun v => v_sstage SCleared (v_snap [] false v)) s         (* ClearSnapshot(true) *)
  | SnapRemoveWAL =>
      match snap_segs v with
      | [] => upd (v_sstage SIdle) s
      | id :: r => set_wal (remove_seg id (wal (sd s))) (upd (fun v => v_segs r (snap_keep v) v) s)
      end
  | CompactWriteTmp i n =>
      let out := compact_out (group_at i n (files (sd s))) in
      set_tmps (tmps (sd s) ++ match out with Some f => [f] | None => [] end)
               (upd (v_cstage (CWritten i n out)) s)
  | CompactAbort => upd (v_cstage CIdle) s
  | ReplaceRename =>
      match cstage v with
      | CWritten i n out =>
          let s1 := upd (v_cstage (CReplacing i (map fid (group_at i n (files (sd s)))))) s in
          match out with
          | Some f => set_tmps (remove_file (fid f) (tmps (sd s))) (set_files (insert_file f (files (sd s))) s1)
          | None => s1
          end
      | _ => s
      end
  | ReplaceRemove =>
      match cstage v with
      | CReplacing i (id :: r) => set_files (remove_nth i (files (sd s))) (upd (v_cstage (CReplacing i r)) s)
      | CReplacing _ [] => upd (v_cstage CIdle) s
      | _ => s
      end
  | DeleteBegin ss lo hi =>
      (* disableLevelCompactions(true): a compaction that has not started its Replace is aborted *)
      let s1 := upd (v_cstage CIdle) s in
      if existsb (file_overlaps lo hi) (files (sd s)) || negb (is_nil (hot v))
      then upd (v_dstage (DTomb ss lo hi (map fid (files (sd s))))) s1
      else add_hist KAck (GDelete ss lo hi) s1                                   (* early return nil *)
  | DeleteTombstone i =>
      match dstage v, nth_error (files (sd s)) i with
      | DTomb ss lo hi todo, Some f =>
          set_files (update_nth i (tombstone_file ss lo hi) (files (sd s)))
                    (upd (v_dstage (DTomb ss lo hi (filter (fun id => negb (fid_eqb id (fid f))) todo))) s)
      | _, _ => s
      end
  | DeleteCache =>
      match dstage v with
      | DTomb ss lo hi _ =>
          let dk := filter (sel ss) (kv_keys (hot v)) in
          let s1 := upd (v_hot (kv_delrange dk lo hi (hot v))) s in
          if is_nil dk then upd (v_dstage (DIndexing ss lo hi dk)) s1             (* WAL.DeleteRange: no keys, no entry *)
          else upd (fun v => v_pend PDelete (v_dstage (DWal ss lo hi dk) v)) (append_entry (EDelRange dk lo hi) s1)
      | _ => s
      end
  | DeleteIndex =>
      match dstage v with
      | DIndexing ss lo hi dk =>
          add_hist KAck (GDelete ss lo hi)
            (upd (fun v => v_dstage DIdle (v_listed (filter (fun sr => negb (kmem sr ss) || series_kept s dk sr) (listed v)) v)) s)
      | _ => s
      end
  | Crash keep torn =>
      let survived := existsb is_entry (firstn keep (pending_unsynced s)) in
      let w := update_last (cut_seg keep torn) (wal (sd s)) in
      let s1 := {| sd := {| wal := w; files := files (sd s); tmps := tmps (sd s) |}; sv := vol0; g_hist := g_hist s |} in
      match pend v, dstage v with
      | PWrite pts, _ => if survived then add_hist KSurvived (GWrite pts) s1 else s1
      | _, DWal ss lo hi _ => add_hist (if survived then KSurvived else KMaybe) (GDelete ss lo hi) s1
      | _, DTomb ss lo hi _ => add_hist KMaybe (GDelete ss lo hi) s1
      | _, DIndexing ss lo hi _ => add_hist KSurvived (GDelete ss lo hi) s1
      | _, DIdle => s1
      end
  | OpenCleanup => set_tmps [] (upd (v_ph O1) s)                                 (* Engine.cleanup *)
  | OpenWAL =>
      (* WAL.Open: an empty last segment is removed; otherwise the writer is positioned at its end *)
      match rev (wal (sd s)) with
      | [] => upd (v_ph O2) s
      | sg :: _ =>
          if is_nil (sg_items sg)
          then set_wal (removelast (wal (sd s))) (upd (fun v => v_ph O2 (v_writer false (sg_id sg) 0%N false v)) s)
          else upd (fun v => v_ph O2 (v_writer true (sg_id sg) 0%N true v)) s
      end
  | OpenFiles => upd (fun v => v_ph O3 (v_gen (open_gen (files (sd s))) v)) s   (* FileStore.Open *)
  | OpenLoad =>
      (* reloadCache = CacheLoader.Load over all segment files, then LoadMetadataIndex *)
      let es := wal_entries (wal (sd s)) in
      let gap := if fix_woff c then 0%N else if w_open v then last_dropped (wal (sd s)) else 0%N in
      let h := replay es [] in
      set_wal (map truncate_seg (wal (sd s)))
              (upd (fun v => v_ph Up (v_listed (rebuild_listed (files (sd s)) h)
                                               (v_hot h (v_writer (w_open v) (w_id v) gap (w_nonempty v) v)))) s)
  end.

Definition step_fn (c : cfg) (s : state) (x : step) : state := if step_ok s x then do_step c s x else s.

Definition run (c : cfg) (h : list step) (s : state) : state := fold_left (step_fn c) h s.

(* every step of the history was applicable when it was taken *)
Fixpoint run_ok (c : cfg) (h : list step) (s : state) : bool :=
  match h with
  | [] => true
  | x :: r => step_ok s x && run_ok c r (step_fn c s x)
  end.

(* recovery as a step sequence *)
Definition open_steps : list step := [OpenCleanup; OpenWAL; OpenFiles; OpenLoad].

(* ---------- observables ---------- *)
Definition eng_cache (s : state) : cache := {| c_snap := snap (sv s); c_hot := hot (sv s) |}.
Definition eng_read_all (s : state) (k : key) : list tv := read_all (files (sd s)) (eng_cache s) k.
Definition eng_read (s : state) (k : key) (lo hi : Z) (asc : bool) : list tv :=
  read (files (sd s)) (eng_cache s) k lo hi asc.

(* ---------- the pointwise meaning of a ghost history ---------- *)
Definition gapply (k : key) (t : Z) (cur : option value) (o : gop) : option value :=
  match o with
  | GWrite pts => match lookup_last t (batch_values k pts) with Some v => Some v | None => cur end
  | GDelete ss lo hi => if sel ss k && ((lo <=? t) && (t <=? hi)) then None else cur
  end.
Definition glww (h : list gop) (k : key) (t : Z) : option value := fold_left (gapply k t) h None.

(* ghost history with selections turned into explicit key lists over a key universe U:
   the form Shard/Spec.v speaks about *)
Definition conc (U : list key) (o : gop) : op :=
  match o with
  | GWrite pts => OWrite pts
  | GDelete ss lo hi => ODelete (filter (sel ss) U) lo hi
  end.

Definition acked (s : state) : list gop :=
  flat_map (fun e => match fst e with KAck => [snd e] | _ => [] end) (g_hist s).
(* operations whose effects are complete: acknowledged, or in flight at a crash and fully durable *)
Definition effective (s : state) : list gop :=
  flat_map (fun e => match fst e with KMaybe => [] | _ => [snd e] end) (g_hist s).
(* is (k, t) inside a delete that a crash cut short *)
Definition maybe_deleted (s : state) (k : key) (t : Z) : bool :=
  existsb (fun e => match e with
                    | (KMaybe, GDelete ss lo hi) => sel ss k && ((lo <=? t) && (t <=? hi))
                    | _ => false
                    end) (g_hist s).

(* ---------- the history shape excluded by C10's permanence theorem ---------- *)

(* does the store hold a point of a selected series inside [lo, hi] *)
Definition kvs_hit (ss : list key) (lo hi : Z) (m : kvs) : bool :=
  existsb (fun kv => sel ss (fst kv) && existsb (in_range lo hi) (snd kv)) m.

(* what the cache snapshot in flight (or retained, or installed but with its WAL segments not
   yet removed) holds: the replay of the segments it covers *)
Definition snap_content (s : state) : kvs :=
  replay (wal_entries (firstn (length (snap_segs (sv s))) (wal (sd s)))) [].

(* a delete of (ss, [lo, hi]) is running while an in-flight snapshot holds matching points *)
Definition delete_hits_snapshot (s : state) : bool :=
  match dstage (sv s) with
  | DTomb ss lo hi _ => kvs_hit ss lo hi (snap_content s)
  | _ => false
  end.

(* the step does not produce that shape *)
Definition clean_step (c : cfg) (s : state) (x : step) : bool :=
  match x with
  | DeleteBegin ss lo hi => negb (kvs_hit ss lo hi (snap_content s))
  | _ => true
  end && negb (delete_hits_snapshot (step_fn c s x)).

Fixpoint run_clean (c : cfg) (h : list step) (s : state) : bool :=
  match h with
  | [] => true
  | x :: r => clean_step c s x && run_clean c r (step_fn c s x)
  end.

(* ---------- Engine.snapshotMu: deletes and cache snapshots exclude each other ---------- *)

(* WriteSnapshot holds snapshotMu from Cache.Snapshot until the WAL segments of the snapshot
   are removed; deleteSeriesRange holds it from its first statement to its last, and first
   writes out a snapshot the cache retained after a failed flush (or gives up with that
   flush's error).  In terms of steps: a delete begins only when no snapshot is in flight or
   retained, and a snapshot begins only when no delete is running. *)
Definition snap_idle (s : state) : bool := match sstage (sv s) with SIdle => true | _ => false end.
Definition snap_retained (s : state) : bool := snap_idle s && negb (is_nil (snap (sv s))).

Definition mu_ok (s : state) (x : step) : bool :=
  match x with
  | DeleteBegin _ _ _ => snap_idle s && is_nil (snap (sv s))
  | SnapBegin => d_idle s
  | _ => true
  end.

(* every step of the history respects the mutual exclusion (a listed step that is not
   applicable is a no-op of [run]; listing it where the mutex would hold it back is excluded too) *)
Fixpoint run_mu (c : cfg) (h : list step) (s : state) : bool :=
  match h with
  | [] => true
  | x :: r => mu_ok s x && run_mu c r (step_fn c s x)
  end.
