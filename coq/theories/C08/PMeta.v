(* C08/PMeta.v — lemmas about Data.CreateShardGroup / Client.CreateShardGroup: the group
   returned accepts the timestamp, existing groups are untouched, and the metadata invariant
   (well-formed groups, no time accepted by two live groups) is preserved. *)
From Coq Require Import Permutation.
From Verif Require Import Lib.Bytes C08.Model C08.Spec C08.PSga.
From VerifGen Require Import Consts.
From Coq Require Import ZifyBool ZifyNat ZifyN.
Open Scope Z_scope.

(* ---------- shardN loop: fuel suffices ---------- *)
Lemma shard_n_loop_ok r n : (0 < n)%N ->
  forall fuel k, (1 <= k)%N -> (k <= n)%N -> (n < k + N.of_nat fuel)%N ->
  exists k', shard_n_loop fuel k r n = Ok k' /\ (1 <= k')%N.
Proof.
  intros Hn fuel. induction fuel as [|f IH]; intros k Hk1 Hkn Hf; [lia|].
  cbn [shard_n_loop]. destruct ((k * r) mod n =? 0)%N eqn:E.
  - exists k. split; [reflexivity|exact Hk1].
  - assert (k <> n).
    { intros ->. rewrite N.mul_comm, N.mod_mul in E by lia. discriminate. }
    apply IH; lia.
Qed.

Lemma shard_n_ok rp n : (0 < n)%N -> exists k, shard_n rp n = Ok k /\ (1 <= k)%N.
Proof. intros Hn. unfold shard_n. apply shard_n_loop_ok; lia. Qed.

Lemma seqN_length from n : length (seqN from n) = n.
Proof. revert from; induction n as [|n IH]; intros from; cbn [seqN length]; [reflexivity|]. rewrite IH. reflexivity. Qed.

(* ---------- the shrink loop ---------- *)
Lemma shrink_step t s e g s1 e1 :
  shrink t (s, e) g = (s1, e1) ->
  s <= s1 /\ e1 <= e /\ (s <= t -> s1 <= t) /\ (t < e -> t < e1) /\
  (g_deleted g = false -> (less_key g <= t \/ t < g_start g) -> (less_key g <= s1 \/ e1 <= g_start g)).
Proof.
  unfold shrink. destruct (g_deleted g) eqn:Ed.
  - intros H. inversion H; subst. repeat split; try lia; try congruence.
  - cbn [fst snd]. intros H. inversion H; subst; clear H.
    destruct ((less_key g <=? t) && (s <? less_key g)) eqn:E1;
      destruct ((t <? g_start g) && (g_start g <? e)) eqn:E2; repeat split; try lia.
Qed.

Lemma shrink_fold t gs : forall s e s' e',
  fold_left (shrink t) gs (s, e) = (s', e') ->
  s <= s' /\ e' <= e /\ (s <= t -> s' <= t) /\ (t < e -> t < e') /\
  (forall g, In g gs -> g_deleted g = false -> (less_key g <= t \/ t < g_start g) ->
             (less_key g <= s' \/ e' <= g_start g)).
Proof.
  induction gs as [|g gs IH]; intros s e s' e' H; cbn [fold_left] in H.
  - inversion H; subst. repeat split; try lia. intros g [].
  - destruct (shrink t (s, e) g) as [s1 e1] eqn:Es.
    apply shrink_step in Es. destruct Es as (A1 & A2 & A3 & A4 & A5).
    apply IH in H. destruct H as (B1 & B2 & B3 & B4 & B5).
    repeat split; try lia.
    intros g0 [<-|Hin] Hd Hc.
    + specialize (A5 Hd Hc). lia.
    + apply B5; assumption.
Qed.

(* ---------- filter / permutation ---------- *)
Lemma filter_perm {A} (f : A -> bool) l l' : Permutation l l' -> Permutation (filter f l) (filter f l').
Proof.
  induction 1 as [|x l l' H IH|x y l|l l' l'' H1 IH1 H2 IH2]; cbn [filter].
  - apply perm_nil.
  - destruct (f x); [apply perm_skip|]; exact IH.
  - destruct (f x); destruct (f y); try apply Permutation_refl. apply perm_swap.
  - eapply Permutation_trans; eassumption.
Qed.

Lemma uniq_cover_perm l l' : Permutation l l' -> uniq_cover l -> uniq_cover l'.
Proof.
  intros Hp Hu t. specialize (Hu t).
  rewrite <- (Permutation_length (filter_perm (live_covers t) _ _ Hp)). exact Hu.
Qed.

Lemma forallb_perm {A} (f : A -> bool) l l' : Permutation l l' -> forallb f l = true -> forallb f l' = true.
Proof.
  intros Hp H. apply forallb_forall. intros x Hx. rewrite forallb_forall in H. apply H.
  eapply Permutation_in; [apply Permutation_sym; exact Hp|exact Hx].
Qed.

(* under the invariant, two groups of the metadata accepting the same time are the same *)
Lemma uniq_cover_eq gs t g1 g2 :
  uniq_cover gs -> In g1 gs -> In g2 gs -> live_covers t g1 = true -> live_covers t g2 = true -> g1 = g2.
Proof.
  intros Hu H1 H2 C1 C2. specialize (Hu t).
  assert (I1 : In g1 (filter (live_covers t) gs)) by (apply filter_In; auto).
  assert (I2 : In g2 (filter (live_covers t) gs)) by (apply filter_In; auto).
  destruct (filter (live_covers t) gs) as [|x [|y r]]; cbn [length] in Hu.
  - contradiction.
  - destruct I1 as [<-|[]]. destruct I2 as [<-|[]]. reflexivity.
  - lia.
Qed.

Lemma designated_unique gs t g :
  uniq_cover gs -> In g gs -> live_covers t g = true -> designated gs t = Some g.
Proof.
  intros Hu Hin Hc. unfold designated. pose proof (Hu t) as Hl.
  assert (I : In g (filter (live_covers t) gs)) by (apply filter_In; auto).
  destruct (filter (live_covers t) gs) as [|x [|y r]]; cbn [length] in Hl.
  - contradiction.
  - destruct I as [<-|[]]. reflexivity.
  - lia.
Qed.

Lemma designated_some gs t g : designated gs t = Some g -> In g gs /\ live_covers t g = true.
Proof.
  unfold designated. destruct (filter (live_covers t) gs) as [|x [|y r]] eqn:E; try discriminate.
  intros H. inversion H; subst x. apply filter_In. rewrite E. left. reflexivity.
Qed.

(* ---------- by_timestamp ---------- *)
Lemma by_timestamp_some gs t g : by_timestamp gs t = Some g -> In g gs /\ live_covers t g = true.
Proof.
  unfold by_timestamp. intros H. apply find_some in H. rewrite by_ts_pred_live in H. exact H.
Qed.

Lemma by_timestamp_none gs t : by_timestamp gs t = None -> forall g, In g gs -> live_covers t g = false.
Proof.
  unfold by_timestamp. intros H g Hin. rewrite <- by_ts_pred_live. exact (find_none _ _ H g Hin).
Qed.

Lemma by_timestamp_exists gs t g : In g gs -> live_covers t g = true -> exists g', by_timestamp gs t = Some g'.
Proof.
  intros Hin Hc. destruct (by_timestamp gs t) as [g'|] eqn:E; [eexists; reflexivity|].
  rewrite (by_timestamp_none _ _ E g Hin) in Hc. discriminate.
Qed.

(* ---------- Data.CreateShardGroup ---------- *)

(* conditions under which creation for timestamp t is within contract *)
Definition create_ok (rp : policy) (m : meta) (t : Z) : Prop :=
  (0 < m_nodes m)%N /\ 0 < rp_sd rp < 9223372036854775808 /\
  c08_min_nano_time <= t <= c08_max_nano_time.

Lemma min_nano_far : 9223372036854775808 <= c08_min_nano_time - zero_time.
Proof. unfold c08_min_nano_time, zero_time. lia. Qed.

Lemma min_int64_below : min_int64 < c08_min_nano_time /\ zero_time < min_int64.
Proof. unfold min_int64, c08_min_nano_time, zero_time. lia. Qed.

Lemma truncate_bounds t d : 0 < d < 9223372036854775808 -> c08_min_nano_time <= t ->
  zero_time < truncate t d /\ truncate t d <= t /\ t < truncate t d + d.
Proof.
  intros Hd Ht. unfold truncate. destruct (d <=? 0) eqn:E; [lia|].
  pose proof (Z.mod_pos_bound (t - zero_time) d ltac:(lia)) as Hm.
  pose proof min_nano_far. lia.
Qed.

Lemma data_create_inv rp m t m' :
  data_create rp m t = Ok m' -> (0 < m_nodes m)%N -> by_timestamp (m_groups m) t = None ->
  exists shardN se,
    shard_n rp (m_nodes m) = Ok shardN /\
    se = fold_left (shrink t) (m_groups m)
           ((if truncate t (rp_sd rp) <? min_int64 then min_int64 else truncate t (rp_sd rp)),
            if c08_max_nano_time <? truncate t (rp_sd rp) + rp_sd rp then c08_max_nano_time + 1
            else truncate t (rp_sd rp) + rp_sd rp) /\
    m' = mkM (isort (m_groups m ++ [mkG (m_maxsg m + 1)%N (fst se) (snd se) false None
                                        (seqN (m_maxsh m + 1)%N (N.to_nat shardN))]))
             (m_maxsg m + 1)%N (m_maxsh m + shardN)%N (m_nodes m).
Proof.
  intros H Hn Hb. unfold data_create in H.
  destruct (m_nodes m =? 0)%N eqn:E0; [lia|]. rewrite Hb in H.
  destruct (shard_n rp (m_nodes m)) as [k| | |] eqn:Ek; cbn [bind] in H; try discriminate.
  inversion H; subst m'. exists k. eexists. split; [reflexivity|]. split; reflexivity.
Qed.

Lemma data_create_total rp m t : (0 < m_nodes m)%N -> exists m', data_create rp m t = Ok m'.
Proof.
  intros Hn. unfold data_create. destruct (m_nodes m =? 0)%N; [eexists; reflexivity|].
  destruct (by_timestamp (m_groups m) t); [eexists; reflexivity|].
  destruct (shard_n_ok rp (m_nodes m) Hn) as (k & -> & _). cbn [bind]. eexists; reflexivity.
Qed.

(* the main lemma about group creation *)
Lemma client_create_spec rp m t m' og :
  meta_ok m -> create_ok rp m t -> client_create rp m t = Ok (m', og) ->
  meta_ok m' /\ incl (m_groups m) (m_groups m') /\ m_nodes m' = m_nodes m /\
  exists g, og = Some g /\ In g (m_groups m') /\ live_covers t g = true.
Proof.
  intros [Hwf Hu] (Hn & Hsd & Ht) H. unfold client_create in H.
  destruct (by_timestamp (m_groups m) t) as [g|] eqn:Eb.
  - inversion H; subst m' og. apply by_timestamp_some in Eb.
    split; [split; assumption|]. split; [apply incl_refl|]. split; [reflexivity|].
    exists g. tauto.
  - destruct (data_create rp m t) as [m1| | |] eqn:Ed; cbn [bind] in H; try discriminate.
    inversion H; subst m' og; clear H.
    destruct (data_create_inv _ _ _ _ Ed Hn Eb) as (k & se & Hk & Hse & ->).
    destruct (shard_n_ok rp (m_nodes m) Hn) as (k' & Hk' & Hk1). rewrite Hk in Hk'. inversion Hk'; subst k'.
    destruct se as [s' e']. symmetry in Hse. apply shrink_fold in Hse.
    destruct Hse as (S1 & S2 & S3 & S4 & S5). cbn [fst snd m_groups m_nodes] in *.
    destruct (truncate_bounds t (rp_sd rp) Hsd ltac:(lia)) as (T1 & T2 & T3).
    assert (Hte : t < e').
    { apply S4. destruct (c08_max_nano_time <? truncate t (rp_sd rp) + rp_sd rp) eqn:E; lia. }
    pose proof min_int64_below as [Hmi1 Hmi2].
    assert (Hst : s' <= t).
    { apply S3. destruct (truncate t (rp_sd rp) <? min_int64) eqn:E; lia. }
    assert (Hs0 : zero_time < s').
    { destruct (truncate t (rp_sd rp) <? min_int64) eqn:E; lia. }
    pose proof min_nano_far as Hfar.
    set (g := mkG (m_maxsg m + 1)%N s' e' false None (seqN (m_maxsh m + 1)%N (N.to_nat k))).
    assert (Hgwf : wf_group g = true).
    { unfold wf_group, g. cbn [g_start g_end g_shards g_trunc]. rewrite seqN_length.
      assert (N.to_nat k <> 0)%nat by lia.
      destruct (N.to_nat k =? 0)%nat eqn:E; [apply Nat.eqb_eq in E; contradiction|].
      unfold zero_time in *. lia. }
    assert (Hgc : live_covers t g = true).
    { unfold live_covers, g. cbn [g_start g_end g_deleted g_trunc]. lia. }
    assert (Hperm : Permutation (isort (m_groups m ++ [g])) (m_groups m ++ [g])) by apply isort_perm.
    split; [split|].
    + (* well-formedness *)
      eapply forallb_perm; [apply Permutation_sym; exact Hperm|].
      rewrite forallb_app. rewrite Hwf. cbn [forallb]. rewrite Hgwf. reflexivity.
    + (* no time accepted by two live groups *)
      eapply uniq_cover_perm; [apply Permutation_sym; exact Hperm|].
      intros t'. rewrite filter_app, app_length. cbn [filter].
      destruct (live_covers t' g) eqn:Ec; cbn [length]; [|specialize (Hu t'); lia].
      assert (Hnone : filter (live_covers t') (m_groups m) = []).
      { destruct (filter (live_covers t') (m_groups m)) as [|x r] eqn:Ef; [reflexivity|exfalso].
        assert (Hx : In x (m_groups m) /\ live_covers t' x = true).
        { apply filter_In. rewrite Ef. left; reflexivity. }
        destruct Hx as [Hxin Hxc].
        pose proof (by_timestamp_none _ _ Eb x Hxin) as Hxt.
        assert (Hxwf : wf_group x = true) by (rewrite forallb_forall in Hwf; apply Hwf; exact Hxin).
        rewrite live_covers_eff in Hxc, Hxt. unfold eff_covers in Hxc, Hxt.
        rewrite (eff_end_wf _ Hxwf) in Hxc, Hxt.
        destruct (g_deleted x) eqn:Edx; cbn [negb andb] in Hxc, Hxt; [discriminate|].
        assert (Hside : less_key x <= t \/ t < g_start x) by lia.
        specialize (S5 x Hxin Edx Hside).
        unfold live_covers, g in Ec. cbn [g_start g_end g_deleted g_trunc] in Ec. lia. }
      rewrite Hnone. cbn [length]. lia.
    + split; [|split; [reflexivity|]].
      * intros x Hx. apply isort_in. apply in_or_app. left. exact Hx.
      * assert (Hgin : In g (isort (m_groups m ++ [g]))).
        { apply isort_in. apply in_or_app. right. left. reflexivity. }
        destruct (by_timestamp_exists _ _ _ Hgin Hgc) as [g' Hg']. rewrite Hg'.
        exists g'. split; [reflexivity|]. apply by_timestamp_some. exact Hg'.
Qed.

Lemma client_create_total rp m t : (0 < m_nodes m)%N -> exists r, client_create rp m t = Ok r.
Proof.
  intros Hn. unfold client_create. destruct (by_timestamp (m_groups m) t); [eexists; reflexivity|].
  destruct (data_create_total rp m t Hn) as [m' ->]. cbn [bind]. eexists; reflexivity.
Qed.

(* when the timestamp already has a designated group nothing is created *)
Lemma client_create_existing rp m t g :
  by_timestamp (m_groups m) t = Some g -> client_create rp m t = Ok (m, Some g).
Proof. intros H. unfold client_create. rewrite H. reflexivity. Qed.

(* executable invariant implies the invariant *)
Lemma pairwise_uniq gs : pairwise eff_disjoint gs = true -> uniq_cover gs.
Proof.
  induction gs as [|a r IH]; intros H t; cbn [filter length]; [lia|].
  cbn [pairwise] in H. apply andb_true_iff in H. destruct H as [Ha Hr].
  specialize (IH Hr t). destruct (live_covers t a) eqn:Ea; [|exact IH].
  cbn [length].
  assert (Hnone : filter (live_covers t) r = []).
  { destruct (filter (live_covers t) r) as [|x r'] eqn:Ef; [reflexivity|exfalso].
    assert (Hx : In x r /\ live_covers t x = true) by (apply filter_In; rewrite Ef; left; reflexivity).
    destruct Hx as [Hxin Hxc]. rewrite forallb_forall in Ha. specialize (Ha x Hxin).
    rewrite live_covers_eff in Ea, Hxc. unfold eff_covers, eff_disjoint in *.
    destruct (g_deleted a); destruct (g_deleted x); cbn [negb andb orb] in *; try discriminate. lia. }
  rewrite Hnone. cbn [length]. lia.
Qed.

Lemma meta_ok_b_ok m : meta_ok_b m = true -> meta_ok m.
Proof.
  unfold meta_ok_b, meta_ok. intros H. apply andb_true_iff in H. destruct H as [H1 H2].
  split; [exact H1|apply pairwise_uniq; exact H2].
Qed.
