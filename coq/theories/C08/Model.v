(* C08/Model.v — executable model of point -> shard routing.
   Mirrors coordinator/points_writer.go (MapShards, sgList.Add/Covers/ShardGroupAt,
   effectiveEnd, ShardMapping.MapPoint), services/meta/data.go (ShardGroupInfo.Contains/
   Deleted/Truncated/ShardFor, ShardGroupInfos.Less, RetentionPolicyInfo.ShardGroupByTimestamp,
   Data.CreateShardGroup), services/meta/client.go (Client.CreateShardGroup minus the raft
   round trip) and models/inline_fnv.go + point.HashID.
   Times are Z nanoseconds since the Unix epoch (time.Time never wraps in the ranges used:
   see trusted base).  Definitions only; proofs are in Proofs.v. *)
From Verif Require Export Lib.Bytes.
From VerifGen Require Import Consts.
Open Scope Z_scope.

(* ---------- outcomes ---------- *)
(* [Err] = MapShards returned an error ("nil shard group"), [Crash] = a Go panic (index out of
   range, integer divide by zero), [Fuel] = a fuel-bounded loop of the model ran out (proved
   impossible in Proofs.v). *)
Inductive res (A : Type) := Ok (a : A) | Err | Crash | Fuel.
Arguments Ok {A} a. Arguments Err {A}. Arguments Crash {A}. Arguments Fuel {A}.

Definition bind {A B} (r : res A) (f : A -> res B) : res B :=
  match r with Ok a => f a | Err => Err | Crash => Crash | Fuel => Fuel end.

(* ---------- metadata ---------- *)

(* the zero time.Time (January 1, year 1 UTC) in Unix nanoseconds: IsZero() *)
Definition zero_time : Z := -62135596800000000000.
Definition is_zero (t : Z) : bool := t =? zero_time.

(* ShardGroupInfo: DeletedAt is observed only through Deleted(); TruncatedAt = None is the
   zero time (Truncated() = false); a shard is its ID (owners play no role in routing). *)
Record group := mkG { g_id : N; g_start : Z; g_end : Z; g_deleted : bool;
                      g_trunc : option Z; g_shards : list N }.

Record point := mkP { p_key : list N; p_time : Z }.

(* the part of meta.Data that Data.CreateShardGroup reads and writes for one policy *)
Record meta := mkM { m_groups : list group; m_maxsg : N; m_maxsh : N; m_nodes : N }.

(* RetentionPolicyInfo: Duration, ShardGroupDuration, ReplicaN *)
Record policy := mkRP { rp_duration : Z; rp_sd : Z; rp_replica : N }.

(* ShardGroupInfo.Contains: !t.Before(Start) && t.Before(End) *)
Definition contains (g : group) (t : Z) : bool := (g_start g <=? t) && (t <? g_end g).

(* ShardGroupInfos.Less: the end used for ordering is TruncatedAt when truncated *)
Definition less_key (g : group) : Z := match g_trunc g with Some ta => ta | None => g_end g end.
Definition less (a b : group) : bool :=
  if less_key a =? less_key b then g_start a <? g_start b else less_key a <? less_key b.

(* sort.Sort(ShardGroupInfos): any correct sort yields the same list when no two elements
   tie under Less (ties are excluded by the metadata invariant / not generated); modelled by
   a stable insertion sort. *)
Fixpoint insert (x : group) (l : list group) : list group :=
  match l with
  | [] => [x]
  | h :: r => if less h x then h :: insert x r else x :: h :: r
  end.
Definition isort (l : list group) : list group := fold_right insert [] l.

(* RetentionPolicyInfo.ShardGroupByTimestamp: first group with
   Contains(t) && !Deleted() && (!Truncated() || t.Before(TruncatedAt)) *)
Definition by_ts_pred (t : Z) (g : group) : bool :=
  contains g t && negb (g_deleted g) &&
  match g_trunc g with None => true | Some ta => t <? ta end.
Definition by_timestamp (gs : list group) (t : Z) : option group := find (by_ts_pred t) gs.

(* ---------- series key hash: InlineFNV64a over point.key, uint64 arithmetic ---------- *)
Definition two64 : N := 18446744073709551616%N.
Definition fnv64a (key : list N) : N :=
  fold_left (fun h c => ((N.lxor h c) * c08_fnv_prime64) mod two64)%N key c08_fnv_offset64.

(* ShardGroupInfo.ShardFor: Shards[0] when there is one shard, else
   Shards[HashID % len(Shards)] (len = 0: integer divide by zero panic) *)
Definition shard_for (g : group) (key : list N) : res N :=
  match g_shards g with
  | [s] => Ok s
  | shs =>
      let n := N.of_nat (length shs) in
      if (n =? 0)%N then Crash
      else match nth_error shs (N.to_nat (fnv64a key mod n)%N) with
           | Some s => Ok s
           | None => Crash
           end
  end.

(* ---------- Data.CreateShardGroup ---------- *)

(* time.Time.Truncate(d): d <= 0 returns t; else round down to a multiple of d since the
   zero time *)
Definition truncate (t d : Z) : Z := if d <=? 0 then t else t - ((t - zero_time) mod d).

(* math.MinInt64 as Unix nanoseconds (= MinNanoTime - 2, checked in PMeta.min_int64_below) *)
Definition min_int64 : Z := -9223372036854775808.

(* shardN := 1; for shardN*replicaN % len(nodes) != 0 { shardN++ } *)
Fixpoint shard_n_loop (fuel : nat) (k replica nodes : N) : res N :=
  match fuel with
  | O => Fuel
  | S f => if ((k * replica) mod nodes =? 0)%N then Ok k else shard_n_loop f (k + 1)%N replica nodes
  end.
Definition replica_n (rp : policy) (nodes : N) : N :=
  if (rp_replica rp =? 0)%N then 1%N
  else if (nodes <? rp_replica rp)%N then nodes else rp_replica rp.
Definition shard_n (rp : policy) (nodes : N) : res N :=
  shard_n_loop (N.to_nat nodes) 1 (replica_n rp nodes) nodes.

(* the loop that shrinks [startTime, endTime) around timestamp so that it overlaps no live
   group; endI is TruncatedAt for a truncated group *)
Definition shrink (t : Z) (se : Z * Z) (g : group) : Z * Z :=
  if g_deleted g then se
  else let startI := g_start g in
       let endI := less_key g in
       let s := fst se in let e := snd se in
       let s' := if (endI <=? t) && (s <? endI) then endI else s in
       let e' := if (t <? startI) && (startI <? e) then startI else e in
       (s', e').

Fixpoint seqN (from : N) (n : nat) : list N :=
  match n with O => [] | S k => from :: seqN (from + 1)%N k end.

(* Data.CreateShardGroup(database, policy, timestamp); never returns an error here (the
   policy exists).  Returns the new metadata. *)
Definition data_create (rp : policy) (m : meta) (t : Z) : res meta :=
  if (m_nodes m =? 0)%N then Ok m
  else match by_timestamp (m_groups m) t with
  | Some _ => Ok m
  | None =>
    bind (shard_n rp (m_nodes m)) (fun shardN =>
    let start0 := truncate t (rp_sd rp) in
    let end0 := start0 + rp_sd rp in
    let end1 := if c08_max_nano_time <? end0 then c08_max_nano_time + 1 else end0 in
    (* the start is clamped to time.Unix(0, math.MinInt64) AFTER the end was computed *)
    let start1 := if start0 <? min_int64 then min_int64 else start0 in
    let se := fold_left (shrink t) (m_groups m) (start1, end1) in
    let sgid := (m_maxsg m + 1)%N in
    let g := mkG sgid (fst se) (snd se) false None (seqN (m_maxsh m + 1)%N (N.to_nat shardN)) in
    Ok (mkM (isort (m_groups m ++ [g])) sgid (m_maxsh m + shardN)%N (m_nodes m)))
  end.

(* meta.Client.CreateShardGroup: existing designated group if any; else apply the command
   and look the group up again (nil when none) *)
Definition client_create (rp : policy) (m : meta) (t : Z) : res (meta * option group) :=
  match by_timestamp (m_groups m) t with
  | Some g => Ok (m, Some g)
  | None => bind (data_create rp m t) (fun m' => Ok (m', by_timestamp (m_groups m') t))
  end.

(* ---------- sgList ---------- *)

Record sglist := mkSL { items : list group; needs_sort : bool; earliest : Z; latest : Z }.
Definition sl_empty : sglist := mkSL [] false zero_time zero_time.

(* sgList.Add *)
Definition sl_add (l : sglist) (g : group) : sglist :=
  mkSL (items l ++ [g]) true
       (if is_zero (earliest l) || (g_start g <? earliest l) then g_start g else earliest l)
       (if is_zero (latest l) || (latest l <? g_end g) then g_end g else latest l).

(* effectiveEnd (added by the fix: commit): min(EndTime, TruncatedAt) *)
Definition eff_end (g : group) : Z :=
  match g_trunc g with
  | Some ta => if ta <? g_end g then ta else g_end g
  | None => g_end g
  end.

(* sort.Search(n, f): i, j := 0, n; for i < j { h := (i+j)/2; if !f(h) {i = h+1} else {j = h} }.
   f h = None models an index-out-of-range panic inside the predicate. *)
Fixpoint bsearch (fuel : nat) (f : nat -> option bool) (i j : nat) : res nat :=
  match fuel with
  | O => Fuel
  | S k =>
      if (i <? j)%nat then
        let h := Nat.div2 (i + j) in
        match f h with
        | None => Crash
        | Some true => bsearch k f i h
        | Some false => bsearch k f (S h) j
        end
      else Ok i
  end.

(* the in-place sort.Sort(l.items) of ShardGroupAt (value receiver: the flag is reset on the
   copy only, the backing array stays sorted; re-sorting is idempotent) *)
Definition sorted_items (l : sglist) : list group :=
  if needs_sort l then isort (items l) else items l.

(* sgList.ShardGroupAt, parameterised by the end used for searching/matching:
   [endf = eff_end] is the repaired code, [endf = g_end] the pinned tree. *)
Definition sga_with (endf : group -> Z) (l : sglist) (t : Z) : res (option group) :=
  let its := sorted_items l in
  let n := length its in
  if (n =? 0)%nat then Ok None
  else
    bind (bsearch (S n) (fun h => option_map (fun g => t <? endf g) (nth_error its h)) 0 n) (fun idx =>
    let miss := if (idx =? n)%nat then Some true
                else option_map (fun g => t <? g_start g) (nth_error its idx) in
    match miss with
    | None => Crash
    | Some false => match nth_error its idx with Some g => Ok (Some g) | None => Crash end
    | Some true =>
        if (t <? earliest l) || (latest l <? t) then Ok None
        else Ok (find (fun g => contains g t && (t <? endf g)) its)
    end).

(* sgList.Covers *)
Definition covers_with (endf : group -> Z) (l : sglist) (t : Z) : res bool :=
  if (length (items l) =? 0)%nat then Ok false
  else bind (sga_with endf l t) (fun r => Ok (match r with Some _ => true | None => false end)).

(* ---------- ShardMapping ---------- *)
(* Points: shard ID -> batch positions in append order (a Go map: key order is not
   observable); Dropped: batch positions in append order *)
Record mapping := mkMap { mp_points : list (N * list nat); mp_dropped : list nat }.

Fixpoint map_point (pts : list (N * list nat)) (s : N) (i : nat) : list (N * list nat) :=
  match pts with
  | [] => [(s, [i])]
  | (k, l) :: r => if (k =? s)%N then (k, l ++ [i]) :: r else (k, l) :: map_point r s i
  end.

Fixpoint lookup (s : N) (pts : list (N * list nat)) : list nat :=
  match pts with
  | [] => []
  | (k, l) :: r => if (k =? s)%N then l else lookup s r
  end.

(* ---------- MapShards ---------- *)

(* min := time.Unix(0, MinNanoTime); if rp.Duration > 0 { min = now.Add(-rp.Duration) } *)
Definition min_time (now : Z) (rp : policy) : Z :=
  if 0 <? rp_duration rp then now - rp_duration rp else c08_min_nano_time.

(* first loop: create-if-not-covered *)
Fixpoint loop1 (endf : group -> Z) (rp : policy) (minT : Z) (pts : list point) (m : meta) (l : sglist)
  : res (meta * sglist) :=
  match pts with
  | [] => Ok (m, l)
  | p :: r =>
      if p_time p <? minT then loop1 endf rp minT r m l
      else bind (covers_with endf l (p_time p)) (fun c =>
           if c then loop1 endf rp minT r m l
           else bind (client_create rp m (p_time p)) (fun mo =>
                match snd mo with
                | None => Err                      (* errors.New("nil shard group") *)
                | Some g => loop1 endf rp minT r (fst mo) (sl_add l g)
                end))
  end.

(* what the second loop does with one point: None = dropped, Some sid = MapPoint.
   [strict] = the retention cut-off is applied in this loop too (second fix: commit). *)
Definition route_with (endf : group -> Z) (strict : bool) (minT : Z) (l : sglist) (p : point) : res (option N) :=
  bind (if strict && (p_time p <? minT) then Ok None else sga_with endf l (p_time p)) (fun og =>
  match og with
  | None => Ok None
  | Some g => bind (shard_for g (p_key p)) (fun s => Ok (Some s))
  end).

Fixpoint loop2 (endf : group -> Z) (strict : bool) (minT : Z) (l : sglist) (pts : list point) (pos : nat) (mp : mapping)
  : res mapping :=
  match pts with
  | [] => Ok mp
  | p :: r =>
      bind (route_with endf strict minT l p) (fun o =>
      match o with
      | None => loop2 endf strict minT l r (S pos) (mkMap (mp_points mp) (mp_dropped mp ++ [pos]))
      | Some s => loop2 endf strict minT l r (S pos) (mkMap (map_point (mp_points mp) s pos) (mp_dropped mp))
      end)
  end.

Definition map_shards_with (endf : group -> Z) (strict : bool) (now : Z) (rp : policy) (m : meta) (pts : list point)
  : res (meta * mapping) :=
  let minT := min_time now rp in
  bind (loop1 endf rp minT pts m sl_empty) (fun ml =>
  bind (loop2 endf strict minT (snd ml) pts 0 (mkMap [] [])) (fun mp => Ok (fst ml, mp))).

(* PointsWriter.MapShards of the repaired tree *)
Definition map_shards := map_shards_with eff_end true.
(* the pinned tree (kept for the checked refutations) *)
Definition map_shards_pinned := map_shards_with g_end false.
