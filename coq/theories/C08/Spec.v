(* C08/Spec.v — what "routed to exactly one, well-defined shard" means, independent of how
   MapShards computes it.  Read this file to know what the theorems of Props.v claim. *)
From Verif Require Import Lib.Bytes C08.Model.
From VerifGen Require Import Consts.
Open Scope Z_scope.

(* g accepts a point at time t: not deleted, Start <= t < End, and not at or after its
   truncation time *)
Definition live_covers (t : Z) (g : group) : bool :=
  negb (g_deleted g) && (g_start g <=? t) && (t <? g_end g) &&
  match g_trunc g with None => true | Some ta => t <? ta end.

(* the shard group the metadata designates for t: THE live group accepting t (None when
   there is none or more than one) *)
Definition designated (gs : list group) (t : Z) : option group :=
  match filter (live_covers t) gs with [g] => Some g | _ => None end.

(* within the group, the shard is chosen by the series key alone *)
Definition shard_of (g : group) (key : list N) : option N :=
  let n := N.of_nat (length (g_shards g)) in
  if (n =? 0)%N then None else nth_error (g_shards g) (N.to_nat (fnv64a key mod n)%N).

Definition in_retention (now : Z) (rp : policy) (t : Z) : bool := min_time now rp <=? t.

(* the routing function: a function of the resulting metadata, the cut-off and the point
   alone (not of the batch): None = dropped, Some sid = written to shard sid *)
Definition route_spec (gs : list group) (now : Z) (rp : policy) (p : point) : option N :=
  if in_retention now rp (p_time p)
  then match designated gs (p_time p) with Some g => shard_of g (p_key p) | None => None end
  else None.

(* ---- metadata invariant (hypothesis of the theorems; established for every reachable
        metadata by the C06 development; preserved by group creation: Proofs.create_preserves) ---- *)

(* well-formed group: real (non-zero) start and end times, a truncation time not after the
   end, at least one shard *)
Definition wf_group (g : group) : bool :=
  (zero_time <? g_start g) && (zero_time <? g_end g) &&
  negb (length (g_shards g) =? 0)%nat &&
  match g_trunc g with None => true | Some ta => ta <=? g_end g end.

(* live groups are pairwise disjoint on their effective ranges = no time is accepted by two
   live groups *)
Definition uniq_cover (gs : list group) : Prop :=
  forall t, (length (filter (live_covers t) gs) <= 1)%nat.

Definition meta_ok (m : meta) : Prop :=
  forallb wf_group (m_groups m) = true /\ uniq_cover (m_groups m).

(* executable form of the invariant (pairwise interval test), used on recorded cases *)
Definition eff_disjoint (a b : group) : bool :=
  g_deleted a || g_deleted b || (eff_end a <=? g_start b) || (eff_end b <=? g_start a).
Fixpoint pairwise (R : group -> group -> bool) (l : list group) : bool :=
  match l with [] => true | a :: r => forallb (R a) r && pairwise R r end.
Definition meta_ok_b (m : meta) : bool :=
  forallb wf_group (m_groups m) && pairwise eff_disjoint (m_groups m).

(* the request is within the contract of the write path: there are data nodes, the shard
   group duration is a positive int64, every point that is in retention carries a
   representable timestamp (models.CheckTime) *)
Definition params_ok (now : Z) (rp : policy) (m : meta) (pts : list point) : bool :=
  (0 <? m_nodes m)%N && (0 <? rp_sd rp) && (rp_sd rp <? 9223372036854775808) &&
  forallb (fun p => negb (in_retention now rp (p_time p)) ||
                    ((c08_min_nano_time <=? p_time p) && (p_time p <=? c08_max_nano_time))) pts.

(* ---- shape of a correct ShardMapping ---- *)

(* batch positions (counted from pos) of the points satisfying f, in batch order *)
Fixpoint sel (f : point -> bool) (pts : list point) (pos : nat) : list nat :=
  match pts with
  | [] => []
  | p :: r => if f p then pos :: sel f r (S pos) else sel f r (S pos)
  end.

Definition route_eqb (a b : option N) : bool :=
  match a, b with
  | Some x, Some y => (x =? y)%N
  | None, None => true
  | _, _ => false
  end.

(* the mapping in which every point sits exactly where [route] sends it:
   shard sid's list = the positions routed to sid, Dropped = the positions routed nowhere *)
Definition mapping_of (route : point -> option N) (pts : list point) (mp : mapping) : Prop :=
  (forall sid, lookup sid (mp_points mp) = sel (fun p => route_eqb (route p) (Some sid)) pts 0) /\
  mp_dropped mp = sel (fun p => route_eqb (route p) None) pts 0.

(* all positions held by a mapping *)
Definition all_positions (mp : mapping) : list nat := concat (map snd (mp_points mp)) ++ mp_dropped mp.
