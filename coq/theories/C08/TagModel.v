(* C08/TagModel.v — from the text a client writes to the series key MapShards hashes.
   Definitions only.  The key scanner is the one modelled for C12 (models/points.go scanKey:
   scanMeasurement, scanTags, insertion sort of the tag offsets, duplicate passes, key
   rebuild); here it is used to state and to check, on every run, that the series key - hence
   the shard - does not depend on the order in which the tags were written. *)
From Verif Require Import C12.Base C12.Scan C12.Spec.
Open Scope N_scope.

(* ",k=v" for every tag, in the given order *)
Definition render_tags8 (ts : list (bytes * bytes)) : bytes :=
  flat_map (fun t => c_comma :: (fst t ++ c_eq :: snd t)) ts.

(* the key part of a line as a client writes it: escaped measurement, escaped tags in the
   order [written] *)
Definition key_text8 (m : bytes) (written : list (bytes * bytes)) : bytes :=
  spec_escape meas_set m ++ render_tags8 (map esc_tag written).

(* the key the parser hands on for a line starting with [text] (None: line rejected / panic) *)
Definition parse_key (text : bytes) : option bytes :=
  match scan_key text 0 with Ok (_, k) => Some k | _ => None end.

(* the canonical series key of (measurement, tag set): escaped measurement, tags sorted by
   escaped key (C12/Spec.v spec_key) *)
Definition canonical_key (m : bytes) (ts : list (bytes * bytes)) : bytes :=
  spec_key (mk_apoint m ts [] None).

(* the tags in the order given by a list of positions *)
Definition permute (ts : list (bytes * bytes)) (order : list nat) : list (bytes * bytes) :=
  flat_map (fun i => match nth_error ts i with Some t => [t] | None => [] end) order.

Definition optb_eqb (a b : option bytes) : bool :=
  match a, b with Some x, Some y => bytes_eqb x y | None, None => true | _, _ => false end.

(* one observation: the tag order used, the complete line the harness sent to the real
   parser, the key of the parsed point (None = the parser rejected the line) *)
Definition key_obs := (list nat * bytes * option bytes)%type.

(* field and timestamp part the harness appends: " v=1" *)
Definition line_tail : bytes := [118; 61; 49].

Definition key_obs_agree (m : bytes) (ts : list (bytes * bytes)) (o : key_obs) : bool :=
  let '(order, text, k) := o in
  bytes_eqb text (key_text8 m (permute ts order) ++ c_space :: line_tail) &&
  optb_eqb (parse_key text) k.

Definition key_obs_spec (m : bytes) (ts : list (bytes * bytes)) (o : key_obs) : bool :=
  let '(_, _, k) := o in optb_eqb k (Some (canonical_key m ts)).
