(* C08/Run.v — correspondence cases.  One case = one metadata state (built by the harness
   through the real meta.Data methods), one batch, the observation of the real
   PointsWriter.MapShards on it (main run), and the observations of further batches made of
   points of the same batch (a shuffle, single points, a subset) run on a copy of the
   metadata the main run left behind.
   result code: 0 agree & spec, 1 differ & spec, 2 differ & not spec, 3 agree & not spec *)
From Verif Require Export Lib.Bytes C08.Model C08.Spec.
From Verif Require C08.TagModel.
From VerifGen Require Import Consts.
Open Scope Z_scope.

Definition code (agree spec_ok : bool) : N :=
  match agree, spec_ok with
  | true, true => 0 | false, true => 1 | false, false => 2 | true, false => 3
  end%N.

Fixpoint list_eqb {A} (eqb : A -> A -> bool) (a b : list A) : bool :=
  match a, b with
  | [], [] => true
  | x :: a', y :: b' => eqb x y && list_eqb eqb a' b'
  | _, _ => false
  end.

Definition optz_eqb (a b : option Z) : bool :=
  match a, b with Some x, Some y => x =? y | None, None => true | _, _ => false end.

Definition group_eqb (a b : group) : bool :=
  (g_id a =? g_id b)%N && (g_start a =? g_start b) && (g_end a =? g_end b) &&
  Bool.eqb (g_deleted a) (g_deleted b) && optz_eqb (g_trunc a) (g_trunc b) &&
  list_eqb N.eqb (g_shards a) (g_shards b).

(* metadata compared as a set of groups (the order of rpi.ShardGroups is that of sort.Sort,
   which is only determined up to ties) + the ID counters *)
Definition meta_eqb (a b : meta) : bool :=
  (length (m_groups a) =? length (m_groups b))%nat &&
  forallb (fun g => existsb (group_eqb g) (m_groups b)) (m_groups a) &&
  forallb (fun g => existsb (group_eqb g) (m_groups a)) (m_groups b) &&
  (m_maxsg a =? m_maxsg b)%N && (m_maxsh a =? m_maxsh b)%N && (m_nodes a =? m_nodes b)%N.

(* what was observed of one MapShards call.
   r_idxs: the batch, as positions of the case's point list;  r_now: wall clock just before
   the call;  r_outcome: 0 ok, 1 error returned, 2 panic, 3 ok but ShardMapping.Shards
   inconsistent with ShardMapping.Points, 4 (model only) out of fuel;  r_meta: metadata after
   the call (None = identical to the metadata the call started from);  r_points: shard ID -> positions of the batch in append order (sorted by shard
   ID);  r_dropped: positions in ShardMapping.Dropped *)
Record run := mkRun { r_idxs : list nat; r_now : Z; r_outcome : N; r_meta : option meta;
                      r_points : list (N * list nat); r_dropped : list nat }.

Definition run_meta (m0 : meta) (r : run) : meta := match r_meta r with Some m => m | None => m0 end.

Inductive case :=
| CMap (m0 : meta) (rp : policy) (pts : list point) (main : run) (subs : list run)
(* the metadata built by the history, observed before and after a Data.MarshalBinary /
   UnmarshalBinary round trip (what every data node's client cache actually holds): routing
   reads only these fields, so the round trip must be the identity on them (the model of the
   round trip is the identity) *)
| CRt (before after : meta)
(* one series (measurement, tag set with distinct keys) written as a line of line protocol with
   the tags in several orders; each line went through the real parser
   (models.ParsePointsWithPrecision) and the key of the resulting point was recorded.
   agree: the harness wrote the text the model renders, and the model of scanKey (C12) returns
   the same key; spec: every order yields THE canonical key (escaped measurement, tags sorted
   by escaped key), hence the same hash and the same shard *)
| CKey (meas : bytes) (ts : list (bytes * bytes)) (obs : list TagModel.key_obs).

(* ---------- executable spec on one observed run (compare Spec.v) ---------- *)
Definition spec_run (m0 : meta) (rp : policy) (pts : list point) (r : run) : bool :=
  let now := r_now r in
  if negb (meta_ok_b m0 && params_ok now rp m0 pts) then true   (* outside the contract: no claim *)
  else
    let n := length pts in
    let all := concat (map snd (r_points r)) ++ r_dropped r in
    (r_outcome r =? 0)%N &&
    (* no point lost, duplicated or invented: every position occurs exactly once *)
    (length all =? n)%nat &&
    forallb (fun i => (count_occ Nat.eq_dec all i =? 1)%nat) (seq 0 n) &&
    (* every point sits where the routing function of Spec.v, evaluated on the resulting
       metadata, sends it: the designated group's hash-selected shard, or Dropped iff it is
       older than the retention period *)
    forallb (fun ip =>
      match route_spec (m_groups (run_meta m0 r)) now rp (snd ip) with
      | Some s => existsb (Nat.eqb (fst ip)) (lookup s (r_points r))
      | None => negb (in_retention now rp (p_time (snd ip))) && existsb (Nat.eqb (fst ip)) (r_dropped r)
      end) (combine (seq 0 n) pts).

(* ---------- the model's run on the same input ---------- *)
Definition model_run (idxs : list nat) (now : Z) (rp : policy) (m0 : meta) (pts : list point) : run :=
  match map_shards now rp m0 pts with
  | Ok (m', mp) => mkRun idxs now 0 (Some m') (mp_points mp) (mp_dropped mp)
  | Err => mkRun idxs now 1 None [] []
  | Crash => mkRun idxs now 2 None [] []
  | Fuel => mkRun idxs now 4 None [] []
  end.

Definition agree_run (m0 : meta) (impl model : run) : bool :=
  (r_outcome impl =? r_outcome model)%N &&
  if (r_outcome impl =? 0)%N then
    meta_eqb (run_meta m0 impl) (run_meta m0 model) &&
    (length (r_points impl) =? length (r_points model))%nat &&
    forallb (fun e => list_eqb Nat.eqb (lookup (fst e) (r_points model)) (snd e)) (r_points impl) &&
    list_eqb Nat.eqb (r_dropped impl) (r_dropped model)
  else true.

Definition default_point : point := mkP [] 0.
Definition sub_batch (pts : list point) (idxs : list nat) : list point :=
  map (fun i => nth i pts default_point) idxs.
Definition idxs_ok (pts : list point) (idxs : list nat) : bool :=
  forallb (fun i => (i <? length pts)%nat) idxs.

Definition check_run (m0 : meta) (rp : policy) (pts : list point) (r : run) : bool * bool :=
  if idxs_ok pts (r_idxs r) then
    let b := sub_batch pts (r_idxs r) in
    (agree_run m0 r (model_run (r_idxs r) (r_now r) rp m0 b), spec_run m0 rp b r)
  else (false, true).

Definition check_case (c : case) : N :=
  match c with
  | CMap m0 rp pts main subs =>
      let rm := check_run m0 rp pts main in
      (* sub-batches start from the metadata the implementation left after the main batch *)
      let rs := map (check_run (run_meta m0 main) rp pts) subs in
      code (fst rm && forallb fst rs) (snd rm && forallb snd rs)
  | CRt before after => code (meta_eqb before after) (meta_eqb before after)
  | CKey meas ts obs => code (forallb (TagModel.key_obs_agree meas ts) obs) (forallb (TagModel.key_obs_spec meas ts) obs)
  end.
