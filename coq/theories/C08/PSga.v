(* C08/PSga.v — lemmas about sorting, sort.Search and sgList (Add / ShardGroupAt / Covers). *)
From Coq Require Import Permutation.
From Verif Require Import Lib.Bytes C08.Model C08.Spec.
From VerifGen Require Import Consts.
From Coq Require Import ZifyBool ZifyNat ZifyN.
Open Scope Z_scope.

(* ---------- insertion sort is a permutation ---------- *)
Lemma insert_perm x l : Permutation (insert x l) (x :: l).
Proof.
  induction l as [|h r IH]; cbn [insert]; [apply Permutation_refl|].
  destruct (less h x) eqn:E; [|apply Permutation_refl].
  eapply Permutation_trans; [apply perm_skip; exact IH|apply perm_swap].
Qed.

Lemma isort_perm l : Permutation (isort l) l.
Proof.
  induction l as [|x l IH]; cbn [isort fold_right]; [apply perm_nil|].
  eapply Permutation_trans; [apply insert_perm|]. apply perm_skip. exact IH.
Qed.

Lemma isort_in g l : In g (isort l) <-> In g l.
Proof.
  split; intros H.
  - eapply Permutation_in; [apply isort_perm|exact H].
  - eapply Permutation_in; [apply Permutation_sym; apply isort_perm|exact H].
Qed.

Lemma sorted_items_in g l : In g (sorted_items l) <-> In g (items l).
Proof. unfold sorted_items. destruct (needs_sort l); [apply isort_in|tauto]. Qed.

Lemma sorted_items_length l : length (sorted_items l) = length (items l).
Proof.
  unfold sorted_items. destruct (needs_sort l); [|reflexivity].
  apply Permutation_length. apply isort_perm.
Qed.

(* ---------- sort.Search ---------- *)
Lemma div2_bounds k : (2 * Nat.div2 k <= k <= 2 * Nat.div2 k + 1)%nat.
Proof.
  pose proof (Nat.div2_odd k) as H. destruct (Nat.odd k); cbn [Nat.b2n] in H; lia.
Qed.

(* fuel j - i + 1 suffices; the result is in range and, when it is an index, the predicate
   holds there *)
Lemma bsearch_spec f n :
  (forall h, (h < n)%nat -> f h <> None) ->
  forall fuel i j, (i <= j)%nat -> (j <= n)%nat -> (j - i < fuel)%nat ->
  ((j < n)%nat -> f j = Some true) ->
  exists idx, bsearch fuel f i j = Ok idx /\ (idx <= n)%nat /\ ((idx < n)%nat -> f idx = Some true).
Proof.
  intros Hf fuel. induction fuel as [|k IH]; intros i j Hij Hjn Hfuel Hj; [lia|].
  cbn [bsearch]. destruct (i <? j)%nat eqn:Elt.
  - apply Nat.ltb_lt in Elt. pose proof (div2_bounds (i + j)) as Hd.
    set (h := Nat.div2 (i + j)) in *.
    assert (Hh : (i <= h < j)%nat) by lia.
    destruct (f h) as [[|]|] eqn:Efh.
    + apply IH; try lia. intros _. exact Efh.
    + apply IH; try lia. exact Hj.
    + exfalso. apply (Hf h); [lia|exact Efh].
  - apply Nat.ltb_ge in Elt. assert (i = j) by lia. subst j.
    exists i. split; [reflexivity|]. split; [lia|exact Hj].
Qed.

(* ---------- effective end / coverage ---------- *)
Definition eff_covers (g : group) (t : Z) : bool := (g_start g <=? t) && (t <? eff_end g).

Lemma eff_end_le_end g : eff_end g <= g_end g.
Proof. unfold eff_end. destruct (g_trunc g) as [ta|]; [destruct (ta <? g_end g) eqn:E; lia|lia]. Qed.

Lemma eff_end_le_key g : eff_end g <= less_key g.
Proof. unfold eff_end, less_key. destruct (g_trunc g) as [ta|]; [destruct (ta <? g_end g) eqn:E; lia|lia]. Qed.

Lemma eff_end_wf g : wf_group g = true -> eff_end g = less_key g.
Proof.
  unfold wf_group, eff_end, less_key. intros H.
  destruct (g_trunc g) as [ta|]; [|reflexivity].
  destruct (ta <? g_end g) eqn:E; lia.
Qed.

Lemma live_covers_eff t g : live_covers t g = negb (g_deleted g) && eff_covers g t.
Proof.
  unfold live_covers, eff_covers, eff_end.
  destruct (g_deleted g); cbn [negb andb]; [reflexivity|].
  destruct (g_trunc g) as [ta|].
  - destruct (ta <? g_end g) eqn:E; lia.
  - lia.
Qed.

Lemma by_ts_pred_live t g : by_ts_pred t g = live_covers t g.
Proof.
  unfold by_ts_pred, live_covers, contains.
  destruct (g_deleted g); cbn [negb andb]; [rewrite andb_false_r; reflexivity|].
  rewrite andb_true_r. reflexivity.
Qed.

Lemma contains_eff g t : contains g t && (t <? eff_end g) = eff_covers g t.
Proof. unfold contains, eff_covers. pose proof (eff_end_le_end g). lia. Qed.

(* ---------- sgList bounds invariant ---------- *)
Definition sl_bounds (l : sglist) : Prop :=
  forall g, In g (items l) ->
    earliest l <= g_start g /\ g_end g <= latest l /\ earliest l <> zero_time /\ latest l <> zero_time.

Lemma sl_bounds_empty : sl_bounds sl_empty.
Proof. intros g H. cbn in H. contradiction. Qed.

Lemma sl_bounds_add l g :
  sl_bounds l -> g_start g <> zero_time -> g_end g <> zero_time -> sl_bounds (sl_add l g).
Proof.
  intros Hb Hs He g' Hin. unfold sl_add in *. cbn [items earliest latest] in *.
  unfold is_zero.
  apply in_app_or in Hin. destruct Hin as [Hin|[<-|[]]].
  - specialize (Hb g' Hin). destruct Hb as (B1 & B2 & B3 & B4).
    destruct (earliest l =? zero_time) eqn:E1; [lia|].
    destruct (latest l =? zero_time) eqn:E2; [lia|]. cbn [orb].
    destruct (g_start g <? earliest l) eqn:E3; destruct (latest l <? g_end g) eqn:E4; lia.
  - destruct (earliest l =? zero_time) eqn:E1; destruct (latest l =? zero_time) eqn:E2; cbn [orb];
      destruct (g_start g <? earliest l) eqn:E3; destruct (latest l <? g_end g) eqn:E4; lia.
Qed.

(* ---------- ShardGroupAt ---------- *)

Lemma sga_pred_some (its : list group) (F : group -> bool) h :
  (h < length its)%nat -> option_map F (nth_error its h) <> None.
Proof.
  intros H. destruct (nth_error its h) eqn:E; [discriminate|].
  apply nth_error_None in E. lia.
Qed.

(* ShardGroupAt never panics nor runs out of fuel *)
Lemma sga_total l t : exists r, sga_with eff_end l t = Ok r.
Proof.
  unfold sga_with. set (its := sorted_items l). set (n := length its).
  destruct (n =? 0)%nat eqn:En; [eexists; reflexivity|].
  set (f := fun h => option_map (fun g => t <? eff_end g) (nth_error its h)).
  destruct (bsearch_spec f n (fun h Hh => sga_pred_some its _ h Hh) (S n) 0%nat n) as (idx & Hbs & Hle & _);
    try lia.
  rewrite Hbs. cbn [bind].
  destruct (idx =? n)%nat eqn:Eidx.
  - destruct ((t <? earliest l) || (latest l <? t)); eexists; reflexivity.
  - apply Nat.eqb_neq in Eidx. assert (Hlt : (idx < length its)%nat) by (fold n; lia).
    destruct (nth_error its idx) as [g|] eqn:Eg.
    + cbn [option_map]. destruct (t <? g_start g).
      * destruct ((t <? earliest l) || (latest l <? t)); eexists; reflexivity.
      * eexists; reflexivity.
    + apply nth_error_None in Eg. lia.
Qed.

(* a returned group is in the list and accepts t (start <= t < effective end) *)
Lemma sga_sound l t g :
  sga_with eff_end l t = Ok (Some g) -> In g (items l) /\ eff_covers g t = true.
Proof.
  unfold sga_with. set (its := sorted_items l). set (n := length its).
  destruct (n =? 0)%nat eqn:En; [discriminate|].
  set (f := fun h => option_map (fun g => t <? eff_end g) (nth_error its h)).
  destruct (bsearch_spec f n (fun h Hh => sga_pred_some its _ h Hh) (S n) 0%nat n) as (idx & Hbs & Hle & Hidx);
    try lia.
  rewrite Hbs. cbn [bind].
  assert (Hfind : Ok (find (fun g0 => contains g0 t && (t <? eff_end g0)) its) = Ok (Some g) ->
                  In g (items l) /\ eff_covers g t = true).
  { intros H. inversion H as [H1]. apply find_some in H1. destruct H1 as [Hin Hc].
    split; [apply sorted_items_in; exact Hin|]. rewrite contains_eff in Hc. exact Hc. }
  destruct (idx =? n)%nat eqn:Eidx.
  - destruct ((t <? earliest l) || (latest l <? t)); [discriminate|exact Hfind].
  - apply Nat.eqb_neq in Eidx. assert (Hlt : (idx < n)%nat) by lia.
    specialize (Hidx Hlt). unfold f in Hidx.
    destruct (nth_error its idx) as [g0|] eqn:Eg; [|discriminate].
    cbn [option_map] in *. assert (Hend : (t <? eff_end g0) = true) by congruence.
    destruct (t <? g_start g0) eqn:Es.
    + destruct ((t <? earliest l) || (latest l <? t)); [discriminate|exact Hfind].
    + intros H. inversion H; subst g0. split.
      * apply sorted_items_in. eapply nth_error_In. exact Eg.
      * unfold eff_covers. lia.
Qed.

(* nil means that no group of the list accepts t *)
Lemma sga_complete l t :
  sl_bounds l -> sga_with eff_end l t = Ok None ->
  forall g, In g (items l) -> eff_covers g t = false.
Proof.
  intros Hb. unfold sga_with. set (its := sorted_items l). set (n := length its).
  destruct (n =? 0)%nat eqn:En.
  { intros _ g Hin. apply Nat.eqb_eq in En. unfold n, its in En. rewrite sorted_items_length in En.
    destruct (items l); [contradiction|discriminate]. }
  set (f := fun h => option_map (fun g => t <? eff_end g) (nth_error its h)).
  destruct (bsearch_spec f n (fun h Hh => sga_pred_some its _ h Hh) (S n) 0%nat n) as (idx & Hbs & Hle & Hidx);
    try lia.
  rewrite Hbs. cbn [bind].
  assert (Hfall : (if (t <? earliest l) || (latest l <? t) then Ok None
                   else Ok (find (fun g0 => contains g0 t && (t <? eff_end g0)) its)) = Ok None ->
                  forall g, In g (items l) -> eff_covers g t = false).
  { intros H g Hin. destruct ((t <? earliest l) || (latest l <? t)) eqn:Er.
    - specialize (Hb g Hin). destruct Hb as (B1 & B2 & _). unfold eff_covers.
      pose proof (eff_end_le_end g). lia.
    - inversion H as [H1]. pose proof (find_none _ _ H1 g) as Hn. cbv beta in Hn.
      rewrite contains_eff in Hn. apply Hn. apply sorted_items_in. exact Hin. }
  destruct (idx =? n)%nat eqn:Eidx; [exact Hfall|].
  destruct (nth_error its idx) as [g0|] eqn:Eg; cbn [option_map]; [|discriminate].
  destruct (t <? g_start g0); [exact Hfall|discriminate].
Qed.

Lemma covers_total l t : exists b, covers_with eff_end l t = Ok b.
Proof.
  unfold covers_with. destruct (length (items l) =? 0)%nat; [eexists; reflexivity|].
  destruct (sga_total l t) as [r ->]. cbn [bind]. eexists; reflexivity.
Qed.

Lemma covers_true l t :
  covers_with eff_end l t = Ok true -> exists g, In g (items l) /\ eff_covers g t = true.
Proof.
  unfold covers_with. destruct (length (items l) =? 0)%nat; [discriminate|].
  destruct (sga_total l t) as [r Hr]. rewrite Hr. cbn [bind].
  destruct r as [g|]; [|discriminate]. intros _. exists g. apply sga_sound. exact Hr.
Qed.

Lemma covers_false l t :
  sl_bounds l -> covers_with eff_end l t = Ok false ->
  forall g, In g (items l) -> eff_covers g t = false.
Proof.
  intros Hb. unfold covers_with. destruct (length (items l) =? 0)%nat eqn:E.
  - intros _ g Hin. apply Nat.eqb_eq in E. destruct (items l); [contradiction|discriminate].
  - destruct (sga_total l t) as [r Hr]. rewrite Hr. cbn [bind].
    destruct r as [g|]; [discriminate|]. intros _. apply sga_complete; assumption.
Qed.
