(* C08/TagOrder.v — "every node routes a given series to the same shard regardless of tag
   order in the input": the parser model of C12 (scanKey) composed with the routing model.
   Proofs; the property theorems are restated in Props.v. *)
From Coq Require Import Permutation.
From Verif Require Import C12.Base C12.Scan C12.Spec C12.KeyComplete C12.SpecLink C08.TagModel.
From Verif Require Import C08.Model.
Open Scope Z_scope.

Lemma key_text8_is_key_text m w : key_text8 m w = key_text m w.
Proof. reflexivity. Qed.

(* what a client means: a measurement, a set of tags with distinct keys, a timestamp;
   how it writes it: the tags in some order, followed by a space and anything *)
Record written := mkW { w_meas : bytes; w_tags : list (bytes * bytes); w_order : list (bytes * bytes);
                        w_post : bytes; w_time : Z }.

Definition w_ok (w : written) : Prop :=
  akey_ok (w_meas w) (w_tags w) = true /\ NoDup (map fst (w_tags w)) /\ Permutation (w_tags w) (w_order w).

Definition w_line (w : written) : bytes := key_text8 (w_meas w) (w_order w) ++ c_space :: w_post w.

(* the model point the write path routes: key from the parser, time from the line *)
Definition w_point (w : written) : option point :=
  match parse_key (w_line w) with Some k => Some (mkP k (w_time w)) | None => None end.

Fixpoint w_points (ws : list written) : option (list point) :=
  match ws with
  | [] => Some []
  | w :: r => match w_point w, w_points r with
              | Some p, Some ps => Some (p :: ps)
              | _, _ => None
              end
  end.

(* the same series at the same time, written with the tags in a possibly different order
   (and anything after the key) *)
Definition same_series (a b : written) : Prop :=
  w_meas a = w_meas b /\ w_tags a = w_tags b /\ w_time a = w_time b.

Lemma w_point_canonical w : w_ok w ->
  w_point w = Some (mkP (canonical_key (w_meas w) (w_tags w)) (w_time w)).
Proof.
  intros [Hok [Hnd Hp]]. unfold w_point, parse_key, w_line. rewrite key_text8_is_key_text.
  pose proof (key_meaning (mk_apoint (w_meas w) (w_tags w) [] None) (w_order w) (w_post w) Hok Hnd Hp) as K.
  cbn [a_meas a_tags] in K. rewrite K. reflexivity.
Qed.

Lemma w_points_same : forall a b, Forall w_ok a -> Forall w_ok b -> Forall2 same_series a b ->
  exists ps, w_points a = Some ps /\ w_points b = Some ps /\ length ps = length a.
Proof.
  intros a b Ha Hb H. induction H as [|x y a b Hxy Hab IH].
  - exists []. repeat split.
  - inversion Ha as [|? ? Hx Ha']; subst. inversion Hb as [|? ? Hy Hb']; subst.
    destruct (IH Ha' Hb') as [ps [E1 [E2 El]]].
    destruct Hxy as [Em [Et Eti]].
    exists (mkP (canonical_key (w_meas x) (w_tags x)) (w_time x) :: ps).
    cbn [w_points]. rewrite (w_point_canonical x Hx), (w_point_canonical y Hy), E1, E2.
    rewrite <- Em, <- Et, <- Eti. repeat split. cbn [length]. rewrite El. reflexivity.
Qed.

(* what MapShards does with a batch of written lines *)
Definition route_written (now : Z) (rp : policy) (m : meta) (ws : list written) : option (res (meta * mapping)) :=
  match w_points ws with Some ps => Some (map_shards now rp m ps) | None => None end.

Theorem route_written_order_independent now rp m a b :
  Forall w_ok a -> Forall w_ok b -> Forall2 same_series a b ->
  route_written now rp m a = route_written now rp m b /\ route_written now rp m a <> None.
Proof.
  intros Ha Hb H. destruct (w_points_same a b Ha Hb H) as [ps [E1 [E2 _]]].
  unfold route_written. rewrite E1, E2. split; [reflexivity|discriminate].
Qed.

(* the executable checks of Run.v are sound for what they are used for: whenever a key
   observation passes the spec on a well-formed tag set, the implementation's key is the
   canonical one; and the model passes it for every order (link theorem) *)
Theorem model_key_meets_spec m ts order :
  akey_ok m ts = true -> NoDup (map fst ts) -> Permutation ts (permute ts order) ->
  let text := key_text8 m (permute ts order) ++ c_space :: line_tail in
  key_obs_spec m ts (order, text, parse_key text) = true.
Proof.
  intros Hok Hnd Hp text. unfold key_obs_spec, parse_key, text. rewrite key_text8_is_key_text.
  pose proof (key_meaning (mk_apoint m ts [] None) (permute ts order) line_tail Hok Hnd Hp) as K.
  cbn [a_meas a_tags] in K. rewrite K.
  unfold optb_eqb, canonical_key. apply OrderFacts.bytes_eqb_eq. reflexivity.
Qed.

Example tag_order_nonvacuous :
  let ts := [([104;111;115;116], [97]); ([104;111;115;116;45;49], [98;32;99])]%N in
  let w1 := mkW [99;112;117]%N ts ts [118]%N 5 in
  let w2 := mkW [99;112;117]%N ts (rev ts) [120]%N 5 in
  w_ok w1 /\ w_ok w2 /\ same_series w1 w2 /\ w_line w1 <> w_line w2 /\ w_point w1 = w_point w2 /\ w_point w1 <> None.
Proof.
  cbv zeta.
  assert (Hnd : NoDup (map fst [([104;111;115;116], [97]); ([104;111;115;116;45;49], [98;32;99])]%N)).
  { cbn. repeat constructor; cbn; intuition discriminate. }
  split; [|split; [|split; [|split; [|split]]]].
  - split; [reflexivity|split; [exact Hnd|apply Permutation_refl]].
  - split; [reflexivity|split; [exact Hnd|cbn [rev app w_tags w_order]; apply perm_swap]].
  - repeat split.
  - vm_compute. discriminate.
  - vm_compute. reflexivity.
  - vm_compute. discriminate.
Qed.
