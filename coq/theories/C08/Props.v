(* C08/Props.v — property theorems only.  Definitions used in the statements: Spec.v
   (designated, shard_of, in_retention, route_spec, meta_ok, params_ok, mapping_of,
   all_positions) and Model.v (map_shards = the repaired PointsWriter.MapShards,
   lookup = ShardMapping.Points[sid], mp_dropped = ShardMapping.Dropped; points are named by
   their position in the batch). *)
From Coq Require Import Permutation.
From Verif Require Import Lib.Bytes C08.Model C08.Spec C08.PSga C08.PMeta C08.Proofs C08.Run C08.PLink.
From Verif Require C08.TagModel C08.TagOrder C12.SpecLink.
From VerifGen Require Import Consts.
Open Scope Z_scope.

(* For every metadata satisfying the invariant, every policy, every clock value and every
   batch within the write-path contract, MapShards returns (no error, no panic, no fuel
   exhaustion), the resulting metadata still satisfies the invariant and keeps every
   existing group, and the ShardMapping is exactly the one in which each point sits where
   the routing function of Spec.v (a function of the resulting metadata, the cut-off and the
   point alone) sends it. *)
Theorem map_shards_meets_spec :
  forall now rp m pts, meta_ok m -> params_ok now rp m pts = true ->
  exists m' mp, map_shards now rp m pts = Ok (m', mp) /\
    meta_ok m' /\ incl (m_groups m) (m_groups m') /\
    mapping_of (route_spec (m_groups m') now rp) pts mp /\
    Permutation (all_positions mp) (seq 0 (length pts)) /\
    (forall p, In p pts -> in_retention now rp (p_time p) = true ->
       exists g s, designated (m_groups m') (p_time p) = Some g /\ shard_of g (p_key p) = Some s /\
                   route_spec (m_groups m') now rp p = Some s).
Proof. exact map_shards_spec. Qed.
Print Assumptions map_shards_meets_spec.

(* Each in-retention point (batch position i) appears in exactly one shard's list, once;
   that shard is nth (hash key mod n) of THE live group of the resulting metadata that
   accepts its timestamp (not deleted, Start <= t < End, t before the truncation time); it
   is not dropped. *)
Theorem route_unique_designated :
  forall now rp m pts m' mp,
  meta_ok m -> params_ok now rp m pts = true -> map_shards now rp m pts = Ok (m', mp) ->
  forall i p, nth_error pts i = Some p -> in_retention now rp (p_time p) = true ->
  exists g s, designated (m_groups m') (p_time p) = Some g /\ shard_of g (p_key p) = Some s /\
    In i (lookup s (mp_points mp)) /\ NoDup (lookup s (mp_points mp)) /\
    (forall sid, In i (lookup sid (mp_points mp)) -> sid = s) /\
    ~ In i (mp_dropped mp).
Proof. exact route_unique_designated_l. Qed.
Print Assumptions route_unique_designated.

(* Two MapShards calls (any initial metadata, any batches) that end in the same shard
   groups treat a point they share identically: same shard, or dropped in both. *)
Theorem route_batch_independent :
  forall now rp m1 pts1 m1' mp1 m2 pts2 m2' mp2,
  meta_ok m1 -> params_ok now rp m1 pts1 = true -> map_shards now rp m1 pts1 = Ok (m1', mp1) ->
  meta_ok m2 -> params_ok now rp m2 pts2 = true -> map_shards now rp m2 pts2 = Ok (m2', mp2) ->
  m_groups m1' = m_groups m2' ->
  forall p i1 i2, nth_error pts1 i1 = Some p -> nth_error pts2 i2 = Some p ->
    (forall sid, In i1 (lookup sid (mp_points mp1)) <-> In i2 (lookup sid (mp_points mp2))) /\
    (In i1 (mp_dropped mp1) <-> In i2 (mp_dropped mp2)).
Proof. exact route_batch_independent_l. Qed.
Print Assumptions route_batch_independent.

(* Any batch made of points of a first batch — a permutation, a sub-batch, one point alone,
   repetitions — run on the metadata the first batch left creates no group and is mapped by
   the same routing function. *)
Theorem route_rerun_stable :
  forall now rp m pts m' mp pts2,
  meta_ok m -> params_ok now rp m pts = true -> map_shards now rp m pts = Ok (m', mp) ->
  incl pts2 pts ->
  exists mp2, map_shards now rp m' pts2 = Ok (m', mp2) /\
              mapping_of (route_spec (m_groups m') now rp) pts2 mp2.
Proof. exact rerun_spec. Qed.
Print Assumptions route_rerun_stable.

(* Routing neither loses nor duplicates nor invents a point: the positions held by the
   mapping are a permutation of the batch positions, hence
   multiset(batch) = multiset(mapped) + multiset(dropped). *)
Theorem route_conserves_points :
  forall now rp m pts m' mp d,
  meta_ok m -> params_ok now rp m pts = true -> map_shards now rp m pts = Ok (m', mp) ->
  Permutation (all_positions mp) (seq 0 (length pts)) /\
  Permutation (map (fun i => nth i pts d) (concat (map snd (mp_points mp))) ++
               map (fun i => nth i pts d) (mp_dropped mp)) pts.
Proof. intros now rp m pts m' mp d. exact (route_conserves_points_l now rp m pts m' mp d). Qed.
Print Assumptions route_conserves_points.

Theorem dropped_iff_too_old :
  forall now rp m pts m' mp,
  meta_ok m -> params_ok now rp m pts = true -> map_shards now rp m pts = Ok (m', mp) ->
  forall i p, nth_error pts i = Some p ->
    (In i (mp_dropped mp) <-> in_retention now rp (p_time p) = false).
Proof. exact dropped_iff_too_old_l. Qed.
Print Assumptions dropped_iff_too_old.

(* Group creation (Client.CreateShardGroup over Data.CreateShardGroup) preserves the
   metadata invariant, keeps every group, and returns a live group accepting the timestamp. *)
Theorem create_preserves_invariant :
  forall rp m t m' og, meta_ok m -> create_ok rp m t -> client_create rp m t = Ok (m', og) ->
  meta_ok m' /\ incl (m_groups m) (m_groups m') /\ m_nodes m' = m_nodes m /\
  exists g, og = Some g /\ In g (m_groups m') /\ live_covers t g = true.
Proof. exact client_create_spec. Qed.
Print Assumptions create_preserves_invariant.

(* the executable invariant evaluated on recorded cases implies the invariant *)
Theorem executable_invariant_sound : forall m, meta_ok_b m = true -> meta_ok m.
Proof. exact meta_ok_b_ok. Qed.
Print Assumptions executable_invariant_sound.

(* The link: for ALL inputs the model's run satisfies the executable spec that Run.v
   evaluates on the implementation's observations. *)
Theorem model_meets_executable_spec :
  forall idxs now rp m0 pts, spec_run m0 rp pts (model_run idxs now rp m0 pts) = true.
Proof. exact spec_run_model. Qed.
Print Assumptions model_meets_executable_spec.

(* ---------- the two defects repaired by fix: commits, as checked refutations of the
              unrepaired code's model ---------- *)
Definition w_S : Z := 1699999200000000000.
Definition w_E : Z := 1700002800000000000.
Definition w_T : Z := 1700001000000000000.    (* truncation time, inside [S, E) *)
Definition w_rp : policy := mkRP 0 3600000000000 1.
Definition w_cpu : list N := [99; 112; 117]%N.
Definition w_m : meta := mkM [mkG 1 w_S w_E false (Some w_T) [1; 2]%N] 1 2 2.
Definition w_m2 : meta :=
  mkM [mkG 1 w_S w_E false (Some w_T) [1; 2]%N; mkG 2 w_T w_E false None [3; 4]%N] 2 4 2.

(* pinned sgList ignored TruncatedAt: a point AT the truncation time, in company of a point
   the truncated group legitimately takes, is written to the truncated group *)
Theorem route_unique_designated_pinned_refuted :
  exists now rp m pts m' mp i p sid,
    meta_ok_b m = true /\ params_ok now rp m pts = true /\
    map_shards_pinned now rp m pts = Ok (m', mp) /\
    nth_error pts i = Some p /\ in_retention now rp (p_time p) = true /\
    existsb (Nat.eqb i) (lookup sid (mp_points mp)) = true /\
    route_eqb (route_spec (m_groups m') now rp p) (Some sid) = false.
Proof.
  exists 0, w_rp, w_m, [mkP w_cpu (w_S + 5); mkP w_cpu w_T], w_m, (mkMap [(2%N, [0; 1]%nat)] []).
  exists 1%nat, (mkP w_cpu w_T), 2%N.
  vm_compute. repeat split; reflexivity.
Qed.
Print Assumptions route_unique_designated_pinned_refuted.

(* ... and to the successor group when alone: same resulting metadata, different shard *)
Theorem route_batch_independent_pinned_refuted :
  exists now rp m ptsA ptsB m' mpA mpB p iA iB sid,
    meta_ok_b m = true /\
    map_shards_pinned now rp m ptsA = Ok (m', mpA) /\ map_shards_pinned now rp m ptsB = Ok (m', mpB) /\
    nth_error ptsA iA = Some p /\ nth_error ptsB iB = Some p /\
    existsb (Nat.eqb iA) (lookup sid (mp_points mpA)) = true /\
    existsb (Nat.eqb iB) (lookup sid (mp_points mpB)) = false.
Proof.
  exists 0, w_rp, w_m2, [mkP w_cpu w_T], [mkP w_cpu (w_S + 5); mkP w_cpu w_T], w_m2.
  exists (mkMap [(4%N, [0]%nat)] []), (mkMap [(2%N, [0; 1]%nat)] []).
  exists (mkP w_cpu w_T), 0%nat, 1%nat, 4%N.
  vm_compute. repeat split; reflexivity.
Qed.
Print Assumptions route_batch_independent_pinned_refuted.

(* second defect: the cut-off was applied only when deciding to create a group, so a point
   older than the retention period was written when an in-retention point of the batch had
   pulled in a group covering it (and dropped when alone) *)
Definition w_now : Z := 1790131060000000000.
Definition w_rp2 : policy := mkRP 86400000000000 604800000000000 1.
Theorem dropped_iff_too_old_pinned_refuted :
  exists now rp m pts m' mp i p,
    meta_ok_b m = true /\ params_ok now rp m pts = true /\
    map_shards_with eff_end false now rp m pts = Ok (m', mp) /\
    nth_error pts i = Some p /\ in_retention now rp (p_time p) = false /\
    existsb (Nat.eqb i) (mp_dropped mp) = false.
Proof.
  exists w_now, w_rp2, (mkM [] 0 0 2),
         [mkP w_cpu (w_now - 86400000000000 + 60000000000); mkP w_cpu (w_now - 86400000000000 - 60000000000)].
  exists (mkM [mkG 1 1789948800000000000 1790553600000000000 false None [1; 2]%N] 1 2 2).
  exists (mkMap [(2%N, [0; 1]%nat)] []).
  exists 1%nat, (mkP w_cpu (w_now - 86400000000000 - 60000000000)).
  vm_compute. repeat split; reflexivity.
Qed.
Print Assumptions dropped_iff_too_old_pinned_refuted.

(* ---------- tag order: "every node routes a given series to the same shard regardless of tag
   order in the input".  [written] = what a client means (measurement, tag set with distinct
   keys, time) and how it wrote it (tags in some order, anything after the key); w_point = the
   point the write path routes: key = what the parser model (C12's scan_key = models/points.go
   scanKey) returns for the line, time from the line.  For every two batches that differ only
   in the order the tags were written (and in what follows the key), MapShards gets the same
   points and therefore returns the same metadata and the same ShardMapping. ---------- *)
Theorem route_tag_order_independent :
  forall now rp m (a b : list TagOrder.written),
  Forall TagOrder.w_ok a -> Forall TagOrder.w_ok b -> Forall2 TagOrder.same_series a b ->
  TagOrder.route_written now rp m a = TagOrder.route_written now rp m b /\
  TagOrder.route_written now rp m a <> None.
Proof. exact TagOrder.route_written_order_independent. Qed.
Print Assumptions route_tag_order_independent.

(* the key the parser hands to the router is the canonical one: escaped measurement, tags
   sorted by escaped key - whatever order they were written in *)
Theorem routed_key_is_canonical :
  forall w, TagOrder.w_ok w ->
  TagOrder.w_point w = Some (mkP (TagModel.canonical_key (TagOrder.w_meas w) (TagOrder.w_tags w)) (TagOrder.w_time w)).
Proof. exact TagOrder.w_point_canonical. Qed.
Print Assumptions routed_key_is_canonical.

(* link: for every well-formed series and every order, the model's key passes the
   executable key spec of Run.v (CKey cases) *)
Theorem model_key_meets_executable_spec :
  forall m ts order,
  C12.SpecLink.akey_ok m ts = true -> NoDup (map fst ts) -> Permutation ts (TagModel.permute ts order) ->
  let text := (TagModel.key_text8 m (TagModel.permute ts order) ++ 32%N :: TagModel.line_tail) in
  TagModel.key_obs_spec m ts (order, text, TagModel.parse_key text) = true.
Proof. exact TagOrder.model_key_meets_spec. Qed.
Print Assumptions model_key_meets_executable_spec.

Example tag_order_hypotheses_satisfiable :
  let ts := [([104;111;115;116], [97]); ([104;111;115;116;45;49], [98;32;99])]%N in
  let w1 := TagOrder.mkW [99;112;117]%N ts ts [118]%N 5 in
  let w2 := TagOrder.mkW [99;112;117]%N ts (rev ts) [120]%N 5 in
  TagOrder.w_ok w1 /\ TagOrder.w_ok w2 /\ TagOrder.same_series w1 w2 /\ TagOrder.w_line w1 <> TagOrder.w_line w2 /\
  TagOrder.w_point w1 = TagOrder.w_point w2 /\ TagOrder.w_point w1 <> None.
Proof. exact TagOrder.tag_order_nonvacuous. Qed.

(* ---------- non-vacuity: the hypotheses are satisfiable by non-trivial values, and the
              repaired model routes the witnesses as specified ---------- *)
Example hypotheses_satisfiable :
  meta_ok_b w_m2 = true /\
  params_ok 0 w_rp w_m2 [mkP w_cpu (w_S + 5); mkP w_cpu w_T; mkP [109; 101; 109]%N (w_E + 7)] = true.
Proof. vm_compute. split; reflexivity. Qed.

(* on the truncation witness the repaired MapShards creates the successor group [T, E) and
   sends the point at T to it (shard 4), the point before T to the truncated group (shard 2) *)
Example repaired_truncation_witness :
  map_shards 0 w_rp w_m [mkP w_cpu (w_S + 5); mkP w_cpu w_T] =
  Ok (w_m2, mkMap [(2%N, [0%nat]); (4%N, [1%nat])] []).
Proof. vm_compute. reflexivity. Qed.

Example repaired_retention_witness :
  map_shards w_now w_rp2 (mkM [] 0 0 2)
    [mkP w_cpu (w_now - 86400000000000 + 60000000000); mkP w_cpu (w_now - 86400000000000 - 60000000000)] =
  Ok (mkM [mkG 1 1789948800000000000 1790553600000000000 false None [1; 2]%N] 1 2 2,
      mkMap [(2%N, [0%nat])] [1%nat]).
Proof. vm_compute. reflexivity. Qed.

(* the first and the last representable instants: the first group starts at MinInt64 (clamped),
   the last group ends at MaxNanoTime+1 *)
Example extremes_routed :
  map_shards 0 (mkRP 0 604800000000000 1) (mkM [] 0 0 1)
    [mkP w_cpu c08_max_nano_time; mkP w_cpu c08_min_nano_time] =
  Ok (mkM [mkG 2 min_int64 (-9222854400000000000) false None [2]%N;
           mkG 1 9222940800000000000 9223372036854775807 false None [1]%N] 2 2 1,
      mkMap [(1%N, [0%nat]); (2%N, [1%nat])] []).
Proof. vm_compute. reflexivity. Qed.
